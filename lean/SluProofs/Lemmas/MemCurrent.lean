import Slu.Model.Mem
import SluProofs.Lemmas.Mem
/-
/repo as it is now (`current`: D3 and D10 repaired, D7 open): a UCOL expansion in a workspace tests
`extra` bytes but takes `2*extra`, so `top1 ≤ top2` can break.  The weaker invariant `InvC` is what
the current code does keep; it still implies that every array handed to a writer lies inside the
buffer and that no two overlap — i.e. D7 cannot cause an overrun — and that after an overshoot every
further request is refused (the factor routine returns `info > n`).
-/
namespace Slu.Mem

/-- `Inv` with `top1 ≤ top2` replaced by: either it holds, or the stack is over-committed
(`used ≥ size`, so every further request is refused) and USUB still ends below `top2` -/
structure InvC (w : Words) (s : St) : Prop where
  user : s.user = true
  nexp : 0 < s.nexp
  n0 : 0 ≤ s.n
  hdr0 : 0 ≤ s.hdrEnd - (2 * ((s.n + 1) * w.iw) + 3 * ((s.n + 1) * w.liw))
  capL0 : 0 ≤ s.capL
  capU0 : 0 ≤ s.capU
  capS0 : 0 ≤ s.capS
  capB0 : 0 ≤ s.capB
  capBU : s.capB ≤ s.capU
  c1 : s.hdrEnd ≤ s.offL
  c2 : s.offL + s.capL * w.dw ≤ s.offU
  c3 : s.offU + s.capU * w.dw ≤ s.offS
  c4 : s.offS + s.capS * w.liw ≤ s.offB
  c5 : s.offB + s.capU * w.liw ≤ s.top1
  safe : s.top1 ≤ s.top2 ∨ (s.size ≤ s.used ∧ s.offB + s.capB * w.liw ≤ s.top2)
  t2s : s.top2 ≤ s.size
  used : s.used = s.top1 + (s.size - s.top2)
  dlen : 0 ≤ s.dworkLen
  ilen : 0 ≤ s.iworkLen
  d1 : s.top2 ≤ s.dwork
  d2 : s.dwork + s.dworkLen ≤ s.iwork
  d3 : s.iwork + s.iworkLen ≤ s.size

theorem Inv.toC {w : Words} {s : St} (h : Inv w s) : InvC w s :=
  ⟨h.user, h.nexp, h.n0, h.hdr0, h.capL0, h.capU0, h.capS0, h.capB0, h.capBU, h.c1, h.c2, h.c3, h.c4, h.c5,
   Or.inl h.t12, h.t2s, h.used, h.dlen, h.ilen, h.d1, h.d2, h.d3⟩

theorem InvC.toInv {w : Words} {s : St} (h : InvC w s) (ht : s.top1 ≤ s.top2) : Inv w s :=
  ⟨h.user, h.nexp, h.n0, h.hdr0, h.capL0, h.capU0, h.capS0, h.capB0, h.capBU, h.c1, h.c2, h.c3, h.c4, h.c5,
   ht, h.t2s, h.used, h.dlen, h.ilen, h.d1, h.d2, h.d3⟩

/-- once over-committed, every request is refused and the state stays as it is -/
theorem overshoot_refuses (fx : Fixes) (h10 : fx.d10 = true) (w : Words) (hw : w.Ok) (fail : Nat → Bool) (t : MemType)
    (s : St) (hu : s.user = true) (hn : s.nexp ≠ 0) (hover : s.size ≤ s.used) :
    (memXpand fx w fail t s).1 = s := by
  rw [memXpand_eq, expand_user_later _ _ _ _ _ _ _ hu hn]
  cases hf : userFound fx w (s.nz t) t (decide (t = .USUB)) s with
  | none => rfl
  | some nl =>
    exfalso
    by_cases ht : t = .USUB
    · subst ht
      simp only [userFound, decide_true, if_true] at hf
      split at hf
      · simp at hf
      · rename_i hnf
        apply hnf
        simp only [St.full, needBytes]
        split <;> omega
    · simp only [userFound, ht, decide_false, Bool.false_eq_true, if_false] at hf
      obtain ⟨h1, h2⟩ := userSearch_spec _ _ _ _ _ _ _ _ _ hf
      have hgt : s.nz t < nl := by
        rcases h2 with h2 | h2
        · rw [h2]; exact firstLen_gt_of_d10 fx h10 _
        · exact h2 h10
      apply h1
      have ex : 0 ≤ (nl - s.nz t) * w.lword t := Int.mul_nonneg (by omega) (le_of_lt (hw.lword_pos t))
      simp only [St.full, needBytes]
      split <;> omega

/-- **/repo as it is now keeps `InvC`**: every `LUMemXpand` request, granted or refused -/
theorem memXpand_current_invC (w : Words) (hw : w.Ok) (hld : w.liw ≤ w.dw) (fail : Nat → Bool) (t : MemType) (s : St)
    (hc : InvC w s) : InvC w (memXpand current w fail t s).1 := by
  have hu := hc.user
  have hne : s.nexp ≠ 0 := ne_of_gt hc.nexp
  rcases hc.safe with h12 | ⟨hover, _⟩
  · have hinv : Inv w s := hc.toInv h12
    by_cases ht : t = .UCOL
    · subst ht
      rw [memXpand_eq, expand_user_later _ _ _ _ _ _ _ hu hne]
      cases hf : userFound current w (s.nz .UCOL) .UCOL (decide (MemType.UCOL = .USUB)) s with
      | none => exact hc
      | some nl =>
        simp only []
        have hdec : decide (MemType.UCOL = MemType.USUB) = false := by decide
        rw [hdec] at hf
        simp only [userFound, Bool.false_eq_true, if_false] at hf
        obtain ⟨h1, h2⟩ := userSearch_spec _ _ _ _ _ _ _ _ _ hf
        have hgt : s.nz .UCOL < nl := by
          rcases h2 with h2 | h2
          · rw [h2]; exact firstLen_gt_of_d10 current rfl _
          · exact h2 rfl
        simp only [St.nz, Words.lword, St.full, needBytes, current] at h1 hgt ⊢
        obtain ⟨_, hne', hn0, hh0, hL0, hU0, hS0, hB0, hBU, c1, c2, c3, c4, c5, _, t2s, hused, dl, il, d1, d2, d3⟩ := hc
        have hdw := hw.dw_pos
        have hliw := hw.liw_pos
        have e : nl * w.dw = s.capU * w.dw + (nl - s.capU) * w.dw := by ring
        have e2 : nl * w.liw = s.capU * w.liw + (nl - s.capU) * w.liw := by ring
        have ex : 0 ≤ (nl - s.capU) * w.dw := Int.mul_nonneg (by omega) (by omega)
        have ex2 : (nl - s.capU) * w.liw ≤ (nl - s.capU) * w.dw := Int.mul_le_mul_of_nonneg_left hld (by omega)
        have e5 : s.capB * w.liw ≤ s.capU * w.liw := Int.mul_le_mul_of_nonneg_right hBU (by omega)
        generalize (nl - s.capU) * w.dw = extra at *
        generalize (nl - s.capU) * w.liw = extra2 at *
        simp at h1
        constructor <;> simp [shiftAfter, St.setCap] <;> omega
    · exact (memXpand_inv' current rfl w hw hld fail t (Or.inr ht) s hinv).toC
  · rw [overshoot_refuses current rfl w hw fail t s hu hne hover]; exact hc

/-- **`InvC` still confines**: every live array inside `[0, size)`, no two overlapping — D7 cannot
produce an overrun -/
theorem invC_confined (w : Words) (hw : w.Ok) (s : St) (hc : InvC w s) :
    (∀ b ∈ s.blocks w, 0 ≤ b.1 ∧ 0 ≤ b.2 ∧ b.1 + b.2 ≤ s.size) ∧ (s.blocks w).Pairwise Disjoint := by
  obtain ⟨hu, hne, hn0, hh0, hL0, hU0, hS0, hB0, hBU, c1, c2, c3, c4, c5, hsafe, t2s, hused, dl, il, d1, d2, d3⟩ := hc
  have hdw := hw.dw_pos
  have hliw := hw.liw_pos
  rw [hw.iw] at hh0
  have e1 : 0 ≤ s.capL * w.dw := Int.mul_nonneg hL0 (by omega)
  have e2 : 0 ≤ s.capU * w.dw := Int.mul_nonneg hU0 (by omega)
  have e3 : 0 ≤ s.capS * w.liw := Int.mul_nonneg hS0 (by omega)
  have e4 : 0 ≤ s.capB * w.liw := Int.mul_nonneg hB0 (by omega)
  have e5 : s.capB * w.liw ≤ s.capU * w.liw := Int.mul_le_mul_of_nonneg_right hBU (by omega)
  have ehl : 0 ≤ (s.n + 1) * w.liw := Int.mul_nonneg (by omega) (by omega)
  have hBend : s.offB + s.capB * w.liw ≤ s.top2 := by
    rcases hsafe with h | ⟨_, h⟩
    · omega
    · exact h
  clear hsafe c5
  simp only [St.blocks, hw.iw]
  generalize s.capL * w.dw = bL at *
  generalize s.capU * w.dw = bU at *
  generalize s.capS * w.liw = bS at *
  generalize s.capB * w.liw = bB at *
  constructor
  · intro b hb
    simp only [List.mem_cons, List.mem_nil_iff, or_false] at hb
    rcases hb with h | h | h | h | h | h | h | h | h | h | h <;> subst h <;> simp <;> omega
  · simp only [List.pairwise_cons, List.mem_cons, List.mem_nil_iff, or_false, Disjoint]
    refine ⟨?_, ?_, ?_, ?_, ?_, ?_, ?_, ?_, ?_, ?_, ?_, ?_⟩ <;>
      first
        | exact List.Pairwise.nil
        | (intro b hb; rcases hb with h | h | h | h | h | h | h | h | h | h <;> subst h <;> simp <;> omega)
        | (intro b hb; rcases hb with h | h | h | h | h | h | h | h | h <;> subst h <;> simp <;> omega)
        | (intro b hb; rcases hb with h | h | h | h | h | h | h | h <;> subst h <;> simp <;> omega)
        | (intro b hb; rcases hb with h | h | h | h | h | h | h <;> subst h <;> simp <;> omega)
        | (intro b hb; rcases hb with h | h | h | h | h | h <;> subst h <;> simp <;> omega)
        | (intro b hb; rcases hb with h | h | h | h | h <;> subst h <;> simp <;> omega)
        | (intro b hb; rcases hb with h | h | h | h <;> subst h <;> simp <;> omega)
        | (intro b hb; rcases hb with h | h | h <;> subst h <;> simp <;> omega)
        | (intro b hb; rcases hb with h | h <;> subst h <;> simp <;> omega)
        | (intro b hb; subst hb; simp; omega)

end Slu.Mem
