import SluProofs.Lemmas.Symb
import SluProofs.Lemmas.SymbSound
import Mathlib.Data.List.Perm.Subperm
/-
C03 — soundness of symbolic factorization, STAGE 2: the structure predicted by `Slu.Symb.symbNaive`
(supernodes, explored lists = structure of the LAST column, U segments `[lo..last]`, relaxed supernodes)
CONTAINS the column-level structure `ColReach` / `ColStruct` of Lemmas/SymbSound.lean.

Proof: an invariant `Sem` of the column loop.  Per supernode `t` (`SNok`): explored rows are `≥ first(t)`;
for a T2 supernode the explored list is duplicate-free, contains `last(t)` and only rows `≥ last(t)`;
explored rows below `last(t)` are rows of `t`; and for every column `c` of `t` the column-level reach of
`c` below `c` stays inside `{..last(t)} ∪ expl(t)` (`down`).  Per column (`up`): the column-level reach
above the column lies in the predicted U rows or inside the column's own supernode.
The step for an ordinary column `j` (`sem_colStep`) rests on
  * `reach_closed`: the model's reach `R` is closed — a reached row inside `t` brings in `expl(t)`;
  * `colReach_cov`: every row of the column-level reach of `j` is in `R` or lies in a supernode `t` at or
    after a row of `R ∩ t` (anywhere in `t` when `t` is relaxed) — induction on the derivation of `ColReach`;
  * the T2 test (R4) `struct(j) ⊆ struct(j-1)`, `|struct(j)| = |struct(j-1)| - 1` forces
    `struct(j-1) = {j-1} ∪ struct(j)` (`subset_pigeon`), so `down` survives replacing `expl` by `struct(j)`.
A relaxed supernode (`sem_relaxStep`) needs `RelaxOk`: none of its columns has an entry above it.
-/
namespace Slu.Symb
open Slu Slu.Struct


/-! ### list facts -/

theorem reach_cons (t : SN) (rest : List SN) (col : List Nat) :
    reach (t :: rest) col = if (hits t (reach rest col)).isEmpty then reach rest col else union (reach rest col) t.expl := rfl

theorem mem_reach_of_col (sns : List SN) (col : List Nat) (r : Nat) (h : r ∈ col) : r ∈ reach sns col := by
  induction sns with
  | nil => simp [reach, mem_union, h]
  | cons t rest ih =>
    rw [reach_cons]
    split
    · exact ih
    · exact (mem_union _ _ _).mpr (Or.inl ih)

theorem mem_reach_cons (t : SN) (rest : List SN) (col : List Nat) (r : Nat) (h : r ∈ reach rest col) :
    r ∈ reach (t :: rest) col := by
  rw [reach_cons]
  split
  · exact h
  · exact (mem_union _ _ _).mpr (Or.inl h)

theorem dchain_mem (l : List SN) (b : Nat) (h : DChain l b) (t : SN) (ht : t ∈ l) : t.first ≤ t.last ∧ t.last < b := by
  induction l generalizing b with
  | nil => simp at ht
  | cons u rest ih =>
    obtain ⟨h1, h2, h3⟩ := h
    rcases List.mem_cons.mp ht with rfl | ht
    · exact ⟨h2, by omega⟩
    · have := ih _ h3 ht; exact ⟨this.1, by omega⟩

theorem dchain_cover (l : List SN) (b : Nat) (h : DChain l b) (k : Nat) (hk : k < b) :
    ∃ t ∈ l, t.first ≤ k ∧ k ≤ t.last := by
  induction l generalizing b with
  | nil => simp only [DChain] at h; omega
  | cons u rest ih =>
    obtain ⟨h1, h2, h3⟩ := h
    by_cases hku : u.first ≤ k
    · exact ⟨u, by simp, hku, by omega⟩
    · obtain ⟨t, ht, h4, h5⟩ := ih _ h3 (by omega)
      exact ⟨t, by simp [ht], h4, h5⟩

theorem dchain_unique (l : List SN) (b : Nat) (h : DChain l b) (t t' : SN) (ht : t ∈ l) (ht' : t' ∈ l) (k : Nat)
    (hk : t.first ≤ k ∧ k ≤ t.last) (hk' : t'.first ≤ k ∧ k ≤ t'.last) : t = t' := by
  induction l generalizing b with
  | nil => simp at ht
  | cons u rest ih =>
    obtain ⟨h1, h2, h3⟩ := h
    rcases List.mem_cons.mp ht with e1 | m1 <;> rcases List.mem_cons.mp ht' with e2 | m2
    · rw [e1, e2]
    · subst e1; have := dchain_mem _ _ h3 t' m2; omega
    · subst e2; have := dchain_mem _ _ h3 t m1; omega
    · exact ih _ h3 m1 m2

/-- the model's reach is closed: a reached row inside supernode `t` brings in the whole explored list of `t` -/
theorem reach_closed (sns : List SN) (b : Nat) (col : List Nat) (hd : DChain sns b)
    (hge : ∀ t ∈ sns, ∀ x ∈ t.expl, t.first ≤ x) (t : SN) (ht : t ∈ sns) (k : Nat) (hk : k ∈ reach sns col)
    (hf : t.first ≤ k) (hl : k ≤ t.last) : ∀ x ∈ t.expl, x ∈ reach sns col := by
  induction sns generalizing b with
  | nil => simp at ht
  | cons u rest ih =>
    obtain ⟨h1, h2, h3⟩ := hd
    intro x hx
    rw [reach_cons] at hk ⊢
    rcases List.mem_cons.mp ht with rfl | ht
    · split
      · rename_i hemp
        rw [hemp] at hk
        simp only [if_true] at hk
        have : k ∈ hits t (reach rest col) := (mem_hits _ _ _).mpr ⟨hk, hf, hl⟩
        rw [List.isEmpty_iff.mp hemp] at this
        simp at this
      · exact (mem_union _ _ _).mpr (Or.inr hx)
    · have htl := dchain_mem _ _ h3 t ht
      have hk' : k ∈ reach rest col := by
        split at hk
        · exact hk
        · rcases (mem_union _ _ _).mp hk with hk | hk
          · exact hk
          · have := hge u (by simp) k hk; omega
      have := ih _ h3 (fun t ht => hge t (by simp [ht])) ht hk' x hx
      split
      · exact this
      · exact (mem_union _ _ _).mpr (Or.inl this)

theorem foldl_min_le_head (h : Nat) (hs : List Nat) : hs.foldl min h ≤ h := by
  induction hs generalizing h with
  | nil => simp
  | cons y ys ih => simp only [List.foldl_cons]; have := ih (min h y); omega

theorem foldl_min_le (h : Nat) (hs : List Nat) : ∀ x ∈ h :: hs, hs.foldl min h ≤ x := by
  induction hs generalizing h with
  | nil => intro x hx; simp at hx; subst hx; simp
  | cons y ys ih =>
    intro x hx
    simp only [List.foldl_cons]
    have h0 := foldl_min_le_head (min h y) ys
    rcases List.mem_cons.mp hx with rfl | hx
    · omega
    · rcases List.mem_cons.mp hx with rfl | hx
      · omega
      · exact ih (min h y) x (by simp [hx])

theorem mem_useg_of (t : SN) (R : List Nat) (k k' : Nat) (hk' : k' ∈ R) (hf' : t.first ≤ k') (hl' : k' ≤ t.last)
    (hf : t.first ≤ k) (hl : k ≤ t.last) (hrel : t.relaxed = true ∨ k' ≤ k) : k ∈ useg t R := by
  have hm : k' ∈ hits t R := (mem_hits _ _ _).mpr ⟨hk', hf', hl'⟩
  unfold useg
  cases hh : hits t R with
  | nil => rw [hh] at hm; simp at hm
  | cons x xs =>
    simp only
    rw [mem_seg]
    refine ⟨?_, hl⟩
    rw [hh] at hm
    have := foldl_min_le x xs k' hm
    rcases hrel with hrel | hrel
    · simp [hrel, hf]
    · split
      · exact hf
      · omega

theorem mem_ucolOf (l : List SN) (R : List Nat) (t : SN) (ht : t ∈ l) (k : Nat) (hk : k ∈ useg t R) : k ∈ ucolOf l R := by
  simp only [ucolOf, List.mem_flatMap, List.mem_reverse]
  exact ⟨t, ht, hk⟩

theorem subset_pigeon (a b : List Nat) (x : Nat) (ha : a.Nodup) (hsub : ∀ y ∈ a, y ∈ b) (hx : x ∈ b) (hxa : x ∉ a)
    (hlen : a.length + 1 = b.length) : ∀ y ∈ b, y = x ∨ y ∈ a := by
  have hnd : (x :: a).Nodup := List.nodup_cons.mpr ⟨hxa, ha⟩
  have hss : x :: a ⊆ b := by
    intro y hy
    rcases List.mem_cons.mp hy with rfl | hy
    · exact hx
    · exact hsub y hy
  have hp := (List.subperm_of_subset hnd hss).perm_of_length_le (by simp; omega)
  intro y hy
  exact List.mem_cons.mp (hp.mem_iff.mpr hy)

theorem subset_iff (a b : List Nat) : subset a b = true ↔ ∀ y ∈ a, y ∈ b := by
  simp [subset, List.all_eq_true]

theorem getElem!_reverse_append_lt (pre us : List (List Nat)) (c : Nat) (h : c < us.length) :
    (pre ++ us).reverse[c]! = us.reverse[c]! := by
  rw [List.reverse_append, List.getElem!_eq_getElem?_getD, List.getElem?_append_left (by simpa using h),
    ← List.getElem!_eq_getElem?_getD]

theorem getElem!_reverse_cons_eq (u : List Nat) (us : List (List Nat)) : (u :: us).reverse[us.length]! = u := by
  rw [List.reverse_cons, List.getElem!_eq_getElem?_getD, List.getElem?_append_right (by simp)]
  simp


/-! ### the semantic invariant -/

/-- what the column-level structure knows about a finished (or growing) supernode -/
structure SNok (cols : Nat → List Nat) (t : SN) : Prop where
  ge_first : ∀ x ∈ t.expl, t.first ≤ x
  nodup : t.relaxed = false → t.expl.Nodup
  last_mem : t.relaxed = false → t.last ∈ t.expl
  ge_last : t.relaxed = false → ∀ x ∈ t.expl, t.last ≤ x
  rows : ∀ x ∈ t.expl, t.last < x → x ∈ t.rows
  down : ∀ c, t.first ≤ c → c ≤ t.last → ∀ r, ColReach cols c r → c < r → r ≤ t.last ∨ r ∈ t.expl

structure Sem (cols : Nat → List Nat) (st : St) : Prop where
  ok : ∀ t ∈ st.sns, SNok cols t
  up : ∀ t ∈ st.sns, ∀ c, t.first ≤ c → c ≤ t.last → ∀ k, ColReach cols c k → k < c →
    t.first ≤ k ∨ k ∈ st.ucols.reverse[c]!

/-- `r` is reached by the model, or lies in a supernode at or after a reached row of it (anywhere in it
when the supernode is relaxed) -/
def Cov (sns : List SN) (R : List Nat) (r : Nat) : Prop :=
  r ∈ R ∨ ∃ t ∈ sns, t.first ≤ r ∧ r ≤ t.last ∧ ∃ k ∈ R, t.first ≤ k ∧ k ≤ t.last ∧ (t.relaxed = true ∨ k < r)

theorem colReach_cov (cols : Nat → List Nat) (sns : List SN) (j : Nat) (hd : DChain sns j)
    (hok : ∀ t ∈ sns, SNok cols t) : ∀ r, ColReach cols j r → Cov sns (reach sns (cols j)) r := by
  intro r h
  induction h with
  | base hr => exact Or.inl (mem_reach_of_col _ _ _ hr)
  | @step j k r h1 hkj hkr h2 ih1 _ =>
    obtain ⟨t, ht, hf, hl⟩ := dchain_cover sns j hd k hkj
    have hcov := ih1 hd
    have hk'' : ∃ k'' ∈ reach sns (cols j), t.first ≤ k'' ∧ k'' ≤ t.last ∧ (t.relaxed = true ∨ k'' ≤ k) := by
      rcases hcov with h | ⟨t', ht', hf', hl', k', hk'R, hk'f, hk'l, hrel⟩
      · exact ⟨k, h, hf, hl, Or.inr (Nat.le_refl _)⟩
      · have := dchain_unique sns j hd t' t ht' ht k ⟨hf', hl'⟩ ⟨hf, hl⟩
        subst this
        exact ⟨k', hk'R, hk'f, hk'l, hrel.imp id Nat.le_of_lt⟩
    obtain ⟨k'', hk''R, hk''f, hk''l, hrel⟩ := hk''
    rcases (hok t ht).down k hf hl r h2 hkr with hrl | hre
    · right
      exact ⟨t, ht, by omega, hrl, k'', hk''R, hk''f, hk''l, hrel.imp id (by omega)⟩
    · left
      exact reach_closed sns j (cols j) hd (fun t ht => (hok t ht).ge_first) t ht k'' hk''R hk''f hk''l r hre

/-- rows of the column-level structure below the diagonal are reached by the model -/
theorem colReach_below (cols : Nat → List Nat) (sns : List SN) (j : Nat) (hd : DChain sns j)
    (hok : ∀ t ∈ sns, SNok cols t) (r : Nat) (h : ColReach cols j r) (hjr : j < r) : r ∈ reach sns (cols j) := by
  rcases colReach_cov cols sns j hd hok r h with h | ⟨t, ht, _, hl, _⟩
  · exact h
  · have := dchain_mem _ _ hd t ht; omega

/-- rows of the column-level reach above the diagonal lie in the U segment of their supernode -/
theorem colReach_above (cols : Nat → List Nat) (sns : List SN) (j : Nat) (hd : DChain sns j)
    (hok : ∀ t ∈ sns, SNok cols t) (k : Nat) (h : ColReach cols j k) (hkj : k < j) :
    ∃ t ∈ sns, t.first ≤ k ∧ k ≤ t.last ∧ k ∈ useg t (reach sns (cols j)) := by
  obtain ⟨t, ht, hf, hl⟩ := dchain_cover sns j hd k hkj
  refine ⟨t, ht, hf, hl, ?_⟩
  rcases colReach_cov cols sns j hd hok k h with h | ⟨t', ht', hf', hl', k', hk'R, hk'f, hk'l, hrel⟩
  · exact mem_useg_of t _ k k h hf hl hf hl (Or.inr (Nat.le_refl _))
  · have := dchain_unique sns j hd t' t ht' ht k ⟨hf', hl'⟩ ⟨hf, hl⟩
    subst this
    exact mem_useg_of t' _ k k' hk'R hk'f hk'l hf hl (hrel.imp id Nat.le_of_lt)


theorem joins_iff (maxsuper j : Nat) (sj : List Nat) (t : SN) : joins maxsuper j sj t = true ↔
    t.relaxed = false ∧ (∀ y ∈ sj, y ∈ t.expl) ∧ sj.length + 1 = t.expl.length ∧ j - t.first < maxsuper := by
  simp [joins, subset_iff, and_assoc]

theorem sem_colStep (cols : Nat → List Nat) (maxsuper j : Nat) (st : St) (hs : SInv st.sns st.ucols j)
    (h : Sem cols st) : Sem cols (colStep maxsuper (cols j) j st) := by
  have hd := sinv_dchain _ _ _ hs
  have hlen := sinv_length _ _ _ hs
  have hR := reach_nodup st.sns (cols j)
  have hbelow := colReach_below cols st.sns j hd h.ok
  have habove := colReach_above cols st.sns j hd h.ok
  revert hR hbelow habove
  generalize hRdef : reach st.sns (cols j) = R
  intro hR hbelow habove
  have hsjnd : (j :: R.filter (fun r => decide (j < r))).Nodup := sj_nodup j R hR
  have hsjge : ∀ x ∈ j :: R.filter (fun r => decide (j < r)), j ≤ x := by
    intro x hx
    rcases List.mem_cons.mp hx with rfl | hx
    · exact Nat.le_refl _
    · have := (List.mem_filter.mp hx).2; simp at this; omega
  have hsjmem : ∀ r, ColReach cols j r → j < r → r ∈ j :: R.filter (fun r => decide (j < r)) := by
    intro r hr hjr
    exact List.mem_cons_of_mem _ (List.mem_filter.mpr ⟨hbelow r hr hjr, by simpa using hjr⟩)
  -- a fresh single-column supernode
  have hfresh : SNok cols { first := j, last := j, relaxed := false, rows := j :: R.filter (fun r => decide (j < r)), expl := j :: R.filter (fun r => decide (j < r)) } := by
    refine ⟨hsjge, fun _ => hsjnd, fun _ => by simp, fun _ => hsjge, fun x hx _ => hx, ?_⟩
    intro c hc1 hc2 r hr hcr
    have : c = j := Nat.le_antisymm hc2 hc1
    subst this
    exact Or.inr (hsjmem r hr hcr)
  unfold colStep
  rw [hRdef]
  cases hsns : st.sns with
  | nil =>
    simp only
    rw [hsns] at habove
    refine ⟨fun t ht => by rw [List.mem_singleton.mp ht]; exact hfresh, ?_⟩
    intro t ht c hc1 hc2 k hk hkc
    rw [List.mem_singleton.mp ht] at hc1 hc2
    have : c = j := Nat.le_antisymm hc2 hc1
    subst this
    obtain ⟨t', ht', _⟩ := habove k hk hkc
    simp at ht'
  | cons t rest =>
    rw [hsns] at hd habove
    have hsem := h
    obtain ⟨hok, hup⟩ := h
    rw [hsns] at hok hup
    obtain ⟨hd1, hd2, hd3⟩ := hd
    simp only
    split
    · rename_i hj
      obtain ⟨hnr, hsub, hcard, _⟩ := (joins_iff _ _ _ _).mp hj
      have htok := hok t (by simp)
      have hpig := subset_pigeon _ _ t.last hsjnd hsub (htok.last_mem hnr)
        (fun hm => by have := hsjge _ hm; omega) hcard
      constructor
      · intro u hu
        rcases List.mem_cons.mp hu with rfl | hu
        · refine ⟨?_, fun _ => hsjnd, fun _ => by simp, fun _ => hsjge, ?_, ?_⟩
          · intro x hx; have := hsjge x hx; show t.first ≤ x; omega
          · intro x hx hjx
            exact htok.rows x (hsub x hx) (by show t.last < x; simp only at hjx; omega)
          · intro c hc1 hc2 r hr hcr
            simp only at hc1 hc2 ⊢
            by_cases hcj : c = j
            · subst hcj; exact Or.inr (hsjmem r hr hcr)
            · rcases htok.down c hc1 (by omega) r hr hcr with h1 | h1
              · left; omega
              · rcases hpig r h1 with h2 | h2
                · left; omega
                · exact Or.inr h2
        · exact hok u (by simp [hu])
      · intro u hu c hc1 hc2 k hk hkc
        simp only
        rcases List.mem_cons.mp hu with rfl | hu
        · simp only at hc1 hc2 ⊢
          by_cases hcj : c = j
          · subst hcj
            obtain ⟨t', ht', hf', hl', hmem⟩ := habove k hk hkc
            rcases List.mem_cons.mp ht' with rfl | ht'
            · exact Or.inl hf'
            · right
              rw [← hlen, getElem!_reverse_cons_eq]
              exact mem_ucolOf rest R t' ht' k hmem
          · have hclt : c < st.ucols.length := by omega
            rw [show (ucolOf rest R :: st.ucols) = [ucolOf rest R] ++ st.ucols from rfl,
              getElem!_reverse_append_lt _ _ _ hclt]
            exact hup t (by simp) c hc1 (by omega) k hk hkc
        · have := dchain_mem _ _ hd3 u hu
          have hclt : c < st.ucols.length := by omega
          rw [show (ucolOf rest R :: st.ucols) = [ucolOf rest R] ++ st.ucols from rfl,
            getElem!_reverse_append_lt _ _ _ hclt]
          exact hup u (by simp [hu]) c hc1 hc2 k hk hkc
    · constructor
      · intro u hu
        rcases List.mem_cons.mp hu with rfl | hu
        · exact hfresh
        · exact hok u hu
      · intro u hu c hc1 hc2 k hk hkc
        simp only
        rcases List.mem_cons.mp hu with rfl | hu
        · simp only at hc1 hc2
          have : c = j := Nat.le_antisymm hc2 hc1
          subst this
          obtain ⟨t', ht', hf', hl', hmem⟩ := habove k hk hkc
          right
          rw [← hlen, getElem!_reverse_cons_eq]
          exact mem_ucolOf (t :: rest) R t' ht' k hmem
        · have := dchain_mem _ _ (show DChain (t :: rest) j from ⟨hd1, hd2, hd3⟩) u hu
          have hclt : c < st.ucols.length := by omega
          rw [show (ucolOf (t :: rest) R :: st.ucols) = [ucolOf (t :: rest) R] ++ st.ucols from rfl,
            getElem!_reverse_append_lt _ _ _ hclt]
          exact hup u hu c hc1 hc2 k hk hkc


theorem mem_foldl_union (cols : Nat → List Nat) (is : List Nat) (acc : List Nat) (x : Nat)
    (h : x ∈ acc ∨ ∃ i ∈ is, x ∈ cols i) : x ∈ is.foldl (fun acc i => union acc (cols i)) acc := by
  induction is generalizing acc with
  | nil => rcases h with h | ⟨i, hi, _⟩; exact h; simp at hi
  | cons i is ih =>
    apply ih
    rcases h with h | ⟨k, hk, hx⟩
    · exact Or.inl ((mem_union _ _ _).mpr (Or.inl h))
    · rcases List.mem_cons.mp hk with rfl | hk
      · exact Or.inl ((mem_union _ _ _).mpr (Or.inr hx))
      · exact Or.inr ⟨k, hk, hx⟩

/-- inside a relaxed supernode `[j..k]` none of whose columns has an entry above row `j`, the column-level
reach never leaves `{j, j+1, …}` and below `k` it stays inside the union of the columns -/
theorem colReach_relaxed (cols : Nat → List Nat) (j k : Nat) (rows : List Nat)
    (hrel : ∀ c, j ≤ c → c ≤ k → ∀ r ∈ cols c, j ≤ r ∧ r ∈ rows) :
    ∀ c r, ColReach cols c r → j ≤ c → c ≤ k → j ≤ r ∧ (r ≤ k ∨ r ∈ rows) := by
  intro c r h
  induction h with
  | base hr => intro h1 h2; have := hrel _ h1 h2 _ hr; exact ⟨this.1, Or.inr this.2⟩
  | step _ hkj _ _ ih1 ih2 =>
    intro h1 h2
    have := ih1 h1 h2
    exact ih2 this.1 (by omega)

theorem sem_relaxStep (n : Nat) (cols : Nat → List Nat) (j k : Nat) (st : St) (hs : SInv st.sns st.ucols j)
    (h : Sem cols st) (hrel : ∀ c, j ≤ c → c ≤ max j (min k (n - 1)) → ∀ r ∈ cols c, j ≤ r) :
    Sem cols (relaxStep n cols j k st) := by
  have hd := sinv_dchain _ _ _ hs
  have hlen := sinv_length _ _ _ hs
  unfold relaxStep
  simp only
  generalize hk' : max j (min k (n - 1)) = k' at hrel
  generalize hrows : (seg j k').foldl (fun acc i => union acc (cols i)) [] = rows
  have hrel' : ∀ c, j ≤ c → c ≤ k' → ∀ r ∈ cols c, j ≤ r ∧ r ∈ rows := by
    intro c h1 h2 r hr
    refine ⟨hrel c h1 h2 r hr, ?_⟩
    rw [← hrows]
    exact mem_foldl_union cols _ [] r (Or.inr ⟨c, (mem_seg _ _ _).mpr ⟨h1, h2⟩, hr⟩)
  have hin := colReach_relaxed cols j k' rows hrel'
  have hge : ∀ x ∈ rows, j ≤ x := by
    intro x hx
    rw [← hrows] at hx
    rcases foldl_union_mem cols _ [] x hx with h0 | ⟨i, hi, hxi⟩
    · simp at h0
    · have := (mem_seg _ _ _).mp hi
      exact hrel i this.1 this.2 x hxi
  constructor
  · intro u hu
    rcases List.mem_cons.mp hu with rfl | hu
    · refine ⟨hge, fun hf => by simp at hf, fun hf => by simp at hf, fun hf => by simp at hf, fun x hx _ => hx, ?_⟩
      intro c hc1 hc2 r hr _
      exact (hin c r hr hc1 hc2).2
    · exact h.ok u hu
  · intro u hu c hc1 hc2 r hr hrc
    rcases List.mem_cons.mp hu with rfl | hu
    · exact Or.inl (hin c r hr hc1 hc2).1
    · have := dchain_mem _ _ hd u hu
      rw [getElem!_reverse_append_lt _ _ _ (by omega)]
      exact h.up u hu c hc1 hc2 r hr hrc

/-- the set-level fact behind R1: no column of a relaxed supernode has an entry in a row above the
supernode (rows in pivot numbering).  It holds when the supernode is a subtree of the column elimination
tree together with all its descendants. -/
def RelaxOk (n : Nat) (cols : Nat → List Nat) (relaxEnd : Nat → Option Nat) : Prop :=
  ∀ j k, relaxEnd j = some k → ∀ c, j ≤ c → c ≤ max j (min k (n - 1)) → ∀ r ∈ cols c, j ≤ r

theorem sem_new (n maxsuper : Nat) (cols : Nat → List Nat) (relaxEnd : Nat → Option Nat) (j : Nat) (st : St)
    (hrelax : RelaxOk n cols relaxEnd) (hc : SInv st.sns st.ucols j) (h : Sem cols st) :
    Sem cols (match relaxEnd j with
      | some k => relaxStep n cols j k st
      | none => colStep maxsuper (cols j) j st) := by
  cases hre : relaxEnd j with
  | some k => exact sem_relaxStep n cols j k st hc h (hrelax j k hre)
  | none => exact sem_colStep cols maxsuper j st hc h

theorem sem_step (n maxsuper : Nat) (cols : Nat → List Nat) (relaxEnd : Nat → Option Nat) (j : Nat) (st : St)
    (hrelax : RelaxOk n cols relaxEnd) (hinv : Inv n j st) (h : Sem cols st) :
    Sem cols (step n maxsuper cols relaxEnd st j) := by
  obtain ⟨⟨e, hc, hje, hen, h0⟩⟩ := hinv
  unfold step
  cases hs : st.sns with
  | nil =>
    simp only
    have he : e = 0 := by rw [hs] at hc; exact hc.1
    subst he
    have : j = 0 := by omega
    subst this
    exact sem_new n maxsuper cols relaxEnd 0 st hrelax hc h
  | cons t rest =>
    simp only
    have he : e = t.last + 1 := by rw [hs] at hc; exact hc.1
    split
    · exact h
    · have hej : e = j := by omega
      subst hej
      exact sem_new n maxsuper cols relaxEnd e st hrelax hc h

theorem run_sem (n maxsuper : Nat) (cols : Nat → List Nat) (relaxEnd : Nat → Option Nat)
    (hrelax : RelaxOk n cols relaxEnd) : Sem cols (run n maxsuper cols relaxEnd) := by
  have : ∀ k ≤ n, Sem cols ((List.range k).foldl (step n maxsuper cols relaxEnd) { sns := [], ucols := [] }) := by
    intro k hk
    induction k with
    | zero => exact ⟨fun t ht => by simp at ht, fun t ht => by simp at ht⟩
    | succ k ih =>
      rw [List.range_succ, List.foldl_append]
      exact sem_step n maxsuper cols relaxEnd k _ hrelax (inv_foldl n maxsuper cols relaxEnd k (by omega)) (ih (by omega))
  exact this n (Nat.le_refl _)

theorem seg_eq_range' (lo hi : Nat) : seg lo hi = List.range' lo (hi + 1 - lo) := by
  unfold seg
  rw [List.range'_eq_map_range]
  apply List.map_congr_left
  intro a _; omega

theorem seg_drop (lo hi k : Nat) : (seg lo hi).drop k = seg (lo + k) hi := by
  rw [seg_eq_range', seg_eq_range', List.drop_range']
  congr 1
  · omega
  · omega

/-- a row `r ≥ j` that is a column of `t` or a row of `t` below it is stored by column `j` of `t`: it lies
in the row list (R6) at or after `j`'s own position -/
theorem mem_rowList_drop (t : SN) (j r : Nat) (hf : t.first ≤ j) (hl : j ≤ t.last) (hjr : j ≤ r)
    (hr : r ≤ t.last ∨ r ∈ t.rows) : r ∈ (rowList t).drop (j - t.first) := by
  unfold rowList
  rw [List.drop_append_of_le_length (by rw [seg_length]; omega), seg_drop, show t.first + (j - t.first) = j by omega]
  by_cases h : r ≤ t.last
  · exact List.mem_append_left _ ((mem_seg _ _ _).mpr ⟨hjr, h⟩)
  · exact List.mem_append_right _ (List.mem_filter.mpr ⟨hr.resolve_left h, by simp; omega⟩)

theorem achain_supOf_spec (a : Nat) (asc : List SN) (n : Nat) (h : AChain a asc n) (j : Nat) (h1 : a ≤ j) (h2 : j < n) :
    supOf asc j < asc.length ∧ asc[supOf asc j]!.first ≤ j ∧ j ≤ asc[supOf asc j]!.last := by
  induction asc generalizing a with
  | nil => simp only [AChain] at h; omega
  | cons t ts ih =>
    obtain ⟨e1, e2, e3⟩ := h
    unfold supOf
    rw [List.findIdx_cons]
    by_cases hle : j ≤ t.last
    · have : decide (j ≤ t.last) = true := by simpa using hle
      simp only [this, cond_true, List.getElem!_cons_zero]
      exact ⟨by simp, by omega, hle⟩
    · have : decide (j ≤ t.last) = false := by simpa using hle
      simp only [this, cond_false, List.getElem!_cons_succ]
      have := ih _ e3 (by omega)
      unfold supOf at this
      exact ⟨by rw [List.length_cons]; omega, this.2⟩

/-- **Stage 2.**  The structure predicted by `symbNaive` contains the column-level structure.  For every
column `j`, `s` its supernode: every row of `struct(j)` is in the row list of `s` at or after `j`'s own
position `j - xsup[s]` (the part of the list column `j` stores), and every row of the U structure of
column `j` is a predicted U row of `j` or one of the rows `xsup[s] .. j` of the supernode's own block. -/
theorem symbNaive_contains_colStruct (n maxsuper : Nat) (cols : Nat → List Nat) (relaxEnd : Nat → Option Nat)
    (hrelax : RelaxOk n cols relaxEnd) :
    let o := symbNaive n maxsuper cols relaxEnd
    ∀ j < n,
      (∀ r, ColStruct cols j r → r ∈ (o.rows[o.supno[j]!]!).drop (j - o.xsup[o.supno[j]!]!)) ∧
      (∀ k, ColUStruct cols j k → k ∈ o.ucols[j]! ∨ (o.xsup[o.supno[j]!]! ≤ k ∧ k ≤ j)) := by
  intro o j hj
  have hch := run_achain n maxsuper cols relaxEnd
  have hsem := run_sem n maxsuper cols relaxEnd hrelax
  have hx : o.xsup = xsOf (run n maxsuper cols relaxEnd).sns.reverse n := rfl
  have hr : o.rows = (run n maxsuper cols relaxEnd).sns.reverse.map rowList := rfl
  have hu : o.ucols = (run n maxsuper cols relaxEnd).ucols.reverse := rfl
  have hsup : o.supno = (List.range n).map (supOf (run n maxsuper cols relaxEnd).sns.reverse) := rfl
  obtain ⟨hs, hf, hl⟩ := achain_supOf_spec 0 _ n hch j (Nat.zero_le _) hj
  rw [hsup, range_map_get _ _ _ hj, hx, (achain_first_next _ _ _ hch _ hs).1, hr, getElem!_map_of_lt _ _ _ hs, hu]
  generalize htdef : (run n maxsuper cols relaxEnd).sns.reverse[supOf (run n maxsuper cols relaxEnd).sns.reverse j]! = t at hf hl
  have htm : t ∈ (run n maxsuper cols relaxEnd).sns := by
    rw [← htdef]; exact List.mem_reverse.mp (getElem!_mem_of_lt _ _ hs)
  have hok := hsem.ok t htm
  constructor
  · intro r hr'
    rcases hr' with rfl | ⟨hjr, hr'⟩
    · exact mem_rowList_drop t r r hf hl (Nat.le_refl _) (Or.inl hl)
    · apply mem_rowList_drop t j r hf hl (Nat.le_of_lt hjr)
      rcases hok.down j hf hl r hr' hjr with h | h
      · exact Or.inl h
      · by_cases hrl : r ≤ t.last
        · exact Or.inl hrl
        · exact Or.inr (hok.rows r h (by omega))
  · intro k hk
    rcases hk with rfl | ⟨hkj, hk⟩
    · exact Or.inr ⟨hf, Nat.le_refl _⟩
    · rcases hsem.up t htm j hf hl k hk hkj with h | h
      · exact Or.inr ⟨h, Nat.le_of_lt hkj⟩
      · exact Or.inl h

/-! ### the column-level structure as an algorithm -/

/-- the column-level symbolic factorization of columns `0 .. j-1`: `colStep` with `maxsuper = 0` never
merges (R4 asks `j - first(t) < maxsuper`), so every column is its own supernode -/
def colRun (cols : Nat → List Nat) (j : Nat) : St :=
  (List.range j).foldl (fun st k => colStep 0 (cols k) k st) { sns := [], ucols := [] }

/-- reach of column `j`, computed by the one-pass algorithm `Symb.reach` over single-column supernodes -/
def colReachL (cols : Nat → List Nat) (j : Nat) : List Nat := reach (colRun cols j).sns (cols j)

/-- `struct(j)` as a list -/
def colStructL (cols : Nat → List Nat) (j : Nat) : List Nat :=
  j :: (colReachL cols j).filter fun r => decide (j < r)

theorem colRun_succ (cols : Nat → List Nat) (j : Nat) : colRun cols (j + 1) = colStep 0 (cols j) j (colRun cols j) := by
  simp [colRun, List.range_succ, List.foldl_append]

theorem colStep_zero (col : List Nat) (j : Nat) (st : St) :
    (colStep 0 col j st).sns =
      { first := j, last := j, relaxed := false, rows := j :: (reach st.sns col).filter (fun r => decide (j < r)), expl := j :: (reach st.sns col).filter (fun r => decide (j < r)) } :: st.sns := by
  unfold colStep
  cases hs : st.sns with
  | nil => rfl
  | cons t rest => simp [joins]

/-- single-column supernodes whose explored lists are column-level structures -/
def Single (cols : Nat → List Nat) (j : Nat) (sns : List SN) : Prop :=
  ∀ t ∈ sns, t.last < j ∧ t.first = t.last ∧ t.relaxed = false ∧
    ∀ x ∈ t.expl, x = t.first ∨ (t.first < x ∧ ColReach cols t.first x)

theorem reach_sub_colReach (cols : Nat → List Nat) (j : Nat) (sns : List SN) (h : Single cols j sns) :
    ∀ r ∈ reach sns (cols j), ColReach cols j r := by
  induction sns with
  | nil => intro r hr; exact ColReach.base (by simpa [reach, mem_union] using hr)
  | cons t rest ih =>
    have ih' := ih (fun u hu => h u (by simp [hu]))
    intro r hr
    rw [reach_cons] at hr
    split at hr
    · exact ih' r hr
    · rename_i hne
      rcases (mem_union _ _ _).mp hr with hr | hr
      · exact ih' r hr
      · obtain ⟨hlt, hfl, _, hex⟩ := h t (by simp)
        obtain ⟨k, hk⟩ := List.exists_mem_of_ne_nil (hits t (reach rest (cols j))) (fun he => hne (by rw [he]; rfl))
        obtain ⟨hkR, hkf, hkl⟩ := (mem_hits t _ k).mp hk
        have hkt : k = t.first := by omega
        rcases hex r hr with h1 | ⟨h1, h2⟩
        · rw [h1, ← hkt]; exact ih' k hkR
        · exact ColReach.step (ih' k hkR) (by omega) (by omega) (hkt ▸ h2)

theorem colRun_inv (cols : Nat → List Nat) (j : Nat) :
    SInv (colRun cols j).sns (colRun cols j).ucols j ∧ Sem cols (colRun cols j) ∧ Single cols j (colRun cols j).sns := by
  induction j with
  | zero => exact ⟨⟨rfl, rfl⟩, ⟨fun t ht => by simp [colRun] at ht, fun t ht => by simp [colRun] at ht⟩, fun t ht => by simp [colRun] at ht⟩
  | succ j ih =>
    obtain ⟨h1, h2, h3⟩ := ih
    rw [colRun_succ]
    refine ⟨sinv_colStep 0 (cols j) j _ h1, sem_colStep cols 0 j _ h1 h2, ?_⟩
    rw [colStep_zero]
    intro t ht
    rcases List.mem_cons.mp ht with rfl | ht
    · refine ⟨Nat.lt_succ_self _, rfl, rfl, ?_⟩
      intro x hx
      rcases List.mem_cons.mp hx with rfl | hx
      · exact Or.inl rfl
      · obtain ⟨hxR, hjx⟩ := List.mem_filter.mp hx
        exact Or.inr ⟨by simpa using hjx, reach_sub_colReach cols j _ h3 x hxR⟩
    · obtain ⟨a, b⟩ := h3 t ht
      exact ⟨by omega, b⟩

/-- **the inductive closure is what the one-pass algorithm computes** -/
theorem colReachL_iff (cols : Nat → List Nat) (j r : Nat) : r ∈ colReachL cols j ↔ ColReach cols j r := by
  obtain ⟨h1, h2, h3⟩ := colRun_inv cols j
  constructor
  · exact reach_sub_colReach cols j _ h3 r
  · intro h
    rcases colReach_cov cols _ j (sinv_dchain _ _ _ h1) h2.ok r h with h | ⟨t, ht, hf, hl, k, _, hkf, hkl, hrel⟩
    · exact h
    · obtain ⟨_, hfl, hnr, _⟩ := h3 t ht
      rcases hrel with hrel | hrel
      · rw [hnr] at hrel; cases hrel
      · omega

theorem colStructL_iff (cols : Nat → List Nat) (j r : Nat) : r ∈ colStructL cols j ↔ ColStruct cols j r := by
  simp only [colStructL, ColStruct, List.mem_cons, List.mem_filter, colReachL_iff, decide_eq_true_eq]
  tauto

end Slu.Symb
