import Slu.Model.Kernels
import Mathlib.Algebra.BigOperators.Group.Finset.Basic
import Mathlib.Algebra.BigOperators.Ring.Finset
import Mathlib.Algebra.BigOperators.Intervals
import Mathlib.Algebra.Field.Basic
import Mathlib.Tactic.Ring
import Mathlib.Tactic.FieldSimp
import Mathlib.Tactic.Linarith
/-
Lemmas for C14: folds as finite sums, forward / back substitution.
-/
namespace Slu.Kernels
open Finset

section sums
variable {K : Type} [AddCommMonoid K]

theorem sumTo_eq_sum (n : Nat) (f : Nat → K) : sumTo n f = ∑ j ∈ range n, f j := by
  unfold sumTo
  induction n with
  | zero => simp
  | succ n ih =>
    rw [List.range_succ, List.foldl_append, ih, Finset.sum_range_succ]
    simp
end sums

section arrays
variable {K : Type} [Inhabited K]

theorem getElem!_setIfInBounds (a : Array K) (q p : Nat) (v : K) :
    (a.setIfInBounds q v)[p]! = if q = p ∧ q < a.size then v else a[p]! := by
  simp only [Array.getElem!_eq_getD, Array.getD_eq_getD_getElem?, Array.getElem?_setIfInBounds]
  by_cases h : q = p
  · subst h
    by_cases hq : q < a.size
    · simp [hq]
    · simp [hq]
  · simp [h]

theorem slice_get (a : Array K) (off len i : Nat) (hi : i < len) : (slice a off len)[i]! = a[off + i]! := by
  simp [slice, Array.getElem!_eq_getD, Array.getD_eq_getD_getElem?, hi]

theorem slice_size (a : Array K) (off len : Nat) : (slice a off len).size = len := by simp [slice]

/-- the first `m` steps of `unslice` -/
def unsliceTo (a : Array K) (off : Nat) (v : Array K) (m : Nat) : Array K :=
  (List.range m).foldl (fun (a : Array K) i => a.setIfInBounds (off + i) v[i]!) a

theorem unsliceTo_size (a : Array K) (off : Nat) (v : Array K) (m : Nat) : (unsliceTo a off v m).size = a.size := by
  induction m with
  | zero => simp [unsliceTo]
  | succ m ih =>
    simp only [unsliceTo, List.range_succ, List.foldl_append, List.foldl_cons, List.foldl_nil, Array.size_setIfInBounds] at ih ⊢
    exact ih

theorem unsliceTo_get (a : Array K) (off : Nat) (v : Array K) (m p : Nat) :
    (unsliceTo a off v m)[p]! = if off ≤ p ∧ p < off + m ∧ p < a.size then v[p - off]! else a[p]! := by
  induction m with
  | zero =>
    have : ¬ (off ≤ p ∧ p < off + 0 ∧ p < a.size) := by omega
    rw [if_neg this]; simp [unsliceTo]
  | succ m ih =>
    have hs := unsliceTo_size a off v m
    simp only [unsliceTo, List.range_succ, List.foldl_append, List.foldl_cons, List.foldl_nil] at ih hs ⊢
    rw [getElem!_setIfInBounds, ih, hs]
    by_cases h1 : off + m = p
    · subst h1
      by_cases h2 : off + m < a.size
      · have : off ≤ off + m ∧ off + m < off + (m + 1) ∧ off + m < a.size := by omega
        simp [h2, this]
      · have a1 : ¬ (off ≤ off + m ∧ off + m < off + (m + 1) ∧ off + m < a.size) := by omega
        have a2 : ¬ (off ≤ off + m ∧ off + m < off + m ∧ off + m < a.size) := by omega
        rw [if_neg a1]; simp [h2]
    · have : (off ≤ p ∧ p < off + (m + 1) ∧ p < a.size) ↔ (off ≤ p ∧ p < off + m ∧ p < a.size) := by omega
      simp [h1, this]

theorem unslice_size (a : Array K) (off : Nat) (v : Array K) : (unslice a off v).size = a.size :=
  unsliceTo_size a off v v.size

theorem unslice_get (a : Array K) (off : Nat) (v : Array K) (p : Nat) :
    (unslice a off v)[p]! = if off ≤ p ∧ p < off + v.size ∧ p < a.size then v[p - off]! else a[p]! :=
  unsliceTo_get a off v v.size p

/-- the first `m` columns of a column-by-column update (`gstrs`, `sp_gemm`); the per-column map may depend on the column index -/
def gstrsTo (solve : Nat → Array K → Array K) (n ldb : Nat) (B : Array K) (m : Nat) : Array K :=
  (List.range m).foldl (fun (B : Array K) j => unslice B (ldb * j) (solve j (slice B (ldb * j) n))) B

theorem gstrsTo_size (solve : Nat → Array K → Array K) (n ldb : Nat) (B : Array K) (m : Nat) :
    (gstrsTo solve n ldb B m).size = B.size := by
  induction m with
  | zero => simp [gstrsTo]
  | succ m ih =>
    simp only [gstrsTo, List.range_succ, List.foldl_append, List.foldl_cons, List.foldl_nil, unslice_size] at ih ⊢
    exact ih

/-- after `m` columns: columns `< m` hold the solutions of the ORIGINAL columns, everything else is
as on entry -/
theorem gstrsTo_get (solve : Nat → Array K → Array K) (n ldb : Nat) (B : Array K) (m : Nat)
    (hs : ∀ j v, (solve j v).size = n) (hld : n ≤ ldb) (hB : ldb * m ≤ B.size) : ∀ p, p < B.size →
    (gstrsTo solve n ldb B m)[p]! =
      if p < ldb * m ∧ p % ldb < n then (solve (p / ldb) (slice B (ldb * (p / ldb)) n))[p % ldb]! else B[p]! := by
  induction m with
  | zero => intro p _; simp [gstrsTo]
  | succ m ih =>
    intro p hp
    have hB' : ldb * m ≤ B.size := by
      have : ldb * m ≤ ldb * (m + 1) := Nat.mul_le_mul_left _ (Nat.le_succ m)
      omega
    have ih := ih hB'
    have hsz := gstrsTo_size solve n ldb B m
    have hstep : gstrsTo solve n ldb B (m + 1) =
        unslice (gstrsTo solve n ldb B m) (ldb * m) (solve m (slice (gstrsTo solve n ldb B m) (ldb * m) n)) := by
      simp [gstrsTo, List.range_succ, List.foldl_append]
    -- column m of the intermediate array is still the original column m
    have hcol : slice (gstrsTo solve n ldb B m) (ldb * m) n = slice B (ldb * m) n := by
      unfold slice
      apply Array.ext
      · simp
      · intro i h1 h2
        simp only [Array.size_map, Array.size_range] at h1
        simp only [Array.getElem_map, Array.getElem_range]
        by_cases hq : ldb * m + i < B.size
        · rw [ih (ldb * m + i) hq]
          have : ¬ (ldb * m + i < ldb * m ∧ (ldb * m + i) % ldb < n) := by omega
          rw [if_neg this]
        · simp only [Array.getElem!_eq_getD, Array.getD_eq_getD_getElem?]
          rw [Array.getElem?_eq_none (by omega), Array.getElem?_eq_none (by omega)]
    rw [hstep, unslice_get, hcol, hs, hsz]
    by_cases ha : ldb * m ≤ p ∧ p < ldb * m + n ∧ p < B.size
    · rw [if_pos ha]
      have hlt : p < ldb * (m + 1) := by rw [Nat.mul_succ]; omega
      have hdiv : p / ldb = m := Nat.div_eq_of_lt_le (by rw [Nat.mul_comm]; exact ha.1) (by rw [Nat.mul_comm]; exact hlt)
      have hmod : p % ldb = p - ldb * m := by
        have := Nat.div_add_mod p ldb
        rw [hdiv] at this; omega
      have : p < ldb * (m + 1) ∧ p % ldb < n := ⟨hlt, by omega⟩
      rw [if_pos this, hdiv, hmod]
    · rw [if_neg ha, ih p hp]
      have : (p < ldb * (m + 1) ∧ p % ldb < n) ↔ (p < ldb * m ∧ p % ldb < n) := by
        constructor
        · rintro ⟨h1, h2⟩
          refine ⟨?_, h2⟩
          by_contra hge
          have hge : ldb * m ≤ p := by omega
          have hdiv : p / ldb = m := Nat.div_eq_of_lt_le (by rw [Nat.mul_comm]; exact hge) (by rw [Nat.mul_comm]; exact h1)
          have := Nat.div_add_mod p ldb
          rw [hdiv] at this
          exact ha ⟨hge, by omega, hp⟩
        · rintro ⟨h1, h2⟩
          refine ⟨?_, h2⟩
          have : ldb * m ≤ ldb * (m + 1) := Nat.mul_le_mul_left _ (Nat.le_succ m)
          omega
      simp only [this]

end arrays

section subst
variable {K : Type} [Field K]

theorem fwdSub_size (M : Nat → Nat → K) (d b : Nat → K) (n : Nat) : (fwdSub M d b n).size = n := by
  induction n with
  | zero => simp [fwdSub]
  | succ n ih => simp [fwdSub, ih]

theorem fwdSub_prefix (M : Nat → Nat → K) (d b : Nat → K) (n j : Nat) (hj : j < n) :
    (fwdSub M d b (n + 1)).getD j 0 = (fwdSub M d b n).getD j 0 := by
  have hs := fwdSub_size M d b n
  simp only [fwdSub, Array.getD_eq_getD_getElem?, Array.getElem?_push]
  have : j ≠ (fwdSub M d b n).size := by omega
  simp [this]

theorem fwdSub_stable (M : Nat → Nat → K) (d b : Nat → K) (n m j : Nat) (hj : j < n) (hnm : n ≤ m) :
    (fwdSub M d b m).getD j 0 = (fwdSub M d b n).getD j 0 := by
  induction m with
  | zero => omega
  | succ m ih =>
    by_cases h : n = m + 1
    · subst h; rfl
    · rw [fwdSub_prefix M d b m j (by omega)]; exact ih (by omega)

theorem fwdSub_last (M : Nat → Nat → K) (d b : Nat → K) (n : Nat) :
    (fwdSub M d b (n + 1)).getD n 0 =
      (b n - ∑ j ∈ range n, M n j * (fwdSub M d b n).getD j 0) / d n := by
  have hs := fwdSub_size M d b n
  simp only [fwdSub, Array.getD_eq_getD_getElem?, Array.getElem?_push, sumTo_eq_sum]
  simp [hs]

/-- forward substitution solves the lower triangular system row by row -/
theorem fwdSub_row (M : Nat → Nat → K) (d b : Nat → K) (n i : Nat) (hi : i < n) (hd : d i ≠ 0) :
    (∑ j ∈ range i, M i j * (fwdSub M d b n).getD j 0) + d i * (fwdSub M d b n).getD i 0 = b i := by
  have h1 : (fwdSub M d b n).getD i 0 = (fwdSub M d b (i + 1)).getD i 0 :=
    fwdSub_stable M d b (i + 1) n i (by omega) (by omega)
  have h2 : ∀ j ∈ range i, M i j * (fwdSub M d b n).getD j 0 = M i j * (fwdSub M d b i).getD j 0 := by
    intro j hj
    rw [fwdSub_stable M d b i n j (mem_range.mp hj) (by omega)]
  rw [Finset.sum_congr rfl h2, h1, fwdSub_last]
  field_simp
  ring

/-! back substitution -/

theorem bwdSub_length (M : Nat → Nat → K) (d b : Nat → K) (n k : Nat) : (bwdSub M d b n k).length = k := by
  induction k with
  | zero => simp [bwdSub]
  | succ k ih => simp [bwdSub, ih]

/-- entry `t` of the stage-`m` list is the head of the stage-`(m - t)` list -/
theorem bwdSub_getD (M : Nat → Nat → K) (d b : Nat → K) (n m t : Nat) (ht : t < m) :
    (bwdSub M d b n m).getD t 0 = (bwdSub M d b n (m - t)).getD 0 0 := by
  induction m generalizing t with
  | zero => omega
  | succ m ih =>
    cases t with
    | zero => rfl
    | succ s =>
      have : m + 1 - (s + 1) = m - s := by omega
      rw [this, ← ih s (by omega)]
      simp [bwdSub]

theorem bwdSub_head (M : Nat → Nat → K) (d b : Nat → K) (n k : Nat) :
    (bwdSub M d b n (k + 1)).getD 0 0 =
      (b (n - (k + 1)) - ∑ t ∈ range k, M (n - (k + 1)) (n - (k + 1) + 1 + t) * (bwdSub M d b n k).getD t 0) /
        d (n - (k + 1)) := by
  simp [bwdSub, sumTo_eq_sum]

/-- back substitution solves the upper triangular system row by row -/
theorem bwdSub_row (M : Nat → Nat → K) (d b : Nat → K) (n i : Nat) (hi : i < n) (hd : d i ≠ 0) :
    d i * (bwdSub M d b n n).getD i 0 + (∑ j ∈ Ico (i + 1) n, M i j * (bwdSub M d b n n).getD j 0) = b i := by
  have hk : n - (n - i - 1 + 1) = i := by omega
  have h1 : (bwdSub M d b n n).getD i 0 = (bwdSub M d b n (n - i - 1 + 1)).getD 0 0 := by
    rw [bwdSub_getD M d b n n i hi]; congr 2; omega
  have h2 : ∀ t ∈ range (n - i - 1), M i (i + 1 + t) * (bwdSub M d b n (n - i - 1)).getD t 0 =
      M i (i + 1 + t) * (bwdSub M d b n n).getD (i + 1 + t) 0 := by
    intro t ht
    have ht' := mem_range.mp ht
    rw [bwdSub_getD M d b n (n - i - 1) t ht', bwdSub_getD M d b n n (i + 1 + t) (by omega)]
    congr 3; omega
  rw [h1, bwdSub_head, hk, Finset.sum_congr rfl h2, Finset.sum_Ico_eq_sum_range]
  have : n - (i + 1) = n - i - 1 := by omega
  rw [this]
  field_simp
  ring

end subst
end Slu.Kernels
