/-
A fold only depends on the step function on the elements of the list.
-/
namespace Slu.Refine

theorem foldl_congr_mem {α β : Type} (f g : β → α → β) (l : List α) (b : β)
    (h : ∀ a ∈ l, ∀ acc, f acc a = g acc a) : l.foldl f b = l.foldl g b := by
  induction l generalizing b with
  | nil => rfl
  | cons a t ih =>
    simp only [List.foldl_cons]
    rw [h a List.mem_cons_self b]
    exact ih _ (fun a' ha' acc => h a' (List.mem_cons_of_mem _ ha') acc)


end Slu.Refine
