import Slu.Model.Interfere
/-
Helper lemmas for C09 (non-interference of calls with disjoint write footprints).
No Mathlib needed.
-/
namespace Slu.Interfere

variable {ι σ V : Type}

theorem agreeOn_refl (f : Loc → Bool) (s : Store V) : agreeOn f s s := fun _ _ => rfl

theorem agreeOn_symm {f : Loc → Bool} {s t : Store V} (h : agreeOn f s t) : agreeOn f t s :=
  fun x hx => (h x hx).symm

theorem agreeOn_trans {f : Loc → Bool} {s t u : Store V} (h₁ : agreeOn f s t) (h₂ : agreeOn f t u) :
    agreeOn f s u := fun x hx => (h₁ x hx).trans (h₂ x hx)

theorem acc_of_wr (p : Proc σ V) {x : Loc} (h : p.wr x = true) : p.acc x = true := by
  simp [Proc.acc, h]

theorem wr_false_of_acc_false (p : Proc σ V) {x : Loc} (h : p.acc x = false) : p.wr x = false := by
  cases hw : p.wr x with
  | false => rfl
  | true => rw [acc_of_wr p hw] at h; exact absurd h (by decide)

/-- one step alone, started from two stores that agree on the footprint -/
theorem step1_local {p : Proc σ V} (hp : p.Respects) (l : σ) {s t : Store V} (h : agreeOn p.acc s t) :
    (p.step1 (l, s)).1 = (p.step1 (l, t)).1 ∧ agreeOn p.acc (p.step1 (l, s)).2 (p.step1 (l, t)).2 := by
  rcases hp.locality l s t h with ⟨h1, h2⟩ | ⟨l', s', t', h1, h2, h3⟩
  · simp [Proc.step1, h1, h2]; exact h
  · have e1 : p.step1 (l, s) = (l', s') := by simp [Proc.step1, h1]
    have e2 : p.step1 (l, t) = (l', t') := by simp [Proc.step1, h2]
    rw [e1, e2]
    refine ⟨rfl, fun x hx => ?_⟩
    cases hw : p.wr x with
    | true => exact h3 x hw
    | false =>
      show s' x = t' x
      rw [hp.frame l s l' s' h1 x hw, hp.frame l t l' t' h2 x hw]; exact h x hx

theorem runAlone_local {p : Proc σ V} (hp : p.Respects) (k : Nat) :
    ∀ (l : σ) (s t : Store V), agreeOn p.acc s t →
      (p.runAlone k (l, s)).1 = (p.runAlone k (l, t)).1 ∧
      agreeOn p.acc (p.runAlone k (l, s)).2 (p.runAlone k (l, t)).2 := by
  induction k with
  | zero => intro l s t h; exact ⟨rfl, h⟩
  | succ k ih =>
    intro l s t h
    obtain ⟨h1, h2⟩ := step1_local hp l h
    simp only [Proc.runAlone]
    have e1 : p.step1 (l, s) = ((p.step1 (l, s)).1, (p.step1 (l, s)).2) := rfl
    have e2 : p.step1 (l, t) = ((p.step1 (l, s)).1, (p.step1 (l, t)).2) := by rw [h1]
    rw [e1, e2]
    exact ih _ _ _ h2

theorem runAlone_add (p : Proc σ V) (j k : Nat) (c : σ × Store V) :
    p.runAlone (j + k) c = p.runAlone k (p.runAlone j c) := by
  induction j generalizing c with
  | zero => simp [Proc.runAlone]
  | succ j ih =>
    have : j + 1 + k = (j + k) + 1 := by omega
    rw [this]; simp only [Proc.runAlone]; exact ih _

theorem runAlone_stuck (p : Proc σ V) (c : σ × Store V) (h : p.step c.1 c.2 = none) (k : Nat) :
    p.runAlone k c = c := by
  induction k with
  | zero => rfl
  | succ k ih =>
    simp only [Proc.runAlone]
    have : p.step1 c = c := by simp [Proc.step1, h]
    rw [this]; exact ih

section system
variable [DecidableEq ι] (ps : ι → Proc σ V)

theorem stepAt_self (i : ι) (c : Config ι σ V) :
    ((stepAt ps i c).loc i, (stepAt ps i c).st) = (ps i).step1 (c.loc i, c.st) := by
  unfold stepAt Proc.step1
  cases h : (ps i).step (c.loc i) c.st with
  | none => rfl
  | some r => obtain ⟨l', s'⟩ := r; simp

theorem stepAt_other_loc {i j : ι} (hij : j ≠ i) (c : Config ι σ V) : (stepAt ps i c).loc j = c.loc j := by
  unfold stepAt
  cases h : (ps i).step (c.loc i) c.st with
  | none => rfl
  | some r => obtain ⟨l', s'⟩ := r; simp [hij]

/-- a step of thread `i` changes the store only inside `wr i` -/
theorem stepAt_frame (hR : ∀ i, (ps i).Respects) (i : ι) (c : Config ι σ V) (x : Loc)
    (hx : (ps i).wr x = false) : (stepAt ps i c).st x = c.st x := by
  unfold stepAt
  cases h : (ps i).step (c.loc i) c.st with
  | none => rfl
  | some r => obtain ⟨l', s'⟩ := r; exact (hR i).frame _ _ _ _ h x hx

theorem stepAt_other_agree (hR : ∀ i, (ps i).Respects) (hD : NonInterf ps) {i j : ι} (hij : j ≠ i)
    (c : Config ι σ V) : agreeOn (ps j).acc (stepAt ps i c).st c.st := by
  intro x hx
  apply stepAt_frame ps hR
  cases hw : (ps i).wr x with
  | false => rfl
  | true => have := hD i j (Ne.symm hij) x hw; rw [this] at hx; exact absurd hx (by decide)

/-- **projection**: in any interleaving, what thread `i` sees and produces is what it produces when
run alone for as many steps as it was scheduled -/
theorem run_projection (hR : ∀ i, (ps i).Respects) (hD : NonInterf ps) (i : ι) (sched : List ι) :
    ∀ (c : Config ι σ V) (s0 : Store V), agreeOn (ps i).acc c.st s0 →
      (run ps sched c).loc i = ((ps i).runAlone (sched.count i) (c.loc i, s0)).1 ∧
      agreeOn (ps i).acc (run ps sched c).st ((ps i).runAlone (sched.count i) (c.loc i, s0)).2 := by
  induction sched with
  | nil => intro c s0 h; exact ⟨rfl, h⟩
  | cons j rest ih =>
    intro c s0 h
    simp only [run]
    by_cases hji : j = i
    · subst hji
      rw [List.count_cons_self]
      simp only [Proc.runAlone]
      have e := stepAt_self ps j c
      obtain ⟨h1, h2⟩ := step1_local (hR j) (c.loc j) h
      have hl : (stepAt ps j c).loc j = ((ps j).step1 (c.loc j, c.st)).1 := congrArg Prod.fst e
      have hs : (stepAt ps j c).st = ((ps j).step1 (c.loc j, c.st)).2 := congrArg Prod.snd e
      have := ih (stepAt ps j c) ((ps j).step1 (c.loc j, s0)).2 (by rw [hs]; exact h2)
      rw [hl, h1] at this
      exact this
    · have hne : (j == i) = false := by simp [hji]
      rw [List.count_cons, hne]
      simp only [Bool.false_eq_true, if_false, Nat.add_zero]
      have hij : i ≠ j := fun e => hji e.symm
      have := ih (stepAt ps j c) s0 (agreeOn_trans (stepAt_other_agree ps hR hD hij c) h)
      rw [stepAt_other_loc ps hij c] at this
      exact this

/-- locations outside every write footprint are never changed -/
theorem run_frame (hR : ∀ i, (ps i).Respects) (sched : List ι) (x : Loc) (hx : ∀ i, (ps i).wr x = false) :
    ∀ c : Config ι σ V, (run ps sched c).st x = c.st x := by
  induction sched with
  | nil => intro c; rfl
  | cons j rest ih => intro c; simp only [run]; rw [ih, stepAt_frame ps hR j c x (hx j)]

end system
end Slu.Interfere
