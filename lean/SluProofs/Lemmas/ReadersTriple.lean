import Slu.Model.Readers
import SluProofs.Lemmas.ReadersText
import Mathlib.Tactic.NormNum.Basic
import Mathlib.Tactic.Ring
/-
C16 — end-to-end round trip of SuperLU's triplet format (`readTriple` on `printTriple`).
-/
namespace Slu.Readers

/-- the entries as the reader stores them: value list `[v]` as a rational -/
def tripRat (t : Trip Nat) : Trip (List Rat) := { row := t.row, col := t.col, val := [(t.val : Rat)] }

/-! ## (a) white space in front of a number -/

theorem scanInt_space (c : Char) (s : List Char) (h : isSpace c = true) : scanInt (c :: s) = scanInt s := by
  unfold scanInt
  simp [skipWs, h]

theorem scanDec_space (c : Char) (s : List Char) (h : isSpace c = true) : scanDec (c :: s) = scanDec s := by
  unfold scanDec
  simp [skipWs, h]

theorem scanInt_natDigits_sp (k : Nat) (rest : List Char) :
    scanInt (natDigits k ++ ' ' :: rest) = some ((k : Int), ' ' :: rest) :=
  scanInt_natDigits k _ (head_cons_not_digit ' ' rest (by decide))

theorem scanInt_natDigits_nl (k : Nat) (rest : List Char) :
    scanInt (natDigits k ++ '\n' :: rest) = some ((k : Int), '\n' :: rest) :=
  scanInt_natDigits k _ (head_cons_not_digit '\n' rest (by decide))

theorem scanInt_ws_natDigits (w c : Char) (k : Nat) (rest : List Char) (hw : isSpace w = true)
    (hc : isDigit c = false) : scanInt (w :: (natDigits k ++ c :: rest)) = some ((k : Int), c :: rest) := by
  rw [scanInt_space w _ hw]
  exact scanInt_natDigits k _ (head_cons_not_digit c rest hc)

/-! ## (b) a natural number read as a decimal constant -/

theorem pow10_zero : pow10 0 = 1 := by
  unfold pow10; simp

theorem scanDec_natDigits_nl (v : Nat) (rest : List Char) :
    scanDec (natDigits v ++ '\n' :: rest) = some { val := (v : Rat), hasExp := false, rest := '\n' :: rest } := by
  obtain ⟨c, tl, hd, hc⟩ := natDigits_cons v
  have hsk : skipWs (natDigits v ++ '\n' :: rest) = natDigits v ++ '\n' :: rest := by
    rw [hd]; simp [skipWs, isSpace_of_isDigit c hc]
  have hsg : takeSign (natDigits v ++ '\n' :: rest) = (false, natDigits v ++ '\n' :: rest) := by
    rw [hd]; exact takeSign_of_isDigit c _ hc
  have hstop := takeDigits_stop (0 * 10 ^ (natDigits v).length + v) (0 + (natDigits v).length) ('\n' :: rest)
    (head_cons_not_digit '\n' rest (by decide))
  unfold scanDec
  rw [hsk, hsg]
  simp only [takeDigits_natDigits, hstop]
  simp [natDigits_ne_nil, pow10_zero]

theorem scanDec_sp_natDigits_nl (v : Nat) (rest : List Char) :
    scanDec (' ' :: (natDigits v ++ '\n' :: rest)) =
      some { val := (v : Rat), hasExp := false, rest := '\n' :: rest } := by
  rw [scanDec_space ' ' _ (by decide)]; exact scanDec_natDigits_nl v rest

/-! ## (c) one triplet line -/

theorem printTripLine_append (t : Trip Nat) (rest : List Char) :
    printTripLine t ++ rest =
      natDigits (t.row + 1) ++ ' ' :: (natDigits (t.col + 1) ++ ' ' :: (natDigits t.val ++ '\n' :: rest)) := by
  simp [printTripLine]

theorem readTriplets_step (n k : Nat) (first : Bool) (w : Char) (hw : isSpace w = true) (t : Trip Nat)
    (hr : t.row < n) (hc : t.col < n) (rest : List Char) (acc : List (Trip (List Rat))) :
    readTriplets 1 n n (k + 1) first false (w :: (printTripLine t ++ rest)) acc =
      readTriplets 1 n n k false false ('\n' :: rest) (tripRat t :: acc) := by
  rw [printTripLine_append, readTriplets]
  rw [scanInt_ws_natDigits w ' ' _ _ hw (by decide)]
  simp only [scanInt_ws_natDigits ' ' ' ' _ _ (by decide) (by decide)]
  have hzb : (if first = true then (((t.row + 1 : Nat) : Int) == 0 || ((t.col + 1 : Nat) : Int) == 0) else false)
      = false := by
    have h1 : (((t.row + 1 : Nat) : Int) == 0) = false := by rw [beq_eq_false_iff_ne]; omega
    have h2 : (((t.col + 1 : Nat) : Int) == 0) = false := by rw [beq_eq_false_iff_ne]; omega
    cases first
    · rfl
    · rw [if_pos rfl, h1, h2]; rfl
  have hrow : ((t.row + 1 : Nat) : Int) - 1 = (t.row : Int) := by omega
  have hcol : ((t.col + 1 : Nat) : Int) - 1 = (t.col : Int) := by omega
  have hb : (decide ((t.row : Int) < 0) || decide ((t.row : Int) ≥ (n : Int)) || decide ((t.col : Int) < 0)
      || decide ((t.col : Int) ≥ (n : Int))) = false := by
    simp only [Bool.or_eq_false_iff, decide_eq_false_iff_not]
    omega
  simp only [hzb, hrow, hcol, hb, Bool.false_eq_true, if_false, Int.toNat_natCast]
  simp [List.range_succ, scanDec_sp_natDigits_nl, tripRat]

/-! ## (d) all triplet lines -/

theorem readTriplets_lines (n : Nat) (ts : List (Trip Nat)) (h : ∀ t ∈ ts, t.row < n ∧ t.col < n)
    (first : Bool) (w : Char) (hw : isSpace w = true) (rest : List Char) (acc : List (Trip (List Rat))) :
    readTriplets 1 n n ts.length first false (w :: (ts.flatMap printTripLine ++ rest)) acc =
      .ok (acc.reverse ++ ts.map tripRat) := by
  induction ts generalizing first w acc with
  | nil => simp [readTriplets]; rfl
  | cons t ts ih =>
    have ht := h t (by simp)
    rw [List.length_cons, List.flatMap_cons, List.append_assoc,
      readTriplets_step n ts.length first w hw t ht.1 ht.2,
      ih (fun u hu => h u (by simp [hu])) false '\n' (by decide)]
    simp

/-! ## (e) the whole file -/

theorem readTriple_printTriple (n : Nat) (ts : List (Trip Nat)) (h : ∀ t ∈ ts, t.row < n ∧ t.col < n) :
    readTriple false (printTriple n ts) =
      .ok (resultOfCsc n n (cscOfTriplets n (ts.map tripRat)).1 (cscOfTriplets n (ts.map tripRat)).2) := by
  have e : printTriple n ts =
      natDigits n ++ ' ' :: (natDigits ts.length ++ '\n' :: (ts.flatMap printTripLine ++ [])) := by
    simp [printTriple]
  have hlines := readTriplets_lines n ts h true '\n' (by decide) [] []
  rw [e]
  unfold readTriple
  rw [scanInt_natDigits_sp]
  simp only [scanInt_ws_natDigits ' ' '\n' _ _ (by decide) (by decide)]
  have hneg : (decide ((n : Int) < 0) || decide ((ts.length : Int) < 0)) = false := by
    simp only [Bool.or_eq_false_iff, decide_eq_false_iff_not]
    omega
  simp only [hneg, Bool.false_eq_true, if_false, Int.toNat_natCast, hlines]
  rfl

/-! ## Non-vacuity -/

example : ∀ t ∈ [(⟨2, 1, 7⟩ : Trip Nat), ⟨0, 0, 12⟩, ⟨1, 2, 0⟩], t.row < 3 ∧ t.col < 3 := by decide

example : printTriple 3 [⟨2, 1, 7⟩, ⟨0, 0, 12⟩, ⟨1, 2, 0⟩] = "3 3\n3 2 7\n1 1 12\n2 3 0\n".toList := by
  simp [printTriple, printTripLine, natDigits_ge, natDigits_lt]

example : readTriple false (printTriple 3 [⟨2, 1, 7⟩, ⟨0, 0, 12⟩, ⟨1, 2, 0⟩]) =
    .ok (resultOfCsc 3 3
      (cscOfTriplets 3 ([⟨2, 1, 7⟩, ⟨0, 0, 12⟩, ⟨1, 2, 0⟩].map tripRat)).1
      (cscOfTriplets 3 ([⟨2, 1, 7⟩, ⟨0, 0, 12⟩, ⟨1, 2, 0⟩].map tripRat)).2) :=
  readTriple_printTriple 3 _ (by decide)

/-- duplicates and an empty file are covered -/
example : ∀ t ∈ [(⟨0, 0, 1⟩ : Trip Nat), ⟨0, 0, 2⟩], t.row < 1 ∧ t.col < 1 := by decide
example : ∀ t ∈ ([] : List (Trip Nat)), t.row < 0 ∧ t.col < 0 := by simp

end Slu.Readers
