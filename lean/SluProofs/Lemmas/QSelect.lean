import Slu.Model.QSelect
import SluProofs.Lemmas.IluDrop
import Mathlib.Tactic.Linarith
import Mathlib.Order.Basic
import Mathlib.Algebra.Order.Field.Rat
/-
C15 — `[sd]qselect` (Slu/Model/QSelect.lean): termination for every asymmetric `<` (Float with NaN, Float32, Rat),
the array afterwards is a permutation of the array before, and over a linear order the value returned is the element
of rank k of the descending order.
-/
namespace Slu.QSelect
open Slu.IluDrop (get!_set get!_set_ne get!_set_eq)

variable {R : Type} [Inhabited R] [LT R] [DecidableLT R]

theorem scanUp_spec (A : Array R) (lo : Nat) (val : R) (p : Nat) :
    ∀ f i, i ≤ p → p - i ≤ f →
      i ≤ scanUp A lo val p f i ∧ scanUp A lo val p f i ≤ p ∧
      (∀ x, i ≤ x → x < scanUp A lo val p f i → ¬ A[lo + x]! < val) ∧
      (scanUp A lo val p f i = p ∨ A[lo + scanUp A lo val p f i]! < val) := by
  intro f
  induction f with
  | zero =>
    intro i hi hf
    have : i = p := by omega
    subst this
    exact ⟨Nat.le_refl _, Nat.le_refl _, fun x h1 h2 => by simp [scanUp] at h2; omega, Or.inl rfl⟩
  | succ f ih =>
    intro i hi hf
    unfold scanUp
    by_cases h : ¬ (A[lo + i]! < val) ∧ i < p
    · rw [if_pos h]
      obtain ⟨a, b, c, d⟩ := ih (i + 1) (by omega) (by omega)
      refine ⟨by omega, b, fun x h1 h2 => ?_, d⟩
      by_cases hx : x = i
      · subst hx; exact h.1
      · exact c x (by omega) h2
    · rw [if_neg h]
      refine ⟨Nat.le_refl _, hi, fun x h1 h2 => by omega, ?_⟩
      by_cases h1 : i < p
      · right; by_contra h2; exact h ⟨h2, h1⟩
      · left; omega

theorem scanDown_spec (A : Array R) (lo : Nat) (val : R) (p : Nat) :
    ∀ f j, p ≤ j → j - p ≤ f →
      p ≤ scanDown A lo val p f j ∧ scanDown A lo val p f j ≤ j ∧
      (∀ x, scanDown A lo val p f j < x → x ≤ j → ¬ val < A[lo + x]!) ∧
      (scanDown A lo val p f j = p ∨ val < A[lo + scanDown A lo val p f j]!) := by
  intro f
  induction f with
  | zero =>
    intro j hj hf
    have : j = p := by omega
    subst this
    exact ⟨Nat.le_refl _, Nat.le_refl _, fun x h1 h2 => by simp [scanDown] at h1; omega, Or.inl rfl⟩
  | succ f ih =>
    intro j hj hf
    unfold scanDown
    by_cases h : ¬ (val < A[lo + j]!) ∧ p < j
    · rw [if_pos h]
      obtain ⟨a, b, c, d⟩ := ih (j - 1) (by omega) (by omega)
      refine ⟨a, by omega, fun x h1 h2 => ?_, d⟩
      by_cases hx : x = j
      · subst hx; exact h.1
      · exact c x h1 (by omega)
    · rw [if_neg h]
      refine ⟨hj, Nat.le_refl _, fun x h1 h2 => by omega, ?_⟩
      by_cases h1 : p < j
      · right; by_contra h2; exact h ⟨h2, h1⟩
      · left; omega


theorem ext_get! {α} [Inhabited α] (X Y : Array α) (hs : X.size = Y.size) (h : ∀ k, k < X.size → X[k]! = Y[k]!) : X = Y := by
  apply Array.ext hs
  intro k h1 h2
  have := h k h1
  rwa [getElem!_pos X k h1, getElem!_pos Y k h2] at this

theorem swap_get! {α} [Inhabited α] (X : Array α) (a b : Nat) (ha : a < X.size) (hb : b < X.size) (k : Nat) :
    (X.swap a b ha hb)[k]! = if k = a then X[b]! else if k = b then X[a]! else X[k]! := by
  by_cases hk : k < X.size
  · rw [getElem!_pos _ k (by simpa using hk), Array.getElem_swap' hk, getElem!_pos X b hb, getElem!_pos X a ha, getElem!_pos X k hk]
  · have h1 : ¬ k = a := by omega
    have h2 : ¬ k = b := by omega
    simp only [h1, h2, if_false]
    rw [getElem!_neg _ k (by simpa using hk), getElem!_neg X k hk]

/-- moving the hole of the partition from position `a` to position `b` (`A[a] = A[b]; p = b`) -/
theorem hole_move (A : Array R) (a b : Nat) (val : R) (ha : a < A.size) (hb : b < A.size) :
    ((A.setIfInBounds a A[b]!).setIfInBounds b val).Perm (A.setIfInBounds a val) := by
  by_cases hab : a = b
  · subst hab
    have : ((A.setIfInBounds a A[a]!).setIfInBounds a val) = A.setIfInBounds a val := by
      apply ext_get! _ _ (by simp)
      intro k _
      by_cases hk : a = k
      · subst hk; rw [get!_set_eq _ _ _ (by simpa using ha), get!_set_eq _ _ _ ha]
      · rw [get!_set_ne _ _ _ _ hk, get!_set_ne _ _ _ _ hk, get!_set_ne _ _ _ _ hk]
    rw [this]
  · have ha' : a < (A.setIfInBounds a val).size := by simpa using ha
    have hb' : b < (A.setIfInBounds a val).size := by simpa using hb
    have : ((A.setIfInBounds a A[b]!).setIfInBounds b val) = (A.setIfInBounds a val).swap a b ha' hb' := by
      apply ext_get! _ _ (by simp)
      intro k _
      rw [swap_get!]
      by_cases hk : k = a
      · subst hk
        rw [if_pos rfl, get!_set_ne _ _ _ _ (fun e => hab e.symm), get!_set_eq _ _ _ ha, get!_set_ne _ _ _ _ hab]
      · by_cases hk2 : k = b
        · subst hk2
          rw [if_neg hk, if_pos rfl, get!_set_eq _ _ _ (by simpa using hb), get!_set_eq _ _ _ ha]
        · rw [if_neg hk, if_neg hk2, get!_set_ne _ _ _ _ (fun e => hk2 e.symm), get!_set_ne _ _ _ _ (fun e => hk e.symm),
            get!_set_ne _ _ _ _ (fun e => hk e.symm)]
    rw [this]; exact Array.swap_perm ha' hb'


/-! ### the partition loop -/

/-- invariant of `while (i < j)`: `A0` is the array when the partition starts (with `A0[lo+n-1] = val`) -/
structure PInv (A0 : Array R) (lo n : Nat) (val : R) (s : PSt R) : Prop where
  size : s.A.size = A0.size
  win : lo + n ≤ A0.size
  ip : s.i ≤ s.p
  pj : s.p ≤ s.j
  jn : s.j < n
  left : ∀ x, x < s.i → ¬ s.A[lo + x]! < val
  right : ∀ x, s.j < x → x < n → ¬ val < s.A[lo + x]!
  perm : (s.A.setIfInBounds (lo + s.p) val).Perm A0
  out : ∀ y, (y < lo ∨ lo + n ≤ y) → s.A[y]! = A0[y]!
  vals : ∀ x, x < n → ∃ y, y < n ∧ s.A[lo + x]! = A0[lo + y]!

/-- first half of the loop body: the upward scan and `if (A[i] < val) { A[p] = A[i]; p = i; }` -/
def stepL (lo : Nat) (val : R) (s : PSt R) : PSt R :=
  { A := if s.A[lo + scanUp s.A lo val s.p (s.p - s.i) s.i]! < val
         then s.A.setIfInBounds (lo + s.p) s.A[lo + scanUp s.A lo val s.p (s.p - s.i) s.i]! else s.A,
    i := scanUp s.A lo val s.p (s.p - s.i) s.i, j := s.j,
    p := if s.A[lo + scanUp s.A lo val s.p (s.p - s.i) s.i]! < val then scanUp s.A lo val s.p (s.p - s.i) s.i else s.p }

/-- second half: the downward scan and `if (A[j] > val) { A[p] = A[j]; p = j; }` -/
def stepR (lo : Nat) (val : R) (s : PSt R) : PSt R :=
  { A := if val < s.A[lo + scanDown s.A lo val s.p (s.j - s.p) s.j]!
         then s.A.setIfInBounds (lo + s.p) s.A[lo + scanDown s.A lo val s.p (s.j - s.p) s.j]! else s.A,
    i := s.i, j := scanDown s.A lo val s.p (s.j - s.p) s.j,
    p := if val < s.A[lo + scanDown s.A lo val s.p (s.j - s.p) s.j]! then scanDown s.A lo val s.p (s.j - s.p) s.j else s.p }

theorem partStep_eq (lo : Nat) (val : R) (s : PSt R) : partStep lo val s = stepR lo val (stepL lo val s) := rfl

theorem stepL_inv (A0 : Array R) (lo n : Nat) (val : R) (s : PSt R) (h : PInv A0 lo n val s) :
    PInv A0 lo n val (stepL lo val s) ∧ (stepL lo val s).p = (stepL lo val s).i ∧ s.i ≤ (stepL lo val s).i ∧
    (stepL lo val s).j = s.j ∧ ((stepL lo val s).i < s.p → (stepL lo val s).A[lo + s.p]! < val) := by
  obtain ⟨size, win, ip, pj, jn, left, right, perm, out, vals⟩ := h
  obtain ⟨u1, u2, u3, u4⟩ := scanUp_spec s.A lo val s.p (s.p - s.i) s.i ip (Nat.le_refl _)
  unfold stepL
  generalize scanUp s.A lo val s.p (s.p - s.i) s.i = i' at *
  by_cases hm : s.A[lo + i']! < val
  · simp only [hm, if_true]
    refine ⟨⟨?_, win, ?_, ?_, jn, ?_, ?_, ?_, ?_, ?_⟩, trivial, u1, trivial, ?_⟩ <;> (try dsimp only)
    · simp [size]
    · exact Nat.le_refl _
    · omega
    · intro x hx
      rw [get!_set_ne _ _ _ _ (by omega)]
      by_cases h1 : x < s.i
      · exact left x h1
      · exact u3 x (by omega) hx
    · intro x h1 h2
      rw [get!_set_ne _ _ _ _ (by omega)]
      exact right x h1 h2
    · exact (hole_move s.A (lo + s.p) (lo + i') val (by omega) (by omega)).trans perm
    · intro y hy
      rw [get!_set_ne _ _ _ _ (by omega)]
      exact out y hy
    · intro x hx
      by_cases hxp : x = s.p
      · rw [hxp, get!_set_eq _ _ _ (by omega)]; exact vals i' (by omega)
      · rw [get!_set_ne _ _ _ _ (by omega)]; exact vals x hx
    · intro _
      rw [get!_set_eq _ _ _ (by omega)]; exact hm
  · simp only [hm, if_false]
    have hip : i' = s.p := by rcases u4 with h | h; exact h; exact absurd h hm
    refine ⟨⟨size, win, ?_, pj, jn, ?_, right, perm, out, vals⟩, hip.symm, u1, trivial, fun h => ?_⟩ <;> (try dsimp only)
    · omega
    · intro x hx
      by_cases h1 : x < s.i
      · exact left x h1
      · exact u3 x (by omega) hx
    · omega

theorem stepR_inv (A0 : Array R) (lo n : Nat) (val : R) (s : PSt R) (h : PInv A0 lo n val s) :
    PInv A0 lo n val (stepR lo val s) ∧ (stepR lo val s).i = s.i ∧ (stepR lo val s).j ≤ s.j ∧
    ((stepR lo val s).j = s.p ∨ (stepR lo val s).p = (stepR lo val s).j) ∧
    (¬ val < s.A[lo + s.j]! → s.p < s.j → (stepR lo val s).j < s.j) := by
  obtain ⟨size, win, ip, pj, jn, left, right, perm, out, vals⟩ := h
  obtain ⟨u1, u2, u3, u4⟩ := scanDown_spec s.A lo val s.p (s.j - s.p) s.j pj (Nat.le_refl _)
  have hprog : ¬ val < s.A[lo + s.j]! → s.p < s.j → scanDown s.A lo val s.p (s.j - s.p) s.j < s.j := by
    intro h1 h2
    rcases u4 with h | h
    · omega
    · by_contra hc
      have : scanDown s.A lo val s.p (s.j - s.p) s.j = s.j := by omega
      rw [this] at h; exact h1 h
  unfold stepR
  generalize scanDown s.A lo val s.p (s.j - s.p) s.j = j' at *
  by_cases hm : val < s.A[lo + j']!
  · simp only [hm, if_true]
    refine ⟨⟨?_, win, ?_, ?_, ?_, ?_, ?_, ?_, ?_, ?_⟩, trivial, u2, Or.inr trivial, hprog⟩ <;> (try dsimp only)
    · simp [size]
    · omega
    · exact Nat.le_refl _
    · omega
    · intro x hx
      rw [get!_set_ne _ _ _ _ (by omega)]
      exact left x hx
    · intro x h1 h2
      rw [get!_set_ne _ _ _ _ (by omega)]
      by_cases h3 : s.j < x
      · exact right x h3 h2
      · exact u3 x h1 (by omega)
    · exact (hole_move s.A (lo + s.p) (lo + j') val (by omega) (by omega)).trans perm
    · intro y hy
      rw [get!_set_ne _ _ _ _ (by omega)]
      exact out y hy
    · intro x hx
      by_cases hxp : x = s.p
      · rw [hxp, get!_set_eq _ _ _ (by omega)]; exact vals j' (by omega)
      · rw [get!_set_ne _ _ _ _ (by omega)]; exact vals x hx
  · simp only [hm, if_false]
    have hjp : j' = s.p := by rcases u4 with h | h; exact h; exact absurd h hm
    refine ⟨⟨size, win, ip, ?_, ?_, left, ?_, perm, out, vals⟩, trivial, u2, Or.inl hjp, hprog⟩ <;> (try dsimp only)
    · omega
    · omega
    · intro x h1 h2
      by_cases h3 : s.j < x
      · exact right x h3 h2
      · exact u3 x h1 (by omega)


theorem partLoop_spec (hasym : ∀ a b : R, a < b → ¬ b < a) (A0 : Array R) (lo n : Nat) (val : R) :
    ∀ f (s : PSt R), PInv A0 lo n val s → (s.i < s.j → s.p = s.j) → (s.i < s.j → s.j - s.i < f) →
      (partLoop lo val f s).2 = true ∧ PInv A0 lo n val (partLoop lo val f s).1 ∧
      ¬ (partLoop lo val f s).1.i < (partLoop lo val f s).1.j := by
  intro f
  induction f with
  | zero =>
    intro s h _ hf
    have : ¬ s.i < s.j := fun h' => by have := hf h'; omega
    simp [partLoop, this, h]
  | succ f ih =>
    intro s h hpj hf
    unfold partLoop
    by_cases hij : s.i < s.j
    · rw [if_pos hij, partStep_eq]
      obtain ⟨hL, l1, l2, l3, l4⟩ := stepL_inv A0 lo n val s h
      obtain ⟨hR, r1, r2, r3, r4⟩ := stepR_inv A0 lo n val (stepL lo val s) hL
      have hp := hpj hij
      have hf' := hf hij
      apply ih _ hR
      · intro hlt
        rcases r3 with h3 | h3
        · omega
        · exact h3
      · intro hlt
        have h1 : (stepL lo val s).i < s.p := by omega
        have h2 := l4 h1
        have h3 : ¬ val < (stepL lo val s).A[lo + (stepL lo val s).j]! := by
          rw [l3, ← hp]; exact hasym _ _ h2
        have := r4 h3 (by omega)
        omega
    · rw [if_neg hij]; exact ⟨rfl, h, hij⟩

/-- the partition of a window: postcondition -/
theorem partition_spec (hasym : ∀ a b : R, a < b → ¬ b < a) (A : Array R) (lo n : Nat) (hn : 1 ≤ n) (hw : lo + n ≤ A.size) :
    (partition A lo n).2.2 = true ∧ (partition A lo n).2.1 < n ∧
    (partition A lo n).1.Perm A ∧
    (partition A lo n).1[lo + (partition A lo n).2.1]! = A[lo + n - 1]! ∧
    (∀ x, x < (partition A lo n).2.1 → ¬ (partition A lo n).1[lo + x]! < A[lo + n - 1]!) ∧
    (∀ x, (partition A lo n).2.1 < x → x < n → ¬ A[lo + n - 1]! < (partition A lo n).1[lo + x]!) ∧
    (∀ y, (y < lo ∨ lo + n ≤ y) → (partition A lo n).1[y]! = A[y]!) ∧
    (∀ x, x < n → ∃ y, y < n ∧ (partition A lo n).1[lo + x]! = A[lo + y]!) := by
  have h0 : PInv A lo n A[lo + n - 1]! { A := A, i := 0, j := n - 1, p := n - 1 } := by
    refine ⟨rfl, hw, Nat.zero_le _, Nat.le_refl _, by dsimp only; omega, fun x hx => by dsimp only at hx; omega,
      fun x h1 h2 => by dsimp only at h1; omega, ?_, fun _ _ => rfl, fun x hx => ⟨x, hx, rfl⟩⟩
    dsimp only
    have : A.setIfInBounds (lo + (n - 1)) A[lo + n - 1]! = A := by
      apply ext_get! _ _ (by simp)
      intro k _
      by_cases hk : lo + (n - 1) = k
      · rw [← hk, get!_set_eq _ _ _ (by omega)]; congr 1; omega
      · rw [get!_set_ne _ _ _ _ hk]
    rw [this]
  obtain ⟨a, b, c⟩ := partLoop_spec hasym A lo n A[lo + n - 1]! n _ h0 (fun _ => rfl) (fun _ => by dsimp only; omega)
  unfold partition
  dsimp only
  generalize partLoop lo A[lo + n - 1]! n { A := A, i := 0, j := n - 1, p := n - 1 } = r at a b c
  obtain ⟨size, win, ip, pj, jn, left, right, perm, out, vals⟩ := b
  have hipj : r.1.i = r.1.p ∧ r.1.p = r.1.j := by omega
  refine ⟨a, by omega, perm, get!_set_eq _ _ _ (by omega), fun x hx => ?_, fun x h1 h2 => ?_, fun y hy => ?_, fun x hx => ?_⟩
  · rw [get!_set_ne _ _ _ _ (by omega)]; exact left x (by omega)
  · rw [get!_set_ne _ _ _ _ (by omega)]; exact right x (by omega) h2
  · rw [get!_set_ne _ _ _ _ (by omega)]; exact out y hy
  · by_cases hxp : x = r.1.p
    · rw [hxp, get!_set_eq _ _ _ (by omega)]; exact ⟨n - 1, by omega, by congr 1; omega⟩
    · rw [get!_set_ne _ _ _ _ (by omega)]; exact vals x hx


/-- the outer loop never runs out of fuel `> n`, and permutes the array -/
theorem qsel_some (hasym : ∀ a b : R, a < b → ¬ b < a) :
    ∀ f (A : Array R) (lo n k : Nat), 1 ≤ n → lo + n ≤ A.size → n < f → k < n →
      ∃ v A', qsel f A lo n k = some (v, A') ∧ A'.Perm A ∧ (∀ y, (y < lo ∨ lo + n ≤ y) → A'[y]! = A[y]!) := by
  intro f
  induction f with
  | zero => intro A lo n k _ _ h; omega
  | succ f ih =>
    intro A lo n k hn hw hf hk
    unfold qsel
    by_cases h1 : 1 < n
    · rw [if_pos h1]
      obtain ⟨p1, p2, p3, _, _, _, p7, _⟩ := partition_spec hasym A lo n hn hw
      have hsz : (partition A lo n).1.size = A.size := p3.size_eq
      simp only [p1, Bool.not_true, Bool.false_eq_true, if_false]
      by_cases h2 : (partition A lo n).2.1 = k
      · rw [if_pos h2]; exact ⟨_, _, rfl, p3, p7⟩
      · rw [if_neg h2]
        by_cases h3 : k < (partition A lo n).2.1
        · rw [if_pos h3]
          obtain ⟨v, A', e1, e2, e3⟩ := ih (partition A lo n).1 lo (partition A lo n).2.1 k (by omega) (by omega) (by omega) h3
          exact ⟨v, A', e1, e2.trans p3, fun y hy => by rw [e3 y (by omega), p7 y hy]⟩
        · rw [if_neg h3]
          obtain ⟨v, A', e1, e2, e3⟩ := ih (partition A lo n).1 (lo + ((partition A lo n).2.1 + 1)) (n - ((partition A lo n).2.1 + 1))
            (k - ((partition A lo n).2.1 + 1)) (by omega) (by omega) (by omega) (by omega)
          exact ⟨v, A', e1, e2.trans p3, fun y hy => by rw [e3 y (by omega), p7 y hy]⟩
    · rw [if_neg h1]; exact ⟨_, _, rfl, Array.Perm.refl _, fun _ _ => rfl⟩

theorem clampK_lt (n : Nat) (k : Int) (hn : 1 ≤ n) : clampK n k < n := by
  unfold clampK; omega


/-! ### the value returned, over `Rat` -/

/-- everything before position `q` is `>=` everything from `q` on -/
def Split (A : Array Rat) (q : Nat) : Prop := ∀ a b, a < q → q ≤ b → b < A.size → A[b]! ≤ A[a]!

theorem rat_asym : ∀ a b : Rat, a < b → ¬ b < a := fun _ _ h => not_lt.mpr (le_of_lt h)

theorem partition_split (A : Array Rat) (lo n : Nat) (hn : 1 ≤ n) (hw : lo + n ≤ A.size)
    (h1 : Split A lo) (h2 : Split A (lo + n)) :
    Split (partition A lo n).1 lo ∧ Split (partition A lo n).1 (lo + n) ∧
    Split (partition A lo n).1 (lo + (partition A lo n).2.1) ∧ Split (partition A lo n).1 (lo + (partition A lo n).2.1 + 1) := by
  obtain ⟨_, p2, p3, p4, p5, p6, p7, p8⟩ := partition_spec rat_asym A lo n hn hw
  have hsz : (partition A lo n).1.size = A.size := p3.size_eq
  generalize (partition A lo n).1 = A1 at *
  generalize (partition A lo n).2.1 = p at *
  generalize A[lo + n - 1]! = val at *
  -- classification of an index of the window
  have hwin : ∀ t, lo ≤ t → t < lo + n → (∃ y, y < n ∧ A1[t]! = A[lo + y]!) ∧
      (t < lo + p → val ≤ A1[t]!) ∧ (t = lo + p → A1[t]! = val) ∧ (lo + p < t → A1[t]! ≤ val) := by
    intro t t1 t2
    have e : t = lo + (t - lo) := by omega
    refine ⟨by rw [e]; exact p8 (t - lo) (by omega), fun h => ?_, fun h => ?_, fun h => ?_⟩
    · rw [e]; exact not_lt.mp (p5 (t - lo) (by omega))
    · rw [h]; exact p4
    · rw [e]; exact not_lt.mp (p6 (t - lo) (by omega) (by omega))
  have s1 : Split A1 lo := by
    intro a b ha hb hbs
    rw [p7 a (Or.inl ha)]
    by_cases hb2 : b < lo + n
    · obtain ⟨⟨y, hy, e⟩, _⟩ := hwin b hb hb2
      rw [e]; exact h1 a (lo + y) ha (by omega) (by omega)
    · rw [p7 b (Or.inr (by omega))]; exact h1 a b ha hb (by omega)
  have s2 : Split A1 (lo + n) := by
    intro a c ha hc hcs
    rw [p7 c (Or.inr hc)]
    by_cases ha2 : a < lo
    · rw [p7 a (Or.inl ha2)]; exact h1 a c ha2 (by omega) (by omega)
    · obtain ⟨⟨y, hy, e⟩, _⟩ := hwin a (by omega) ha
      rw [e]; exact h2 (lo + y) c (by omega) hc (by omega)
  refine ⟨s1, s2, ?_, ?_⟩
  · intro a b ha hb hbs
    by_cases ha2 : a < lo
    · exact s1 a b ha2 (by omega) hbs
    · by_cases hb2 : b < lo + n
      · have ka := (hwin a (by omega) (by omega)).2.1 ha
        by_cases hb3 : b = lo + p
        · rw [(hwin b (by omega) hb2).2.2.1 hb3]; exact ka
        · exact le_trans ((hwin b (by omega) hb2).2.2.2 (by omega)) ka
      · exact s2 a b (by omega) (by omega) hbs
  · intro a b ha hb hbs
    by_cases hb2 : b < lo + n
    · have kb := (hwin b (by omega) hb2).2.2.2 (by omega)
      by_cases ha2 : a < lo
      · exact s1 a b ha2 (by omega) hbs
      · by_cases ha3 : a = lo + p
        · rw [(hwin a (by omega) (by omega)).2.2.1 ha3]; exact kb
        · exact le_trans kb ((hwin a (by omega) (by omega)).2.1 (by omega))
    · exact s2 a b (by omega) (by omega) hbs

theorem qsel_spec : ∀ f (A : Array Rat) (lo n k : Nat), 1 ≤ n → lo + n ≤ A.size → n < f → k < n →
    Split A lo → Split A (lo + n) →
    ∃ v A', qsel f A lo n k = some (v, A') ∧ A'.Perm A ∧ v = A'[lo + k]! ∧ Split A' (lo + k) ∧ Split A' (lo + k + 1) := by
  intro f
  induction f with
  | zero => intro A lo n k _ _ h; omega
  | succ f ih =>
    intro A lo n k hn hw hf hk h1 h2
    unfold qsel
    by_cases hn1 : 1 < n
    · rw [if_pos hn1]
      obtain ⟨p1, p2, p3, p4, _, _, _, _⟩ := partition_spec rat_asym A lo n hn hw
      obtain ⟨s1, s2, s3, s4⟩ := partition_split A lo n hn hw h1 h2
      have hsz : (partition A lo n).1.size = A.size := p3.size_eq
      simp only [p1, Bool.not_true, Bool.false_eq_true, if_false]
      by_cases e2 : (partition A lo n).2.1 = k
      · rw [if_pos e2]; rw [e2] at p4 s3 s4; exact ⟨_, _, rfl, p3, p4.symm, s3, s4⟩
      · rw [if_neg e2]
        by_cases e3 : k < (partition A lo n).2.1
        · rw [if_pos e3]
          obtain ⟨v, A', r1, r2, r3⟩ := ih (partition A lo n).1 lo (partition A lo n).2.1 k (by omega) (by omega) (by omega) e3 s1 s3
          exact ⟨v, A', r1, r2.trans p3, r3⟩
        · rw [if_neg e3]
          obtain ⟨v, A', r1, r2, r3, r4, r5⟩ := ih (partition A lo n).1 (lo + ((partition A lo n).2.1 + 1)) (n - ((partition A lo n).2.1 + 1))
            (k - ((partition A lo n).2.1 + 1)) (by omega) (by omega) (by omega) (by omega) s4
            (by have : lo + ((partition A lo n).2.1 + 1) + (n - ((partition A lo n).2.1 + 1)) = lo + n := by omega
                rw [this]; exact s2)
          have e : lo + ((partition A lo n).2.1 + 1) + (k - ((partition A lo n).2.1 + 1)) = lo + k := by omega
          rw [e] at r3 r4 r5
          exact ⟨v, A', r1, r2.trans p3, r3, r4, r5⟩
    · rw [if_neg hn1]
      have hk0 : k = 0 := by omega
      have hn' : n = 1 := by omega
      subst hk0; subst hn'
      exact ⟨_, _, rfl, Array.Perm.refl _, rfl, h1, h2⟩


/-- counting argument: in a list where every entry before position `k` is `>= v`, entry `k` is `v` and every later
entry is `<= v`, `v` is the entry of rank `k` of any descending rearrangement -/
theorem rank_of_split (l s : List Rat) (hp : s.Perm l) (hs : s.Pairwise (fun a b => b ≤ a)) (k : Nat) (hk : k < l.length) (v : Rat)
    (hv : l[k] = v) (hl : ∀ a (h : a < l.length), a < k → v ≤ l[a]) (hr : ∀ c (h : c < l.length), k < c → l[c] ≤ v) :
    s[k]? = some v := by
  have hlen : s.length = l.length := hp.length_eq
  have hks : k < s.length := by omega
  rw [List.getElem?_eq_getElem hks]
  congr 1
  have hsorted := List.pairwise_iff_getElem.mp hs
  rcases lt_trichotomy s[k] v with hlt | heq | hgt
  · -- at most k entries of s are >= v, at least k+1 entries of l are
    exfalso
    have c1 : (s.countP fun x => decide (v ≤ x)) ≤ k := by
      rw [← List.take_append_drop k s, List.countP_append]
      have : (List.drop k s).countP (fun x => decide (v ≤ x)) = 0 := by
        rw [List.countP_eq_zero]
        intro a ha
        obtain ⟨i, hi, rfl⟩ := List.mem_iff_getElem.mp ha
        rw [List.getElem_drop]
        have hki : k + i < s.length := by simp at hi; omega
        have : s[k + i] ≤ s[k] := by
          by_cases h0 : i = 0
          · subst h0; exact le_refl _
          · exact hsorted k (k + i) hks hki (by omega)
        simp only [decide_eq_true_eq, not_le]
        exact lt_of_le_of_lt this hlt
      rw [this]
      have := List.countP_le_length (p := fun x => decide (v ≤ x)) (l := List.take k s)
      simp at this ⊢; omega
    have c2 : k + 1 ≤ (l.countP fun x => decide (v ≤ x)) := by
      rw [← List.take_append_drop (k + 1) l, List.countP_append]
      have : (List.take (k + 1) l).countP (fun x => decide (v ≤ x)) = (List.take (k + 1) l).length := by
        rw [List.countP_eq_length]
        intro a ha
        obtain ⟨i, hi, rfl⟩ := List.mem_iff_getElem.mp ha
        rw [List.getElem_take]
        simp only [decide_eq_true_eq]
        have hi' : i < k + 1 := by simp at hi; omega
        by_cases h0 : i = k
        · subst h0; rw [hv]
        · exact hl i (by omega) (by omega)
      rw [this]; simp; omega
    rw [hp.countP_eq] at c1; omega
  · exact heq
  · exfalso
    have c1 : k + 1 ≤ (s.countP fun x => decide (v < x)) := by
      rw [← List.take_append_drop (k + 1) s, List.countP_append]
      have : (List.take (k + 1) s).countP (fun x => decide (v < x)) = (List.take (k + 1) s).length := by
        rw [List.countP_eq_length]
        intro a ha
        obtain ⟨i, hi, rfl⟩ := List.mem_iff_getElem.mp ha
        rw [List.getElem_take]
        simp only [decide_eq_true_eq]
        have hi' : i < k + 1 := by simp at hi; omega
        have : s[k] ≤ s[i] := by
          by_cases h0 : i = k
          · subst h0; exact le_refl _
          · exact hsorted i k (by omega) hks (by omega)
        exact lt_of_lt_of_le hgt this
      rw [this]; simp; omega
    have c2 : (l.countP fun x => decide (v < x)) ≤ k := by
      rw [← List.take_append_drop k l, List.countP_append]
      have : (List.drop k l).countP (fun x => decide (v < x)) = 0 := by
        rw [List.countP_eq_zero]
        intro a ha
        obtain ⟨i, hi, rfl⟩ := List.mem_iff_getElem.mp ha
        rw [List.getElem_drop]
        simp only [decide_eq_true_eq, not_lt]
        by_cases h0 : i = 0
        · subst h0; simp [hv]
        · exact hr (k + i) (by simp at hi; omega) (by omega)
      rw [this]
      have := List.countP_le_length (p := fun x => decide (v < x)) (l := List.take k l)
      simp at this ⊢; omega
    rw [hp.countP_eq] at c1; omega

end Slu.QSelect
