import Slu.Model.CxRat
import Mathlib.Algebra.Field.Basic
import Mathlib.Algebra.Order.Field.Rat
import Mathlib.Tactic.Ring
import Mathlib.Tactic.FieldSimp
import Mathlib.Tactic.Linarith
import Mathlib.Tactic.Positivity
/-
The Gaussian rationals `Cx Rat` with the operations of `Slu/Model/CxRat.lean` form a field, so every
C14 / C15 theorem stated for an arbitrary field applies to complex data (every finite complex float
is a Gaussian rational).
-/
namespace Slu.Cx

@[ext] theorem ext' {a b : Cx Rat} (h1 : a.re = b.re) (h2 : a.im = b.im) : a = b := by
  cases a; cases b; simp_all

theorem normSq_pos {w : Cx Rat} (h : w ≠ 0) : 0 < w.re * w.re + w.im * w.im := by
  by_contra hc
  have h1 : 0 ≤ w.re * w.re := mul_self_nonneg _
  have h2 : 0 ≤ w.im * w.im := mul_self_nonneg _
  have hz : w.re * w.re + w.im * w.im = 0 := by linarith
  have hr : w.re * w.re = 0 := by linarith
  have hi : w.im * w.im = 0 := by linarith
  apply h
  apply ext'
  · exact mul_self_eq_zero.mp hr
  · exact mul_self_eq_zero.mp hi

instance : CommRing (Cx Rat) where
  add := (· + ·)
  add_assoc a b c := by apply ext' <;> simp [add_def] <;> ring
  zero := 0
  zero_add a := by apply ext' <;> simp [add_def, zero_def]
  add_zero a := by apply ext' <;> simp [add_def, zero_def]
  add_comm a b := by apply ext' <;> simp [add_def] <;> ring
  mul := (· * ·)
  left_distrib a b c := by apply ext' <;> simp [add_def, mul_def] <;> ring
  right_distrib a b c := by apply ext' <;> simp [add_def, mul_def] <;> ring
  zero_mul a := by apply ext' <;> simp [mul_def, zero_def]
  mul_zero a := by apply ext' <;> simp [mul_def, zero_def]
  mul_assoc a b c := by apply ext' <;> simp [mul_def] <;> ring
  one := 1
  one_mul a := by apply ext' <;> simp [mul_def, one_def]
  mul_one a := by apply ext' <;> simp [mul_def, one_def]
  neg := fun a => -a
  sub := (· - ·)
  sub_eq_add_neg a b := by apply ext' <;> simp [sub_def, add_def, neg_def] <;> ring
  neg_add_cancel a := by apply ext' <;> simp [add_def, neg_def, zero_def]
  mul_comm a b := by apply ext' <;> simp [mul_def] <;> ring
  nsmul := nsmulRec
  zsmul := zsmulRec

instance : Field (Cx Rat) where
  inv := fun a => a⁻¹
  div := (· / ·)
  div_eq_mul_inv a b := rfl
  exists_pair_ne := ⟨0, 1, by intro h; have := congrArg Cx.re h; simp [zero_def, one_def] at this⟩
  mul_inv_cancel a ha := by
    have hp := normSq_pos ha
    have hne : a.re * a.re + a.im * a.im ≠ 0 := ne_of_gt hp
    apply ext'
    · simp only [mul_def, inv_def, one_def]
      have : a.re * (a.re / (a.re * a.re + a.im * a.im)) - a.im * (-a.im / (a.re * a.re + a.im * a.im)) =
          (a.re * a.re + a.im * a.im) / (a.re * a.re + a.im * a.im) := by ring
      rw [this, div_self hne]
    · simp only [mul_def, inv_def, one_def]
      ring
  inv_zero := by apply ext' <;> simp [inv_def, zero_def]
  nnqsmul := _
  nnqsmul_def := fun _ _ => rfl
  qsmul := _
  qsmul_def := fun _ _ => rfl

instance : LawfulBEq (Cx Rat) where
  eq_of_beq {a b} h := by
    cases a; cases b
    simp only [BEq.beq] at h
    simp_all [instBEqCx.beq]
  rfl {a} := by
    cases a
    simp [BEq.beq, instBEqCx.beq]

theorem conj_zero : Conj.conj (0 : Cx Rat) = 0 := by apply ext' <;> simp [conj_def, zero_def]

theorem conj_ne_zero {z : Cx Rat} (h : z ≠ 0) : Conj.conj z ≠ 0 := by
  intro hc
  apply h
  have h1 := congrArg Cx.re hc
  have h2 := congrArg Cx.im hc
  simp only [conj_def, zero_def] at h1 h2
  apply ext'
  · simpa [zero_def] using h1
  · simp only [zero_def]; linarith

end Slu.Cx
