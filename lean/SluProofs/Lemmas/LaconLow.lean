import Slu.Model.Lacon
import SluProofs.Lemmas.Lacon
/-
The other side of the estimator (C12, `rcond ≤ 1`): when the operator is bounded BELOW,
`c * ‖x‖₁ ≤ ‖T x‖₁` (e.g. `T = A⁻¹` and `c = 1/‖A‖₁`), every value the machine can return is at least
`c`, because each candidate is `‖T w‖₁ / ‖w‖₁` for a non-zero vector `w` it built itself.  Same
invariant technique as `run_est` in `Lemmas/Lacon.lean`.
-/
namespace Slu.Lacon
open Slu

variable {K : Type}

/-- a state handed to a call -/
def ReadyL (P : Prim K Rat) (n : Nat) (c : Rat) (s : St K Rat) : Prop :=
  s.x.size = n ∧ (
    (s.kase = 0 ∧ c ≤ s.est) ∨
    (s.kase ≠ 0 ∧ s.jump = 1 ∧ c ≤ P.asum s.x) ∨
    (s.kase ≠ 0 ∧ s.jump = 2 ∧ 2 ≤ n ∧ c ≤ s.est) ∨
    (s.kase ≠ 0 ∧ s.jump = 3 ∧ 2 ≤ n ∧ c ≤ P.asum s.x) ∨
    (s.kase ≠ 0 ∧ s.jump = 4 ∧ 2 ≤ n ∧ c ≤ s.est) ∨
    (s.kase ≠ 0 ∧ s.jump = 5 ∧ 2 ≤ n ∧ c ≤ s.est))

/-- a state returned by a call -/
def GoodL (P : Prim K Rat) (n : Nat) (c : Rat) (s : St K Rat) : Prop :=
  s.x.size = n ∧ (
    (s.kase = 0 ∧ c ≤ s.est) ∨
    (s.kase = 1 ∧ s.jump = 1 ∧ P.asum s.x = 1) ∨
    (s.kase = 2 ∧ s.jump = 2 ∧ 2 ≤ n ∧ c ≤ s.est) ∨
    (s.kase = 1 ∧ s.jump = 3 ∧ 2 ≤ n ∧ P.asum s.x = 1) ∨
    (s.kase = 2 ∧ s.jump = 4 ∧ 2 ≤ n ∧ c ≤ s.est) ∨
    (s.kase = 1 ∧ s.jump = 5 ∧ 2 ≤ n ∧ c ≤ s.est))

theorem toL120_goodL (P : Prim K Rat) (c : Rat) (s : St K Rat) (h2 : 2 ≤ s.x.size) (he : c ≤ s.est) :
    GoodL P s.x.size c (toL120 P s) :=
  ⟨by simp, Or.inr (Or.inr (Or.inr (Or.inr (Or.inr ⟨rfl, rfl, h2, he⟩))))⟩

theorem toL50_goodL (P : Prim K Rat) (hP : Lawful P) (c : Rat) (s : St K Rat) (j i : Nat) (h2 : 2 ≤ s.x.size)
    (hj : j < s.x.size) : GoodL P s.x.size c (toL50 P s j i) := by
  refine ⟨by simp, Or.inr (Or.inr (Or.inr (Or.inl ⟨rfl, rfl, h2, ?_⟩)))⟩
  simp only [toL50_x]
  exact hP.asum_unit _ _ hj

/-- every call maps a `ReadyL` state to a `GoodL` one -/
theorem step_goodL (P : Prim K Rat) (hP : Lawful P) (himax : ∀ x : Array K, 0 < x.size → P.imax x < x.size)
    (n : Nat) (c : Rat) (hn : 1 ≤ n) (s : St K Rat) (h : ReadyL P n c s) : GoodL P n c (step P s) := by
  obtain ⟨hsz, h⟩ := h
  subst hsz
  unfold step
  rcases h with ⟨h0, _⟩ | ⟨h0, hj, hx⟩ | ⟨h0, hj, h2, he⟩ | ⟨h0, hj, h2, hx⟩ | ⟨h0, hj, h2, he⟩ | ⟨h0, hj, h2, he⟩
  · simp only [h0, if_true]
    exact ⟨by simp, Or.inr (Or.inl ⟨rfl, rfl, hP.asum_uniform _ hn⟩)⟩
  · simp only [h0, hj, show (1 : Nat) ≠ 2 from by decide, show (1 : Nat) ≠ 3 from by decide,
      show (1 : Nat) ≠ 4 from by decide, show (1 : Nat) ≠ 5 from by decide, if_false]
    split
    · rename_i h1
      refine ⟨rfl, Or.inl ⟨rfl, ?_⟩⟩
      have hx1 : s.x = #[s.x.getD 0 P.zero] := size_one_eq _ _ h1
      have : P.absEst (s.x.getD 0 P.zero) = P.asum s.x := by rw [hP.absEst_eq]; exact congrArg _ hx1.symm
      show c ≤ P.absEst (s.x.getD 0 P.zero)
      rw [this]; exact hx
    · rename_i h1
      exact ⟨by simp, Or.inr (Or.inr (Or.inl ⟨rfl, rfl, by omega, hx⟩))⟩
  · simp only [h0, hj, if_false, if_true]
    exact toL50_goodL P hP c s _ _ h2 (himax _ (by omega))
  · simp only [h0, hj, show (3 : Nat) ≠ 2 from by decide, if_false, if_true]
    have he1 : c ≤ ({ s with v := s.x, est := P.asum s.x } : St K Rat).est := hx
    split
    · exact toL120_goodL P c _ h2 he1
    · split
      · exact toL120_goodL P c _ h2 he1
      · exact ⟨by simp, Or.inr (Or.inr (Or.inr (Or.inr (Or.inl ⟨rfl, rfl, h2, he1⟩))))⟩
  · simp only [h0, hj, show (4 : Nat) ≠ 2 from by decide, show (4 : Nat) ≠ 3 from by decide, if_false, if_true]
    split
    · exact toL50_goodL P hP c s _ _ h2 (himax _ (by omega))
    · exact toL120_goodL P c _ h2 he
  · simp only [h0, hj, show (5 : Nat) ≠ 2 from by decide, show (5 : Nat) ≠ 3 from by decide,
      show (5 : Nat) ≠ 4 from by decide, if_false, if_true]
    split
    · rename_i hgt
      exact ⟨rfl, Or.inl ⟨rfl, le_of_lt (lt_of_le_of_lt he hgt)⟩⟩
    · exact ⟨rfl, Or.inl ⟨rfl, he⟩⟩

/-- the caller's operator application maps a `GoodL` unfinished state to a `ReadyL` one -/
theorem apply_readyL (P : Prim K Rat) (n : Nat) (c : Rat) (T Tt : Array K → Array K)
    (hsT : ∀ x, x.size = n → (T x).size = n) (hsTt : ∀ x, x.size = n → (Tt x).size = n)
    (hT : ∀ x, x.size = n → c * P.asum x ≤ P.asum (T x))
    (s : St K Rat) (h : GoodL P n c s) (hk : s.kase ≠ 0) :
    ReadyL P n c { s with x := (if s.kase = 1 then T else Tt) s.x } := by
  obtain ⟨hsz, h⟩ := h
  rcases h with ⟨h0, _⟩ | ⟨h1, hj, hx⟩ | ⟨h1, hj, h2, he⟩ | ⟨h1, hj, h2, hx⟩ | ⟨h1, hj, h2, he⟩ | ⟨h1, hj, h2, he⟩
  · exact absurd h0 hk
  · refine ⟨by simp [h1, hsT _ hsz], Or.inr (Or.inl ⟨hk, hj, ?_⟩)⟩
    simp only [h1, if_true]
    have := hT _ hsz; rw [hx, mul_one] at this; exact this
  · exact ⟨by simp [h1, hsTt _ hsz], Or.inr (Or.inr (Or.inl ⟨hk, hj, h2, he⟩))⟩
  · refine ⟨by simp [h1, hsT _ hsz], Or.inr (Or.inr (Or.inr (Or.inl ⟨hk, hj, h2, ?_⟩)))⟩
    simp only [h1, if_true]
    have := hT _ hsz; rw [hx, mul_one] at this; exact this
  · exact ⟨by simp [h1, hsTt _ hsz], Or.inr (Or.inr (Or.inr (Or.inr (Or.inl ⟨hk, hj, h2, he⟩))))⟩
  · exact ⟨by simp [h1, hsT _ hsz], Or.inr (Or.inr (Or.inr (Or.inr (Or.inr ⟨hk, hj, h2, he⟩))))⟩

/-- whenever the loop returns a finished state, its estimate is at least `c` -/
theorem run_est_low (P : Prim K Rat) (hP : Lawful P) (himax : ∀ x : Array K, 0 < x.size → P.imax x < x.size)
    (n : Nat) (c : Rat) (hn : 1 ≤ n) (T Tt : Array K → Array K)
    (hsT : ∀ x, x.size = n → (T x).size = n) (hsTt : ∀ x, x.size = n → (Tt x).size = n)
    (hT : ∀ x, x.size = n → c * P.asum x ≤ P.asum (T x)) :
    ∀ fuel (s : St K Rat), ReadyL P n c s → (run P T Tt fuel s).kase = 0 → c ≤ (run P T Tt fuel s).est := by
  intro fuel
  induction fuel with
  | zero =>
    intro s hs hk
    simp only [run] at hk ⊢
    rcases hs.2 with ⟨_, he⟩ | ⟨h0, _⟩ | ⟨h0, _⟩ | ⟨h0, _⟩ | ⟨h0, _⟩ | ⟨h0, _⟩
    · exact he
    all_goals exact absurd hk h0
  | succ f ih =>
    intro s hs
    have hg := step_goodL P hP himax n c hn s hs
    simp only [run]
    split
    · rename_i h0
      intro _
      rcases hg.2 with ⟨_, he⟩ | ⟨h1, _⟩ | ⟨h1, _⟩ | ⟨h1, _⟩ | ⟨h1, _⟩ | ⟨h1, _⟩
      · exact he
      all_goals (rw [h0] at h1; exact absurd h1 (by decide))
    · rename_i h0
      exact ih _ (apply_readyL P n c T Tt hsT hsTt hT _ hg h0)

/-- from the initial state: the first call builds the uniform vector -/
theorem run_init_low (P : Prim K Rat) (hP : Lawful P) (himax : ∀ x : Array K, 0 < x.size → P.imax x < x.size)
    (n : Nat) (c : Rat) (hn : 1 ≤ n) (T Tt : Array K → Array K)
    (hsT : ∀ x, x.size = n → (T x).size = n) (hsTt : ∀ x, x.size = n → (Tt x).size = n)
    (hT : ∀ x, x.size = n → c * P.asum x ≤ P.asum (T x)) (fuel : Nat) (est0 : Rat)
    (hk : (run P T Tt (fuel + 1) (init P n est0)).kase = 0) :
    c ≤ (run P T Tt (fuel + 1) (init P n est0)).est := by
  have hstep : step P (init P n est0) =
      { (init P n est0) with x := Array.replicate n (P.ninv n), kase := 1, jump := 1 } := by
    simp [step, init]
  have hrun : run P T Tt (fuel + 1) (init P n est0) =
      run P T Tt fuel { (init P n est0) with x := T (Array.replicate n (P.ninv n)), kase := 1, jump := 1 } := by
    simp only [run, hstep]
    simp
  rw [hrun] at hk ⊢
  apply run_est_low P hP himax n c hn T Tt hsT hsTt hT fuel _ _ hk
  refine ⟨by simp [hsT], Or.inr (Or.inl ⟨by simp, rfl, ?_⟩)⟩
  have := hT (Array.replicate n (P.ninv n)) (by simp)
  rw [hP.asum_uniform n hn, mul_one] at this
  exact this

/-! ### `idamax` / `izmax1` return an index inside the vector -/

theorem imaxBy_lt {R : Type} [LE R] [DecidableLE R] (key : K → R) (dflt : K) (x : Array K) (h : 0 < x.size) :
    imaxBy key dflt x < x.size := by
  unfold imaxBy
  have hgen : ∀ (M : Nat) (l : List Nat) (b : Nat × R), (∀ i ∈ l, i + 1 ≤ M) → b.1 ≤ M →
      (l.foldl (fun (bm : Nat × R) i =>
        let a := key (x.getD (i + 1) dflt)
        if a ≤ bm.2 then bm else (i + 1, a)) b).1 ≤ M := by
    intro M l
    induction l with
    | nil => intro b _ hb; simpa using hb
    | cons a t iht =>
      intro b hl hb
      simp only [List.foldl_cons]
      apply iht _ (fun i hi => hl i (List.mem_cons_of_mem _ hi))
      split
      · exact hb
      · exact hl a List.mem_cons_self
  have := hgen (x.size - 1) (List.range (x.size - 1)) (0, key (x.getD 0 dflt))
    (fun i hi => by have := List.mem_range.mp hi; omega) (Nat.zero_le _)
  omega

theorem primQ_imax (x : Array Rat) (h : 0 < x.size) : primQ.imax x < x.size := by
  show imaxBy (fun a : Rat => rabs a) 0 x < x.size
  exact imaxBy_lt (fun a : Rat => rabs a) 0 x h
theorem primQC_imax (x : Array (Cx Rat)) (h : 0 < x.size) : primQC.imax x < x.size := by
  show imaxBy (fun a : Cx Rat => rabs a.re) ⟨0, 0⟩ x < x.size
  exact imaxBy_lt (fun a : Cx Rat => rabs a.re) ⟨0, 0⟩ x h

end Slu.Lacon
