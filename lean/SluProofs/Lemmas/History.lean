import SluProofs.Lemmas.LUInv
import Slu.Model.History
set_option linter.unusedSectionVars false
/-
Helper lemmas for C06: the state machine `Slu.History.stepCall` over the LU invariant `Slu.LU.Inv`.
-/
namespace Slu.LU
open Slu
variable {K : Type} [Field K] [Mag K Rat]

/-- the identity `Pr A Pc = L U` read off the invariant, entry by entry -/
theorem Inv.identity {P : Params K Rat} {st : St K} {n : Nat} (inv : Inv P st n)
    (j : Nat) (hj : j < n) (i : Nat) (hi : i < P.m) :
    (P.col j).get i =
      ((List.range (j + 1)).map fun k => (st.U.getD j #[]).getD k 0 * (st.L.getD k #[]).get i).sum := by
  rw [inv.ident j hj i hi, dotL_prev _ _ (j + 1) i (by rw [Array.length_toList]; exact inv.usize j hj)]
  congr 1
  apply List.map_congr_left
  intro t _
  congr 1
  generalize st.U.getD j #[] = a
  by_cases ht : t < a.size <;> simp [Array.getD, List.getD, ht]

end Slu.LU

namespace Slu.LU
open Slu
variable {K : Type} [Mag K Rat]

/-- the reuse flag can only come out set when it went in set and the remembered row was taken -/
theorem pivotChoice_usepr_true (j : Nat) (cands : List (Nat × K)) (thr : Rat → Rat) (usepr : Bool) (oldRow diagRow : Nat)
    (h : (pivotChoice (R := Rat) j cands thr usepr oldRow diagRow).usepr = true) :
    usepr = true ∧ (pivotChoice (R := Rat) j cands thr usepr oldRow diagRow).row = oldRow ∧
    (pivotChoice (R := Rat) j cands thr usepr oldRow diagRow).info = 0 := by
  unfold pivotChoice at h ⊢
  generalize scanPiv (R := Rat) cands = sp at *
  obtain ⟨pivmax, pivptr⟩ := sp
  simp only at h ⊢
  by_cases hz : IsZero.isZero pivmax = true
  · simp [hz] at h
  · simp only [hz, Bool.false_eq_true, if_false] at h ⊢
    cases hu : usepr with
    | false => simp [hu] at h
    | true =>
      simp only [hu, if_true] at h ⊢
      cases hf : Option.filter (passes cands (thr pivmax)) (findRow cands oldRow) with
      | some op => simp
      | none => simp [hf] at h

end Slu.LU

namespace Slu.LU
open Slu
variable {K : Type} [Field K] [Mag K Rat]

/-- while the reuse flag is still set after `j` columns, no zero pivot was met and the pivots are
exactly the remembered ones -/
theorem run_usepr_true (P : Params K Rat) (b : Bool) (j : Nat) (h : (run P b j).usepr = true) :
    b = true ∧ (run P b j).info = 0 ∧ (run P b j).piv = ((List.range j).map P.oldPiv).toArray := by
  induction j with
  | zero =>
    rw [run_zero] at h ⊢
    exact ⟨h, rfl, by simp⟩
  | succ j ih =>
    rw [run_succ] at h ⊢
    by_cases h0 : (run P b j).info = 0
    · rw [step_unfold P _ j h0] at h ⊢
      by_cases ho : (stepOut P (run P b j) j).info ≠ 0
      · simp [ho] at h
      · simp only [ho, if_false] at h ⊢
        have hc := pivotChoice_usepr_true j (stepCands P (run P b j) j) (fun p => P.u * p) (run P b j).usepr (P.oldPiv j) (P.diagRow j) h
        obtain ⟨hb, _, hp⟩ := ih hc.1
        refine ⟨hb, by simp, ?_⟩
        have hrow : (stepOut P (run P b j) j).row = P.oldPiv j := hc.2.1
        simp only [hrow, hp, List.range_succ, List.map_append, List.map_cons, List.map_nil]
        simp
    · rw [step_stuck P _ j h0] at h ⊢
      exact absurd (ih h).2.1 h0

end Slu.LU

namespace Slu.History
open Slu Slu.LU
variable {K : Type} [Field K] [Mag K Rat] [HasConj K]

/-- a factoring call with a legal threshold and columns of the declared length -/
structure CallOK (c : Call K Rat) : Prop where
  u_pos : 0 < c.u
  u_le_one : c.u ≤ 1
  col_size : ∀ j, (c.A j).size = c.n

/-- **The history invariant.**  A state that claims to hold a factorization holds one that satisfies
the C02 invariant `Slu.LU.Inv` (identity `Pr A Pc = L U`, unit lower L, nonzero diagonal of U,
distinct pivot rows, threshold-bounded multipliers) for the problem `s.P` of the last factoring
call — its equilibrated, column-permuted matrix. -/
def HInv (s : DriverState K Rat) : Prop :=
  s.factored = true →
    s.P.m = s.n ∧ s.P.n = s.n ∧ 0 < s.P.u ∧ s.P.u ≤ 1 ∧ (∀ j, (s.P.col j).size = s.P.m) ∧
    s.fac.info = 0 ∧ Inv s.P s.fac s.n

theorem paramsOf_col_size (s : DriverState K Rat) (c : Call K Rat) (h : ∀ j, (c.A j).size = c.n) (j : Nat) :
    ((paramsOf s c).col j).size = (paramsOf s c).m := by
  simp [paramsOf, h]

omit [HasConj K] in
theorem mapIdx_get (w : Vec K) (f : Nat → K → K) (i : Nat) (hi : i < w.size) :
    Vec.get (w.mapIdx f) i = f i (w.get i) := by
  simp [Vec.get, Array.getD, hi]

/-- entry `(i, j)` of the matrix a factoring call hands to `gstrf`: `diag(R) A diag(C)` in the column
order of `perm_c` -/
theorem paramsOf_col_get (s : DriverState K Rat) (c : Call K Rat) (j i : Nat) (jc : Nat)
    (hjc : jc = (invPerm (callPermC s c)).getD j 0) (hi : i < (c.A jc).size) :
    ((paramsOf s c).col j).get i = scaleEntry c.equed c.Rs c.Cs i jc ((c.A jc).get i) := by
  subst hjc
  exact mapIdx_get _ _ i hi

/-- the factor state after a factoring call IS `luFactor` of the call's problem, with the reuse flag
and the remembered pivots of the prior state — so every theorem of C02 / C04 (stated for all reuse
flags and all remembered pivots) applies to it verbatim -/
theorem factorCall_fac (s : DriverState K Rat) (c : Call K Rat) :
    (factorCall s c).fac = luFactor (paramsOf s c) (c.fact == .SamePattern_SameRowPerm) := rfl

theorem factorCall_P (s : DriverState K Rat) (c : Call K Rat) : (factorCall s c).P = paramsOf s c := rfl

theorem factorCall_factored (s : DriverState K Rat) (c : Call K Rat) :
    (factorCall s c).factored = true ↔ (factorCall s c).fac.info = 0 := by
  simp [factorCall]

/-- established from ANY prior state -/
theorem factorCall_inv (laws : MagLaws K) (s : DriverState K Rat) (c : Call K Rat) (hok : CallOK c) :
    HInv (factorCall s c) := by
  intro hf
  have h0 : (factorCall s c).fac.info = 0 := (factorCall_factored s c).mp hf
  refine ⟨rfl, rfl, hok.u_pos, hok.u_le_one, paramsOf_col_size s c hok.col_size, h0, ?_⟩
  have hrun : (run (paramsOf s c) (c.fact == .SamePattern_SameRowPerm) (paramsOf s c).n).info = 0 := h0
  exact run_inv laws (paramsOf s c) (le_of_lt hok.u_pos) hok.u_le_one (paramsOf_col_size s c hok.col_size) _ _ hrun

theorem stepCall_factored (s : DriverState K Rat) (c : Call K Rat) (h : c.fact = .FACTORED) :
    stepCall s c = (s, { info := 0, X := c.B.map (solveWith s c.trans) }) := by
  simp [stepCall, h]

theorem stepCall_factor_state (s : DriverState K Rat) (c : Call K Rat) (h : c.fact ≠ .FACTORED) :
    (stepCall s c).1 = factorCall s c := by
  unfold stepCall
  simp only [h, if_false]
  split <;> rfl

theorem stepCall_factor_out (s : DriverState K Rat) (c : Call K Rat) (h : c.fact ≠ .FACTORED) :
    (stepCall s c).2.info = (factorCall s c).fac.info ∧
    ((factorCall s c).fac.info = 0 → (stepCall s c).2.X = c.B.map (solveWith (factorCall s c) c.trans) ∧
        (stepCall s c).2.reused = (factorCall s c).fac.usepr) ∧
    ((factorCall s c).fac.info ≠ 0 → (stepCall s c).2.X = c.B) := by
  unfold stepCall
  simp only [h, if_false]
  by_cases h0 : (factorCall s c).fac.info = 0
  · simp [h0]
  · simp [h0]

/-- what a call returns, in terms of the state before (`s`) and after (`s'`) it -/
def OutSpec (s : DriverState K Rat) (c : Call K Rat) (s' : DriverState K Rat) (o : Out K) : Prop :=
  (c.fact = .FACTORED → s' = s ∧ o.info = 0 ∧ o.X = c.B.map (solveWith s c.trans)) ∧
  (c.fact ≠ .FACTORED → s' = factorCall s c ∧ o.info = s'.fac.info ∧ (s'.factored = true ↔ o.info = 0) ∧
      (o.info = 0 → o.X = c.B.map (solveWith s' c.trans)) ∧ (o.info ≠ 0 → o.X = c.B))

theorem stepCall_outSpec (s : DriverState K Rat) (c : Call K Rat) :
    OutSpec s c (stepCall s c).1 (stepCall s c).2 := by
  constructor
  · intro h
    rw [stepCall_factored s c h]
    exact ⟨rfl, rfl, rfl⟩
  · intro h
    obtain ⟨h1, h2, h3⟩ := stepCall_factor_out s c h
    rw [stepCall_factor_state s c h]
    refine ⟨rfl, h1, ?_, ?_, ?_⟩
    · rw [factorCall_factored, h1]
    · intro h0; exact (h2 (h1 ▸ h0)).1
    · intro h0; exact h3 (h1 ▸ h0)

theorem runHistory_cons (s : DriverState K Rat) (c : Call K Rat) (cs : List (Call K Rat)) :
    (runHistory s (c :: cs)).1 = (runHistory (stepCall s c).1 cs).1 := rfl

theorem runHistory_append (s : DriverState K Rat) (a b : List (Call K Rat)) :
    (runHistory s (a ++ b)).1 = (runHistory (runHistory s a).1 b).1 := by
  induction a generalizing s with
  | nil => rfl
  | cons c cs ih => simp only [List.cons_append, runHistory_cons]; exact ih _

theorem runHistory_outs_length (s : DriverState K Rat) (cs : List (Call K Rat)) :
    (runHistory s cs).2.length = cs.length := by
  induction cs generalizing s with
  | nil => rfl
  | cons c cs ih => simp [runHistory, ih]

end Slu.History
