import Slu.Model.Cond
import SluProofs.Lemmas.Fold
/-
Lemmas about the growth-factor scan (model: Slu/Model/Cond.lean).
-/
namespace Slu.Cond
open Slu
end Slu.Cond
