import Slu.Model.Cond
import SluProofs.Lemmas.Fold
/-
Lemmas about the growth-factor scan (model: Slu/Model/Cond.lean), exact real arithmetic.
-/
namespace Slu.Cond
open Slu

/-- entry lookup in a column without the target row: the running sum is untouched -/
theorem get_fold_absent (i : Nat) (l : List (Nat × Rat)) (acc : Rat) (h : ∀ e ∈ l, e.1 ≠ i) :
    l.foldl (fun acc (e : Nat × Rat) => if e.1 = i then acc + e.2 else acc) acc = acc := by
  induction l generalizing acc with
  | nil => rfl
  | cons e t ih =>
    simp only [List.foldl_cons]
    have he : e.1 ≠ i := h e List.mem_cons_self
    simp only [he, if_false]
    exact ih _ (fun e' h' => h e' (List.mem_cons_of_mem _ h'))

/-- entry lookup in a column with distinct rows: the stored value -/
theorem get_fold_present (i : Nat) (v : Rat) (l : List (Nat × Rat)) (acc : Rat)
    (hnd : (l.map Prod.fst).Nodup) (hmem : (i, v) ∈ l) :
    l.foldl (fun acc (e : Nat × Rat) => if e.1 = i then acc + e.2 else acc) acc = acc + v := by
  induction l generalizing acc with
  | nil => cases hmem
  | cons e t ih =>
    simp only [List.foldl_cons]
    simp only [List.map_cons, List.nodup_cons] at hnd
    rcases List.mem_cons.mp hmem with h | h
    · subst h
      simp only [if_true]
      apply get_fold_absent
      intro e' he' heq
      exact hnd.1 (List.mem_map.mpr ⟨e', he', heq⟩)
    · have he : e.1 ≠ i := by
        intro heq
        exact hnd.1 (List.mem_map.mpr ⟨(i, v), h, heq.symm⟩)
      simp only [he, if_false]
      exact ih _ hnd.2 h

theorem csc_get_eq (A : CSC Rat) (i j : Nat) :
    A.get i j = (A.col j).foldl (fun acc (e : Nat × Rat) => if e.1 = i then acc + e.2 else acc) 0 := by
  unfold CSC.get
  rfl

theorem scan_max_ge_init (g : Nat → Rat) (a : Rat) (k : Nat) :
    a ≤ (List.range k).foldl (fun acc i => max acc (g i)) a := by
  generalize List.range k = l
  induction l generalizing a with
  | nil => simp
  | cons x xs ih => simp only [List.foldl_cons]; exact le_trans (le_max_left _ _) (ih _)

/-- the spec: largest magnitude of column `j` of the decoded U (rows `0..j`) -/
def colMaxUspec (F : LUFac Rat) (j : Nat) : Rat :=
  (List.range (j + 1)).foldl (fun m i => max m (rabs (decodeUg F i j))) 0

theorem colMaxAbs_eq (A : CSC Rat) (j : Nat) :
    colMaxAbs (R := Rat) A j = foldMaxIf (fun _ => True) (fun e : Nat × Rat => rabs e.2) 0 (A.col j) := by
  unfold colMaxAbs foldMaxIf
  simp only [smax_eq_max, if_true]
  rfl

/-- **per-column correctness of the scan**: the running maximum over the entries of column `j` kept
in column storage and over the leading entries of the column's slice of the supernodal rectangle is
the largest magnitude of column `j` of the decoded upper factor.  Hypotheses (well-formed storage):
the slice of column `j` starts where the scan looks (`xlusup[j] = luptr + d*nsupr`), `d = j - fsupc`,
and the rows of U's column `j` in column storage are distinct and lie above the supernode. -/
theorem colMaxU_spec (F : LUFac Rat) (j f luptr nsupr d : Nat)
    (hf : F.L.fsupc j = f) (hfj : f ≤ j) (hd : d = j - f)
    (hx : F.L.xlusup[j]! = luptr + d * nsupr) (hn : F.L.nsupr j = nsupr)
    (hnd : ((F.U.col j).map Prod.fst).Nodup) (habove : ∀ e ∈ F.U.col j, e.1 < f) :
    colMaxU (R := Rat) F j luptr nsupr d = colMaxUspec F j := by
  have hval : ∀ p, F.L.lusup.getD (luptr + d * nsupr + p) default = F.L.valAt j p := by
    intro p; unfold SNode.valAt; rw [hx]
    simp only [Array.getD_eq_getD_getElem?, getElem!_def]
    generalize F.L.lusup[luptr + d * nsupr + p]? = o
    cases o <;> rfl
  -- both sides as running maxima
  have hL : colMaxU (R := Rat) F j luptr nsupr d =
      (List.range (min (d + 1) nsupr)).foldl (fun m p => max m (rabs (F.L.valAt j p))) (colMaxAbs (R := Rat) F.U j) := by
    unfold colMaxU
    simp only [smax_eq_max, hval]
    rfl
  rw [hL]
  unfold colMaxUspec
  have hm0nn : 0 ≤ colMaxAbs (R := Rat) F.U j := by rw [colMaxAbs_eq]; exact foldMaxIf_ge_init _ _ 0 _
  have hm0ge : ∀ e ∈ F.U.col j, rabs e.2 ≤ colMaxAbs (R := Rat) F.U j := by
    intro e he; rw [colMaxAbs_eq]
    exact foldMaxIf_ge_mem (fun _ => True) (fun e : Nat × Rat => rabs e.2) 0 _ e he trivial
  have hm0att : colMaxAbs (R := Rat) F.U j = 0 ∨ ∃ e ∈ F.U.col j, rabs e.2 = colMaxAbs (R := Rat) F.U j := by
    rw [colMaxAbs_eq]
    rcases foldMaxIf_attained (fun _ => True) (fun e : Nat × Rat => rabs e.2) 0 (F.U.col j) with h0 | ⟨e, he, _, hv⟩
    · left; exact h0
    · right; exact ⟨e, he, hv⟩
  generalize colMaxAbs (R := Rat) F.U j = m0 at hm0nn hm0ge hm0att ⊢
  generalize hK : min (d + 1) nsupr = kk
  have hkk : ∀ p, p < kk ↔ (p ≤ d ∧ p < nsupr) := by
    intro p; rw [← hK, lt_min_iff]; omega
  -- the two running maxima
  let g : Nat → Rat := fun p => rabs (F.L.valAt j p)
  let u : Nat → Rat := fun i => rabs (decodeUg F i j)
  show (List.range kk).foldl (fun m p => max m (g p)) m0 = (List.range (j + 1)).foldl (fun m i => max m (u i)) 0
  have hge0 : m0 ≤ (List.range kk).foldl (fun m p => max m (g p)) m0 := scan_max_ge_init g m0 kk
  have hspec0 : (0 : Rat) ≤ (List.range (j + 1)).foldl (fun m i => max m (u i)) 0 := scan_max_ge_init u 0 (j + 1)
  -- decoding facts
  have dec_lo : ∀ i v, (i, v) ∈ F.U.col j → decodeUg F i j = v := by
    intro i v hm
    have hi : i < f := habove _ hm
    unfold decodeUg
    simp only [hf, hi, if_true]
    rw [csc_get_eq, get_fold_present i v _ 0 hnd hm]; ring
  have dec_lo0 : ∀ i, i < f → (∀ e ∈ F.U.col j, e.1 ≠ i) → decodeUg F i j = 0 := by
    intro i hi hab
    unfold decodeUg
    simp only [hf, hi, if_true]
    rw [csc_get_eq, get_fold_absent i _ 0 hab]
  have dec_hi : ∀ p, p ≤ d → p < nsupr → decodeUg F (f + p) j = F.L.valAt j p := by
    intro p hp hpn
    unfold decodeUg
    have h1 : ¬ (f + p < f) := by omega
    have h2 : f + p ≤ j := by omega
    have h3 : f + p - f = p := by omega
    simp only [hf, h1, if_false, h2, if_true, h3, hn, hpn]
  apply le_antisymm
  · -- scan ≤ spec
    rcases scan_max_attained g m0 kk with h | ⟨p, hp, h⟩
    · rw [h]
      rcases hm0att with h0 | ⟨e, he, hv⟩
      · rw [h0]; exact hspec0
      · rw [← hv]
        have hi : e.1 < f := habove e he
        have h1 : u e.1 ≤ _ := scan_max_ge u 0 (j + 1) e.1 (by omega)
        have h2 : u e.1 = rabs e.2 := by show rabs (decodeUg F e.1 j) = _; rw [dec_lo e.1 e.2 he]
        rw [h2] at h1; exact h1
    · rw [← h]
      obtain ⟨hp1, hp2⟩ := (hkk p).mp hp
      have h1 : u (f + p) ≤ _ := scan_max_ge u 0 (j + 1) (f + p) (by omega)
      have h2 : u (f + p) = g p := by show rabs (decodeUg F (f + p) j) = _; rw [dec_hi p hp1 hp2]
      rw [h2] at h1; exact h1
  · -- spec ≤ scan
    rcases scan_max_attained u 0 (j + 1) with h | ⟨i, hi, h⟩
    · rw [h]; exact le_trans hm0nn hge0
    · rw [← h]
      by_cases hlo : i < f
      · by_cases hex : ∃ e ∈ F.U.col j, e.1 = i
        · obtain ⟨e, he, hei⟩ := hex
          have h2 : u i = rabs e.2 := by show rabs (decodeUg F i j) = _; rw [← hei, dec_lo e.1 e.2 he]
          rw [h2]
          exact le_trans (hm0ge e he) hge0
        · have h2 : u i = 0 := by
            show rabs (decodeUg F i j) = _
            rw [dec_lo0 i hlo (fun e he heq => hex ⟨e, he, heq⟩)]; simp
          rw [h2]; exact le_trans hm0nn hge0
      · have hp : i - f ≤ d := by omega
        by_cases hpn : i - f < nsupr
        · have hfi : f + (i - f) = i := by omega
          have h2 : u i = g (i - f) := by
            show rabs (decodeUg F i j) = _
            have := dec_hi (i - f) hp hpn
            rw [hfi] at this; rw [this]
          rw [h2]
          exact scan_max_ge g m0 kk (i - f) ((hkk _).mpr ⟨hp, hpn⟩)
        · have h2 : u i = 0 := by
            show rabs (decodeUg F i j) = _
            have h3 : i ≤ j := by omega
            have : decodeUg F i j = 0 := by
              unfold decodeUg
              simp only [hf, hlo, if_false, h3, if_true, hn, hpn]
            rw [this]; simp
          rw [h2]; exact le_trans hm0nn hge0

end Slu.Cond

/-! ### flattening the supernode loop of `PivotGrowth` -/
namespace Slu.Cond

theorem range_append_shift (a b : Nat) (h : a ≤ b) :
    List.range a ++ (List.range (b - a)).map (a + ·) = List.range b := by
  have : b = a + (b - a) := by omega
  conv_rhs => rw [this, List.range_add]

/-- the loop over the supernodes with its early `break` visits the columns `0 .. min(xsup[N], ncols) - 1`
once each, in order: `step` is the update by one column -/
theorem pgFold_flat (ncols : Nat) (A : CSC Rat) (inv : Array Nat) (F : LUFac Rat) (step : Rat → Nat → Rat) (r0 : Rat)
    (N : Nat) (h0 : F.L.xsup.getD 0 0 = 0) (hinc : ∀ k, k < N → F.L.xsup.getD k 0 < F.L.xsup.getD (k + 1) 0)
    (hsup : ∀ k, k < N → ∀ rpg, (pgSuper (R := Rat) ncols A inv F rpg k).1 =
      ((List.range (min (F.L.xsup.getD (k + 1) 0) ncols - F.L.xsup.getD k 0)).map (F.L.xsup.getD k 0 + ·)).foldl step rpg) :
    ((List.range N).foldl (fun (st : Rat × Bool) k =>
        if st.2 then st else pgSuper (R := Rat) ncols A inv F st.1 k) (r0, false)).1 =
      (List.range (min (F.L.xsup.getD N 0) ncols)).foldl step r0 := by
  suffices key : ∀ M, M ≤ N →
      ((List.range M).foldl (fun (st : Rat × Bool) k =>
        if st.2 then st else pgSuper (R := Rat) ncols A inv F st.1 k) (r0, false)).1 =
        (List.range (min (F.L.xsup.getD M 0) ncols)).foldl step r0 ∧
      (((List.range M).foldl (fun (st : Rat × Bool) k =>
        if st.2 then st else pgSuper (R := Rat) ncols A inv F st.1 k) (r0, false)).2 = true →
        ncols ≤ F.L.xsup.getD M 0) from (key N (le_refl _)).1
  intro M
  induction M with
  | zero =>
    intro _
    simp [h0]
  | succ M ih =>
    intro hM
    obtain ⟨i1, i2⟩ := ih (by omega)
    have hlt := hinc M (by omega)
    rw [List.range_succ, List.foldl_append]
    simp only [List.foldl_cons, List.foldl_nil]
    generalize (List.range M).foldl (fun (st : Rat × Bool) k =>
        if st.2 then st else pgSuper (R := Rat) ncols A inv F st.1 k) (r0, false) = st at i1 i2
    by_cases hfl : st.2 = true
    · have hn := i2 hfl
      simp only [hfl, if_true]
      refine ⟨?_, fun _ => by omega⟩
      rw [i1, Nat.min_eq_right hn, Nat.min_eq_right (by omega)]
    · simp only [hfl, Bool.false_eq_true, if_false]
      constructor
      · rw [hsup M (by omega), i1, ← List.foldl_append]
        by_cases hc : F.L.xsup.getD M 0 ≤ ncols
        · rw [Nat.min_eq_left hc, range_append_shift _ _ (by omega)]
        · have e1 : min (F.L.xsup.getD M 0) ncols = ncols := by omega
          have e2 : min (F.L.xsup.getD (M + 1) 0) ncols = ncols := by omega
          have e3 : ncols - F.L.xsup.getD M 0 = 0 := by omega
          rw [e1, e2, e3]; simp
      · intro hflag
        have : (pgSuper (R := Rat) ncols A inv F st.1 M).2 =
            decide ((if F.L.xsup.getD M 0 < min (F.L.xsup.getD (M + 1) 0) ncols then min (F.L.xsup.getD (M + 1) 0) ncols
              else F.L.xsup.getD M 0) ≥ ncols) := rfl
        rw [this] at hflag
        simp only [ge_iff_le, decide_eq_true_eq] at hflag
        split at hflag <;> omega

end Slu.Cond
