import SluProofs.Lemmas.LUSchedule
import Slu.Model.Dfs
import Mathlib.Logic.Relation
import Mathlib.Data.List.Nodup
import Mathlib.Data.List.Range
/-
The depth-first search of `Slu/Model/Dfs.lean` is a topological sort of the reach of its roots, and
the reverse postorder it returns is a valid elimination schedule (`ValidSchedule`, LUSchedule.lean).

Part 1 (graph level; `adj : Nat → List Nat` with `k < r < j` for every `r ∈ adj k`, roots `< j`):
* `dfsPost_nodup`        — no node is listed twice;
* `mem_dfsPost_iff`      — a node is listed iff it is reachable from a root (`Reach` = reflexive
                           transitive closure of `adj`);
* `dfsPost_topo`         — a successor is listed BEFORE its node in the postorder, i.e.
  `dfsRevPost_topo`        every node precedes its successors in the reverse postorder.

Part 2 (elimination level; `Ls` = the unit lower list of previous columns, `w` = the column):
* `elim_mult_support`           — a column has multiplier zero unless it lies in every set that
                                  contains the columns hit by the nonzero rows of `w` and is closed
                                  under the dependency edges `L_a(piv b) ≠ 0`;
* `validSchedule_of_closedTopo` — ANY duplicate free list of column indices that contains those
                                  roots, is closed under those edges and lists every edge source
                                  before its target is a valid schedule, however it is cut into
                                  consecutive blocks;
* `validSchedule_dfs`           — the reverse DFS postorder is one, for any `adj`/`roots` that
                                  CONTAIN the numerically nonzero pattern;
* `validSchedule_filter`        — so is the restriction of a topological order of a larger closed
                                  set (the panel-wide `segrep` of [sdcz]panel_dfs) to a closed
                                  subset that contains the roots of this column.

Part 3 (supernode representatives; `rep k` = last column of the supernode of `k`):
* `validSchedule_snodeDfs`      — the search on representatives, each reached supernode applied as
                                  ONE block `repfnz[s]..s`, is a valid schedule, provided the
                                  structure `adjS s` of a supernode contains the numeric structure
                                  below the diagonal block of every one of its columns.
-/
namespace Slu.LU
open Slu List

/-! ### Part 1: the search is a topological sort of the reach -/

/-- `Reach adj a b`: `b` is reachable from `a` along `adj` (reflexive-transitive closure) -/
def Reach (adj : Nat → List Nat) : Nat → Nat → Prop := Relation.ReflTransGen (fun x y => y ∈ adj x)
/-- every suffix `k :: B` of the list has all successors of `k` inside `B` -/
def TopoClosed (adj : Nat → List Nat) : List Nat → Prop
  | [] => True
  | k :: B => (∀ r ∈ adj k, r ∈ B) ∧ TopoClosed adj B

theorem Reach.le {adj : Nat → List Nat} {j : Nat} (hadj : ∀ k, ∀ r ∈ adj k, k < r ∧ r < j) {a b : Nat}
    (h : Reach adj a b) : a ≤ b := by
  induction h with
  | refl => exact Nat.le_refl _
  | tail _ hbc ih => exact Nat.le_trans ih (Nat.le_of_lt (hadj _ _ hbc).1)

theorem Reach.lt_bound {adj : Nat → List Nat} {j : Nat} (hadj : ∀ k, ∀ r ∈ adj k, k < r ∧ r < j) {a b : Nat}
    (ha : a < j) (h : Reach adj a b) : b < j := by
  induction h with
  | refl => exact ha
  | tail _ hbc _ => exact (hadj _ _ hbc).2

theorem TopoClosed.closed {adj : Nat → List Nat} {post : List Nat} (h : TopoClosed adj post) :
    ∀ k ∈ post, ∀ r ∈ adj k, r ∈ post := by
  induction post with
  | nil => intro k hk; simp at hk
  | cons c B ih =>
    intro k hk r hr
    rcases mem_cons.mp hk with rfl | hk
    · exact mem_cons_of_mem _ (h.1 r hr)
    · exact mem_cons_of_mem _ (ih h.2 k hk r hr)

theorem TopoClosed.sublist {adj : Nat → List Nat} {post : List Nat} (h : TopoClosed adj post) :
    ∀ k ∈ post, ∀ r ∈ adj k, [k, r] <+ post := by
  induction post with
  | nil => intro k hk; simp at hk
  | cons c B ih =>
    intro k hk r hr
    rcases mem_cons.mp hk with rfl | hk
    · exact Sublist.cons_cons _ (singleton_sublist.mpr (h.1 r hr))
    · exact (ih h.2 k hk r hr).cons _

theorem TopoClosed.reach {adj : Nat → List Nat} {post : List Nat} (h : TopoClosed adj post) {a b : Nat}
    (ha : a ∈ post) (hr : Reach adj a b) : b ∈ post := by
  induction hr with
  | refl => exact ha
  | tail _ hbc ih => exact h.closed _ ih _ hbc

/-- what one call (`dfsVisit`) or a run of calls (`dfsList`) does to the accumulator: it puts new
nodes in front, all reachable from the start nodes, keeps the list duplicate free and
successor-closed, and the start nodes end up inside -/
structure DfsStep (adj : Nat → List Nat) (starts : List Nat) (post res : List Nat) : Prop where
  ext : ∃ new, res = new ++ post ∧ ∀ x ∈ new, ∃ s ∈ starts, Reach adj s x
  nodup : res.Nodup
  topo : TopoClosed adj res
  mem : ∀ s ∈ starts, s ∈ res

theorem dfsList_step_of {adj : Nat → List Nat} {j fuel : Nat}
    (ih : ∀ k post, k < j → j ≤ k + fuel → post.Nodup → TopoClosed adj post →
      DfsStep adj [k] post (dfsVisit adj fuel k post))
    (rs : List Nat) (post : List Nat) (hrs : ∀ r ∈ rs, r < j ∧ j ≤ r + fuel)
    (hnd : post.Nodup) (htc : TopoClosed adj post) :
    DfsStep adj rs post (dfsList adj fuel rs post) := by
  induction rs generalizing post with
  | nil => exact ⟨⟨[], by simp [dfsList], by simp⟩, by simpa [dfsList] using hnd, by simpa [dfsList] using htc, by simp⟩
  | cons r rs ihl =>
    have h1 := ih r post (hrs r mem_cons_self).1 (hrs r mem_cons_self).2 hnd htc
    have h2 := ihl (dfsVisit adj fuel r post) (fun x hx => hrs x (mem_cons_of_mem _ hx)) h1.nodup h1.topo
    have e : dfsList adj fuel (r :: rs) post = dfsList adj fuel rs (dfsVisit adj fuel r post) := by
      simp [dfsList]
    rw [e]
    obtain ⟨n1, e1, r1⟩ := h1.ext
    obtain ⟨n2, e2, r2⟩ := h2.ext
    refine ⟨⟨n2 ++ n1, by rw [e2, e1, append_assoc], ?_⟩, h2.nodup, h2.topo, ?_⟩
    · intro x hx
      rcases mem_append.mp hx with hx | hx
      · obtain ⟨s, hs, hsx⟩ := r2 x hx
        exact ⟨s, mem_cons_of_mem _ hs, hsx⟩
      · obtain ⟨s, hs, hsx⟩ := r1 x hx
        exact ⟨s, by simp at hs; simp [hs], hsx⟩
    · intro s hs
      rcases mem_cons.mp hs with rfl | hs
      · rw [e2]; exact mem_append_right _ (h1.mem _ mem_cons_self)
      · exact h2.mem s hs

theorem dfsVisit_step {adj : Nat → List Nat} {j : Nat} (hadj : ∀ k, ∀ r ∈ adj k, k < r ∧ r < j) (fuel : Nat) :
    ∀ k post, k < j → j ≤ k + fuel → post.Nodup → TopoClosed adj post →
      DfsStep adj [k] post (dfsVisit adj fuel k post) := by
  induction fuel with
  | zero => intro k post hk hf; omega
  | succ fuel ih =>
    intro k post hk hf hnd htc
    by_cases hmem : k ∈ post
    · have e : dfsVisit adj (fuel + 1) k post = post := by simp [dfsVisit, hmem]
      rw [e]
      exact ⟨⟨[], by simp, by simp⟩, hnd, htc, by simpa using hmem⟩
    · have e : dfsVisit adj (fuel + 1) k post = k :: dfsList adj fuel (adj k) post := by
        simp [dfsVisit, hmem, dfsList]
      rw [e]
      have hl := dfsList_step_of ih (adj k) post
        (fun r hr => ⟨(hadj k r hr).2, by have := (hadj k r hr).1; omega⟩) hnd htc
      obtain ⟨n, en, rn⟩ := hl.ext
      have hkn : k ∉ dfsList adj fuel (adj k) post := by
        rw [en]
        intro h
        rcases mem_append.mp h with h | h
        · obtain ⟨s, hs, hsk⟩ := rn k h
          have := (hadj k s hs).1
          have := hsk.le hadj
          omega
        · exact hmem h
      refine ⟨⟨k :: n, by rw [en]; rfl, ?_⟩, nodup_cons.mpr ⟨hkn, hl.nodup⟩, ⟨hl.mem, hl.topo⟩, by simp⟩
      intro x hx
      refine ⟨k, mem_singleton_self k, ?_⟩
      rcases mem_cons.mp hx with rfl | hx
      · exact Relation.ReflTransGen.refl
      · obtain ⟨s, hs, hsx⟩ := rn x hx
        exact Relation.ReflTransGen.head hs hsx

section graph
variable {adj : Nat → List Nat} {j : Nat}

theorem dfsRevPost_step (hadj : ∀ k, ∀ r ∈ adj k, k < r ∧ r < j) (roots : List Nat)
    (hroots : ∀ r ∈ roots, r < j) : DfsStep adj roots [] (dfsRevPost j adj roots) :=
  dfsList_step_of (dfsVisit_step hadj j) roots [] (fun r hr => ⟨hroots r hr, by omega⟩) nodup_nil trivial

/-- (a) the reverse postorder lists no node twice -/
theorem dfsRevPost_nodup (hadj : ∀ k, ∀ r ∈ adj k, k < r ∧ r < j) (roots : List Nat)
    (hroots : ∀ r ∈ roots, r < j) : (dfsRevPost j adj roots).Nodup :=
  (dfsRevPost_step hadj roots hroots).nodup

/-- (b) a node is listed iff it is reachable from some root -/
theorem mem_dfsRevPost_iff (hadj : ∀ k, ∀ r ∈ adj k, k < r ∧ r < j) (roots : List Nat)
    (hroots : ∀ r ∈ roots, r < j) (x : Nat) :
    x ∈ dfsRevPost j adj roots ↔ ∃ s ∈ roots, Reach adj s x := by
  have h := dfsRevPost_step hadj roots hroots
  constructor
  · intro hx
    obtain ⟨new, e, hr⟩ := h.ext
    rw [e, append_nil] at hx
    exact hr x hx
  · rintro ⟨s, hs, hsx⟩
    exact h.topo.reach (h.mem s hs) hsx

/-- (c) in the reverse postorder every node precedes each of its successors -/
theorem dfsRevPost_topo (hadj : ∀ k, ∀ r ∈ adj k, k < r ∧ r < j) (roots : List Nat)
    (hroots : ∀ r ∈ roots, r < j) (k : Nat) (hk : k ∈ dfsRevPost j adj roots) (r : Nat) (hr : r ∈ adj k) :
    [k, r] <+ dfsRevPost j adj roots :=
  (dfsRevPost_step hadj roots hroots).topo.sublist k hk r hr

theorem dfsRevPost_lt (hadj : ∀ k, ∀ r ∈ adj k, k < r ∧ r < j) (roots : List Nat)
    (hroots : ∀ r ∈ roots, r < j) (x : Nat) (hx : x ∈ dfsRevPost j adj roots) : x < j := by
  obtain ⟨s, hs, hsx⟩ := (mem_dfsRevPost_iff hadj roots hroots x).mp hx
  exact hsx.lt_bound hadj (hroots s hs)

/-- **(a)** the postorder lists no node twice -/
theorem dfsPost_nodup (hadj : ∀ k, ∀ r ∈ adj k, k < r ∧ r < j) (roots : List Nat)
    (hroots : ∀ r ∈ roots, r < j) : (dfsPost j adj roots).Nodup :=
  nodup_reverse.mpr (dfsRevPost_nodup hadj roots hroots)

/-- **(b)** a node is in the postorder iff it is reachable from some root -/
theorem mem_dfsPost_iff (hadj : ∀ k, ∀ r ∈ adj k, k < r ∧ r < j) (roots : List Nat)
    (hroots : ∀ r ∈ roots, r < j) (x : Nat) :
    x ∈ dfsPost j adj roots ↔ ∃ s ∈ roots, Reach adj s x := by
  rw [dfsPost, mem_reverse]; exact mem_dfsRevPost_iff hadj roots hroots x

/-- **(c)** topological: every successor `r` of a listed node `k` occurs BEFORE `k` in the postorder
(`[r, k] <+ l`: `r` occurs before `k` in `l`) -/
theorem dfsPost_topo (hadj : ∀ k, ∀ r ∈ adj k, k < r ∧ r < j) (roots : List Nat)
    (hroots : ∀ r ∈ roots, r < j) (k : Nat) (hk : k ∈ dfsPost j adj roots) (r : Nat) (hr : r ∈ adj k) :
    [r, k] <+ dfsPost j adj roots := by
  rw [dfsPost, mem_reverse] at hk
  have := (dfsRevPost_topo hadj roots hroots k hk r hr).reverse
  simpa [dfsPost] using this

end graph

/-! ### reading the model's schedule definitions -/

theorem scheduleOf_flatten {K : Type} (st : St K) (order : List Nat) :
    (scheduleOf st order).flatten = order.map fun k => (st.piv.getD k 0, st.L.getD k #[]) := by
  induction order with
  | nil => rfl
  | cons k rest ih => simpa [scheduleOf] using ih

theorem mem_numAdj {K : Type} [Zero K] [DecidableEq K] (st : St K) (j k r : Nat) :
    r ∈ numAdj st j k ↔ r < j ∧ k < r ∧ (st.L.getD k #[]).get (st.piv.getD r 0) ≠ 0 := by
  simp [numAdj]

theorem mem_numRoots {K : Type} [Zero K] [DecidableEq K] (st : St K) (j : Nat) (w : Vec K) (k : Nat) :
    k ∈ numRoots st j w ↔ k < j ∧ w.get (st.piv.getD k 0) ≠ 0 := by
  simp [numRoots]

/-! ### Part 2: a closed topological order is a valid elimination schedule -/

variable {K : Type} [Field K]

theorem axpy_get_ne_zero (w l : Vec K) (u : K) (i : Nat) (h : (axpy w l u).get i ≠ 0) :
    w.get i ≠ 0 ∨ (u ≠ 0 ∧ l.get i ≠ 0) := by
  by_contra hc
  push Not at hc
  obtain ⟨h1, h2⟩ := hc
  by_cases hu : u = 0
  · rw [hu, axpy_zero] at h; exact h h1
  · rw [axpy_get_of_zero _ _ _ _ (h2 hu)] at h; exact h h1

/-- **Support of the multipliers.** Let `Rp` be a set of columns that contains every column whose
pivot row is a nonzero row of `w` and is closed under the dependency edges `a → b`
(`a` before `b`, `L_a(piv b) ≠ 0`).  Then every column with a nonzero multiplier lies in `Rp`. -/
theorem elim_mult_support (Rp : Nat × Vec K → Prop) (Ls : List (Nat × Vec K)) (w : Vec K)
    (hroot : ∀ x ∈ Ls, w.get x.1 ≠ 0 → Rp x)
    (hedge : ∀ a b, [a, b] <+ Ls → Rp a → a.2.get b.1 ≠ 0 → Rp b) :
    ∀ e ∈ Ls.zip (elim Ls w).2, e.2 ≠ 0 → Rp e.1 := by
  induction Ls generalizing w with
  | nil => intro e he; simp at he
  | cons x rest ih =>
    intro e he hne
    rw [elim_cons, zip_cons_cons] at he
    rcases mem_cons.mp he with rfl | he
    · exact hroot x mem_cons_self hne
    · refine ih _ ?_ (fun a b hab => hedge a b (hab.cons _)) e he hne
      intro y hy hwy
      rcases axpy_get_ne_zero _ _ _ _ hwy with h | ⟨hu, hl⟩
      · exact hroot y (mem_cons_of_mem _ hy) h
      · exact hedge x y (Sublist.cons_cons _ (singleton_sublist.mpr hy)) (hroot x mem_cons_self hu) hl

theorem pair_sublist_getElem {α : Type} (L : List α) (i i' : Nat) (h : i < i') (h' : i' < L.length) :
    [L[i], L[i']] <+ L := by
  have : L.Pairwise (fun a b => [a, b] <+ L) := pairwise_iff_forall_sublist.mpr (fun h => h)
  exact pairwise_iff_getElem.mp this i i' (by omega) h' h

theorem pair_sublist_index {α : Type} (L : List α) (a b : α) (h : [a, b] <+ L) :
    ∃ (i i' : Nat) (h' : i' < L.length) (hi : i < i'), L[i] = a ∧ L[i'] = b := by
  have : L.Pairwise (fun a b => ∃ (i i' : Nat) (h' : i' < L.length) (hi : i < i'), L[i] = a ∧ L[i'] = b) :=
    pairwise_iff_getElem.mpr (fun i j _ hj hij => ⟨i, j, hj, hij, rfl, rfl⟩)
  exact pairwise_iff_forall_sublist.mp this h

/-- **Any closed topological order is a valid schedule.** `order` lists column indices of the unit
lower list `Ls` (each at most once) such that
* every column whose pivot row is a nonzero row of `w` is listed,
* whenever a listed column `k` has a dependency edge to a later column `k'` (`L_k(piv k') ≠ 0`),
  `k'` is listed too, AFTER `k`.
Then the listed columns in that order, grouped into consecutive blocks in any way, are a valid
schedule for eliminating `w`. -/
theorem validSchedule_of_closedTopo (Ls : List (Nat × Vec K)) (w : Vec K) (order : List Nat)
    (f : Nat → Nat × Vec K) (hU : UnitLower Ls)
    (hf : ∀ k (hk : k < Ls.length), f k = Ls[k])
    (hnd : order.Nodup) (hlt : ∀ k ∈ order, k < Ls.length)
    (hroots : ∀ k (hk : k < Ls.length), w.get (Ls[k]).1 ≠ 0 → k ∈ order)
    (hedges : ∀ k k' (_ : k < k') (hk' : k' < Ls.length), k ∈ order → (Ls[k]).2.get (Ls[k']).1 ≠ 0 →
      [k, k'] <+ order)
    (bs : List (List (Nat × Vec K))) (hbs : bs.flatten = order.map f) : ValidSchedule Ls w bs := by
  classical
  have hLnd : Ls.Nodup := hU.nodup
  -- membership in the schedule
  have hmemσ : ∀ x, x ∈ order.map f ↔ ∃ k, k ∈ order ∧ ∃ hk : k < Ls.length, Ls[k] = x := by
    intro x
    rw [mem_map]
    constructor
    · rintro ⟨k, hk, rfl⟩; exact ⟨k, hk, hlt k hk, (hf k (hlt k hk)).symm⟩
    · rintro ⟨k, hk, hk', rfl⟩; exact ⟨k, hk, hf k hk'⟩
  have hidx : ∀ (i : Nat) (hi : i < Ls.length), Ls[i] ∈ order.map f → i ∈ order := by
    intro i hi hm
    obtain ⟨k, hk, hk', e⟩ := (hmemσ _).mp hm
    rwa [← hLnd.getElem_inj_iff.mp e]
  have hndσ : (order.map f).Nodup := by
    apply Nodup.map_on _ hnd
    intro x hx y hy hxy
    rw [hf x (hlt x hx), hf y (hlt y hy)] at hxy
    exact hLnd.getElem_inj_iff.mp hxy
  have hsub : ∀ x ∈ order.map f, x ∈ Ls := by
    intro x hx
    obtain ⟨k, _, hk', rfl⟩ := (hmemσ x).mp hx
    exact getElem_mem _
  have hedge' : ∀ a b, [a, b] <+ Ls → a ∈ order.map f → a.2.get b.1 ≠ 0 → [a, b] <+ order.map f := by
    intro a b hab ha hne
    obtain ⟨i, i', h', hi, rfl, rfl⟩ := pair_sublist_index Ls a b hab
    have := (hedges i i' hi h' (hidx i (by omega) ha) hne).map f
    simpa [hf i (by omega), hf i' h'] using this
  refine ⟨fun x => decide (x ∈ order.map f), ?_, ?_, ?_⟩
  · rw [hbs]
    refine (perm_ext_iff_of_nodup hndσ (hLnd.filter _)).mpr (fun x => ?_)
    simp only [mem_filter, decide_eq_true_eq]
    exact ⟨fun h => ⟨hsub x h, h⟩, fun h => h.2⟩
  · rw [hbs]
    intro a b hab hne
    have ha : a ∈ Ls.filter (fun x => decide (x ∈ order.map f)) := hab.subset (by simp)
    exact hedge' a b (hab.trans filter_sublist) (by simpa using (mem_filter.mp ha).2) hne
  · intro e he hk
    by_contra hne
    have := elim_mult_support (· ∈ order.map f) Ls w ?_ ?_ e he hne
    · simp [this] at hk
    · intro x hx hw
      obtain ⟨k, hk', rfl⟩ := getElem_of_mem hx
      exact (hmemσ _).mpr ⟨k, hroots k hk' hw, hk', rfl⟩
    · intro a b hab ha hne'
      exact (hedge' a b hab ha hne').subset (by simp)

/-- **The reverse DFS postorder is a valid schedule.** `adj` and `roots` may be any pattern that
contains the numerically nonzero one (`hpat`, `hroots`) and only has edges `k → r` with
`k < r < Ls.length`; `f` reads column `k` of `Ls`; `bs` is any cutting of the order into blocks. -/
theorem validSchedule_dfs (Ls : List (Nat × Vec K)) (w : Vec K) (adj : Nat → List Nat) (roots : List Nat)
    (f : Nat → Nat × Vec K) (hU : UnitLower Ls)
    (hf : ∀ k (hk : k < Ls.length), f k = Ls[k])
    (hadj : ∀ k, ∀ r ∈ adj k, k < r ∧ r < Ls.length)
    (hrootlt : ∀ r ∈ roots, r < Ls.length)
    (hpat : ∀ k k' (_ : k < k') (hk' : k' < Ls.length), (Ls[k]).2.get (Ls[k']).1 ≠ 0 → k' ∈ adj k)
    (hroots : ∀ k (hk : k < Ls.length), w.get (Ls[k]).1 ≠ 0 → k ∈ roots)
    (bs : List (List (Nat × Vec K))) (hbs : bs.flatten = (dfsRevPost Ls.length adj roots).map f) :
    ValidSchedule Ls w bs := by
  refine validSchedule_of_closedTopo Ls w _ f hU hf (dfsRevPost_nodup hadj roots hrootlt)
    (dfsRevPost_lt hadj roots hrootlt) ?_ ?_ bs hbs
  · intro k hk hw
    exact (mem_dfsRevPost_iff hadj roots hrootlt k).mpr ⟨k, hroots k hk hw, Relation.ReflTransGen.refl⟩
  · intro k k' hkk' hk' hk hne
    exact dfsRevPost_topo hadj roots hrootlt k hk k' (hpat k k' hkk' hk' hne)

/-- **Restriction of a larger topological order** (the panel-wide list of [sdcz]panel_dfs, from
which each column of the panel takes the segments it reaches): if `order` lists every edge source
before its target and `p` selects a subset that contains the roots of `w` and is closed under the
edges, the selected columns in the order of `order` are a valid schedule. -/
theorem validSchedule_filter (Ls : List (Nat × Vec K)) (w : Vec K) (order : List Nat) (p : Nat → Bool)
    (f : Nat → Nat × Vec K) (hU : UnitLower Ls)
    (hf : ∀ k (hk : k < Ls.length), f k = Ls[k])
    (hnd : order.Nodup) (hlt : ∀ k ∈ order, k < Ls.length)
    (hroots : ∀ k (hk : k < Ls.length), w.get (Ls[k]).1 ≠ 0 → k ∈ order ∧ p k = true)
    (hclosed : ∀ k k' (_ : k < k') (hk' : k' < Ls.length), k ∈ order → p k = true →
      (Ls[k]).2.get (Ls[k']).1 ≠ 0 → p k' = true ∧ [k, k'] <+ order)
    (bs : List (List (Nat × Vec K))) (hbs : bs.flatten = (order.filter p).map f) :
    ValidSchedule Ls w bs := by
  refine validSchedule_of_closedTopo Ls w _ f hU hf (hnd.filter _) (fun k hk => hlt k (mem_filter.mp hk).1)
    ?_ ?_ bs hbs
  · intro k hk hw
    exact mem_filter.mpr (hroots k hk hw)
  · intro k k' hkk' hk' hk hne
    obtain ⟨hk1, hk2⟩ := mem_filter.mp hk
    obtain ⟨h1, h2⟩ := hclosed k k' hkk' hk' hk1 hk2 hne
    have := h2.filter p
    simpa [hk2, h1] using this

/-! ### Part 3: supernode representatives -/

theorem sublist_flatMap_of_sublist {α β : Type} (g : α → List β) {l₁ l₂ : List α} (h : l₁ <+ l₂) :
    l₁.flatMap g <+ l₂.flatMap g := by
  induction h with
  | slnil => simp
  | cons a _ ih => rw [flatMap_cons]; exact ih.trans (sublist_append_right _ _)
  | cons_cons a _ ih => rw [flatMap_cons, flatMap_cons]; exact Sublist.append (Sublist.refl _) ih

theorem mem_colSeg (lo hi m : Nat) : m ∈ colSeg lo hi ↔ lo ≤ m ∧ m ≤ hi := by
  rw [colSeg, mem_range'_1]; omega

theorem colSeg_pair (lo hi a b : Nat) (ha : lo ≤ a) (hab : a < b) (hb : b ≤ hi) : [a, b] <+ colSeg lo hi := by
  have hnd : (colSeg lo hi).Nodup := nodup_range' 1
  rcases pair_sublist_or (colSeg lo hi) a b ((mem_colSeg _ _ _).mpr ⟨ha, by omega⟩)
    ((mem_colSeg _ _ _).mpr ⟨by omega, hb⟩) (by omega) with h | h
  · exact h
  · have := pairwise_iff_forall_sublist.mp (pairwise_lt_range' (s := lo) (n := hi + 1 - lo) 1) h
    omega

theorem foldl_min_le (l : List Nat) (s : Nat) : l.foldl min s ≤ s ∧ (∀ h ∈ l, l.foldl min s ≤ h) ∧
    (l.foldl min s = s ∨ l.foldl min s ∈ l) := by
  induction l generalizing s with
  | nil => simp
  | cons a l ih =>
    obtain ⟨h1, h2, h3⟩ := ih (min s a)
    simp only [foldl_cons, mem_cons, forall_eq_or_imp]
    refine ⟨by omega, ⟨by omega, h2⟩, ?_⟩
    rcases h3 with h | h
    · rcases Nat.le_total s a with hsa | hsa
      · left; rw [h]; exact Nat.min_eq_left hsa
      · right; left; rw [h]; exact Nat.min_eq_right hsa
    · right; right; exact h

section snode
variable {rep : Nat → Nat}

theorem snodeFnz_le (hits : List Nat) (s : Nat) : snodeFnz rep hits s ≤ s :=
  (foldl_min_le _ s).1

theorem snodeFnz_le_hit (hits : List Nat) (s h : Nat) (hh : h ∈ hits) (hr : rep h = s) :
    snodeFnz rep hits s ≤ h :=
  (foldl_min_le _ s).2.1 h (mem_filter.mpr ⟨hh, by simpa using hr⟩)

theorem rep_snodeFnz (hits : List Nat) (s : Nat) (hs : rep s = s) : rep (snodeFnz rep hits s) = s := by
  rcases (foldl_min_le (hits.filter fun k => rep k == s) s).2.2 with h | h
  · rw [snodeFnz, h, hs]
  · simpa [snodeFnz] using (mem_filter.mp h).2

end snode

/-- **The supernodal search gives a valid schedule.**  `rep` maps a column to the representative
(last column) of its supernode — supernodes are runs of consecutive columns: `k ≤ rep k`, `rep` is
monotone and idempotent.  `adjS s` holds columns beyond `s`; it CONTAINS, for every column `k` of
supernode `s`, the later columns `k' > s` with `L_k(piv k') ≠ 0` (`hpat`: all columns of a supernode
share the structure below the diagonal block, and that structure contains the numeric one).
`roots` contains the columns hit by the nonzero rows of `w`.  Then the blocks `repfnz[s]..s`, one per
reached representative in reverse postorder, are a valid schedule. -/
theorem validSchedule_snodeDfs (Ls : List (Nat × Vec K)) (w : Vec K) (rep : Nat → Nat) (adjS : Nat → List Nat)
    (roots : List Nat) (f : Nat → Nat × Vec K) (hU : UnitLower Ls)
    (hf : ∀ k (hk : k < Ls.length), f k = Ls[k])
    (hge : ∀ k, k ≤ rep k) (hrlt : ∀ k < Ls.length, rep k < Ls.length)
    (hmono : ∀ k k', k ≤ k' → rep k ≤ rep k') (hidem : ∀ k, rep (rep k) = rep k)
    (hadjS : ∀ s, ∀ r ∈ adjS s, s < r ∧ r < Ls.length)
    (hrootlt : ∀ r ∈ roots, r < Ls.length)
    (hpat : ∀ k k' (_ : k < k') (hk' : k' < Ls.length), rep k < k' → (Ls[k]).2.get (Ls[k']).1 ≠ 0 →
      k' ∈ adjS (rep k))
    (hroots : ∀ k (hk : k < Ls.length), w.get (Ls[k]).1 ≠ 0 → k ∈ roots) :
    ValidSchedule Ls w ((snodeSegs Ls.length rep adjS roots).map fun seg => seg.map f) := by
  set j := Ls.length with hj
  set reps := snodeReps j rep adjS roots with hreps
  set hits := roots ++ reps.flatMap adjS with hhits
  set blk : Nat → List Nat := fun s => colSeg (snodeFnz rep hits s) s with hblk
  -- the search on representatives
  have hadj : ∀ k, ∀ r ∈ (fun s => (adjS s).map rep) k, k < r ∧ r < j := by
    intro k r hr
    obtain ⟨x, hx, rfl⟩ := mem_map.mp hr
    have := hadjS k x hx
    exact ⟨Nat.lt_of_lt_of_le this.1 (hge x), hrlt x this.2⟩
  have hrl : ∀ r ∈ roots.map rep, r < j := by
    intro r hr
    obtain ⟨x, hx, rfl⟩ := mem_map.mp hr
    exact hrlt x (hrootlt x hx)
  have R1 : reps.Nodup := dfsRevPost_nodup hadj _ hrl
  have R2 : ∀ s ∈ reps, s < j := dfsRevPost_lt hadj _ hrl
  have R3 : ∀ s ∈ reps, rep s = s := by
    intro s hs
    obtain ⟨r, hr, hrs⟩ := (mem_dfsRevPost_iff hadj _ hrl s).mp hs
    cases hrs with
    | refl => obtain ⟨x, _, rfl⟩ := mem_map.mp hr; exact hidem x
    | tail _ hbs => obtain ⟨x, _, rfl⟩ := mem_map.mp hbs; exact hidem x
  have R4 : ∀ s ∈ reps, ∀ r ∈ adjS s, [s, rep r] <+ reps :=
    fun s hs r hr => dfsRevPost_topo hadj _ hrl s hs (rep r) (mem_map_of_mem hr)
  have R5 : ∀ k ∈ roots, rep k ∈ reps := fun k hk =>
    (mem_dfsRevPost_iff hadj _ hrl _).mpr ⟨rep k, mem_map_of_mem hk, Relation.ReflTransGen.refl⟩
  -- members of a block
  have hblkrep : ∀ s ∈ reps, ∀ m ∈ blk s, rep m = s := by
    intro s hs m hm
    obtain ⟨h1, h2⟩ := (mem_colSeg _ _ _).mp hm
    have a := hmono _ _ h1
    rw [rep_snodeFnz hits s (R3 s hs)] at a
    have b := hmono _ _ h2
    rw [R3 s hs] at b
    omega
  have hhit : ∀ h ∈ hits, h ∈ blk (rep h) := by
    intro h hh
    exact (mem_colSeg _ _ _).mpr ⟨snodeFnz_le_hit hits _ h hh rfl, hge h⟩
  have hmemo : ∀ m, m ∈ reps.flatMap blk ↔ ∃ s ∈ reps, m ∈ blk s := fun m => mem_flatMap
  have hbs : (((snodeSegs j rep adjS roots).map fun seg => seg.map f)).flatten = (reps.flatMap blk).map f := by
    simp only [snodeSegs, map_map, flatMap_def, map_flatten]
    rfl
  refine validSchedule_of_closedTopo Ls w (reps.flatMap blk) f hU hf ?_ ?_ ?_ ?_ _ hbs
  · rw [nodup_flatMap]
    refine ⟨fun s _ => nodup_range' 1, R1.pairwise_of_forall_ne ?_⟩
    intro s hs s' hs' hne
    show Disjoint (blk s) (blk s')
    intro m hm hm'
    exact hne ((hblkrep s hs m hm).symm.trans (hblkrep s' hs' m hm'))
  · intro m hm
    obtain ⟨s, hs, hms⟩ := (hmemo m).mp hm
    have := ((mem_colSeg _ _ _).mp hms).2
    have := R2 s hs
    omega
  · intro k hk hw
    have hkr := hroots k hk hw
    exact (hmemo k).mpr ⟨rep k, R5 k hkr, hhit k (mem_append_left _ hkr)⟩
  · intro k k' hkk' hk' hk hne
    obtain ⟨s, hs, hks⟩ := (hmemo k).mp hk
    have hrk : rep k = s := hblkrep s hs k hks
    obtain ⟨hlo, hhi⟩ := (mem_colSeg _ _ _).mp hks
    by_cases hc : k' ≤ s
    · exact (colSeg_pair _ _ k k' hlo hkk' hc).trans (by
        rw [flatMap_def]; exact sublist_flatten_of_mem (mem_map_of_mem hs))
    · have hin : k' ∈ adjS s := hrk ▸ hpat k k' hkk' hk' (by omega) hne
      have hk'hits : k' ∈ hits := mem_append_right _ (mem_flatMap.mpr ⟨s, hs, hin⟩)
      have hsub := R4 s hs k' hin
      have h1 : [k, k'] <+ blk s ++ blk (rep k') :=
        Sublist.append (singleton_sublist.mpr hks) (singleton_sublist.mpr (hhit k' hk'hits))
      have h2 := sublist_flatMap_of_sublist blk hsub
      simp only [flatMap_cons, flatMap_nil, append_nil] at h2
      exact h1.trans h2

end Slu.LU
