import SluProofs.Lemmas.RoundingLU
/-
The expert driver's extra roundings (C05): equilibration.

`[sdcz]gssvx` with `Equil = YES` solves the SCALED system.  With `s` the scale applied to the rows
of the stored operator and `t` the one applied to its columns (`R`, `C` for NOTRANS; `C`, `R` for
TRANS), the code forms, each with the roundings shown (SRC/dlaqgs.c:126-147, dgssvx.c:613-651):

  `A1(i,j) = fl(a(i,j) * fl(t_j * s_i))`   two roundings per entry   (`A` on exit)
  `b1(i)   = fl(s_i * b(i))`               one rounding              (`B` on exit)
  factor and solve `A1 z = b1`                                       (Thm 9.4 above)
  `X(j)    = fl(t_j * z(j))`               one rounding              (returned solution)

The run-time check evaluates two residuals in exact rationals, with `x_eq(j) = X(j) / t_j`:
  equilibrated:  `|b1 - A1 x_eq|         ≤ g(4n+6)  W |x_eq| + g(n+1) |b1|`
  original:      `s_i |b - A X|_i        ≤ g(4n+10) W |x_eq| + g(n+3) |b1|`
where `W = |L̂||Û|` permuted back.  Both are proved here from a solve bound `γ_K W|z|` (Thm 9.4:
`K = 3n+1`) and the factorization bound `|A1| ≤ (1+γ_c) W` (`c = n+1 ≤ K`):
  `residual_after_unscaling`:   `γ_K W|z|`       ⟹ `γ_{K+2} W|x_eq|`                  (`γ_{3n+3}`)
  `residual_original_system`:   `γ_K' W|x_eq|`   ⟹ `γ_{K'+2} W|x_eq| + γ_1|b1|`       (`γ_{3n+5}`)
  `expert_equilibrated`, `expert_original`: the two chained with Thm 9.3 / 9.4.
-/
set_option linter.unusedSectionVars false
namespace Slu.Rounding
open Finset

variable {F : Type} [Field F] [LinearOrder F] [IsStrictOrderedRing F] {u : F}

/-- absorption of `j` extra relative perturbations of a quantity bounded through `(1+γ_c)`:
`γ_K + γ_j (1 + γ_c) ≤ γ_{K+j}` when `c ≤ K` -/
theorem gamma_absorb (hu0 : 0 ≤ u) {K j c : Nat} (hc : c ≤ K) (hKu : ((K + j : Nat) : F) * u < 1) :
    gamma u K + gamma u j * (1 + gamma u c) ≤ gamma u (K + j) := by
  have hK := mul_lt_one_of_le hu0 (Nat.le_add_right K j) hKu
  have hj := mul_lt_one_of_le hu0 (Nat.le_add_left j K) hKu
  have hcu := mul_lt_one_of_le hu0 (hc.trans (Nat.le_add_right K j)) hKu
  have hcK : (c : F) * u ≤ K * u := mul_le_mul_of_nonneg_right (Nat.cast_le.mpr hc) hu0
  have hju : 0 ≤ (j : F) * u := mul_nonneg (Nat.cast_nonneg j) hu0
  have hKu0 : 0 ≤ (K : F) * u := mul_nonneg (Nat.cast_nonneg K) hu0
  have key : (1 + gamma u K) + gamma u j * (1 + gamma u c) ≤ 1 + gamma u (K + j) := by
    rw [one_add_gamma hK, one_add_gamma hcu, one_add_gamma hKu]
    unfold gamma
    push_cast at hKu ⊢
    set a : F := 1 - K * u with ha
    set b : F := 1 - (K + j) * u with hb
    set p : F := 1 - j * u with hp
    set q : F := 1 - c * u with hq
    have a0 : 0 < a := by rw [ha]; linarith
    have b0 : 0 < b := by rw [hb]; linarith
    have p0 : 0 < p := by rw [hp]; linarith
    have q0 : 0 < q := by rw [hq]; linarith
    have aq : a ≤ q := by rw [ha, hq]; linarith
    have bp : b ≤ p := by rw [hb, hp]; nlinarith
    have hab : a * b ≤ p * q := by
      calc a * b ≤ q * p := mul_le_mul aq bp b0.le q0.le
        _ = p * q := mul_comm _ _
    have e1 : b⁻¹ - a⁻¹ = (j * u) / (a * b) := by
      have : a - b = j * u := by rw [ha, hb]; ring
      rw [← this]; field_simp
    have e2 : (j * u) / p * q⁻¹ = (j * u) / (p * q) := by field_simp
    have h2 : (j * u) / (p * q) ≤ (j * u) / (a * b) :=
      div_le_div_of_nonneg_left hju (mul_pos a0 b0) hab
    rw [e2]; linarith
  linarith

/-- **unscaling the solution** (`X = fl(t * z)`, `x_eq = X / t = z (1 + d)`): the residual of the
factored system at `x_eq` obeys the solve bound with two more units in the constant. -/
theorem residual_after_unscaling (hu0 : 0 ≤ u) {n K c : Nat} {A1 W : Nat → Nat → F} {b1 z xe : Nat → F}
    (hsolve : ∀ i < n, |b1 i - ∑ j ∈ range n, A1 i j * z j| ≤ gamma u K * ∑ j ∈ range n, W i j * |z j|)
    (hA : ∀ i < n, ∀ j < n, |A1 i j| ≤ (1 + gamma u c) * W i j)
    (hx : ∀ j < n, Rnd u (z j) (xe j))
    (hc : c ≤ K) (hKu : ((K + 2 : Nat) : F) * u < 1) (i : Nat) (hi : i < n) :
    |b1 i - ∑ j ∈ range n, A1 i j * xe j| ≤ gamma u (K + 2) * ∑ j ∈ range n, W i j * |xe j| := by
  have hu1 : u < 1 := by
    have : (1 : F) ≤ ((K + 2 : Nat) : F) := by exact_mod_cast Nat.succ_pos _
    nlinarith
  have h1u : ((1 : Nat) : F) * u < 1 := by simpa using hu1
  have hK1 : ((K + 1 : Nat) : F) * u < 1 := mul_lt_one_of_le hu0 (by omega) hKu
  have hKu' : (K : F) * u < 1 := mul_lt_one_of_le hu0 (by omega) hKu
  have hcu : (c : F) * u < 1 := mul_lt_one_of_le hu0 (by omega) hKu
  have gK := gamma_nonneg hu0 hKu'
  have gc := gamma_nonneg hu0 hcu
  have g1 := gamma_nonneg hu0 h1u
  have hW0 : ∀ j < n, 0 ≤ W i j := by
    intro j hj
    have := (abs_nonneg _).trans (hA i hi j hj)
    exact nonneg_of_mul_nonneg_right this (by linarith)
  -- xe = z (1 + d): |z| ≤ (1+γ_1)|xe|, |xe - z| ≤ u |z|
  have hz : ∀ j < n, |z j| ≤ (1 + gamma u 1) * |xe j| ∧ |xe j - z j| ≤ u * |z j| := by
    intro j hj
    obtain ⟨d, hd, e⟩ := hx j hj
    have hpos := one_add_pos hu1 hd
    have hfac := (Fac.one_add hu1 hd).inv hu1
    have hb := hfac.abs_sub_one_le hu0 h1u
    have ez : z j = xe j * (1 + d)⁻¹ := by rw [e]; field_simp
    constructor
    · rw [ez, abs_mul, mul_comm]
      refine mul_le_mul_of_nonneg_right ?_ (abs_nonneg _)
      have := (abs_le.mp hb).2
      rw [abs_of_pos (inv_pos.mpr hpos)]; linarith
    · have : xe j - z j = z j * d := by rw [e]; ring
      rw [this, abs_mul, mul_comm]
      exact mul_le_mul_of_nonneg_right hd (abs_nonneg _)
  have split : b1 i - ∑ j ∈ range n, A1 i j * xe j =
      (b1 i - ∑ j ∈ range n, A1 i j * z j) - ∑ j ∈ range n, A1 i j * (xe j - z j) := by
    simp only [mul_sub, Finset.sum_sub_distrib]; ring
  have T2 : |∑ j ∈ range n, A1 i j * (xe j - z j)| ≤
      gamma u 1 * (1 + gamma u c) * ∑ j ∈ range n, W i j * |z j| := by
    refine (Finset.abs_sum_le_sum_abs _ _).trans ?_
    rw [Finset.mul_sum]
    refine Finset.sum_le_sum fun j hj => ?_
    have hj' := Finset.mem_range.mp hj
    rw [abs_mul]
    have hu_le : u ≤ gamma u 1 := by simpa using le_gamma hu0 h1u
    calc |A1 i j| * |xe j - z j| ≤ ((1 + gamma u c) * W i j) * (u * |z j|) :=
          mul_le_mul (hA i hi j hj') (hz j hj').2 (abs_nonneg _)
            (mul_nonneg (by linarith) (hW0 j hj'))
      _ = u * ((1 + gamma u c) * (W i j * |z j|)) := by ring
      _ ≤ gamma u 1 * ((1 + gamma u c) * (W i j * |z j|)) :=
          mul_le_mul_of_nonneg_right hu_le
            (mul_nonneg (by linarith) (mul_nonneg (hW0 j hj') (abs_nonneg _)))
      _ = gamma u 1 * (1 + gamma u c) * (W i j * |z j|) := by ring
  have S0 : 0 ≤ ∑ j ∈ range n, W i j * |xe j| :=
    Finset.sum_nonneg fun j hj => mul_nonneg (hW0 j (Finset.mem_range.mp hj)) (abs_nonneg _)
  have Sz : ∑ j ∈ range n, W i j * |z j| ≤ (1 + gamma u 1) * ∑ j ∈ range n, W i j * |xe j| := by
    rw [Finset.mul_sum]
    refine Finset.sum_le_sum fun j hj => ?_
    have hj' := Finset.mem_range.mp hj
    calc W i j * |z j| ≤ W i j * ((1 + gamma u 1) * |xe j|) :=
          mul_le_mul_of_nonneg_left (hz j hj').1 (hW0 j hj')
      _ = (1 + gamma u 1) * (W i j * |xe j|) := by ring
  have habs := gamma_absorb hu0 (j := 1) hc hK1
  have hadd := gamma_add hu0 (j := K + 1) (k := 1) hKu
  have gK1 := gamma_nonneg hu0 hK1
  rw [split]
  have tri := abs_sub (b1 i - ∑ j ∈ range n, A1 i j * z j) (∑ j ∈ range n, A1 i j * (xe j - z j))
  have hsum : |b1 i - ∑ j ∈ range n, A1 i j * z j| + |∑ j ∈ range n, A1 i j * (xe j - z j)| ≤
      gamma u (K + 1) * ∑ j ∈ range n, W i j * |z j| := by
    have Sz0 : 0 ≤ ∑ j ∈ range n, W i j * |z j| :=
      Finset.sum_nonneg fun j hj => mul_nonneg (hW0 j (Finset.mem_range.mp hj)) (abs_nonneg _)
    have := mul_le_mul_of_nonneg_right habs Sz0
    nlinarith [hsolve i hi, T2]
  calc _ ≤ gamma u (K + 1) * ∑ j ∈ range n, W i j * |z j| := tri.trans hsum
    _ ≤ gamma u (K + 1) * ((1 + gamma u 1) * ∑ j ∈ range n, W i j * |xe j|) :=
        mul_le_mul_of_nonneg_left Sz gK1
    _ = (gamma u (K + 1) * (1 + gamma u 1)) * ∑ j ∈ range n, W i j * |xe j| := by ring
    _ ≤ gamma u (K + 2) * ∑ j ∈ range n, W i j * |xe j| :=
        mul_le_mul_of_nonneg_right (by nlinarith) S0

/-- **the original (unscaled) system**: with `A1(i,j) = fl(a(i,j) * fl(t_j * s_i))`, `b1(i) = fl(s_i b(i))`
and `X(j) = t_j * x_eq(j)`, the residual of `a X = b` scaled by `s_i` is within
`γ_{K'+2} W|x_eq| + γ_1 |b1|` when the residual of the scaled system is within `γ_{K'} W|x_eq|`. -/
theorem residual_original_system (hu0 : 0 ≤ u) {n K c : Nat} {a A1 W : Nat → Nat → F}
    {b b1 xe X s t : Nat → F}
    (hres : ∀ i < n, |b1 i - ∑ j ∈ range n, A1 i j * xe j| ≤ gamma u K * ∑ j ∈ range n, W i j * |xe j|)
    (hA : ∀ i < n, ∀ j < n, |A1 i j| ≤ (1 + gamma u c) * W i j)
    (hA1 : ∀ i < n, ∀ j < n, ∃ sc, Rnd u (t j * s i) sc ∧ Rnd u (a i j * sc) (A1 i j))
    (hb1 : ∀ i < n, Rnd u (s i * b i) (b1 i))
    (hX : ∀ j < n, X j = t j * xe j)
    (hc : c ≤ K) (hKu : ((K + 2 : Nat) : F) * u < 1) (i : Nat) (hi : i < n) :
    |s i| * |b i - ∑ j ∈ range n, a i j * X j| ≤
      gamma u (K + 2) * ∑ j ∈ range n, W i j * |xe j| + gamma u 1 * |b1 i| := by
  have hu1 : u < 1 := by
    have : (1 : F) ≤ ((K + 2 : Nat) : F) := by exact_mod_cast Nat.succ_pos _
    nlinarith
  have h1u : ((1 : Nat) : F) * u < 1 := by simpa using hu1
  have h2u : ((2 : Nat) : F) * u < 1 := mul_lt_one_of_le hu0 (by omega) hKu
  have hKu' : (K : F) * u < 1 := mul_lt_one_of_le hu0 (by omega) hKu
  have hcu : (c : F) * u < 1 := mul_lt_one_of_le hu0 (by omega) hKu
  have gc := gamma_nonneg hu0 hcu
  have g2 := gamma_nonneg hu0 h2u
  have hW0 : ∀ j < n, 0 ≤ W i j := by
    intro j hj
    have := (abs_nonneg _).trans (hA i hi j hj)
    exact nonneg_of_mul_nonneg_right this (by linarith)
  -- b1 = s b (1+δ):  s b = b1 ρb,  |ρb - 1| ≤ γ_1
  obtain ⟨δ, hδ, eb⟩ := hb1 i hi
  have hδpos := one_add_pos hu1 hδ
  have hρb := ((Fac.one_add hu1 hδ).inv hu1).abs_sub_one_le hu0 h1u
  have esb : s i * b i = b1 i * (1 + δ)⁻¹ := by rw [eb]; field_simp
  -- A1 = a t s ρ, ρ ∈ Fac 2:  s a t = A1 ρ⁻¹
  have hAij : ∀ j < n, ∃ r : F, |r - 1| ≤ gamma u 2 ∧ s i * a i j * t j = A1 i j * r := by
    intro j hj
    obtain ⟨sc, ⟨d1, hd1, e1⟩, ⟨d2, hd2, e2⟩⟩ := hA1 i hi j hj
    have p1 := one_add_pos hu1 hd1
    have p2 := one_add_pos hu1 hd2
    have hf : Fac u 2 ((1 + d1)⁻¹ * (1 + d2)⁻¹) :=
      ((Fac.one_add hu1 hd1).inv hu1).mul hu1 ((Fac.one_add hu1 hd2).inv hu1)
    refine ⟨(1 + d1)⁻¹ * (1 + d2)⁻¹, hf.abs_sub_one_le hu0 h2u, ?_⟩
    rw [e2, e1]; field_simp
  choose! r hr1 hr2 using hAij
  -- s (b - a X) = (b1 - A1 xe) + b1 (ρb - 1) - Σ A1 (r - 1) xe
  have split : s i * (b i - ∑ j ∈ range n, a i j * X j) =
      (b1 i - ∑ j ∈ range n, A1 i j * xe j) + b1 i * ((1 + δ)⁻¹ - 1) -
        ∑ j ∈ range n, A1 i j * (r j - 1) * xe j := by
    have e1 : s i * ∑ j ∈ range n, a i j * X j = ∑ j ∈ range n, A1 i j * r j * xe j := by
      rw [Finset.mul_sum]
      refine Finset.sum_congr rfl fun j hj => ?_
      have hj' := Finset.mem_range.mp hj
      rw [hX j hj', ← hr2 j hj']; ring
    have e2 : ∑ j ∈ range n, A1 i j * (r j - 1) * xe j =
        ∑ j ∈ range n, A1 i j * r j * xe j - ∑ j ∈ range n, A1 i j * xe j := by
      rw [← Finset.sum_sub_distrib]; exact Finset.sum_congr rfl fun j _ => by ring
    rw [mul_sub, esb, e1, e2]; ring
  have T3 : |∑ j ∈ range n, A1 i j * (r j - 1) * xe j| ≤
      gamma u 2 * (1 + gamma u c) * ∑ j ∈ range n, W i j * |xe j| := by
    refine (Finset.abs_sum_le_sum_abs _ _).trans ?_
    rw [Finset.mul_sum]
    refine Finset.sum_le_sum fun j hj => ?_
    have hj' := Finset.mem_range.mp hj
    rw [abs_mul, abs_mul]
    calc |A1 i j| * |r j - 1| * |xe j| ≤ ((1 + gamma u c) * W i j) * gamma u 2 * |xe j| :=
          mul_le_mul_of_nonneg_right
            (mul_le_mul (hA i hi j hj') (hr1 j hj') (abs_nonneg _) (mul_nonneg (by linarith) (hW0 j hj')))
            (abs_nonneg _)
      _ = gamma u 2 * (1 + gamma u c) * (W i j * |xe j|) := by ring
  have T2 : |b1 i * ((1 + δ)⁻¹ - 1)| ≤ gamma u 1 * |b1 i| := by
    rw [abs_mul, mul_comm]; exact mul_le_mul_of_nonneg_right hρb (abs_nonneg _)
  have S0 : 0 ≤ ∑ j ∈ range n, W i j * |xe j| :=
    Finset.sum_nonneg fun j hj => mul_nonneg (hW0 j (Finset.mem_range.mp hj)) (abs_nonneg _)
  have habs := mul_le_mul_of_nonneg_right (gamma_absorb hu0 (j := 2) hc hKu) S0
  rw [← abs_mul, split]
  have tri1 := abs_sub ((b1 i - ∑ j ∈ range n, A1 i j * xe j) + b1 i * ((1 + δ)⁻¹ - 1))
    (∑ j ∈ range n, A1 i j * (r j - 1) * xe j)
  have tri2 := abs_add_le (b1 i - ∑ j ∈ range n, A1 i j * xe j) (b1 i * ((1 + δ)⁻¹ - 1))
  nlinarith [hres i hi]

/-- the factored matrix is entrywise dominated by `(1+γ)|L̂||Û|` -/
theorem LUComputed.abs_le (hu0 : 0 ≤ u) {m n q K : Nat} {A L U : Nat → Nat → F}
    (h : LUComputed u m n q A L U) (hK : n + q ≤ K + 1) (hKu : (K : F) * u < 1)
    (i : Nat) (hi : i < m) (j : Nat) (hj : j < n) :
    |A i j| ≤ (1 + gamma u K) * ∑ t ∈ range n, |L i t| * |U t j| := by
  have h1 := lu_backward_error hu0 h hK hKu i hi j hj
  have h2 : |∑ t ∈ range n, L i t * U t j| ≤ ∑ t ∈ range n, |L i t| * |U t j| :=
    (Finset.abs_sum_le_sum_abs _ _).trans (le_of_eq (Finset.sum_congr rfl fun t _ => abs_mul _ _))
  have h3 : |A i j| ≤ |A i j - ∑ t ∈ range n, L i t * U t j| + |∑ t ∈ range n, L i t * U t j| := by
    have := abs_add_le (A i j - ∑ t ∈ range n, L i t * U t j) (∑ t ∈ range n, L i t * U t j)
    simpa using this
  have : (1 + gamma u K) * ∑ t ∈ range n, |L i t| * |U t j| =
      gamma u K * ∑ t ∈ range n, |L i t| * |U t j| + ∑ t ∈ range n, |L i t| * |U t j| := by ring
  rw [this]; linarith

/-- **expert driver, equilibrated system**: factor `A1`, solve, unscale with one rounding:
`|b1 - A1 x_eq| ≤ γ_{3n+3} |L̂||Û||x_eq|`. -/
theorem expert_equilibrated (hu0 : 0 ≤ u) {n : Nat} {A1 L U : Nat → Nat → F} {b1 y z xe : Nat → F}
    (hLU : LUComputed u n n 2 A1 L U) (hy : LowerSolved u n 0 L b1 y) (hz : UpperSolved u n 2 U y z)
    (hx : ∀ j < n, Rnd u (z j) (xe j)) (hu : ((3 * n + 3 : Nat) : F) * u < 1) (i : Nat) (hi : i < n) :
    |b1 i - ∑ j ∈ range n, A1 i j * xe j| ≤
      gamma u (3 * n + 3) * ∑ j ∈ range n, (∑ t ∈ range n, |L i t| * |U t j|) * |xe j| := by
  have hK : ((3 * n + 1 : Nat) : F) * u < 1 := mul_lt_one_of_le hu0 (by omega) hu
  have hc : ((n + 1 : Nat) : F) * u < 1 := mul_lt_one_of_le hu0 (by omega) hu
  exact residual_after_unscaling hu0 (K := 3 * n + 1) (c := n + 1)
    (fun i hi => lu_solve_backward_error hu0 hLU hy hz (by omega) hK i hi)
    (fun i hi j hj => hLU.abs_le hu0 (by omega) hc i hi j hj) hx (by omega) hu i hi

/-- **expert driver, original system** (`A1 = fl(a * fl(t s))`, `b1 = fl(s b)`, `X = t x_eq`):
`s_i |b - a X|_i ≤ γ_{3n+5} |L̂||Û||x_eq| + γ_1 |b1|_i`. -/
theorem expert_original (hu0 : 0 ≤ u) {n : Nat} {a A1 L U : Nat → Nat → F}
    {b b1 y z xe X s t : Nat → F}
    (hLU : LUComputed u n n 2 A1 L U) (hy : LowerSolved u n 0 L b1 y) (hz : UpperSolved u n 2 U y z)
    (hx : ∀ j < n, Rnd u (z j) (xe j))
    (hA1 : ∀ i < n, ∀ j < n, ∃ sc, Rnd u (t j * s i) sc ∧ Rnd u (a i j * sc) (A1 i j))
    (hb1 : ∀ i < n, Rnd u (s i * b i) (b1 i)) (hX : ∀ j < n, X j = t j * xe j)
    (hu : ((3 * n + 5 : Nat) : F) * u < 1) (i : Nat) (hi : i < n) :
    |s i| * |b i - ∑ j ∈ range n, a i j * X j| ≤
      gamma u (3 * n + 5) * ∑ j ∈ range n, (∑ t ∈ range n, |L i t| * |U t j|) * |xe j| +
        gamma u 1 * |b1 i| := by
  have hK : ((3 * n + 3 : Nat) : F) * u < 1 := mul_lt_one_of_le hu0 (by omega) hu
  have hc : ((n + 1 : Nat) : F) * u < 1 := mul_lt_one_of_le hu0 (by omega) hu
  exact residual_original_system hu0 (K := 3 * n + 3) (c := n + 1)
    (fun i hi => expert_equilibrated hu0 hLU hy hz hx hK i hi)
    (fun i hi j hj => hLU.abs_le hu0 (by omega) hc i hi j hj) hA1 hb1 hX (by omega) hu i hi

end Slu.Rounding
