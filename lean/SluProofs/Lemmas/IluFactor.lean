import Slu.Model.IluFactor
import SluProofs.Lemmas.LUInv
import SluProofs.Lemmas.Ilu
/-
Lemmas for C15: the incomplete LU column loop `Slu.Ilu.iluFactor` (Slu/Model/IluFactor.lean) —
invariant `L̃Ũ = Pr A Pc + E`, the no-drop case, the nonzero diagonal.
-/

set_option linter.unusedSectionVars false

namespace Slu.Ilu
open Slu Slu.LU

section lists
variable {K : Type} [Field K]

theorem edot_eq_dotL (us : List K) (Ls : List (Nat × Vec K)) (i : Nat) : edot us Ls i = dotL us Ls i := rfl

theorem keepU_length (us : List K) (d : Nat → Bool) : (keepU us d).length = us.length := by simp [keepU]
theorem dropdU_length (us : List K) (d : Nat → Bool) : (dropdU us d).length = us.length := by simp [dropdU]

theorem dotL_split_aux (us : List K) (d : Nat → Bool) (Ls : List (Nat × Vec K)) (i s : Nat) :
    dotL us Ls i =
      dotL ((us.zipIdx s).map fun x => if d x.2 then 0 else x.1) Ls i +
      dotL ((us.zipIdx s).map fun x => if d x.2 then x.1 else 0) Ls i := by
  induction us generalizing Ls s with
  | nil => simp [dotL]
  | cons u us ih =>
    cases Ls with
    | nil => simp [dotL]
    | cons pl Ls =>
      simp only [List.zipIdx_cons, List.map_cons, dotL_cons]
      rw [ih Ls (s + 1)]
      by_cases h : d s = true <;> simp [h] <;> ring

/-- stored + dropped = computed -/
theorem dotL_keep_drop (us : List K) (d : Nat → Bool) (Ls : List (Nat × Vec K)) (i : Nat) :
    dotL us Ls i = dotL (keepU us d) Ls i + dotL (dropdU us d) Ls i := dotL_split_aux us d Ls i 0

theorem keepU_none_aux (us : List K) (s : Nat) : ((us.zipIdx s).map fun x => if (fun _ => false) x.2 then (0:K) else x.1) = us := by
  induction us generalizing s with
  | nil => rfl
  | cons u us ih => simp only [List.zipIdx_cons, List.map_cons]; rw [ih]; simp

theorem keepU_none (us : List K) (d : Nat → Bool) (h : ∀ t, d t = false) : keepU us d = us := by
  have : d = fun _ => false := funext h
  subst this
  exact keepU_none_aux us 0

omit [Field K] in
theorem droppedVals_none (us : List K) (d : Nat → Bool) (h : ∀ t, d t = false) : droppedVals us d = [] := by
  simp [droppedVals, h]

theorem dotL_dropd_none_aux (us : List K) (Ls : List (Nat × Vec K)) (i s : Nat) :
    dotL ((us.zipIdx s).map fun x => if (fun _ => false) x.2 then x.1 else (0:K)) Ls i = 0 := by
  induction us generalizing Ls s with
  | nil => simp [dotL]
  | cons u us ih =>
    cases Ls with
    | nil => simp [dotL]
    | cons pl Ls => simp only [List.zipIdx_cons, List.map_cons, dotL_cons]; rw [ih]; simp

theorem dotL_dropd_none (us : List K) (d : Nat → Bool) (h : ∀ t, d t = false) (Ls : List (Nat × Vec K)) (i : Nat) :
    dotL (dropdU us d) Ls i = 0 := by
  have : d = fun _ => false := funext h
  subst this
  exact dotL_dropd_none_aux us Ls i 0

theorem sum_map_sub {ι : Type} (l : List ι) (f g : ι → K) :
    (l.map fun t => f t - g t).sum = (l.map f).sum - (l.map g).sum := by
  induction l with
  | nil => simp
  | cons a l ih => simp only [List.map_cons, List.sum_cons, ih]; ring

theorem sum_map_add {ι : Type} (l : List ι) (f g : ι → K) :
    (l.map fun t => f t + g t).sum = (l.map f).sum + (l.map g).sum := by
  induction l with
  | nil => simp
  | cons a l ih => simp only [List.map_cons, List.sum_cons, ih]; ring

theorem setmap_get (w : Vec K) (p : Nat) (pv : K) (f : K → K) (i : Nat) (hi : i < w.size) :
    Vec.get ((w.setIfInBounds p pv).map f) i = f (if i = p then pv else w.get i) := by
  by_cases h : i = p
  · subst h; simp [Vec.get, Array.getD, hi]
  · have h' : ¬ p = i := fun e => h e.symm
    simp [Vec.get, Array.getD, hi, h, h']

end lists
end Slu.Ilu

/-! ### the invariant of the column loop -/
namespace Slu.Ilu
open Slu Slu.LU

section inv
variable {K : Type} [Field K] [Inhabited K] [Mag K Rat]

/-- what holds after `j` columns of the incomplete factorization (model not stopped) -/
structure IInv (P : IluParams K Rat) (st : IluSt K) (j : Nat) : Prop where
  sizes : st.piv.size = j ∧ st.L.size = j ∧ st.U.size = j ∧ st.E.size = j
  lsize : ∀ k < j, (st.L.getD k #[]).size = P.m
  esize : ∀ k < j, (st.E.getD k #[]).size = P.m
  prange : ∀ k < j, st.piv.getD k 0 < P.m
  usize : ∀ k < j, (st.U.getD k #[]).size = k + 1
  /-- `(Pr A Pc)(i,k) + E(i,k) = Σ_{t ≤ k} Ũ(t,k) L̃(i,t)` -/
  ident : ∀ k < j, ∀ i < P.m,
    (P.col k).get i + (st.E.getD k #[]).get i = dotL (st.U.getD k #[]).toList (prev st.toLU (k + 1)) i
  unit : UnitLower (prev st.toLU j)
  nodup : st.piv.toList.Nodup

/-- eliminated column, multipliers, drop decision, drop_sum and pivot decision of column `j` -/
def cW (P : IluParams K Rat) (st : IluSt K) (j : Nat) : Vec K := (elim (prev st.toLU j) (P.col j)).1
def cUs (P : IluParams K Rat) (st : IluSt K) (j : Nat) : List K := (elim (prev st.toLU j) (P.col j)).2
def cD (P : IluParams K Rat) (drop : DropOracle K) (st : IluSt K) (j : Nat) : Nat → Bool :=
  drop.dropU st j (cW P st j) (cUs P st j)
def cDsum (F : Flavour K Rat) (P : IluParams K Rat) (drop : DropOracle K) (st : IluSt K) (j : Nat) : K :=
  dropSumOf F P j (droppedVals (cUs P st j) (cD P drop st j))
def cOut (F : Flavour K Rat) (P : IluParams K Rat) (drop : DropOracle K) (st : IluSt K) (j : Nat) : PivOut K :=
  iluPivOut F P st.piv st.usepr j (cW P st j) (cDsum F P drop st j)
/-- the stop condition of `colStep` -/
def cBad (F : Flavour K Rat) (P : IluParams K Rat) (drop : DropOracle K) (st : IluSt K) (j : Nat) : Bool :=
  (cOut F P drop st j).pos.isNone || st.piv.contains (cOut F P drop st j).pivrow ||
    decide (P.m ≤ (cOut F P drop st j).pivrow) || (Mag.abs1 (cOut F P drop st j).pivVal : Rat) == 0
/-- the error column written by `colStep` -/
def cE (F : Flavour K Rat) (P : IluParams K Rat) (drop : DropOracle K) (st : IluSt K) (j : Nat) : Vec K :=
  (Array.range P.m).map fun i =>
    (if i = (cOut F P drop st j).pivrow then (cOut F P drop st j).pivVal - (cW P st j).get (cOut F P drop st j).pivrow else 0)
      - edot (dropdU (cUs P st j) (cD P drop st j)) (prev st.toLU j) i

theorem colStep_unfold (F : Flavour K Rat) (P : IluParams K Rat) (drop : DropOracle K) (st : IluSt K) (j : Nat)
    (h0 : st.fail = 0) :
    colStep F P drop st j =
      if cBad F P drop st j = true then
        { st with fail := j + 1, usepr := false, rets := st.rets.push (cOut F P drop st j).ret }
      else
        { piv := st.piv.push (cOut F P drop st j).pivrow,
          L := st.L.push (((cW P st j).setIfInBounds (cOut F P drop st j).pivrow (cOut F P drop st j).pivVal).map
                (· * (1 / (cOut F P drop st j).pivVal))),
          U := st.U.push ((keepU (cUs P st j) (cD P drop st j) ++ [(cOut F P drop st j).pivVal]).toArray),
          E := st.E.push (cE F P drop st j),
          usepr := (cOut F P drop st j).usepr, rets := st.rets.push (cOut F P drop st j).ret, fail := 0 } := by
  unfold colStep cBad cE cOut cDsum cD cW cUs
  simp only [h0, ne_eq, not_true_eq_false, if_false, prev]
  rfl

omit [Inhabited K] in
theorem toLU_prev_push (st : IluSt K) (p : Nat) (l : Vec K) (uc : Array K) (e : Vec K) (b : Bool) (r : Array Nat) (k : Nat)
    (hk : k ≤ st.piv.size) (hL : st.L.size = st.piv.size) :
    prev ({ piv := st.piv.push p, L := st.L.push l, U := st.U.push uc, E := st.E.push e, usepr := b, rets := r,
            fail := 0 } : IluSt K).toLU k = prev st.toLU k :=
  prev_push st.toLU p l uc b k hk hL

/-- **Preservation (column step).** For EVERY drop oracle: one column step that does not stop the model
re-establishes the invariant, with the error column written from the oracle's choices. -/
theorem colStep_inv (laws : MagLaws K) (F : Flavour K Rat) (P : IluParams K Rat) (drop : DropOracle K)
    (hcol : ∀ j, (P.col j).size = P.m) (st : IluSt K) (j : Nat) (h : IInv P st j) (h0 : st.fail = 0)
    (h1 : (colStep F P drop st j).fail = 0) : IInv P (colStep F P drop st j) (j + 1) := by
  have hstep := colStep_unfold F P drop st j h0
  set w := cW P st j with hw
  set us := cUs P st j with hus
  set d := cD P drop st j with hd
  set o := cOut F P drop st j with ho
  have hgood : cBad F P drop st j = false := by
    cases hb : cBad F P drop st j
    · rfl
    · rw [hstep, if_pos hb] at h1; simp at h1
  rw [hstep, hgood]
  simp only [Bool.false_eq_true, if_false]
  unfold cBad at hgood
  simp only [Bool.or_eq_false_iff, decide_eq_false_iff_not, not_le] at hgood
  obtain ⟨⟨⟨_hpos, hnotc⟩, hplt⟩, hmag⟩ := hgood
  rw [← ho] at hnotc hplt hmag
  set p := o.pivrow with hp
  set pv := o.pivVal with hpv
  have hpvne : pv ≠ 0 := by
    intro hz
    rw [hz, laws.zero] at hmag
    simp at hmag
  have hnotmem : p ∉ st.piv.toList := by
    simpa using hnotc
  have hwsize : w.size = P.m := by rw [hw, cW, elim_size, hcol]
  obtain ⟨hs1, hs2, hs3, hs4⟩ := h.sizes
  have huslen : us.length = j := by rw [hus, cUs, elim_length, prev_length]
  have hklen : (keepU us d).length = j := by rw [keepU_length, huslen]
  set l : Vec K := (w.setIfInBounds p pv).map (· * (1 / pv)) with hl
  have hlget : ∀ i < P.m, l.get i = (if i = p then pv else w.get i) * (1 / pv) :=
    fun i hi => setmap_get w p pv _ i (by omega)
  have hzero : ∀ pl ∈ prev st.toLU j, w.get pl.1 = 0 := by
    have := (elim_zero_at_pivots (prev st.toLU j) (P.col j) h.unit
      (by
        intro pl hpl
        obtain ⟨t, ht, rfl⟩ := mem_prev st.toLU j pl hpl
        rw [hcol]; exact h.prange t ht)
      [] (by simp) (by simp)).1
    exact this
  set e := cE F P drop st j with he
  set st' : IluSt K := { piv := st.piv.push p, L := st.L.push l, U := st.U.push ((keepU us d ++ [pv]).toArray), E := st.E.push e, usepr := o.usepr, rets := st.rets.push o.ret, fail := 0 } with hst'
  have hprev : ∀ k ≤ j, prev st'.toLU k = prev st.toLU k :=
    fun k hk => toLU_prev_push st p l _ _ _ _ k (by omega) (by omega)
  have hpivj : st'.piv.getD j 0 = p := by simp [hst', Array.getD, hs1, Array.getElem_push]
  have hLj : st'.L.getD j #[] = l := by simp [hst', Array.getD, hs2, Array.getElem_push]
  have hUj : st'.U.getD j #[] = (keepU us d ++ [pv]).toArray := by simp [hst', Array.getD, hs3, Array.getElem_push]
  have hEj : st'.E.getD j #[] = e := by simp [hst', Array.getD, hs4, Array.getElem_push]
  have hpivk : ∀ k < j, st'.piv.getD k 0 = st.piv.getD k 0 := by
    intro k hk; simp [hst', Array.getD, Array.getElem_push, hs1, hk, Nat.lt_succ_of_lt hk]
  have hLk : ∀ k < j, st'.L.getD k #[] = st.L.getD k #[] := by
    intro k hk; simp [hst', Array.getD, Array.getElem_push, hs2, hk, Nat.lt_succ_of_lt hk]
  have hUk : ∀ k < j, st'.U.getD k #[] = st.U.getD k #[] := by
    intro k hk; simp [hst', Array.getD, Array.getElem_push, hs3, hk, Nat.lt_succ_of_lt hk]
  have hEk : ∀ k < j, st'.E.getD k #[] = st.E.getD k #[] := by
    intro k hk; simp [hst', Array.getD, Array.getElem_push, hs4, hk, Nat.lt_succ_of_lt hk]
  have hprevsucc : prev st'.toLU (j + 1) = prev st.toLU j ++ [(p, l)] := by
    rw [prev_succ, hprev j (le_refl _)]
    show prev st.toLU j ++ [(st'.piv.getD j 0, st'.L.getD j #[])] = _
    rw [hpivj, hLj]
  refine ⟨?_, ?_, ?_, ?_, ?_, ?_, ?_, ?_⟩
  · simp [hst', hs1, hs2, hs3, hs4]
  · intro k hk
    rcases Nat.lt_succ_iff_lt_or_eq.mp hk with hk | rfl
    · rw [hLk k hk]; exact h.lsize k hk
    · rw [hLj, hl]; simp [hwsize]
  · intro k hk
    rcases Nat.lt_succ_iff_lt_or_eq.mp hk with hk | rfl
    · rw [hEk k hk]; exact h.esize k hk
    · rw [hEj, he, cE]; simp
  · intro k hk
    rcases Nat.lt_succ_iff_lt_or_eq.mp hk with hk | rfl
    · rw [hpivk k hk]; exact h.prange k hk
    · rw [hpivj]; exact hplt
  · intro k hk
    rcases Nat.lt_succ_iff_lt_or_eq.mp hk with hk | rfl
    · rw [hUk k hk]; exact h.usize k hk
    · rw [hUj]; simp [hklen]
  · intro k hk i hi
    rcases Nat.lt_succ_iff_lt_or_eq.mp hk with hk | rfl
    · rw [hUk k hk, hEk k hk, hprev (k + 1) (by omega)]; exact h.ident k hk i hi
    · rw [hUj, hEj, hprevsucc]
      rw [dotL_append _ _ _ _ _ (by rw [hklen, prev_length])]
      have hspec := elim_spec (prev st.toLU k) (P.col k) i (by rw [hcol]; exact hi)
      have hsplit := dotL_keep_drop us d (prev st.toLU k) i
      have heget : e.get i = (if i = p then pv - w.get p else 0) - dotL (dropdU us d) (prev st.toLU k) i := by
        rw [he, cE]
        simp [Vec.get, Array.getD, hi, edot_eq_dotL]
        rfl
      rw [heget, hspec]
      simp only [dotL_cons, dotL_nil, add_zero]
      rw [hlget i hi]
      change dotL us (prev st.toLU k) i + w.get i + _ = _
      rw [hsplit]
      by_cases hip : i = p
      · subst hip
        simp only [if_true]
        field_simp
        ring
      · simp only [hip, if_false]
        field_simp
        ring
  · rw [hprevsucc]
    apply unitLower_append _ _ _ h.unit
    · rw [hlget p hplt]; simp only [if_true]; field_simp
    · intro pl hpl
      obtain ⟨t, ht, rfl⟩ := mem_prev st.toLU j pl hpl
      have hlt : st.piv.getD t 0 < P.m := h.prange t ht
      have hne : st.piv.getD t 0 ≠ p := by
        intro heq
        apply hnotmem
        rw [← heq]
        have : t < st.piv.size := by omega
        simp [Array.getD, this]
      show l.get (st.piv.getD t 0) = 0
      rw [hlget _ hlt, if_neg hne]
      have := hzero _ hpl
      change w.get (st.piv.getD t 0) = 0 at this
      rw [this]; ring
  · simp only [hst', Array.toList_push]
    exact List.nodup_append.mpr ⟨h.nodup, by simp, by
      intro a ha b hb
      simp at hb; subst hb
      intro hab; subst hab; exact hnotmem ha⟩

/-! #### the row-dropping step -/

omit [Inhabited K] [Mag K Rat] in
theorem mapIdx_getD0 (a : Array K) (g : Nat → K → K) (t : Nat) (hg : g t 0 = 0) :
    (a.mapIdx g).getD t 0 = g t (a.getD t 0) := by
  by_cases h : t < a.size
  · simp [Array.getD, h]
  · simp [Array.getD, h, hg]

omit [Inhabited K] [Mag K Rat] in
theorem mapIdx_getD_nil {α : Type} (A : Array (Array α)) (G : Nat → Array α → Array α) (t : Nat) (hG : G t #[] = #[]) :
    (A.mapIdx G).getD t #[] = G t (A.getD t #[]) := by
  by_cases h : t < A.size
  · simp [Array.getD, h]
  · simp [Array.getD, h, hG]

/-- the effective L-drop decision of `lStep`: the oracle's choice, except on the unit diagonal -/
def dlOf (drop : DropOracle K) (st : IluSt K) (j t i : Nat) : Bool :=
  drop.dropL st j t i && !(i == st.piv.getD t 0)

theorem lStep_piv (drop : DropOracle K) (st : IluSt K) (j : Nat) : (lStep drop st j).piv = st.piv := by
  unfold lStep; split <;> rfl
theorem lStep_fail (drop : DropOracle K) (st : IluSt K) (j : Nat) : (lStep drop st j).fail = st.fail := by
  unfold lStep; split <;> rfl
theorem lStep_usepr (drop : DropOracle K) (st : IluSt K) (j : Nat) : (lStep drop st j).usepr = st.usepr := by
  unfold lStep; split <;> rfl
theorem lStep_rets (drop : DropOracle K) (st : IluSt K) (j : Nat) : (lStep drop st j).rets = st.rets := by
  unfold lStep; split <;> rfl
theorem lStep_stuck (drop : DropOracle K) (st : IluSt K) (j : Nat) (h : st.fail ≠ 0) : lStep drop st j = st := by
  simp [lStep, h]

theorem lStep_L (drop : DropOracle K) (st : IluSt K) (j : Nat) (h0 : st.fail = 0) (t : Nat) :
    (lStep drop st j).L.getD t #[] = (st.L.getD t #[]).mapIdx fun i x => if dlOf drop st j t i then 0 else x := by
  unfold lStep
  simp only [h0, ne_eq, not_true_eq_false, if_false]
  rw [mapIdx_getD_nil _ _ _ (by simp)]
  rfl

theorem lStep_L_get (drop : DropOracle K) (st : IluSt K) (j : Nat) (h0 : st.fail = 0) (t i : Nat) :
    ((lStep drop st j).L.getD t #[]).get i = if dlOf drop st j t i then 0 else (st.L.getD t #[]).get i := by
  rw [lStep_L drop st j h0 t]
  unfold Vec.get
  rw [mapIdx_getD0 _ _ _ (by simp)]

theorem lStep_U (drop : DropOracle K) (st : IluSt K) (j : Nat) (h0 : st.fail = 0) (k : Nat) :
    (lStep drop st j).U.getD k #[] =
      (st.U.getD k #[]).mapIdx fun t x => if t = k then x * drop.diagMul st j k else x := by
  unfold lStep
  simp only [h0, ne_eq, not_true_eq_false, if_false]
  rw [mapIdx_getD_nil _ _ _ (by simp)]

theorem lStep_U_get (drop : DropOracle K) (st : IluSt K) (j : Nat) (h0 : st.fail = 0) (k t : Nat) :
    ((lStep drop st j).U.getD k #[]).getD t 0 =
      if t = k then (st.U.getD k #[]).getD t 0 * drop.diagMul st j k else (st.U.getD k #[]).getD t 0 := by
  rw [lStep_U drop st j h0 k, mapIdx_getD0 _ _ _ (by simp)]

theorem lStep_E_get (drop : DropOracle K) (st : IluSt K) (j : Nat) (h0 : st.fail = 0) (k i : Nat)
    (hk : k < st.E.size) (hi : i < (st.E.getD k #[]).size) :
    ((lStep drop st j).E.getD k #[]).get i =
      (st.E.getD k #[]).get i
        - ((List.range (k + 1)).map fun t =>
            if dlOf drop st j t i then (st.U.getD k #[]).getD t 0 * (st.L.getD t #[]).get i else 0).sum
        + (drop.diagMul st j k - 1) * (st.U.getD k #[]).getD k 0 * ((lStep drop st j).L.getD k #[]).get i := by
  have hi' : i < st.E[k].size := by simpa [Array.getD, hk] using hi
  unfold lStep
  simp only [h0, ne_eq, not_true_eq_false, if_false]
  simp [Array.getD, hk, Vec.get, hi', dlOf]

omit [Inhabited K] [Mag K Rat] in
theorem forall2_zero_at (R : Nat × Vec K → Nat × Vec K → Prop) (Ls Ls' : List (Nat × Vec K)) (p : Nat)
    (hR : ∀ a b, R a b → b.2.get p = a.2.get p ∨ b.2.get p = 0)
    (h : List.Forall₂ R Ls Ls') (hz : ∀ pl ∈ Ls, pl.2.get p = 0) : ∀ pl ∈ Ls', pl.2.get p = 0 := by
  induction h with
  | nil => intro pl hpl; simp at hpl
  | @cons a b l1 l2 hab _ ih =>
    intro pl hpl
    rcases List.mem_cons.mp hpl with rfl | hpl
    · rcases hR a pl hab with h1 | h1
      · rw [h1]; exact hz a List.mem_cons_self
      · exact h1
    · exact ih (fun x hx => hz x (List.mem_cons_of_mem _ hx)) pl hpl

omit [Inhabited K] [Mag K Rat] in
/-- zeroing entries of L columns away from their own pivot rows keeps the unit-lower structure -/
theorem unitLower_forall2 (Ls Ls' : List (Nat × Vec K))
    (h : List.Forall₂ (fun a b => a.1 = b.1 ∧ b.2.get a.1 = a.2.get a.1 ∧ ∀ q, b.2.get q = a.2.get q ∨ b.2.get q = 0) Ls Ls')
    (hU : UnitLower Ls) : UnitLower Ls' := by
  induction h with
  | nil => exact hU
  | @cons a b l1 l2 hab hrest ih =>
    obtain ⟨p, l⟩ := a
    obtain ⟨p', l'⟩ := b
    obtain ⟨h1, h2, h3⟩ := hU
    obtain ⟨e1, e2, _⟩ := hab
    simp only at e1 e2
    subst e1
    refine ⟨by rw [e2]; exact h1, ?_, ih h3⟩
    exact forall2_zero_at _ l1 l2 p (fun a b hab => hab.2.2 p) hrest h2

/-- **Preservation (row-dropping step).** For EVERY oracle: zeroing entries of the finished L columns
(below the unit diagonal) and scaling diagonal entries of U re-establishes the invariant, with the error
columns updated by exactly the products that disappeared / changed. -/
theorem lStep_inv (P : IluParams K Rat) (drop : DropOracle K) (st : IluSt K) (j n : Nat) (h : IInv P st n) :
    IInv P (lStep drop st j) n := by
  by_cases h0 : st.fail = 0
  swap
  · rw [lStep_stuck drop st j h0]; exact h
  obtain ⟨hs1, hs2, hs3, hs4⟩ := h.sizes
  have hpiv := lStep_piv drop st j
  have hprev' : ∀ k, prev (lStep drop st j).toLU k =
      (List.range k).map fun t => (st.piv.getD t 0, (lStep drop st j).L.getD t #[]) := by
    intro k; unfold prev; simp only [IluSt.toLU, hpiv]
  have hLsize : ∀ t, ((lStep drop st j).L.getD t #[]).size = (st.L.getD t #[]).size := by
    intro t; rw [lStep_L drop st j h0 t]; simp
  have hUsize : ∀ t, ((lStep drop st j).U.getD t #[]).size = (st.U.getD t #[]).size := by
    intro t; rw [lStep_U drop st j h0 t]; simp
  refine ⟨?_, ?_, ?_, ?_, ?_, ?_, ?_, ?_⟩
  · unfold lStep
    simp only [h0, ne_eq, not_true_eq_false, if_false, Array.size_mapIdx]
    exact ⟨hs1, hs2, hs3, hs4⟩
  · intro k hk; rw [hLsize]; exact h.lsize k hk
  · intro k hk
    unfold lStep
    simp only [h0, ne_eq, not_true_eq_false, if_false]
    rw [mapIdx_getD_nil _ _ _ (by simp)]
    simp only [Array.size_mapIdx]
    exact h.esize k hk
  · intro k hk; rw [hpiv]; exact h.prange k hk
  · intro k hk; rw [hUsize]; exact h.usize k hk
  · intro k hk i hi
    have hold := h.ident k hk i hi
    rw [dotL_prev _ _ (k + 1) i (by rw [Array.length_toList]; exact h.usize k hk)] at hold
    rw [dotL_prev _ _ (k + 1) i (by rw [Array.length_toList, hUsize]; exact h.usize k hk)]
    rw [lStep_E_get drop st j h0 k i (by omega) (by rw [h.esize k hk]; exact hi)]
    have hgetD : ∀ (a : Array K) (t : Nat), a.toList.getD t 0 = a.getD t 0 := by
      intro a t; by_cases ht : t < a.size <;> simp [Array.getD, List.getD, ht]
    simp only [hgetD] at hold ⊢
    have hLU : ∀ t, (lStep drop st j).toLU.L.getD t #[] = (lStep drop st j).L.getD t #[] := fun _ => rfl
    have hLU0 : ∀ t, st.toLU.L.getD t #[] = st.L.getD t #[] := fun _ => rfl
    simp only [hLU] at ⊢
    simp only [hLU0] at hold
    -- termwise
    have hterm : ∀ t, ((lStep drop st j).U.getD k #[]).getD t 0 * ((lStep drop st j).L.getD t #[]).get i =
        ((st.U.getD k #[]).getD t 0 * (st.L.getD t #[]).get i
          - (if dlOf drop st j t i then (st.U.getD k #[]).getD t 0 * (st.L.getD t #[]).get i else 0))
          + (if t = k then (drop.diagMul st j k - 1) * (st.U.getD k #[]).getD k 0 * ((lStep drop st j).L.getD k #[]).get i else 0) := by
      intro t
      rw [lStep_U_get drop st j h0 k t]
      by_cases htk : t = k
      · subst htk
        simp only [if_true]
        rw [lStep_L_get drop st j h0 t i]
        by_cases hd : dlOf drop st j t i = true <;> simp [hd]; ring
      · simp only [htk, if_false, add_zero]
        rw [lStep_L_get drop st j h0 t i]
        by_cases hd : dlOf drop st j t i = true <;> simp [hd]
    have hsum : ((List.range (k + 1)).map fun t =>
        ((lStep drop st j).U.getD k #[]).getD t 0 * ((lStep drop st j).L.getD t #[]).get i).sum =
        (((List.range (k + 1)).map fun t => (st.U.getD k #[]).getD t 0 * (st.L.getD t #[]).get i).sum
          - ((List.range (k + 1)).map fun t =>
              if dlOf drop st j t i then (st.U.getD k #[]).getD t 0 * (st.L.getD t #[]).get i else 0).sum)
          + (drop.diagMul st j k - 1) * (st.U.getD k #[]).getD k 0 * ((lStep drop st j).L.getD k #[]).get i := by
      rw [List.map_congr_left (fun t _ => hterm t), sum_map_add, sum_map_sub]
      congr 1
      rw [List.range_succ, List.map_append, List.sum_append]
      have : ((List.range k).map fun t => if t = k then
          (drop.diagMul st j k - 1) * (st.U.getD k #[]).getD k 0 * ((lStep drop st j).L.getD k #[]).get i else 0).sum = 0 := by
        apply List.sum_eq_zero
        intro x hx
        simp only [List.mem_map, List.mem_range] at hx
        obtain ⟨t, ht, rfl⟩ := hx
        rw [if_neg (by omega)]
      rw [this]; simp
    rw [hsum, ← hold]
    ring
  · rw [hprev']
    apply unitLower_forall2 (prev st.toLU n) _ _ h.unit
    unfold prev
    rw [List.forall₂_map_left_iff, List.forall₂_map_right_iff]
    apply List.forall₂_same.mpr
    intro t _
    refine ⟨rfl, ?_, ?_⟩
    · show ((lStep drop st j).L.getD t #[]).get (st.piv.getD t 0) = (st.L.getD t #[]).get (st.piv.getD t 0)
      rw [lStep_L_get drop st j h0]
      simp [dlOf]
    · intro q
      show ((lStep drop st j).L.getD t #[]).get q = (st.L.getD t #[]).get q ∨ _ = 0
      rw [lStep_L_get drop st j h0]
      by_cases hd : dlOf drop st j t q = true <;> simp [hd]
  · rw [hpiv]; exact h.nodup

/-! #### the whole loop -/

theorem iluRun_zero (F : Flavour K Rat) (P : IluParams K Rat) (drop : DropOracle K) (b : Bool) :
    iluRun F P drop b 0 = { usepr := b } := by simp [iluRun]

theorem iluRun_succ (F : Flavour K Rat) (P : IluParams K Rat) (drop : DropOracle K) (b : Bool) (j : Nat) :
    iluRun F P drop b (j + 1) = lStep drop (colStep F P drop (iluRun F P drop b j) j) j := by
  simp [iluRun, List.range_succ, List.foldl_append]

theorem iluFactor_eq_run (F : Flavour K Rat) (P : IluParams K Rat) (drop : DropOracle K) (b : Bool) :
    iluFactor F P drop b = iluRun F P drop b P.n := rfl

theorem colStep_stuck (F : Flavour K Rat) (P : IluParams K Rat) (drop : DropOracle K) (st : IluSt K) (j : Nat)
    (h : st.fail ≠ 0) : colStep F P drop st j = st := by
  simp [colStep, h]

theorem iluRun_fail_pred (F : Flavour K Rat) (P : IluParams K Rat) (drop : DropOracle K) (b : Bool) (j : Nat)
    (h : (iluRun F P drop b (j + 1)).fail = 0) : (iluRun F P drop b j).fail = 0 := by
  by_contra hne
  rw [iluRun_succ, lStep_fail, colStep_stuck F P drop _ j hne] at h
  exact hne h

theorem iluRun_fail_le (F : Flavour K Rat) (P : IluParams K Rat) (drop : DropOracle K) (b : Bool) (j k : Nat)
    (hk : k ≤ j) (h : (iluRun F P drop b j).fail = 0) : (iluRun F P drop b k).fail = 0 := by
  induction j with
  | zero => have : k = 0 := by omega
            subst this; exact h
  | succ j ih =>
    rcases Nat.lt_succ_iff_lt_or_eq.mp (Nat.lt_succ_of_le hk) with hlt | rfl
    · exact ih (by omega) (iluRun_fail_pred F P drop b j h)
    · exact h

theorem iinv_init (P : IluParams K Rat) (b : Bool) : IInv P ({ usepr := b } : IluSt K) 0 := by
  refine ⟨by simp, ?_, ?_, ?_, ?_, ?_, ?_, by simp⟩ <;> try (intro k hk; omega)
  simp [prev, UnitLower]

/-- **Invariant on every reachable state**, for every drop oracle. -/
theorem iluRun_inv (laws : MagLaws K) (F : Flavour K Rat) (P : IluParams K Rat) (drop : DropOracle K)
    (hcol : ∀ j, (P.col j).size = P.m) (b : Bool) (j : Nat) (h : (iluRun F P drop b j).fail = 0) :
    IInv P (iluRun F P drop b j) j := by
  induction j with
  | zero => rw [iluRun_zero]; exact iinv_init P b
  | succ j ih =>
    have hj := iluRun_fail_pred F P drop b j h
    rw [iluRun_succ] at h ⊢
    rw [lStep_fail] at h
    exact lStep_inv P drop _ j (j + 1) (colStep_inv laws F P drop hcol _ j (ih hj) hj h)

end inv
/-! ### the two pivot policies -/
section corr
variable {K : Type} [Field K] [Inhabited K] [Mag K Rat]

/-- the ILU candidate list of a complete-LU candidate list: every row eligible -/
def toCands (lc : List (Nat × K)) : List (Cand K) := lc.map fun c => { row := c.1, val := c.2, elig := true }

theorem toCands_length (lc : List (Nat × K)) : (toCands lc).length = lc.length := by simp [toCands]

theorem toCands_get (lc : List (Nat × K)) (k : Nat) (c : Nat × K) (h : lc[k]? = some c) :
    (toCands lc)[k]! = { row := c.1, val := c.2, elig := true } := by
  simp [toCands, h]

theorem scanPivAux_snoc (l1 : List (Nat × K)) (c : Nat × K) (k : Nat) (acc : Rat × Nat) :
    scanPivAux (l1 ++ [c]) k acc =
      (if (Mag.abs1 c.2 : Rat) > (scanPivAux l1 k acc).1 then ((Mag.abs1 c.2 : Rat), k + l1.length) else scanPivAux l1 k acc) := by
  induction l1 generalizing k acc with
  | nil => simp [scanPivAux]
  | cons a l1 ih =>
    simp only [List.cons_append, scanPivAux, ih, List.length_cons]
    have : k + 1 + l1.length = k + (l1.length + 1) := by omega
    rw [this]
    rfl

theorem findRowAux_snoc (l1 : List (Nat × K)) (c : Nat × K) (r k : Nat) (acc : Option Nat) :
    findRowAux (l1 ++ [c]) r k acc = (if c.1 = r then some (k + l1.length) else findRowAux l1 r k acc) := by
  induction l1 generalizing k acc with
  | nil => simp [findRowAux]
  | cons a l1 ih =>
    simp only [List.cons_append, findRowAux, ih, List.length_cons]
    have : k + 1 + l1.length = k + (l1.length + 1) := by omega
    rw [this]

/-- the scan of `ilu_?pivotL` on an all-eligible column with `drop_sum = 0` is the scan of `?pivotL` -/
theorem scanTo_corr (laws : MagLaws K) (inp : PivIn K Rat) (lc : List (Nat × K)) (hc : inp.cands = toCands lc)
    (hds : inp.dropSum = 0) (m : Nat) (hm : m ≤ lc.length) :
    (m = 0 → (scanTo inp m).pivmax = -1 ∧ (scanTo inp m).pivptr = 0) ∧
    (0 < m → (scanTo inp m).pivmax = (scanPivAux (lc.take m) 0 ((0 : Rat), 0)).1 ∧
             (scanTo inp m).pivptr = (scanPivAux (lc.take m) 0 ((0 : Rat), 0)).2) ∧
    (scanTo inp m).diag = findRow (lc.take m) inp.diagind ∧
    (scanTo inp m).oldPtr = (if inp.usepr then findRow (lc.take m) inp.pivrowIn else none) := by
  have : MagNonneg K := ⟨laws.nonneg⟩
  induction m with
  | zero =>
    refine ⟨fun _ => ⟨rfl, rfl⟩, fun h => absurd h (by omega), ?_, ?_⟩
    · simp [scanTo, scanInit, findRow, findRowAux]
    · simp [scanTo, scanInit, findRow, findRowAux]
  | succ m ih =>
    obtain ⟨ih0, ih1, ih2, ih3⟩ := ih (by omega)
    have hlt : m < lc.length := by omega
    have htake : lc.take (m + 1) = lc.take m ++ [lc[m]] := by
      rw [List.take_add_one]; simp [hlt]
    have hcm : inp.cands[m]! = { row := lc[m].1, val := lc[m].2, elig := true } := by
      rw [hc]; exact toCands_get lc m lc[m] (by simp [hlt])
    have hlen : (lc.take m).length = m := by simp; omega
    have hmag : scanMag inp.milu inp.dropSum (lc[m].2) = (Mag.abs1 lc[m].2 : Rat) := by
      rw [hds]; unfold scanMag; split <;> simp
    rw [scanTo_succ]
    unfold scanStep
    simp only [hcm, Bool.not_true, Bool.false_eq_true, if_false, hmag]
    refine ⟨fun h => absurd h (by omega), fun _ => ?_, ?_, ?_⟩
    · rw [htake, scanPivAux_snoc, hlen]
      by_cases hm0 : m = 0
      · subst hm0
        obtain ⟨e1, e2⟩ := ih0 rfl
        have hnn := laws.nonneg lc[0].2
        simp only [List.take_zero, scanPivAux, e1, e2]
        have h1 : (Mag.abs1 lc[0].2 : Rat) > -1 := by linarith
        simp only [h1, if_true, Nat.zero_add]
        by_cases h2 : (Mag.abs1 lc[0].2 : Rat) > 0
        · simp [h2]
        · have : (Mag.abs1 lc[0].2 : Rat) = 0 := le_antisymm (not_lt.mp h2) hnn
          simp [this]
      · obtain ⟨e1, e2⟩ := ih1 (by omega)
        rw [e1, e2]
        by_cases h2 : (Mag.abs1 lc[m].2 : Rat) > (scanPivAux (List.take m lc) 0 (0, 0)).1
        · simp [h2]
        · simp [h2]
    · rw [htake, findRow, findRowAux_snoc, hlen, ih2]
      simp [findRow]
    · rw [htake, findRow, findRowAux_snoc, hlen, ih3]
      cases inp.usepr <;> simp [findRow]

theorem toCands_get_none (lc : List (Nat × K)) (k : Nat) (h : lc[k]? = none) :
    (toCands lc)[k]! = default := by
  simp [toCands, h]

/-- `testMag` with `drop_sum = 0` is the plain magnitude -/
theorem testMag_zero (milu : Milu) (v : K) : testMag milu (0 : K) (0 : Rat) v = (Mag.abs1 v : Rat) := by
  cases milu <;> simp [testMag]

/-- the acceptance test of `ilu_?pivotL` at `drop_sum = 0` is `passes` of `?pivotL` -/
theorem tm_passes (lc : List (Nat × K)) (k : Nat) (c : Nat × K) (hk : lc[k]? = some c) (thresh : Rat) :
    (!((Mag.abs1 c.2 : Rat) == 0) && decide ((Mag.abs1 c.2 : Rat) ≥ thresh)) = passes lc thresh k := by
  unfold passes
  rw [hk]
  rfl

/-- **The two pivot policies coincide.** On a column all of whose candidate rows are eligible and with
`drop_sum = 0`, `ilu_[sdcz]pivotL` returns 0 exactly when `[sdcz]pivotL` does (otherwise both return
`jcol+1`), and then it records the same pivot row and the same reuse flag — in every MILU mode, with or
without a remembered pivot. -/
theorem iluPivotChoice_eq_pivotChoice (laws : MagLaws K) (inp : PivIn K Rat) (lc : List (Nat × K))
    (hc : inp.cands = toCands lc) (hds : inp.dropSum = 0) (thr : Rat → Rat) (ofR : Rat → K) (rinc : K → K) :
    (iluPivotChoice inp thr 0 ofR rinc).ret =
      (pivotChoice (R := Rat) inp.jcol lc thr inp.usepr inp.pivrowIn inp.diagind).info ∧
    ((pivotChoice (R := Rat) inp.jcol lc thr inp.usepr inp.pivrowIn inp.diagind).info = 0 →
      (iluPivotChoice inp thr 0 ofR rinc).pivrow =
        (pivotChoice (R := Rat) inp.jcol lc thr inp.usepr inp.pivrowIn inp.diagind).row ∧
      (iluPivotChoice inp thr 0 ofR rinc).usepr =
        (pivotChoice (R := Rat) inp.jcol lc thr inp.usepr inp.pivrowIn inp.diagind).usepr) := by
  have : MagNonneg K := ⟨laws.nonneg⟩
  have hlen : inp.cands.length = lc.length := by rw [hc, toCands_length]
  obtain ⟨c0, c1, c2, c3⟩ := scanTo_corr laws inp lc hc hds lc.length (le_refl _)
  rw [← hlen, ← scan_eq_scanTo, hlen] at c0 c1 c2 c3
  simp only [List.take_length] at c1 c2 c3
  obtain ⟨_, hnn, _⟩ := scanPiv_spec (K := K) lc
  unfold iluPivotChoice pivotChoice
  simp only [add_zero, ite_self]
  by_cases hl0 : lc.length = 0
  · obtain ⟨e1, _⟩ := c0 hl0
    have hnil : lc = [] := List.eq_nil_of_length_eq_zero hl0
    rw [e1]
    have : (-1 : Rat) < 0 := by norm_num
    simp [this, hnil, scanPiv, scanPivAux, IsZero.isZero]
  · obtain ⟨e1, e2⟩ := c1 (by omega)
    have e1' : (scan inp).pivmax = (scanPiv (R := Rat) lc).1 := e1
    have e2' : (scan inp).pivptr = (scanPiv (R := Rat) lc).2 := e2
    rw [e1']
    generalize hsp : scanPiv (R := Rat) lc = sp at *
    obtain ⟨pm, pp⟩ := sp
    simp only at hnn e1' e2' ⊢
    rw [if_neg (not_lt.mpr hnn)]
    have hz : IsZero.isZero pm = (pm == 0) := rfl
    rw [hz]
    by_cases hpm : (pm == 0) = true
    · simp only [hpm, if_true]
      refine ⟨?_, fun h => absurd h (by simp)⟩
      split
      · rfl
      · rfl
      · split <;> rfl
    · simp only [hpm, Bool.false_eq_true, if_false]
      -- the policy proper
      unfold choosePtr
      simp only [hds, testMag_zero, c2, c3, e2']
      have hrow : ∀ (k : Nat) (c : Nat × K), lc[k]? = some c → (inp.cands[k]! : Cand K).row = c.1 ∧ (inp.cands[k]! : Cand K).val = c.2 := by
        intro k c hk
        rw [hc, toCands_get lc k c hk]
        exact ⟨rfl, rfl⟩
      have hrow' : ∀ (k : Nat), (inp.cands[k]! : Cand K).row = (Option.map (fun x => x.1) lc[k]?).getD 0 := by
        intro k
        cases hk : lc[k]? with
        | some c => rw [(hrow k c hk).1]; rfl
        | none => rw [hc, toCands_get_none lc k hk]; rfl
      have hpass : ∀ (k : Nat) (r : Nat), findRow lc r = some k →
          (!((Mag.abs1 (inp.cands[k]! : Cand K).val : Rat) == 0) && decide ((Mag.abs1 (inp.cands[k]! : Cand K).val : Rat) ≥ thr pm))
            = passes lc (thr pm) k := by
        intro k r hk
        obtain ⟨c, hck, _⟩ := findRow_spec lc r k hk
        rw [(hrow k c hck).2]
        exact tm_passes lc k c hck (thr pm)
      -- the remembered row
      have hold : ∀ op, (if inp.usepr = true then findRow lc inp.pivrowIn else none) = some op →
          inp.usepr = true ∧ findRow lc inp.pivrowIn = some op := by
        intro op h
        by_cases hu : inp.usepr = true
        · exact ⟨hu, by simpa [hu] using h⟩
        · simp [hu] at h
      generalize hofr : (if inp.usepr = true then findRow lc inp.pivrowIn else none) = ofr at hold ⊢
      cases hd : findRow lc inp.diagind with
      | none =>
        simp only []
        cases ofr with
        | none =>
          simp only [Option.isSome_none, Bool.and_false, Bool.false_and, Bool.false_eq_true, if_false, Option.filter_none]
          exact ⟨trivial, fun _ => ⟨hrow' _, trivial⟩⟩
        | some op =>
          obtain ⟨hu, hfo⟩ := hold op rfl
          simp only [Option.isSome_some, Option.getD_some, hu, Bool.true_and]
          rw [hpass op _ hfo]
          by_cases hp : passes lc (thr pm) op = true
          · simp [hp, Option.filter]
          · simp only [hp, Bool.false_eq_true, if_false, Option.filter]
            exact ⟨trivial, fun _ => ⟨hrow' _, trivial⟩⟩
      | some d =>
        simp only []
        rw [hpass d _ hd]
        by_cases hpd : passes lc (thr pm) d = true
        · simp only [hpd, if_true]
          cases ofr with
          | none =>
            simp only [Option.isSome_none, Bool.and_false, Bool.false_and, Bool.false_eq_true, if_false, Option.filter_none]
            exact ⟨trivial, fun _ => ⟨hrow' _, trivial⟩⟩
          | some op =>
            obtain ⟨hu, hfo⟩ := hold op rfl
            simp only [Option.isSome_some, Option.getD_some, hu, Bool.true_and]
            rw [hpass op _ hfo]
            by_cases hp : passes lc (thr pm) op = true
            · simp [hp, Option.filter]
            · simp only [hp, Bool.false_eq_true, if_false, Option.filter]
              exact ⟨trivial, fun _ => ⟨hrow' _, trivial⟩⟩
        · simp only [hpd, Bool.false_eq_true, if_false]
          cases ofr with
          | none =>
            simp only [Option.isSome_none, Bool.and_false, Bool.false_and, Bool.false_eq_true, if_false, Option.filter_none]
            exact ⟨trivial, fun _ => ⟨hrow' _, trivial⟩⟩
          | some op =>
            obtain ⟨hu, hfo⟩ := hold op rfl
            simp only [Option.isSome_some, Option.getD_some, hu, Bool.true_and]
            rw [hpass op _ hfo]
            by_cases hp : passes lc (thr pm) op = true
            · simp [hp, Option.filter]
            · simp only [hp, Bool.false_eq_true, if_false, Option.filter]
              exact ⟨trivial, fun _ => ⟨hrow' _, trivial⟩⟩

end corr
/-! ### dropping disabled and no pivot replaced -/
section nodrop
variable {K : Type} [Field K] [Inhabited K] [Mag K Rat]

/-- the laws of the scalar flavour that make `drop_sum = 0` a no-op -/
structure FlavourLaws (F : Flavour K Rat) : Prop where
  ds0 : F.dsOf 0 = 0
  ofR0 : F.ofR 0 = 0
  reset0 : ∀ v, F.resetInc 0 v = 0
  rscale0 : ∀ r : Rat, Mag.rscale (0 : K) r = 0

/-- the oracle drops nothing (dropping disabled: `drop_rule = NODROP`, or tolerances never met) -/
structure DropsNothing (drop : DropOracle K) : Prop where
  u : ∀ st j w us t, drop.dropU st j w us t = false
  l : ∀ st j t i, drop.dropL st j t i = false
  d : ∀ st j k, drop.diagMul st j k = 1

theorem noDrop_dropsNothing : DropsNothing (noDrop : DropOracle K) := ⟨fun _ _ _ _ _ => rfl, fun _ _ _ _ => rfl, fun _ _ _ => rfl⟩

theorem mapIdx_id_of {α : Type} (a : Array α) (g : Nat → α → α) (h : ∀ i x, g i x = x) : a.mapIdx g = a := by
  apply Array.ext
  · simp
  · intro i h1 h2; simp [h]

/-- no row dropping, no diagonal compensation: the second step does nothing -/
theorem lStep_noL (drop : DropOracle K) (hl : ∀ st j t i, drop.dropL st j t i = false)
    (hdm : ∀ st j k, drop.diagMul st j k = 1) (st : IluSt K) (j : Nat) :
    lStep drop st j = st := by
  unfold lStep
  split
  · rfl
  · simp only [hl, hdm, Bool.false_and, Bool.false_eq_true, if_false, sub_self, zero_mul, add_zero, mul_one, ite_self]
    have h1 : (st.L.mapIdx fun t l => l.mapIdx fun i x => x) = st.L :=
      mapIdx_id_of _ _ (fun t l => mapIdx_id_of _ _ (fun _ _ => rfl))
    have h2 : (st.U.mapIdx fun k uc => uc.mapIdx fun t x => x) = st.U :=
      mapIdx_id_of _ _ (fun t l => mapIdx_id_of _ _ (fun _ _ => rfl))
    have h3 : (st.E.mapIdx fun k e => e.mapIdx fun i x => x - ((List.range (k + 1)).map fun t => (0 : K)).sum) = st.E := by
      apply mapIdx_id_of
      intro k e
      apply mapIdx_id_of
      intro i x
      simp
    rw [h1, h2, h3]

theorem lStep_dropsNothing (drop : DropOracle K) (hd : DropsNothing drop) (st : IluSt K) (j : Nat) :
    lStep drop st j = st := lStep_noL drop hd.l hd.d st j

theorem rawSum_nil (laws : MagLaws K) (F : Flavour K Rat) (hF : FlavourLaws F) (milu : Milu) : rawSum F milu ([] : List K) = 0 := by
  cases milu <;> simp [rawSum, laws.zero, hF.ofR0]

theorem cDsum_dropsNothing (laws : MagLaws K) (F : Flavour K Rat) (hF : FlavourLaws F) (P : IluParams K Rat)
    (drop : DropOracle K) (hd : DropsNothing drop) (st : IluSt K) (j : Nat) : cDsum F P drop st j = 0 := by
  unfold cDsum dropSumOf
  rw [droppedVals_none _ _ (fun t => by unfold cD; exact hd.u _ _ _ _ t)]
  simp only [rawSum_nil laws F hF, hF.rscale0]

theorem iluCands_length (P : IluParams K Rat) (piv : Array Nat) (j : Nat) (w : Vec K) :
    (iluCands P piv j w).length = ((P.order j).filter (fun r => !(piv.contains r))).length := by
  simp [iluCands]

theorem iluCands_get (P : IluParams K Rat) (piv : Array Nat) (j : Nat) (w : Vec K) (p : Nat)
    (hp : p < (iluCands P piv j w).length) :
    ∃ r, r ∈ P.order j ∧ r ∉ piv.toList ∧
      ((iluCands P piv j w)[p]! : Cand K) = { row := r, val := w.get r, elig := P.elig j r } := by
  have hp' : p < ((P.order j).filter (fun r => !(piv.contains r))).length := by rwa [iluCands_length] at hp
  have hmem := List.getElem_mem hp'
  have hf := List.mem_filter.mp hmem
  refine ⟨_, hf.1, by simpa using hf.2, ?_⟩
  unfold iluCands
  generalize (P.order j).filter (fun r => !(piv.contains r)) = fl at hp' ⊢
  simp [hp']

/-- every candidate carries the eliminated value of its row -/
theorem iluCands_val (P : IluParams K Rat) (piv : Array Nat) (j : Nat) (w : Vec K) (p : Nat)
    (hp : p < (iluCands P piv j w).length) :
    ((iluCands P piv j w)[p]! : Cand K).val = w.get ((iluCands P piv j w)[p]! : Cand K).row := by
  obtain ⟨r, _, _, h⟩ := iluCands_get P piv j w p hp
  rw [h]

/-- every candidate row is a row of `order j` that is not yet a pivot row -/
theorem iluCands_row (P : IluParams K Rat) (piv : Array Nat) (j : Nat) (w : Vec K) (p : Nat)
    (hp : p < (iluCands P piv j w).length) :
    ((iluCands P piv j w)[p]! : Cand K).row ∈ P.order j ∧ ((iluCands P piv j w)[p]! : Cand K).row ∉ piv.toList := by
  obtain ⟨r, h1, h2, h⟩ := iluCands_get P piv j w p hp
  rw [h]; exact ⟨h1, h2⟩

/-- a zero return of the policy: a position inside the column, the recorded row is the row at that
position, and the stored value is the MILU reset of the value at that position -/
theorem iluPivotChoice_ret0 (laws : MagLaws K) (inp : PivIn K Rat) (thr : Rat → Rat) (ds : Rat) (ofR : Rat → K)
    (rinc : K → K) (hds : ds ≤ 1) (hr : (iluPivotChoice inp thr ds ofR rinc).ret = 0) :
    ∃ p, (iluPivotChoice inp thr ds ofR rinc).pos = some p ∧ p < inp.cands.length ∧
      (inp.cands[p]! : Cand K).row = (iluPivotChoice inp thr ds ofR rinc).pivrow ∧
      (iluPivotChoice inp thr ds ofR rinc).pivVal =
        (match inp.milu with
          | .silu => (inp.cands[p]! : Cand K).val
          | .smilu1 => (inp.cands[p]! : Cand K).val + inp.dropSum
          | _ => (inp.cands[p]! : Cand K).val + rinc (inp.cands[p]! : Cand K).val) := by
  have : MagNonneg K := ⟨laws.nonneg⟩
  have inv := scanInv_scanTo inp inp.cands.length
  rw [← scan_eq_scanTo] at inv
  have hrow := fun p hp => iluPivotChoice_row_recorded inp thr ds ofR rinc p hp hr
  unfold iluPivotChoice at hr hrow ⊢
  simp only [] at hr hrow ⊢
  generalize hpm : (if inp.milu.absVariant = true then (scan inp).pivmax + ds else (scan inp).pivmax) = pm at hr hrow ⊢
  by_cases h1 : pm < 0
  · rw [if_pos h1] at hr; simp at hr
  · rw [if_neg h1] at hr hrow ⊢
    by_cases h2 : (pm == 0) = true
    · rw [if_pos h2] at hr
      split at hr <;> try (simp at hr)
      split at hr <;> simp at hr
    · rw [if_neg h2] at hrow ⊢
      have hpos : 0 < pm := by
        have : pm ≠ 0 := by simpa using h2
        exact lt_of_le_of_ne (not_lt.mp h1) (Ne.symm this)
      rcases inv.alt with ⟨a1, _, _⟩ | ⟨_, a2, a3, p0, _, a5⟩
      · exfalso
        rw [a1] at hpm
        split at hpm <;> linarith
      · have hlen : 0 < inp.cands.length := by omega
        have hcp := choosePtr_spec inp thr ds pm hpos hpm hlen inv a2 a3
        exact ⟨_, rfl, hcp.1, hrow _ rfl, rfl⟩

theorem cE_get (F : Flavour K Rat) (P : IluParams K Rat) (drop : DropOracle K) (st : IluSt K) (j i : Nat) (hi : i < P.m) :
    (cE F P drop st j).get i =
      (if i = (cOut F P drop st j).pivrow then (cOut F P drop st j).pivVal - (cW P st j).get (cOut F P drop st j).pivrow else 0)
        - dotL (dropdU (cUs P st j) (cD P drop st j)) (prev st.toLU j) i := by
  rw [cE]
  simp [Vec.get, Array.getD, hi, edot_eq_dotL]

theorem setIfInBounds_self (w : Vec K) (p : Nat) : w.setIfInBounds p (w.get p) = w := by
  apply Array.ext
  · simp
  · intro i h1 h2
    by_cases h : p = i
    · subst h; simp [Vec.get, Array.getD, h2]
    · rw [Array.getElem_setIfInBounds (by simpa using h1)]; simp [h]

/-- with `drop_sum = 0` and a zero return, the value left at the pivot is the eliminated value of the pivot row -/
theorem iluPivOut_ret0_val (laws : MagLaws K) (F : Flavour K Rat) (hF : FlavourLaws F) (P : IluParams K Rat)
    (piv : Array Nat) (b : Bool) (j : Nat) (w : Vec K) (hr : (iluPivOut F P piv b j w 0).ret = 0) :
    (iluPivOut F P piv b j w 0).pivVal = w.get (iluPivOut F P piv b j w 0).pivrow ∧
    (iluPivOut F P piv b j w 0).pivrow ∈ P.order j ∧ (iluPivOut F P piv b j w 0).pivrow ∉ piv.toList := by
  unfold iluPivOut at hr ⊢
  rw [hF.ds0] at hr ⊢
  obtain ⟨p, _, hp, hrow, hval⟩ := iluPivotChoice_ret0 laws (iluPivIn P piv b j w 0) (fun p => P.u * p) 0 F.ofR
    (F.resetInc 0) (by norm_num) hr
  have hp' : p < (iluCands P piv j w).length := hp
  have hv := iluCands_val P piv j w p hp'
  have hr' := iluCands_row P piv j w p hp'
  have hrow' : ((iluCands P piv j w)[p]! : Cand K).row = _ := hrow
  rw [← hrow']
  refine ⟨?_, hr'⟩
  rw [hval]
  have hv' : ((iluPivIn P piv b j w 0).cands[p]! : Cand K).val = w.get ((iluCands P piv j w)[p]! : Cand K).row := hv
  rw [hv']
  have hz : (iluPivIn P piv b j w (0 : K)).dropSum = 0 := rfl
  have hmi : (iluPivIn P piv b j w (0 : K)).milu = P.milu := rfl
  rw [hmi, hz]
  cases hm : P.milu <;> simp [hF.reset0]

/-- **No dropping, no replacement: one column.** If the oracle drops nothing and the policy returns 0,
the ILU column step IS the complete-LU column step with the same policy, and its error column vanishes. -/
theorem colStep_dropsNothing (laws : MagLaws K) (F : Flavour K Rat) (hF : FlavourLaws F) (P : IluParams K Rat)
    (drop : DropOracle K) (hd : DropsNothing drop) (st : IluSt K) (j : Nat) (h0 : st.fail = 0)
    (h1 : (colStep F P drop st j).fail = 0) (hr : (cOut F P drop st j).ret = 0) :
    (colStep F P drop st j).toLU = luStepIluPivot F P st.toLU j ∧
    (colStep F P drop st j).E = st.E.push (cE F P drop st j) ∧ ∀ i, (cE F P drop st j).get i = 0 := by
  have hds := cDsum_dropsNothing laws F hF P drop hd st j
  have hout : cOut F P drop st j = iluPivOut F P st.piv st.usepr j (cW P st j) 0 := by
    unfold cOut; rw [hds]
  have hdn : ∀ t, cD P drop st j t = false := fun t => by unfold cD; exact hd.u _ _ _ _ t
  have hstep := colStep_unfold F P drop st j h0
  have hgood : cBad F P drop st j = false := by
    cases hb : cBad F P drop st j
    · rfl
    · rw [hstep, if_pos hb] at h1; simp at h1
  rw [hstep, hgood]
  simp only [Bool.false_eq_true, if_false]
  rw [hout] at hr
  obtain ⟨hval, _, _⟩ := iluPivOut_ret0_val laws F hF P st.piv st.usepr j (cW P st j) hr
  refine ⟨?_, trivial, ?_⟩
  · unfold luStepIluPivot
    have hinfo : st.toLU.info = 0 := h0
    simp only [hinfo, ne_eq, not_true_eq_false, if_false]
    show _ = (if (iluPivOut F P st.piv st.usepr j (cW P st j) 0).ret ≠ 0 then _ else _)
    rw [if_neg (by simpa using hr)]
    rw [hout, hval, setIfInBounds_self, keepU_none _ _ hdn]
    rfl
  · intro i
    by_cases hi : i < P.m
    · rw [cE_get F P drop st j i hi, dotL_dropd_none _ _ hdn, hout, hval]
      simp
    · unfold cE; simp [Vec.get, Array.getD, hi]

theorem colStep_rets (F : Flavour K Rat) (P : IluParams K Rat) (drop : DropOracle K) (st : IluSt K) (j : Nat)
    (h0 : st.fail = 0) : (colStep F P drop st j).rets = st.rets.push (cOut F P drop st j).ret := by
  rw [colStep_unfold F P drop st j h0]
  split <;> rfl

/-- the return values of the pivot routine, column by column -/
theorem iluRun_rets (F : Flavour K Rat) (P : IluParams K Rat) (drop : DropOracle K) (b : Bool) (n : Nat)
    (h : (iluRun F P drop b n).fail = 0) :
    (iluRun F P drop b n).rets.toList = (List.range n).map fun j => (cOut F P drop (iluRun F P drop b j) j).ret := by
  induction n with
  | zero => simp [iluRun_zero]
  | succ n ih =>
    have hn := iluRun_fail_pred F P drop b n h
    rw [iluRun_succ, lStep_rets, colStep_rets F P drop _ n hn, Array.toList_push, ih hn, List.range_succ, List.map_append]
    rfl

/-- no pivot replaced: every call of the policy returned 0 -/
theorem iluRun_rets_zero (F : Flavour K Rat) (P : IluParams K Rat) (drop : DropOracle K) (b : Bool) (n : Nat)
    (h : (iluRun F P drop b n).fail = 0) (hi : (iluRun F P drop b n).iinfo = 0) (j : Nat) (hj : j < n) :
    (cOut F P drop (iluRun F P drop b j) j).ret = 0 := by
  unfold IluSt.iinfo replaceCount at hi
  rw [iluRun_rets F P drop b n h] at hi
  have hnil := List.eq_nil_of_length_eq_zero hi
  by_contra hne
  have hmem : (cOut F P drop (iluRun F P drop b j) j).ret ∈
      ((List.range n).map fun j => (cOut F P drop (iluRun F P drop b j) j).ret).filter (· ≠ 0) := by
    apply List.mem_filter.mpr
    exact ⟨List.mem_map.mpr ⟨j, List.mem_range.mpr hj, rfl⟩, by simpa using hne⟩
  rw [hnil] at hmem
  simp at hmem

/-- the complete LU driven by the ILU policy, first `j` columns -/
def luRunIluPivot (F : Flavour K Rat) (P : IluParams K Rat) (b : Bool) (j : Nat) : LU.St K :=
  (List.range j).foldl (luStepIluPivot F P) { usepr := b }

theorem luRunIluPivot_succ (F : Flavour K Rat) (P : IluParams K Rat) (b : Bool) (j : Nat) :
    luRunIluPivot F P b (j + 1) = luStepIluPivot F P (luRunIluPivot F P b j) j := by
  simp [luRunIluPivot, List.range_succ, List.foldl_append]

/-- **No dropping, no replacement: the whole loop.** -/
theorem iluRun_dropsNothing (laws : MagLaws K) (F : Flavour K Rat) (hF : FlavourLaws F) (P : IluParams K Rat)
    (drop : DropOracle K) (hd : DropsNothing drop) (b : Bool) (n : Nat)
    (h : (iluRun F P drop b n).fail = 0) (hi : (iluRun F P drop b n).iinfo = 0) (j : Nat) (hj : j ≤ n) :
    (iluRun F P drop b j).toLU = luRunIluPivot F P b j ∧
    ∀ k i, ((iluRun F P drop b j).E.getD k #[]).get i = 0 := by
  induction j with
  | zero =>
    rw [iluRun_zero]
    exact ⟨rfl, fun k i => by simp [Vec.get, Array.getD]⟩
  | succ j ih =>
    obtain ⟨ih1, ih2⟩ := ih (by omega)
    have hj0 := iluRun_fail_le F P drop b n j (by omega) h
    have hj1 := iluRun_fail_le F P drop b n (j + 1) hj h
    have hret := iluRun_rets_zero F P drop b n h hi j (by omega)
    rw [iluRun_succ, lStep_dropsNothing drop hd] at hj1 ⊢
    obtain ⟨c1, c2, c3⟩ := colStep_dropsNothing laws F hF P drop hd _ j hj0 hj1 hret
    refine ⟨by rw [c1, ih1, luRunIluPivot_succ], ?_⟩
    intro k i
    rw [c2]
    rcases Nat.lt_trichotomy k (iluRun F P drop b j).E.size with hk | hk | hk
    · have : (((iluRun F P drop b j).E.push (cE F P drop (iluRun F P drop b j) j)).getD k #[]) = (iluRun F P drop b j).E.getD k #[] := by
        simp [Array.getD, Array.getElem_push, hk, Nat.lt_succ_of_lt hk]
      rw [this]; exact ih2 k i
    · have : (((iluRun F P drop b j).E.push (cE F P drop (iluRun F P drop b j) j)).getD k #[]) = cE F P drop (iluRun F P drop b j) j := by
        simp [Array.getD, Array.getElem_push, hk]
      rw [this]; exact c3 i
    · have : (((iluRun F P drop b j).E.push (cE F P drop (iluRun F P drop b j) j)).getD k #[]) = #[] := by
        have : ¬ k < (iluRun F P drop b j).E.size + 1 := by omega
        simp [Array.getD, this]
      rw [this]; simp [Vec.get]

/-! #### the complete LU with the ILU policy is `luFactor` -/

theorem iluCands_eq_toCands (P : IluParams K Rat) (hel : ∀ j r, P.elig j r = true) (piv : Array Nat) (j : Nat) (w : Vec K) :
    iluCands P piv j w = toCands (((P.order j).filter (fun r => !(piv.contains r))).map fun r => (r, w.get r)) := by
  simp [iluCands, toCands, hel]

/-- body of `luStepIluPivot` after the elimination -/
def ipBody (F : Flavour K Rat) (P : IluParams K Rat) (st : LU.St K) (j : Nat) (w : Vec K) (us : List K) : LU.St K :=
  let o := iluPivOut F P st.piv st.usepr j w 0
  if o.ret ≠ 0 then { st with info := o.ret, usepr := false } else
  let p := o.pivrow
  let piv := w.get p
  let temp : K := 1 / piv
  let l : Vec K := w.map (· * temp)
  { piv := st.piv.push p, L := st.L.push l, U := st.U.push ((us ++ [piv]).toArray), usepr := o.usepr, info := 0 }

/-- body of `Slu.LU.step` after the elimination -/
def luBody (P : LU.Params K Rat) (st : LU.St K) (j : Nat) (w : Vec K) (us : List K) : LU.St K :=
  let cands : List (Nat × K) := ((P.order j).filter (fun r => !(st.piv.contains r))).map fun r => (r, w.get r)
  let o := pivotChoice (R := Rat) j cands (fun p => P.u * p) st.usepr (P.oldPiv j) (P.diagRow j)
  if o.info ≠ 0 then { st with info := o.info, usepr := false } else
  let p := o.row
  let piv := w.get p
  let temp : K := 1 / piv
  let l : Vec K := w.map (· * temp)
  { piv := st.piv.push p, L := st.L.push l, U := st.U.push ((us ++ [piv]).toArray), usepr := o.usepr, info := 0 }

theorem luStepIluPivot_body (F : Flavour K Rat) (P : IluParams K Rat) (st : LU.St K) (j : Nat) :
    luStepIluPivot F P st j = if st.info ≠ 0 then st else
      ipBody F P st j (elim ((List.range j).map fun k => (st.piv.getD k 0, st.L.getD k #[])) (P.col j)).1
        (elim ((List.range j).map fun k => (st.piv.getD k 0, st.L.getD k #[])) (P.col j)).2 := rfl

theorem step_body (P : LU.Params K Rat) (st : LU.St K) (j : Nat) :
    LU.step P st j = if st.info ≠ 0 then st else
      luBody P st j (elim ((List.range j).map fun k => (st.piv.getD k 0, st.L.getD k #[])) (P.col j)).1
        (elim ((List.range j).map fun k => (st.piv.getD k 0, st.L.getD k #[])) (P.col j)).2 := rfl

theorem ipBody_eq_luBody (laws : MagLaws K) (F : Flavour K Rat) (hF : FlavourLaws F) (P : IluParams K Rat)
    (hel : ∀ j r, P.elig j r = true) (st : LU.St K) (j : Nat) (w : Vec K) (us : List K) :
    ipBody F P st j w us = luBody P.toLU st j w us := by
  have hcorr := iluPivotChoice_eq_pivotChoice laws (iluPivIn P st.piv st.usepr j w 0)
    (((P.order j).filter (fun r => !(st.piv.contains r))).map fun r => (r, w.get r))
    (iluCands_eq_toCands P hel st.piv j w) rfl (fun p => P.u * p) F.ofR (F.resetInc 0)
  have hout : iluPivOut F P st.piv st.usepr j w 0 =
      iluPivotChoice (iluPivIn P st.piv st.usepr j w 0) (fun p => P.u * p) 0 F.ofR (F.resetInc 0) := by
    unfold iluPivOut; rw [hF.ds0]
  obtain ⟨hc1, hc2⟩ := hcorr
  have e1 : (iluPivIn P st.piv st.usepr j w (0 : K)).jcol = j := rfl
  have e2 : (iluPivIn P st.piv st.usepr j w (0 : K)).usepr = st.usepr := rfl
  have e3 : (iluPivIn P st.piv st.usepr j w (0 : K)).pivrowIn = P.oldPiv j := rfl
  have e4 : (iluPivIn P st.piv st.usepr j w (0 : K)).diagind = P.diagRow j := rfl
  rw [e1, e2, e3, e4] at hc1 hc2
  unfold ipBody luBody
  simp only [IluParams.toLU]
  rw [hout, hc1]
  by_cases hi : (pivotChoice (R := Rat) j (((P.order j).filter (fun r => !(st.piv.contains r))).map fun r => (r, w.get r))
      (fun p => P.u * p) st.usepr (P.oldPiv j) (P.diagRow j)).info = 0
  · obtain ⟨hc3, hc4⟩ := hc2 hi
    rw [if_neg (not_not.mpr hi), hc3, hc4]
    simp only [ne_eq, hi, not_true_eq_false, if_false]
  · rw [if_pos hi]
    simp only [ne_eq, hi, not_false_eq_true, if_true]

/-- **Same policy, same step.** When every candidate row is eligible, one column of the complete LU
driven by `ilu_?pivotL` (drop_sum = 0) is one column of `Slu.LU.luFactor` — including the singular
stop (both report `jcol+1` exactly when every candidate is zero). -/
theorem luStepIluPivot_eq_step (laws : MagLaws K) (F : Flavour K Rat) (hF : FlavourLaws F) (P : IluParams K Rat)
    (hel : ∀ j r, P.elig j r = true) (st : LU.St K) (j : Nat) :
    luStepIluPivot F P st j = LU.step P.toLU st j := by
  rw [luStepIluPivot_body, step_body]
  split
  · rfl
  · exact ipBody_eq_luBody laws F hF P hel st j _ _

theorem luFactorIluPivot_eq_luFactor (laws : MagLaws K) (F : Flavour K Rat) (hF : FlavourLaws F) (P : IluParams K Rat)
    (hel : ∀ j r, P.elig j r = true) (b : Bool) : luFactorIluPivot F P b = luFactor P.toLU b := by
  unfold luFactorIluPivot luFactor
  have : luStepIluPivot F P = LU.step P.toLU := by
    funext st j; exact luStepIluPivot_eq_step laws F hF P hel st j
  rw [this]
  rfl

/-! #### U-dropping only: the recorded error column is the closed form `cE` -/

/-- without row dropping, finished columns of L, U and E never change -/
theorem iluRun_noL_persist (F : Flavour K Rat) (P : IluParams K Rat) (drop : DropOracle K)
    (hl : ∀ st j t i, drop.dropL st j t i = false) (hdm : ∀ st j k, drop.diagMul st j k = 1)
    (laws : MagLaws K) (hcol : ∀ j, (P.col j).size = P.m) (b : Bool) (n : Nat)
    (h : (iluRun F P drop b n).fail = 0) (k : Nat) (hk : k < n) :
    (iluRun F P drop b n).E.getD k #[] = cE F P drop (iluRun F P drop b k) k ∧
    (iluRun F P drop b n).L.getD k #[] = (iluRun F P drop b (k + 1)).L.getD k #[] ∧
    (iluRun F P drop b n).U.getD k #[] = (iluRun F P drop b (k + 1)).U.getD k #[] ∧
    (iluRun F P drop b n).piv.getD k 0 = (iluRun F P drop b (k + 1)).piv.getD k 0 := by
  induction n with
  | zero => omega
  | succ n ih =>
    have hn := iluRun_fail_pred F P drop b n h
    have inv := iluRun_inv laws F P drop hcol b n hn
    obtain ⟨hs1, hs2, hs3, hs4⟩ := inv.sizes
    have hrun : iluRun F P drop b (n + 1) = colStep F P drop (iluRun F P drop b n) n := by
      rw [iluRun_succ, lStep_noL drop hl hdm]
    have hcf : (colStep F P drop (iluRun F P drop b n) n).fail = 0 := by rw [← hrun]; exact h
    have hstep := colStep_unfold F P drop (iluRun F P drop b n) n hn
    have hgood : cBad F P drop (iluRun F P drop b n) n = false := by
      cases hb : cBad F P drop (iluRun F P drop b n) n
      · rfl
      · rw [hstep, if_pos hb] at hcf; simp at hcf
    rw [hgood] at hstep
    simp only [Bool.false_eq_true, if_false] at hstep
    rcases Nat.lt_succ_iff_lt_or_eq.mp hk with hk' | rfl
    · obtain ⟨i1, i2, i3, i4⟩ := ih hn hk'
      rw [← i1, ← i2, ← i3, ← i4, hrun, hstep]
      refine ⟨?_, ?_, ?_, ?_⟩ <;> simp [Array.getD, Array.getElem_push, hs1, hs2, hs3, hs4, hk', Nat.lt_succ_of_lt hk']
    · refine ⟨?_, rfl, rfl, rfl⟩
      rw [hrun, hstep]
      simp [Array.getD, Array.getElem_push, hs4]

end nodrop
/-! ### the diagonal of Ũ -/
section udiag
variable {K : Type} [Field K] [Inhabited K] [Mag K Rat]

/-- when the column has an eligible candidate, the row the policy records is the row at the position it
pivots on — also when it replaces a zero pivot -/
theorem iluPivotChoice_row_at (laws : MagLaws K) (inp : PivIn K Rat) (thr : Rat → Rat) (ds : Rat) (ofR : Rat → K)
    (rinc : K → K) (hc : ∃ k, k < inp.cands.length ∧ (inp.cands[k]! : Cand K).elig = true) (p : Nat)
    (hp : (iluPivotChoice inp thr ds ofR rinc).pos = some p) :
    (inp.cands[p]! : Cand K).row = (iluPivotChoice inp thr ds ofR rinc).pivrow := by
  have : MagNonneg K := ⟨laws.nonneg⟩
  by_cases hr : (iluPivotChoice inp thr ds ofR rinc).ret = 0
  · exact iluPivotChoice_row_recorded inp thr ds ofR rinc p hp hr
  have inv := scanInv_scanTo inp inp.cands.length
  rw [← scan_eq_scanTo] at inv
  obtain ⟨k0, hk0, hel⟩ := hc
  have hptr0 : ∃ p0, (scan inp).ptr0 = some p0 := by
    rcases inv.alt with ⟨_, _, h3⟩ | ⟨_, _, _, p0, h4, _⟩
    · have := h3 k0 hk0; unfold eligAt at this; rw [hel] at this; cases this
    · exact ⟨p0, h4⟩
  obtain ⟨p0, hp0⟩ := hptr0
  unfold iluPivotChoice at hp hr ⊢
  simp only [] at hp hr ⊢
  generalize (if inp.milu.absVariant = true then (scan inp).pivmax + ds else (scan inp).pivmax) = pm at hp hr ⊢
  by_cases h1 : pm < 0
  · rw [if_pos h1] at hp; simp at hp
  · rw [if_neg h1] at hp hr ⊢
    by_cases h2 : (pm == 0) = true
    · rw [if_pos h2] at hp ⊢
      cases hd : (scan inp).diag with
      | some d =>
        simp only [hd] at hp ⊢
        simp only [Option.some.injEq] at hp
        rw [← hp]
      | none =>
        simp only [hd, hp0] at hp ⊢
        simp only [Option.some.injEq] at hp
        rw [← hp]
    · rw [if_neg h2] at hr
      simp at hr

/-- a free eligible row of `order j` is an eligible candidate -/
theorem iluCands_elig (P : IluParams K Rat) (piv : Array Nat) (j : Nat) (w : Vec K) (r : Nat)
    (hr : r ∈ P.order j) (hnp : r ∉ piv.toList) (he : P.elig j r = true) :
    ∃ k, k < (iluCands P piv j w).length ∧ ((iluCands P piv j w)[k]! : Cand K).elig = true := by
  have hmem : r ∈ (P.order j).filter (fun r => !(piv.contains r)) := by
    apply List.mem_filter.mpr
    exact ⟨hr, by simpa using hnp⟩
  obtain ⟨k, hk, hget⟩ := List.getElem_of_mem hmem
  refine ⟨k, by rw [iluCands_length]; exact hk, ?_⟩
  unfold iluCands
  generalize (P.order j).filter (fun r => !(piv.contains r)) = fl at hk hget ⊢
  simp [hk, hget, he]

theorem lStep_U_diag (drop : DropOracle K) (st : IluSt K) (j k : Nat) :
    ((lStep drop st j).U.getD k #[]).getD k 0 =
      if st.fail = 0 then (st.U.getD k #[]).getD k 0 * drop.diagMul st j k else (st.U.getD k #[]).getD k 0 := by
  by_cases h0 : st.fail = 0
  · rw [lStep_U_get drop st j h0 k k]; simp [h0]
  · rw [lStep_stuck drop st j h0]; simp [h0]

/-- **Nonzero diagonal, generic form.** If on every reachable state the policy returns a position inside
the column whose row it records and leaves a nonzero value there, and the oracle's diagonal factors are
nonzero, the model never stops and every diagonal entry of Ũ is nonzero. -/
theorem iluRun_udiag (laws : MagLaws K) (F : Flavour K Rat) (P : IluParams K Rat) (drop : DropOracle K)
    (hcol : ∀ j, (P.col j).size = P.m) (b : Bool)
    (hrows : ∀ j, ∀ r ∈ P.order j, r < P.m)
    (hdm : ∀ st j k, drop.diagMul st j k ≠ 0)
    (htot : ∀ j < P.n, (iluRun F P drop b j).fail = 0 →
      ∃ p, (cOut F P drop (iluRun F P drop b j) j).pos = some p ∧
        p < (iluCands P (iluRun F P drop b j).piv j (cW P (iluRun F P drop b j) j)).length ∧
        ((iluCands P (iluRun F P drop b j).piv j (cW P (iluRun F P drop b j) j))[p]! : Cand K).row =
          (cOut F P drop (iluRun F P drop b j) j).pivrow ∧
        (cOut F P drop (iluRun F P drop b j) j).pivVal ≠ 0)
    (j : Nat) (hj : j ≤ P.n) :
    (iluRun F P drop b j).fail = 0 ∧ ∀ k < j, ((iluRun F P drop b j).U.getD k #[]).getD k 0 ≠ 0 := by
  induction j with
  | zero => exact ⟨by rw [iluRun_zero], fun k hk => by omega⟩
  | succ j ih =>
    obtain ⟨ih1, ih2⟩ := ih (by omega)
    have inv := iluRun_inv laws F P drop hcol b j ih1
    obtain ⟨p, hpos, hplt, hprow, hpv⟩ := htot j (by omega) ih1
    set st := iluRun F P drop b j with hst
    have hrow := iluCands_row P st.piv j (cW P st j) p hplt
    rw [hprow] at hrow
    have hgood : cBad F P drop st j = false := by
      unfold cBad
      simp only [Bool.or_eq_false_iff, decide_eq_false_iff_not, not_le]
      refine ⟨⟨⟨by rw [hpos]; rfl, by simpa using hrow.2⟩, hrows j _ hrow.1⟩, ?_⟩
      have : (Mag.abs1 (cOut F P drop st j).pivVal : Rat) ≠ 0 := fun h => hpv (laws.definite _ h)
      simpa using this
    have hstep := colStep_unfold F P drop st j ih1
    rw [hgood] at hstep
    simp only [Bool.false_eq_true, if_false] at hstep
    have hcf : (colStep F P drop st j).fail = 0 := by rw [hstep]
    obtain ⟨hs1, hs2, hs3, hs4⟩ := inv.sizes
    have huslen : (cUs P st j).length = j := by rw [cUs, elim_length, prev_length]
    rw [iluRun_succ]
    refine ⟨by rw [lStep_fail]; exact hcf, ?_⟩
    intro k hk
    rw [lStep_U_diag, if_pos hcf]
    apply mul_ne_zero _ (hdm _ _ _)
    rw [hstep]
    rcases Nat.lt_succ_iff_lt_or_eq.mp hk with hk | rfl
    · have : (st.U.push ((keepU (cUs P st j) (cD P drop st j) ++ [(cOut F P drop st j).pivVal]).toArray)).getD k #[] = st.U.getD k #[] := by
        simp [Array.getD, Array.getElem_push, hs3, hk, Nat.lt_succ_of_lt hk]
      show ((st.U.push _).getD k #[]).getD k 0 ≠ 0
      rw [this]; exact ih2 k hk
    · have : (st.U.push ((keepU (cUs P st k) (cD P drop st k) ++ [(cOut F P drop st k).pivVal]).toArray)).getD k #[] =
          (keepU (cUs P st k) (cD P drop st k) ++ [(cOut F P drop st k).pivVal]).toArray := by
        simp [Array.getD, Array.getElem_push, hs3]
      show ((st.U.push _).getD k #[]).getD k 0 ≠ 0
      rw [this]
      simp [Array.getD, keepU_length, huslen]
      exact hpv

end udiag
/-! ### `iluApply` versus the vector step -/
section apply
variable {K : Type} [Field K] [Inhabited K] [Mag K Rat]

/-- the L column of `colStep`, entry by entry (all rows) -/
theorem lcol_get (w : Vec K) (p : Nat) (pv : K) (r : Nat) (hr : r ≠ p) :
    Vec.get ((w.setIfInBounds p pv).map (· * (1 / pv))) r = w.get r * (1 / pv) := by
  by_cases h : r < w.size
  · rw [setmap_get w p pv _ r h, if_neg hr]
  · simp [Vec.get, Array.getD, h]

/-- **`iluApply` and the vector step agree.** What `ilu_?pivotL` leaves in the supernode column
(`iluApply`: pivot value stored, row interchange, cdiv — the part of the routine that is mirrored bit for
bit) is what `colStep` stores: position 0 holds the recorded pivot row with the value that becomes `Ũ(j,j)`;
every other position holds a candidate row different from the pivot row together with the entry of the new
L column at that row.  (Candidate rows pairwise distinct.) -/
theorem iluApply_matches_colStep (P : IluParams K Rat) (piv : Array Nat) (j : Nat) (w : Vec K) (o : PivOut K)
    (hnd : (P.order j).Nodup) (p : Nat) (hpos : o.pos = some p) (hp : p < (iluCands P piv j w).length)
    (hrow : ((iluCands P piv j w)[p]! : Cand K).row = o.pivrow) (k : Nat) (e : Cand K)
    (he : (iluApply (iluCands P piv j w) o)[k]? = some e) :
    (k = 0 → e.row = o.pivrow ∧ e.val = o.pivVal) ∧
    (k ≠ 0 → e.row ≠ o.pivrow ∧ e.row ∈ P.order j ∧
      e.val = Vec.get ((w.setIfInBounds o.pivrow o.pivVal).map (· * (1 / o.pivVal))) e.row) := by
  unfold iluCands at hp hrow he
  have hfnd : ((P.order j).filter (fun r => !(piv.contains r))).Nodup := hnd.filter _
  have hfsub : ∀ r ∈ (P.order j).filter (fun r => !(piv.contains r)), r ∈ P.order j :=
    fun r hr => (List.mem_filter.mp hr).1
  generalize (P.order j).filter (fun r => !(piv.contains r)) = fl at hp hrow he hfnd hfsub
  simp only [List.length_map] at hp
  have hlen0 : 0 < fl.length := by omega
  have hrow' : fl[p] = o.pivrow := by simpa [hp] using hrow
  unfold iluApply at he
  simp only [hpos, List.getElem?_map, List.getElem?_eq_getElem hp, List.getElem?_eq_getElem hlen0, Option.map_some] at he
  -- entries of the mapped list
  have hk : k < fl.length := by
    obtain ⟨x, hx, _⟩ := Option.map_eq_some_iff.mp he
    have := (List.getElem?_eq_some_iff.mp hx).1
    split at this <;> simpa using this
  have hval : ∀ r, r ≠ o.pivrow →
      w.get r * (o.pivVal)⁻¹ = Vec.get ((w.setIfInBounds o.pivrow o.pivVal).map (· * (1 / o.pivVal))) r :=
    fun r hr => by rw [lcol_get w o.pivrow o.pivVal r hr, one_div]
  have hne : ∀ a (ha : a < fl.length), a ≠ p → fl[a] ≠ o.pivrow := by
    intro a ha hap heq
    rw [← hrow'] at heq
    exact hap ((List.Nodup.getElem_inj_iff hfnd).mp heq)
  by_cases hp0 : p = 0
  · subst hp0
    simp only [if_true] at he
    rw [List.getElem?_zipIdx] at he
    simp only [List.getElem?_set, List.length_map, hlen0, if_true, Nat.zero_add] at he
    by_cases hk0 : k = 0
    · subst hk0
      simp at he
      subst he
      exact ⟨fun _ => ⟨hrow', rfl⟩, fun h => absurd rfl h⟩
    · have h0k : ¬ 0 = k := fun h => hk0 h.symm
      simp [h0k, hk, hk0] at he
      subst he
      refine ⟨fun h => absurd h hk0, fun _ => ⟨hne k hk hk0, hfsub _ (List.getElem_mem hk), hval _ (hne k hk hk0)⟩⟩
  · simp only [hp0, if_false] at he
    rw [List.getElem?_zipIdx] at he
    simp only [List.getElem?_set, List.length_set, List.length_map, hlen0, hp, if_true, Nat.zero_add] at he
    by_cases hk0 : k = 0
    · subst hk0
      simp at he
      subst he
      exact ⟨fun _ => ⟨hrow', rfl⟩, fun h => absurd rfl h⟩
    · have h0k : ¬ 0 = k := fun h => hk0 h.symm
      by_cases hkp : k = p
      · subst hkp
        simp [h0k, hk0] at he
        subst he
        have h0p : (0 : Nat) ≠ k := h0k
        refine ⟨fun h => absurd h hk0, fun _ => ⟨hne 0 hlen0 h0p, hfsub _ (List.getElem_mem hlen0), hval _ (hne 0 hlen0 h0p)⟩⟩
      · have hpk : ¬ p = k := fun h => hkp h.symm
        simp [h0k, hk0, hpk, hk] at he
        subst he
        refine ⟨fun h => absurd h hk0, fun _ => ⟨hne k hk hkp, hfsub _ (List.getElem_mem hk), hval _ (hne k hk hkp)⟩⟩

end apply
end Slu.Ilu
