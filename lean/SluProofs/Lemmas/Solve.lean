import SluProofs.Lemmas.LUInv
import Mathlib.Algebra.BigOperators.Group.Finset.Basic
import Mathlib.Algebra.BigOperators.Group.Finset.Sigma
import Mathlib.Algebra.BigOperators.Ring.Finset
import Mathlib.Algebra.BigOperators.Intervals
/-
Back substitution and the permuted solve (`Slu.LU.backSub`, `gstrsN`).
-/
namespace Slu.LU
open Slu Finset

variable {K : Type} [Field K]

theorem list_sum_range (f : Nat → K) (n : Nat) : ((List.range n).map f).sum = ∑ i ∈ range n, f i := by
  induction n with
  | zero => simp
  | succ n ih => rw [List.range_succ, List.map_append, List.sum_append, ih, Finset.sum_range_succ]; simp

theorem foldl_sub (f : Nat → K) (a : K) (k : Nat) :
    (List.range k).foldl (fun s t => s - f t) a = a - ∑ t ∈ range k, f t := by
  induction k with
  | zero => simp
  | succ k ih => rw [List.range_succ, List.foldl_append, ih, Finset.sum_range_succ]; simp; ring

theorem backSub_length (U : Array (Array K)) (y : Array K) (n k : Nat) : (backSub U y n k).length = k := by
  induction k with
  | zero => simp [backSub]
  | succ k ih => simp [backSub, ih]

/-- **Back substitution solves the upper triangular system.**  With nonzero diagonal, for `k ≤ n`
the last `k` unknowns satisfy the last `k` equations: for `t < k`, `j = n - k + t`,
`Σ_{t ≤ t' < k} U(j, n-k+t') z_{n-k+t'} = y_j`. -/
theorem backSub_spec (U : Array (Array K)) (y : Array K) (n : Nat)
    (hd : ∀ j < n, (U.getD j #[]).getD j 0 ≠ 0) (k : Nat) (hk : k ≤ n) (t : Nat) (ht : t < k) :
    ∑ t' ∈ range (k - t), (U.getD (n - k + t + t') #[]).getD (n - k + t) 0 * (backSub U y n k).getD (t + t') 0
      = y.getD (n - k + t) 0 := by
  induction k generalizing t with
  | zero => omega
  | succ k ih =>
    have hlen := backSub_length U y n k
    cases t with
    | zero =>
      -- first equation of the enlarged block: the new unknown
      simp only [backSub, Nat.add_zero, Nat.zero_add, Nat.sub_zero]
      rw [Finset.sum_range_succ']
      simp only [Nat.add_zero, List.getD_cons_zero, List.getD_cons_succ]
      rw [foldl_sub]
      have hne := hd (n - (k + 1)) (by omega)
      have : ∀ t', (U.getD (n - (k + 1) + (t' + 1)) #[]) = (U.getD (n - (k + 1) + 1 + t') #[]) := by
        intro t'; congr 1; omega
      simp only [this]
      field_simp
      ring
    | succ t =>
      have h := ih (by omega) t (by omega)
      have e1 : n - (k + 1) + (t + 1) = n - k + t := by omega
      have e2 : k + 1 - (t + 1) = k - t := by omega
      rw [e2]
      simp only [backSub]
      have : ∀ (z0 : K) t', (z0 :: backSub U y n k).getD (t + 1 + t') 0 = (backSub U y n k).getD (t + t') 0 := by
        intro z0 t'
        have : t + 1 + t' = (t + t') + 1 := by omega
        rw [this, List.getD_cons_succ]
      simp only [this, e1]
      exact h

end Slu.LU

namespace Slu.LU
open Slu Finset
variable {K : Type} [Field K] [Mag K Rat]

/-- distinct pivot rows, one per column of a square matrix, cover every row -/
theorem pivots_cover (piv : Array Nat) (n : Nat) (hsz : piv.size = n) (hnd : piv.toList.Nodup)
    (hr : ∀ k < n, piv.getD k 0 < n) (i : Nat) (hi : i < n) : ∃ k < n, piv.getD k 0 = i := by
  have hinj : Set.InjOn (fun k => piv.getD k 0) (range n : Finset Nat) := by
    intro a ha b hb hab
    simp only [coe_range, Set.mem_Iio] at ha hb
    have ha' : a < piv.toList.length := by simpa [hsz] using ha
    have hb' : b < piv.toList.length := by simpa [hsz] using hb
    have e : piv.toList[a] = piv.toList[b] := by
      have h1 : piv.getD a 0 = piv.toList[a] := by simp [Array.getD, hsz, ha]
      have h2 : piv.getD b 0 = piv.toList[b] := by simp [Array.getD, hsz, hb]
      simpa [h1, h2] using hab
    exact (List.Nodup.getElem_inj_iff hnd).mp e
  have hcard : ((range n).image (fun k => piv.getD k 0)).card = n := by
    rw [Finset.card_image_of_injOn hinj, card_range]
  have hsub : (range n).image (fun k => piv.getD k 0) ⊆ range n := by
    intro x hx
    simp only [mem_image, mem_range] at hx ⊢
    obtain ⟨k, hk, rfl⟩ := hx
    exact hr k hk
  have heq := Finset.eq_of_subset_of_card_le hsub (by rw [hcard, card_range])
  have : i ∈ (range n).image (fun k => piv.getD k 0) := by rw [heq]; simpa using hi
  simpa using this

/-- **The permuted solve is correct (exact arithmetic, square case).**  If the invariant of C02
holds for all `n = m` columns, then for any right-hand side `b` of length `m` and any column
permutation `permC` (a rearrangement of `0..n-1`), `x = gstrsN piv L U permC b` satisfies
`Σ_c A(i, c) x_c = b_i` for every row, where column `c` of A is column `permC[c]` of `A*Pc`. -/
theorem gstrsN_solves (P : Params K Rat) (st : St K) (hsq : P.m = P.n) (inv : Inv P st P.n)
    (hcol : ∀ j, (P.col j).size = P.m)
    (permC : Array Nat) (hpc : permC.size = P.n)
    (hperm : ((List.range P.n).map fun c => permC.getD c 0).Perm (List.range P.n))
    (b : Vec K) (hb : b.size = P.m) (i : Nat) (hi : i < P.m) :
    ∑ c ∈ range P.n, (P.col (permC.getD c 0)).get i * (gstrsN st.piv st.L st.U permC b).get c = b.get i := by
  obtain ⟨hs1, hs2, hs3⟩ := inv.sizes
  set n := P.n with hn
  -- the pieces of gstrsN
  have hprev : ((List.range st.piv.size).map fun k => (st.piv.getD k 0, st.L.getD k #[])) = prev st n := by
    rw [hs1]; rfl
  set y : List K := (elim (prev st n) b).2 with hy
  set w' := (elim (prev st n) b).1 with hw'
  set zs := backSub st.U y.toArray n n with hzs
  have hylen : y.length = n := by rw [hy, elim_length, prev_length]
  have hx : ∀ c < n, (gstrsN st.piv st.L st.U permC b).get c = zs.getD (permC.getD c 0) 0 := by
    intro c hc
    simp only [gstrsN, hprev, backSolve, hs3, Vec.get]
    rw [Array.getD_eq_getD_getElem?]
    simp [hpc, hc, ← hzs, ← hy, Array.getD, List.getD]
    split
    · rename_i hlt; simp [List.getElem?_eq_getElem hlt]
    · rename_i hge; simp [List.getElem?_eq_none (by omega : zs.length ≤ permC[c])]
  -- reindex the sum over original columns by the permutation
  have hre : ∑ c ∈ range n, (P.col (permC.getD c 0)).get i * (gstrsN st.piv st.L st.U permC b).get c
      = ∑ j ∈ range n, (P.col j).get i * zs.getD j 0 := by
    rw [Finset.sum_congr rfl (fun c hc => by rw [hx c (mem_range.mp hc)])]
    rw [← list_sum_range (fun c => (P.col (permC.getD c 0)).get i * zs.getD (permC.getD c 0) 0),
        ← list_sum_range (fun j => (P.col j).get i * zs.getD j 0)]
    have := List.Perm.map (fun j => (P.col j).get i * zs.getD j 0) hperm
    rw [List.map_map] at this
    exact List.Perm.sum_eq this
  rw [hre]
  -- LU identity in every column
  have hid : ∀ j < n, (P.col j).get i = ∑ k ∈ range (j + 1), (st.U.getD j #[]).getD k 0 * (st.L.getD k #[]).get i := by
    intro j hj
    rw [inv.ident j hj i hi, dotL_prev _ _ (j + 1) i (by rw [Array.length_toList]; exact inv.usize j hj), list_sum_range]
    apply Finset.sum_congr rfl
    intro t _
    congr 1
    generalize st.U.getD j #[] = a
    by_cases ht : t < a.size <;> simp [Array.getD, List.getD, ht]
  -- back substitution: rows of U z = y
  have hbs : ∀ k < n, ∑ j ∈ Ico k n, (st.U.getD j #[]).getD k 0 * zs.getD j 0 = y.getD k 0 := by
    intro k hk
    have := backSub_spec st.U y.toArray n (fun j hj => inv.udiag j hj) n (le_refl _) k hk
    simp only [Nat.sub_self, Nat.zero_add] at this
    rw [Finset.sum_Ico_eq_sum_range]
    rw [← hzs] at this
    have e : (y.toArray).getD k 0 = y.getD k 0 := by simp [Array.getD, List.getD]; split <;> simp_all
    rw [e] at this
    exact this
  -- forward elimination: b = Σ y_k L_k + w', and w' vanishes on every row
  have hfw : b.get i = (∑ k ∈ range n, y.getD k 0 * (st.L.getD k #[]).get i) + w'.get i := by
    have := elim_spec (prev st n) b i (by rw [hb]; exact hi)
    rw [this, dotL_prev _ _ n i hylen, list_sum_range]
  have hw0 : w'.get i = 0 := by
    obtain ⟨k, hk, hki⟩ := pivots_cover st.piv n hs1 inv.nodup (fun k hk => by rw [← hsq]; exact inv.prange k hk) i (by rw [← hsq]; exact hi)
    have hz := (elim_zero_at_pivots (prev st n) b inv.unit
      (by
        intro pl hpl
        obtain ⟨t, ht, rfl⟩ := mem_prev st n pl hpl
        rw [hb]; exact inv.prange t ht)
      [] (by simp) (by simp)).1
    have hmem : (st.piv.getD k 0, st.L.getD k #[]) ∈ prev st n := by
      simp only [prev, List.mem_map, List.mem_range]; exact ⟨k, hk, rfl⟩
    have := hz _ hmem
    simpa [hki] using this
  rw [hfw, hw0, add_zero]
  -- swap the triangular double sum
  calc ∑ j ∈ range n, (P.col j).get i * zs.getD j 0
      = ∑ j ∈ range n, ∑ k ∈ range (j + 1), ((st.U.getD j #[]).getD k 0 * (st.L.getD k #[]).get i) * zs.getD j 0 := by
        apply Finset.sum_congr rfl
        intro j hj
        rw [hid j (mem_range.mp hj), Finset.sum_mul]
    _ = ∑ k ∈ range n, ∑ j ∈ Ico k n, ((st.U.getD j #[]).getD k 0 * (st.L.getD k #[]).get i) * zs.getD j 0 := by
        apply Finset.sum_comm'
        intro j k
        simp only [mem_range, mem_Ico]
        omega
    _ = ∑ k ∈ range n, y.getD k 0 * (st.L.getD k #[]).get i := by
        apply Finset.sum_congr rfl
        intro k hk
        rw [← hbs k (mem_range.mp hk), Finset.sum_mul]
        apply Finset.sum_congr rfl
        intro j _
        ring

end Slu.LU
