import Slu.Model.SymbArrays
import Slu.Model.Struct
import Mathlib.Logic.Equiv.Defs
import Mathlib.Logic.Equiv.Basic
import Mathlib.Tactic.Linarith
import Mathlib.Data.List.Nodup
import Mathlib.Data.List.Range
/-
Lemmas about the array-level mirrors of [sdcz]pruneL / copy_to_ucol / snode_dfs (Slu/Model/SymbArrays.lean).

* `getD_swapAt`, `getD_swapAt_swap` — reading a swapped array;
* `PartOk`, `partLoop_ok`        — the quicksort-type partition of dpruneL.c:117-149 on `[lo, hi)` with fuel
                                    `≥ hi - lo`: result `p` with `lo ≤ p ≤ hi`, pivoted rows exactly on `[lo, p)`,
                                    the subscripts (and, when `movnum`, the values) permuted by ONE `σ : Equiv.Perm ℕ`
                                    that is the identity outside `[lo, hi)`, everything else untouched;
* `partLoop_fuel`                — more fuel changes nothing: the loop stops by its own test (termination);
* `partLoop_lead`                — a leading run of pivoted rows stays where it is;
* `snodeVisit_fold`, `snodeCols_fold` — the marker loop of dsnode_dfs.c appends `markerFilter rows acc`;
* `copySeg_spec`                 — the gather loop of dcopy_to_ucol.c.
-/
namespace Slu.SymbArr

theorem size_swapAt {α : Type} (a : Array α) (i j : Nat) (d : α) : (swapAt a i j d).size = a.size := by
  simp [swapAt]

theorem getD_swapAt {α : Type} (a : Array α) (i j k : Nat) (d : α) (hi : i < a.size) (hj : j < a.size) :
    (swapAt a i j d).getD k d = if k = j then a.getD i d else if k = i then a.getD j d else a.getD k d := by
  unfold swapAt
  simp only [Array.getD_eq_getD_getElem?, Array.getElem?_setIfInBounds, Array.size_setIfInBounds]
  by_cases h1 : k = j
  · subst h1; simp [hj]
  · by_cases h2 : k = i
    · subst h2; simp [hi, Ne.symm h1, h1]
    · simp [h1, h2, Ne.symm h1, Ne.symm h2]

/-- reading a swapped array = reading the original through the transposition -/
theorem getD_swapAt_swap {α : Type} (a : Array α) (i j k : Nat) (d : α) (hi : i < a.size) (hj : j < a.size) :
    (swapAt a i j d).getD k d = a.getD (Equiv.swap i j k) d := by
  rw [getD_swapAt a i j k d hi hj]
  by_cases h1 : k = j
  · subst h1; simp
  · by_cases h2 : k = i
    · subst h2; simp [h1]
    · simp [h1, h2, Equiv.swap_apply_of_ne_of_ne h2 h1]

/-- what the partition loop guarantees on `[lo, hi)` -/
structure PartOk {K : Type} (z : K) (permR : Array Int) (movnum : Bool) (xlu xl lo hi : Nat)
    (ls : Array Nat) (lu : Array K) (r : Nat × Array Nat × Array K) : Prop where
  lo_le : lo ≤ r.1
  le_hi : r.1 ≤ hi
  size_ls : r.2.1.size = ls.size
  size_lu : r.2.2.size = lu.size
  front : ∀ k, lo ≤ k → k < r.1 → pivoted permR (r.2.1.getD k 0) = true
  back : ∀ k, r.1 ≤ k → k < hi → pivoted permR (r.2.1.getD k 0) = false
  perm : ∃ σ : Equiv.Perm ℕ, (∀ k, k < lo ∨ hi ≤ k → σ k = k) ∧ (∀ k, lo ≤ k → k < hi → lo ≤ σ k ∧ σ k < hi) ∧
      (∀ k, r.2.1.getD k 0 = ls.getD (σ k) 0) ∧
      (movnum = true → ∀ k, lo ≤ k → k < hi → r.2.2.getD (xlu + (k - xl)) z = lu.getD (xlu + (σ k - xl)) z)
  lu_same : movnum = false → r.2.2 = lu
  lu_frame : ∀ q, q < xlu + (lo - xl) ∨ xlu + (hi - xl) ≤ q → r.2.2.getD q z = lu.getD q z

theorem partLoop_ok {K : Type} (z : K) (permR : Array Int) (movnum : Bool) (xlu xl : Nat) :
    ∀ (f lo hi : Nat) (ls : Array Nat) (lu : Array K), hi - lo ≤ f → xl ≤ lo → lo ≤ hi → hi ≤ ls.size →
      (movnum = true → xlu + (hi - xl) ≤ lu.size) →
      PartOk z permR movnum xlu xl lo hi ls lu (partLoop z permR movnum xlu xl f lo hi ls lu) := by
  intro f
  induction f with
  | zero =>
    intro lo hi ls lu hf hxl hle hsz hlu
    have : hi = lo := by omega
    subst this
    simp only [partLoop]
    exact ⟨le_refl _, le_refl _, rfl, rfl, fun k h1 h2 => by omega, fun k h1 h2 => by omega,
      ⟨Equiv.refl _, fun _ _ => rfl, fun k h1 h2 => by omega, fun _ => rfl, fun _ k h1 h2 => by omega⟩, fun _ => rfl, fun _ _ => rfl⟩
  | succ f ih =>
    intro lo hi ls lu hf hxl hle hsz hlu
    rw [partLoop]
    by_cases hlt : lo < hi
    · simp only [hlt, if_true]
      by_cases hA : pivoted permR (ls.getD (hi-1) 0) = true
      · simp only [hA, Bool.not_true, Bool.false_eq_true, if_false]
        by_cases hB : pivoted permR (ls.getD lo 0) = true
        · -- kmin++
          simp only [hB, if_true]
          have h := ih (lo+1) hi ls lu (by omega) (by omega) (by omega) hsz hlu
          obtain ⟨σ, s1, s2, s3, s4⟩ := h.perm
          have hσlo : σ lo = lo := s1 lo (Or.inl (by omega))
          refine ⟨by have := h.lo_le; omega, h.le_hi, h.size_ls, h.size_lu, ?_, h.back, ⟨σ, ?_, ?_, s3, ?_⟩, h.lu_same, ?_⟩
          · intro k h1 h2
            by_cases hk : k = lo
            · subst hk; rw [s3, hσlo]; exact hB
            · exact h.front k (by omega) h2
          · intro k hk; exact s1 k (by omega)
          · intro k h1 h2
            by_cases hk : k = lo
            · subst hk; rw [hσlo]; omega
            · have := s2 k (by omega) h2; omega
          · intro hm k h1 h2
            by_cases hk : k = lo
            · subst hk; rw [hσlo]; exact h.lu_frame _ (Or.inl (by omega))
            · exact s4 hm k (by omega) h2
          · intro q hq; exact h.lu_frame q (by omega)
        · -- swap
          have hBf : pivoted permR (ls.getD lo 0) = false := by simpa using hB
          simp only [hBf, Bool.false_eq_true, if_false]
          have hne : lo ≠ hi - 1 := by intro h; rw [← h] at hA; rw [hA] at hBf; exact Bool.noConfusion hBf
          have hl1 : lo < ls.size := by omega
          have hl2 : hi - 1 < ls.size := by omega
          have h := ih (lo+1) (hi-1) (swapAt ls lo (hi-1) 0)
            (if movnum = true then swapAt lu (xlu + (lo - xl)) (xlu + (hi-1 - xl)) z else lu)
            (by omega) (by omega) (by omega) (by rw [size_swapAt]; omega)
            (by intro hm; simp only [hm, if_true]; rw [size_swapAt]; have := hlu hm; omega)
          obtain ⟨σ, s1, s2, s3, s4⟩ := h.perm
          have hσlo : σ lo = lo := s1 lo (Or.inl (by omega))
          have hσhi : σ (hi-1) = hi-1 := s1 (hi-1) (Or.inr (by omega))
          refine ⟨by have := h.lo_le; omega, by have := h.le_hi; omega, by rw [h.size_ls, size_swapAt], ?_, ?_, ?_,
            ⟨σ.trans (Equiv.swap lo (hi-1)), ?_, ?_, ?_, ?_⟩, ?_, ?_⟩
          · rw [h.size_lu]; split <;> simp [size_swapAt]
          · intro k h1 h2
            by_cases hk : k = lo
            · subst hk; rw [s3, hσlo, getD_swapAt _ _ _ _ _ hl1 hl2, if_neg hne, if_pos rfl]; exact hA
            · exact h.front k (by omega) h2
          · intro k h1 h2
            by_cases hk : k = hi - 1
            · subst hk; rw [s3, hσhi, getD_swapAt _ _ _ _ _ hl1 hl2, if_pos rfl]; exact hBf
            · exact h.back k h1 (by omega)
          · intro k hk
            have : σ k = k := s1 k (by omega)
            simp only [Equiv.trans_apply, this]
            exact Equiv.swap_apply_of_ne_of_ne (by omega) (by omega)
          · intro k h1 h2
            simp only [Equiv.trans_apply]
            by_cases hk : k = lo
            · subst hk; rw [hσlo, Equiv.swap_apply_left]; omega
            · by_cases hk2 : k = hi - 1
              · subst hk2; rw [hσhi, Equiv.swap_apply_right]; omega
              · have := s2 k (by omega) (by omega)
                rw [Equiv.swap_apply_of_ne_of_ne (by omega) (by omega)]; omega
          · intro k; rw [s3, getD_swapAt_swap _ _ _ _ _ hl1 hl2]; rfl
          · intro hm k h1 h2
            have hq1 : xlu + (lo - xl) < lu.size := by have := hlu hm; omega
            have hq2 : xlu + (hi - 1 - xl) < lu.size := by have := hlu hm; omega
            subst hm
            simp only [↓reduceIte] at h s4 ⊢
            simp only [Equiv.trans_apply]
            by_cases hk : k = lo
            · subst hk
              rw [hσlo, Equiv.swap_apply_left, h.lu_frame _ (Or.inl (by omega)), getD_swapAt _ _ _ _ _ hq1 hq2]
              have : xlu + (k - xl) ≠ xlu + (hi - 1 - xl) := by omega
              rw [if_neg this, if_pos rfl]
            · by_cases hk2 : k = hi - 1
              · subst hk2
                rw [hσhi, Equiv.swap_apply_right, h.lu_frame _ (Or.inr (by omega)), getD_swapAt _ _ _ _ _ hq1 hq2, if_pos rfl]
              · have hr := s2 k (by omega) (by omega)
                rw [s4 trivial k (by omega) (by omega), Equiv.swap_apply_of_ne_of_ne (by omega) (by omega),
                  getD_swapAt _ _ _ _ _ hq1 hq2]
                have e1 : xlu + (σ k - xl) ≠ xlu + (hi - 1 - xl) := by omega
                have e2 : xlu + (σ k - xl) ≠ xlu + (lo - xl) := by omega
                rw [if_neg e1, if_neg e2]
          · intro hm; have := h.lu_same hm; simpa [hm] using this
          · intro q hq
            rw [h.lu_frame q (by omega)]
            by_cases hm : movnum = true
            · have hq1 : xlu + (lo - xl) < lu.size := by have := hlu hm; omega
              have hq2 : xlu + (hi - 1 - xl) < lu.size := by have := hlu hm; omega
              simp only [hm, if_true]
              rw [getD_swapAt _ _ _ _ _ hq1 hq2]
              have e1 : q ≠ xlu + (hi - 1 - xl) := by omega
              have e2 : q ≠ xlu + (lo - xl) := by omega
              rw [if_neg e1, if_neg e2]
            · simp [hm]
      · -- kmax--
        have hAf : pivoted permR (ls.getD (hi-1) 0) = false := by simpa using hA
        simp only [hAf, Bool.not_false, if_true]
        have h := ih lo (hi-1) ls lu (by omega) hxl (by omega) (by omega) (by intro hm; have := hlu hm; omega)
        obtain ⟨σ, s1, s2, s3, s4⟩ := h.perm
        have hσhi : σ (hi-1) = hi-1 := s1 (hi-1) (Or.inr (by omega))
        refine ⟨h.lo_le, by have := h.le_hi; omega, h.size_ls, h.size_lu, h.front, ?_, ⟨σ, ?_, ?_, s3, ?_⟩, h.lu_same, ?_⟩
        · intro k h1 h2
          by_cases hk : k = hi - 1
          · subst hk; rw [s3, hσhi]; exact hAf
          · exact h.back k h1 (by omega)
        · intro k hk; exact s1 k (by omega)
        · intro k h1 h2
          by_cases hk : k = hi - 1
          · subst hk; rw [hσhi]; omega
          · have := s2 k h1 (by omega); omega
        · intro hm k h1 h2
          by_cases hk : k = hi - 1
          · subst hk; rw [hσhi]; exact h.lu_frame _ (Or.inr (by omega))
          · exact s4 hm k h1 (by omega)
        · intro q hq; exact h.lu_frame q (by omega)
    · have : hi = lo := by omega
      subst this
      simp only [lt_irrefl, if_false]
      exact ⟨le_refl _, le_refl _, rfl, rfl, fun k h1 h2 => by omega, fun k h1 h2 => by omega,
        ⟨Equiv.refl _, fun _ _ => rfl, fun k h1 h2 => by omega, fun _ => rfl, fun _ k h1 h2 => by omega⟩, fun _ => rfl, fun _ _ => rfl⟩

/-- more fuel changes nothing: with `hi - lo ≤ f` the loop stops through `kmin <= kmax` failing -/
theorem partLoop_fuel {K : Type} (z : K) (permR : Array Int) (movnum : Bool) (xlu xl : Nat) :
    ∀ (f lo hi : Nat) (ls : Array Nat) (lu : Array K), hi - lo ≤ f →
      partLoop z permR movnum xlu xl (f+1) lo hi ls lu = partLoop z permR movnum xlu xl f lo hi ls lu := by
  intro f
  induction f with
  | zero =>
    intro lo hi ls lu hf
    have : ¬ lo < hi := by omega
    simp [partLoop, this]
  | succ f ih =>
    intro lo hi ls lu hf
    conv_lhs => rw [partLoop]
    conv_rhs => rw [partLoop]
    by_cases hlt : lo < hi
    · simp only [hlt, if_true]
      rw [ih lo (hi-1) ls lu (by omega), ih (lo+1) hi ls lu (by omega), ih (lo+1) (hi-1) _ _ (by omega)]
    · simp [hlt]

theorem partLoop_fuel_add {K : Type} (z : K) (permR : Array Int) (movnum : Bool) (xlu xl : Nat)
    (f g lo hi : Nat) (ls : Array Nat) (lu : Array K) (h : hi - lo ≤ f) :
    partLoop z permR movnum xlu xl (f+g) lo hi ls lu = partLoop z permR movnum xlu xl f lo hi ls lu := by
  induction g with
  | zero => rfl
  | succ g ih => rw [← Nat.add_assoc, partLoop_fuel _ _ _ _ _ _ _ _ _ _ (by omega), ih]

/-- a leading run of pivoted rows (the diagonal block) is left where it is, values included -/
theorem partLoop_lead {K : Type} (z : K) (permR : Array Int) (movnum : Bool) (xlu xl : Nat) :
    ∀ (f lo hi : Nat) (ls : Array Nat) (lu : Array K) (e : Nat), hi - lo ≤ f → xl ≤ lo → lo ≤ hi → hi ≤ ls.size →
      (movnum = true → xlu + (hi - xl) ≤ lu.size) →
      (∀ k, lo ≤ k → k < e → pivoted permR (ls.getD k 0) = true) →
      ∀ k, k < e →
        (partLoop z permR movnum xlu xl f lo hi ls lu).2.1.getD k 0 = ls.getD k 0 ∧
        (xl ≤ k → (partLoop z permR movnum xlu xl f lo hi ls lu).2.2.getD (xlu + (k - xl)) z = lu.getD (xlu + (k - xl)) z) := by
  intro f
  induction f with
  | zero => intro lo hi ls lu e _ _ _ _ _ _ k _; simp [partLoop]
  | succ f ih =>
    intro lo hi ls lu e hf hxl hle hsz hlu hlead k hk
    have hok := partLoop_ok z permR movnum xlu xl (f+1) lo hi ls lu hf hxl hle hsz hlu
    by_cases hklo : k < lo
    · obtain ⟨σ, s1, _, s3, _⟩ := hok.perm
      exact ⟨by rw [s3, s1 k (Or.inl hklo)], fun hx => hok.lu_frame _ (Or.inl (by omega))⟩
    · rw [partLoop]
      by_cases hlt : lo < hi
      · simp only [hlt, if_true]
        by_cases hA : pivoted permR (ls.getD (hi-1) 0) = true
        · simp only [hA, Bool.not_true, Bool.false_eq_true, if_false]
          have hB : pivoted permR (ls.getD lo 0) = true := hlead lo (le_refl _) (by omega)
          simp only [hB, if_true]
          by_cases hk2 : k = lo
          · subst hk2
            have hok2 := partLoop_ok z permR movnum xlu xl f (k+1) hi ls lu (by omega) (by omega) (by omega) hsz hlu
            obtain ⟨σ, s1, _, s3, _⟩ := hok2.perm
            exact ⟨by rw [s3, s1 k (Or.inl (by omega))], fun hx => hok2.lu_frame _ (Or.inl (by omega))⟩
          · exact ih (lo+1) hi ls lu e (by omega) (by omega) (by omega) hsz hlu
              (fun k' h1 h2 => hlead k' (by omega) h2) k hk
        · have hAf : pivoted permR (ls.getD (hi-1) 0) = false := by simpa using hA
          simp only [hAf, Bool.not_false, if_true]
          exact ih lo (hi-1) ls lu e (by omega) hxl (by omega) (by omega) (by intro hm; have := hlu hm; omega) hlead k hk
      · simp [hlt]

/-! ### dsnode_dfs.c -/
open Slu.Struct

/-- the subscripts `ls[first .. first+len)` as a list -/
def segList (ls : Array Nat) (first len : Nat) : List Nat := (List.range len).map (fun t => ls.getD (first + t) 0)

theorem segList_length (ls : Array Nat) (first len : Nat) : (segList ls first len).length = len := by simp [segList]

theorem segList_eq_of {ls : Array Nat} {first : Nat} {acc : List Nat}
    (h : ∀ t, t < acc.length → ls.getD (first + t) 0 = acc.getD t 0) : segList ls first acc.length = acc := by
  apply List.ext_getElem
  · simp [segList]
  · intro t h1 h2
    have := h t h2
    simp only [segList, List.getElem_map, List.getElem_range]
    rw [this]; simp [List.getD_eq_getElem?_getD, h2]

theorem markerFilter_length_le (rows acc : List Nat) : acc.length ≤ (markerFilter rows acc).length := by
  induction rows generalizing acc with
  | nil => simp [markerFilter]
  | cons r rs ih =>
    simp only [markerFilter]
    split
    · exact ih acc
    · have := ih (acc ++ [r]); simp at this; omega

theorem markerFilter_append (a b acc : List Nat) : markerFilter (a ++ b) acc = markerFilter b (markerFilter a acc) := by
  induction a generalizing acc with
  | nil => simp [markerFilter]
  | cons r rs ih =>
    simp only [List.cons_append, markerFilter]
    split <;> exact ih _

theorem getD_setIfInBounds {α : Type} (a : Array α) (i k : Nat) (v d : α) :
    (a.setIfInBounds i v).getD k d = if i = k ∧ i < a.size then v else a.getD k d := by
  simp only [Array.getD_eq_getD_getElem?, Array.getElem?_setIfInBounds]
  by_cases h : i = k
  · subst h; by_cases h2 : i < a.size <;> simp [h2]
  · simp [h]

/-- invariant of the marker loop of dsnode_dfs.c:86-96 -/
structure SnodeInv (kcol first m L : Nat) (ls0 : Array Nat) (mk0 : Array Int) (st : SnodeSt) (acc : List Nat) : Prop where
  nextl : st.nextl = first + acc.length
  seg : ∀ t, t < acc.length → st.lsub.getD (first + t) 0 = acc.getD t 0
  mark : ∀ r, r < m → (st.marker.getD r EMPTY = (kcol : Int) ↔ r ∈ acc)
  mark_else : ∀ r, r ∉ acc → st.marker.getD r EMPTY = mk0.getD r EMPTY
  msize : st.marker.size = m
  lsize : st.lsub.size = L
  frame : ∀ k, k < first ∨ first + acc.length ≤ k → st.lsub.getD k 0 = ls0.getD k 0

theorem snodeVisit_fold (kcol first m L : Nat) (ls0 : Array Nat) (mk0 : Array Int) :
    ∀ (rows : List Nat) (st : SnodeSt) (acc : List Nat), SnodeInv kcol first m L ls0 mk0 st acc →
      (∀ r ∈ rows, r < m) → first + (markerFilter rows acc).length ≤ L →
      SnodeInv kcol first m L ls0 mk0 (rows.foldl (snodeVisit kcol) st) (markerFilter rows acc) ∧
      (rows.foldl (snodeVisit kcol) st).supno = st.supno := by
  intro rows
  induction rows with
  | nil => intro st acc h _ _; exact ⟨by simpa [markerFilter] using h, rfl⟩
  | cons r rs ih =>
    intro st acc h hr hcap
    have hrm : r < m := hr r (List.mem_cons_self ..)
    simp only [List.foldl_cons, markerFilter] at hcap ⊢
    by_cases hc : acc.contains r = true
    · have hmem : r ∈ acc := by simpa using hc
      have hv : snodeVisit kcol st r = st := by
        unfold snodeVisit
        have := (h.mark r hrm).2 hmem
        simp [this]
      rw [hv]; simp only [hc, if_true] at hcap ⊢
      exact ih st acc h (fun x hx => hr x (List.mem_cons_of_mem _ hx)) hcap
    · have hmem : r ∉ acc := by simpa using hc
      simp only [hc, Bool.false_eq_true, if_false] at hcap ⊢
      have hlen := markerFilter_length_le rs (acc ++ [r])
      simp only [List.length_append, List.length_singleton] at hlen
      have hne : st.marker.getD r EMPTY ≠ (kcol : Int) := fun e => hmem ((h.mark r hrm).1 e)
      have hb : (st.marker.getD r EMPTY != (kcol : Int)) = true := by simpa [bne_iff_ne] using hne
      have hv : snodeVisit kcol st r = { st with marker := st.marker.setIfInBounds r kcol, lsub := st.lsub.setIfInBounds st.nextl r, nextl := st.nextl + 1 } := by
        unfold snodeVisit; rw [if_pos hb]
      rw [hv]
      have hnl : st.nextl < st.lsub.size := by rw [h.nextl, h.lsize]; omega
      have hinv : SnodeInv kcol first m L ls0 mk0 { st with marker := st.marker.setIfInBounds r kcol, lsub := st.lsub.setIfInBounds st.nextl r, nextl := st.nextl + 1 } (acc ++ [r]) := by
        refine ⟨by simp [h.nextl]; omega, ?_, ?_, ?_, by simp [h.msize], by simp [h.lsize], ?_⟩
        · intro t ht
          simp only [List.length_append, List.length_singleton] at ht
          show (st.lsub.setIfInBounds st.nextl r).getD (first + t) 0 = _
          rw [getD_setIfInBounds]
          by_cases e : t = acc.length
          · subst e
            rw [if_pos ⟨h.nextl, hnl⟩]
            simp [List.getD_eq_getElem?_getD]
          · have ht' : t < acc.length := by omega
            have hne2 : ¬ (st.nextl = first + t ∧ st.nextl < st.lsub.size) := by rw [h.nextl]; omega
            rw [if_neg hne2, h.seg t ht']
            simp [List.getD_eq_getElem?_getD, List.getElem?_append_left ht']
        · intro r' hr'
          show (st.marker.setIfInBounds r kcol).getD r' EMPTY = _ ↔ _
          rw [getD_setIfInBounds]
          simp only [List.mem_append, List.mem_singleton]
          by_cases e : r = r'
          · subst e; rw [if_pos ⟨rfl, by rw [h.msize]; exact hrm⟩]; simp
          · rw [if_neg (fun hh => e hh.1), h.mark r' hr']
            constructor
            · intro h1; exact Or.inl h1
            · rintro (h1 | h1); exact h1; exact absurd h1.symm e
        · intro r' hr'
          simp only [List.mem_append, List.mem_singleton, not_or] at hr'
          show (st.marker.setIfInBounds r kcol).getD r' EMPTY = _
          rw [getD_setIfInBounds, if_neg (fun hh => hr'.2 hh.1.symm)]
          exact h.mark_else r' hr'.1
        · intro k hk
          simp only [List.length_append, List.length_singleton] at hk
          show (st.lsub.setIfInBounds st.nextl r).getD k 0 = _
          rw [getD_setIfInBounds, if_neg (by rw [h.nextl]; omega)]
          exact h.frame k (by omega)
      have := ih _ (acc ++ [r]) hinv (fun x hx => hr x (List.mem_cons_of_mem _ hx)) hcap
      exact ⟨this.1, this.2⟩

theorem snodeVisit_fold_supno (kcol : Nat) (rows : List Nat) (st : SnodeSt) :
    (rows.foldl (snodeVisit kcol) st).supno = st.supno := by
  induction rows generalizing st with
  | nil => rfl
  | cons r rs ih => rw [List.foldl_cons, ih]; unfold snodeVisit; split <;> rfl

theorem snodeCols_fold (kcol first m L : Nat) (ls0 : Array Nat) (mk0 : Array Int) (nsuper : Int) (asub xaB xaE : Array Nat) :
    ∀ (cols : List Nat) (st : SnodeSt) (acc : List Nat), SnodeInv kcol first m L ls0 mk0 st acc →
      (∀ i ∈ cols, ∀ r ∈ colRows asub xaB xaE i, r < m) →
      first + (markerFilter (cols.flatMap (colRows asub xaB xaE)) acc).length ≤ L →
      SnodeInv kcol first m L ls0 mk0 (cols.foldl (snodeCol kcol nsuper asub xaB xaE) st)
        (markerFilter (cols.flatMap (colRows asub xaB xaE)) acc) := by
  intro cols
  induction cols with
  | nil => intro st acc h _ _; simpa [markerFilter] using h
  | cons i is ih =>
    intro st acc h hr hcap
    simp only [List.flatMap_cons, markerFilter_append, List.foldl_cons] at hcap ⊢
    have hle := markerFilter_length_le (is.flatMap (colRows asub xaB xaE)) (markerFilter (colRows asub xaB xaE i) acc)
    have h1 := (snodeVisit_fold kcol first m L ls0 mk0 (colRows asub xaB xaE i) st acc h
      (hr i (List.mem_cons_self ..)) (by omega)).1
    have h2 : SnodeInv kcol first m L ls0 mk0 (snodeCol kcol nsuper asub xaB xaE st i) (markerFilter (colRows asub xaB xaE i) acc) :=
      ⟨h1.nextl, h1.seg, h1.mark, h1.mark_else, h1.msize, h1.lsize, h1.frame⟩
    exact ih _ _ h2 (fun j hj => hr j (List.mem_cons_of_mem _ hj)) hcap

theorem snodeCols_fold_supno (kcol : Nat) (nsuper : Int) (asub xaB xaE : Array Nat) (cols : List Nat) (st : SnodeSt) :
    (cols.foldl (snodeCol kcol nsuper asub xaB xaE) st).supno = cols.foldl (fun s i => s.setIfInBounds i nsuper) st.supno := by
  induction cols generalizing st with
  | nil => rfl
  | cons i is ih =>
    rw [List.foldl_cons, List.foldl_cons, ih]
    show List.foldl _ (((colRows asub xaB xaE i).foldl (snodeVisit kcol) st).supno.setIfInBounds i nsuper) is = _
    rw [snodeVisit_fold_supno]

theorem copyDup_spec : ∀ (n ifrom ito : Nat) (ls : Array Nat), ifrom + n ≤ ito → ito + n ≤ ls.size →
    (copyDup n ifrom ito ls).size = ls.size ∧
    ∀ k, (copyDup n ifrom ito ls).getD k 0 = if ito ≤ k ∧ k < ito + n then ls.getD (ifrom + (k - ito)) 0 else ls.getD k 0 := by
  intro n
  induction n with
  | zero => intro ifrom ito ls _ _; simp [copyDup]
  | succ n ih =>
    intro ifrom ito ls h1 h2
    rw [copyDup]
    have := ih (ifrom+1) (ito+1) (ls.setIfInBounds ito (ls.getD ifrom 0)) (by omega) (by simp; omega)
    refine ⟨by rw [this.1]; simp, ?_⟩
    intro k
    rw [this.2 k]
    by_cases hk : ito + 1 ≤ k ∧ k < ito + 1 + n
    · rw [if_pos hk, if_pos (by omega), getD_setIfInBounds, if_neg (by omega)]
      congr 1; omega
    · rw [if_neg hk, getD_setIfInBounds]
      by_cases hk2 : k = ito
      · subst hk2; rw [if_pos ⟨rfl, by omega⟩, if_pos (by omega)]; simp
      · rw [if_neg (by omega), if_neg (by omega)]

/-- all subscripts of columns `jcol..kcol` of A in the order dsnode_dfs.c visits them -/
def snodeRows (jcol kcol : Nat) (asub xaB xaE : Array Nat) : List Nat :=
  (List.range' jcol (kcol + 1 - jcol)).flatMap (colRows asub xaB xaE)

/-- decidable well-formedness of a call of `snodeDfs` -/
structure SnodeWf (jcol kcol : Nat) (asub xaB xaE : Array Nat) (marker : Array Int) (lsub xlsub xprune : Array Nat) : Prop where
  le : jcol ≤ kcol
  rows_lt : ∀ i ∈ List.range' jcol (kcol + 1 - jcol), ∀ r ∈ colRows asub xaB xaE i, r < marker.size
  fresh : ∀ x ∈ marker.toList, x ≠ (kcol : Int)
  cap : xlsub.getD jcol 0 + (if jcol < kcol then 2 else 1) * (markerFilter (snodeRows jcol kcol asub xaB xaE) []).length ≤ lsub.size
  xl : kcol + 1 < xlsub.size
  xp : kcol < xprune.size

instance (jcol kcol : Nat) (asub xaB xaE : Array Nat) (marker : Array Int) (lsub xlsub xprune : Array Nat) :
    Decidable (SnodeWf jcol kcol asub xaB xaE marker lsub xlsub xprune) :=
  decidable_of_iff (jcol ≤ kcol ∧ (∀ i ∈ List.range' jcol (kcol + 1 - jcol), ∀ r ∈ colRows asub xaB xaE i, r < marker.size) ∧
    (∀ x ∈ marker.toList, x ≠ (kcol : Int)) ∧
    xlsub.getD jcol 0 + (if jcol < kcol then 2 else 1) * (markerFilter (snodeRows jcol kcol asub xaB xaE) []).length ≤ lsub.size ∧
    kcol + 1 < xlsub.size ∧ kcol < xprune.size)
    ⟨fun ⟨a, b, c, d, e, f⟩ => ⟨a, b, c, d, e, f⟩, fun ⟨a, b, c, d, e, f⟩ => ⟨a, b, c, d, e, f⟩⟩

/-- the state after the marker loop of `snodeDfs` -/
def snodeLoop (jcol kcol : Nat) (asub xaB xaE : Array Nat) (marker : Array Int) (supno : Array Int) (lsub xlsub : Array Nat) : SnodeSt :=
  (List.range' jcol (kcol + 1 - jcol)).foldl (snodeCol kcol (supno.getD jcol 0 + 1) asub xaB xaE)
    { marker := marker, lsub := lsub, nextl := xlsub.getD jcol 0, supno := supno.setIfInBounds jcol (supno.getD jcol 0 + 1) }

theorem snodeLoop_inv {jcol kcol : Nat} {asub xaB xaE : Array Nat} {marker : Array Int} {lsub xlsub xprune : Array Nat}
    (supno : Array Int) (h : SnodeWf jcol kcol asub xaB xaE marker lsub xlsub xprune) :
    SnodeInv kcol (xlsub.getD jcol 0) marker.size lsub.size lsub marker
      (snodeLoop jcol kcol asub xaB xaE marker supno lsub xlsub) (markerFilter (snodeRows jcol kcol asub xaB xaE) []) := by
  apply snodeCols_fold
  · refine ⟨rfl, fun t ht => by simp at ht, ?_, fun _ _ => rfl, rfl, rfl, fun _ _ => rfl⟩
    intro r hr
    have : marker.getD r EMPTY ∈ marker.toList := by
      simp only [Array.getD_eq_getD_getElem?, Array.getElem?_eq_getElem hr, Option.getD_some]
      exact Array.getElem_mem_toList hr
    simp only [List.not_mem_nil, iff_false]
    exact h.fresh _ this
  · exact h.rows_lt
  · have := h.cap
    unfold snodeRows at this
    split at this <;> omega

theorem snodeDfs_unfold (jcol kcol : Nat) (asub xaB xaE xprune : Array Nat) (marker : Array Int)
    (xsup : Array Nat) (supno : Array Int) (lsub xlsub : Array Nat) :
    let st := snodeLoop jcol kcol asub xaB xaE marker supno lsub xlsub
    let first := xlsub.getD jcol 0
    let o := snodeDfs jcol kcol asub xaB xaE xprune marker xsup supno lsub xlsub
    o.marker = st.marker ∧
    o.lsub = (if jcol < kcol then copyDup (st.nextl - first) first st.nextl st.lsub else st.lsub) ∧
    o.xlsub = ((if jcol < kcol then (List.range' (jcol+1) (kcol - jcol)).foldl (fun x i => x.setIfInBounds i st.nextl) xlsub else xlsub).setIfInBounds (kcol+1)
        (if jcol < kcol then st.nextl + (st.nextl - first) else st.nextl)) ∧
    o.xprune = xprune.setIfInBounds kcol (if jcol < kcol then st.nextl + (st.nextl - first) else st.nextl) ∧
    o.supno = st.supno.setIfInBounds (kcol+1) (supno.getD jcol 0 + 1) ∧
    o.xsup = xsup.setIfInBounds (supno.getD jcol 0 + 1 + 1).toNat (kcol+1) := by
  by_cases h : jcol < kcol <;> simp [snodeDfs, snodeLoop, h]

theorem foldl_setRange_getD {α : Type} (v d : α) : ∀ (n a : Nat) (x : Array α) (k : Nat),
    ((List.range' a n).foldl (fun x i => x.setIfInBounds i v) x).getD k d =
      if a ≤ k ∧ k < a + n ∧ k < x.size then v else x.getD k d := by
  intro n
  induction n with
  | zero => intro a x k; rw [if_neg (by omega)]; rfl
  | succ n ih =>
    intro a x k
    rw [List.range'_succ, List.foldl_cons, ih, getD_setIfInBounds, Array.size_setIfInBounds]
    by_cases h1 : a = k
    · subst h1
      by_cases h2 : a < x.size
      · simp [h2]
      · simp [h2]
    · by_cases h2 : a + 1 ≤ k ∧ k < a + 1 + n ∧ k < x.size
      · rw [if_pos h2, if_pos (by omega)]
      · rw [if_neg h2, if_neg (by omega), if_neg (by omega)]

theorem foldl_setRange_size {α : Type} (v : α) : ∀ (n a : Nat) (x : Array α),
    ((List.range' a n).foldl (fun x i => x.setIfInBounds i v) x).size = x.size := by
  intro n
  induction n with
  | zero => intro a x; simp
  | succ n ih => intro a x; rw [List.range'_succ, List.foldl_cons, ih]; simp

/-- everything `snodeDfs` guarantees about subscripts and pointers -/
theorem snodeDfs_main {jcol kcol : Nat} {asub xaB xaE : Array Nat} {marker : Array Int} {lsub xlsub xprune : Array Nat}
    (xsup : Array Nat) (supno : Array Int) (h : SnodeWf jcol kcol asub xaB xaE marker lsub xlsub xprune) :
    let U := markerFilter (snodeRows jcol kcol asub xaB xaE) []
    let first := xlsub.getD jcol 0
    let stop := first + (if jcol < kcol then 2 else 1) * U.length
    let o := snodeDfs jcol kcol asub xaB xaE xprune marker xsup supno lsub xlsub
    segList o.lsub first U.length = U ∧
    (jcol < kcol → segList o.lsub (first + U.length) U.length = U) ∧
    o.lsub.size = lsub.size ∧
    (∀ k, k < first ∨ stop ≤ k → o.lsub.getD k 0 = lsub.getD k 0) ∧
    o.xlsub.getD (kcol+1) 0 = stop ∧ o.xprune.getD kcol 0 = stop ∧
    (∀ i, jcol < i → i ≤ kcol → o.xlsub.getD i 0 = first + U.length) ∧
    (∀ i, i ≤ jcol ∨ kcol + 1 < i → o.xlsub.getD i 0 = xlsub.getD i 0) ∧
    (∀ r, r < marker.size → (o.marker.getD r EMPTY = (kcol : Int) ↔ r ∈ U)) ∧
    (∀ r, r ∉ U → o.marker.getD r EMPTY = marker.getD r EMPTY) := by
  intro U first stop o
  have inv := snodeLoop_inv supno h
  obtain ⟨e1, e2, e3, e4, _, _⟩ := snodeDfs_unfold jcol kcol asub xaB xaE xprune marker xsup supno lsub xlsub
  have hn : (snodeLoop jcol kcol asub xaB xaE marker supno lsub xlsub).nextl = first + U.length := inv.nextl
  have hcap := h.cap
  have hUl : U.length = (markerFilter (snodeRows jcol kcol asub xaB xaE) []).length := rfl
  by_cases hjk : jcol < kcol
  · simp only [hjk, if_true] at e2 e3 e4 hcap
    rw [hn, show first + U.length - first = U.length by omega] at e2 e3 e4
    have hcd := copyDup_spec U.length first (first + U.length) (snodeLoop jcol kcol asub xaB xaE marker supno lsub xlsub).lsub
      (le_refl _) (by rw [inv.lsize]; show first + U.length + U.length ≤ lsub.size; change first + 2 * U.length ≤ lsub.size at hcap; omega)
    have hstop : stop = first + U.length + U.length := by show first + (if jcol < kcol then 2 else 1) * U.length = _; rw [if_pos hjk]; omega
    refine ⟨?_, ?_, ?_, ?_, ?_, ?_, ?_, ?_, ?_, ?_⟩
    · apply segList_eq_of; intro t ht
      show o.lsub.getD _ _ = _
      rw [e2, hcd.2, if_neg (by omega)]; exact inv.seg t ht
    · intro _; apply segList_eq_of; intro t ht
      show o.lsub.getD _ _ = _
      rw [e2, hcd.2, if_pos (by omega), show first + (first + U.length + t - (first + U.length)) = first + t by omega]
      exact inv.seg t ht
    · show o.lsub.size = _; rw [e2, hcd.1, inv.lsize]
    · intro k hk
      show o.lsub.getD _ _ = _
      rw [e2, hcd.2, if_neg (by omega)]; exact inv.frame k (by omega)
    · show o.xlsub.getD _ _ = _
      rw [e3, getD_setIfInBounds, if_pos ⟨rfl, by rw [foldl_setRange_size]; exact h.xl⟩]; omega
    · show o.xprune.getD _ _ = _
      rw [e4, getD_setIfInBounds, if_pos ⟨rfl, h.xp⟩]; omega
    · intro i h1 h2
      show o.xlsub.getD _ _ = _
      rw [e3, getD_setIfInBounds, if_neg (by omega), foldl_setRange_getD, if_pos ⟨by omega, by omega, by have := h.xl; omega⟩]
    · intro i hi
      show o.xlsub.getD _ _ = _
      rw [e3, getD_setIfInBounds, if_neg (by omega), foldl_setRange_getD, if_neg (by omega)]
    · intro r hr; show o.marker.getD _ _ = _ ↔ _; rw [e1]; exact inv.mark r hr
    · intro r hr; show o.marker.getD _ _ = _; rw [e1]; exact inv.mark_else r hr
  · simp only [hjk, if_false] at e2 e3 e4 hcap
    have hstop : stop = first + U.length := by show first + (if jcol < kcol then 2 else 1) * U.length = _; rw [if_neg hjk]; omega
    refine ⟨?_, fun hh => absurd hh hjk, ?_, ?_, ?_, ?_, ?_, ?_, ?_, ?_⟩
    · apply segList_eq_of; intro t ht
      show o.lsub.getD _ _ = _
      rw [e2]; exact inv.seg t ht
    · show o.lsub.size = _; rw [e2, inv.lsize]
    · intro k hk
      show o.lsub.getD _ _ = _
      rw [e2]; exact inv.frame k (by omega)
    · show o.xlsub.getD _ _ = _
      rw [e3, getD_setIfInBounds, if_pos ⟨rfl, h.xl⟩, hn, hstop]
    · show o.xprune.getD _ _ = _
      rw [e4, getD_setIfInBounds, if_pos ⟨rfl, h.xp⟩, hn, hstop]
    · intro i h1 h2; have := h.le; omega
    · intro i hi
      show o.xlsub.getD _ _ = _
      rw [e3, getD_setIfInBounds, if_neg (by have := h.le; omega)]
    · intro r hr; show o.marker.getD _ _ = _ ↔ _; rw [e1]; exact inv.mark r hr
    · intro r hr; show o.marker.getD _ _ = _; rw [e1]; exact inv.mark_else r hr

/-! ### dpruneL.c: one representative -/

/-- `movnum`: the supernode of `irep` has a single column (`irep == xsup[supno[irep]]`, dpruneL.c:114) -/
def movnumOf (a : PruneArgs) (irep : Nat) : Bool := a.xsup.getD (a.supno.getD irep 0).toNat 0 == irep

/-- decidable well-formedness of one representative: its segment lies inside `lsub`, its values inside `lusup` -/
structure PruneWf (a : PruneArgs) (lsubSize lusupSize xpruneSize irep : Nat) : Prop where
  mono : a.xlsub.getD irep 0 ≤ a.xlsub.getD (irep+1) 0
  inb : a.xlsub.getD (irep+1) 0 ≤ lsubSize
  xp : irep < xpruneSize
  lu : movnumOf a irep = true → a.xlusup.getD irep 0 + (a.xlsub.getD (irep+1) 0 - a.xlsub.getD irep 0) ≤ lusupSize

instance (a : PruneArgs) (s1 s2 s3 irep : Nat) : Decidable (PruneWf a s1 s2 s3 irep) :=
  decidable_of_iff (a.xlsub.getD irep 0 ≤ a.xlsub.getD (irep+1) 0 ∧ a.xlsub.getD (irep+1) 0 ≤ s1 ∧ irep < s3 ∧
      (movnumOf a irep = true → a.xlusup.getD irep 0 + (a.xlsub.getD (irep+1) 0 - a.xlsub.getD irep 0) ≤ s2))
    ⟨fun ⟨a, b, c, d⟩ => ⟨a, b, c, d⟩, fun ⟨a, b, c, d⟩ => ⟨a, b, c, d⟩⟩

/-- does this turn of the loop partition `irep`'s list -/
def prunes {K : Type} (a : PruneArgs) (st : PruneSt K) (irep : Nat) : Bool :=
  eligible a irep && doPrune a st.lsub st.xprune irep

theorem pruneStep_eq {K : Type} (z : K) (a : PruneArgs) (st : PruneSt K) (i : Nat) :
    pruneStep z a st i = if prunes a st (a.segrep.getD i 0) then pruneOne z a st (a.segrep.getD i 0) else st := by
  unfold pruneStep prunes
  dsimp only
  generalize a.segrep.getD i 0 = irep
  cases eligible a irep <;> cases doPrune a st.lsub st.xprune irep <;> rfl

theorem pruneOne_ok {K : Type} (z : K) (a : PruneArgs) (st : PruneSt K) (irep : Nat)
    (h : PruneWf a st.lsub.size st.lusup.size st.xprune.size irep) :
    PartOk z a.permR (movnumOf a irep) (a.xlusup.getD irep 0) (a.xlsub.getD irep 0) (a.xlsub.getD irep 0) (a.xlsub.getD (irep+1) 0)
      st.lsub st.lusup ((pruneOne z a st irep).xprune.getD irep 0, (pruneOne z a st irep).lsub, (pruneOne z a st irep).lusup) ∧
    (pruneOne z a st irep).xprune.size = st.xprune.size ∧
    ∀ j, j ≠ irep → (pruneOne z a st irep).xprune.getD j 0 = st.xprune.getD j 0 := by
  have hok := partLoop_ok z a.permR (movnumOf a irep) (a.xlusup.getD irep 0) (a.xlsub.getD irep 0)
    (a.xlsub.getD (irep+1) 0 - a.xlsub.getD irep 0) (a.xlsub.getD irep 0) (a.xlsub.getD (irep+1) 0) st.lsub st.lusup
    (le_refl _) (le_refl _) h.mono h.inb (fun hm => by have := h.lu hm; omega)
  refine ⟨?_, by simp [pruneOne], ?_⟩
  · have e : (pruneOne z a st irep).xprune.getD irep 0 = (partLoop z a.permR (movnumOf a irep) (a.xlusup.getD irep 0) (a.xlsub.getD irep 0)
        (a.xlsub.getD (irep+1) 0 - a.xlsub.getD irep 0) (a.xlsub.getD irep 0) (a.xlsub.getD (irep+1) 0) st.lsub st.lusup).1 := by
      show (st.xprune.setIfInBounds irep _).getD irep 0 = _
      rw [getD_setIfInBounds, if_pos ⟨rfl, h.xp⟩]; rfl
    rw [e]; exact hok
  · intro j hj
    show (st.xprune.setIfInBounds irep _).getD j 0 = _
    rw [getD_setIfInBounds, if_neg (fun hh => hj hh.1.symm)]

/-! ### dcopy_to_ucol.c -/

theorem segList_succ (ls : Array Nat) (first n : Nat) :
    segList ls first (n+1) = ls.getD first 0 :: segList ls (first+1) n := by
  simp only [segList, List.range_succ_eq_map, List.map_cons, List.map_map, Nat.add_zero]
  congr 1
  apply List.map_congr_left; intro t _; simp only [Function.comp]; congr 1; omega

/-- invariant of the gather loops of dcopy_to_ucol.c: `R` = the rows gathered so far, in order -/
structure UcolInv {K : Type} (z : K) (permR : Array Int) (nextu0 : Nat) (usub0 : Array Int) (ucol0 dense0 : Array K)
    (st : UcolSt K) (R : List Nat) : Prop where
  nextu : st.nextu = nextu0 + R.length
  szU : st.usub.size = usub0.size
  szC : st.ucol.size = ucol0.size
  szD : st.dense.size = dense0.size
  usub : ∀ t, t < R.length → st.usub.getD (nextu0 + t) 0 = permR.getD (R.getD t 0) EMPTY
  ucol : ∀ t, t < R.length → st.ucol.getD (nextu0 + t) z = if R.getD t 0 ∈ R.take t then z else dense0.getD (R.getD t 0) z
  dense : ∀ r, st.dense.getD r z = if r ∈ R then z else dense0.getD r z
  frame : ∀ k, k < nextu0 ∨ nextu0 + R.length ≤ k → st.usub.getD k 0 = usub0.getD k 0 ∧ st.ucol.getD k z = ucol0.getD k z

theorem ucolInv_push {K : Type} (z : K) (permR : Array Int) (nextu0 : Nat) (usub0 : Array Int) (ucol0 dense0 : Array K)
    (st : UcolSt K) (R : List Nat) (irow : Nat) (h : UcolInv z permR nextu0 usub0 ucol0 dense0 st R)
    (hr : irow < dense0.size) (hu : nextu0 + R.length < usub0.size) (hc : nextu0 + R.length < ucol0.size) :
    UcolInv z permR nextu0 usub0 ucol0 dense0
      { nextu := st.nextu + 1, usub := st.usub.setIfInBounds st.nextu (permR.getD irow EMPTY),
        ucol := st.ucol.setIfInBounds st.nextu (st.dense.getD irow z), dense := st.dense.setIfInBounds irow z } (R ++ [irow]) := by
  have hn := h.nextu
  refine ⟨by simp [hn]; omega, by simp [h.szU], by simp [h.szC], by simp [h.szD], ?_, ?_, ?_, ?_⟩
  · intro t ht
    simp only [List.length_append, List.length_singleton] at ht
    show (st.usub.setIfInBounds st.nextu _).getD _ _ = _
    rw [getD_setIfInBounds]
    by_cases e : t = R.length
    · subst e; rw [if_pos ⟨hn, by rw [h.szU, hn]; exact hu⟩]; simp [List.getD_eq_getElem?_getD]
    · have ht' : t < R.length := by omega
      rw [if_neg (by rw [hn]; omega), h.usub t ht']
      simp [List.getD_eq_getElem?_getD, List.getElem?_append_left ht']
  · intro t ht
    simp only [List.length_append, List.length_singleton] at ht
    show (st.ucol.setIfInBounds st.nextu _).getD _ _ = _
    rw [getD_setIfInBounds]
    by_cases e : t = R.length
    · subst e; rw [if_pos ⟨hn, by rw [h.szC, hn]; exact hc⟩, h.dense]
      simp [List.getD_eq_getElem?_getD]
    · have ht' : t < R.length := by omega
      rw [if_neg (by rw [hn]; omega), h.ucol t ht']
      have e1 : (R ++ [irow]).getD t 0 = R.getD t 0 := by simp [List.getD_eq_getElem?_getD, List.getElem?_append_left ht']
      have e2 : (R ++ [irow]).take t = R.take t := by rw [List.take_append_of_le_length (by omega)]
      rw [e1, e2]
  · intro r
    show (st.dense.setIfInBounds irow z).getD r z = _
    rw [getD_setIfInBounds, h.dense]
    simp only [List.mem_append, List.mem_singleton]
    by_cases e : irow = r
    · subst e; rw [if_pos ⟨rfl, by rw [h.szD]; exact hr⟩, if_pos (Or.inr rfl)]
    · rw [if_neg (fun hh => e hh.1)]
      by_cases e2 : r ∈ R
      · rw [if_pos e2, if_pos (Or.inl e2)]
      · rw [if_neg e2, if_neg (by rintro (h1 | h1); exact e2 h1; exact e h1.symm)]
  · intro k hk
    simp only [List.length_append, List.length_singleton] at hk
    show (st.usub.setIfInBounds st.nextu _).getD k 0 = _ ∧ (st.ucol.setIfInBounds st.nextu _).getD k z = _
    rw [getD_setIfInBounds, getD_setIfInBounds, if_neg (by rw [hn]; omega), if_neg (by rw [hn]; omega)]
    exact h.frame k (by omega)

theorem copySeg_inv {K : Type} (z : K) (permR : Array Int) (lsub : Array Nat) (nextu0 : Nat) (usub0 : Array Int) (ucol0 dense0 : Array K) :
    ∀ (n isub : Nat) (st : UcolSt K) (R : List Nat), UcolInv z permR nextu0 usub0 ucol0 dense0 st R →
      (∀ r ∈ segList lsub isub n, r < dense0.size) → nextu0 + R.length + n ≤ usub0.size → nextu0 + R.length + n ≤ ucol0.size →
      UcolInv z permR nextu0 usub0 ucol0 dense0 (copySeg z permR lsub n isub st) (R ++ segList lsub isub n) := by
  intro n
  induction n with
  | zero => intro isub st R h _ _ _; simpa [copySeg, segList] using h
  | succ n ih =>
    intro isub st R h hr hu hc
    rw [copySeg, segList_succ]
    rw [segList_succ] at hr
    have h1 := ucolInv_push z permR nextu0 usub0 ucol0 dense0 st R (lsub.getD isub 0) h
      (hr _ (List.mem_cons_self ..)) (by omega) (by omega)
    have := ih (isub+1) _ (R ++ [lsub.getD isub 0]) h1 (fun r hr' => hr r (List.mem_cons_of_mem _ hr'))
      (by simp; omega) (by simp; omega)
    simpa [List.append_assoc] using this

/-- the rows of the U-segment of `krep` (`lsub[isub .. isub+segsze)`, dcopy_to_ucol.c:80-82), `[]` when it is skipped -/
def ucolRows (a : UcolArgs) (krep : Nat) : List Nat :=
  if ucolKeeps a krep then
    segList a.lsub (a.xlsub.getD (a.xsup.getD (a.supno.getD krep 0).toNat 0) 0 + (a.repfnz.getD krep EMPTY).toNat
        - a.xsup.getD (a.supno.getD krep 0).toNat 0) (krep - (a.repfnz.getD krep EMPTY).toNat + 1)
  else []

/-- all rows gathered by the call, in order: segments in the order `segrep[nseg-1], …, segrep[0]` -/
def ucolAllRows (a : UcolArgs) : List Nat :=
  (List.range a.nseg).flatMap (fun ksub => ucolRows a (a.segrep.getD (a.nseg - 1 - ksub) 0))

theorem ucolStep_inv {K : Type} (z : K) (a : UcolArgs) (nextu0 : Nat) (usub0 : Array Int) (ucol0 dense0 : Array K)
    (st : UcolSt K) (R : List Nat) (ksub : Nat) (h : UcolInv z a.permR nextu0 usub0 ucol0 dense0 st R)
    (hr : ∀ r ∈ ucolRows a (a.segrep.getD (a.nseg - 1 - ksub) 0), r < dense0.size)
    (hu : nextu0 + R.length + (ucolRows a (a.segrep.getD (a.nseg - 1 - ksub) 0)).length ≤ usub0.size)
    (hc : nextu0 + R.length + (ucolRows a (a.segrep.getD (a.nseg - 1 - ksub) 0)).length ≤ ucol0.size) :
    UcolInv z a.permR nextu0 usub0 ucol0 dense0 (ucolStep z a st ksub) (R ++ ucolRows a (a.segrep.getD (a.nseg - 1 - ksub) 0)) := by
  unfold ucolStep ucolRows at *
  dsimp only at *
  generalize a.segrep.getD (a.nseg - 1 - ksub) 0 = krep at *
  by_cases hk : ucolKeeps a krep = true
  · simp only [hk, Bool.not_true, Bool.false_eq_true, if_false, if_true] at hr hu hc ⊢
    rw [segList_length] at hu hc
    exact copySeg_inv z a.permR a.lsub nextu0 usub0 ucol0 dense0 _ _ st R h hr hu hc
  · have hk' : ucolKeeps a krep = false := by simpa using hk
    simp only [hk', Bool.not_false, if_true, Bool.false_eq_true, if_false, List.append_nil]
    exact h

theorem ucolFold_inv {K : Type} (z : K) (a : UcolArgs) (nextu0 : Nat) (usub0 : Array Int) (ucol0 dense0 : Array K) :
    ∀ (ks : List Nat) (st : UcolSt K) (R : List Nat), UcolInv z a.permR nextu0 usub0 ucol0 dense0 st R →
      (∀ r ∈ ks.flatMap (fun ksub => ucolRows a (a.segrep.getD (a.nseg - 1 - ksub) 0)), r < dense0.size) →
      nextu0 + R.length + (ks.flatMap (fun ksub => ucolRows a (a.segrep.getD (a.nseg - 1 - ksub) 0))).length ≤ usub0.size →
      nextu0 + R.length + (ks.flatMap (fun ksub => ucolRows a (a.segrep.getD (a.nseg - 1 - ksub) 0))).length ≤ ucol0.size →
      UcolInv z a.permR nextu0 usub0 ucol0 dense0 (ks.foldl (ucolStep z a) st)
        (R ++ ks.flatMap (fun ksub => ucolRows a (a.segrep.getD (a.nseg - 1 - ksub) 0))) := by
  intro ks
  induction ks with
  | nil => intro st R h _ _ _; simpa using h
  | cons k ks ih =>
    intro st R h hr hu hc
    simp only [List.flatMap_cons, List.length_append, List.mem_append] at hr hu hc
    have h1 := ucolStep_inv z a nextu0 usub0 ucol0 dense0 st R k h (fun r hr' => hr r (Or.inl hr')) (by omega) (by omega)
    have := ih _ _ h1 (fun r hr' => hr r (Or.inr hr')) (by simp only [List.length_append]; omega) (by simp only [List.length_append]; omega)
    simpa [List.append_assoc] using this

/-- decidable well-formedness of a call of `copyToUcol`: capacity suffices, the gathered rows index `dense` -/
structure UcolWf (a : UcolArgs) (xusub : Array Nat) (usubSize ucolSize denseSize : Nat) : Prop where
  capU : xusub.getD a.jcol 0 + (ucolAllRows a).length ≤ usubSize
  capC : xusub.getD a.jcol 0 + (ucolAllRows a).length ≤ ucolSize
  rows : ∀ r ∈ ucolAllRows a, r < denseSize
  xu : a.jcol + 1 < xusub.size

instance (a : UcolArgs) (xusub : Array Nat) (s1 s2 s3 : Nat) : Decidable (UcolWf a xusub s1 s2 s3) :=
  decidable_of_iff (xusub.getD a.jcol 0 + (ucolAllRows a).length ≤ s1 ∧ xusub.getD a.jcol 0 + (ucolAllRows a).length ≤ s2 ∧
      (∀ r ∈ ucolAllRows a, r < s3) ∧ a.jcol + 1 < xusub.size)
    ⟨fun ⟨a, b, c, d⟩ => ⟨a, b, c, d⟩, fun ⟨a, b, c, d⟩ => ⟨a, b, c, d⟩⟩

theorem copyToUcol_inv {K : Type} (z : K) (a : UcolArgs) (xusub : Array Nat) (usub : Array Int) (ucol dense : Array K)
    (h : UcolWf a xusub usub.size ucol.size dense.size) :
    UcolInv z a.permR (xusub.getD a.jcol 0) usub ucol dense (copyToUcol z a xusub usub ucol dense).1 (ucolAllRows a) ∧
    (copyToUcol z a xusub usub ucol dense).2.getD (a.jcol+1) 0 = xusub.getD a.jcol 0 + (ucolAllRows a).length ∧
    (∀ k, k ≠ a.jcol + 1 → (copyToUcol z a xusub usub ucol dense).2.getD k 0 = xusub.getD k 0) := by
  have h0 : UcolInv z a.permR (xusub.getD a.jcol 0) usub ucol dense
      { nextu := xusub.getD a.jcol 0, usub := usub, ucol := ucol, dense := dense } [] :=
    ⟨rfl, rfl, rfl, rfl, fun t ht => by simp at ht, fun t ht => by simp at ht, fun r => by simp, fun _ _ => ⟨rfl, rfl⟩⟩
  have := ucolFold_inv z a (xusub.getD a.jcol 0) usub ucol dense (List.range a.nseg) _ [] h0 h.rows
    (by have := h.capU; simp only [List.length_nil, Nat.add_zero]; exact this) (by have := h.capC; simp only [List.length_nil, Nat.add_zero]; exact this)
  rw [List.nil_append] at this
  refine ⟨this, ?_, ?_⟩
  · show (xusub.setIfInBounds _ _).getD _ _ = _
    rw [getD_setIfInBounds, if_pos ⟨rfl, h.xu⟩]; exact this.nextu
  · intro k hk
    show (xusub.setIfInBounds _ _).getD _ _ = _
    rw [getD_setIfInBounds, if_neg (fun hh => hk hh.1.symm)]
end Slu.SymbArr
