import SluProofs.Lemmas.Solve
import SluProofs.Props.C02
import SluProofs.Props.C04
/-
C01 — Simple driver returns a solution of A*X = B.

Exact-arithmetic core of the property for the modelled driver `gssvGlue` (SRC/dgssv.c:209-236:
order columns, factor `A*Pc` with threshold pivoting, then permute / forward / back / permute):
whenever it reports `info = 0` for a square system, every returned column X_r satisfies the caller's
equations exactly, for every column permutation, every threshold, every candidate order, every
number of right-hand sides.  The floating-point statement of C01 (componentwise bound with the
returned factors) is then checked on the implementation's outputs in exact rationals on every run;
its rounding constants are cited, not proved (see level_note).

Row storage (SLU_NR): the driver factors Aᵀ and calls the transposed solve `gstrsT`; the
corresponding theorem is not proved here (goal kept below), that orientation is tied by the
per-run residual check only.
-/
namespace Slu.LU
open Slu Finset

variable {K : Type} [Field K] [Mag K Rat]

/-- **C01 (column storage).** `info = 0` ⇒ `A * X_r = B_r` for every right-hand side, where column
`c` of A is column `permC[c]` of the factored matrix `A*Pc`. -/
theorem gssv_solves (laws : MagLaws K) (P : Params K Rat) (hP : Legal P) (hsq : P.m = P.n)
    (permC : Array Nat) (hpc : permC.size = P.n)
    (hperm : ((List.range P.n).map fun c => permC.getD c 0).Perm (List.range P.n))
    (B : List (Vec K)) (hB : ∀ b ∈ B, b.size = P.m)
    (h : (gssvGlue P permC B).1 = 0) :
    (gssvGlue P permC B).2.length = B.length ∧
    ∀ r (hr : r < B.length) (i : Nat), i < P.m →
      ∑ c ∈ range P.n, (P.col (permC.getD c 0)).get i * (((gssvGlue P permC B).2.getD r #[]).get c) = (B[r]).get i := by
  unfold gssvGlue at h ⊢
  by_cases hz : (luFactor P false).info ≠ 0
  · simp [hz] at h
  · have h0 : (luFactor P false).info = 0 := by simpa using hz
    simp only [hz, if_false, List.length_map, true_and]
    intro r hr i hi
    have inv : Inv P (luFactor P false) P.n := by
      rw [luFactor_eq_run] at h0 ⊢
      exact run_inv laws P (le_of_lt hP.u_pos) hP.u_le_one hP.col_size false P.n h0
    have hbr : (B[r]).size = P.m := hB _ (List.getElem_mem hr)
    have := gstrsN_solves P (luFactor P false) hsq inv hP.col_size permC hpc hperm (B[r]) hbr i hi
    simpa [List.getD, hr] using this

/-- **C01 (failure leaves B alone).** restated from C04 for the driver's interface -/
theorem gssv_info_nonzero_B_untouched (P : Params K Rat) (permC : Array Nat) (B : List (Vec K))
    (h : (gssvGlue P permC B).1 ≠ 0) : (gssvGlue P permC B).2 = B :=
  gssv_singular_B_untouched P permC B h

/-- **C01 (each right-hand side is solved on its own).** The solution of column `r` depends only on
column `r` of B (any number of columns, in any company). -/
theorem gssv_columns_independent (P : Params K Rat) (permC : Array Nat) (B B' : List (Vec K)) (r r' : Nat)
    (hr : r < B.length) (hr' : r' < B'.length) (hsame : B[r] = B'[r'])
    (h : (luFactor P false).info = 0) :
    (gssvGlue P permC B).2.getD r #[] = (gssvGlue P permC B').2.getD r' #[] := by
  unfold gssvGlue
  simp [h, List.getD, hr, hr', hsame]

/- goal (not proved): the transposed solve used for row storage
theorem gstrsT_solves_goal … : Σ_r A(r, i) x_r = b_i  for  x = gstrsT false m piv L U permC b
-/

/-! non-vacuity: the 3x3 example of C02 (row interchange in the first column) solved for one
right-hand side: A x = b holds exactly -/
example : (gssvGlue exP #[0, 1, 2] [#[3, 8, 7]]).1 = 0 := by decide +kernel
example : (gssvGlue exP #[0, 1, 2] [#[3, 8, 7]]).2 = [#[1, 1, 1]] := by decide +kernel

end Slu.LU
