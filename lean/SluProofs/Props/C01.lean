import SluProofs.Lemmas.Solve
import SluProofs.Lemmas.SolveT
import SluProofs.Lemmas.MyBlas2
import SluProofs.Lemmas.ColBmod
import SluProofs.Props.C02
import SluProofs.Props.C04
/-
C01 — Simple driver returns a solution of A*X = B.

Exact-arithmetic core of the property for the modelled driver `gssvGlue` (SRC/dgssv.c:209-236:
order columns, factor `A*Pc` with threshold pivoting, then permute / forward / back / permute):
whenever it reports `info = 0` for a square system, every returned column X_r satisfies the caller's
equations exactly, for every column permutation, every threshold, every candidate order, every
number of right-hand sides.  The floating-point statement of C01 (componentwise bound with the
returned factors) is then checked on the implementation's outputs in exact rationals on every run;
its rounding constants are cited, not proved (see level_note).

Row storage (SLU_NR, SRC/dgssv.c:187-196, 225-229): the arrays of a row-stored A are those of Aᵀ in
column storage; the driver factors that matrix and calls the transposed solve.  This orientation is
proved as well: `gstrsT_solves` (Lemmas/SolveT.lean) shows that the modelled TRANS / CONJ solve
`gstrsT f` satisfies `Σ_i f(A'(i,c)) x_i = b_c` for every ring homomorphism `f`, every column
permutation, every right-hand side and every n; `gssv_solves_row_storage` below is the driver-level
statement for `gssvGlueNR` (`info = 0` ⇒ every equation of `A * X_r = B_r` holds, A row-stored), and
`gstrsT_solves_conj` is the CONJ instance over the Gaussian rationals (`Aᴴ x = b`, conjugation
`zz_conj` being a ring homomorphism of `Cx Rat`).
-/
namespace Slu.LU
open Slu Finset

variable {K : Type} [Field K] [Mag K Rat]

/-- **C01 (column storage).** `info = 0` ⇒ `A * X_r = B_r` for every right-hand side, where column
`c` of A is column `permC[c]` of the factored matrix `A*Pc`. -/
theorem gssv_solves (laws : MagLaws K) (P : Params K Rat) (hP : Legal P) (hsq : P.m = P.n)
    (permC : Array Nat) (hpc : permC.size = P.n)
    (hperm : ((List.range P.n).map fun c => permC.getD c 0).Perm (List.range P.n))
    (B : List (Vec K)) (hB : ∀ b ∈ B, b.size = P.m)
    (h : (gssvGlue P permC B).1 = 0) :
    (gssvGlue P permC B).2.length = B.length ∧
    ∀ r (hr : r < B.length) (i : Nat), i < P.m →
      ∑ c ∈ range P.n, (P.col (permC.getD c 0)).get i * (((gssvGlue P permC B).2.getD r #[]).get c) = (B[r]).get i := by
  unfold gssvGlue at h ⊢
  by_cases hz : (luFactor P false).info ≠ 0
  · simp [hz] at h
  · have h0 : (luFactor P false).info = 0 := by simpa using hz
    simp only [hz, if_false, List.length_map, true_and]
    intro r hr i hi
    have inv : Inv P (luFactor P false) P.n := by
      rw [luFactor_eq_run] at h0 ⊢
      exact run_inv laws P (le_of_lt hP.u_pos) hP.u_le_one hP.col_size false P.n h0
    have hbr : (B[r]).size = P.m := hB _ (List.getElem_mem hr)
    have := gstrsN_solves P (luFactor P false) hsq inv hP.col_size permC hpc hperm (B[r]) hbr i hi
    simpa [List.getD, hr] using this

/-- **C01 (failure leaves B alone).** restated from C04 for the driver's interface -/
theorem gssv_info_nonzero_B_untouched (P : Params K Rat) (permC : Array Nat) (B : List (Vec K))
    (h : (gssvGlue P permC B).1 ≠ 0) : (gssvGlue P permC B).2 = B :=
  gssv_singular_B_untouched P permC B h

/-- **C01 (each right-hand side is solved on its own).** The solution of column `r` depends only on
column `r` of B (any number of columns, in any company). -/
theorem gssv_columns_independent (P : Params K Rat) (permC : Array Nat) (B B' : List (Vec K)) (r r' : Nat)
    (hr : r < B.length) (hr' : r' < B'.length) (hsame : B[r] = B'[r'])
    (h : (luFactor P false).info = 0) :
    (gssvGlue P permC B).2.getD r #[] = (gssvGlue P permC B').2.getD r' #[] := by
  unfold gssvGlue
  simp [h, List.getD, hr, hr', hsame]

/-! ### Row storage (SLU_NR): the transposed solve -/

/-- the simple driver on a row-stored matrix (SRC/dgssv.c:187-196, 225-229): the arrays of a SLU_NR
matrix are those of Aᵀ in column storage; the driver factors that matrix (`P.col j` = column `j` of
`Aᵀ*Pc`, a row of A) and solves with `trans = TRANS`, only when `info = 0` -/
def gssvGlueNR (P : Params K Rat) (permC : Array Nat) (B : List (Vec K)) : Nat × List (Vec K) :=
  let st := luFactor P false
  if st.info ≠ 0 then (st.info, B) else (0, B.map (gstrsT id st.piv st.L st.U permC))

/-- **C01 (row storage).** `info = 0` ⇒ `A * X_r = B_r` for every right-hand side of a row-stored
square A: row `c` of A is column `c` of Aᵀ, i.e. column `permC[c]` of the factored matrix `Aᵀ*Pc`, so
equation `c` reads `Σ_i (P.col permC[c])(i) * X_r(i) = B_r(c)`.  Every returned column has length n. -/
theorem gssv_solves_row_storage (laws : MagLaws K) (P : Params K Rat) (hP : Legal P) (hsq : P.m = P.n)
    (permC : Array Nat)
    (hperm : ((List.range P.n).map fun c => permC.getD c 0).Perm (List.range P.n))
    (B : List (Vec K))
    (h : (gssvGlueNR P permC B).1 = 0) :
    (gssvGlueNR P permC B).2.length = B.length ∧
    ∀ r (hr : r < B.length),
      ((gssvGlueNR P permC B).2.getD r #[]).size = P.n ∧
      ∀ c < P.n,
        ∑ i ∈ range P.m, (P.col (permC.getD c 0)).get i * (((gssvGlueNR P permC B).2.getD r #[]).get i) = (B[r]).get c := by
  unfold gssvGlueNR at h ⊢
  by_cases hz : (luFactor P false).info ≠ 0
  · simp [hz] at h
  · have h0 : (luFactor P false).info = 0 := by simpa using hz
    simp only [hz, if_false, List.length_map, true_and]
    intro r hr
    have inv : Inv P (luFactor P false) P.n := by
      rw [luFactor_eq_run] at h0 ⊢
      exact run_inv laws P (le_of_lt hP.u_pos) hP.u_le_one hP.col_size false P.n h0
    refine ⟨?_, ?_⟩
    · simp [List.getD, hr, gstrsT_size, inv.sizes.1]
    · intro c hc
      have := gstrsT_solves (RingHom.id K) P (luFactor P false) hsq inv permC hperm (B[r]) c hc
      simpa [List.getD, hr] using this

/-- **C01 (row storage: failure leaves B alone).** -/
theorem gssv_row_storage_singular_B_untouched (P : Params K Rat) (permC : Array Nat) (B : List (Vec K))
    (h : (gssvGlueNR P permC B).1 ≠ 0) : (gssvGlueNR P permC B).2 = B := by
  unfold gssvGlueNR at h ⊢
  by_cases hz : (luFactor P false).info ≠ 0
  · simp [hz]
  · simp [hz] at h

/-! ### CONJ: the conjugate-transposed solve over the Gaussian rationals -/

/-- complex conjugation (`zz_conj`, the `HasConj` instance of `Cx`) is a ring homomorphism of the
Gaussian rationals -/
def conjHom : Cx Rat →+* Cx Rat where
  toFun := HasConj.conj
  map_one' := by apply Cx.ext' <;> simp [HasConj.conj, Cx.conj, Cx.one_def]
  map_mul' a b := by
    apply Cx.ext'
    · simp [HasConj.conj, Cx.conj, Cx.mul_def]
    · simp [HasConj.conj, Cx.conj, Cx.mul_def]; ring
  map_zero' := by apply Cx.ext' <;> simp [HasConj.conj, Cx.conj, Cx.zero_def]
  map_add' a b := by
    apply Cx.ext'
    · simp [HasConj.conj, Cx.conj, Cx.add_def]
    · simp [HasConj.conj, Cx.conj, Cx.add_def]; ring

theorem conjHom_apply (z : Cx Rat) : conjHom z = HasConj.conj z := rfl

/-- **C01 (CONJ).** the solve with `f = conj` returns a solution of `Aᴴ x = b`:
`Σ_i conj(A(i,c)) * x_i = b_c` for every column `c` of A (column `permC[c]` of the factored matrix) -/
theorem gstrsT_solves_conj (P : Params (Cx Rat) Rat) (st : St (Cx Rat)) (hsq : P.m = P.n) (inv : Inv P st P.n)
    (permC : Array Nat)
    (hperm : ((List.range P.n).map fun c => permC.getD c 0).Perm (List.range P.n))
    (b : Vec (Cx Rat)) (c : Nat) (hc : c < P.n) :
    ∑ i ∈ range P.m, HasConj.conj ((P.col (permC.getD c 0)).get i) *
        (gstrsT HasConj.conj st.piv st.L st.U permC b).get i = b.get c :=
  gstrsT_solves conjHom P st hsq inv permC hperm b c hc

/-! non-vacuity: the 3x3 example of C02 (row interchange in the first column) solved for one
right-hand side: A x = b holds exactly -/
example : (gssvGlue exP #[0, 1, 2] [#[3, 8, 7]]).1 = 0 := by decide +kernel
example : (gssvGlue exP #[0, 1, 2] [#[3, 8, 7]]).2 = [#[1, 1, 1]] := by decide +kernel

/-! non-vacuity (row storage): A = [[2, 1], [4, 3]] stored by rows, column order `permC = [1, 0]`, so the
factored matrix `Aᵀ*Pc` has columns (row 1 of A, row 0 of A); b = A * (1, 2)ᵀ = (4, 10)ᵀ.  The
hypotheses of `gssv_solves_row_storage` hold, the driver reports success and returns (1, 2)ᵀ; the
non-transposed solve on the same arrays returns something else (the orientation matters). -/
def exNR : Params Rat Rat :=
  { m := 2, n := 2, col := fun j => if j = 0 then #[4, 3] else #[2, 1], u := 1, order := fun _ => [0, 1],
    oldPiv := fun _ => 0, diagRow := fun j => j }

theorem exNR_legal : Legal exNR :=
  ⟨by decide, by decide, by intro j; by_cases h : j = 0 <;> simp [exNR, h]⟩

example : ((List.range exNR.n).map fun c => (#[1, 0] : Array Nat).getD c 0).Perm (List.range exNR.n) := by decide
example : (gssvGlueNR exNR #[1, 0] [#[4, 10]]).1 = 0 := by decide +kernel
example : (gssvGlueNR exNR #[1, 0] [#[4, 10]]).2 = [#[1, 2]] := by decide +kernel
example : (gssvGlue exNR #[1, 0] [#[4, 10]]).2 ≠ [#[1, 2]] := by decide +kernel
example := gssv_solves_row_storage magLaws_rat exNR exNR_legal rfl #[1, 0] (by decide) [#[4, 10]] (by decide +kernel)

/-! non-vacuity (CONJ): the factored matrix has columns (1+i, i) and (2, 1-i); with x = (1, i)ᵀ,
`Aᴴ x = (2-i, 1+i)ᵀ`.  The conjugated solve recovers x, the plain transposed solve does not. -/
def exCx : Params (Cx Rat) Rat :=
  { m := 2, n := 2, col := fun j => if j = 0 then #[⟨1, 1⟩, ⟨0, 1⟩] else #[⟨2, 0⟩, ⟨1, -1⟩], u := 1,
    order := fun _ => [0, 1], oldPiv := fun _ => 0, diagRow := fun j => j }

example : (luFactor exCx false).info = 0 := by decide +kernel
example : (let st := luFactor exCx false
    gstrsT HasConj.conj st.piv st.L st.U #[0, 1] #[⟨2, -1⟩, ⟨1, 1⟩]) = #[⟨1, 0⟩, ⟨0, 1⟩] := by decide +kernel
example : (let st := luFactor exCx false
    gstrsT id st.piv st.L st.U #[0, 1] #[⟨2, -1⟩, ⟨1, 1⟩]) ≠ #[⟨1, 0⟩, ⟨0, 1⟩] := by decide +kernel

end Slu.LU

/-! ### The library's own dense kernels (SRC/[sdcz]myblas2.c) — what the triangular solves and the
numeric updates execute when the library is not built with a vendor BLAS

`Slu/Model/MyBlas2.lean` mirrors `[sdcz]lsolve`, `usolve`, `matvec` (every unrolled block, every tail)
and `[sdcz]snode_bmod`; family `myblas` compares the mirrors with the C routines bit for bit.  The
theorems below are their exact-arithmetic specification, for EVERY `ncol`, `nrow`, `ldm`, offset, and
for both unrolling schemes (`cplx = false`: the real files, 8/4/2 resp. 8/4/1 columns; `cplx = true`:
the complex files, 4/2 resp. 4/1 columns). -/
namespace Slu.MyBlas2
open Slu Finset Slu.Kernels

variable {K : Type} [Field K] [Inhabited K]

/-- **C01 (own BLAS: `lsolve`).** For every `ncol` (every residue of every unrolling factor), every
`ldm` and offsets: the cells `ro .. ro+ncol-1` of the result hold the solution of the UNIT lower
triangular system `L x = rhs` whose strictly lower part is read from `M` with stride `ldm` — it is
the dense reference `Slu.Kernels.fwdSub` — and no other cell of `rhs` changes (`M` is not written:
it is an argument that is only read). -/
theorem lsolve_spec (cplx : Bool) (ldm ncol : Nat) (M : Array K) (mo : Nat) (rhs : Array K) (ro : Nat)
    (hb : ro + ncol ≤ rhs.size) :
    (lsolve cplx ldm ncol M mo rhs ro).size = rhs.size ∧
    (∀ i, i < ncol → (lsolve cplx ldm ncol M mo rhs ro)[ro + i]! =
      (fwdSub (fun i j => M[mo + (j * ldm + i)]!) (fun _ => 1) (fun i => rhs[ro + i]!) ncol).getD i 0) ∧
    (∀ i, i < ncol → (lsolve cplx ldm ncol M mo rhs ro)[ro + i]! +
      ∑ j ∈ range i, M[mo + (j * ldm + i)]! * (lsolve cplx ldm ncol M mo rhs ro)[ro + j]! = rhs[ro + i]!) ∧
    (∀ p, (p < ro ∨ ro + ncol ≤ p) → (lsolve cplx ldm ncol M mo rhs ro)[p]! = rhs[p]!) := by
  have hz : ∀ i, i < ncol →
      (fwdSub (fun i j => M[mo + (j * ldm + i)]!) (fun _ => 1) (fun i => rhs[ro + i]!) ncol).getD i 0 =
      rhs[ro + i]! - ∑ j ∈ range i,
        (fwdSub (fun i j => M[mo + (j * ldm + i)]!) (fun _ => 1) (fun i => rhs[ro + i]!) ncol).getD j 0 * M[mo + (j * ldm + i)]! := by
    intro i hi
    rw [fwd_rec _ _ _ ncol i hi, div_one]
    congr 1
    exact Finset.sum_congr rfl (fun j _ => mul_comm _ _)
  obtain ⟨h1, h2, h3⟩ := lsolveG_spec cplx ldm ncol (fun _ i => M[mo + i]!) ro rhs (fun i j => M[mo + (j * ldm + i)]!) _ hb
    (fun _ _ _ _ _ _ => rfl) hz
  refine ⟨h1, h2, fun i hi => ?_, h3⟩
  have hrow := fwdSub_row (fun i j => M[mo + (j * ldm + i)]!) (fun _ => 1) (fun i => rhs[ro + i]!) ncol i hi one_ne_zero
  unfold lsolve
  rw [h2 i hi, Finset.sum_congr rfl (fun j hj => by rw [h2 j (by have := mem_range.mp hj; omega)]), add_comm]
  simpa using hrow

/-- **C01 (own BLAS: `lsolve` inside one array, as `snode_bmod` calls it).** Matrix at offset `mo`
and right-hand side at offset `ro` of the SAME array; as long as the strictly lower triangle read
by the routine does not overlap the right-hand side, the result is the same forward substitution
and EVERY cell outside `ro .. ro+ncol-1` — in particular every entry of the matrix — is unchanged. -/
theorem lsolveA_spec (cplx : Bool) (ldm ncol : Nat) (a : Array K) (mo ro : Nat) (hb : ro + ncol ≤ a.size)
    (hdis : ∀ i j, j < i → i < ncol → mo + (j * ldm + i) < ro ∨ ro + ncol ≤ mo + (j * ldm + i)) :
    (lsolveA cplx ldm ncol a mo ro).size = a.size ∧
    (∀ i, i < ncol → (lsolveA cplx ldm ncol a mo ro)[ro + i]! =
      (fwdSub (fun i j => a[mo + (j * ldm + i)]!) (fun _ => 1) (fun i => a[ro + i]!) ncol).getD i 0) ∧
    (∀ p, (p < ro ∨ ro + ncol ≤ p) → (lsolveA cplx ldm ncol a mo ro)[p]! = a[p]!) := by
  have hz : ∀ i, i < ncol →
      (fwdSub (fun i j => a[mo + (j * ldm + i)]!) (fun _ => 1) (fun i => a[ro + i]!) ncol).getD i 0 =
      a[ro + i]! - ∑ j ∈ range i,
        (fwdSub (fun i j => a[mo + (j * ldm + i)]!) (fun _ => 1) (fun i => a[ro + i]!) ncol).getD j 0 * a[mo + (j * ldm + i)]! := by
    intro i hi
    rw [fwd_rec _ _ _ ncol i hi, div_one]
    congr 1
    exact Finset.sum_congr rfl (fun j _ => mul_comm _ _)
  exact lsolveG_spec cplx ldm ncol (fun s i => s[mo + i]!) ro a (fun i j => a[mo + (j * ldm + i)]!) _ hb
    (fun s hs i j hji hi => hs.2 _ (hdis i j hji hi)) hz

/-- **C01 (own BLAS: `usolve`).** With a nonzero stored diagonal the result is the solution of the
upper triangular system `U x = rhs` read from `M` with stride `ldm` (the dense reference
`Slu.Kernels.bwdSub`), for every `ncol`; no other cell of `rhs` changes. -/
theorem usolve_spec [Conj K] (ldm ncol : Nat) (M : Array K) (mo : Nat) (rhs : Array K) (ro : Nat)
    (hb : ro + ncol ≤ rhs.size) (hd : ∀ i, i < ncol → M[mo + (i + i * ldm)]! ≠ 0) :
    (usolve ldm ncol M mo rhs ro).size = rhs.size ∧
    (∀ i, i < ncol → (usolve ldm ncol M mo rhs ro)[ro + i]! =
      (bwdSub (fun i j => M[mo + (i + j * ldm)]!) (fun i => M[mo + (i + i * ldm)]!) (fun i => rhs[ro + i]!) ncol ncol).getD i 0) ∧
    (∀ i, i < ncol → ∑ j ∈ Ico i ncol, M[mo + (i + j * ldm)]! * (usolve ldm ncol M mo rhs ro)[ro + j]! = rhs[ro + i]!) ∧
    (∀ p, (p < ro ∨ ro + ncol ≤ p) → (usolve ldm ncol M mo rhs ro)[p]! = rhs[p]!) := by
  have hz : ∀ i, i < ncol →
      (bwdSub (fun i j => M[mo + (i + j * ldm)]!) (fun i => M[mo + (i + i * ldm)]!) (fun i => rhs[ro + i]!) ncol ncol).getD i 0 =
      (rhs[ro + i]! - ∑ j ∈ Ico (i + 1) ncol,
        (bwdSub (fun i j => M[mo + (i + j * ldm)]!) (fun i => M[mo + (i + i * ldm)]!) (fun i => rhs[ro + i]!) ncol ncol).getD j 0 *
          M[mo + (i + j * ldm)]!) / M[mo + (i + i * ldm)]! := by
    intro i hi
    rw [bwd_rec _ _ _ ncol i hi]
    congr 2
    exact Finset.sum_congr rfl (fun j _ => mul_comm _ _)
  obtain ⟨h1, h2, h3⟩ := usolve_spec' ldm ncol M mo rhs ro hb _ hz
  refine ⟨h1, h2, fun i hi => ?_, h3⟩
  have hrow := bwdSub_row (fun i j => M[mo + (i + j * ldm)]!) (fun i => M[mo + (i + i * ldm)]!) (fun i => rhs[ro + i]!) ncol i hi (hd i hi)
  rw [Finset.sum_eq_sum_Ico_succ_bot (by omega), h2 i hi,
    Finset.sum_congr rfl (fun j hj => by rw [h2 j (by have := mem_Ico.mp hj; omega)])]
  exact hrow

/-- **C01 (own BLAS: `matvec`).** `Mxvec_out[k] = Mxvec_in[k] + Σ_j M(k,j)·vec[j]` for every `nrow`,
`ncol`, `ldm`; the cells of `Mxvec` from `nrow` on are unchanged. -/
theorem matvec_spec (cplx : Bool) (ldm nrow ncol : Nat) (M : Array K) (mo : Nat) (vec : Array K) (vo : Nat) (y : Array K)
    (hb : nrow ≤ y.size) :
    (matvec cplx ldm nrow ncol M mo vec vo y).size = y.size ∧
    (∀ k, k < nrow → (matvec cplx ldm nrow ncol M mo vec vo y)[k]! =
      y[k]! + ∑ j ∈ range ncol, M[mo + (j * ldm + k)]! * vec[vo + j]!) ∧
    (∀ p, nrow ≤ p → (matvec cplx ldm nrow ncol M mo vec vo y)[p]! = y[p]!) := by
  obtain ⟨h1, h2, h3⟩ := matvec_spec' cplx ldm nrow ncol M mo vec vo y hb
  refine ⟨h1, fun k hk => ?_, h3⟩
  rw [h2 k hk]
  congr 1
  exact Finset.sum_congr rfl (fun j _ => mul_comm _ _)

/-! `ncol = 11` (one block of 8, then 2, then the last column resp. 4 + 4 + 2 + last column for the
complex scheme; `matvec`: 8 + 1 + 1 + 1 resp. 4 + 4 + 1 + 1 + 1), `nrow = 5`, `ldm = 13`. -/
def exM : Array Rat := (Array.range 143).map fun k => ((((k * 7 + 3) % 5 : Nat) : Int) - 2 : Int)
def exU : Array Rat := (Array.range 143).map fun k => if k % 14 = 0 then 1 else ((((k * 7 + 3) % 5 : Nat) : Int) - 2 : Int)
def exRhs : Array Rat := (Array.range 11).map fun k => (((k * 3 + 1) % 7 : Nat) : Int)
def exY : Array Rat := (Array.range 5).map fun k => ((k : Nat) : Int)

example : lsolve false 13 11 exM 0 exRhs 0 = #[1, 6, -6, 7, -1, -16, -24, 44, 37, -143, 174] := by decide +kernel
example : lsolve true 13 11 exM 0 exRhs 0 = #[1, 6, -6, 7, -1, -16, -24, 44, 37, -143, 174] := by decide +kernel
example : matvec false 13 5 11 exM 0 exRhs 0 exY = #[15, -1, -7, 2, 1] := by decide +kernel
example : matvec true 13 5 11 exM 0 exRhs 0 exY = #[15, -1, -7, 2, 1] := by decide +kernel
example : usolve 13 11 exU 0 exRhs 0 = #[698, -134, 170, 91, -7, -38, 10, -6, -5, 3, 3] := by decide +kernel
example := lsolve_spec false 13 11 exM 0 exRhs 0 (by simp [exRhs])
example := matvec_spec true 13 5 11 exM 0 exRhs 0 exY (by simp [exY])
example : ∀ i, i < 11 → exU[0 + (i + i * 13)]! ≠ 0 := by decide +kernel

/-- **C01 (own BLAS: `snode_bmod`).** One relaxed supernode `fsupc..jcol` with row subscripts
`lsub[istart .. istart+nsupr-1]` (distinct, inside `dense`), its finished columns `fsupc..jcol-1`
stored with leading dimension `nsupr` from `luptr` on, before the cells `ufirst .. ufirst+nsupr-1` of
column `jcol`; `tempv` zero on `0..nrow-1`.  After the call, with `u = fwdSub` of the unit lower
diagonal block applied to the gathered `dense`:
(i) the first `nsupc` cells of column `jcol` hold `u` (the U-segment); (ii) the cells below hold
`dense[row i] − Σ_r L(i,r)·u_r`; nothing else in `lusup` changed; `dense` is zero on the rows of the
supernode and unchanged elsewhere; `tempv` is as before (zero again); `xlusup[jcol+1]` is set.
Holds for `jcol = fsupc` too (no update, plain copy). -/
theorem snodeBmod_spec (cplx : Bool) (jcol fsupc : Nat) (lsub xlsub : Array Nat) (st : SnodeSt K)
    (istart nsupr ufirst luptr nsupc : Nat)
    (e1 : istart = xlsub[fsupc]!) (e2 : nsupr = xlsub[fsupc + 1]! - istart)
    (e3 : ufirst = st.xlusup[jcol]!) (e4 : luptr = st.xlusup[fsupc]!) (e5 : nsupc = jcol - fsupc)
    (hle : fsupc ≤ jcol)
    (hinj : ∀ t u, t < nsupr → u < nsupr → lsub[istart + t]! = lsub[istart + u]! → t = u)
    (hrow : ∀ t, t < nsupr → lsub[istart + t]! < st.dense.size)
    (hcol : ufirst + nsupr ≤ st.lusup.size) (hwid : nsupc ≤ nsupr)
    (hbefore : luptr + nsupc * nsupr ≤ ufirst)
    (htv : nsupr - nsupc ≤ st.tempv.size) (htz : ∀ i, i < nsupr - nsupc → st.tempv[i]! = 0) :
    let u := fwdSub (fun i r => st.lusup[luptr + (r * nsupr + i)]!) (fun _ => 1) (fun t => st.dense[lsub[istart + t]!]!) nsupc
    let o := snodeBmod cplx jcol fsupc lsub xlsub st
    o.lusup.size = st.lusup.size ∧
    (∀ t, t < nsupc → o.lusup[ufirst + t]! = u.getD t 0) ∧
    (∀ i, nsupc ≤ i → i < nsupr → o.lusup[ufirst + i]! =
      st.dense[lsub[istart + i]!]! - ∑ r ∈ range nsupc, st.lusup[luptr + (r * nsupr + i)]! * u.getD r 0) ∧
    (∀ p, (p < ufirst ∨ ufirst + nsupr ≤ p) → o.lusup[p]! = st.lusup[p]!) ∧
    o.dense.size = st.dense.size ∧
    (∀ t, t < nsupr → o.dense[lsub[istart + t]!]! = 0) ∧
    (∀ r, (∀ t, t < nsupr → lsub[istart + t]! ≠ r) → o.dense[r]! = st.dense[r]!) ∧
    o.tempv.size = st.tempv.size ∧ (∀ i : Nat, o.tempv[i]! = st.tempv[i]!) ∧
    o.xlusup = st.xlusup.setIfInBounds (jcol + 1) (ufirst + nsupr) := by
  intro u o
  apply snodeBmod_spec' cplx jcol fsupc lsub xlsub st istart nsupr ufirst luptr nsupc e1 e2 e3 e4 e5 hle hinj hrow hcol hwid
    hbefore htv htz (fun t => u.getD t 0)
  intro i hi
  rw [fwd_rec _ _ _ nsupc i hi, div_one]
  congr 1
  exact Finset.sum_congr rfl (fun j _ => mul_comm _ _)

/-! A supernode with `nsupc = 11` finished columns (8 + 2 + 1), `nrow = 5` rows below the diagonal
block: `fsupc = 2`, `jcol = 13`, `nsupr = 16`, subscripts start at 1, values at 3. -/
def exLsub : Array Nat := #[9, 3, 7, 0, 12, 5, 14, 1, 16, 10, 8, 2, 15, 4, 11, 6, 13]
def exXlsub : Array Nat := #[0, 1, 1, 17]
def exXlusup : Array Nat := (Array.range 15).map fun c => if c < 2 then 0 else if c = 14 then 0 else 3 + (c - 2) * 16
def exLusup : Array Rat := (Array.range (3 + 12 * 16)).map fun k => ((((k * 5 + 1) % 3 : Nat) : Int) - 1 : Int)
def exDense : Array Rat := (Array.range 18).map fun k => ((((k * 3 + 2) % 5 : Nat) : Int) - 2 : Int)
def exSt : SnodeSt Rat := { lusup := exLusup, xlusup := exXlusup, dense := exDense, tempv := Array.replicate 6 0 }

example : (snodeBmod false 13 2 exLsub exXlsub exSt).lusup.extract 179 195 =
    #[-1, 0, 1, 0, -1, 4, -8, -10, 14, -31, -28, 59, -56, -3, 57, -59] := by decide +kernel
example : (snodeBmod true 13 2 exLsub exXlsub exSt).lusup.extract 179 195 =
    #[-1, 0, 1, 0, -1, 4, -8, -10, 14, -31, -28, 59, -56, -3, 57, -59] := by decide +kernel
example : (snodeBmod false 13 2 exLsub exXlsub exSt).dense = #[0, 0, 0, 0, 0, 0, 0, 0, 0, 2, 0, 0, 0, 0, 0, 0, 0, 1] := by
  decide +kernel
theorem exLsub_distinct : ∀ t, t < 16 → ∀ u, u < 16 → exLsub[1 + t]! = exLsub[1 + u]! → t = u := by decide +kernel
example := snodeBmod_spec false 13 2 exLsub exXlsub exSt 1 16 179 3 11 (by decide +kernel) (by decide +kernel)
  (by decide +kernel) (by decide +kernel) (by decide) (by decide) (fun t u ht hu => exLsub_distinct t ht u hu) (by decide +kernel) (by decide +kernel)
  (by decide) (by decide) (by decide +kernel) (by decide +kernel)

/-- **C01/C02 (the mirrored kernels instantiate the "dense solve + gemv" step of the supernodal
schedule theorem).**  `cols` are the finished columns `fsupc..jcol-1` as the factorization model
holds them (`(pivot row, column of L)`, e.g. a block of `prev st j` in `luFactor_supernodal_schedule`),
agreeing with the storage on the rows of the supernode (zero above the pivot, one at the pivot, the
stored multipliers below).  Then what `snode_bmod` — mirrored `lsolve` + `matvec` + scatter — leaves
in column `jcol` is exactly the abstract block update `Slu.LU.snodeBlock cols dense`
(= `elimBlocks [cols] dense` = the column-by-column elimination `elim cols dense`): its U-segment in
the diagonal-block cells, its remaining vector at the rows below. -/
theorem snodeBmod_is_supernodal_step (cplx : Bool) (jcol fsupc : Nat) (lsub xlsub : Array Nat) (st : SnodeSt K)
    (istart nsupr ufirst luptr nsupc : Nat)
    (e1 : istart = xlsub[fsupc]!) (e2 : nsupr = xlsub[fsupc + 1]! - istart)
    (e3 : ufirst = st.xlusup[jcol]!) (e4 : luptr = st.xlusup[fsupc]!) (e5 : nsupc = jcol - fsupc)
    (hle : fsupc ≤ jcol)
    (hinj : ∀ t u, t < nsupr → u < nsupr → lsub[istart + t]! = lsub[istart + u]! → t = u)
    (hrow : ∀ t, t < nsupr → lsub[istart + t]! < st.dense.size)
    (hcol : ufirst + nsupr ≤ st.lusup.size) (hwid : nsupc ≤ nsupr)
    (hbefore : luptr + nsupc * nsupr ≤ ufirst)
    (htv : nsupr - nsupc ≤ st.tempv.size) (htz : ∀ i, i < nsupr - nsupc → st.tempv[i]! = 0)
    (cols : List (Nat × LU.Vec K)) (hlen : cols.length = nsupc)
    (R1 : ∀ t (ht : t < cols.length), (cols[t]).1 = lsub[istart + t]!)
    (R2 : ∀ t (ht : t < cols.length) i, i < nsupr → (cols[t]).2.get (lsub[istart + i]!) =
        if i < t then 0 else if i = t then 1 else st.lusup[luptr + (t * nsupr + i)]!) :
    LU.snodeBlock cols st.dense = LU.elim cols st.dense ∧
    LU.elimBlocks [cols] st.dense = LU.elim cols st.dense ∧
    (∀ t, t < nsupc → (snodeBmod cplx jcol fsupc lsub xlsub st).lusup[ufirst + t]! = (LU.snodeBlock cols st.dense).2.getD t 0) ∧
    (∀ i, nsupc ≤ i → i < nsupr → (snodeBmod cplx jcol fsupc lsub xlsub st).lusup[ufirst + i]! =
      (LU.snodeBlock cols st.dense).1.get (lsub[istart + i]!)) := by
  obtain ⟨hU, hr, c1, c2⟩ := snodeBmod_eq_snodeBlock' cplx jcol fsupc lsub xlsub st istart nsupr ufirst luptr nsupc
    e1 e2 e3 e4 e5 hle hinj hrow hcol hwid hbefore htv htz cols hlen R1 R2
  have hb := LU.snodeBlock_eq_elim cols st.dense hU hr
  have hs := LU.snodeSolve_eq_elim cols st.dense hr
  refine ⟨hb, ?_, fun t ht => ?_, fun i hi hin => ?_⟩
  · have := LU.elimBlocks_eq_elim [cols] st.dense (fun b hb' => by simp at hb'; subst hb'; exact hU)
      (fun b hb' x hx => by simp at hb'; subst hb'; exact hr x hx)
    simpa using this
  · rw [c1 t ht, hb, hs]
  · rw [c2 i hi hin, hb, hs, LU.snodeGemv_eq_elim]

/-! ### The triangular solves of `gstrs` run the mirrored kernels

`Slu.Kernels.trsvLN` / `trsvUN` (Slu/Model/Kernels.lean) are the specification-level model of the two
NOTRANS solves of `sp_[sdcz]trsv` / `[sdcz]gstrs`, proved equal to the dense reference on well-formed
storage (Props/C14 `spTrsv_eq_ref`; C01 `gssv_solves` composes them).  `trsvLNblas` / `trsvUNblas`
(Lemmas/MyBlas2.lean) run the SAME supernode loop with the diagonal-block solve and the update
performed by the bit-mirrored `lsolve` + `matvec` into a zero `work[]` + scatter, resp. `usolve` —
the statements of SRC/dsp_blas2.c:174-186, 200-226 in a non-vendor build.  In exact arithmetic they
coincide, for every storage, every unrolling scheme. -/

/-- **C01 (forward solve = mirrored `lsolve` + `matvec` per supernode).** -/
theorem trsvLN_eq_mirrored [Conj K] (cplx : Bool) (F : LUFac K) (x : Array K)
    (hb : ∀ k, k ≤ F.L.nsuper → (snode F.L k).fsupc + (snode F.L k).nsupc ≤ x.size) :
    trsvLN F x = trsvLNblas cplx F x := (trsvLNblas_eq_trsvLN cplx F x hb).symm

/-- **C01 (back solve = mirrored `usolve` per supernode).** -/
theorem trsvUN_eq_mirrored [Conj K] (F : LUFac K) (x : Array K) : trsvUN F false x = trsvUNblas F x :=
  (trsvUNblas_eq_trsvUN F x).symm

/-- **C01 (the two solves of `gstrs`, NOTRANS).** `gstrsCol F permc permr Tr.N b` is by definition
`gather permc (spTrsv F .U .N false (spTrsv F .L .N true (scatter permr b)))`; the inner composition
is the mirrored kernels' one. -/
theorem spTrsv_notrans_eq_mirrored [Conj K] (cplx : Bool) (F : LUFac K) (x : Array K) (hn : (F.L.n == 0) = false)
    (hb : ∀ k, k ≤ F.L.nsuper → (snode F.L k).fsupc + (snode F.L k).nsupc ≤ x.size) :
    spTrsv F .U .N false (spTrsv F .L .N true x) = trsvUNblas F (trsvLNblas cplx F x) := by
  unfold spTrsv
  simp only [hn]
  rw [trsvLNblas_eq_trsvLN cplx F x hb, trsvUNblas_eq_trsvUN]
  rfl

/-! Hypotheses are satisfiable: the model's columns for the example supernode (`exLsub`, `exLusup`:
`nsupc = 11`, `nrow = 5`), and a 16 x 16 factor whose first supernode has 11 columns and 16 rows. -/
def exCols : List (Nat × LU.Vec Rat) := (List.range 11).map fun t =>
  (exLsub[1 + t]!, (Array.range 18).map fun r =>
    match (List.range 16).find? (fun i => exLsub[1 + i]! == r) with
    | some i => if i < t then 0 else if i = t then 1 else exLusup[3 + (t * 16 + i)]!
    | none => 0)

theorem exCols_R1 : ∀ t (ht : t < exCols.length), (exCols[t]).1 = exLsub[1 + t]! := by decide +kernel
theorem exCols_R2 : ∀ t (ht : t < exCols.length) i, i < 16 → (exCols[t]).2.get (exLsub[1 + i]!) =
    if i < t then 0 else if i = t then 1 else exSt.lusup[3 + (t * 16 + i)]! := by decide +kernel
example := snodeBmod_is_supernodal_step false 13 2 exLsub exXlsub exSt 1 16 179 3 11 (by decide +kernel) (by decide +kernel)
  (by decide +kernel) (by decide +kernel) (by decide) (by decide) (fun t u ht hu => exLsub_distinct t ht u hu) (by decide +kernel) (by decide +kernel)
  (by decide) (by decide) (by decide +kernel) (by decide +kernel) exCols (by decide +kernel) exCols_R1 exCols_R2

def exF : LUFac Rat :=
  { L := { m := 16, n := 16, nsuper := 5, xsup := #[0, 11, 12, 13, 14, 15, 16],
           supno := #[0, 0, 0, 0, 0, 0, 0, 0, 0, 0, 0, 1, 2, 3, 4, 5],
           xlsub := #[0, 16, 16, 16, 16, 16, 16, 16, 16, 16, 16, 16, 17, 18, 19, 20, 21],
           lsub := #[0, 1, 2, 3, 4, 5, 6, 7, 8, 9, 10, 11, 12, 13, 14, 15, 11, 12, 13, 14, 15],
           xlusup := #[0, 16, 32, 48, 64, 80, 96, 112, 128, 144, 160, 176, 177, 178, 179, 180, 181],
           lusup := (Array.range 181).map fun k => if k % 17 = 0 ∨ k ≥ 176 then 1 else ((((k * 5 + 1) % 3 : Nat) : Int) - 1 : Int) },
    U := { m := 16, n := 16, colptr := Array.replicate 17 0, rowind := #[], val := #[] }, nnzL := 181, nnzU := 0 }
def exB : Array Rat := (Array.range 16).map fun k => ((((k * 3 + 2) % 5 : Nat) : Int) - 2 : Int)

theorem exF_blocks : ∀ k, k ≤ exF.L.nsuper → (snode exF.L k).fsupc + (snode exF.L k).nsupc ≤ exB.size := by decide +kernel
example : trsvLNblas false exF exB = trsvLN exF exB := by decide +kernel
example : trsvLNblas true exF exB = trsvLN exF exB := by decide +kernel
example : trsvUNblas exF (trsvLN exF exB) = trsvUN exF false (trsvLN exF exB) := by decide +kernel
example : trsvLN exF exB ≠ exB := by decide +kernel
example := spTrsv_notrans_eq_mirrored false exF exB (by decide +kernel) exF_blocks

end Slu.MyBlas2

/-! ## `[sdcz]column_bmod` (non-vendor build): the caller of the mirrored kernels

`Slu.ColBmod.colBmod` (Slu/Model/ColBmod.lean) mirrors SRC/[sdcz]column_bmod.c statement by statement
(family `colbmod`: direct calls, whole buffers compared bit for bit).  The theorems below are its
exact-arithmetic meaning, for every segment size (the three hand-written cases 1, 2, 3 and the
`lsolve` + `matvec` case), every leading dimension, every `fpanelc`. -/
namespace Slu.ColBmod
open Slu Finset Slu.Kernels Slu.MyBlas2

variable {K : Type} [Field K] [Inhabited K]

/-- the integers of a segment are consistent (`nsupc = no_zeros + segsze`, `segsze ≥ 1`, the loop over
the rows below runs `nrow` times) as soon as the representative lies in the panel and after the first
nonzero, and the supernode has at least `krep - fsupc + 1` rows -/
theorem segGeom_arith (fpanelc : Nat) (xsup supno xlsub xlusup repfnz : Array Nat) (krep : Nat)
    (h1 : xsup[supno[krep]!]! ≤ krep) (h2 : fpanelc ≤ krep) (h3 : repfnz[krep]! ≤ krep)
    (h4 : xsup[supno[krep]!]! ≤ repfnz[krep]!)
    (h5 : krep - xsup[supno[krep]!]! + 1 ≤ xlsub[xsup[supno[krep]!]! + 1]! - xlsub[xsup[supno[krep]!]!]!) :
    (segGeom fpanelc xsup supno xlsub xlusup repfnz krep).noZeros + (segGeom fpanelc xsup supno xlsub xlusup repfnz krep).segsze =
      (segGeom fpanelc xsup supno xlsub xlusup repfnz krep).nsupc ∧
    1 ≤ (segGeom fpanelc xsup supno xlsub xlusup repfnz krep).segsze ∧
    (segGeom fpanelc xsup supno xlsub xlusup repfnz krep).cnt = (segGeom fpanelc xsup supno xlsub xlusup repfnz krep).nrow := by
  unfold segGeom
  simp only
  omega

/-- **C01 (one U-segment of `column_bmod`, all four size cases).**  `krep` is the representative of a
supernode other than `jcol`'s; `g` the integers the routine derives (`segGeom`); `base` the address of
the diagonal cell (kfnz, kfnz) of the supernode's block; `row t` the subscript of the `t`-th row from
`kfnz` on.  Hypotheses (`SegOK`): `nsupc = no_zeros + segsze`, `segsze ≥ 1`, these rows are distinct and
inside `dense`; for `segsze ≥ 4` `tempv` has `segsze + nrow` zero cells.  After the iteration, with
`u = fwdSub` of the UNIT lower triangular diagonal block rows `kfnz..krep` applied to the gathered
`dense`: (i) the segment rows of `dense` hold `u`; (ii) each row below holds
`dense[row] − Σ_r L(row, r)·u_r`; (iii) every other cell of `dense` is unchanged; `tempv` is back to what
it was (zero); `lusup`, `xlusup` are untouched. -/
theorem colBmod_segment_spec (cplx segOps : Bool) (jcol fpanelc : Nat) (xsup supno lsub xlsub repfnz : Array Nat)
    (krep : Nat) (st : SnodeSt K) (g : Seg) (hg : g = segGeom fpanelc xsup supno xlsub st.xlusup repfnz krep)
    (hne : supno[jcol]! ≠ supno[krep]!) (ok : SegOK lsub g st.dense)
    (htv : 4 ≤ g.segsze → g.segsze + g.nrow ≤ st.tempv.size)
    (htz : 4 ≤ g.segsze → ∀ i, i < g.segsze + g.nrow → st.tempv[i]! = 0) :
    let base := g.luptr + (g.nsupr * g.noZeros + g.noZeros)
    let row := fun t => lsub[g.lptr + g.noZeros + t]!
    let u := fwdSub (fun i r => st.lusup[base + (r * g.nsupr + i)]!) (fun _ => 1) (fun t => st.dense[row t]!) g.segsze
    let o := colSegment cplx segOps jcol fpanelc xsup supno lsub xlsub repfnz krep st
    o.dense.size = st.dense.size ∧
    (∀ s, s < g.segsze → o.dense[row s]! = u.getD s 0) ∧
    (∀ i, i < g.nrow → o.dense[row (g.segsze + i)]! =
      st.dense[row (g.segsze + i)]! - ∑ q ∈ range g.segsze, st.lusup[base + (q * g.nsupr + (g.segsze + i))]! * u.getD q 0) ∧
    (∀ p, (∀ t, t < g.segsze + g.nrow → row t ≠ p) → o.dense[p]! = st.dense[p]!) ∧
    o.tempv.size = st.tempv.size ∧ (∀ p : Nat, o.tempv[p]! = st.tempv[p]!) ∧
    o.lusup = st.lusup ∧ o.xlusup = st.xlusup := by
  intro base row u o
  have hz : ∀ s, s < g.segsze → (fun t => u.getD t 0) s = st.dense[lsub[g.lptr + g.noZeros + s]!]! -
      ∑ q ∈ range s, (fun t => u.getD t 0) q * st.lusup[g.luptr + (g.nsupr * g.noZeros + g.noZeros) + (q * g.nsupr + s)]! := by
    intro s hs
    show u.getD s 0 = _
    rw [fwd_rec _ _ _ g.segsze s hs, div_one]
    congr 1
    exact Finset.sum_congr rfl (fun j _ => mul_comm _ _)
  obtain ⟨⟨p1, p2, p3, p4⟩, t1, t2⟩ := segUpdate_spec' cplx lsub g st.lusup st.dense st.tempv (fun t => u.getD t 0) ok htv htz hz
  have hd : o.dense = (segUpdate cplx lsub g st.lusup st.dense st.tempv).1 := by
    show (colSegment cplx segOps jcol fpanelc xsup supno lsub xlsub repfnz krep st).dense = _
    unfold colSegment; rw [if_pos hne, ← hg]
  have ht : o.tempv = (segUpdate cplx lsub g st.lusup st.dense st.tempv).2 := by
    show (colSegment cplx segOps jcol fpanelc xsup supno lsub xlsub repfnz krep st).tempv = _
    unfold colSegment; rw [if_pos hne, ← hg]
  have hl : o.lusup = st.lusup := by
    show (colSegment cplx segOps jcol fpanelc xsup supno lsub xlsub repfnz krep st).lusup = _
    unfold colSegment; rw [if_pos hne]
  have hx : o.xlusup = st.xlusup := by
    show (colSegment cplx segOps jcol fpanelc xsup supno lsub xlsub repfnz krep st).xlusup = _
    unfold colSegment; rw [if_pos hne]
  rw [hd, ht]
  refine ⟨p1, p2, fun i hi => ?_, p4, t1, t2, hl, hx⟩
  rw [p3 i hi]
  congr 1
  exact Finset.sum_congr rfl (fun j _ => mul_comm _ _)

/-- a listed representative of `jcol`'s OWN supernode is skipped (`jsupno == ksupno`) -/
theorem colBmod_segment_own (cplx segOps : Bool) (jcol fpanelc : Nat) (xsup supno lsub xlsub repfnz : Array Nat)
    (krep : Nat) (st : SnodeSt K) (he : supno[jcol]! = supno[krep]!) :
    colSegment cplx segOps jcol fpanelc xsup supno lsub xlsub repfnz krep st = st := by
  unfold colSegment
  rw [if_neg (by simpa using he)]

/-- **C01 (`column_bmod` as a whole: the segment loop, then the column's own supernode).**
`S k` is the state after `k` iterations of the segment loop (`segsUpTo`; `S 0 = st`).  Hypotheses:
for every listed representative of another supernode the hypotheses of `colBmod_segment_spec`
(`SegHyp`, stated on the INITIAL state: they involve `xlusup`, the size of `dense` and the zero prefix
of `tempv` only, none of which an iteration changes); the panel does not start inside `jcol`'s own
supernode (`fpanelc ≤ fsupc`: that restriction is what makes this `_partial`, see `colBmod_spec_goal`
below); and for the
supernode of `jcol` those of `snodeBmod_spec`.  Then
(a) iteration `k` performs `SegStep` — the conclusion of `colBmod_segment_spec` for `segrep[nseg-1-k]`
    — from `S k` to `S (k+1)`: the supernodes update `dense` one after the other in the listed order;
(b) with `D` the `dense` left by the loop, the routine's final state is that of `snodeBmod_spec` for
    `D`: column `jcol` of `lusup` holds the forward substitution with the supernode's diagonal block on
    top and `D[row] − Σ_r L(row,r)·u_r` below, nothing else in `lusup` changed, `dense` is zero on the
    supernode's rows and `D` elsewhere, `tempv` as before (zero), `xlusup[jcol+1]` set. -/
/- colBmod_spec_goal (the full statement this file aims at; item (1) is PROVED further down as
   `colBmod_spec` (via `colTail_spec'`), item (2) is NOT proved):
   (1) the same conclusion WITHOUT `hp : fpanelc ≤ fsupc`: when the panel starts inside `jcol`'s own
       supernode (`d_fsupc = fpanelc - fsupc > 0`) the in-supernode update uses the columns
       `fpanelc..jcol-1` only (`luptr = xlusup[fpanelc] + d_fsupc`, `ufirst = xlusup[jcol] + d_fsupc`,
       `nrow = nsupr - d_fsupc - nsupc`); `colTail` mirrors it and family `colbmod` compares it bit for
       bit (tag tail=partial), but `snodeBmod_spec'` has not been generalised to the offset;
   (2) `dense` after the loop, read on the non-pivot rows, and the parked U-segments equal
       `LU.elimBlocks blocks st.dense` for `blocks` = the listed supernodes' columns in the listed order
       (given `DepRespecting`): per segment this is `colBmod_segment_is_supernodal_step`; the fold is not
       done because `column_bmod` keeps `u_t` in `dense` at the pivot rows (until `copy_to_ucol`) whereas
       `snodeBlock` zeroes them, so the invariant must carry "later blocks are zero on earlier pivot rows". -/
theorem colBmod_spec_partial (cplx segOps : Bool) (jcol nseg fpanelc : Nat) (segrep repfnz xsup supno lsub xlsub : Array Nat)
    (st : SnodeSt K) (S : Nat → SnodeSt K)
    (hS : S = segsUpTo cplx segOps jcol nseg fpanelc segrep repfnz xsup supno lsub xlsub st)
    (H : ∀ k, k < nseg → SegHyp jcol fpanelc xsup supno lsub xlsub repfnz segrep[nseg - 1 - k]! st)
    (fsupc istart nsupr ufirst luptr nsupc : Nat) (e0 : fsupc = xsup[supno[jcol]!]!) (hp : fpanelc ≤ fsupc)
    (e1 : istart = xlsub[fsupc]!) (e2 : nsupr = xlsub[fsupc + 1]! - istart)
    (e3 : ufirst = st.xlusup[jcol]!) (e4 : luptr = st.xlusup[fsupc]!) (e5 : nsupc = jcol - fsupc)
    (hle : fsupc ≤ jcol)
    (hinj : ∀ t u, t < nsupr → u < nsupr → lsub[istart + t]! = lsub[istart + u]! → t = u)
    (hrow : ∀ t, t < nsupr → lsub[istart + t]! < st.dense.size)
    (hcol : ufirst + nsupr ≤ st.lusup.size) (hwid : nsupc ≤ nsupr)
    (hbefore : luptr + nsupc * nsupr ≤ ufirst)
    (htv : nsupr - nsupc ≤ st.tempv.size) (htz : ∀ i, i < nsupr - nsupc → st.tempv[i]! = 0) :
    S 0 = st ∧
    (∀ k, k < nseg → SegStep jcol fpanelc xsup supno lsub xlsub repfnz segrep[nseg - 1 - k]! (S k) (S (k + 1))) ∧
    (S nseg).dense.size = st.dense.size ∧
    (let D := (S nseg).dense
     let u := fwdSub (fun i r => st.lusup[luptr + (r * nsupr + i)]!) (fun _ => 1) (fun t => D[lsub[istart + t]!]!) nsupc
     let o := colBmod cplx segOps jcol nseg fpanelc segrep repfnz xsup supno lsub xlsub st
     o.lusup.size = st.lusup.size ∧
     (∀ t, t < nsupc → o.lusup[ufirst + t]! = u.getD t 0) ∧
     (∀ i, nsupc ≤ i → i < nsupr → o.lusup[ufirst + i]! =
       D[lsub[istart + i]!]! - ∑ r ∈ range nsupc, st.lusup[luptr + (r * nsupr + i)]! * u.getD r 0) ∧
     (∀ p, (p < ufirst ∨ ufirst + nsupr ≤ p) → o.lusup[p]! = st.lusup[p]!) ∧
     o.dense.size = st.dense.size ∧
     (∀ t, t < nsupr → o.dense[lsub[istart + t]!]! = 0) ∧
     (∀ r, (∀ t, t < nsupr → lsub[istart + t]! ≠ r) → o.dense[r]! = D[r]!) ∧
     o.tempv.size = st.tempv.size ∧ (∀ i : Nat, o.tempv[i]! = st.tempv[i]!) ∧
     o.xlusup = st.xlusup.setIfInBounds (jcol + 1) (ufirst + nsupr)) := by
  subst hS
  obtain ⟨⟨i1, i2, i3, i4, i5⟩, steps⟩ := colSegments_chain cplx segOps jcol nseg fpanelc segrep repfnz xsup supno lsub xlsub st H nseg (Nat.le_refl _)
  have hc : colBmod cplx segOps jcol nseg fpanelc segrep repfnz xsup supno lsub xlsub st =
      snodeBmod cplx jcol fsupc lsub xlsub (segsUpTo cplx segOps jcol nseg fpanelc segrep repfnz xsup supno lsub xlsub st nseg) := by
    unfold colBmod
    rw [colSegments_eq_segsUpTo, colTail_eq_snodeBmod _ _ _ _ _ _ _ _ (e0 ▸ hp), ← e0]
  refine ⟨rfl, steps, i3, ?_⟩
  intro D u o
  obtain ⟨a1, a2, a3, a4, a5, a6, a7, a8, a9, a10⟩ := snodeBmod_spec cplx jcol fsupc lsub xlsub
    (segsUpTo cplx segOps jcol nseg fpanelc segrep repfnz xsup supno lsub xlsub st nseg) istart nsupr ufirst luptr nsupc
    e1 e2 (by rw [i2]; exact e3) (by rw [i2]; exact e4) e5 hle hinj (fun t ht => by rw [i3]; exact hrow t ht)
    (by rw [i1]; exact hcol) hwid hbefore (by rw [i4]; exact htv) (fun i hi => by rw [i5]; exact htz i hi)
  rw [← hc, i1] at a1 a2 a3 a4
  rw [← hc] at a5 a6 a7 a8 a9 a10
  rw [i2] at a10
  exact ⟨a1, a2, a3, a4, a5.trans i3, a6, a7, a8.trans i4, fun i => (a9 i).trans (i5 i), a10⟩

/-! Hypotheses are satisfiable: a finished supernode of 5 columns and 7 rows (columns 0..4), the
current supernode {5, 6} with 3 rows and `jcol = 6`; one listed segment `krep = 4`, `repfnz[4] = 0`
(segment size 5: the `lsolve` + `matvec` case), `fpanelc = 0`. -/
def cXsup : Array Nat := #[0, 5, 7]
def cSupno : Array Nat := #[0, 0, 0, 0, 0, 1, 1]
def cXlsub : Array Nat := #[0, 7, 7, 7, 7, 7, 10, 10]
def cLsub : Array Nat := #[3, 1, 4, 0, 6, 2, 5, 2, 5, 0]
def cXlusup : Array Nat := #[0, 7, 14, 21, 28, 35, 38, 0]
def cRepfnz : Array Nat := #[0, 0, 0, 0, 0, 0, 0]
def cSegrep : Array Nat := #[4]
def cLusup : Array Rat := (Array.range 41).map fun k => ((((k * 5 + 1) % 3 : Nat) : Int) - 1 : Int)
def cDense : Array Rat := (Array.range 7).map fun k => ((((k * 3 + 2) % 5 : Nat) : Int) - 2 : Int)
def cSt : SnodeSt Rat := { lusup := cLusup, xlusup := cXlusup, dense := cDense, tempv := Array.replicate 7 0 }
def cG : Seg := segGeom 0 cXsup cSupno cXlsub cSt.xlusup cRepfnz 4

example : cG = { lptr := 0, luptr := 0, nsupr := 7, nsupc := 5, nrow := 2, segsze := 5, noZeros := 0, cnt := 2 } := by decide +kernel
example : (colBmod false true 6 1 0 cSegrep cRepfnz cXsup cSupno cLsub cXlsub cSt).lusup.extract 38 41 = #[11, -12, 5] := by decide +kernel
example : (colBmod true true 6 1 0 cSegrep cRepfnz cXsup cSupno cLsub cXlsub cSt).lusup.extract 38 41 = #[11, -12, 5] := by decide +kernel
example : (colSegments false true 6 1 0 cSegrep cRepfnz cXsup cSupno cLsub cXlsub cSt).dense = #[-6, -3, 11, -1, 3, -12, -6] := by decide +kernel
theorem cG_distinct : ∀ t, t < cG.segsze + cG.nrow → ∀ u, u < cG.segsze + cG.nrow →
    cLsub[cG.lptr + cG.noZeros + t]! = cLsub[cG.lptr + cG.noZeros + u]! → t = u := by decide +kernel
theorem cG_ok : SegOK cLsub cG cSt.dense :=
  ⟨by decide +kernel, by decide +kernel, by decide +kernel, fun t u ht hu => cG_distinct t ht u hu, by decide +kernel⟩
example := colBmod_segment_spec false true 6 0 cXsup cSupno cLsub cXlsub cRepfnz 4 cSt cG rfl (by decide +kernel) cG_ok
  (fun _ => by decide +kernel) (fun _ => by decide +kernel)
theorem cTail_distinct : ∀ t, t < 3 → ∀ u, u < 3 → cLsub[7 + t]! = cLsub[7 + u]! → t = u := by decide +kernel
example := colBmod_spec_partial false true 6 1 0 cSegrep cRepfnz cXsup cSupno cLsub cXlsub cSt _ rfl
  (fun k hk => by
    obtain rfl : k = 0 := by omega
    exact fun _ => ⟨cG_ok, fun _ => ⟨by decide +kernel, by decide +kernel⟩⟩)
  5 7 3 38 35 1 (by decide +kernel) (by decide) (by decide +kernel) (by decide +kernel) (by decide +kernel) (by decide +kernel)
  (by decide) (by decide) (fun t u ht hu => cTail_distinct t ht u hu) (by decide +kernel) (by decide +kernel) (by decide)
  (by decide) (by decide +kernel) (by decide +kernel)

/-- **C01/C02 (one U-segment of `column_bmod` instantiates the "dense solve + gemv" step of the
supernodal schedule theorem).**  `cols` are the columns `kfnz..krep` of the supernode as the
factorization model holds them (`(pivot row, column of L)`, e.g. a block of `prev st j` in C02
`luFactor_supernodal_schedule`), agreeing with the storage on the rows `kfnz..` of the supernode (zero
above the pivot, one at the pivot, the stored multipliers below).  Then what the iteration — the
hand-written cases for sizes 1, 2, 3 or mirrored `lsolve` + `matvec` — leaves in `dense` is the abstract
block update `Slu.LU.snodeBlock cols dense` (= `elimBlocks [cols] dense` = the column-by-column
elimination `elim cols dense`): its U-segment at the pivot rows (where `column_bmod` parks it until
`copy_to_ucol`), its remaining vector at the rows below. -/
theorem colBmod_segment_is_supernodal_step (cplx segOps : Bool) (jcol fpanelc : Nat)
    (xsup supno lsub xlsub repfnz : Array Nat) (krep : Nat) (st : SnodeSt K) (g : Seg)
    (hg : g = segGeom fpanelc xsup supno xlsub st.xlusup repfnz krep)
    (hne : supno[jcol]! ≠ supno[krep]!) (ok : SegOK lsub g st.dense)
    (htv : 4 ≤ g.segsze → g.segsze + g.nrow ≤ st.tempv.size)
    (htz : 4 ≤ g.segsze → ∀ i, i < g.segsze + g.nrow → st.tempv[i]! = 0)
    (cols : List (Nat × LU.Vec K)) (hlen : cols.length = g.segsze)
    (R1 : ∀ t (ht : t < cols.length), (cols[t]).1 = lsub[g.lptr + g.noZeros + t]!)
    (R2 : ∀ t (ht : t < cols.length) i, i < g.segsze + g.nrow → (cols[t]).2.get (lsub[g.lptr + g.noZeros + i]!) =
        if i < t then 0 else if i = t then 1
        else st.lusup[g.luptr + (g.nsupr * g.noZeros + g.noZeros) + (t * g.nsupr + i)]!) :
    LU.snodeBlock cols st.dense = LU.elim cols st.dense ∧
    LU.elimBlocks [cols] st.dense = LU.elim cols st.dense ∧
    (∀ s, s < g.segsze →
      (colSegment cplx segOps jcol fpanelc xsup supno lsub xlsub repfnz krep st).dense[lsub[g.lptr + g.noZeros + s]!]! =
        (LU.snodeBlock cols st.dense).2.getD s 0) ∧
    (∀ i, i < g.nrow →
      (colSegment cplx segOps jcol fpanelc xsup supno lsub xlsub repfnz krep st).dense[lsub[g.lptr + g.noZeros + (g.segsze + i)]!]! =
        (LU.snodeBlock cols st.dense).1.get (lsub[g.lptr + g.noZeros + (g.segsze + i)]!)) := by
  obtain ⟨hU, hr, c1, c2⟩ := segUpdate_eq_snodeBlock' cplx lsub g st.lusup st.dense st.tempv ok htv htz cols hlen R1 R2
  have hd : (colSegment cplx segOps jcol fpanelc xsup supno lsub xlsub repfnz krep st).dense =
      (segUpdate cplx lsub g st.lusup st.dense st.tempv).1 := by
    unfold colSegment; rw [if_pos hne, ← hg]
  have hb := LU.snodeBlock_eq_elim cols st.dense hU hr
  have hs := LU.snodeSolve_eq_elim cols st.dense hr
  refine ⟨hb, ?_, fun t ht => ?_, fun i hi => ?_⟩
  · have := LU.elimBlocks_eq_elim [cols] st.dense (fun b hb' => by simp at hb'; subst hb'; exact hU)
      (fun b hb' x hx => by simp at hb'; subst hb'; exact hr x hx)
    simpa using this
  · rw [hd, c1 t ht, hb, hs]
  · rw [hd, c2 i hi, hb, hs, LU.snodeGemv_eq_elim]

/-! the model's columns for the example segment (`cG`: columns 0..4 of the first supernode, 7 rows) -/
def cCols : List (Nat × LU.Vec Rat) := (List.range 5).map fun t =>
  (cLsub[t]!, (Array.range 7).map fun r =>
    match (List.range 7).find? (fun i => cLsub[i]! == r) with
    | some i => if i < t then 0 else if i = t then 1 else cLusup[t * 7 + i]!
    | none => 0)
theorem cCols_R1 : ∀ t (ht : t < cCols.length), (cCols[t]).1 = cLsub[cG.lptr + cG.noZeros + t]! := by decide +kernel
theorem cCols_R2 : ∀ t (ht : t < cCols.length) i, i < cG.segsze + cG.nrow → (cCols[t]).2.get (cLsub[cG.lptr + cG.noZeros + i]!) =
    if i < t then 0 else if i = t then 1
    else cSt.lusup[cG.luptr + (cG.nsupr * cG.noZeros + cG.noZeros) + (t * cG.nsupr + i)]! := by decide +kernel
example := colBmod_segment_is_supernodal_step false true 6 0 cXsup cSupno cLsub cXlsub cRepfnz 4 cSt cG rfl (by decide +kernel) cG_ok
  (fun _ => by decide +kernel) (fun _ => by decide +kernel) cCols (by decide +kernel) cCols_R1 cCols_R2

/-- **C01 (`column_bmod` as a whole, EVERY `fpanelc`).**  As `colBmod_spec_partial`, without the
restriction `fpanelc ≤ fsupc`: `fstCol = max(fsupc, fpanelc)`, `d = fstCol − fsupc` (`d_fsupc`), the
in-supernode update uses the columns `fstCol..jcol-1` (`nsupc` of them; `luptr = xlusup[fstCol] + d`
addresses the diagonal cell of column `fstCol`).  With `D` the `dense` left by the segment loop
(`S nseg`, each iteration a `SegStep` from its predecessor's state) column `jcol` of `lusup` holds:
`D` itself on the first `d` rows (they were updated through the segment loop / `panel_bmod`), the
forward substitution `u` with the unit lower block of columns `fstCol..jcol-1` on the next `nsupc`
rows, and `D[row] − Σ_r L(row, r)·u_r` below; nothing else in `lusup` changed; `dense` is zero on the
supernode's rows and `D` elsewhere; `tempv` as before (zero); `xlusup[jcol+1]` set. -/
theorem colBmod_spec (cplx segOps : Bool) (jcol nseg fpanelc : Nat) (segrep repfnz xsup supno lsub xlsub : Array Nat)
    (st : SnodeSt K) (S : Nat → SnodeSt K)
    (hS : S = segsUpTo cplx segOps jcol nseg fpanelc segrep repfnz xsup supno lsub xlsub st)
    (H : ∀ k, k < nseg → SegHyp jcol fpanelc xsup supno lsub xlsub repfnz segrep[nseg - 1 - k]! st)
    (fsupc fstCol d istart nsupr ucol luptr nsupc : Nat)
    (e0 : fsupc = xsup[supno[jcol]!]!) (ef : fstCol = max fsupc fpanelc) (ed : d = fstCol - fsupc)
    (e1 : istart = xlsub[fsupc]!) (e2 : nsupr = xlsub[fsupc + 1]! - istart)
    (e3 : ucol = st.xlusup[jcol]!) (e4 : luptr = st.xlusup[fstCol]! + d) (e5 : nsupc = jcol - fstCol)
    (hle : fstCol ≤ jcol)
    (hinj : ∀ t u, t < nsupr → u < nsupr → lsub[istart + t]! = lsub[istart + u]! → t = u)
    (hrow : ∀ t, t < nsupr → lsub[istart + t]! < st.dense.size)
    (hcol : ucol + nsupr ≤ st.lusup.size) (hwid : d + nsupc ≤ nsupr)
    (hbefore : luptr + nsupc * nsupr ≤ ucol + d)
    (htv : nsupr - d - nsupc ≤ st.tempv.size) (htz : ∀ i, i < nsupr - d - nsupc → st.tempv[i]! = 0) :
    S 0 = st ∧
    (∀ k, k < nseg → SegStep jcol fpanelc xsup supno lsub xlsub repfnz segrep[nseg - 1 - k]! (S k) (S (k + 1))) ∧
    (S nseg).dense.size = st.dense.size ∧
    (let D := (S nseg).dense
     let u := fwdSub (fun i r => st.lusup[luptr + (r * nsupr + i)]!) (fun _ => 1) (fun t => D[lsub[istart + (d + t)]!]!) nsupc
     let o := colBmod cplx segOps jcol nseg fpanelc segrep repfnz xsup supno lsub xlsub st
     o.lusup.size = st.lusup.size ∧
     (∀ t, t < d → o.lusup[ucol + t]! = D[lsub[istart + t]!]!) ∧
     (∀ t, t < nsupc → o.lusup[ucol + (d + t)]! = u.getD t 0) ∧
     (∀ i, d + nsupc ≤ i → i < nsupr → o.lusup[ucol + i]! =
       D[lsub[istart + i]!]! - ∑ r ∈ range nsupc, st.lusup[luptr + (r * nsupr + (i - d))]! * u.getD r 0) ∧
     (∀ p, (p < ucol ∨ ucol + nsupr ≤ p) → o.lusup[p]! = st.lusup[p]!) ∧
     o.dense.size = st.dense.size ∧
     (∀ t, t < nsupr → o.dense[lsub[istart + t]!]! = 0) ∧
     (∀ r, (∀ t, t < nsupr → lsub[istart + t]! ≠ r) → o.dense[r]! = D[r]!) ∧
     o.tempv.size = st.tempv.size ∧ (∀ i : Nat, o.tempv[i]! = st.tempv[i]!) ∧
     o.xlusup = st.xlusup.setIfInBounds (jcol + 1) (ucol + nsupr)) := by
  subst hS
  obtain ⟨⟨i1, i2, i3, i4, i5⟩, steps⟩ := colSegments_chain cplx segOps jcol nseg fpanelc segrep repfnz xsup supno lsub xlsub st H nseg (Nat.le_refl _)
  refine ⟨rfl, steps, i3, ?_⟩
  intro D u o
  have hz : ∀ i, i < nsupc → (fun t => u.getD t 0) i = D[lsub[istart + (d + i)]!]! -
      ∑ j ∈ range i, (fun t => u.getD t 0) j *
        (segsUpTo cplx segOps jcol nseg fpanelc segrep repfnz xsup supno lsub xlsub st nseg).lusup[luptr + (j * nsupr + i)]! := by
    intro i hi
    rw [i1]
    show u.getD i 0 = _
    rw [fwd_rec _ _ _ nsupc i hi, div_one]
    congr 1
    exact Finset.sum_congr rfl (fun j _ => mul_comm _ _)
  obtain ⟨a1, a2, a3, a4, a5, a6, a7, a8, a9, a10, a11⟩ := colTail_spec' cplx jcol fpanelc xsup supno lsub xlsub
    (segsUpTo cplx segOps jcol nseg fpanelc segrep repfnz xsup supno lsub xlsub st nseg)
    fsupc fstCol d istart nsupr ucol luptr nsupc e0 ef ed e1 e2 (by rw [i2]; exact e3) (by rw [i2]; exact e4) e5 hle hinj
    (fun t ht => by rw [i3]; exact hrow t ht) (by rw [i1]; exact hcol) hwid hbefore (by rw [i4]; exact htv)
    (fun i hi => by rw [i5]; exact htz i hi) (fun t => u.getD t 0) hz
  rw [i1] at a1 a4 a5
  rw [i2] at a11
  exact ⟨a1, a2, a3, a4, a5, a6.trans i3, a7, a8, a9.trans i4, fun i => (a10 i).trans (i5 i), a11⟩

/-! `colBmod_spec` on the example above (`fstCol = 5`, `d = 0`, `ucol = 38`, `luptr = 35`, `nsupc = 1`) -/
example := colBmod_spec false true 6 1 0 cSegrep cRepfnz cXsup cSupno cLsub cXlsub cSt _ rfl
  (fun k hk => by
    obtain rfl : k = 0 := by omega
    exact fun _ => ⟨cG_ok, fun _ => ⟨by decide +kernel, by decide +kernel⟩⟩)
  5 5 0 7 3 38 35 1 (by decide +kernel) (by decide +kernel) (by decide) (by decide +kernel) (by decide +kernel)
  (by decide +kernel) (by decide +kernel) (by decide) (by decide) (fun t u ht hu => cTail_distinct t ht u hu)
  (by decide +kernel) (by decide +kernel) (by decide) (by decide) (by decide +kernel) (by decide +kernel)

/-! and with the panel starting INSIDE the column's supernode: the first supernode (columns 0..4, 7
rows) taken as the current one, `jcol = 4`, `fpanelc = 2`: `fstCol = 2`, `d = 2`, `nsupc = 2`,
`ucol = 28`, `luptr = xlusup[2] + 2 = 16`, no listed segment -/
example : (colBmod false true 4 0 2 #[] cRepfnz cXsup cSupno cLsub cXlsub cSt).lusup.extract 28 35 = #[-1, -2, 2, -2, -4, 5, -2] := by
  decide +kernel
example : (colBmod true true 4 0 2 #[] cRepfnz cXsup cSupno cLsub cXlsub cSt).lusup.extract 28 35 = #[-1, -2, 2, -2, -4, 5, -2] := by
  decide +kernel
theorem cHead_distinct : ∀ t, t < 7 → ∀ u, u < 7 → cLsub[0 + t]! = cLsub[0 + u]! → t = u := by decide +kernel
example := colBmod_spec false true 4 0 2 #[] cRepfnz cXsup cSupno cLsub cXlsub cSt _ rfl
  (fun k hk => absurd hk (by omega))
  0 2 2 0 7 28 16 2 (by decide +kernel) (by decide +kernel) (by decide) (by decide +kernel) (by decide +kernel)
  (by decide +kernel) (by decide +kernel) (by decide) (by decide) (fun t u ht hu => cHead_distinct t ht u hu)
  (by decide +kernel) (by decide +kernel) (by decide) (by decide) (by decide +kernel) (by decide +kernel)

end Slu.ColBmod
