import SluProofs.Lemmas.Solve
import SluProofs.Lemmas.SolveT
import SluProofs.Props.C02
import SluProofs.Props.C04
/-
C01 — Simple driver returns a solution of A*X = B.

Exact-arithmetic core of the property for the modelled driver `gssvGlue` (SRC/dgssv.c:209-236:
order columns, factor `A*Pc` with threshold pivoting, then permute / forward / back / permute):
whenever it reports `info = 0` for a square system, every returned column X_r satisfies the caller's
equations exactly, for every column permutation, every threshold, every candidate order, every
number of right-hand sides.  The floating-point statement of C01 (componentwise bound with the
returned factors) is then checked on the implementation's outputs in exact rationals on every run;
its rounding constants are cited, not proved (see level_note).

Row storage (SLU_NR, SRC/dgssv.c:187-196, 225-229): the arrays of a row-stored A are those of Aᵀ in
column storage; the driver factors that matrix and calls the transposed solve.  This orientation is
proved as well: `gstrsT_solves` (Lemmas/SolveT.lean) shows that the modelled TRANS / CONJ solve
`gstrsT f` satisfies `Σ_i f(A'(i,c)) x_i = b_c` for every ring homomorphism `f`, every column
permutation, every right-hand side and every n; `gssv_solves_row_storage` below is the driver-level
statement for `gssvGlueNR` (`info = 0` ⇒ every equation of `A * X_r = B_r` holds, A row-stored), and
`gstrsT_solves_conj` is the CONJ instance over the Gaussian rationals (`Aᴴ x = b`, conjugation
`zz_conj` being a ring homomorphism of `Cx Rat`).
-/
namespace Slu.LU
open Slu Finset

variable {K : Type} [Field K] [Mag K Rat]

/-- **C01 (column storage).** `info = 0` ⇒ `A * X_r = B_r` for every right-hand side, where column
`c` of A is column `permC[c]` of the factored matrix `A*Pc`. -/
theorem gssv_solves (laws : MagLaws K) (P : Params K Rat) (hP : Legal P) (hsq : P.m = P.n)
    (permC : Array Nat) (hpc : permC.size = P.n)
    (hperm : ((List.range P.n).map fun c => permC.getD c 0).Perm (List.range P.n))
    (B : List (Vec K)) (hB : ∀ b ∈ B, b.size = P.m)
    (h : (gssvGlue P permC B).1 = 0) :
    (gssvGlue P permC B).2.length = B.length ∧
    ∀ r (hr : r < B.length) (i : Nat), i < P.m →
      ∑ c ∈ range P.n, (P.col (permC.getD c 0)).get i * (((gssvGlue P permC B).2.getD r #[]).get c) = (B[r]).get i := by
  unfold gssvGlue at h ⊢
  by_cases hz : (luFactor P false).info ≠ 0
  · simp [hz] at h
  · have h0 : (luFactor P false).info = 0 := by simpa using hz
    simp only [hz, if_false, List.length_map, true_and]
    intro r hr i hi
    have inv : Inv P (luFactor P false) P.n := by
      rw [luFactor_eq_run] at h0 ⊢
      exact run_inv laws P (le_of_lt hP.u_pos) hP.u_le_one hP.col_size false P.n h0
    have hbr : (B[r]).size = P.m := hB _ (List.getElem_mem hr)
    have := gstrsN_solves P (luFactor P false) hsq inv hP.col_size permC hpc hperm (B[r]) hbr i hi
    simpa [List.getD, hr] using this

/-- **C01 (failure leaves B alone).** restated from C04 for the driver's interface -/
theorem gssv_info_nonzero_B_untouched (P : Params K Rat) (permC : Array Nat) (B : List (Vec K))
    (h : (gssvGlue P permC B).1 ≠ 0) : (gssvGlue P permC B).2 = B :=
  gssv_singular_B_untouched P permC B h

/-- **C01 (each right-hand side is solved on its own).** The solution of column `r` depends only on
column `r` of B (any number of columns, in any company). -/
theorem gssv_columns_independent (P : Params K Rat) (permC : Array Nat) (B B' : List (Vec K)) (r r' : Nat)
    (hr : r < B.length) (hr' : r' < B'.length) (hsame : B[r] = B'[r'])
    (h : (luFactor P false).info = 0) :
    (gssvGlue P permC B).2.getD r #[] = (gssvGlue P permC B').2.getD r' #[] := by
  unfold gssvGlue
  simp [h, List.getD, hr, hr', hsame]

/-! ### Row storage (SLU_NR): the transposed solve -/

/-- the simple driver on a row-stored matrix (SRC/dgssv.c:187-196, 225-229): the arrays of a SLU_NR
matrix are those of Aᵀ in column storage; the driver factors that matrix (`P.col j` = column `j` of
`Aᵀ*Pc`, a row of A) and solves with `trans = TRANS`, only when `info = 0` -/
def gssvGlueNR (P : Params K Rat) (permC : Array Nat) (B : List (Vec K)) : Nat × List (Vec K) :=
  let st := luFactor P false
  if st.info ≠ 0 then (st.info, B) else (0, B.map (gstrsT id st.piv st.L st.U permC))

/-- **C01 (row storage).** `info = 0` ⇒ `A * X_r = B_r` for every right-hand side of a row-stored
square A: row `c` of A is column `c` of Aᵀ, i.e. column `permC[c]` of the factored matrix `Aᵀ*Pc`, so
equation `c` reads `Σ_i (P.col permC[c])(i) * X_r(i) = B_r(c)`.  Every returned column has length n. -/
theorem gssv_solves_row_storage (laws : MagLaws K) (P : Params K Rat) (hP : Legal P) (hsq : P.m = P.n)
    (permC : Array Nat)
    (hperm : ((List.range P.n).map fun c => permC.getD c 0).Perm (List.range P.n))
    (B : List (Vec K))
    (h : (gssvGlueNR P permC B).1 = 0) :
    (gssvGlueNR P permC B).2.length = B.length ∧
    ∀ r (hr : r < B.length),
      ((gssvGlueNR P permC B).2.getD r #[]).size = P.n ∧
      ∀ c < P.n,
        ∑ i ∈ range P.m, (P.col (permC.getD c 0)).get i * (((gssvGlueNR P permC B).2.getD r #[]).get i) = (B[r]).get c := by
  unfold gssvGlueNR at h ⊢
  by_cases hz : (luFactor P false).info ≠ 0
  · simp [hz] at h
  · have h0 : (luFactor P false).info = 0 := by simpa using hz
    simp only [hz, if_false, List.length_map, true_and]
    intro r hr
    have inv : Inv P (luFactor P false) P.n := by
      rw [luFactor_eq_run] at h0 ⊢
      exact run_inv laws P (le_of_lt hP.u_pos) hP.u_le_one hP.col_size false P.n h0
    refine ⟨?_, ?_⟩
    · simp [List.getD, hr, gstrsT_size, inv.sizes.1]
    · intro c hc
      have := gstrsT_solves (RingHom.id K) P (luFactor P false) hsq inv permC hperm (B[r]) c hc
      simpa [List.getD, hr] using this

/-- **C01 (row storage: failure leaves B alone).** -/
theorem gssv_row_storage_singular_B_untouched (P : Params K Rat) (permC : Array Nat) (B : List (Vec K))
    (h : (gssvGlueNR P permC B).1 ≠ 0) : (gssvGlueNR P permC B).2 = B := by
  unfold gssvGlueNR at h ⊢
  by_cases hz : (luFactor P false).info ≠ 0
  · simp [hz]
  · simp [hz] at h

/-! ### CONJ: the conjugate-transposed solve over the Gaussian rationals -/

/-- complex conjugation (`zz_conj`, the `HasConj` instance of `Cx`) is a ring homomorphism of the
Gaussian rationals -/
def conjHom : Cx Rat →+* Cx Rat where
  toFun := HasConj.conj
  map_one' := by apply Cx.ext' <;> simp [HasConj.conj, Cx.conj, Cx.one_def]
  map_mul' a b := by
    apply Cx.ext'
    · simp [HasConj.conj, Cx.conj, Cx.mul_def]
    · simp [HasConj.conj, Cx.conj, Cx.mul_def]; ring
  map_zero' := by apply Cx.ext' <;> simp [HasConj.conj, Cx.conj, Cx.zero_def]
  map_add' a b := by
    apply Cx.ext'
    · simp [HasConj.conj, Cx.conj, Cx.add_def]
    · simp [HasConj.conj, Cx.conj, Cx.add_def]; ring

theorem conjHom_apply (z : Cx Rat) : conjHom z = HasConj.conj z := rfl

/-- **C01 (CONJ).** the solve with `f = conj` returns a solution of `Aᴴ x = b`:
`Σ_i conj(A(i,c)) * x_i = b_c` for every column `c` of A (column `permC[c]` of the factored matrix) -/
theorem gstrsT_solves_conj (P : Params (Cx Rat) Rat) (st : St (Cx Rat)) (hsq : P.m = P.n) (inv : Inv P st P.n)
    (permC : Array Nat)
    (hperm : ((List.range P.n).map fun c => permC.getD c 0).Perm (List.range P.n))
    (b : Vec (Cx Rat)) (c : Nat) (hc : c < P.n) :
    ∑ i ∈ range P.m, HasConj.conj ((P.col (permC.getD c 0)).get i) *
        (gstrsT HasConj.conj st.piv st.L st.U permC b).get i = b.get c :=
  gstrsT_solves conjHom P st hsq inv permC hperm b c hc

/-! non-vacuity: the 3x3 example of C02 (row interchange in the first column) solved for one
right-hand side: A x = b holds exactly -/
example : (gssvGlue exP #[0, 1, 2] [#[3, 8, 7]]).1 = 0 := by decide +kernel
example : (gssvGlue exP #[0, 1, 2] [#[3, 8, 7]]).2 = [#[1, 1, 1]] := by decide +kernel

/-! non-vacuity (row storage): A = [[2, 1], [4, 3]] stored by rows, column order `permC = [1, 0]`, so the
factored matrix `Aᵀ*Pc` has columns (row 1 of A, row 0 of A); b = A * (1, 2)ᵀ = (4, 10)ᵀ.  The
hypotheses of `gssv_solves_row_storage` hold, the driver reports success and returns (1, 2)ᵀ; the
non-transposed solve on the same arrays returns something else (the orientation matters). -/
def exNR : Params Rat Rat :=
  { m := 2, n := 2, col := fun j => if j = 0 then #[4, 3] else #[2, 1], u := 1, order := fun _ => [0, 1],
    oldPiv := fun _ => 0, diagRow := fun j => j }

theorem exNR_legal : Legal exNR :=
  ⟨by decide, by decide, by intro j; by_cases h : j = 0 <;> simp [exNR, h]⟩

example : ((List.range exNR.n).map fun c => (#[1, 0] : Array Nat).getD c 0).Perm (List.range exNR.n) := by decide
example : (gssvGlueNR exNR #[1, 0] [#[4, 10]]).1 = 0 := by decide +kernel
example : (gssvGlueNR exNR #[1, 0] [#[4, 10]]).2 = [#[1, 2]] := by decide +kernel
example : (gssvGlue exNR #[1, 0] [#[4, 10]]).2 ≠ [#[1, 2]] := by decide +kernel
example := gssv_solves_row_storage magLaws_rat exNR exNR_legal rfl #[1, 0] (by decide) [#[4, 10]] (by decide +kernel)

/-! non-vacuity (CONJ): the factored matrix has columns (1+i, i) and (2, 1-i); with x = (1, i)ᵀ,
`Aᴴ x = (2-i, 1+i)ᵀ`.  The conjugated solve recovers x, the plain transposed solve does not. -/
def exCx : Params (Cx Rat) Rat :=
  { m := 2, n := 2, col := fun j => if j = 0 then #[⟨1, 1⟩, ⟨0, 1⟩] else #[⟨2, 0⟩, ⟨1, -1⟩], u := 1,
    order := fun _ => [0, 1], oldPiv := fun _ => 0, diagRow := fun j => j }

example : (luFactor exCx false).info = 0 := by decide +kernel
example : (let st := luFactor exCx false
    gstrsT HasConj.conj st.piv st.L st.U #[0, 1] #[⟨2, -1⟩, ⟨1, 1⟩]) = #[⟨1, 0⟩, ⟨0, 1⟩] := by decide +kernel
example : (let st := luFactor exCx false
    gstrsT id st.piv st.L st.U #[0, 1] #[⟨2, -1⟩, ⟨1, 1⟩]) ≠ #[⟨1, 0⟩, ⟨0, 1⟩] := by decide +kernel

end Slu.LU
