import SluProofs.Lemmas.LUInv
import SluProofs.Lemmas.Transversal
import SluProofs.Props.C02
/-
C04 — Exact singularity is reported, never silently solved.

About `Slu.LU.luFactor` (exact arithmetic): a nonzero `info` is `j+1` for the FIRST column `j` whose
pivot candidates are all exactly zero (or absent); the columns before it form a valid factorization
(the full invariant of C02 holds for them); success implies a nonzero diagonal of U — both for
every threshold `0 ≤ u ≤ 1`, including `u = 0` (any nonzero diagonal accepted); and the
driver glue returns the right-hand side untouched without solving.

STRUCTURAL SINGULARITY (square case) is a theorem about the model, no longer tied by generated
Hall-violation inputs only: `luFactor_success_has_transversal` — `info = 0` implies that some
permutation `σ` of the rows has `A(σ j, j) ≠ 0` in every column (`A = Prᵀ L U` with unit lower `L` and
nonzero diagonal of `U`, so `det A ≠ 0`, and a nonzero determinant has a nonzero Leibniz term;
Lemmas/Transversal.lean) — hence `structurally_singular_is_reported` / `structurally_singular_info`:
a matrix whose sparsity pattern has no transversal (`StructSingular`; in particular every Hall
violation, `structSingular_of_hall*`, `hall_violation_is_reported`: k columns whose entries lie in
fewer than k rows) returns `info = j+1` for a column `j < n`, whatever the values, the threshold in
[0, 1], the candidate order, the diagonal rows and the reuse state.  Over any field with `MagLaws`
(instances `Rat`, `Cx Rat`).  What stays tied by correspondence (family `lu`, classes with Hall
violations, empty and duplicate columns) is that the imperative code returns the model's `info`.
-/
namespace Slu.LU
open Slu

variable {K : Type} [Field K] [Mag K Rat]

theorem run_stuck (P : Params K Rat) (b : Bool) (j k : Nat) (hk : j ≤ k) (h : (run P b j).info ≠ 0) :
    run P b k = run P b j := by
  induction k with
  | zero => have : j = 0 := by omega
            subst this; rfl
  | succ k ih =>
    rcases Nat.lt_succ_iff_lt_or_eq.mp (Nat.lt_succ_of_le hk) with hlt | rfl
    · rw [run_succ, ih (by omega), step_stuck P _ k h]
    · rfl

/-- the info value produced by one step that meets a zero pivot -/
theorem step_info (laws : MagLaws K) (P : Params K Rat) (st : St K) (j : Nat) (h0 : st.info = 0) :
    ((step P st j).info = 0 ∨ (step P st j).info = j + 1) ∧
    ((step P st j).info = j + 1 ↔ ∀ c ∈ stepCands P st j, (Mag.abs1 c.2 : Rat) = 0) := by
  have hpi := pivotChoice_info laws.nonneg j (stepCands P st j) (fun p => P.u * p) st.usepr (P.oldPiv j) (P.diagRow j)
  rw [step_unfold P st j h0]
  unfold stepOut
  by_cases hz : (pivotChoice (R := Rat) j (stepCands P st j) (fun p => P.u * p) st.usepr (P.oldPiv j) (P.diagRow j)).info = 0
  · simp only [hz, ne_eq, not_true_eq_false, if_false]
    refine ⟨Or.inl trivial, ⟨fun h => by omega, fun h => ?_⟩⟩
    have := hpi.2.mpr h
    omega
  · simp only [ne_eq, hz, not_false_eq_true, if_true]
    rcases hpi.1 with h1 | h1
    · exact absurd h1 hz
    · exact ⟨Or.inr h1, ⟨fun _ => hpi.2.mp h1, fun _ => h1⟩⟩

/-- **C04 (the only possible values).** `info` is 0 or `j+1` for a column `j < n`. -/
theorem luFactor_info_range (laws : MagLaws K) (P : Params K Rat) (b : Bool) :
    (luFactor P b).info = 0 ∨ ∃ j < P.n, (luFactor P b).info = j + 1 ∧ (run P b j).info = 0 ∧
      run P b (j + 1) = luFactor P b := by
  rw [luFactor_eq_run]
  generalize P.n = n
  induction n with
  | zero => left; simp [run_zero]
  | succ n ih =>
    rcases ih with h0 | ⟨j, hj, h1, h2, h3⟩
    · rw [run_succ]
      rcases (step_info laws P _ n h0).1 with h | h
      · left; exact h
      · right; exact ⟨n, by omega, h, h0, by rw [run_succ]⟩
    · right
      have hne : (run P b n).info ≠ 0 := by rw [h1]; omega
      have hst : run P b (n + 1) = run P b n := by rw [run_succ, step_stuck P _ n hne]
      exact ⟨j, by omega, by rw [hst]; exact h1, h2, by rw [hst]; exact h3⟩

/-- **C04 (exactly when).** `info = j+1` iff the first `j` columns were factored without a zero pivot
and every pivot candidate of column `j` (after elimination by those columns) is exactly zero. -/
theorem luFactor_info_iff (laws : MagLaws K) (P : Params K Rat) (b : Bool) (j : Nat) (hj : j < P.n) :
    (luFactor P b).info = j + 1 ↔
      ((run P b j).info = 0 ∧ ∀ c ∈ stepCands P (run P b j) j, (Mag.abs1 c.2 : Rat) = 0) := by
  rw [luFactor_eq_run]
  constructor
  · intro h
    rcases luFactor_info_range laws P b with h0 | ⟨j', hj', h1, h2, h3⟩
    · rw [luFactor_eq_run] at h0; omega
    · rw [luFactor_eq_run] at h1
      have : j' = j := by omega
      subst this
      refine ⟨h2, ?_⟩
      have hs := (step_info laws P (run P b j') j' h2).2
      rw [← run_succ, h3, luFactor_eq_run] at hs
      exact hs.mp h
  · rintro ⟨h0, hall⟩
    have hs := (step_info laws P (run P b j) j h0).2.mpr hall
    rw [← run_succ] at hs
    have hne : (run P b (j + 1)).info ≠ 0 := by rw [hs]; omega
    rw [run_stuck P b (j + 1) P.n (by omega) hne]; exact hs

/-- **C04 (leading block).** When column `j` is reported, the pivots chosen before it form a valid
factorization of the first `j` columns: the whole C02 invariant (identity, unit lower L, nonzero
diagonal, distinct pivot rows, multiplier bounds) holds for them. -/
theorem luFactor_leading_block (laws : MagLaws K) (P : Params K Rat) (hu0 : 0 ≤ P.u) (hu1 : P.u ≤ 1)
    (hcol : ∀ j, (P.col j).size = P.m) (b : Bool) (j : Nat) (h : (luFactor P b).info = j + 1) :
    Inv P (run P b j) j := by
  rcases luFactor_info_range laws P b with h0 | ⟨j', _, h1, h2, _⟩
  · omega
  · have : j' = j := by omega
    subst this
    exact run_inv laws P hu0 hu1 hcol b j' h2

/-- **C04 (success is never reported with a zero on U's diagonal).** -/
theorem luFactor_success_diag_nonzero (laws : MagLaws K) (P : Params K Rat) (hu0 : 0 ≤ P.u) (hu1 : P.u ≤ 1)
    (hcol : ∀ j, (P.col j).size = P.m) (b : Bool) (h : (luFactor P b).info = 0) (k : Nat) (hk : k < P.n) :
    ((luFactor P b).U.getD k #[]).getD k 0 ≠ 0 := by
  rw [luFactor_eq_run] at h ⊢
  exact (run_inv laws P hu0 hu1 hcol b P.n h).udiag k hk

/-- the simple driver's glue (SRC/dgssv.c:225-231): factor, then solve only when `info = 0` -/
def gssvGlue (P : Params K Rat) (permC : Array Nat) (B : List (Vec K)) : Nat × List (Vec K) :=
  let st := luFactor P false
  if st.info ≠ 0 then (st.info, B) else (0, B.map (gstrsN st.piv st.L st.U permC))

/-- **C04 (no solve, right-hand side untouched).** -/
theorem gssv_singular_B_untouched (P : Params K Rat) (permC : Array Nat) (B : List (Vec K))
    (h : (gssvGlue P permC B).1 ≠ 0) : (gssvGlue P permC B).2 = B := by
  unfold gssvGlue at h ⊢
  by_cases hz : (luFactor P false).info ≠ 0
  · simp [hz]
  · simp [hz] at h

/-! ### Structural singularity -/

/-- **C04 (success needs a transversal).** Square case.  If the factorization succeeds there is a
permutation `σ` of the rows with `A(σ j, j) ≠ 0` for every column `j` — the nonzero pattern of the
matrix has a perfect matching.  (`A = Prᵀ L U`, `det A = ± ∏ U_jj ≠ 0`, Leibniz expansion:
Lemmas/Transversal.lean.)  Every threshold `0 ≤ u ≤ 1`, candidate order, reuse state. -/
theorem luFactor_success_has_transversal (laws : MagLaws K) (P : Params K Rat) (hu0 : 0 ≤ P.u) (hu1 : P.u ≤ 1)
    (hcol : ∀ j, (P.col j).size = P.m) (hsq : P.m = P.n) (b : Bool) (h : (luFactor P b).info = 0) :
    ∃ σ : Equiv.Perm (Fin P.n), ∀ j : Fin P.n, (P.col j).get (σ j) ≠ 0 := by
  rw [luFactor_eq_run] at h
  exact inv_transversal P _ hsq (run_inv laws P hu0 hu1 hcol b P.n h)

/-- the same under the hypothesis bundle of C02 -/
theorem luFactor_success_has_transversal_legal (laws : MagLaws K) (P : Params K Rat) (hP : Legal P)
    (hsq : P.m = P.n) (b : Bool) (h : (luFactor P b).info = 0) :
    ∃ σ : Equiv.Perm (Fin P.n), ∀ j : Fin P.n, (P.col j).get (σ j) ≠ 0 :=
  luFactor_success_has_transversal laws P (le_of_lt hP.u_pos) hP.u_le_one hP.col_size hsq b h

/-- `pat j` lists the rows where column `j` MAY be nonzero (the sparsity pattern; explicit zeros are
allowed).  The pattern is structurally singular when it has no transversal: no permutation `σ` of
`0..n-1` with `σ j ∈ pat j` for every column `j` — so every matrix with that pattern is singular. -/
def StructSingular (n : Nat) (pat : Nat → List Nat) : Prop :=
  ¬ ∃ σ : Equiv.Perm (Fin n), ∀ j : Fin n, (σ j : Nat) ∈ pat j

/-- **Hall violation ⟹ structurally singular.** `S`: a set of columns, `T`: a set of rows containing
the pattern of every column of `S`; `|T| < |S|`. -/
theorem structSingular_of_hall (n : Nat) (pat : Nat → List Nat) (S T : Finset Nat)
    (hS : ∀ j ∈ S, j < n) (hT : ∀ j ∈ S, ∀ i ∈ pat j, i ∈ T) (hcard : T.card < S.card) :
    StructSingular n pat :=
  no_transversal_of_hall n (fun j i => i ∈ pat j) S T hS hT hcard

/-- the same with `T` the union of the patterns: `|⋃_{j ∈ S} pat j| < |S|` -/
theorem structSingular_of_hall_union (n : Nat) (pat : Nat → List Nat) (S : Finset Nat)
    (hS : ∀ j ∈ S, j < n) (hcard : (S.biUnion fun j => (pat j).toFinset).card < S.card) :
    StructSingular n pat :=
  structSingular_of_hall n pat S _ hS
    (fun j hj _ hi => Finset.mem_biUnion.mpr ⟨j, hj, List.mem_toFinset.mpr hi⟩) hcard

/-- list form: `k` distinct columns `cols` whose patterns lie in a list `rows` of fewer than `k` rows -/
theorem structSingular_of_hall_list (n : Nat) (pat : Nat → List Nat) (cols rows : List Nat)
    (hnd : cols.Nodup) (hS : ∀ j ∈ cols, j < n) (hT : ∀ j ∈ cols, ∀ i ∈ pat j, i ∈ rows)
    (hlen : rows.length < cols.length) : StructSingular n pat :=
  structSingular_of_hall n pat cols.toFinset rows.toFinset
    (fun j hj => hS j (List.mem_toFinset.mp hj))
    (fun j hj i hi => List.mem_toFinset.mpr (hT j (List.mem_toFinset.mp hj) i hi))
    (by rw [List.toFinset_card_of_nodup hnd]; exact lt_of_le_of_lt (List.toFinset_card_le rows) hlen)

/-- **C04 (every structurally singular matrix is reported).** Square case.  If the pattern `pat` has
no transversal and the values respect it (`A(i,j) ≠ 0 → i ∈ pat j`), the factorization returns
`info ≠ 0` — for every choice of values, every threshold `0 ≤ u ≤ 1`, every candidate order, every
remembered pivot sequence and reuse state `b`, every choice of diagonal rows. -/
theorem structurally_singular_is_reported (laws : MagLaws K) (P : Params K Rat) (hu0 : 0 ≤ P.u) (hu1 : P.u ≤ 1)
    (hcol : ∀ j, (P.col j).size = P.m) (hsq : P.m = P.n) (pat : Nat → List Nat)
    (hpat : ∀ j < P.n, ∀ i < P.n, (P.col j).get i ≠ 0 → i ∈ pat j)
    (hs : StructSingular P.n pat) (b : Bool) : (luFactor P b).info ≠ 0 := by
  intro h
  obtain ⟨σ, hσ⟩ := luFactor_success_has_transversal laws P hu0 hu1 hcol hsq b h
  exact hs ⟨σ, fun j => hpat j j.2 (σ j) (σ j).2 (hσ j)⟩

/-- **C04 (what is reported).** Then `info = j+1` for a column `j < n`: the first `j` columns were
factored without a zero pivot and every pivot candidate of column `j` is exactly zero. -/
theorem structurally_singular_info (laws : MagLaws K) (P : Params K Rat) (hu0 : 0 ≤ P.u) (hu1 : P.u ≤ 1)
    (hcol : ∀ j, (P.col j).size = P.m) (hsq : P.m = P.n) (pat : Nat → List Nat)
    (hpat : ∀ j < P.n, ∀ i < P.n, (P.col j).get i ≠ 0 → i ∈ pat j)
    (hs : StructSingular P.n pat) (b : Bool) :
    ∃ j < P.n, (luFactor P b).info = j + 1 ∧ (run P b j).info = 0 ∧
      ∀ c ∈ stepCands P (run P b j) j, (Mag.abs1 c.2 : Rat) = 0 := by
  rcases luFactor_info_range laws P b with h0 | ⟨j, hj, h1, _, _⟩
  · exact absurd h0 (structurally_singular_is_reported laws P hu0 hu1 hcol hsq pat hpat hs b)
  · obtain ⟨h2, h3⟩ := (luFactor_info_iff laws P b j hj).mp h1
    exact ⟨j, hj, h1, h2, h3⟩

/-- **C04 (Hall violation is reported).** `k` distinct columns whose nonzeros lie in fewer than `k`
rows: `info = j+1 > 0` for some column `j`. -/
theorem hall_violation_is_reported (laws : MagLaws K) (P : Params K Rat) (hu0 : 0 ≤ P.u) (hu1 : P.u ≤ 1)
    (hcol : ∀ j, (P.col j).size = P.m) (hsq : P.m = P.n) (cols rows : List Nat)
    (hnd : cols.Nodup) (hS : ∀ j ∈ cols, j < P.n)
    (hT : ∀ j ∈ cols, ∀ i < P.n, (P.col j).get i ≠ 0 → i ∈ rows)
    (hlen : rows.length < cols.length) (b : Bool) :
    ∃ j < P.n, (luFactor P b).info = j + 1 := by
  classical
  -- the numeric pattern itself
  let pat : Nat → List Nat := fun j => (List.range P.n).filter fun i => decide ((P.col j).get i ≠ 0)
  have hpat : ∀ j < P.n, ∀ i < P.n, (P.col j).get i ≠ 0 → i ∈ pat j := by
    intro j _ i hi hne
    simp only [pat, List.mem_filter, List.mem_range, decide_eq_true_eq]
    exact ⟨hi, hne⟩
  have hs : StructSingular P.n pat := by
    apply structSingular_of_hall_list P.n pat cols rows hnd hS _ hlen
    intro j hj i hi
    simp only [pat, List.mem_filter, List.mem_range, decide_eq_true_eq] at hi
    exact hT j hj i hi.1 hi.2
  obtain ⟨j, hj, h1, _⟩ := structurally_singular_info laws P hu0 hu1 hcol hsq pat hpat hs b
  exact ⟨j, hj, h1⟩

/-! non-vacuity: a matrix with two equal columns is reported at column 1 (info = 2), the first
column having been factored -/
def exSing : Params Rat Rat :=
  { m := 2, n := 2, col := fun _ => #[1, 2], u := 1, order := fun _ => [0, 1],
    oldPiv := fun _ => 0, diagRow := fun j => j }
example : (luFactor exSing false).info = 2 := by decide +kernel

/-! non-vacuity of the structural clauses.  A 3x3 matrix with a Hall violation (harness class
"hall"): columns 0 and 1 have their only entry in row 0, so two columns live in one row.  The model
reports column 1 (`info = 2`), and the theorems apply to it. -/
def exHallCols : Nat → Vec Rat
  | 0 => #[1, 0, 0]
  | 1 => #[2, 0, 0]
  | _ => #[1, 1, 1]

def exHall : Params Rat Rat :=
  { m := 3, n := 3, col := exHallCols, u := 1, order := fun _ => [0, 1, 2], oldPiv := fun _ => 0, diagRow := fun j => j }

def exHallPat : Nat → List Nat
  | 0 => [0]
  | 1 => [0]
  | _ => [0, 1, 2]

theorem exHall_col_size (j : Nat) : (exHall.col j).size = exHall.m := by
  match j with | 0 => rfl | 1 => rfl | (_ + 2) => rfl

theorem exHall_respects : ∀ j < exHall.n, ∀ i < exHall.n, (exHall.col j).get i ≠ 0 → i ∈ exHallPat j := by
  decide +kernel

/-- columns {0, 1} ⊆ rows {0}: a Hall violation -/
theorem exHall_structSingular : StructSingular 3 exHallPat :=
  structSingular_of_hall_list 3 exHallPat [0, 1] [0] (by decide) (by decide) (by decide) (by decide)

example : (luFactor exHall false).info = 2 := by decide +kernel
example : (luFactor exHall false).info ≠ 0 :=
  structurally_singular_is_reported magLaws_rat exHall (by decide) (by decide) exHall_col_size rfl
    exHallPat exHall_respects exHall_structSingular false
/-- whatever the threshold (here `u = 0`: any nonzero pivot accepted), the candidate order and the reuse state -/
def exHall' : Params Rat Rat :=
  { exHall with u := 0, order := fun _ => [2, 1, 0], oldPiv := fun j => 2 - j }
example : (luFactor exHall' true).info ≠ 0 :=
  structurally_singular_is_reported magLaws_rat exHall' (by decide) (by decide) exHall_col_size rfl
    exHallPat exHall_respects exHall_structSingular true
example : (luFactor exHall' true).info = 2 := by decide +kernel
example : ∃ j < 3, (luFactor exHall false).info = j + 1 :=
  hall_violation_is_reported magLaws_rat exHall (by decide) (by decide) exHall_col_size rfl [0, 1] [0]
    (by decide) (by decide) (by decide +kernel) (by decide) false
/-- the same pattern over the Gaussian rationals -/
example (P : Params (Cx Rat) Rat) (hu0 : 0 ≤ P.u) (hu1 : P.u ≤ 1) (hcol : ∀ j, (P.col j).size = P.m)
    (hm : P.m = 3) (hn : P.n = 3)
    (hpat : ∀ j < P.n, ∀ i < P.n, (P.col j).get i ≠ 0 → i ∈ exHallPat j) (b : Bool) :
    (luFactor P b).info ≠ 0 :=
  structurally_singular_is_reported magLaws_cx P hu0 hu1 hcol (by omega) exHallPat hpat
    (hn ▸ exHall_structSingular) b

/-! a nonsingular 3x3 matrix whose diagonal is NOT a transversal (`A(0,0) = 0`, row 0 has its only
entry in column 1): the factorization succeeds, the theorem yields a transversal, and one is
exhibited (rows 1, 0, 2 for columns 0, 1, 2: entries 2, 1, 5) -/
def exNSCols : Nat → Vec Rat
  | 0 => #[0, 2, 1]
  | 1 => #[1, 0, 3]
  | _ => #[0, 1, 5]

def exNS : Params Rat Rat :=
  { m := 3, n := 3, col := exNSCols, u := 1, order := fun _ => [0, 1, 2], oldPiv := fun _ => 0, diagRow := fun j => j }

theorem exNS_col_size (j : Nat) : (exNS.col j).size = exNS.m := by
  match j with | 0 => rfl | 1 => rfl | (_ + 2) => rfl

theorem exNS_info : (luFactor exNS false).info = 0 := by decide +kernel
/-- the pivot sequence itself (rows 1, 2, 0) is not the transversal: `A(0, 2) = 0` -/
example : (luFactor exNS false).piv = #[1, 2, 0] ∧ (exNS.col 2).get 0 = 0 := by decide +kernel
example : ∃ σ : Equiv.Perm (Fin 3), ∀ j : Fin 3, (exNS.col j).get (σ j) ≠ 0 :=
  luFactor_success_has_transversal magLaws_rat exNS (by decide) (by decide) exNS_col_size rfl false exNS_info
example : ∀ j : Fin 3, (exNS.col j).get ((Equiv.swap (0 : Fin 3) 1) j) ≠ 0 := by decide +kernel
/-- the identity is not a transversal of this matrix -/
example : ¬ ∀ j : Fin 3, (exNS.col j).get ((Equiv.refl (Fin 3)) j) ≠ 0 := by decide +kernel

end Slu.LU
