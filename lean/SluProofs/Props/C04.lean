import SluProofs.Lemmas.LUInv
/-
C04 — Exact singularity is reported, never silently solved.

About `Slu.LU.luFactor` (exact arithmetic): a nonzero `info` is `j+1` for the FIRST column `j` whose
pivot candidates are all exactly zero (or absent); the columns before it form a valid factorization
(the full invariant of C02 holds for them); success implies a nonzero diagonal of U — both for
every threshold `0 ≤ u ≤ 1`, including `u = 0` (any nonzero diagonal accepted); and the
driver glue returns the right-hand side untouched without solving.
-/
namespace Slu.LU
open Slu

variable {K : Type} [Field K] [Mag K Rat]

theorem run_stuck (P : Params K Rat) (b : Bool) (j k : Nat) (hk : j ≤ k) (h : (run P b j).info ≠ 0) :
    run P b k = run P b j := by
  induction k with
  | zero => have : j = 0 := by omega
            subst this; rfl
  | succ k ih =>
    rcases Nat.lt_succ_iff_lt_or_eq.mp (Nat.lt_succ_of_le hk) with hlt | rfl
    · rw [run_succ, ih (by omega), step_stuck P _ k h]
    · rfl

/-- the info value produced by one step that meets a zero pivot -/
theorem step_info (laws : MagLaws K) (P : Params K Rat) (st : St K) (j : Nat) (h0 : st.info = 0) :
    ((step P st j).info = 0 ∨ (step P st j).info = j + 1) ∧
    ((step P st j).info = j + 1 ↔ ∀ c ∈ stepCands P st j, (Mag.abs1 c.2 : Rat) = 0) := by
  have hpi := pivotChoice_info laws.nonneg j (stepCands P st j) (fun p => P.u * p) st.usepr (P.oldPiv j) (P.diagRow j)
  rw [step_unfold P st j h0]
  unfold stepOut
  by_cases hz : (pivotChoice (R := Rat) j (stepCands P st j) (fun p => P.u * p) st.usepr (P.oldPiv j) (P.diagRow j)).info = 0
  · simp only [hz, ne_eq, not_true_eq_false, if_false]
    refine ⟨Or.inl trivial, ⟨fun h => by omega, fun h => ?_⟩⟩
    have := hpi.2.mpr h
    omega
  · simp only [ne_eq, hz, not_false_eq_true, if_true]
    rcases hpi.1 with h1 | h1
    · exact absurd h1 hz
    · exact ⟨Or.inr h1, ⟨fun _ => hpi.2.mp h1, fun _ => h1⟩⟩

/-- **C04 (the only possible values).** `info` is 0 or `j+1` for a column `j < n`. -/
theorem luFactor_info_range (laws : MagLaws K) (P : Params K Rat) (b : Bool) :
    (luFactor P b).info = 0 ∨ ∃ j < P.n, (luFactor P b).info = j + 1 ∧ (run P b j).info = 0 ∧
      run P b (j + 1) = luFactor P b := by
  rw [luFactor_eq_run]
  generalize P.n = n
  induction n with
  | zero => left; simp [run_zero]
  | succ n ih =>
    rcases ih with h0 | ⟨j, hj, h1, h2, h3⟩
    · rw [run_succ]
      rcases (step_info laws P _ n h0).1 with h | h
      · left; exact h
      · right; exact ⟨n, by omega, h, h0, by rw [run_succ]⟩
    · right
      have hne : (run P b n).info ≠ 0 := by rw [h1]; omega
      have hst : run P b (n + 1) = run P b n := by rw [run_succ, step_stuck P _ n hne]
      exact ⟨j, by omega, by rw [hst]; exact h1, h2, by rw [hst]; exact h3⟩

/-- **C04 (exactly when).** `info = j+1` iff the first `j` columns were factored without a zero pivot
and every pivot candidate of column `j` (after elimination by those columns) is exactly zero. -/
theorem luFactor_info_iff (laws : MagLaws K) (P : Params K Rat) (b : Bool) (j : Nat) (hj : j < P.n) :
    (luFactor P b).info = j + 1 ↔
      ((run P b j).info = 0 ∧ ∀ c ∈ stepCands P (run P b j) j, (Mag.abs1 c.2 : Rat) = 0) := by
  rw [luFactor_eq_run]
  constructor
  · intro h
    rcases luFactor_info_range laws P b with h0 | ⟨j', hj', h1, h2, h3⟩
    · rw [luFactor_eq_run] at h0; omega
    · rw [luFactor_eq_run] at h1
      have : j' = j := by omega
      subst this
      refine ⟨h2, ?_⟩
      have hs := (step_info laws P (run P b j') j' h2).2
      rw [← run_succ, h3, luFactor_eq_run] at hs
      exact hs.mp h
  · rintro ⟨h0, hall⟩
    have hs := (step_info laws P (run P b j) j h0).2.mpr hall
    rw [← run_succ] at hs
    have hne : (run P b (j + 1)).info ≠ 0 := by rw [hs]; omega
    rw [run_stuck P b (j + 1) P.n (by omega) hne]; exact hs

/-- **C04 (leading block).** When column `j` is reported, the pivots chosen before it form a valid
factorization of the first `j` columns: the whole C02 invariant (identity, unit lower L, nonzero
diagonal, distinct pivot rows, multiplier bounds) holds for them. -/
theorem luFactor_leading_block (laws : MagLaws K) (P : Params K Rat) (hu0 : 0 ≤ P.u) (hu1 : P.u ≤ 1)
    (hcol : ∀ j, (P.col j).size = P.m) (b : Bool) (j : Nat) (h : (luFactor P b).info = j + 1) :
    Inv P (run P b j) j := by
  rcases luFactor_info_range laws P b with h0 | ⟨j', _, h1, h2, _⟩
  · omega
  · have : j' = j := by omega
    subst this
    exact run_inv laws P hu0 hu1 hcol b j' h2

/-- **C04 (success is never reported with a zero on U's diagonal).** -/
theorem luFactor_success_diag_nonzero (laws : MagLaws K) (P : Params K Rat) (hu0 : 0 ≤ P.u) (hu1 : P.u ≤ 1)
    (hcol : ∀ j, (P.col j).size = P.m) (b : Bool) (h : (luFactor P b).info = 0) (k : Nat) (hk : k < P.n) :
    ((luFactor P b).U.getD k #[]).getD k 0 ≠ 0 := by
  rw [luFactor_eq_run] at h ⊢
  exact (run_inv laws P hu0 hu1 hcol b P.n h).udiag k hk

/-- the simple driver's glue (SRC/dgssv.c:225-231): factor, then solve only when `info = 0` -/
def gssvGlue (P : Params K Rat) (permC : Array Nat) (B : List (Vec K)) : Nat × List (Vec K) :=
  let st := luFactor P false
  if st.info ≠ 0 then (st.info, B) else (0, B.map (gstrsN st.piv st.L st.U permC))

/-- **C04 (no solve, right-hand side untouched).** -/
theorem gssv_singular_B_untouched (P : Params K Rat) (permC : Array Nat) (B : List (Vec K))
    (h : (gssvGlue P permC B).1 ≠ 0) : (gssvGlue P permC B).2 = B := by
  unfold gssvGlue at h ⊢
  by_cases hz : (luFactor P false).info ≠ 0
  · simp [hz]
  · simp [hz] at h

/-! non-vacuity: a matrix with two equal columns is reported at column 1 (info = 2), the first
column having been factored -/
def exSing : Params Rat Rat :=
  { m := 2, n := 2, col := fun _ => #[1, 2], u := 1, order := fun _ => [0, 1],
    oldPiv := fun _ => 0, diagRow := fun j => j }
example : (luFactor exSing false).info = 2 := by decide +kernel

end Slu.LU
