import SluProofs.Lemmas.History
set_option linter.unusedSectionVars false
/-
C06 — Refactor / re-solve histories are as good as a fresh factorization.

Theorems about `Slu.History.stepCall` / `runHistory` (the expert driver's call histories over
Fact ∈ {DOFACT, SamePattern, SamePattern_SameRowPerm, FACTORED}), in exact arithmetic over an
arbitrary field `K` with a magnitude satisfying `MagLaws` (`K = Rat` is exercised below), for every
history length, every matrix, threshold `0 < u ≤ 1`, candidate order, Trans, every value of the
oracles (column ordering / etree of a DOFACT call, equilibration outcome `(equed, R, C)`), and —
for the factoring theorems — EVERY prior state: remembered pivots that are stale, fail the
threshold test, or are not even pivots of this pattern are all covered, because the LU invariant
`Slu.LU.Inv` is proved for arbitrary `(usepr, oldPiv)` (`run_inv`).

`HInv s` reads: if `s` claims to hold a factorization then its factors satisfy the whole C02
invariant for `s.P`, the problem of the last factoring call (that call's matrix after
equilibration, in the inherited or computed column order).
-/
namespace Slu.History
open Slu Slu.LU

variable {K : Type} [Field K] [Mag K Rat] [HasConj K]

/-- **C06 (a reuse call is a factorization of ITS matrix).**  After any factoring call — fresh,
ordering reused, or ordering + pivots + storage reused — from any prior state, the factor state is
exactly `luFactor` of that call's own problem: its matrix `diag(R) A diag(C)` in the column order in
force, with the reuse flag and the remembered pivots of the prior state as parameters.  Every theorem
of C02 and C04 (`luFactor_identity`, `luFactor_unit_lower`, `luFactor_diag_nonzero`,
`luFactor_pivots_injective`, `luFactor_multiplier_bound`, `luFactor_info_iff`, …), being stated for all
reuse flags and all remembered pivots, therefore applies verbatim. -/
theorem factoring_call_is_luFactor (s : DriverState K Rat) (c : Call K Rat) (hf : c.fact ≠ .FACTORED) :
    (stepCall s c).1.fac = luFactor (paramsOf s c) (c.fact == .SamePattern_SameRowPerm) ∧
    (stepCall s c).1.P = paramsOf s c ∧
    (stepCall s c).2.info = (luFactor (paramsOf s c) (c.fact == .SamePattern_SameRowPerm)).info ∧
    ∀ j i jc, jc = (invPerm (callPermC s c)).getD j 0 → i < (c.A jc).size →
      ((paramsOf s c).col j).get i = scaleEntry c.equed c.Rs c.Cs i jc ((c.A jc).get i) := by
  rw [stepCall_factor_state s c hf]
  exact ⟨rfl, rfl, (stepCall_factor_out s c hf).1, fun j i jc h1 h2 => paramsOf_col_get s c j i jc h1 h2⟩

/-- **C06 (established from any prior state).**  A factoring call that returns `info = 0` leaves a
state that holds a factorization satisfying the full C02 invariant for that call's matrix —
whatever the prior state was (no hypothesis on `s`). -/
theorem factoring_step_establishes_inv (laws : MagLaws K) (s : DriverState K Rat) (c : Call K Rat)
    (hf : c.fact ≠ .FACTORED) (hok : CallOK c) (h0 : (stepCall s c).2.info = 0) :
    (stepCall s c).1.factored = true ∧ (stepCall s c).1.P = paramsOf s c ∧
    Inv (paramsOf s c) (stepCall s c).1.fac c.n := by
  have hinfo : (factorCall s c).fac.info = 0 := by rw [← (stepCall_factor_out s c hf).1]; exact h0
  rw [stepCall_factor_state s c hf]
  have hfd : (factorCall s c).factored = true := (factorCall_factored s c).mpr hinfo
  exact ⟨hfd, rfl, (factorCall_inv laws s c hok hfd).2.2.2.2.2.2⟩

/-- **C06 (`history_inv`: one step).**  Every call — factoring with any Fact value, or FACTORED —
leaves a state satisfying the history invariant; factoring calls need no invariant of the prior
state at all. -/
theorem history_inv (laws : MagLaws K) (s : DriverState K Rat) (c : Call K Rat)
    (hok : c.fact ≠ .FACTORED → CallOK c) (h : HInv s) : HInv (stepCall s c).1 := by
  by_cases hf : c.fact = .FACTORED
  · rw [stepCall_factored s c hf]; exact h
  · rw [stepCall_factor_state s c hf]; exact factorCall_inv laws s c (hok hf)

/-- **C06 (re-solving never alters the factors).**  A FACTORED call returns the state it was given:
L, U, the pivots (`perm_r`), `perm_c`, etree, `equed`, `R`, `C` are all unchanged, and its output is
the solve phase applied with exactly those factors. -/
theorem factored_step_preserves_factors (s : DriverState K Rat) (c : Call K Rat) (hf : c.fact = .FACTORED) :
    (stepCall s c).1 = s ∧
    (stepCall s c).1.fac.L = s.fac.L ∧ (stepCall s c).1.fac.U = s.fac.U ∧ (stepCall s c).1.fac.piv = s.fac.piv ∧
    (stepCall s c).1.permC = s.permC ∧ (stepCall s c).1.etree = s.etree ∧
    (stepCall s c).1.equed = s.equed ∧ (stepCall s c).1.Rs = s.Rs ∧ (stepCall s c).1.Cs = s.Cs ∧
    (stepCall s c).2.info = 0 ∧ (stepCall s c).2.X = c.B.map (solveWith s c.trans) := by
  rw [stepCall_factored s c hf]
  exact ⟨rfl, rfl, rfl, rfl, rfl, rfl, rfl, rfl, rfl, rfl, rfl⟩

/-- any number of re-solves, under any Trans, leaves the state untouched -/
theorem resolves_preserve_state (s : DriverState K Rat) (cs : List (Call K Rat)) (h : ∀ c ∈ cs, c.fact = .FACTORED) :
    (runHistory s cs).1 = s := by
  induction cs generalizing s with
  | nil => rfl
  | cons c cs ih =>
    rw [runHistory_cons, (factored_step_preserves_factors s c (h c List.mem_cons_self)).1]
    exact ih s (fun c' hc' => h c' (List.mem_cons_of_mem _ hc'))

/-- **C06 (a re-solve is as good as the solve of the factoring call).**  After a successful factoring
call `c`, any number of re-solves later, a FACTORED call with right-hand sides `B` and `Trans = t`
returns exactly what `c` itself would have returned for that `B` and `t`: re-solving loses nothing. -/
theorem resolve_equals_solve_at_factor_time (s : DriverState K Rat) (c : Call K Rat) (hc : c.fact ≠ .FACTORED)
    (hinfo : (stepCall s c).2.info = 0) (mid : List (Call K Rat)) (hmid : ∀ c' ∈ mid, c'.fact = .FACTORED)
    (r : Call K Rat) (hr : r.fact = .FACTORED) :
    (stepCall (runHistory (stepCall s c).1 mid).1 r).2.X =
      (stepCall s { c with B := r.B, trans := r.trans }).2.X := by
  rw [resolves_preserve_state _ mid hmid, stepCall_factored _ r hr]
  have hc' : ({ c with B := r.B, trans := r.trans } : Call K Rat).fact ≠ .FACTORED := hc
  have hsame : factorCall s { c with B := r.B, trans := r.trans } = factorCall s c := rfl
  have h0 : (factorCall s c).fac.info = 0 := by rw [← (stepCall_factor_out s c hc).1]; exact hinfo
  obtain ⟨_, h2, _⟩ := stepCall_factor_out s { c with B := r.B, trans := r.trans } hc'
  rw [hsame] at h2
  rw [(h2 h0).1, stepCall_factor_state s c hc]

/-- **C06 (`history_all`).**  For every history (any length, any order of Fact values) whose factoring
calls are legal, started in a state satisfying the invariant (e.g. `init`): the invariant holds after
every call and at the end; every call's output is as specified by `OutSpec` — a FACTORED call leaves
the state alone and returns the solve with the factors held; a factoring call replaces the state by
`factorCall` (whose factors are `luFactor` of the call's matrix), reports that factorization's info,
and on `info = 0` returns the solve with the NEW factors, on `info ≠ 0` returns B untouched. -/
theorem history_all (laws : MagLaws K) (s0 : DriverState K Rat) (cs : List (Call K Rat))
    (h0 : HInv s0) (hok : ∀ c ∈ cs, c.fact ≠ .FACTORED → CallOK c) :
    HInv (runHistory s0 cs).1 ∧
    ∀ e ∈ trace s0 cs, HInv e.2.2.1 ∧ OutSpec e.1 e.2.1 e.2.2.1 e.2.2.2 := by
  induction cs generalizing s0 with
  | nil => exact ⟨h0, fun e he => by simp [trace] at he⟩
  | cons c cs ih =>
    have h1 : HInv (stepCall s0 c).1 := history_inv laws s0 c (hok c List.mem_cons_self) h0
    obtain ⟨ha, hb⟩ := ih (stepCall s0 c).1 h1 (fun c' hc' => hok c' (List.mem_cons_of_mem _ hc'))
    refine ⟨by rw [runHistory_cons]; exact ha, ?_⟩
    intro e he
    simp only [trace, List.mem_cons] at he
    rcases he with rfl | he
    · exact ⟨h1, stepCall_outSpec s0 c⟩
    · exact hb e he

/-- the initial state satisfies the invariant (it claims no factorization) -/
theorem init_inv : HInv (init : DriverState K Rat) := by
  intro h; simp [init] at h

/-- **C06 (the state at the end belongs to the LAST factoring call).**  If a history ends with a
factoring call `c` followed only by re-solves, the final state is `factorCall` of `c` applied to the
state reached before it: its factors are `luFactor` of `c`'s matrix, not of any earlier one. -/
theorem history_last_factoring (s0 : DriverState K Rat) (pre post : List (Call K Rat)) (c : Call K Rat)
    (hc : c.fact ≠ .FACTORED) (hpost : ∀ c' ∈ post, c'.fact = .FACTORED) :
    (runHistory s0 (pre ++ c :: post)).1 = factorCall (runHistory s0 pre).1 c := by
  rw [runHistory_append, runHistory_cons, resolves_preserve_state _ post hpost, stepCall_factor_state _ c hc]

/-- **C06 (identity at the end of any history).**  After any legal history that ends with a successful
factoring call `c` followed by re-solves, `(Pr A Pc)(i,j) = Σ_{k ≤ j} L(i,k) U(k,j)` holds for `c`'s
matrix (equilibrated, in the column order in force) and the factors in the final state — exactly as for
a fresh factorization of that matrix. -/
theorem history_identity (laws : MagLaws K) (s0 : DriverState K Rat) (pre post : List (Call K Rat)) (c : Call K Rat)
    (hc : c.fact ≠ .FACTORED) (hok : CallOK c) (hpost : ∀ c' ∈ post, c'.fact = .FACTORED)
    (hinfo : (factorCall (runHistory s0 pre).1 c).fac.info = 0)
    (j : Nat) (hj : j < c.n) (i : Nat) (hi : i < c.n) :
    ((paramsOf (runHistory s0 pre).1 c).col j).get i =
      ((List.range (j + 1)).map fun k =>
        ((runHistory s0 (pre ++ c :: post)).1.fac.U.getD j #[]).getD k 0 *
        ((runHistory s0 (pre ++ c :: post)).1.fac.L.getD k #[]).get i).sum := by
  rw [history_last_factoring s0 pre post c hc hpost]
  have hfd := (factorCall_factored (runHistory s0 pre).1 c).mpr hinfo
  have inv := (factorCall_inv laws (runHistory s0 pre).1 c hok hfd).2.2.2.2.2.2
  exact inv.identity j hj i hi

/-- **C06 (kept means kept).**  If a SamePattern_SameRowPerm call reports that every remembered pivot
was kept (`reused`), the factorization succeeded and the new pivot sequence is exactly the remembered
one: `perm_r` is unchanged. -/
theorem reuse_kept_same_pivots (s : DriverState K Rat) (c : Call K Rat)
    (h : (factorCall s c).fac.usepr = true) :
    c.fact = .SamePattern_SameRowPerm ∧ (factorCall s c).fac.info = 0 ∧
    (factorCall s c).fac.piv = ((List.range c.n).map fun j => s.fac.piv.getD j 0).toArray := by
  have hh : (run (paramsOf s c) (c.fact == .SamePattern_SameRowPerm) (paramsOf s c).n).usepr = true := h
  obtain ⟨hb, hi, hp⟩ := run_usepr_true (paramsOf s c) _ _ hh
  refine ⟨by simpa using hb, hi, hp⟩

/-- **C06 (abandoned means abandoned for good).**  Dually, when the flag is cleared at the end the
call still produced a factorization satisfying the invariant (`factoring_step_establishes_inv` has no
hypothesis on the flag); and the flag, once cleared inside a factorization, is never set again
(`pivotChoice_usepr_true`: it can only come out set when it went in set). -/
theorem reuse_flag_never_set_again (j : Nat) (cands : List (Nat × K)) (thr : Rat → Rat) (oldRow diagRow : Nat) :
    (pivotChoice (R := Rat) j cands thr false oldRow diagRow).usepr = false := by
  cases h : (pivotChoice (R := Rat) j cands thr false oldRow diagRow).usepr with
  | false => rfl
  | true => exact absurd (pivotChoice_usepr_true j cands thr false oldRow diagRow h).1 (by simp)

end Slu.History

/-! ### Non-vacuity: a history in which the remembered pivot MUST be abandoned -/
namespace Slu.History
open Slu Slu.LU

theorem magLawsRat : MagLaws Rat where
  nonneg := fun x => rabs_nonneg x
  zero := by simp [Mag.abs1]
  definite := fun x h => by simpa [Mag.abs1] using h

/-- step 1: fresh factorization of [[4,1],[2,3]] (columns #[4,2], #[1,3]); the pivots are rows 0, 1 -/
def exA1 : Nat → Vec Rat
  | 0 => #[4, 2]
  | _ => #[1, 3]
/-- step 2: same pattern, values [[1,1],[8,3]]: in column 0 the remembered row 0 holds 1 < 1 * 8 -/
def exA2 : Nat → Vec Rat
  | 0 => #[1, 8]
  | _ => #[1, 3]
/-- step 2': a small perturbation of step 1: the remembered pivots still pass -/
def exA3 : Nat → Vec Rat
  | 0 => #[4, 3]
  | _ => #[1, 3]

def exCall (f : Fact) (A : Nat → Vec Rat) (t : Trans := .NOTRANS) : Call Rat Rat :=
  { fact := f, trans := t, n := 2, A := A, u := 1, order := fun _ => [0, 1], permC := #[0, 1], etree := #[1, 2], B := [#[5, 5]] }

theorem exCall_ok (f : Fact) (A : Nat → Vec Rat) (t : Trans) (hA : ∀ j, (A j).size = 2) : CallOK (exCall f A t) :=
  ⟨by show (0 : Rat) < 1; decide, by show (1 : Rat) ≤ 1; decide, hA⟩

theorem exA1_size : ∀ j, (exA1 j).size = 2 := by intro j; match j with | 0 => rfl | (_ + 1) => rfl
theorem exA2_size : ∀ j, (exA2 j).size = 2 := by intro j; match j with | 0 => rfl | (_ + 1) => rfl

/-- DOFACT, then SamePattern_SameRowPerm on values that force the remembered pivot out, then two
re-solves (TRANS, NOTRANS), then SamePattern, then reuse with pivots kept -/
def exHist : List (Call Rat Rat) :=
  [exCall .DOFACT exA1, exCall .SamePattern_SameRowPerm exA2, exCall .FACTORED exA2 .TRANS, exCall .FACTORED exA2,
   exCall .SamePattern exA1, exCall .SamePattern_SameRowPerm exA3]

-- step 1: pivots rows 0, 1
example : (stepCall (init : DriverState Rat Rat) (exCall .DOFACT exA1)).1.fac.piv = #[0, 1] := by decide +kernel
-- step 2: the remembered pivot (row 0) fails the threshold test and is abandoned; the new pivots are rows 1, 0
example : ((runHistory (init : DriverState Rat Rat) (exHist.take 2)).2.getD 1 { info := 9, X := [] }).reused = false := by decide +kernel
example : ((runHistory (init : DriverState Rat Rat) (exHist.take 2)).2.getD 1 { info := 9, X := [] }).info = 0 := by decide +kernel
example : (runHistory (init : DriverState Rat Rat) (exHist.take 2)).1.fac.piv = #[1, 0] := by decide +kernel
example : (runHistory (init : DriverState Rat Rat) (exHist.take 2)).1.fac.U = #[#[8], #[3, 5/8]] := by decide +kernel
example : (runHistory (init : DriverState Rat Rat) (exHist.take 2)).1.fac.L = #[#[1/8, 1], #[1, 0]] := by decide +kernel
-- the solution returned by step 2 solves A2 x = (5,5): x = (-2, 7)
example : ((runHistory (init : DriverState Rat Rat) (exHist.take 2)).2.getD 1 { info := 9, X := [] }).X = [#[-2, 7]] := by decide +kernel
-- the re-solves leave the pivots alone
example : (runHistory (init : DriverState Rat Rat) (exHist.take 4)).1.fac.piv = #[1, 0] := by decide +kernel
-- the last step keeps the remembered pivots (rows 0, 1 of the SamePattern step before it)
example : ((runHistory (init : DriverState Rat Rat) exHist).2.getD 5 { info := 9, X := [] }).reused = true := by decide +kernel
example : (runHistory (init : DriverState Rat Rat) exHist).1.fac.piv = #[0, 1] := by decide +kernel
-- hypotheses of the theorems are satisfiable
theorem exA3_size : ∀ j, (exA3 j).size = 2 := by intro j; match j with | 0 => rfl | (_ + 1) => rfl
example : HInv (runHistory (init : DriverState Rat Rat) exHist).1 :=
  (history_all magLawsRat init exHist init_inv (by
    intro c hc hne
    simp only [exHist, List.mem_cons, List.not_mem_nil, or_false] at hc
    rcases hc with rfl | rfl | rfl | rfl | rfl | rfl
    · exact exCall_ok _ _ _ exA1_size
    · exact exCall_ok _ _ _ exA2_size
    · exact absurd rfl hne
    · exact absurd rfl hne
    · exact exCall_ok _ _ _ exA1_size
    · exact exCall_ok _ _ _ exA3_size)).1

end Slu.History
