import SluProofs.Lemmas.RoundingEquil
import SluProofs.Lemmas.RoundingAlg
import SluProofs.Lemmas.RoundingGemv
import Mathlib.Algebra.Order.Field.Rat
import Mathlib.Tactic.NormNum
/-
Rounding — the constants of the "to within rounding" clauses of C01 / C02 / C05 / C06, PROVED.

The run-time checks evaluate, in exact rationals on the implementation's outputs,
  `|Pr A Pc - L̂Û| ≤ g(n+2) |L̂||Û|`   and   `|B - A X̂| ≤ g(4n+4) (|L̂||Û|)|X̂| + g(n+1)|B|`
with `g(k) = k eps / (1 - k eps)` (DESIGN.md 3.4).  Until now `g(n+2)` and `g(4n+4)` were cited from
Higham (Accuracy and Stability of Numerical Algorithms, Lemma 8.4, Thm 9.3, Thm 9.4).  The theorems
below prove them, over any linearly ordered field, for the standard model of rounded arithmetic
  `fl(x op y) = (x op y)(1 + d)`, `|d| ≤ u`, op ∈ {+, -, *, /}, optionally `fl(x*y + z)` (FMA),
and for EVERY evaluation order: each computed entry is only assumed to be the value of SOME
evaluation tree (`Dot`: any association and order of the products, additions and subtractions, any
signs, separately accumulated partial sums as in panel / supernode / BLAS kernels, with or without
FMA, structural zeros skipped or not) of its
Doolittle / substitution formula; the final scaling may be a rounded division (cost 1) or SuperLU's
`temp = 1.0/pivot; l *= temp` (cost 2).

Constants PROVED (all not larger than the constants the checks use):
  inner product (`inner_product_any_order`)            γ_{k + cost}           Higham L8.4: γ_k, k-1 products
  LU            (`lu_error_division`)                  γ_n                    = Higham Thm 9.3
                (`lu_error_reciprocal`)                γ_{n+1}
                (`lu_error_check_constant`)            γ_{n+2}                the check's g(n+2)
  solve         (`solve_error_reciprocal`)             γ_{3n+1}               Higham Thm 9.4: γ_{3n}
                (`solve_error_division`)               γ_{3n-1}
                (`solve_error_check_constant`)         γ_{4n+4}|L̂||Û||x̂| (+ γ_{n+1}|b|)   the check's form
  transposed    (`solve_trans_error_check_constant`)   γ_{4n+4}
  with Pr, Pc   (`solve_error_perm_check_constant`)    γ_{4n+4}
  expert driver (`expert_equilibrated_check_constant`) γ_{4n+6}|L̂||Û||x_eq| + γ_{n+1}|b1|   (proved: γ_{3n+3}, no |b1| term)
                (`expert_original_check_constant`)     γ_{4n+10}|L̂||Û||x_eq| + γ_{n+3}|b1|  (proved: γ_{3n+5}, γ_1|b1|)
  kernels (C14) (`trsv_lower_check_constant`, `trsv_upper_check_constant`)  γ_{2n+8}(|T||x̂| + |b|)  (proved: γ_{n+1}|T||x̂|)
                (`gstrs_check_constant`)               γ_{4n+4}|P||Q||x̂| + γ_{n+1}|b|      (proved: γ_{2n+2})
                (`gemv_notrans_check_constant`, `gemv_trans_check_constant`)  γ_{k+4}(|alpha|Σ|a||x| + |beta||y|)  (proved: γ_{k+2})
  executable    (`rounded_lu_backward_error`, `rounded_solve_backward_error`)  γ_{n+1}, γ_{3n}: rounded
                Doolittle + substitutions in ANY `FlModel`, all sizes, no hypothesis but nonzero pivots
Also: sparse kernels that skip structural zeros are covered (`Dot.of_filter`); operations done
more accurately than `u` are covered (`Dot.mono`, `LUComputed.mono`); with `u = 0` the bounds
collapse to the exact identities of C01 / C02 (`LUComputed.exact_identity`, `lu_solve_exact`).

Scope: REAL arithmetic (types s, d).  NOT covered (remain cited / outside the model):
* complex arithmetic (the "x4" of DESIGN.md 3.4).  Remark, not formalized: the real and imaginary
  parts of a complex inner product without division are real `Dot`s with `2k` signed products, so the
  rows of Û and the unit-lower forward substitution obey the bounds above with `γ_{2k}` in the
  `|re|+|im|` magnitude the checks use; the scaling of the L entries by a complex reciprocal
  (`z_div` then `zz_mult`) and complex divisions inside BLAS `trsv` need an analysis of their own,
  and a componentwise count gives a constant of the form `γ_{2k} + c u` with `c ≈ 26`, which is
  above `4 g(n+2)` for `n < 9`: the complex constant cannot be obtained from this model by counting;
* overflow / underflow (the standard model has no absolute error term; the checks add `tiny`);
* iterative refinement of the expert driver (the `berr` alternative of the C05 check).
-/
namespace Slu.Rounding
open Finset

variable {F : Type} [Field F] [LinearOrder F] [IsStrictOrderedRing F]

/-! ### Lemma 8.4 -/

/-- **Higham Lemma 8.4, every evaluation order.**  If `y` is the value of ANY evaluation tree of
`(c - Σ_{i<k} aᵢ bᵢ) / b_k` finished by `f` (`none`: `b_k = 1`, no division; `div`: one rounded
division; `recip`: rounded reciprocal and rounded product) and `K ≥ k + f.cost`, `K u < 1`, then
`|c - Σ aᵢ bᵢ - b_k y| ≤ γ_K (Σ |aᵢ||bᵢ| + |b_k||y|)`. -/
theorem inner_product_any_order {u : F} (hu0 : 0 ≤ u) {c bk y : F} (a b : Nat → F) (k : Nat)
    {f : Finish} (h : Dot u c ((List.range k).map fun i => (a i, b i)) bk f y)
    {K : Nat} (hK : k + f.cost ≤ K) (hKu : (K : F) * u < 1) :
    |c - ∑ i ∈ range k, a i * b i - bk * y| ≤
      gamma u K * (∑ i ∈ range k, |a i| * |b i| + |bk| * |y|) :=
  h.bound_range hu0 a b k hK hKu

/-! ### Thm 9.3 -/

/-- **LU, rounded divisions** (Higham's constant): `|A - L̂Û| ≤ γ_n |L̂||Û|`. -/
theorem lu_error_division {u : F} (hu0 : 0 ≤ u) {m n : Nat} {A L U : Nat → Nat → F}
    (h : LUComputed u m n 1 A L U) (hu : (n : F) * u < 1) (i : Nat) (hi : i < m) (j : Nat) (hj : j < n) :
    |A i j - ∑ t ∈ range n, L i t * U t j| ≤ gamma u n * ∑ t ∈ range n, |L i t| * |U t j| :=
  lu_backward_error hu0 h (by omega) hu i hi j hj

/-- **LU, multiplication by a rounded reciprocal** (`[sdcz]pivotL`): `|A - L̂Û| ≤ γ_{n+1} |L̂||Û|`. -/
theorem lu_error_reciprocal {u : F} (hu0 : 0 ≤ u) {m n : Nat} {A L U : Nat → Nat → F}
    (h : LUComputed u m n 2 A L U) (hu : ((n + 1 : Nat) : F) * u < 1)
    (i : Nat) (hi : i < m) (j : Nat) (hj : j < n) :
    |A i j - ∑ t ∈ range n, L i t * U t j| ≤ gamma u (n + 1) * ∑ t ∈ range n, |L i t| * |U t j| :=
  lu_backward_error hu0 h (by omega) hu i hi j hj

/-- **the constant of the C02 / C05 / C06 run-time check**: `|A - L̂Û| ≤ γ_{n+2} |L̂||Û|`, for any way
of scaling the L entries. -/
theorem lu_error_check_constant {u : F} (hu0 : 0 ≤ u) {m n : Nat} {A L U : Nat → Nat → F}
    (h : LUComputed u m n 2 A L U) (hu : ((n + 2 : Nat) : F) * u < 1)
    (i : Nat) (hi : i < m) (j : Nat) (hj : j < n) :
    |A i j - ∑ t ∈ range n, L i t * U t j| ≤ gamma u (n + 2) * ∑ t ∈ range n, |L i t| * |U t j| :=
  lu_backward_error hu0 h (by omega) hu i hi j hj

/-! ### Thm 8.5 -/

/-- **forward substitution with the unit lower `L̂`**: `|b - L̂ŷ| ≤ γ_{n-1} |L̂||ŷ|` (stated with `γ_n`). -/
theorem forward_subst_error {u : F} (hu0 : 0 ≤ u) {n : Nat} {L : Nat → Nat → F} {b y : Nat → F}
    (hL : ∀ i t, i < t → L i t = 0) (h : LowerSolved u n 0 L b y) (hu : (n : F) * u < 1)
    (i : Nat) (hi : i < n) :
    |b i - ∑ t ∈ range n, L i t * y t| ≤ gamma u n * ∑ t ∈ range n, |L i t| * |y t| :=
  lower_solve_bound hu0 hL h (by omega) hu i hi

/-- **back substitution with `Û`**, divisions or reciprocals: `|y - Ûx̂| ≤ γ_{n+1} |Û||x̂|`. -/
theorem back_subst_error {u : F} (hu0 : 0 ≤ u) {n : Nat} {U : Nat → Nat → F} {y x : Nat → F}
    (hU : ∀ i t, t < i → U i t = 0) (h : UpperSolved u n 2 U y x) (hu : ((n + 1 : Nat) : F) * u < 1)
    (i : Nat) (hi : i < n) :
    |y i - ∑ t ∈ range n, U i t * x t| ≤ gamma u (n + 1) * ∑ t ∈ range n, |U i t| * |x t| :=
  upper_solve_bound hu0 hU h (by omega) hu i hi

/-! ### Thm 9.4 -/

/-- **solve, reciprocals in the factorization and in the back substitution**:
`|b - A x̂| ≤ γ_{3n+1} |L̂||Û||x̂|`. -/
theorem solve_error_reciprocal {u : F} (hu0 : 0 ≤ u) {n : Nat} {A L U : Nat → Nat → F} {b y x : Nat → F}
    (hLU : LUComputed u n n 2 A L U) (hy : LowerSolved u n 0 L b y) (hx : UpperSolved u n 2 U y x)
    (hu : ((3 * n + 1 : Nat) : F) * u < 1) (i : Nat) (hi : i < n) :
    |b i - ∑ j ∈ range n, A i j * x j| ≤
      gamma u (3 * n + 1) * ∑ j ∈ range n, (∑ t ∈ range n, |L i t| * |U t j|) * |x j| :=
  lu_solve_backward_error hu0 hLU hy hx (by omega) hu i hi

/-- **solve, rounded divisions**: `|b - A x̂| ≤ γ_{3n-1} |L̂||Û||x̂|` (Higham: `γ_{3n}`). -/
theorem solve_error_division {u : F} (hu0 : 0 ≤ u) {n : Nat} {A L U : Nat → Nat → F} {b y x : Nat → F}
    (hLU : LUComputed u n n 1 A L U) (hy : LowerSolved u n 0 L b y) (hx : UpperSolved u n 1 U y x)
    (hu : ((3 * n - 1 : Nat) : F) * u < 1) (i : Nat) (hi : i < n) :
    |b i - ∑ j ∈ range n, A i j * x j| ≤
      gamma u (3 * n - 1) * ∑ j ∈ range n, (∑ t ∈ range n, |L i t| * |U t j|) * |x j| :=
  lu_solve_backward_error hu0 hLU hy hx (by omega) hu i hi

/-- **the constants of the C01 / C05 / C06 run-time check**:
`|b - A x̂| ≤ γ_{4n+4} |L̂||Û||x̂| + γ_{n+1} |b|` (the second term is not needed). -/
theorem solve_error_check_constant {u : F} (hu0 : 0 ≤ u) {n : Nat} {A L U : Nat → Nat → F}
    {b y x : Nat → F} (hLU : LUComputed u n n 2 A L U) (hy : LowerSolved u n 0 L b y)
    (hx : UpperSolved u n 2 U y x) (hu : ((4 * n + 4 : Nat) : F) * u < 1) (i : Nat) (hi : i < n) :
    |b i - ∑ j ∈ range n, A i j * x j| ≤
      gamma u (4 * n + 4) * ∑ j ∈ range n, (∑ t ∈ range n, |L i t| * |U t j|) * |x j| +
        gamma u (n + 1) * |b i| := by
  have h1 := lu_solve_backward_error hu0 hLU hy hx (K := 4 * n + 4) (by omega) hu i hi
  have h2 : 0 ≤ gamma u (n + 1) * |b i| :=
    mul_nonneg (gamma_nonneg hu0 (mul_lt_one_of_le hu0 (by omega) hu)) (abs_nonneg _)
  linarith

/-- **transposed system** `Aᵀ x = b` (`Ûᵀ ŵ = b`, `L̂ᵀ x̂ = ŵ`; the path taken for row-major input):
`|b - Aᵀx̂| ≤ γ_{4n+4} |Ûᵀ||L̂ᵀ||x̂|`. -/
theorem solve_trans_error_check_constant {u : F} (hu0 : 0 ≤ u) {n : Nat} {A L U : Nat → Nat → F}
    {b w x : Nat → F} (hLU : LUComputed u n n 2 A L U)
    (hw : LowerSolved u n 2 (fun i t => U t i) b w) (hx : UpperSolved u n 0 (fun i t => L t i) w x)
    (hu : ((4 * n + 4 : Nat) : F) * u < 1) (i : Nat) (hi : i < n) :
    |b i - ∑ j ∈ range n, A j i * x j| ≤
      gamma u (4 * n + 4) * ∑ j ∈ range n, (∑ t ∈ range n, |U t i| * |L j t|) * |x j| :=
  lu_solve_trans_backward_error hu0 hLU hw hx (by omega) hu i hi

/-- **with SuperLU's row and column permutations** (`Pr A Pc = L̂Û`, `L̂ŷ = Pr b`, `Ûẑ = ŷ`,
`x̂ = Pc ẑ`): the residual of the ORIGINAL system, row `pr i`, is bounded through row `i` of `|L̂||Û|`
— the quantity `(Pr'|L̂||Û|Pc')|X̂|` of the check. -/
theorem solve_error_perm_check_constant {u : F} (hu0 : 0 ≤ u) {n : Nat} {A L U : Nat → Nat → F}
    {b y x : Nat → F} {pr pc : Nat → Nat} (hpc : ∀ j < n, pc j < n)
    (hinj : ∀ j < n, ∀ j' < n, pc j = pc j' → j = j')
    (hLU : LUComputed u n n 2 (fun i j => A (pr i) (pc j)) L U)
    (hy : LowerSolved u n 0 L (fun i => b (pr i)) y) (hx : UpperSolved u n 2 U y (fun j => x (pc j)))
    (hu : ((4 * n + 4 : Nat) : F) * u < 1) (i : Nat) (hi : i < n) :
    |b (pr i) - ∑ c ∈ range n, A (pr i) c * x c| ≤
      gamma u (4 * n + 4) * ∑ j ∈ range n, (∑ t ∈ range n, |L i t| * |U t j|) * |x (pc j)| :=
  lu_solve_backward_error_perm hu0 hpc hinj hLU hy hx (by omega) hu i hi

/-! ### the kernels checked on their own (C14, real types) -/

/-- **`sp_[sd]trsv`, lower** (unit or not): `|b - T x̂| ≤ γ_{2n+8} (|T||x̂| + |b|)` (proved: `γ_{n+1}`,
no `|b|` term). -/
theorem trsv_lower_check_constant {u : F} (hu0 : 0 ≤ u) {n : Nat} {T : Nat → Nat → F} {b x : Nat → F}
    (hT : ∀ i t, i < t → T i t = 0) (h : LowerSolved u n 2 T b x)
    (hu : ((2 * n + 8 : Nat) : F) * u < 1) (i : Nat) (hi : i < n) :
    |b i - ∑ t ∈ range n, T i t * x t| ≤ gamma u (2 * n + 8) * (∑ t ∈ range n, |T i t| * |x t| + |b i|) := by
  have h1 := lower_solve_bound hu0 hT h (K := 2 * n + 8) (by omega) hu i hi
  have h2 : 0 ≤ gamma u (2 * n + 8) * |b i| := mul_nonneg (gamma_nonneg hu0 hu) (abs_nonneg _)
  rw [mul_add]; linarith

/-- **`sp_[sd]trsv`, upper**: the same bound. -/
theorem trsv_upper_check_constant {u : F} (hu0 : 0 ≤ u) {n : Nat} {T : Nat → Nat → F} {y x : Nat → F}
    (hT : ∀ i t, t < i → T i t = 0) (h : UpperSolved u n 2 T y x)
    (hu : ((2 * n + 8 : Nat) : F) * u < 1) (i : Nat) (hi : i < n) :
    |y i - ∑ t ∈ range n, T i t * x t| ≤ gamma u (2 * n + 8) * (∑ t ∈ range n, |T i t| * |x t| + |y i|) := by
  have h1 := upper_solve_bound hu0 hT h (K := 2 * n + 8) (by omega) hu i hi
  have h2 : 0 ≤ gamma u (2 * n + 8) * |y i| := mul_nonneg (gamma_nonneg hu0 hu) (abs_nonneg _)
  rw [mul_add]; linarith

/-- **`[sd]gstrs` against `A := L̂Û`** (the product of the stored factors, formed exactly):
`|b - (P Q) x̂| ≤ γ_{4n+4} |P||Q||x̂| + γ_{n+1} |b|` (proved: `γ_{2n+2}`), NOTRANS with `P = L̂, Q = Û`
or TRANS with `P = Ûᵀ, Q = L̂ᵀ`. -/
theorem gstrs_check_constant {u : F} (hu0 : 0 ≤ u) {n : Nat} {P Q : Nat → Nat → F} {b y x : Nat → F}
    (hP : ∀ i t, i < t → P i t = 0) (hQ : ∀ i t, t < i → Q i t = 0)
    (hy : LowerSolved u n 2 P b y) (hx : UpperSolved u n 2 Q y x)
    (hu : ((4 * n + 4 : Nat) : F) * u < 1) (i : Nat) (hi : i < n) :
    |b i - ∑ j ∈ range n, (∑ t ∈ range n, P i t * Q t j) * x j| ≤
      gamma u (4 * n + 4) * ∑ j ∈ range n, (∑ t ∈ range n, |P i t| * |Q t j|) * |x j| +
        gamma u (n + 1) * |b i| := by
  have h1 := two_solves_bound hu0 hP hQ hy hx (K := 4 * n + 4) (by omega) hu i hi
  have h2 : 0 ≤ gamma u (n + 1) * |b i| :=
    mul_nonneg (gamma_nonneg hu0 (mul_lt_one_of_le hu0 (by omega) hu)) (abs_nonneg _)
  linarith

/-- **`sp_[sd]gemv`, NOTRANS** (`temp_j = fl(alpha x_j)`; `beta y_i` and the `temp_j a_ij` summed in any
order): `|ŷ_i - (alpha Σ a x + beta y_i)| ≤ γ_{k+4} (|alpha| Σ|a||x| + |beta||y_i|)`, `k` = stored
entries of the row. -/
theorem gemv_notrans_check_constant {u : F} (hu0 : 0 ≤ u) {k : Nat} (a x temp : Nat → F)
    (alpha beta yi y' : F) (htemp : ∀ j < k, Rnd u (alpha * x j) (temp j))
    (hy' : SumOf u ((beta, yi) :: (List.range k).map fun j => (temp j, a j)) y')
    (hu : ((k + 4 : Nat) : F) * u < 1) :
    |y' - (alpha * ∑ j ∈ range k, a j * x j + beta * yi)| ≤
      gamma u (k + 4) * (|alpha| * ∑ j ∈ range k, |a j| * |x j| + |beta| * |yi|) := by
  refine (gemv_notrans_bound hu0 a x temp alpha beta yi y' htemp hy'
    (mul_lt_one_of_le hu0 (by omega) hu)).trans ?_
  exact mul_le_mul_of_nonneg_right (gamma_mono hu0 (by omega) hu)
    (add_nonneg (mul_nonneg (abs_nonneg _) (Finset.sum_nonneg fun j _ => by positivity)) (by positivity))

/-- **`sp_[sd]gemv`, TRANS** (`temp = Σ a x` in any order, then `fl(beta y) + fl(alpha temp)`). -/
theorem gemv_trans_check_constant {u : F} (hu0 : 0 ≤ u) {k : Nat} (a x : Nat → F)
    (alpha beta yi temp y' : F) (htemp : SumOf u ((List.range k).map fun j => (a j, x j)) temp)
    (hy' : SumOf u [(beta, yi), (alpha, temp)] y') (hu : ((k + 4 : Nat) : F) * u < 1) :
    |y' - (alpha * ∑ j ∈ range k, a j * x j + beta * yi)| ≤
      gamma u (k + 4) * (|alpha| * ∑ j ∈ range k, |a j| * |x j| + |beta| * |yi|) := by
  refine (gemv_trans_bound hu0 a x alpha beta yi temp y' htemp hy'
    (mul_lt_one_of_le hu0 (by omega) hu)).trans ?_
  exact mul_le_mul_of_nonneg_right (gamma_mono hu0 (by omega) hu)
    (add_nonneg (mul_nonneg (abs_nonneg _) (Finset.sum_nonneg fun j _ => by positivity)) (by positivity))

/-! ### the expert driver's scalings (C05) -/

theorem wsum_nonneg {n : Nat} (L U : Nat → Nat → F) (x : Nat → F) (i : Nat) :
    0 ≤ ∑ j ∈ range n, (∑ t ∈ range n, |L i t| * |U t j|) * |x j| :=
  Finset.sum_nonneg fun j _ => mul_nonneg (Finset.sum_nonneg fun t _ => by positivity) (abs_nonneg _)

/-- **C05, equilibrated system** (the check's `okE` clause): `A1`, `b1` as left in `A`, `B` on exit,
`x_eq = X / t` the returned solution with the column scaling undone exactly;
`|b1 - A1 x_eq| ≤ γ_{4n+6} |L̂||Û||x_eq| + γ_{n+1} |b1|`. -/
theorem expert_equilibrated_check_constant {u : F} (hu0 : 0 ≤ u) {n : Nat} {A1 L U : Nat → Nat → F}
    {b1 y z xe : Nat → F} (hLU : LUComputed u n n 2 A1 L U) (hy : LowerSolved u n 0 L b1 y)
    (hz : UpperSolved u n 2 U y z) (hx : ∀ j < n, Rnd u (z j) (xe j))
    (hu : ((4 * n + 6 : Nat) : F) * u < 1) (i : Nat) (hi : i < n) :
    |b1 i - ∑ j ∈ range n, A1 i j * xe j| ≤
      gamma u (4 * n + 6) * ∑ j ∈ range n, (∑ t ∈ range n, |L i t| * |U t j|) * |xe j| +
        gamma u (n + 1) * |b1 i| := by
  have h1 := expert_equilibrated hu0 hLU hy hz hx (mul_lt_one_of_le hu0 (by omega) hu) i hi
  have h2 := mul_le_mul_of_nonneg_right (gamma_mono hu0 (j := 3 * n + 3) (k := 4 * n + 6) (by omega) hu)
    (wsum_nonneg (n := n) L U xe i)
  have h3 : 0 ≤ gamma u (n + 1) * |b1 i| :=
    mul_nonneg (gamma_nonneg hu0 (mul_lt_one_of_le hu0 (by omega) hu)) (abs_nonneg _)
  linarith

/-- **C05, original system** (the check's `okO` clause): `A1 = fl(a * fl(t s))`, `b1 = fl(s b)`,
`X = t x_eq`; `s_i |b - a X|_i ≤ γ_{4n+10} |L̂||Û||x_eq| + γ_{n+3} |b1|_i`. -/
theorem expert_original_check_constant {u : F} (hu0 : 0 ≤ u) {n : Nat} {a A1 L U : Nat → Nat → F}
    {b b1 y z xe X s t : Nat → F}
    (hLU : LUComputed u n n 2 A1 L U) (hy : LowerSolved u n 0 L b1 y) (hz : UpperSolved u n 2 U y z)
    (hx : ∀ j < n, Rnd u (z j) (xe j))
    (hA1 : ∀ i < n, ∀ j < n, ∃ sc, Rnd u (t j * s i) sc ∧ Rnd u (a i j * sc) (A1 i j))
    (hb1 : ∀ i < n, Rnd u (s i * b i) (b1 i)) (hX : ∀ j < n, X j = t j * xe j)
    (hu : ((4 * n + 10 : Nat) : F) * u < 1) (i : Nat) (hi : i < n) :
    |s i| * |b i - ∑ j ∈ range n, a i j * X j| ≤
      gamma u (4 * n + 10) * ∑ j ∈ range n, (∑ t ∈ range n, |L i t| * |U t j|) * |xe j| +
        gamma u (n + 3) * |b1 i| := by
  have h1 := expert_original hu0 hLU hy hz hx hA1 hb1 hX (mul_lt_one_of_le hu0 (by omega) hu) i hi
  have h2 := mul_le_mul_of_nonneg_right (gamma_mono hu0 (j := 3 * n + 5) (k := 4 * n + 10) (by omega) hu)
    (wsum_nonneg (n := n) L U xe i)
  have h3 := mul_le_mul_of_nonneg_right
    (gamma_mono hu0 (j := 1) (k := n + 3) (by omega) (mul_lt_one_of_le hu0 (by omega) hu)) (abs_nonneg (b1 i))
  linarith

/-! ### an executable instance: rounded Doolittle + substitutions in ANY arithmetic -/

/-- **for every arithmetic obeying the standard model** (`FlModel`: total functions `add sub mul div
fma` with `fl(x op y) = (x op y)(1+d)`, `|d| ≤ u`), every size and every matrix whose computed
pivots are nonzero, the rounded Doolittle factors satisfy `|A - L̂Û| ≤ γ_{n+1} |L̂||Û|`. -/
theorem rounded_lu_backward_error (M : FlModel F) (hu0 : 0 ≤ M.u) (A : Nat → Nat → F) (m n : Nat)
    (hpiv : ∀ k < n, (doolittle M A n).2 k k ≠ 0) (hu : ((n + 1 : Nat) : F) * M.u < 1)
    (i : Nat) (hi : i < m) (j : Nat) (hj : j < n) :
    |A i j - ∑ t ∈ range n, (doolittle M A n).1 i t * (doolittle M A n).2 t j| ≤
      gamma M.u (n + 1) * ∑ t ∈ range n, |(doolittle M A n).1 i t| * |(doolittle M A n).2 t j| :=
  doolittle_backward_error M hu0 A m n hpiv hu i hi j hj

/-- … and the solution computed from them by rounded substitutions satisfies
`|b - A x̂| ≤ γ_{3n} |L̂||Û||x̂|`. -/
theorem rounded_solve_backward_error (M : FlModel F) (hu0 : 0 ≤ M.u) (A : Nat → Nat → F) (b : Nat → F)
    (n : Nat) (hpiv : ∀ k < n, (doolittle M A n).2 k k ≠ 0) (hu : ((3 * n : Nat) : F) * M.u < 1)
    (i : Nat) (hi : i < n) :
    |b i - ∑ j ∈ range n, A i j *
        backSubst M n (doolittle M A n).2 (fwdSub M (doolittle M A n).1 b n) n j| ≤
      gamma M.u (3 * n) * ∑ j ∈ range n,
        (∑ t ∈ range n, |(doolittle M A n).1 i t| * |(doolittle M A n).2 t j|) *
          |backSubst M n (doolittle M A n).2 (fwdSub M (doolittle M A n).1 b n) n j| :=
  doolittle_solve_backward_error M hu0 A b n hpiv hu i hi

/-! ### the hypotheses are satisfiable

1. Exact arithmetic is the instance `u = 0`: every exact factorization satisfies `LUComputed 0`
   (`LUComputed.of_exact`), and `LUComputed 0` gives back the exact identity
   (`LUComputed.exact_identity`) — the exact-arithmetic theorem `luFactor_identity` of C02 is the
   `u = 0` face of `lu_error_division`.
2. Any deterministic arithmetic obeying the model (`FlModel`) produces `Dot` values by left-to-right
   evaluation, with or without FMA (`dot_left`, `dot_left_div`, `dot_left_recip`, `dot_leftFma`).
3. A concrete inexact run: 3 significant bits (`u = 1/8`), a 2×2 matrix, SuperLU's reciprocal
   scaling; `L̂Û ≠ A`, and the solve has a nonzero residual. -/

example : (FlModel.exact Rat).u = 0 := rfl

/-- a total inexact arithmetic: `(1 - 1*1) ⊖`-style left-to-right evaluation of `1 - 1/2 * 1` with
every result inflated by `9/8` gives `7/16 * 9/8 ≠ 1/2`, and Lemma 8.4 holds for it -/
example : leftEval (FlModel.inflate (1 / 8 : Rat) (by norm_num)) 1 [(1 / 2, 1)] = 63 / 128 := by
  norm_num [leftEval, FlModel.inflate]

example : |(1 : Rat) - dotSum [((1 : Rat) / 2, 1)] -
      1 * leftEval (FlModel.inflate (1 / 8 : Rat) (by norm_num)) 1 [(1 / 2, 1)]| ≤
    gamma (1 / 8 : Rat) 1 * (dotAbs [((1 : Rat) / 2, 1)] +
      |(1 : Rat)| * |leftEval (FlModel.inflate (1 / 8 : Rat) (by norm_num)) 1 [(1 / 2, 1)]|) :=
  (dot_left (FlModel.inflate (1 / 8 : Rat) (by norm_num)) 1 [(1 / 2, 1)]).bound
    (by norm_num [FlModel.inflate]) (by norm_num [Finish.cost, FlModel.inflate])

/-- for every size and every `u ≥ 0` the hypotheses of the LU theorems are satisfiable: exact
factors are admissible computed factors -/
example {u : F} (hu0 : 0 ≤ u) {m n : Nat} {A L U : Nat → Nat → F}
    (hLd : ∀ i < n, L i i = 1) (hLu : ∀ i t, i < t → L i t = 0) (hUl : ∀ t j, j < t → U t j = 0)
    (hUd : ∀ k < n, U k k ≠ 0) (hA : ∀ i j, j < n → A i j = ∑ t ∈ range n, L i t * U t j) :
    LUComputed u m n 1 A L U := (LUComputed.of_exact hLd hLu hUl hUd hA).mono hu0

example (M : FlModel F) (c : F) (l : List (F × F)) (bk : F) (hb : bk ≠ 0) :
    Dot M.u c l bk .recip (M.mul (leftEval M c l) (M.div 1 bk)) := dot_left_recip M c l bk hb

/-- a blocked evaluation with mixed signs and a fused multiply-add, in ANY arithmetic obeying the
model: a gemv-style partial sum `a₀b₀ + a₁b₁` accumulated separately and subtracted from `c`, then
`fma(-a₂, b₂, ·)`.  It is a `Dot` for the three products, so Lemma 8.4 applies with `γ_3`. -/
example (M : FlModel F) (c a0 b0 a1 b1 a2 b2 : F) :
    Dot M.u c [(a0, b0), (a1, b1), (a2, b2)] 1 .none
      (M.fma (-a2) b2 (M.sub c (M.add (M.mul a0 b0) (M.mul a1 b1)))) := by
  refine ⟨.fma (.sub (.lit c) (.add (.leaf a0 b0) (.leaf a1 b1))) (-a2) b2, rfl, ?_, _, ?_, rfl, rfl⟩
  · simp [CTree.leaves, STree.leaves]
  · refine .fma (.sub (.lit c) (.add (.leaf (M.mul_rnd _ _)) (.leaf (M.mul_rnd _ _)) (M.add_rnd _ _))
      (M.sub_rnd _ _)) ?_
    have := M.fma_rnd (-a2) b2 (M.sub c (M.add (M.mul a0 b0) (M.mul a1 b1)))
    rwa [add_comm] at this

example (M : FlModel F) (hu0 : 0 ≤ M.u) (h3 : ((3 : Nat) : F) * M.u < 1) (c a0 b0 a1 b1 a2 b2 : F) :
    |c - dotSum [(a0, b0), (a1, b1), (a2, b2)] -
        1 * M.fma (-a2) b2 (M.sub c (M.add (M.mul a0 b0) (M.mul a1 b1)))| ≤
      gamma M.u 3 * (dotAbs [(a0, b0), (a1, b1), (a2, b2)] +
        |(1 : F)| * |M.fma (-a2) b2 (M.sub c (M.add (M.mul a0 b0) (M.mul a1 b1)))|) := by
  have hd : Dot M.u c [(a0, b0), (a1, b1), (a2, b2)] 1 .none
      (M.fma (-a2) b2 (M.sub c (M.add (M.mul a0 b0) (M.mul a1 b1)))) := by
    refine ⟨.fma (.sub (.lit c) (.add (.leaf a0 b0) (.leaf a1 b1))) (-a2) b2, rfl, ?_, _, ?_, rfl, rfl⟩
    · simp [CTree.leaves, STree.leaves]
    · refine .fma (.sub (.lit c) (.add (.leaf (M.mul_rnd _ _)) (.leaf (M.mul_rnd _ _)) (M.add_rnd _ _))
        (M.sub_rnd _ _)) ?_
      have := M.fma_rnd (-a2) b2 (M.sub c (M.add (M.mul a0 b0) (M.mul a1 b1)))
      rwa [add_comm] at this
  exact hd.bound hu0 (by simpa [Finish.cost] using h3)

/-- a sparse kernel that skips the structurally zero product `(0, b₁)` still evaluates the full
inner product -/
example {u : F} (hu0 : 0 ≤ u) (c a0 b0 b1 y : F) (h : a0 * b0 ≠ 0)
    (hd : Dot u c [(a0, b0)] 1 .none y) : Dot u c [(a0, b0), (0, b1)] 1 .none y := by
  apply Dot.of_filter hu0
  simpa [List.filter, h] using hd

namespace Ex
/-- `A = [3 5; 1 2]` -/
def A (i j : Nat) : Rat :=
  if i = 0 ∧ j = 0 then 3 else if i = 0 ∧ j = 1 then 5 else if i = 1 ∧ j = 0 then 1
  else if i = 1 ∧ j = 1 then 2 else 0
/-- `L̂ = [1 0; 5/16 1]`: `fl(1/3) = 5/16` in 3-bit arithmetic -/
def L (i j : Nat) : Rat := if i = 1 ∧ j = 0 then 5 / 16 else if i = j then 1 else 0
/-- `Û = [3 5; 0 1/2]`: `fl(5/16 * 5) = fl(25/16) = 3/2`, `fl(2 - 3/2) = 1/2` -/
def U (i j : Nat) : Rat :=
  if i = 0 ∧ j = 0 then 3 else if i = 0 ∧ j = 1 then 5 else if i = 1 ∧ j = 1 then 1 / 2 else 0
/-- right-hand side `b = (1, 1)` -/
def b (_ : Nat) : Rat := 1
/-- `ŷ = (1, 3/4)`: `fl(1 - fl(5/16 * 1)) = fl(11/16) = 3/4` -/
def y (i : Nat) : Rat := if i = 0 then 1 else if i = 1 then 3 / 4 else 0
/-- `x̂ = (-2, 3/2)`: `x̂₁ = fl(3/4 * fl(1/(1/2))) = 3/2`, `fl(5 * 3/2) = 8`,
`x̂₀ = fl((1 - 8) * fl(1/3)) = fl(-35/16) = -2` -/
def x (i : Nat) : Rat := if i = 0 then -2 else if i = 1 then 3 / 2 else 0

theorem rnd {u a r : Rat} (d : Rat) (hd : |d| ≤ u) (e : r = a * (1 + d)) : Rnd u a r := ⟨d, hd, e⟩

theorem luComputed : LUComputed (1 / 8 : Rat) 2 2 2 A L U where
  L_diag := by intro i _; unfold L; rw [if_neg (by omega), if_pos rfl]
  L_upper := by
    intro i t h
    unfold L
    rw [if_neg (by omega), if_neg (by omega)]
  U_lower := by
    intro t j h
    unfold U
    rw [if_neg (by omega), if_neg (by omega), if_neg (by omega)]
  U_entry := by
    intro k j hkj hj
    obtain ⟨rfl, rfl⟩ | ⟨rfl, rfl⟩ | ⟨rfl, rfl⟩ : (k = 0 ∧ j = 0) ∨ (k = 0 ∧ j = 1) ∨ (k = 1 ∧ j = 1) := by
      omega
    · exact ⟨.lit (A 0 0), rfl, by simp [CTree.leaves], _, .lit _, rfl, by simp [A, U]⟩
    · exact ⟨.lit (A 0 1), rfl, by simp [CTree.leaves], _, .lit _, rfl, by simp [A, U]⟩
    · refine ⟨.sub (.lit (A 1 1)) (.leaf (L 1 0) (U 0 1)), rfl, by simp [CTree.leaves, STree.leaves],
        U 1 1, ?_, rfl, rfl⟩
      refine .sub (.lit _) (.leaf (y := 3 / 2) ?_) ?_
      · exact rnd (-1 / 25) (by norm_num [abs_le]) (by norm_num [L, U])
      · exact rnd 0 (by norm_num) (by norm_num [A, U])
  L_entry := by
    intro i k hki hi hk
    obtain ⟨rfl, rfl⟩ : i = 1 ∧ k = 0 := by omega
    refine ⟨.recip, le_rfl, .lit (A 1 0), rfl, by simp [CTree.leaves], A 1 0, .lit _, ?_, 5 / 16, ?_, ?_⟩
    · norm_num [U]
    · exact rnd (-1 / 16) (by norm_num [abs_le]) (by norm_num [U])
    · exact rnd 0 (by norm_num) (by norm_num [A, L])

theorem lowerSolved : LowerSolved (1 / 8 : Rat) 2 0 L b y := by
  intro i hi
  obtain rfl | rfl : i = 0 ∨ i = 1 := by omega
  · exact ⟨.none, le_rfl, .lit (b 0), rfl, by simp [CTree.leaves], _, .lit _, by simp [L], by simp [b, y]⟩
  · refine ⟨.none, le_rfl, .sub (.lit (b 1)) (.leaf (L 1 0) (y 0)), rfl,
      by simp [CTree.leaves, STree.leaves], y 1, ?_, by simp [L], rfl⟩
    refine .sub (.lit _) (.leaf (y := 5 / 16) ?_) ?_
    · exact rnd 0 (by norm_num) (by norm_num [L, y])
    · exact rnd (1 / 11) (by norm_num [abs_le]) (by norm_num [b, y])

theorem upperSolved : UpperSolved (1 / 8 : Rat) 2 2 U y x := by
  intro i hi
  obtain rfl | rfl : i = 0 ∨ i = 1 := by omega
  · -- x̂₀ = fl( fl(y₀ - fl(u₀₁ x̂₁)) * fl(1/u₀₀) ) = fl(-7 * 5/16) = -2
    refine ⟨.recip, le_rfl, .sub (.lit (y 0)) (.leaf (U 0 (0 + 1 + 0)) (x (0 + 1 + 0))), rfl,
      by simp [CTree.leaves, STree.leaves], -7, ?_, by norm_num [U], 5 / 16, ?_, ?_⟩
    · refine .sub (.lit _) (.leaf (y := 8) ?_) ?_
      · exact rnd (1 / 15) (by norm_num [abs_le]) (by norm_num [U, x])
      · exact rnd 0 (by norm_num) (by norm_num [y])
    · exact rnd (-1 / 16) (by norm_num [abs_le]) (by norm_num [U])
    · exact rnd (-3 / 35) (by norm_num [abs_le]) (by norm_num [x])
  · -- x̂₁ = fl( y₁ * fl(1/u₁₁) ) = 3/4 * 2
    refine ⟨.recip, le_rfl, .lit (y 1), rfl, by simp [CTree.leaves], y 1, .lit _, by norm_num [U], 2, ?_, ?_⟩
    · exact rnd 0 (by norm_num) (by norm_num [U])
    · exact rnd 0 (by norm_num) (by norm_num [y, x])

/-- the factorization bound at the entry where `L̂Û ≠ A`: `|2 - 33/16| ≤ γ_3 * 33/16` -/
example : |A 1 1 - ∑ t ∈ range 2, L 1 t * U t 1| ≤
    gamma (1 / 8 : Rat) 3 * ∑ t ∈ range 2, |L 1 t| * |U t 1| :=
  lu_error_reciprocal (by norm_num) luComputed (by norm_num) 1 (by norm_num) 1 (by norm_num)

/-- the factors really are inexact: `(L̂Û)₁₁ = 33/16 ≠ 2 = A₁₁` -/
example : ∑ t ∈ range 2, L 1 t * U t 1 = 33 / 16 ∧ A 1 1 = 2 := by
  constructor
  · simp [Finset.sum_range_succ, L, U]; norm_num
  · simp [A]

/-- the solve bound for this run (`3n+1 = 7`, `7u < 1`) -/
example (i : Nat) (hi : i < 2) : |b i - ∑ j ∈ range 2, A i j * x j| ≤
    gamma (1 / 8 : Rat) 7 * ∑ j ∈ range 2, (∑ t ∈ range 2, |L i t| * |U t j|) * |x j| :=
  solve_error_reciprocal (by norm_num) luComputed lowerSolved upperSolved (by norm_num) i hi

/-- and its residual is not zero: `b₀ - (A x̂)₀ = -1/2` -/
example : b 0 - ∑ j ∈ range 2, A 0 j * x j = -1 / 2 := by
  simp [Finset.sum_range_succ, A, x, b]; norm_num

/-- exact arithmetic: the exact factors of `A` (`l₂₁ = 1/3`, `u₂₂ = 1/3`) satisfy `LUComputed 0` -/
def Lx (i j : Nat) : Rat := if i = 1 ∧ j = 0 then 1 / 3 else if i = j then 1 else 0
def Ux (i j : Nat) : Rat :=
  if i = 0 ∧ j = 0 then 3 else if i = 0 ∧ j = 1 then 5 else if i = 1 ∧ j = 1 then 1 / 3 else 0
/-- the product, as the matrix being factored (all rows) -/
def Ax (i j : Nat) : Rat := ∑ t ∈ range 2, Lx i t * Ux t j

example : LUComputed (0 : Rat) 2 2 1 Ax Lx Ux :=
  LUComputed.of_exact (by intro i _; unfold Lx; rw [if_neg (by omega), if_pos rfl])
    (by intro i t h; unfold Lx; rw [if_neg (by omega), if_neg (by omega)])
    (by intro t j h; unfold Ux; rw [if_neg (by omega), if_neg (by omega), if_neg (by omega)])
    (by
      intro k hk
      obtain rfl | rfl : k = 0 ∨ k = 1 := by omega
      · norm_num [Ux]
      · norm_num [Ux])
    (by intro i j _; rfl)

example : Ax 0 0 = 3 ∧ Ax 0 1 = 5 ∧ Ax 1 0 = 1 ∧ Ax 1 1 = 2 := by
  simp [Ax, Finset.sum_range_succ, Lx, Ux]; norm_num

/-- the executable rounded LU run on `A` in the arithmetic that inflates every result by `9/8`:
`l̂₁₀ = 27/64` (exact: `1/3`), `û₁₁ = -1719/4096` (exact: `1/3`) — a very inexact arithmetic, and the
theorem applies to it as it stands (`3u < 1`). -/
def Minfl : FlModel Rat := FlModel.inflate (1 / 8) (by norm_num)

example : (doolittle Minfl A 2).1 1 0 = 27 / 64 ∧ (doolittle Minfl A 2).2 1 1 = -1719 / 4096 ∧
    (doolittle Minfl A 2).2 0 0 = 3 := by decide +kernel

example (i : Nat) (hi : i < 2) (j : Nat) (hj : j < 2) :
    |A i j - ∑ t ∈ range 2, (doolittle Minfl A 2).1 i t * (doolittle Minfl A 2).2 t j| ≤
      gamma Minfl.u 3 * ∑ t ∈ range 2, |(doolittle Minfl A 2).1 i t| * |(doolittle Minfl A 2).2 t j| := by
  refine rounded_lu_backward_error Minfl (by norm_num [Minfl, FlModel.inflate]) A 2 2 ?_
    (by norm_num [Minfl, FlModel.inflate]) i hi j hj
  intro k hk
  obtain rfl | rfl : k = 0 ∨ k = 1 := by omega
  · decide +kernel
  · decide +kernel

end Ex

end Slu.Rounding
