import Slu.Model.Interfere
import Slu.Gen.Census
import SluProofs.Lemmas.Interfere
/-
C09 — Calls are reentrant, thread-safe and deterministic.

Two kinds of obligations:

* the *logic* of non-interference, for the abstract semantics of `Slu/Model/Interfere.lean`, for any
  number of calls, any control-state type, any value type, any interleaving:
  `disjoint_steps_commute`, `interleaving_eq_serial`, `interleaving_eq_serial_order`, `determinism`,
  `determinism_history`;
* the tie of their hypothesis (`NonInterf`: no call writes what another call touches) to the source
  text: `census_clean` — every object with static storage duration that is not `const`, as listed by
  the translator `tools/census.py` from the *current* working tree (`Slu/Gen/Census.lean` is
  regenerated on every run), matches an entry of the reviewed allow-list below, each with the
  condition under which it is harmless.  A new `static` work buffer or counter makes `decide` fail.

Not modelled (trusted base): libc `malloc` (thread-safe, result independent of addresses), BLAS
internals, hardware memory model.  Those are searched at run time by the `threads` family (TSan).
-/
namespace Slu.C09
open Slu.Interfere Slu.Gen

variable {ι σ V : Type} [DecidableEq ι]

/-- **Two steps of different calls commute** when neither writes what the other may touch. -/
theorem disjoint_steps_commute (ps : ι → Proc σ V) (hR : ∀ i, (ps i).Respects) (hD : NonInterf ps)
    {i j : ι} (hij : i ≠ j) (c : Config ι σ V) :
    stepAt ps j (stepAt ps i c) = stepAt ps i (stepAt ps j c) := by
  have hji : j ≠ i := fun e => hij e.symm
  -- what each thread sees after the other's step agrees with what it saw before
  have aj : agreeOn (ps j).acc (stepAt ps i c).st c.st := stepAt_other_agree ps hR hD hji c
  have ai : agreeOn (ps i).acc (stepAt ps j c).st c.st := stepAt_other_agree ps hR hD hij c
  have lj : (stepAt ps i c).loc j = c.loc j := stepAt_other_loc ps hji c
  have li : (stepAt ps j c).loc i = c.loc i := stepAt_other_loc ps hij c
  -- stores, pointwise
  have hst : ∀ x, (stepAt ps j (stepAt ps i c)).st x = (stepAt ps i (stepAt ps j c)).st x := by
    intro x
    have pj := step1_local (hR j) (c.loc j) aj
    have pi := step1_local (hR i) (c.loc i) ai
    have ej := stepAt_self ps j (stepAt ps i c)
    have ei := stepAt_self ps i (stepAt ps j c)
    rw [lj] at ej; rw [li] at ei
    have ej0 := stepAt_self ps j c
    have ei0 := stepAt_self ps i c
    have sj : (stepAt ps j (stepAt ps i c)).st = ((ps j).step1 (c.loc j, (stepAt ps i c).st)).2 := congrArg Prod.snd ej
    have si : (stepAt ps i (stepAt ps j c)).st = ((ps i).step1 (c.loc i, (stepAt ps j c).st)).2 := congrArg Prod.snd ei
    have sj0 : (stepAt ps j c).st = ((ps j).step1 (c.loc j, c.st)).2 := congrArg Prod.snd ej0
    have si0 : (stepAt ps i c).st = ((ps i).step1 (c.loc i, c.st)).2 := congrArg Prod.snd ei0
    cases hwi : (ps i).wr x with
    | true =>
      have hxj : (ps j).wr x = false := wr_false_of_acc_false _ (hD i j hij x hwi)
      rw [stepAt_frame ps hR j _ x hxj, si, si0]
      exact (pi.2 x (acc_of_wr _ hwi)).symm
    | false =>
      rw [stepAt_frame ps hR i (stepAt ps j c) x hwi]
      cases hwj : (ps j).wr x with
      | true =>
        rw [sj, sj0]; exact pj.2 x (acc_of_wr _ hwj)
      | false =>
        rw [stepAt_frame ps hR j _ x hwj, stepAt_frame ps hR i c x hwi, stepAt_frame ps hR j c x hwj]
  -- control states, pointwise
  have hloc : ∀ k, (stepAt ps j (stepAt ps i c)).loc k = (stepAt ps i (stepAt ps j c)).loc k := by
    intro k
    have pj := step1_local (hR j) (c.loc j) aj
    have pi := step1_local (hR i) (c.loc i) ai
    have ej := stepAt_self ps j (stepAt ps i c)
    have ei := stepAt_self ps i (stepAt ps j c)
    rw [lj] at ej; rw [li] at ei
    have Lj : (stepAt ps j (stepAt ps i c)).loc j = ((ps j).step1 (c.loc j, (stepAt ps i c).st)).1 := congrArg Prod.fst ej
    have Li : (stepAt ps i (stepAt ps j c)).loc i = ((ps i).step1 (c.loc i, (stepAt ps j c).st)).1 := congrArg Prod.fst ei
    have Lj0 : (stepAt ps j c).loc j = ((ps j).step1 (c.loc j, c.st)).1 := congrArg Prod.fst (stepAt_self ps j c)
    have Li0 : (stepAt ps i c).loc i = ((ps i).step1 (c.loc i, c.st)).1 := congrArg Prod.fst (stepAt_self ps i c)
    by_cases hkj : k = j
    · subst hkj
      rw [Lj, stepAt_other_loc ps hji, Lj0]; exact pj.1
    · by_cases hki : k = i
      · subst hki
        rw [stepAt_other_loc ps hij, Li, Li0]; exact pi.1.symm
      · rw [stepAt_other_loc ps hkj, stepAt_other_loc ps hki, stepAt_other_loc ps hki, stepAt_other_loc ps hkj]
  have : ∀ a b : Config ι σ V, a.loc = b.loc → a.st = b.st → a = b := by
    intro a b h1 h2; cases a; cases b; simp_all
  exact this _ _ (funext hloc) (funext hst)

/-- **Any two complete interleavings agree.**  For calls that respect their footprints and do not
write what another call touches, every schedule that runs all calls to their return ends in the same
configuration: same store (hence same outputs) and same control states.  Induction over the
interleaving (through `run_projection`). -/
theorem interleaving_eq_serial (ps : ι → Proc σ V) (hR : ∀ i, (ps i).Respects) (hD : NonInterf ps)
    (c : Config ι σ V) (s₁ s₂ : List ι)
    (h₁ : Finished ps (run ps s₁ c)) (h₂ : Finished ps (run ps s₂ c)) :
    run ps s₁ c = run ps s₂ c := by
  -- per thread: the run-alone trace is stuck after `count i s₁` and after `count i s₂` steps
  have key : ∀ i, (ps i).runAlone (s₁.count i) (c.loc i, c.st) = (ps i).runAlone (s₂.count i) (c.loc i, c.st) := by
    intro i
    have stuck : ∀ (s : List ι), Finished ps (run ps s c) →
        (ps i).step ((ps i).runAlone (s.count i) (c.loc i, c.st)).1 ((ps i).runAlone (s.count i) (c.loc i, c.st)).2 = none := by
      intro s hs
      obtain ⟨p1, p2⟩ := run_projection ps hR hD i s c c.st (agreeOn_refl _ _)
      have hf := hs i
      rw [p1] at hf
      rcases (hR i).locality _ _ _ p2 with ⟨_, h⟩ | ⟨l', s', t', h, _, _⟩
      · exact h
      · rw [h] at hf; exact absurd hf (by simp)
    have a := runAlone_stuck (ps i) _ (stuck s₁ h₁) (s₂.count i)
    have b := runAlone_stuck (ps i) _ (stuck s₂ h₂) (s₁.count i)
    rw [← runAlone_add] at a b
    rw [← a, ← b, Nat.add_comm]
  have hloc : ∀ i, (run ps s₁ c).loc i = (run ps s₂ c).loc i := by
    intro i
    rw [(run_projection ps hR hD i s₁ c c.st (agreeOn_refl _ _)).1,
        (run_projection ps hR hD i s₂ c c.st (agreeOn_refl _ _)).1, key i]
  have hst : ∀ x, (run ps s₁ c).st x = (run ps s₂ c).st x := by
    intro x
    by_cases hx : ∃ i, (ps i).wr x = true
    · obtain ⟨i, hi⟩ := hx
      have hacc := acc_of_wr (ps i) hi
      rw [(run_projection ps hR hD i s₁ c c.st (agreeOn_refl _ _)).2 x hacc,
          (run_projection ps hR hD i s₂ c c.st (agreeOn_refl _ _)).2 x hacc, key i]
    · have hx' : ∀ i, (ps i).wr x = false := by
        intro i
        cases h : (ps i).wr x with
        | false => rfl
        | true => exact absurd ⟨i, h⟩ hx
      rw [run_frame ps hR s₁ x hx', run_frame ps hR s₂ x hx']
  have : ∀ a b : Config ι σ V, a.loc = b.loc → a.st = b.st → a = b := by
    intro a b h1 h2; cases a; cases b; simp_all
  exact this _ _ (funext hloc) (funext hst)

/-- the same, spelled out for "any serial order": an arbitrary complete interleaving ends like the
calls executed one after the other in any order `order` (each for `k i` steps, enough to return) -/
theorem interleaving_eq_serial_order (ps : ι → Proc σ V) (hR : ∀ i, (ps i).Respects) (hD : NonInterf ps)
    (c : Config ι σ V) (sched order : List ι) (k : ι → Nat)
    (h₁ : Finished ps (run ps sched c)) (h₂ : Finished ps (run ps (serial order k) c)) :
    run ps sched c = run ps (serial order k) c :=
  interleaving_eq_serial ps hR hD c sched (serial order k) h₁ h₂

/-- **Determinism / reentrancy.**  The same call (same footprints, same transition function, same
initial control state) placed in two *different* systems — other calls, other schedules, other
contents of every location outside its footprint ("whatever was solved before or in between") —
ends, when it has been scheduled to its return in both, in the same control state and with the same
contents of everything it may touch. -/
theorem determinism {ι' : Type} [DecidableEq ι']
    (ps : ι → Proc σ V) (qs : ι' → Proc σ V)
    (hR : ∀ i, (ps i).Respects) (hR' : ∀ i, (qs i).Respects) (hD : NonInterf ps) (hD' : NonInterf qs)
    (i : ι) (i' : ι') (hsame : ps i = qs i')
    (c : Config ι σ V) (c' : Config ι' σ V) (hl : c.loc i = c'.loc i') (hs : agreeOn (ps i).acc c.st c'.st)
    (s : List ι) (s' : List ι')
    (hf : (ps i).step ((run ps s c).loc i) (run ps s c).st = none)
    (hf' : (qs i').step ((run qs s' c').loc i') (run qs s' c').st = none) :
    (run ps s c).loc i = (run qs s' c').loc i' ∧ agreeOn (ps i).acc (run ps s c).st (run qs s' c').st := by
  obtain ⟨p1, p2⟩ := run_projection ps hR hD i s c c.st (agreeOn_refl _ _)
  have hs' : agreeOn (qs i').acc c'.st c.st := by rw [← hsame]; exact agreeOn_symm hs
  obtain ⟨q1, q2⟩ := run_projection qs hR' hD' i' s' c' c.st hs'
  rw [← hsame, ← hl] at q1 q2
  -- both run-alone traces (from the same start) are stuck
  have stuck1 : (ps i).step ((ps i).runAlone (s.count i) (c.loc i, c.st)).1 ((ps i).runAlone (s.count i) (c.loc i, c.st)).2 = none := by
    rw [p1] at hf
    rcases (hR i).locality _ _ _ p2 with ⟨_, h⟩ | ⟨l', a, b, h, _, _⟩
    · exact h
    · rw [h] at hf; exact absurd hf (by simp)
  have stuck2 : (ps i).step ((ps i).runAlone (s'.count i') (c.loc i, c.st)).1 ((ps i).runAlone (s'.count i') (c.loc i, c.st)).2 = none := by
    rw [← hsame, q1] at hf'
    rcases (hR i).locality _ _ _ q2 with ⟨_, h⟩ | ⟨l', a, b, h, _, _⟩
    · exact h
    · rw [h] at hf'; exact absurd hf' (by simp)
  have a := runAlone_stuck (ps i) _ stuck1 (s'.count i')
  have b := runAlone_stuck (ps i) _ stuck2 (s.count i)
  rw [← runAlone_add] at a b
  have key : (ps i).runAlone (s.count i) (c.loc i, c.st) = (ps i).runAlone (s'.count i') (c.loc i, c.st) := by
    rw [← a, ← b, Nat.add_comm]
  refine ⟨by rw [p1, q1, key], ?_⟩
  intro x hx
  rw [p2 x hx, q2 x hx, key]

/-- sequential form: the call `p` executed after an arbitrary history `before` of unrelated calls
(one thread, calls one after the other) ends as when executed on its own first -/
theorem determinism_history (ps : ι → Proc σ V) (hR : ∀ i, (ps i).Respects) (hD : NonInterf ps)
    (i : ι) (c : Config ι σ V) (before : List ι) (hb : i ∉ before) (k : Nat) :
    (run ps (before ++ List.replicate k i) c).loc i = ((ps i).runAlone k (c.loc i, c.st)).1 ∧
    agreeOn (ps i).acc (run ps (before ++ List.replicate k i) c).st ((ps i).runAlone k (c.loc i, c.st)).2 := by
  have := run_projection ps hR hD i (before ++ List.replicate k i) c c.st (agreeOn_refl _ _)
  have hc : (before ++ List.replicate k i).count i = k := by
    rw [List.count_append, List.count_eq_zero_of_not_mem hb, List.count_replicate_self]; omega
  rw [hc] at this
  exact this

/-! ### Non-vacuity: a concrete system satisfying all hypotheses -/

theorem axpy_respects (base n : Nat) (a : Int) : (axpyProc base n a).Respects where
  frame := by
    intro l s l' s' h x hx
    simp only [axpyProc] at h hx
    split at h
    · simp only [Option.some.injEq, Prod.mk.injEq] at h
      obtain ⟨_, rfl⟩ := h
      have : x ≠ base + n + l := by
        intro e; subst e
        simp at hx; omega
      simp [this]
    · exact absurd h (by simp)
  locality := by
    intro l s t h
    simp only [axpyProc]
    by_cases hl : l < n
    · right
      refine ⟨l + 1, _, _, by rw [if_pos hl], by rw [if_pos hl], ?_⟩
      intro x hx
      have h0 : s 0 = t 0 := h 0 (by simp [Proc.acc, axpyProc])
      have h1 : s (base + l) = t (base + l) := h _ (by simp [Proc.acc, axpyProc]; omega)
      have h2 : s (base + n + l) = t (base + n + l) := h _ (by simp [Proc.acc, axpyProc]; omega)
      by_cases hx' : x = base + n + l
      · simp [hx', h0, h1, h2]
      · simp only [hx', if_false]; exact h x (by simp [Proc.acc]; right; exact hx)
    · left; simp [hl]

/-- two calls on distinct data (cells 10..15 and 20..25), sharing the read-only tuning cell 0 -/
def twoCalls : Bool → Proc Nat Int := fun b => if b then axpyProc 10 3 2 else axpyProc 20 3 (-1)

example : (∀ b, (twoCalls b).Respects) ∧ NonInterf twoCalls := by
  refine ⟨fun b => by cases b <;> simp [twoCalls] <;> exact axpy_respects _ _ _, ?_⟩
  intro i j hij x hx
  cases i <;> cases j
  · exact absurd rfl hij
  · simp [twoCalls, axpyProc, Proc.acc] at hx ⊢; omega
  · simp [twoCalls, axpyProc, Proc.acc] at hx ⊢; omega
  · exact absurd rfl hij

/-- and the two interleavings `t f t f t f t f` / `f f f f t t t t` indeed give the same outputs -/
example :
    let c : Config Bool Nat Int := { loc := fun _ => 0, st := fun x => (x : Int) % 7 }
    let r₁ := run twoCalls [true, false, true, false, true, false, true, false] c
    let r₂ := run twoCalls (serial [false, true] (fun _ => 4)) c
    (List.range 30).map r₁.st = (List.range 30).map r₂.st ∧ r₁.loc true = r₂.loc true ∧ r₁.loc false = r₂.loc false := by
  decide

/-! ### The census of writable static storage (regenerated from the source on every run)

Each allow-list entry names one object (file, name) and the condition, checked on the regenerated
record, under which it cannot make two calls interfere. -/

structure Allowed where
  file : String
  name : String
  /-- condition on the regenerated record -/
  cond : StaticObj → Bool
  why : String

/-- removed by `#if 0`: not part of any build -/
def ifZero (o : StaticObj) : Bool := o.kind == "inactive" && o.insideIfZero && !o.inObject
/-- removed by the preprocessor in the verified configuration (debug-only code) and absent from the objects -/
def inactiveDebug (o : StaticObj) : Bool :=
  o.kind == "inactive" && !o.inObject &&
  (o.note == "removed by the preprocessor: #if defined(DEBUG)" || o.note == "removed by the preprocessor: #if ( DEBUGlevel>=1 )")
/-- verification hook: exists only with the guard on, the library only reads it -/
def hookReadOnly (o : StaticObj) : Bool :=
  o.guardOnly && !o.written && !o.escapes && !o.addrTaken && !o.inObject
/-- compiled, but never written and its address never reaches a writer -/
def neverWritten (o : StaticObj) : Bool := !o.written && !o.escapes

def iluA (f : String) : Allowed :=
  { file := f, name := "A", cond := ifZero,
    why := "`static T *A` used by `_compare_` only; declaration and all uses are inside `#if 0` (quick-select replaced the qsort)" }
def dbgCounter (f n : String) : Allowed :=
  { file := f, name := n, cond := inactiveDebug,
    why := "drop counter compiled only with -DDEBUG, which is not a documented/verified configuration; a DEBUG build is NOT thread-safe (recorded as a limit of the claim)" }

def allowList : List Allowed := [
  iluA "SRC/ilu_ccopy_to_ucol.c", iluA "SRC/ilu_dcopy_to_ucol.c", iluA "SRC/ilu_scopy_to_ucol.c", iluA "SRC/ilu_zcopy_to_ucol.c",
  iluA "SRC/ilu_cdrop_row.c", iluA "SRC/ilu_ddrop_row.c", iluA "SRC/ilu_sdrop_row.c", iluA "SRC/ilu_zdrop_row.c",
  { file := "SRC/mc64ad.c", name := "c__1", cond := fun o => ifZero o || (neverWritten o && o.kind == "file-static"),
    why := "f2c constant table; today inside `#if 0` (every routine declares its own local `c__1`); if re-enabled it must stay never-written with no escape to a writer" },
  { file := "SRC/mc64ad.c", name := "c__2", cond := fun o => ifZero o || (neverWritten o && o.kind == "file-static"),
    why := "as c__1" },
  dbgCounter "SRC/cgsitrf.c" "num_drop_L", dbgCounter "SRC/dgsitrf.c" "num_drop_L",
  dbgCounter "SRC/sgsitrf.c" "num_drop_L", dbgCounter "SRC/zgsitrf.c" "num_drop_L",
  dbgCounter "SRC/ilu_ccopy_to_ucol.c" "num_drop_U", dbgCounter "SRC/ilu_dcopy_to_ucol.c" "num_drop_U",
  dbgCounter "SRC/ilu_scopy_to_ucol.c" "num_drop_U", dbgCounter "SRC/ilu_zcopy_to_ucol.c" "num_drop_U",
  { file := "SRC/memory.c", name := "superlu_malloc_total", cond := inactiveDebug,
    why := "byte counter of the debugging allocator, compiled only with DEBUGlevel>=1 (default 0); a DEBUGlevel>=1 build is NOT thread-safe (limit of the claim)" },
  { file := "SRC/sp_ienv.c", name := "slu_verif_ienv", cond := hookReadOnly,
    why := "hook H1 (tuning override), exists only under SLU_VERIF; read by sp_ienv, written only by the harness between calls (never while library threads run)" },
  { file := "SRC/sp_ienv.c", name := "slu_verif_pivot_hook", cond := hookReadOnly,
    why := "hook H2 (pivot event callback pointer), exists only under SLU_VERIF; read by [sdcz]pivotL, set by the harness before threads start" },
  { file := "SRC/sp_ienv.c", name := "slu_verif_ilu_pivot_hook", cond := hookReadOnly,
    why := "hook H2 (pivot event callback pointer), exists only under SLU_VERIF; read by ilu_[sdcz]pivotL, set by the harness before threads start" },
  { file := "SRC/sp_ienv.c", name := "slu_verif_coldfs_hook", cond := hookReadOnly,
    why := "hook H3 (callback pointer reporting the arguments of each column_dfs call), exists only under SLU_VERIF; read by [sdcz]gstrf, set by the single-threaded family coldfsreal around its own factorization and NULL otherwise" }
]

/-- the two routines whose documented purpose is to FILL the caller's options structure -/
def optionSetters : List String := ["set_default_options(options)", "ilu_set_default_options(options)"]

/-- `options` is an input of every other routine: it neither stores through the pointer (directly or through a
callee) nor keeps it.  A routine that did would carry state from one call into every later call that shares the
caller's structure — interference without any static variable. -/
def optionsParamOk (o : StaticObj) : Bool :=
  (!o.written && !o.escapes) || (o.file == "SRC/util.c" && optionSetters.contains o.name && !o.escapes)

def entryOk (o : StaticObj) : Bool :=
  if o.kind == "options-param" then optionsParamOk o
  else if o.kind == "impure-call" then false     -- no call of getenv / rand / strtok / setlocale / … anywhere in the library
  else allowList.any fun a => a.file == o.file && a.name == o.name && a.cond o

/-- **The census is clean**: the translator succeeded on the current source, it looked at the whole
library, and every writable object with static storage duration it found is a reviewed, harmless
one.  (With the guard off the list of such objects *in the compiled library* is empty:
`census_objects_empty`.) -/
theorem census_clean : censusOk = true ∧ 230 ≤ censusFiles ∧ census.all entryOk = true := by
  decide

/-- nothing writable with static storage duration survives in the guard-off optimised objects -/
theorem census_objects_empty : (census.filter fun o => o.inObject) = [] := by
  decide

/-- no compiled object of the census is written by the library or has its address escape -/
theorem census_no_writer :
    (census.filter fun o => o.kind != "inactive" && o.kind != "options-param" && o.kind != "impure-call" && (o.written || o.escapes)) = [] := by
  decide

/-- **No library routine touches process-wide libc state**: no call of `getenv`/`setenv`, the `rand` family,
`strtok`, `setlocale`, `localtime`, `signal`, … (the translator's list `IMPURE_LIBC`) occurs in any compiled
function — a tuning value read from the environment on every call would make two identical calls differ whenever
another component changes the environment in between. -/
theorem no_process_state_calls : (census.filter fun o => o.kind == "impure-call") = [] := by
  decide

/-- **The options structure is read-only** for every library routine that receives it (29 routines on the pinned
tree: the drivers, the factorizations, `sp_preorder`, `ilu_?drop_row`, the printers), the two default-setters
excepted. -/
theorem options_read_only :
    25 ≤ (census.filter fun o => o.kind == "options-param").length ∧
    (census.filter fun o => o.kind == "options-param" && (o.written || o.escapes)).map (·.name) = optionSetters.reverse := by
  decide

end Slu.C09
