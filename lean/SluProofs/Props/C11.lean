import Slu.Model.Equil
import SluProofs.Lemmas.Fold
/-
C11 — Equilibration factors and their application follow the definition.

Theorems are about `Slu.Equil.gsequ` / `laqgs` (the model that the correspondence check compares
bit-for-bit with `[sdcz]gsequ` / `[sdcz]laqgs`), instantiated at exact arithmetic `R = Rat`, for an
arbitrary scalar type `K` whose magnitude function is nonnegative (real: |x|, complex: |re|+|im|).
All statements hold for every m, n, every entry list (any pattern, any order, duplicates allowed)
and every pair of machine constants `0 < sml ≤ big`.
-/
namespace Slu.Equil
open Slu

variable {K : Type} [Mag K Rat]

/-- the clamp of dgsequ.c:165 -/
def clamp (sml big x : Rat) : Rat := min (max x sml) big

theorem rowMax_eq (es : List (Entry K)) (i : Nat) :
    rowMax es i = foldMaxIf (fun e : Entry K => e.row = i) (fun e => Mag.abs1 e.val) 0 es := by
  simp [rowMax, foldMaxIf]

theorem colMax_eq (es : List (Entry K)) (r : Nat → Rat) (j : Nat) :
    colMax es r j = foldMaxIf (fun e : Entry K => e.col = j) (fun e => Mag.abs1 e.val * r e.row) 0 es := by
  simp [colMax, foldMaxIf]

theorem invClamp_eq (sml big x : Rat) : invClamp sml big x = 1 / clamp sml big x := by
  simp [invClamp, clamp]

theorem clamp_pos {sml big : Rat} (h0 : 0 < sml) (h1 : sml ≤ big) (x : Rat) : 0 < clamp sml big x := by
  unfold clamp
  exact lt_min (lt_of_lt_of_le h0 (le_max_right _ _)) (lt_of_lt_of_le h0 h1)

theorem clamp_bounds {sml big : Rat} (h1 : sml ≤ big) (x : Rat) :
    sml ≤ clamp sml big x ∧ clamp sml big x ≤ big := by
  unfold clamp
  exact ⟨le_min (le_max_right _ _) h1, min_le_right _ _⟩

theorem clamp_id {sml big x : Rat} (h1 : sml ≤ x) (h2 : x ≤ big) : clamp sml big x = x := by
  unfold clamp; rw [max_eq_left h1, min_eq_left h2]

/-- every scale factor the routine can produce is positive and inside `[1/big, 1/sml]` -/
theorem invClamp_range {sml big : Rat} (h0 : 0 < sml) (h1 : sml ≤ big) (x : Rat) :
    0 < invClamp sml big x ∧ 1 / big ≤ invClamp sml big x ∧ invClamp sml big x ≤ 1 / sml := by
  rw [invClamp_eq]
  have hp := clamp_pos h0 h1 x
  obtain ⟨hl, hu⟩ := clamp_bounds h1 x
  refine ⟨by positivity, ?_, ?_⟩
  · exact one_div_le_one_div_of_le hp hu
  · exact one_div_le_one_div_of_le h0 hl

/-! ### Shape of the result -/

/-- **C11 (info = 0 ⇒ both factor arrays are written, by the clamp formula).** -/
theorem gsequ_info0_shape (m n : Nat) (es : List (Entry K)) (sml big : Rat) (hm : m ≠ 0) (hn : n ≠ 0)
    (h : (gsequ m n es sml big).info = 0) :
    ∃ c0 : Nat → Rat,
      (gsequ m n es sml big).r = some (fun i => invClamp sml big (rowMax es i)) ∧
      c0 = colMax es (fun i => invClamp sml big (rowMax es i)) ∧
      (gsequ m n es sml big).c = some (fun j => invClamp sml big (c0 j)) := by
  unfold gsequ at h ⊢
  simp only [hm, hn, or_self, if_false] at h ⊢
  split at h
  · simp at h
  · rename_i h1
    simp only [h1] at ⊢
    split at h
    · simp at h
    · rename_i h2
      simp only [h2, Bool.false_eq_true, if_false]
      exact ⟨_, trivial, rfl, rfl⟩

/-- **C11 (range).** On success every row and column scale factor is positive and lies in the safe
range `[1/bignum, 1/smlnum]`. -/
theorem gsequ_range (m n : Nat) (es : List (Entry K)) (sml big : Rat) (h0 : 0 < sml) (h1 : sml ≤ big)
    (hm : m ≠ 0) (hn : n ≠ 0) (h : (gsequ m n es sml big).info = 0) :
    ∃ r c, (gsequ m n es sml big).r = some r ∧ (gsequ m n es sml big).c = some c ∧
      (∀ i, 0 < r i ∧ 1 / big ≤ r i ∧ r i ≤ 1 / sml) ∧ (∀ j, 0 < c j ∧ 1 / big ≤ c j ∧ c j ≤ 1 / sml) := by
  obtain ⟨c0, hr, _, hc⟩ := gsequ_info0_shape m n es sml big hm hn h
  exact ⟨_, _, hr, hc, fun i => invClamp_range h0 h1 _, fun j => invClamp_range h0 h1 _⟩

/-! ### The factors make the largest entry one -/

/-- `rowMax es i` is the largest magnitude in row `i` (0 for an empty row) -/
theorem rowMax_spec (es : List (Entry K)) (i : Nat) :
    (∀ e ∈ es, e.row = i → Mag.abs1 e.val ≤ rowMax es i) ∧
    (rowMax es i = 0 ∨ ∃ e ∈ es, e.row = i ∧ Mag.abs1 e.val = rowMax es i) ∧ 0 ≤ rowMax es i := by
  rw [rowMax_eq]
  exact ⟨fun e he hr => foldMaxIf_ge_mem _ _ 0 es e he hr, foldMaxIf_attained _ _ 0 es, foldMaxIf_ge_init _ _ 0 es⟩

/-- **C11 (row clause).** `R_i * clamp(max_j |a_ij|) = 1`: the largest entry of row `i` of
`diag(R) A` is exactly one unless the row maximum was clamped by the safe range, in which case it is
`max/clamp`. -/
theorem gsequ_rowmax (sml big : Rat) (h0 : 0 < sml) (h1 : sml ≤ big) (es : List (Entry K)) (i : Nat) :
    invClamp sml big (rowMax es i) * clamp sml big (rowMax es i) = 1 := by
  rw [invClamp_eq]
  have := clamp_pos h0 h1 (rowMax es i)
  field_simp

/-- unclamped row: every scaled entry is at most one and one of them equals one -/
theorem gsequ_rowmax_unclamped (sml big : Rat) (h0 : 0 < sml)
    (es : List (Entry K)) (i : Nat) (hlo : sml ≤ rowMax es i) (hhi : rowMax es i ≤ big) :
    (∀ e ∈ es, e.row = i → invClamp sml big (rowMax es i) * Mag.abs1 e.val ≤ 1) ∧
    (∃ e ∈ es, e.row = i ∧ invClamp sml big (rowMax es i) * Mag.abs1 e.val = 1) := by
  have hpos : 0 < rowMax es i := lt_of_lt_of_le h0 hlo
  rw [invClamp_eq, clamp_id hlo hhi]
  obtain ⟨hle, hatt, _⟩ := rowMax_spec es i
  constructor
  · intro e he hr
    have := hle e he hr
    rw [one_div, inv_mul_le_iff₀ hpos]; linarith
  · rcases hatt with h | ⟨e, he, hr, hv⟩
    · exact absurd h (ne_of_gt hpos)
    · exact ⟨e, he, hr, by rw [hv]; field_simp⟩

/-- `colMax es r j` is the largest row-scaled magnitude in column `j` -/
theorem colMax_spec (es : List (Entry K)) (r : Nat → Rat) (j : Nat) :
    (∀ e ∈ es, e.col = j → Mag.abs1 e.val * r e.row ≤ colMax es r j) ∧
    (colMax es r j = 0 ∨ ∃ e ∈ es, e.col = j ∧ Mag.abs1 e.val * r e.row = colMax es r j) := by
  rw [colMax_eq]
  exact ⟨fun e he hr => foldMaxIf_ge_mem _ _ 0 es e he hr, foldMaxIf_attained _ _ 0 es⟩

/-- **C11 (column clause).** Same for the columns of `diag(R) A diag(C)`. -/
theorem gsequ_colmax (sml big : Rat) (h0 : 0 < sml) (h1 : sml ≤ big) (es : List (Entry K)) (r : Nat → Rat) (j : Nat) :
    invClamp sml big (colMax es r j) * clamp sml big (colMax es r j) = 1 := by
  rw [invClamp_eq]
  have := clamp_pos h0 h1 (colMax es r j)
  field_simp

theorem gsequ_colmax_unclamped (sml big : Rat) (h0 : 0 < sml)
    (es : List (Entry K)) (r : Nat → Rat) (j : Nat) (hlo : sml ≤ colMax es r j) (hhi : colMax es r j ≤ big) :
    (∀ e ∈ es, e.col = j → Mag.abs1 e.val * r e.row * invClamp sml big (colMax es r j) ≤ 1) ∧
    (∃ e ∈ es, e.col = j ∧ Mag.abs1 e.val * r e.row * invClamp sml big (colMax es r j) = 1) := by
  have hpos : 0 < colMax es r j := lt_of_lt_of_le h0 hlo
  rw [invClamp_eq, clamp_id hlo hhi]
  obtain ⟨hle, hatt⟩ := colMax_spec es r j
  constructor
  · intro e he hr
    have := hle e he hr
    rw [mul_one_div, div_le_one hpos]; exact this
  · rcases hatt with h | ⟨e, he, hr, hv⟩
    · exact absurd h (ne_of_gt hpos)
    · exact ⟨e, he, hr, by rw [hv]; field_simp⟩

/-! ### All-zero rows and columns are reported by position -/

theorem find_first_zero (f : Nat → Rat) (k : Nat) (h : ∃ i < k, f i = 0) :
    ∃ i, (List.range k).find? (fun i => f i == 0) = some i ∧ i < k ∧ f i = 0 ∧ ∀ i' < i, f i' ≠ 0 := by
  obtain ⟨i0, hi0, hz⟩ := h
  have hex : ((List.range k).find? (fun i => f i == 0)).isSome := by
    rw [List.find?_isSome]
    exact ⟨i0, List.mem_range.mpr hi0, by simp [hz]⟩
  obtain ⟨i, hi⟩ := Option.isSome_iff_exists.mp hex
  refine ⟨i, hi, ?_, ?_, ?_⟩
  · exact List.mem_range.mp (List.mem_of_find?_eq_some hi)
  · have := List.find?_some hi; simpa using this
  · intro i' hi' hzero
    have hlt : i < k := List.mem_range.mp (List.mem_of_find?_eq_some hi)
    rw [List.find?_eq_some_iff_getElem] at hi
    obtain ⟨_, idx, hidx, hget, hall⟩ := hi
    simp only [List.getElem_range] at hget
    subst hget
    have hidx' : i' < (List.range k).length := by simp; omega
    have := hall i' hi'
    simp [List.getElem_range] at this
    exact this hzero

/-- the min-scan is zero iff some row maximum is zero (all terms nonnegative, start positive) -/
theorem scanMin_zero_iff (f : Nat → Rat) (big : Rat) (hb : 0 < big) (hf : ∀ i, 0 ≤ f i) (k : Nat) :
    scanMin big f k = 0 ↔ ∃ i < k, f i = 0 := by
  unfold scanMin
  simp only [smin_eq_min]
  constructor
  · intro h
    rcases scan_min_attained f big k with h' | ⟨i, hi, h'⟩
    · rw [h] at h'; exact absurd h'.symm (ne_of_gt hb)
    · exact ⟨i, hi, by rw [h'] ; exact h⟩
  · rintro ⟨i, hi, hz⟩
    have h1 := scan_min_le f big k i hi
    rw [hz] at h1
    refine le_antisymm h1 ?_
    rcases scan_min_attained f big k with h' | ⟨i', _, h'⟩
    · rw [h']; exact le_of_lt hb
    · rw [← h']; exact hf i'

/-- **C11 (zero row).** `info = i+1 ≤ m` exactly when row `i` is the first all-zero row; then only
`amax` and the raw row maxima have been produced. -/
theorem gsequ_info_row (m n : Nat) (es : List (Entry K)) (sml big : Rat)
    (hb : 0 < big) (hm : m ≠ 0) (hn : n ≠ 0) :
    (∃ i < m, rowMax es i = 0) ↔
    ∃ i < m, (gsequ m n es sml big).info = i + 1 ∧ rowMax es i = 0 ∧ (∀ i' < i, rowMax es i' ≠ 0) ∧
      (gsequ m n es sml big).c = none ∧ (gsequ m n es sml big).rowcnd = none := by
  have hf : ∀ i, 0 ≤ rowMax es i := fun i => (rowMax_spec es i).2.2
  constructor
  · intro h
    obtain ⟨i, hfind, hi, hz, hfirst⟩ := find_first_zero (rowMax es) m h
    have hmin : scanMin big (rowMax es) m = 0 := (scanMin_zero_iff _ big hb hf m).mpr h
    refine ⟨i, hi, ?_, hz, hfirst, ?_, ?_⟩ <;>
    · unfold gsequ
      simp only [hm, hn, or_self, if_false, hmin, beq_self_eq_true, if_true, hfind, Option.getD_some]
  · rintro ⟨i, hi, _, hz, _⟩
    exact ⟨i, hi, hz⟩

/-- **C11 (no zero row ⇒ info is 0 or names a column).** -/
theorem gsequ_info_not_row (m n : Nat) (es : List (Entry K)) (sml big : Rat)
    (hb : 0 < big) (hm : m ≠ 0) (hn : n ≠ 0) (h : ¬ ∃ i < m, rowMax es i = 0) :
    (gsequ m n es sml big).info = 0 ∨
    ∃ j < n, (gsequ m n es sml big).info = m + j + 1 ∧
      colMax es (fun i => invClamp sml big (rowMax es i)) j = 0 ∧
      ∀ j' < j, colMax es (fun i => invClamp sml big (rowMax es i)) j' ≠ 0 := by
  have hf : ∀ i, 0 ≤ rowMax es i := fun i => (rowMax_spec es i).2.2
  have hmin : scanMin big (rowMax es) m ≠ 0 := fun h0 => h ((scanMin_zero_iff _ big hb hf m).mp h0)
  have hmin' : (scanMin big (rowMax es) m == 0) = false := by simpa using hmin
  unfold gsequ
  simp only [hm, hn, or_self, if_false, hmin', Bool.false_eq_true]
  split
  · rename_i hc
    right
    have hcf : ∀ j, 0 ≤ colMax es (fun i => invClamp sml big (rowMax es i)) j := by
      intro j; rw [colMax_eq]; exact foldMaxIf_ge_init _ _ 0 es
    have hex := (scanMin_zero_iff _ big hb hcf n).mp (by simpa using hc)
    obtain ⟨j, hfind, hj, hz, hfirst⟩ := find_first_zero _ n hex
    exact ⟨j, hj, by simp only [hfind, Option.getD_some], hz, hfirst⟩
  · left; rfl

/-! ### Reported ratios equal their definitions -/

/-- `scanMax f k` is the maximum of `f 0 .. f (k-1)` (and 0) -/
theorem scanMax_spec (f : Nat → Rat) (k : Nat) :
    (∀ i < k, f i ≤ scanMax f k) ∧ (scanMax f k = 0 ∨ ∃ i < k, f i = scanMax f k) := by
  unfold scanMax; simp only [smax_eq_max]
  exact ⟨fun i hi => scan_max_ge f 0 k i hi, scan_max_attained f 0 k⟩

/-- `scanMin big f k` is the minimum of `big, f 0 .. f (k-1)` -/
theorem scanMin_spec (big : Rat) (f : Nat → Rat) (k : Nat) :
    (∀ i < k, scanMin big f k ≤ f i) ∧ scanMin big f k ≤ big ∧
    (scanMin big f k = big ∨ ∃ i < k, f i = scanMin big f k) := by
  unfold scanMin; simp only [smin_eq_min]
  exact ⟨fun i hi => scan_min_le f big k i hi, scan_min_le_init f big k, scan_min_attained f big k⟩

/-- **C11 (ratios).** On success `amax` is the largest row maximum, `rowcnd` and `colcnd` are the
documented quotients of the extreme row (column) maxima clamped to the safe range. -/
theorem gsequ_ratios (m n : Nat) (es : List (Entry K)) (sml big : Rat) (hm : m ≠ 0) (hn : n ≠ 0)
    (h : (gsequ m n es sml big).info = 0) :
    let r := fun i => invClamp sml big (rowMax es i)
    (gsequ m n es sml big).amax = some (scanMax (rowMax es) m) ∧
    (gsequ m n es sml big).rowcnd = some (max (scanMin big (rowMax es) m) sml / min (scanMax (rowMax es) m) big) ∧
    (gsequ m n es sml big).colcnd = some (max (scanMin big (colMax es r) n) sml / min (scanMax (colMax es r) n) big) := by
  unfold gsequ at h ⊢
  simp only [hm, hn, or_self, if_false] at h ⊢
  split at h
  · simp at h
  · rename_i h1
    simp only [h1, if_false]
    split at h
    · simp at h
    · rename_i h2
      simp only [h2, Bool.false_eq_true, if_false, smax_eq_max, smin_eq_min]
      exact ⟨trivial, trivial, trivial⟩

/-! ### Application of the scaling -/

/-- **C11 (threshold rule).** `equed` is N/R/C/B exactly by the documented tests. -/
theorem laqgs_rule (thresh small large rowcnd colcnd amax : Rat) :
    let rowOK := rowcnd ≥ thresh ∧ amax ≥ small ∧ amax ≤ large
    let colOK := colcnd ≥ thresh
    (laqgsRule thresh small large rowcnd colcnd amax = .N ↔ rowOK ∧ colOK) ∧
    (laqgsRule thresh small large rowcnd colcnd amax = .C ↔ rowOK ∧ ¬ colOK) ∧
    (laqgsRule thresh small large rowcnd colcnd amax = .R ↔ ¬ rowOK ∧ colOK) ∧
    (laqgsRule thresh small large rowcnd colcnd amax = .B ↔ ¬ rowOK ∧ ¬ colOK) := by
  intro rowOK colOK
  unfold laqgsRule
  by_cases h1 : (rowcnd ≥ thresh ∧ amax ≥ small ∧ amax ≤ large) <;> by_cases h2 : (colcnd ≥ thresh) <;>
    simp only [rowOK, colOK, h1, h2, if_true, if_false] <;> simp

/-- **C11 (values).** Every stored entry is multiplied by exactly the factors selected by `equed`
(real data; complex data is scaled componentwise, `laqgs_values_cx`). -/
theorem laqgs_values (m n : Nat) (es : List (Entry Rat)) (r c : Nat → Rat)
    (thresh small large rowcnd colcnd amax : Rat) (hm : m ≠ 0) (hn : n ≠ 0) :
    let q := (laqgs m n es r c thresh small large rowcnd colcnd amax).1
    let out := (laqgs m n es r c thresh small large rowcnd colcnd amax).2
    q = laqgsRule thresh small large rowcnd colcnd amax ∧
    out.length = es.length ∧
    ∀ k (hk : k < es.length), out[k]? = some (
      let e := es[k]
      match q with
      | .N => e.val
      | .R => r e.row * e.val
      | .C => e.val * c e.col
      | .B => r e.row * e.val * c e.col) := by
  simp only [laqgs, hm, hn, or_self, if_false, List.length_map, true_and]
  intro k hk
  simp only [List.getElem?_map, List.getElem?_eq_getElem hk, Option.map_some, laqgsEntry]
  cases laqgsRule thresh small large rowcnd colcnd amax <;> simp [Mag.rscale] <;> ring

theorem laqgs_values_cx (m n : Nat) (es : List (Entry (Cx Rat))) (r c : Nat → Rat)
    (thresh small large rowcnd colcnd amax : Rat) (hm : m ≠ 0) (hn : n ≠ 0) :
    let q := (laqgs m n es r c thresh small large rowcnd colcnd amax).1
    let out := (laqgs m n es r c thresh small large rowcnd colcnd amax).2
    ∀ k (hk : k < es.length), ∃ z, out[k]? = some z ∧
      let e := es[k]
      let f : Rat := match q with
        | .N => 1 | .R => r e.row | .C => c e.col | .B => c e.col * r e.row
      z.re = e.val.re * f ∧ z.im = e.val.im * f := by
  simp only [laqgs, hm, hn, or_self, if_false]
  intro k hk
  simp only [List.getElem?_map, List.getElem?_eq_getElem hk, Option.map_some, laqgsEntry]
  cases laqgsRule thresh small large rowcnd colcnd amax <;> simp [Mag.rscale]

/-- degenerate dimensions: nothing is scaled, `equed = N` (dlaqgs.c:108-111) -/
theorem laqgs_empty (m n : Nat) (es : List (Entry K)) (r c : Nat → Rat)
    (thresh small large rowcnd colcnd amax : Rat) (h : m = 0 ∨ n = 0) :
    laqgs m n es r c thresh small large rowcnd colcnd amax = (.N, es.map (·.val)) := by
  simp [laqgs, h]

/-! ### Non-vacuity: a concrete 2x2 matrix meets the hypotheses and exercises the clauses -/

def exEs : List (Entry Rat) := [⟨0, 0, 4⟩, ⟨1, 0, -2⟩, ⟨1, 1, 8⟩]

example : (gsequ 2 2 exEs (1/1000) 1000).info = 0 := by decide +kernel
example : ((gsequ 2 2 exEs (1/1000) 1000).r.map (fun f => [f 0, f 1])) = some [1/4, 1/8] := by decide +kernel
example : (gsequ 2 2 [⟨0, 0, (4 : Rat)⟩] (1/1000) 1000).info = 2 := by decide +kernel
example : (gsequ 2 2 [⟨0, 0, (4 : Rat)⟩, ⟨1, 0, 3⟩] (1/1000) 1000).info = 4 := by decide +kernel
example : ∀ x : Rat, 0 ≤ (Mag.abs1 x : Rat) := fun x => rabs_nonneg x
example : ∀ z : Cx Rat, 0 ≤ (Mag.abs1 z : Rat) := fun z => add_nonneg (rabs_nonneg _) (rabs_nonneg _)

end Slu.Equil
