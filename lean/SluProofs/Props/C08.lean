import Slu.Model.Mem
import SluProofs.Lemmas.Mem
import SluProofs.Lemmas.MemInit
import SluProofs.Lemmas.MemCurrent
/-
C08 — A caller workspace is never overrun; shortage is reported.

Theorems are about `Slu.Mem` (the allocator of `[sdcz]memory.c` as a state machine over byte
extents; the correspondence check replays it step by step against real factorizations).
`Inv` (in `SluProofs/Lemmas/Mem.lean`) is the invariant of a workspace:
`0 ≤ … ≤ top1 ≤ top2 ≤ size`, `used = top1 + (size - top2)`, and the live arrays in address order
`[xsup|supno|xlsub|xlusup|xusub|LUSUP|UCOL|LSUB|USUB] top1 … top2 [dwork|iwork] size`.

The positive theorems are proved of the *repaired* functions (`fixed`: all of D3, D7, D10 repaired; D3
and D10 are repaired in /repo by the commits ba17e55 and 1d60195, which the model mirrors line by
line).  For the code as pinned (`asIs`) and for /repo as it is now (`current`: D7 open) the
invariants are *false*; the negations are proved below with concrete witnesses that are also
reproducers on the real code.

Hypotheses: `w.Ok` — sizeof(int) = 4, sizeof(int_t) and sizeof(scalar) positive multiples of 4;
`w.liw ≤ w.dw` — an index is not wider than a scalar (false only for 64-bit indices with single
precision reals, where the UCOL/USUB reservation of the C code is too small — see `level_note`).
-/
namespace Slu.Mem

/-! ### Operations the factor routines issue after `LUMemInit` -/

/-- one request of the growth protocol -/
inductive Op where
  /-- `LUMemXpand(jcol, next, type, &maxlen, Glu)` -/
  | xpand (t : MemType)
  /-- `LUWorkFree` -/
  | workFree
deriving Repr, DecidableEq

def step (fx : Fixes) (w : Words) (fail : Nat → Bool) (s : St) : Op → St
  | .xpand t => (memXpand fx w fail t s).1
  | .workFree => workFree s

/-- run an arbitrary request sequence -/
def run (fx : Fixes) (w : Words) (fail : Nat → Bool) (s : St) (ops : List Op) : St :=
  ops.foldl (step fx w fail) s

/-- **C08 `mem_inv`, one step**: every request, granted or refused, keeps the invariant. -/
theorem mem_inv_step (w : Words) (hw : w.Ok) (hld : w.liw ≤ w.dw) (fail : Nat → Bool) (s : St) (op : Op)
    (h : Inv w s) : Inv w (step fixed w fail s op) := by
  cases op with
  | xpand t => exact memXpand_inv fixed rfl rfl w hw hld fail t s h
  | workFree => exact workFree_inv w s h

/-- **C08 `mem_inv`**: the invariant holds after every request sequence, of any length, in any order
(in particular every sequence the factor routines can issue). -/
theorem mem_inv (w : Words) (hw : w.Ok) (hld : w.liw ≤ w.dw) (fail : Nat → Bool) (ops : List Op) :
    ∀ s, Inv w s → Inv w (run fixed w fail s ops) := by
  induction ops with
  | nil => intro s h; exact h
  | cons op ops ih => intro s h; exact ih _ (mem_inv_step w hw hld fail s op h)

/-- **C08 `mem_inv`, initial state**: whenever the repaired `LUMemInit` returns 0 for a caller
workspace — any `lwork > 0`, either alignment, any problem size and fill estimate, any path through
the retry/halving loop — the state it leaves satisfies the invariant.  (`isize`, `dsize` are the byte
sizes of the two work arrays; they are nonnegative whenever `m, panel_size, maxsuper, rowblk ≥ 0`.) -/
theorem mem_inv_init (fail : Nat → Bool) (c : Cfg) (hw : c.w.Ok) (hl : 0 < c.lwork) (hn : 1 ≤ c.n) (ha : 1 ≤ c.annz)
    (hI : 0 ≤ isize c) (hD : 0 ≤ dsize c) (hnz : 0 ≤ c.fill * c.annz)
    (h : (memInit_fixed fail c).info = 0) : Inv c.w (memInit_fixed fail c).st :=
  memInit_fixed_inv fail c hw hl hn hI hD hnz (memInit_no_spin fixed fail c ha hnz) h

/-- `LUMemInit` terminates: the retry loop cannot run forever when `nnz(A) ≥ 1` (any mode, any
allocation failures, pinned or repaired code). -/
theorem memInit_terminates (fx : Fixes) (fail : Nat → Bool) (c : Cfg) (ha : 1 ≤ c.annz) (hnz : 0 ≤ c.fill * c.annz) :
    (memInit fx fail c).spin = false :=
  memInit_no_spin fx fail c ha hnz

/-- **C08 `mem_inv`, every reachable state**: `LUMemInit` followed by any request sequence. -/
theorem mem_inv_reachable (fail : Nat → Bool) (c : Cfg) (hw : c.w.Ok) (hld : c.w.liw ≤ c.w.dw) (hl : 0 < c.lwork)
    (hn : 1 ≤ c.n) (ha : 1 ≤ c.annz) (hI : 0 ≤ isize c) (hD : 0 ≤ dsize c) (hnz : 0 ≤ c.fill * c.annz)
    (h : (memInit_fixed fail c).info = 0) (ops : List Op) :
    Inv c.w (run fixed c.w fail (memInit_fixed fail c).st ops) :=
  mem_inv c.w hw hld fail ops _ (mem_inv_init fail c hw hl hn ha hI hD hnz h)

/-- **C08 `shortage_reported`, allocation phase**: if `LUMemInit` does not return 0 it returns a value
larger than `n` (workspace or library allocation, whatever fails). -/
theorem shortage_reported_init (fail : Nat → Bool) (c : Cfg) (hw : c.w.Ok) (hn : 1 ≤ c.n) (ha : 1 ≤ c.annz)
    (hI : 0 ≤ isize c) (hD : 0 ≤ dsize c) (hnz : 0 ≤ c.fill * c.annz)
    (h : (memInit_fixed fail c).info ≠ 0) : c.n < (memInit_fixed fail c).info :=
  memInit_info_gt fixed fail c hw hn ha hI hD hnz h

/-- **C08 `mem_confined`**: in every reachable state every array handed to a writer lies inside
`[0, size)` and no two of them overlap. -/
theorem mem_confined (w : Words) (hw : w.Ok) (hld : w.liw ≤ w.dw) (fail : Nat → Bool) (ops : List Op)
    (s : St) (h : Inv w s) :
    (∀ b ∈ (run fixed w fail s ops).blocks w, 0 ≤ b.1 ∧ 0 ≤ b.2 ∧ b.1 + b.2 ≤ (run fixed w fail s ops).size) ∧
      ((run fixed w fail s ops).blocks w).Pairwise Disjoint :=
  inv_confined w hw _ (mem_inv w hw hld fail ops s h)

/-- **C08 `shortage_reported`** (growth during the factorization): a request that cannot be met
leaves the allocator state exactly as it was — nothing has been moved or written — and the routine
returns `memory_usage + n`, which is larger than `n`. -/
theorem shortage_reported (w : Words) (hw : w.Ok) (fail : Nat → Bool) (t : MemType) (s : St) (h : Inv w s)
    (hn : 1 ≤ s.n) (hfail : (memXpand fixed w fail t s).2 ≠ 0) :
    (memXpand fixed w fail t s).1 = s ∧ s.n < (memXpand fixed w fail t s).2 := by
  obtain ⟨h1, h2⟩ := memXpand_user_fail fixed w fail t s h.user (ne_of_gt h.nexp) hfail
  refine ⟨h1, ?_⟩
  rw [h2]
  have := memoryUsage_pos w hw s h hn
  omega

/-- **C08 `expand_progress`**: a successful expansion returns `new_len > prev_len`, with a workspace and
with library allocation, whatever the allocation failures. -/
theorem expand_progress (w : Words) (fail : Nat → Bool) (prev : Int) (t : MemType) (s : St)
    (hn : s.nexp ≠ 0) (nl : Int) (h : (expand_fixed w fail prev t false s).2 = some nl) : prev < nl :=
  expand_progress_of fixed rfl w fail prev t s hn nl h

/-- the same for /repo as it is now (D10 repaired by 1d60195) -/
theorem expand_progress_current (w : Words) (fail : Nat → Bool) (prev : Int) (t : MemType) (s : St)
    (hn : s.nexp ≠ 0) (nl : Int) (h : (expand current w fail prev t false s).2 = some nl) : prev < nl :=
  expand_progress_of current rfl w fail prev t s hn nl h

/-- **no hang**: every `while ( new_next > maxlen ) LUMemXpand` loop of the factor routines ends within
`new_next - maxlen` rounds. -/
theorem growth_loop_terminates (w : Words) (hw : w.Ok) (hld : w.liw ≤ w.dw) (fail : Nat → Bool) (t : MemType)
    (ht : t ≠ .USUB) (need : Int) (s : St) (h : Inv w s) (hn : 1 ≤ s.n) :
    growUntil fixed w fail t need (need - s.nz t).toNat s ≠ none :=
  growUntil_terminates fixed rfl rfl w hw hld fail t ht need _ s h hn (Nat.le_refl _)

/-! ### The code as pinned / as it is now: the invariants are false (concrete witnesses) -/

def noFail : Nat → Bool := fun _ => false
def w8 : Words := {}   -- double precision, 32-bit indices

/-- D3 witness: 1x1 matrix, one entry, fill estimate 3, `lwork = 8`. -/
def cfgD3 : Cfg := { m := 1, n := 1, annz := 1, panel := 1, maxsuper := 1, rowblk := 1, fill := 3, lwork := 8 }

/-- **`mem_inv` is false of the pinned code (D3)**: `LUMemInit` returns 0 (success) although the five
pointer arrays are NULL and LUSUP starts 72 bytes *in front of* the caller's 8-byte buffer. -/
theorem mem_inv_false_pinned_D3 :
    (memInit_asIs noFail cfgD3).info = 0 ∧ (memInit_asIs noFail cfgD3).st.hdrOk = false ∧
      (memInit_asIs noFail cfgD3).st.offL = -72 := by decide

/-- the repaired `LUMemInit` reports the shortage for the same input -/
theorem mem_inv_fixed_D3 : (memInit_fixed noFail cfgD3).info = 113 ∧ (memInit_fixed noFail cfgD3).info > cfgD3.n := by
  decide

/-- D7 witness: 2x2 matrix with 4 entries, fill estimate 1, `lwork = 272`. -/
def cfgD7 : Cfg := { m := 2, n := 2, annz := 4, panel := 1, maxsuper := 1, rowblk := 1, fill := 1, lwork := 272 }

/-- **`mem_inv` is false of /repo as it is now (D7)**: from the state `LUMemInit` returns, one UCOL
expansion is granted and leaves `top1 = 192 > top2 = 184`: the test was made with `extra`, `2*extra`
was taken. -/
theorem mem_inv_false_current_D7 :
    (memInit current noFail cfgD7).info = 0 ∧
      (memXpand current w8 noFail .UCOL (memInit current noFail cfgD7).st).2 = 0 ∧
      (memXpand current w8 noFail .UCOL (memInit current noFail cfgD7).st).1.top1 = 192 ∧
      (memXpand current w8 noFail .UCOL (memInit current noFail cfgD7).st).1.top2 = 184 := by decide

/-- … but the damage is contained by the protocol: the USUB request that `copy_to_ucol` issues next is
refused (`StackFull(0)` holds because `used > size`), so the routine returns `info > n` before anything
is written into the overlap. -/
theorem D7_contained :
    (memXpand current w8 noFail .USUB (memXpand current w8 noFail .UCOL (memInit current noFail cfgD7).st).1).2 = 202 := by
  decide

/-- the repaired expansion settles for a smaller growth factor (5 instead of 6 entries) and stays inside -/
theorem mem_inv_fixed_D7 :
    (memXpand_fixed w8 noFail .UCOL (memInit_fixed noFail cfgD7).st).2 = 0 ∧
      (memXpand_fixed w8 noFail .UCOL (memInit_fixed noFail cfgD7).st).1.capU = 5 ∧
      (memXpand_fixed w8 noFail .UCOL (memInit_fixed noFail cfgD7).st).1.top1 = 176 ∧
      (memXpand_fixed w8 noFail .UCOL (memInit_fixed noFail cfgD7).st).1.top2 = 184 := by decide

/-- D10 witness: 2x2 matrix with 2 entries, fill estimate 1, `lwork = 208`. -/
def cfgD10 : Cfg := { m := 2, n := 2, annz := 2, panel := 1, maxsuper := 1, rowblk := 1, fill := 1, lwork := 208 }

/-- **`expand_progress` is false of the pinned code (D10)**: the LUSUP expansion "succeeds" with
`new_len = prev_len = 2`, and therefore the callers' loop never ends. -/
theorem expand_progress_false_pinned_D10 :
    (memInit_asIs noFail cfgD10).info = 0 ∧
      (expand_asIs w8 noFail 2 .LUSUP false (memInit_asIs noFail cfgD10).st).2 = some 2 ∧
      growUntil asIs w8 noFail .LUSUP 3 50 (memInit_asIs noFail cfgD10).st = none := by decide

/-- the repaired expansion fails (there is no room for a third entry), and the loop ends with the
shortage code -/
theorem expand_progress_fixed_D10 :
    (expand_fixed w8 noFail 2 .LUSUP false (memInit_fixed noFail cfgD10).st).2 = none ∧
      (growUntil fixed w8 noFail .LUSUP 3 50 (memInit_fixed noFail cfgD10).st).isSome = true := by decide

/-! ### /repo as it is now (D7 open): the weaker invariant, and why D7 cannot overrun the buffer -/

/-- **`current_confined`**: for /repo as it is now (D3, D10 repaired; D7 open) — `LUMemInit` followed by any
request sequence: every live array stays inside `[0, size)` and no two overlap.  `top1 ≤ top2` may break
after a UCOL expansion (`mem_inv_false_current_D7`), but then `used ≥ size`, every further request is refused
(`overshoot_refuses`) and USUB, whose growth was the purpose of the second `extra`, has not grown. -/
theorem current_confined (fail : Nat → Bool) (c : Cfg) (hw : c.w.Ok) (hld : c.w.liw ≤ c.w.dw) (hl : 0 < c.lwork)
    (hn : 1 ≤ c.n) (ha : 1 ≤ c.annz) (hI : 0 ≤ isize c) (hD : 0 ≤ dsize c) (hnz : 0 ≤ c.fill * c.annz)
    (h : (memInit current fail c).info = 0) (ts : List MemType) :
    let s := ts.foldl (fun s t => (memXpand current c.w fail t s).1) (memInit current fail c).st
    (∀ b ∈ s.blocks c.w, 0 ≤ b.1 ∧ 0 ≤ b.2 ∧ b.1 + b.2 ≤ s.size) ∧ (s.blocks c.w).Pairwise Disjoint := by
  have h0 : InvC c.w (memInit current fail c).st :=
    (memInit_inv_of_d3 current rfl rfl fail c hw hl hn hI hD hnz (memInit_no_spin current fail c ha hnz) h).toC
  have hall : ∀ (ts : List MemType) (s : St), InvC c.w s →
      InvC c.w (ts.foldl (fun s t => (memXpand current c.w fail t s).1) s) := by
    intro ts
    induction ts with
    | nil => intro s hs; exact hs
    | cons t ts ih => intro s hs; exact ih _ (memXpand_current_invC c.w hw hld fail t s hs)
  exact invC_confined c.w hw _ (hall ts _ h0)

/-! ### Non-vacuity -/

example : Words.Ok w8 := ⟨rfl, ⟨1, rfl⟩, ⟨2, rfl⟩, by decide, by decide⟩
example : w8.liw ≤ w8.dw := by decide

end Slu.Mem
