import Slu.Model.Gssvx
import Slu.Model.Refine
import SluProofs.Lemmas.Gssvx
import SluProofs.Lemmas.RefineResid
import SluProofs.Props.C11
import SluProofs.Lemmas.GssvxLU
import SluProofs.Props.C02
/-
C05 — The expert driver solves op(A) X = B and mutates A, B only as documented.

Theorems are about `Slu.Gssvx.gssvx` (the statement mirror of the glue of `[sdcz]gssvx`, compared
bit for bit with the C code on every run) with the inner solver (`gstrs`, `gsrfs` on the factors of
the equilibrated matrix) as a parameter.  The mutation clauses (`gssvx_A_out`, `gssvx_B_out`,
`gssvx_noequil_pure`) hold in ANY arithmetic (they are stated for arbitrary `K`, `R`, in particular
for the floating-point instances that are executed); the solution clause is stated in exact
arithmetic for every commutative ring with the laws of `ScalarLaws` — instances `Rat` (real data)
and `Cx Rat` (complex data, the library's `zz_mult` / `zd_mult` / conjugation).  All statements hold
for every n, nrhs, ldb, ldx >= n, every stored entry list (any pattern, any order, duplicates
summed), every right-hand side, all 3 x 2 x 2 x 2 combinations of Trans, Equil, storage,
refinement, and every pair of machine constants 0 < sml <= big.

END TO END (section "the LU model as the inner solver").  The inner solver is no longer only a
parameter: `innerLU` (Lemmas/GssvxLU.lean) is `gstrs(NOTRANS / TRANS / CONJ)` of the LU model
(`Slu.LU.luFactor` with threshold pivoting, `gstrsN`, `gstrsT`) on the matrix the driver hands to
`gstrf`, namely `A_eq * Pc`: column `permC[c]` of the factored matrix is the dense column `c`
(duplicates summed) of the stored entries after equilibration.  `gssvx_solves` already takes `es` as
"the stored arrays" (A for SLU_NC, A' for SLU_NR) and asks `InnerCorrect` of exactly the equilibrated
stored matrix, with the operator flip of dgssvx.c:488-494 done inside the glue model, so nothing
special is needed for SLU_NR: the matrix that is factored is the one `InnerCorrect` speaks about.
  * `innerLU_correct`: `luFactor` reports `info = 0`  ==>  `InnerCorrect n esEq innerLU`
    (from `run_inv`, `gstrsN_solves`, `gstrsT_solves` with f = id / conjugation).
  * `gssvx_solves_with_lu`: for `gssvxLU` (equilibrate, factor, glue, optional `gsrfs`), every option
    set, machine constants 0 < sml <= big, n, nrhs, ldb, ldx >= n, every column permutation, every
    threshold 0 < u <= 1, candidate orders and pivot memory, over every field with `ScalarLaws` and
    `MagLaws` (instances Rat and Cx Rat): `info = 0` ==> the returned X solves the DOCUMENTED system
    `op(A) X = B` for the caller's ORIGINAL A and B exactly.  `gsrfs` only has to return an exact
    solution unchanged.
  * `gssvx_solves_with_lu_refine`: the same with `gsrfs` := the bit-mirror refinement loop
    (`Slu.Refine.refineCol`) in exact arithmetic, solver = `gstrs(trans)` on the LU factors; no
    hypothesis about refinement is left (`refine_noop_of_solution` + `solveLU_zero`).
  * `gssvxLU_singular`: `info ≠ 0` ==> B and X untouched.
What remains an oracle / outside the exact-arithmetic statement: the column order (`get_perm_c`;
any permutation is covered, its fill quality is not the subject), the symbolic/supernodal
organisation of `gstrf` (C02/C03 tie it to `luFactor`), the convergence and the stopping rule of the
refinement loop in floating point (here it is shown to be a no-op on an exact solution), and
rounding (Props/Rounding.lean, checked on every run through the factor-derived residual bound).

Reading: `es` are the stored entries of A (SLU_NC) or of A' (SLU_NR); `opMul op es x i` is
`(op(stored matrix) x)_i`; `docOp o` is the documented operator in storage coordinates
(SLU_NR: `A x = (A')' x`, `A' x`, `A^H x = conj(A') x`); `cell M ld i j = M[i + j*ld]`.
-/
set_option linter.unusedSectionVars false
namespace Slu.Gssvx
open Slu Slu.Equil Slu.Lacon Slu.LU

/-! ### what happens to A, R, C, equed -/

section anyarith
variable {K R : Type} [Mag K R] [HasConj K] [Inhabited K]
variable [Zero R] [One R] [Mul R] [Div R] [LT R] [DecidableLT R] [LE R] [DecidableLE R] [BEq R]

/-- the equilibration outcome does not depend on what happens afterwards -/
theorem gssvx_equ (d : Bool) (o : Opts) (M : Mach R) (n nrhs ldb ldx : Nat) (es : List (Entry K))
    (r0 c0 : Nat → R) (B X : Array K) (facOk : Bool) (inner : Trans → Array K → Array K) :
    let out := gssvx d o M n nrhs ldb ldx es r0 c0 B X facOk inner
    let e := equilStep o.equil n es M r0 c0
    out.equed = e.equed ∧ out.r = e.r ∧ out.c = e.c ∧ out.aout = e.aout := by
  intro out e
  simp only [out, gssvx]
  split <;> exact ⟨rfl, rfl, rfl, rfl⟩

/-- **C05 (A on exit).** In any arithmetic, A on exit is A on entry with every stored value
replaced by the C11 scaling `laqgsEntry` for the returned `equed`, `R`, `C`:
`a` (N), `a * R[i]` (R), `a * C[j]` (C), `a * (C[j] * R[i])` (B) — nothing else, whatever the
factorization and the solve do. -/
theorem gssvx_A_out (d : Bool) (o : Opts) (M : Mach R) (n nrhs ldb ldx : Nat) (es : List (Entry K))
    (r0 c0 : Nat → R) (B X : Array K) (facOk : Bool) (inner : Trans → Array K → Array K) :
    let out := gssvx d o M n nrhs ldb ldx es r0 c0 B X facOk inner
    out.aout = es.map (laqgsEntry out.equed out.r out.c) ∧
    out.aout.length = es.length ∧
    ∀ k (hk : k < es.length), out.aout[k]? = some (
      match out.equed with
      | .N => es[k].val
      | .R => Mag.rscale es[k].val (out.r es[k].row)
      | .C => Mag.rscale es[k].val (out.c es[k].col)
      | .B => Mag.rscale es[k].val (out.c es[k].col * out.r es[k].row)) := by
  intro out
  obtain ⟨h1, h2, h3, h4⟩ := gssvx_equ d o M n nrhs ldb ldx es r0 c0 B X facOk inner
  have h : out.aout = es.map (laqgsEntry out.equed out.r out.c) := by
    simp only [out]
    rw [h1, h2, h3, h4]
    exact equilStep_aout o.equil n es M r0 c0
  refine ⟨h, by rw [h, List.length_map], ?_⟩
  intro k hk
  rw [h, List.getElem?_map, List.getElem?_eq_getElem hk, Option.map_some]
  cases out.equed <;> rfl

/-- **C05 (B on exit).** In any arithmetic: B keeps its size; nothing outside the leading n rows of
the nrhs columns is touched; nothing at all is touched when nothing is solved; otherwise the block
is multiplied by `R` exactly when `notran && rowequ`, by `C` exactly when `!notran && colequ`
(`notran` AFTER the SLU_NR flip of dgssvx.c:488-494) and is left alone in every other case. -/
theorem gssvx_B_out (d : Bool) (o : Opts) (M : Mach R) (n nrhs ldb ldx : Nat) (es : List (Entry K))
    (r0 c0 : Nat → R) (B X : Array K) (facOk : Bool) (inner : Trans → Array K → Array K)
    (hb : n ≤ ldb) (hB : ldb * nrhs ≤ B.size) :
    let out := gssvx d o M n nrhs ldb ldx es r0 c0 B X facOk inner
    let notran := (effTrans o.rowStored o.trans).2
    out.bout.size = B.size ∧
    (∀ k, ¬ (k % ldb < n ∧ k / ldb < nrhs) → out.bout[k]? = B[k]?) ∧
    ((facOk = false ∨ nrhs = 0) → out.bout = B) ∧
    (facOk = true → notran = true → Equed.rowequ out.equed = true →
      ∀ j < nrhs, ∀ i < n, cell out.bout ldb i j = Mag.rscale (cell B ldb i j) (out.r i)) ∧
    (facOk = true → notran = false → Equed.colequ out.equed = true →
      ∀ j < nrhs, ∀ i < n, cell out.bout ldb i j = Mag.rscale (cell B ldb i j) (out.c i)) ∧
    (notran = true → Equed.rowequ out.equed = false → out.bout = B) ∧
    (notran = false → Equed.colequ out.equed = false → out.bout = B) := by
  intro out notran
  obtain ⟨h1, h2, h3, _⟩ := gssvx_equ d o M n nrhs ldb ldx es r0 c0 B X facOk inner
  by_cases hq : (!facOk ∨ nrhs = 0)
  · have hout : out.bout = B := by simp only [out, gssvx, hq, if_true]
    refine ⟨by rw [hout], fun _ _ => by rw [hout], fun _ => hout, ?_, ?_, fun _ _ => hout, fun _ _ => hout⟩
    · intro hf _ _ j hj
      rcases hq with hq | hq
      · simp [hf] at hq
      · omega
    · intro hf _ _ j hj
      rcases hq with hq | hq
      · simp [hf] at hq
      · omega
  · have hout : out.bout = scaleB notran out.equed n nrhs ldb B out.r out.c := by
      simp only [out, gssvx, hq, if_false, notran]
    refine ⟨?_, ?_, ?_, ?_, ?_, ?_, ?_⟩
    · rw [hout]; unfold scaleB; split <;> split <;> simp [scaleMat_size]
    · intro k hk
      rw [hout]; unfold scaleB
      split <;> split <;> first | rfl | exact scaleMat_outside _ _ _ _ _ _ hk
    · intro h; exact absurd (by rcases h with h | h <;> simp [h]) hq
    · intro _ hn hr j hj i hi
      rw [hout]; simp only [scaleB, hn, hr, if_true]
      exact scaleMat_cell n nrhs ldb B _ i j hi hb hj hB
    · intro _ hn hc j hj i hi
      rw [hout]; simp only [scaleB, hn, hc, if_true, Bool.false_eq_true, if_false]
      exact scaleMat_cell n nrhs ldb B _ i j hi hb hj hB
    · intro hn hr; rw [hout]; simp [scaleB, hn, hr]
    · intro hn hc; rw [hout]; simp [scaleB, hn, hc]

/-- **C05 (X outside the solution block).** In any arithmetic: X keeps its size, the rows beyond n
of every column (ldx > n) and every column beyond nrhs are never written, and X is not touched at
all when nothing is solved (singular factorization or nrhs = 0). -/
theorem gssvx_X_padding (d : Bool) (o : Opts) (M : Mach R) (n nrhs ldb ldx : Nat) (es : List (Entry K))
    (r0 c0 : Nat → R) (B X : Array K) (facOk : Bool) (inner : Trans → Array K → Array K) :
    let out := gssvx d o M n nrhs ldb ldx es r0 c0 B X facOk inner
    out.x.size = X.size ∧
    (∀ k, ¬ (k % ldx < n ∧ k / ldx < nrhs) → out.x[k]? = X[k]?) ∧
    ((facOk = false ∨ nrhs = 0) → out.x = X) := by
  intro out
  by_cases hq : (!facOk ∨ nrhs = 0)
  · have hout : out.x = X := by simp only [out, gssvx, hq, if_true]
    exact ⟨by rw [hout], fun _ _ => by rw [hout], fun _ => hout⟩
  · refine ⟨?_, ?_, ?_⟩
    · simp only [out, gssvx, hq, if_false, unscaleX]
      split <;> split <;> simp [scaleMat_size, setCols_size, copyMat_size]
    · intro k hk
      simp only [out, gssvx, hq, if_false, unscaleX]
      split <;> split <;>
        first
        | rw [scaleMat_outside _ _ _ _ _ _ hk, setCols_outside _ _ _ _ _ _ hk, copyMat_outside _ _ _ _ _ _ _ hk]
        | rw [setCols_outside _ _ _ _ _ _ hk, copyMat_outside _ _ _ _ _ _ _ hk]
    · intro h; exact absurd (by rcases h with h | h <;> simp [h]) hq

/-- which array scales B, spelled out over storage and Trans (the SLU_NR flip): column storage uses
R for NOTRANS and C for TRANS/CONJ, row storage uses C for NOTRANS and R for TRANS/CONJ -/
theorem gssvx_B_factor_table (t : Trans) :
    (effTrans false t).2 = decide (t = .N) ∧ (effTrans true t).2 = decide (t ≠ .N) := by
  cases t <;> simp [effTrans]

/-- **C05 (Equil = NO is pure).** With a fresh factorization and Equil = NO the driver returns
`equed = N`, leaves R and C alone and changes neither a stored value of A nor an entry of B — in
any arithmetic, whatever the factorization reports and whatever the inner solver does. -/
theorem gssvx_noequil_pure (d : Bool) (o : Opts) (M : Mach R) (n nrhs ldb ldx : Nat) (es : List (Entry K))
    (r0 c0 : Nat → R) (B X : Array K) (facOk : Bool) (inner : Trans → Array K → Array K)
    (h : o.equil = false) :
    let out := gssvx d o M n nrhs ldb ldx es r0 c0 B X facOk inner
    out.equed = .N ∧ out.aout = es.map (·.val) ∧ out.bout = B ∧ out.r = r0 ∧ out.c = c0 := by
  intro out
  obtain ⟨h1, h2, h3, h4⟩ := gssvx_equ d o M n nrhs ldb ldx es r0 c0 B X facOk inner
  have he := equilStep_noequil (K := K) n es M r0 c0
  rw [h] at h1 h2 h3 h4
  rw [he] at h1 h2 h3 h4
  refine ⟨h1, h4, ?_, h2, h3⟩
  simp only [out, gssvx, h, he]
  split
  · rfl
  · cases (effTrans o.rowStored o.trans).2 <;> simp [scaleB, Equed.rowequ, Equed.colequ]

end anyarith

/-! ### the scalings named by equed are positive (from C11) -/

/-- **C05 (positive scalings).** For machine constants `0 < sml ≤ big`, whenever `equed` names the
row (column) scaling, every `R[i]` (`C[j]`) the driver returns is positive and lies in the safe range
`[1/big, 1/sml]` (C11 `gsequ_range`): the scalings can be undone. -/
theorem equed_scalings_positive {K : Type} [Mag K Rat] (equil : Bool) (n : Nat) (es : List (Entry K))
    (M : Mach Rat) (r0 c0 : Nat → Rat) (h0 : 0 < M.sml) (h1 : M.sml ≤ M.big) :
    let e := equilStep equil n es M r0 c0
    (Equed.rowequ e.equed = true → ∀ i, 0 < e.r i ∧ 1 / M.big ≤ e.r i ∧ e.r i ≤ 1 / M.sml) ∧
    (Equed.colequ e.equed = true → ∀ j, 0 < e.c j ∧ 1 / M.big ≤ e.c j ∧ e.c j ≤ 1 / M.sml) := by
  intro e
  simp only [e]
  unfold equilStep
  cases equil
  · simp [Equed.rowequ, Equed.colequ]
  · simp only [Bool.not_true, Bool.false_eq_true, if_false]
    split
    · simp [Equed.rowequ, Equed.colequ]
    · rename_i hinfo
      have hinfo' : (gsequ n n es M.sml M.big).info = 0 := by simpa using hinfo
      by_cases hn : n = 0
      · simp [laqgs, hn, Equed.rowequ, Equed.colequ]
      · obtain ⟨r, c, hr, hc, hrr, hcc⟩ := gsequ_range n n es M.sml M.big h0 h1 hn hn hinfo'
        simp only [hr, hc, Option.getD_some]
        exact ⟨fun _ => hrr, fun _ => hcc⟩

section exact
variable {K : Type} [CommRing K] [Mag K Rat] [HasConj K] [ScalarLaws K] [Inhabited K]

/-- correctness of the inner solver on the EQUILIBRATED matrix (the stored entries with the values
the equilibration step leaves behind), for the three operators `gstrs` knows -/
def InnerCorrect (n : Nat) (esEq : List (Entry K)) (inner : Trans → Array K → Array K) : Prop :=
  ∀ (tr : Trans) (b : Array K), b.size = n →
    (inner tr b).size = n ∧
    ∀ i < n, opMul (opOfTrans tr) esEq (fun k => (inner tr b).getD k default) i = b.getD i default

/-- **C05 (solution).** If the inner solver (`gstrs`, plus `gsrfs` when refinement is on) is correct
for the equilibrated (and, for SLU_NR, transposed) matrix, then the X returned by the driver solves
the DOCUMENTED system `op(A) X = B` for the caller's ORIGINAL A and B — exactly, for NOTRANS, TRANS
and CONJ, Equil on or off, both storages, refinement on or off, every n, nrhs, ldb, ldx >= n. -/
theorem gssvx_solves (o : Opts) (M : Mach Rat) (n nrhs ldb ldx : Nat) (es : List (Entry K))
    (r0 c0 : Nat → Rat) (B X : Array K) (inner : Trans → Array K → Array K)
    (h0 : 0 < M.sml) (h1 : M.sml ≤ M.big) (hes : InRange n es)
    (hb : n ≤ ldb) (hx : n ≤ ldx) (hB : ldb * nrhs ≤ B.size) (hX : ldx * nrhs ≤ X.size)
    (hinner : InnerCorrect n (eqEntries es (equilStep o.equil n es M r0 c0).aout) inner) :
    let out := gssvx true o M n nrhs ldb ldx es r0 c0 B X true inner
    ∀ j < nrhs, ∀ i < n, opMul (docOp o) es (fun k => cell out.x ldx k j) i = cell B ldb i j := by
  intro out j hj i hi
  have hnrhs : nrhs ≠ 0 := by omega
  -- names
  let e := equilStep o.equil n es M r0 c0
  let q := e.equed
  let sr := rowFac q e.r
  let sc := colFac q e.c
  let notran := (effTrans o.rowStored o.trans).2
  have hE : eqEntries es e.aout = scaleEs sr sc es := by
    have := equilStep_aout o.equil n es M r0 c0
    rw [show e.aout = _ from this]
    exact eqEntries_laqgs es q e.r e.c
  rw [show (equilStep o.equil n es M r0 c0).aout = e.aout from rfl, hE] at hinner
  obtain ⟨hpr, hpc⟩ := equed_scalings_positive o.equil n es M r0 c0 h0 h1
  have hsr : ∀ k, sr k ≠ 0 := by
    intro k; simp only [sr, rowFac]
    split
    · rename_i h; exact ne_of_gt (hpr h k).1
    · exact one_ne_zero
  have hsc : ∀ k, sc k ≠ 0 := by
    intro k; simp only [sc, colFac]
    split
    · rename_i h; exact ne_of_gt (hpc h k).1
    · exact one_ne_zero
  -- the pipeline
  let B1 := scaleB notran q n nrhs ldb B e.r e.c
  let X1 := copyMat n nrhs ldb ldx B1 X
  let bcol := colOf n ldx X1 j
  let ycol := fun j' => solveCol true o inner (colOf n ldx X1 j')
  let X2 := setCols n nrhs ldx X1 ycol
  let X3 := unscaleX notran q n nrhs ldx X2 e.r e.c
  have hout : out.x = X3 := by
    simp only [out, gssvx, hnrhs, Bool.not_true, Bool.false_eq_true, or_self, if_false]
    rfl
  have hB1s : ldb * nrhs ≤ B1.size := by simp only [B1, scaleB_size]; exact hB
  have hX1s : ldx * nrhs ≤ X1.size := by simp only [X1, copyMat_size]; exact hX
  have hX2s : ldx * nrhs ≤ X2.size := by simp only [X2, setCols_size]; exact hX1s
  have hbcol_size : bcol.size = n := colOf_size n ldx X1 j
  have hbcol : ∀ k < n, bcol.getD k default = iota ((if notran then sr else sc) k) * cell B ldb k j := by
    intro k hk
    rw [colOf_getD n ldx X1 j k hk, copyMat_cell n nrhs ldb ldx B1 X k j hk hb hx hj hB1s hX,
      scaleB_cell notran q n nrhs ldb B e.r e.c k j hk hb hj hB]
  -- the solved column: size n and the equation it satisfies
  have key : (ycol j).size = n ∧
      opMul (docOp o) es (fun k => iota ((if notran then sc else sr) k) * (ycol j).getD k default) i = cell B ldb i j := by
    by_cases hsp : o.rowStored = true ∧ o.trans = .C
    · -- SLU_NR with CONJ: the conjugated system, solved through conj
      obtain ⟨hrs, htr⟩ := hsp
      have hnt : notran = true := by simp [notran, effTrans, hrs, htr]
      have hdoc : docOp o = .J := by simp [docOp, hrs, htr]
      have hy : ycol j = (inner .N (bcol.map HasConj.conj)).map HasConj.conj := by
        simp [ycol, solveCol, hrs, htr, bcol]
      obtain ⟨hsz, heq⟩ := hinner .N (bcol.map HasConj.conj) (by rw [Array.size_map, hbcol_size])
      refine ⟨by rw [hy, Array.size_map, hsz], ?_⟩
      rw [hdoc]
      simp only [hnt, if_true] at hbcol ⊢
      apply solve_row .J (Or.inr rfl) sr sc es _ _ i (hsr i)
      rw [opMul_J]
      have hcongr : opMul .N (scaleEs sr sc es) (fun k => HasConj.conj ((ycol j).getD k default)) i =
          opMul .N (scaleEs sr sc es) (fun k => (inner .N (bcol.map HasConj.conj)).getD k default) i := by
        apply opMul_congr .N n _ (scaleEs_inRange n sr sc es hes)
        intro k hk
        have hk' : k < (inner .N (bcol.map HasConj.conj)).size := by rw [hsz]; exact hk
        rw [hy]
        simp only [Array.getD_eq_getD_getElem?, Array.getElem?_map, Array.getElem?_eq_getElem hk', Option.map_some,
          Option.getD_some, ScalarLaws.conj_conj]
      have heq' := heq i hi
      simp only [opOfTrans] at heq'
      rw [hcongr, heq']
      have hi' : i < bcol.size := by rw [hbcol_size]; exact hi
      have : (bcol.map HasConj.conj).getD i default = HasConj.conj (bcol.getD i default) := by
        simp only [Array.getD_eq_getD_getElem?, Array.getElem?_map, Array.getElem?_eq_getElem hi', Option.map_some, Option.getD_some]
      rw [this, ScalarLaws.conj_conj, hbcol i hi]
    · -- every other combination: gstrs(trant)
      have hy : ycol j = inner (effTrans o.rowStored o.trans).1 bcol := by
        simp only [ycol, solveCol, bcol]
        rw [if_neg]
        intro h; exact hsp ⟨h.2.1, h.2.2⟩
      obtain ⟨hsz, heq⟩ := hinner (effTrans o.rowStored o.trans).1 bcol hbcol_size
      refine ⟨by rw [hy, hsz], ?_⟩
      have heq' := heq i hi
      rw [hbcol i hi, ← hy] at heq'
      -- split on storage and Trans
      rcases o with ⟨tr, eq, rs, rf⟩
      cases rs <;> cases tr <;>
        simp only [effTrans, docOp, opOfTrans, notran, if_true, if_false, Bool.false_eq_true, reduceCtorEq,
          decide_true, decide_false] at heq' hsp ⊢
      · exact solve_row .N (Or.inl rfl) sr sc es _ _ i (hsr i) heq'
      · exact solve_col .T (Or.inl rfl) sr sc es _ _ i (hsc i) heq'
      · exact solve_col .C (Or.inr rfl) sr sc es _ _ i (hsc i) heq'
      · exact solve_col .T (Or.inl rfl) sr sc es _ _ i (hsc i) heq'
      · exact solve_row .N (Or.inl rfl) sr sc es _ _ i (hsr i) heq'
      · exact absurd ⟨trivial, trivial⟩ hsp
  obtain ⟨hysz, hsolve⟩ := key
  rw [← hsolve, hout]
  apply opMul_congr (docOp o) n es hes
  intro k hk
  have hk' : k < (ycol j).size := by rw [hysz]; exact hk
  rw [unscaleX_cell notran q n nrhs ldx X2 e.r e.c k j hk hx hj hX2s,
    setCols_cell n nrhs ldx X1 ycol k j hk hx hj hX1s hk']

/-- the statement mirror of the C code (`documented := false`) differs from the documented behaviour
only for SLU_NR with CONJ, where it solves the TRANSPOSED system `A' X = B` (operator `N` on the
stored A') instead of `A^H X = B` — the open finding recorded in known_findings.json.  On every other
combination the two models are the same function. -/
theorem gssvx_impl_eq_documented (o : Opts) (M : Mach Rat) (n nrhs ldb ldx : Nat) (es : List (Entry K))
    (r0 c0 : Nat → Rat) (B X : Array K) (facOk : Bool) (inner : Trans → Array K → Array K)
    (h : ¬ (o.rowStored = true ∧ o.trans = .C)) :
    gssvx false o M n nrhs ldb ldx es r0 c0 B X facOk inner = gssvx true o M n nrhs ldb ldx es r0 c0 B X facOk inner := by
  have hs : ∀ b, solveCol false o inner b = solveCol true o inner b := by
    intro b
    simp only [solveCol, Bool.false_eq_true, false_and, if_false, true_and]
    rw [if_neg h]
  simp only [gssvx, hs]

/-- **C05 (refinement, exact arithmetic).** If the inner `gstrs` is correct and `gsrfs` returns an
exact solution unchanged (`refine_noop_exact` below), the assembled inner solver is correct with
refinement on as well as off — so `gssvx_solves` covers every IterRefine setting. -/
theorem innerOf_correct (n : Nat) (esEq : List (Entry K)) (refineOn : Bool)
    (gstrs : Trans → Array K → Array K) (gsrfs : Trans → Array K → Array K → Array K)
    (hg : InnerCorrect n esEq gstrs)
    (hr : ∀ tr b, b.size = n → gsrfs tr b (gstrs tr b) = gstrs tr b) :
    InnerCorrect n esEq (innerOf refineOn gstrs gsrfs) := by
  intro tr b hb
  have : innerOf refineOn gstrs gsrfs tr b = gstrs tr b := by
    simp only [innerOf]
    split
    · exact hr tr b hb
    · rfl
  rw [this]
  exact hg tr b hb

end exact

/-! ### refinement leaves an exact solution alone -/

open Slu.Refine in
/-- **C05 (one refinement pass is a no-op on an exact solution).** For the bit-mirror model of the
`while (1)` loop of `[sdcz]gsrfs` (`Slu.Refine.refineLoop`, any arithmetic record, any fuel, any
state of `lstres`/`count`): if the residual the routine forms for `x` is exactly zero, the solver maps
the zero vector to the zero vector (any linear solver does) and adding zero changes nothing, then
the loop returns `x` itself, however many passes its stopping rule makes. -/
theorem refine_noop_exact {K : Type} [Inhabited K] (Ar : Arith K Rat) (tr : Trans) (A : CSC K) (safmin eps : Rat)
    (solve : Array K → Array K) (b x : Array K)
    (hres : ∀ i, (resid Ar tr A x b).getD i Ar.kzero = Ar.kzero)
    (hlin : ∀ w : Array K, (∀ i, w.getD i Ar.kzero = Ar.kzero) → ∀ i, (solve w).getD i Ar.kzero = Ar.kzero)
    (hadd : ∀ v : K, Ar.add v Ar.kzero = v) :
    (∀ fuel lstres count, (refineLoop Ar tr A safmin eps solve b fuel x lstres count).1 = x) ∧
    (refineCol Ar tr A safmin eps solve b x).1 = x := by
  have hx' : ((Array.range x.size).map fun i =>
      Ar.add (x.getD i Ar.kzero) ((solve (resid Ar tr A x b)).getD i Ar.kzero)) = x := by
    apply Array.ext
    · simp
    · intro i h1 h2
      simp only [Array.getElem_map, Array.getElem_range]
      rw [hlin _ hres i, hadd]
      simp [Array.getD_eq_getD_getElem?, Array.getElem?_eq_getElem h2]
  have hloop : ∀ fuel lstres count, (refineLoop Ar tr A safmin eps solve b fuel x lstres count).1 = x := by
    intro fuel
    induction fuel with
    | zero => intro l c; rfl
    | succ f ih =>
      intro l c
      simp only [refineLoop]
      split
      · rw [hx']; exact ih _ _
      · rfl
  exact ⟨hloop, hloop _ _ _⟩

open Slu.Refine in
/-- **C05 (refinement leaves a correct X unchanged, exact arithmetic).** For the bit-mirror model of
`[sdcz]gsrfs` run in exact arithmetic (`arithQ` on `Rat`, `arithQC` on `Cx Rat`: `ArithLaws`), every
compressed-column matrix and every Trans: if `x` solves `op(A) x = b` then the refinement loop
returns `x` itself — the residual formed by `sp_gemv` is exactly zero (`resid_exact`), so whatever
the stopping rule does, only zero corrections are added. -/
theorem refine_noop_of_solution {K : Type} [CommRing K] [Inhabited K] [HasConj K] [Mag K Rat] [ScalarLaws K]
    (Ar : Arith K Rat) (laws : ArithLaws Ar) (tr : Trans) (A : CSC K) (safmin eps : Rat)
    (solve : Array K → Array K) (b x : Array K)
    (hsol : ∀ i < b.size, opMul (opOfTrans tr) (cscEntries A) (fun k => x.getD k 0) i = b.getD i 0)
    (hlin : ∀ w : Array K, (∀ i, w.getD i 0 = 0) → ∀ i, (solve w).getD i 0 = 0) :
    (refineCol Ar tr A safmin eps solve b x).1 = x := by
  refine (refine_noop_exact Ar tr A safmin eps solve b x ?_ ?_ ?_).2
  · intro i
    rw [laws.kzero]
    obtain ⟨hs, hv⟩ := resid_exact Ar laws tr A x b
    by_cases hi : i < b.size
    · rw [hv i hi, hsol i hi, sub_self]
    · have : ¬ i < (resid Ar tr A x b).size := by rw [hs]; exact hi
      simp [Array.getD_eq_getD_getElem?, Array.getElem?_eq_none (Nat.le_of_not_lt this)]
  · rw [laws.kzero]; exact hlin
  · intro v; rw [laws.add, laws.kzero, add_zero]

/-! ### end to end: the LU model as the inner solver -/

section lu
variable {K : Type} [Field K] [Mag K Rat] [HasConj K] [ScalarLaws K] [Inhabited K]

theorem eqEntries_inRange (n : Nat) (es : List (Entry K)) (vals : List K) (h : InRange n es) :
    InRange n (eqEntries es vals) := by
  induction es generalizing vals with
  | nil => intro e he; simp [eqEntries] at he
  | cons a t ih =>
    cases vals with
    | nil => intro e he; simp [eqEntries] at he
    | cons v vs =>
      intro e he
      simp only [eqEntries, List.zipWith_cons_cons, List.mem_cons] at he
      rcases he with rfl | he
      · exact h a List.mem_cons_self
      · exact ih vs (fun e he => h e (List.mem_cons_of_mem _ he)) e he

/-- **C05 (the LU model is a correct inner solver).**  For every n, every stored entry list `esEq`
inside an n x n matrix (any pattern, duplicates summed), every column permutation `permC`, every
threshold `0 < u ≤ 1`, every candidate order and pivot memory: if the factorization `luFactor` of
`A_eq * Pc` reports `info = 0`, then `gstrs(NOTRANS / TRANS / CONJ)` on its factors is a correct
inner solver for `A_eq` in the sense of `InnerCorrect`. -/
theorem innerLU_correct (laws : MagLaws K) (n : Nat) (esEq : List (Entry K)) (hes : InRange n esEq)
    (permC : Array Nat) (hpc : permC.size = n)
    (hperm : ((List.range n).map fun c => permC.getD c 0).Perm (List.range n))
    (u : Rat) (hu0 : 0 < u) (hu1 : u ≤ 1) (order : Nat → List Nat) (oldPiv diagRow : Nat → Nat)
    (h : (luFactor (luParams n esEq permC u order oldPiv diagRow) false).info = 0) :
    InnerCorrect n esEq (innerLU n esEq permC u order oldPiv diagRow) := by
  intro tr b hb
  have inv : Inv (luParams n esEq permC u order oldPiv diagRow)
      (luFactor (luParams n esEq permC u order oldPiv diagRow) false) n := by
    rw [luFactor_eq_run] at h ⊢
    exact run_inv laws _ (le_of_lt hu0) hu1 (fun j => by simp [luParams]) false n h
  exact solveLU_correct n esEq hes permC u order oldPiv diagRow _ inv hpc hperm tr b hb


/-- the expert driver model with the LU model inside (specification level): equilibrate, factor
`A_eq * Pc` (`luFactor`, threshold pivoting), and when `info = 0` run the glue with
`gstrs = solveLU` on those factors and `gsrfs` (which sees the factors) when refinement is on.
Returns `(info, what the driver leaves behind)`. -/
def gssvxLU (o : Opts) (M : Mach Rat) (n nrhs ldb ldx : Nat) (es : List (Entry K))
    (r0 c0 : Nat → Rat) (B X : Array K) (permC : Array Nat) (u : Rat) (order : Nat → List Nat)
    (oldPiv diagRow : Nat → Nat) (gsrfs : St K → Trans → Array K → Array K → Array K) : Nat × Out K Rat :=
  let esEq := eqEntries es (equilStep o.equil n es M r0 c0).aout
  let st := luFactor (luParams n esEq permC u order oldPiv diagRow) false
  (st.info, gssvx true o M n nrhs ldb ldx es r0 c0 B X (st.info == 0)
    (innerOf o.refine (solveLU st permC) (gsrfs st)))

/-- **C05 (end to end, exact arithmetic).**  The expert driver model with the LU model as its inner
solver: for every option set (Trans N/T/C, Equil on/off, SLU_NC/SLU_NR, refinement on/off), machine
constants `0 < sml ≤ big`, every n, nrhs, ldb, ldx ≥ n, every stored entry list inside n x n, every
column permutation `permC`, every threshold `0 < u ≤ 1`, candidate orders and pivot memory: if the
factorization of the equilibrated matrix reports `info = 0`, the returned X solves the DOCUMENTED
system `op(A) X = B` for the caller's ORIGINAL A and B exactly.  The only hypothesis on `gsrfs` is that
it returns an exact solution of the equilibrated system unchanged (proved for the bit-mirror loop in
exact arithmetic: `gssvx_solves_with_lu_refine`). -/
theorem gssvx_solves_with_lu (laws : MagLaws K) (o : Opts) (M : Mach Rat) (n nrhs ldb ldx : Nat)
    (es : List (Entry K)) (r0 c0 : Nat → Rat) (B X : Array K)
    (h0 : 0 < M.sml) (h1 : M.sml ≤ M.big) (hes : InRange n es)
    (hb : n ≤ ldb) (hx : n ≤ ldx) (hB : ldb * nrhs ≤ B.size) (hX : ldx * nrhs ≤ X.size)
    (permC : Array Nat) (hpc : permC.size = n)
    (hperm : ((List.range n).map fun c => permC.getD c 0).Perm (List.range n))
    (u : Rat) (hu0 : 0 < u) (hu1 : u ≤ 1) (order : Nat → List Nat) (oldPiv diagRow : Nat → Nat)
    (gsrfs : St K → Trans → Array K → Array K → Array K)
    (hr : ∀ st tr (b x : Array K), b.size = n → x.size = n →
      (∀ i < n, opMul (opOfTrans tr) (eqEntries es (equilStep o.equil n es M r0 c0).aout)
        (fun k => x.getD k default) i = b.getD i default) → gsrfs st tr b x = x) :
    let res := gssvxLU o M n nrhs ldb ldx es r0 c0 B X permC u order oldPiv diagRow gsrfs
    res.1 = 0 →
    ∀ j < nrhs, ∀ i < n, opMul (docOp o) es (fun k => cell res.2.x ldx k j) i = cell B ldb i j := by
  intro res hinfo
  let esEq := eqEntries es (equilStep o.equil n es M r0 c0).aout
  let st := luFactor (luParams n esEq permC u order oldPiv diagRow) false
  have hinfo' : st.info = 0 := hinfo
  have hesEq : InRange n esEq := eqEntries_inRange n es _ hes
  have hlu : InnerCorrect n esEq (solveLU st permC) :=
    innerLU_correct laws n esEq hesEq permC hpc hperm u hu0 hu1 order oldPiv diagRow hinfo'
  have hinner : InnerCorrect n esEq (innerOf o.refine (solveLU st permC) (gsrfs st)) := by
    apply innerOf_correct n esEq o.refine _ _ hlu
    intro tr b hbs
    obtain ⟨hs, hsol⟩ := hlu tr b hbs
    exact hr st tr b _ hbs hs hsol
  have hx2 : res.2 = gssvx true o M n nrhs ldb ldx es r0 c0 B X true
      (innerOf o.refine (solveLU st permC) (gsrfs st)) := by
    show gssvx true o M n nrhs ldb ldx es r0 c0 B X (st.info == 0) _ = _
    rw [hinfo']; rfl
  rw [hx2]
  exact gssvx_solves o M n nrhs ldb ldx es r0 c0 B X _ h0 h1 hes hb hx hB hX hinner

/-- **C05 (end to end: a failed factorization solves nothing).**  When the factorization of the
equilibrated matrix reports `info ≠ 0`, neither B nor X is touched (any `gsrfs`). -/
theorem gssvxLU_singular (o : Opts) (M : Mach Rat) (n nrhs ldb ldx : Nat)
    (es : List (Entry K)) (r0 c0 : Nat → Rat) (B X : Array K)
    (permC : Array Nat) (u : Rat) (order : Nat → List Nat) (oldPiv diagRow : Nat → Nat)
    (gsrfs : St K → Trans → Array K → Array K → Array K) :
    let res := gssvxLU o M n nrhs ldb ldx es r0 c0 B X permC u order oldPiv diagRow gsrfs
    res.1 ≠ 0 → res.2.x = X ∧ res.2.bout = B := by
  intro res hinfo
  have hf : (res.1 == 0) = false := by simpa using hinfo
  have hx2 : res.2 = gssvx true o M n nrhs ldb ldx es r0 c0 B X (res.1 == 0) _ := rfl
  rw [hx2, hf]
  simp [gssvx]

open Slu.Refine in
/-- **C05 (end to end with the modelled refinement loop).**  As `gssvx_solves_with_lu`, with `gsrfs`
instantiated by the bit-mirror model of the `[sdcz]gsrfs` loop (`Slu.Refine.refineCol`) run in exact
arithmetic (`ArithLaws`: `arithQ` on `Rat`, `arithQC` on `Cx Rat`) on a compressed-column copy `Aeq` of
the equilibrated matrix, with `gstrs(trans)` on the LU factors as its solver and any `safmin`, `eps`:
no hypothesis about refinement is left — the loop adds only zero corrections to the exact solution
(`refine_noop_of_solution`, `solveLU_zero`). -/
theorem gssvx_solves_with_lu_refine (laws : MagLaws K) (Ar : Arith K Rat) (alaws : ArithLaws Ar)
    (o : Opts) (M : Mach Rat) (n nrhs ldb ldx : Nat)
    (es : List (Entry K)) (r0 c0 : Nat → Rat) (B X : Array K)
    (h0 : 0 < M.sml) (h1 : M.sml ≤ M.big) (hes : InRange n es)
    (hb : n ≤ ldb) (hx : n ≤ ldx) (hB : ldb * nrhs ≤ B.size) (hX : ldx * nrhs ≤ X.size)
    (permC : Array Nat) (hpc : permC.size = n)
    (hperm : ((List.range n).map fun c => permC.getD c 0).Perm (List.range n))
    (u : Rat) (hu0 : 0 < u) (hu1 : u ≤ 1) (order : Nat → List Nat) (oldPiv diagRow : Nat → Nat)
    (Aeq : CSC K) (hA : cscEntries Aeq = eqEntries es (equilStep o.equil n es M r0 c0).aout)
    (safmin eps : Rat) :
    let res := gssvxLU o M n nrhs ldb ldx es r0 c0 B X permC u order oldPiv diagRow
      (fun st tr b x => (refineCol Ar tr Aeq safmin eps (solveLU st permC tr) b x).1)
    res.1 = 0 →
    ∀ j < nrhs, ∀ i < n, opMul (docOp o) es (fun k => cell res.2.x ldx k j) i = cell B ldb i j := by
  apply gssvx_solves_with_lu laws o M n nrhs ldb ldx es r0 c0 B X h0 h1 hes hb hx hB hX permC hpc hperm
    u hu0 hu1 order oldPiv diagRow
  intro st tr b x hbs hxs hsol
  have hesEq : InRange n (eqEntries es (equilStep o.equil n es M r0 c0).aout) := eqEntries_inRange n es _ hes
  apply refine_noop_of_solution Ar alaws tr Aeq safmin eps _ b x
  · intro i hi
    rw [hbs] at hi
    rw [hA, ← getD_default_eq b i (by omega), ← hsol i hi]
    apply opMul_congr _ n _ hesEq
    intro k hk
    exact (getD_default_eq x k (by omega)).symm
  · exact solveLU_zero st permC tr

end lu

/-! ### the hypotheses are satisfiable; the clauses on concrete data -/

section examples

def exM : Mach Rat := { sml := 1 / 1000000, big := 1000000, thresh := 1 / 10, small := 1 / 1000, large := 1000 }

/-- 1 x 1 real system `4 x = b`: the exact inner solver -/
def exInner : Trans → Array Rat → Array Rat := fun _ b => b.map (· / 4)

example : InnerCorrect 1 (eqEntries [⟨0, 0, (4 : Rat)⟩] (equilStep true 1 [⟨0, 0, (4 : Rat)⟩] exM (fun _ => 0) (fun _ => 0)).aout) exInner := by
  have h : (equilStep true 1 [⟨0, 0, (4 : Rat)⟩] exM (fun _ => 0) (fun _ => 0)).aout = [4] := by decide +kernel
  rw [h]
  intro tr b hb
  refine ⟨by simp [exInner, hb], ?_⟩
  intro i hi
  obtain rfl : i = 0 := by omega
  have h0 : 0 < b.size := by omega
  cases tr <;>
    simp [opMul, opTerm, eqEntries, opOfTrans, exInner, HasConj.conj, Array.getD_eq_getD_getElem?, Array.getElem?_eq_getElem h0] <;>
    ring

/-- 1 x 1 complex system `i x = b` (`A^H = -i`): the exact inner solver for N, T and C -/
def exInnerC : Trans → Array (Cx Rat) → Array (Cx Rat) := fun tr b =>
  b.map fun z => z * (match tr with | .C => (⟨0, 1⟩ : Cx Rat) | _ => ⟨0, -1⟩)

example : InnerCorrect 1 (eqEntries [⟨0, 0, (⟨0, 1⟩ : Cx Rat)⟩] (equilStep false 1 [⟨0, 0, (⟨0, 1⟩ : Cx Rat)⟩] exM (fun _ => 0) (fun _ => 0)).aout) exInnerC := by
  rw [equilStep_noequil]
  intro tr b hb
  refine ⟨by simp [exInnerC, hb], ?_⟩
  intro i hi
  obtain rfl : i = 0 := by omega
  have h0 : 0 < b.size := by omega
  cases tr <;>
    simp [opMul, opTerm, eqEntries, opOfTrans, exInnerC, HasConj.conj, Array.getD_eq_getD_getElem?, Array.getElem?_eq_getElem h0] <;>
    ext <;> simp

/-- a badly row-scaled 2 x 2 matrix (column-major storage): `equed = R`, `R = (1/2000, 1/4)` -/
def exEs : List (Entry Rat) := [⟨0, 0, 1000⟩, ⟨1, 0, 3⟩, ⟨0, 1, 2000⟩, ⟨1, 1, 4⟩]

example : (equilStep true 2 exEs exM (fun _ => 0) (fun _ => 0)).equed = .R := by decide +kernel
example : (equilStep true 2 exEs exM (fun _ => 0) (fun _ => 0)).aout = [1 / 2, 3 / 4, 1, 1] := by decide +kernel
/-- NOTRANS, column storage: B is multiplied by R; TRANS: `equed = R` leaves B alone -/
example : scaleB true .R 2 1 3 #[(8 : Rat), 8, 5] (fun i => if i = 0 then 1 / 2000 else 1 / 4) (fun _ => 7) = #[1 / 250, 2, 5] := by
  decide +kernel
example : scaleB false .R 2 1 3 #[(8 : Rat), 8, 5] (fun i => if i = 0 then 1 / 2000 else 1 / 4) (fun _ => 7) = #[8, 8, 5] := by
  decide +kernel
example : ArithLaws Slu.Refine.arithQ := arithQ_laws
example : ArithLaws Slu.Refine.arithQC := arithQC_laws
example : (0 : Rat) < exM.sml ∧ exM.sml ≤ exM.big := by decide +kernel
example : InRange 2 exEs := by
  intro e he
  simp only [exEs, List.mem_cons, List.not_mem_nil, or_false] at he
  rcases he with rfl | rfl | rfl | rfl <;> decide

end examples

/-! ### end to end on concrete data (non-vacuity of `gssvx_solves_with_lu_refine`) -/

section exLU
open Slu.Refine

/-- compressed-column copy of the equilibrated `exEs` (`equed = R`) -/
def exAeq : CSC Rat := { m := 2, n := 2, colptr := #[0, 2, 4], rowind := #[0, 1, 0, 1], val := #[1 / 2, 3 / 4, 1, 1] }
def exOrder : Nat → List Nat := fun _ => [0, 1]
def exGsrfs : St Rat → Trans → Array Rat → Array Rat → Array Rat :=
  fun st tr b x => (refineCol arithQ tr exAeq (1 / 1000000) (1 / 1000000) (solveLU st #[1, 0] tr) b x).1

theorem exAeq_entries : cscEntries exAeq = eqEntries exEs (equilStep true 2 exEs exM (fun _ => 0) (fun _ => 0)).aout := by
  have h : (equilStep true 2 exEs exM (fun _ => 0) (fun _ => 0)).aout = [1 / 2, 3 / 4, 1, 1] := by decide +kernel
  rw [h]; rfl
example : (gssvxLU ⟨.N, true, false, true⟩ exM 2 1 3 2 exEs (fun _ => 0) (fun _ => 0) #[5000, 11, 77] #[0, 0] #[1, 0] 1 exOrder (fun _ => 0) id exGsrfs).1 = 0 := by
  decide +kernel
example : (gssvxLU ⟨.N, true, false, true⟩ exM 2 1 3 2 exEs (fun _ => 0) (fun _ => 0) #[5000, 11, 77] #[0, 0] #[1, 0] 1 exOrder (fun _ => 0) id exGsrfs).2.x = #[1, 2] := by
  decide +kernel
example : (gssvxLU ⟨.T, true, false, true⟩ exM 2 1 3 2 exEs (fun _ => 0) (fun _ => 0) #[1006, 2008, 77] #[0, 0] #[1, 0] 1 exOrder (fun _ => 0) id exGsrfs).2.x = #[1, 2] := by
  decide +kernel
example := gssvx_solves_with_lu_refine magLaws_rat arithQ arithQ_laws ⟨.N, true, false, true⟩ exM 2 1 3 2 exEs (fun _ => 0) (fun _ => 0)
  #[5000, 11, 77] #[0, 0] (by decide +kernel) (by decide +kernel) (by intro e he; simp only [exEs, List.mem_cons, List.not_mem_nil, or_false] at he; rcases he with rfl | rfl | rfl | rfl <;> decide)
  (by decide) (by decide) (by decide) (by decide) #[1, 0] rfl (by decide) 1 (by decide) (by decide) exOrder (fun _ => 0) id
  exAeq exAeq_entries (1 / 1000000) (1 / 1000000) (by decide +kernel)

/-- complex data, SLU_NR storage (the stored matrix S is A'), Trans = CONJ (the documented system
`A^H x = conj(S) x = b`), column order `permC = [1, 0]`, refinement on: `x = (1, i)` -/
def exEsC : List (Entry (Cx Rat)) := [⟨0, 0, ⟨1, 1⟩⟩, ⟨1, 0, ⟨0, 1⟩⟩, ⟨0, 1, ⟨2, 0⟩⟩, ⟨1, 1, ⟨1, -1⟩⟩]
def exAC : CSC (Cx Rat) := { m := 2, n := 2, colptr := #[0, 2, 4], rowind := #[0, 1, 0, 1], val := #[⟨1, 1⟩, ⟨0, 1⟩, ⟨2, 0⟩, ⟨1, -1⟩] }
def exGsrfsC : St (Cx Rat) → Trans → Array (Cx Rat) → Array (Cx Rat) → Array (Cx Rat) :=
  fun st tr b x => (refineCol arithQC tr exAC (1 / 1000000) (1 / 1000000) (solveLU st #[1, 0] tr) b x).1
def exOC : Opts := ⟨.C, false, true, true⟩

theorem exAC_entries : cscEntries exAC = eqEntries exEsC (equilStep exOC.equil 2 exEsC exM (fun _ => 0) (fun _ => 0)).aout := by
  show _ = eqEntries exEsC (equilStep false 2 exEsC exM (fun _ => 0) (fun _ => 0)).aout
  rw [equilStep_noequil]; rfl

example : (gssvxLU exOC exM 2 1 2 2 exEsC (fun _ => 0) (fun _ => 0) #[⟨1, 1⟩, ⟨-1, 0⟩] #[0, 0] #[1, 0] (1 / 2) exOrder (fun _ => 0) id exGsrfsC).1 = 0 := by
  decide +kernel
example : (gssvxLU exOC exM 2 1 2 2 exEsC (fun _ => 0) (fun _ => 0) #[⟨1, 1⟩, ⟨-1, 0⟩] #[0, 0] #[1, 0] (1 / 2) exOrder (fun _ => 0) id exGsrfsC).2.x = #[⟨1, 0⟩, ⟨0, 1⟩] := by
  decide +kernel
example := gssvx_solves_with_lu_refine magLaws_cx arithQC arithQC_laws exOC exM 2 1 2 2 exEsC (fun _ => 0) (fun _ => 0)
  #[⟨1, 1⟩, ⟨-1, 0⟩] #[0, 0] (by decide +kernel) (by decide +kernel) (by intro e he; simp only [exEsC, List.mem_cons, List.not_mem_nil, or_false] at he; rcases he with rfl | rfl | rfl | rfl <;> decide)
  (by decide) (by decide) (by decide) (by decide) #[1, 0] rfl (by decide) (1 / 2) (by decide +kernel) (by decide +kernel) exOrder (fun _ => 0) id
  exAC exAC_entries (1 / 1000000) (1 / 1000000) (by decide +kernel)
end exLU

end Slu.Gssvx
