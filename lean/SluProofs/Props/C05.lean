import Slu.Model.Gssvx
import Slu.Model.Refine
import SluProofs.Lemmas.Gssvx
import SluProofs.Lemmas.RefineResid
import SluProofs.Props.C11
/-
C05 — The expert driver solves op(A) X = B and mutates A, B only as documented.

Theorems are about `Slu.Gssvx.gssvx` (the statement mirror of the glue of `[sdcz]gssvx`, compared
bit for bit with the C code on every run) with the inner solver (`gstrs`, `gsrfs` on the factors of
the equilibrated matrix) as a parameter.  The mutation clauses (`gssvx_A_out`, `gssvx_B_out`,
`gssvx_noequil_pure`) hold in ANY arithmetic (they are stated for arbitrary `K`, `R`, in particular
for the floating-point instances that are executed); the solution clause is stated in exact
arithmetic for every commutative ring with the laws of `ScalarLaws` — instances `Rat` (real data)
and `Cx Rat` (complex data, the library's `zz_mult` / `zd_mult` / conjugation).  All statements hold
for every n, nrhs, ldb, ldx >= n, every stored entry list (any pattern, any order, duplicates
summed), every right-hand side, all 3 x 2 x 2 x 2 combinations of Trans, Equil, storage,
refinement, and every pair of machine constants 0 < sml <= big.

Reading: `es` are the stored entries of A (SLU_NC) or of A' (SLU_NR); `opMul op es x i` is
`(op(stored matrix) x)_i`; `docOp o` is the documented operator in storage coordinates
(SLU_NR: `A x = (A')' x`, `A' x`, `A^H x = conj(A') x`); `cell M ld i j = M[i + j*ld]`.
-/
set_option linter.unusedSectionVars false
namespace Slu.Gssvx
open Slu Slu.Equil Slu.Lacon

/-! ### what happens to A, R, C, equed -/

section anyarith
variable {K R : Type} [Mag K R] [HasConj K] [Inhabited K]
variable [Zero R] [One R] [Mul R] [Div R] [LT R] [DecidableLT R] [LE R] [DecidableLE R] [BEq R]

/-- the equilibration outcome does not depend on what happens afterwards -/
theorem gssvx_equ (d : Bool) (o : Opts) (M : Mach R) (n nrhs ldb ldx : Nat) (es : List (Entry K))
    (r0 c0 : Nat → R) (B X : Array K) (facOk : Bool) (inner : Trans → Array K → Array K) :
    let out := gssvx d o M n nrhs ldb ldx es r0 c0 B X facOk inner
    let e := equilStep o.equil n es M r0 c0
    out.equed = e.equed ∧ out.r = e.r ∧ out.c = e.c ∧ out.aout = e.aout := by
  intro out e
  simp only [out, gssvx]
  split <;> exact ⟨rfl, rfl, rfl, rfl⟩

/-- **C05 (A on exit).** In any arithmetic, A on exit is A on entry with every stored value
replaced by the C11 scaling `laqgsEntry` for the returned `equed`, `R`, `C`:
`a` (N), `a * R[i]` (R), `a * C[j]` (C), `a * (C[j] * R[i])` (B) — nothing else, whatever the
factorization and the solve do. -/
theorem gssvx_A_out (d : Bool) (o : Opts) (M : Mach R) (n nrhs ldb ldx : Nat) (es : List (Entry K))
    (r0 c0 : Nat → R) (B X : Array K) (facOk : Bool) (inner : Trans → Array K → Array K) :
    let out := gssvx d o M n nrhs ldb ldx es r0 c0 B X facOk inner
    out.aout = es.map (laqgsEntry out.equed out.r out.c) ∧
    out.aout.length = es.length ∧
    ∀ k (hk : k < es.length), out.aout[k]? = some (
      match out.equed with
      | .N => es[k].val
      | .R => Mag.rscale es[k].val (out.r es[k].row)
      | .C => Mag.rscale es[k].val (out.c es[k].col)
      | .B => Mag.rscale es[k].val (out.c es[k].col * out.r es[k].row)) := by
  intro out
  obtain ⟨h1, h2, h3, h4⟩ := gssvx_equ d o M n nrhs ldb ldx es r0 c0 B X facOk inner
  have h : out.aout = es.map (laqgsEntry out.equed out.r out.c) := by
    simp only [out]
    rw [h1, h2, h3, h4]
    exact equilStep_aout o.equil n es M r0 c0
  refine ⟨h, by rw [h, List.length_map], ?_⟩
  intro k hk
  rw [h, List.getElem?_map, List.getElem?_eq_getElem hk, Option.map_some]
  cases out.equed <;> rfl

/-- **C05 (B on exit).** In any arithmetic: B keeps its size; nothing outside the leading n rows of
the nrhs columns is touched; nothing at all is touched when nothing is solved; otherwise the block
is multiplied by `R` exactly when `notran && rowequ`, by `C` exactly when `!notran && colequ`
(`notran` AFTER the SLU_NR flip of dgssvx.c:488-494) and is left alone in every other case. -/
theorem gssvx_B_out (d : Bool) (o : Opts) (M : Mach R) (n nrhs ldb ldx : Nat) (es : List (Entry K))
    (r0 c0 : Nat → R) (B X : Array K) (facOk : Bool) (inner : Trans → Array K → Array K)
    (hb : n ≤ ldb) (hB : ldb * nrhs ≤ B.size) :
    let out := gssvx d o M n nrhs ldb ldx es r0 c0 B X facOk inner
    let notran := (effTrans o.rowStored o.trans).2
    out.bout.size = B.size ∧
    (∀ k, ¬ (k % ldb < n ∧ k / ldb < nrhs) → out.bout[k]? = B[k]?) ∧
    ((facOk = false ∨ nrhs = 0) → out.bout = B) ∧
    (facOk = true → notran = true → Equed.rowequ out.equed = true →
      ∀ j < nrhs, ∀ i < n, cell out.bout ldb i j = Mag.rscale (cell B ldb i j) (out.r i)) ∧
    (facOk = true → notran = false → Equed.colequ out.equed = true →
      ∀ j < nrhs, ∀ i < n, cell out.bout ldb i j = Mag.rscale (cell B ldb i j) (out.c i)) ∧
    (notran = true → Equed.rowequ out.equed = false → out.bout = B) ∧
    (notran = false → Equed.colequ out.equed = false → out.bout = B) := by
  intro out notran
  obtain ⟨h1, h2, h3, _⟩ := gssvx_equ d o M n nrhs ldb ldx es r0 c0 B X facOk inner
  by_cases hq : (!facOk ∨ nrhs = 0)
  · have hout : out.bout = B := by simp only [out, gssvx, hq, if_true]
    refine ⟨by rw [hout], fun _ _ => by rw [hout], fun _ => hout, ?_, ?_, fun _ _ => hout, fun _ _ => hout⟩
    · intro hf _ _ j hj
      rcases hq with hq | hq
      · simp [hf] at hq
      · omega
    · intro hf _ _ j hj
      rcases hq with hq | hq
      · simp [hf] at hq
      · omega
  · have hout : out.bout = scaleB notran out.equed n nrhs ldb B out.r out.c := by
      simp only [out, gssvx, hq, if_false, notran]
    refine ⟨?_, ?_, ?_, ?_, ?_, ?_, ?_⟩
    · rw [hout]; unfold scaleB; split <;> split <;> simp [scaleMat_size]
    · intro k hk
      rw [hout]; unfold scaleB
      split <;> split <;> first | rfl | exact scaleMat_outside _ _ _ _ _ _ hk
    · intro h; exact absurd (by rcases h with h | h <;> simp [h]) hq
    · intro _ hn hr j hj i hi
      rw [hout]; simp only [scaleB, hn, hr, if_true]
      exact scaleMat_cell n nrhs ldb B _ i j hi hb hj hB
    · intro _ hn hc j hj i hi
      rw [hout]; simp only [scaleB, hn, hc, if_true, Bool.false_eq_true, if_false]
      exact scaleMat_cell n nrhs ldb B _ i j hi hb hj hB
    · intro hn hr; rw [hout]; simp [scaleB, hn, hr]
    · intro hn hc; rw [hout]; simp [scaleB, hn, hc]

/-- **C05 (X outside the solution block).** In any arithmetic: X keeps its size, the rows beyond n
of every column (ldx > n) and every column beyond nrhs are never written, and X is not touched at
all when nothing is solved (singular factorization or nrhs = 0). -/
theorem gssvx_X_padding (d : Bool) (o : Opts) (M : Mach R) (n nrhs ldb ldx : Nat) (es : List (Entry K))
    (r0 c0 : Nat → R) (B X : Array K) (facOk : Bool) (inner : Trans → Array K → Array K) :
    let out := gssvx d o M n nrhs ldb ldx es r0 c0 B X facOk inner
    out.x.size = X.size ∧
    (∀ k, ¬ (k % ldx < n ∧ k / ldx < nrhs) → out.x[k]? = X[k]?) ∧
    ((facOk = false ∨ nrhs = 0) → out.x = X) := by
  intro out
  by_cases hq : (!facOk ∨ nrhs = 0)
  · have hout : out.x = X := by simp only [out, gssvx, hq, if_true]
    exact ⟨by rw [hout], fun _ _ => by rw [hout], fun _ => hout⟩
  · refine ⟨?_, ?_, ?_⟩
    · simp only [out, gssvx, hq, if_false, unscaleX]
      split <;> split <;> simp [scaleMat_size, setCols_size, copyMat_size]
    · intro k hk
      simp only [out, gssvx, hq, if_false, unscaleX]
      split <;> split <;>
        first
        | rw [scaleMat_outside _ _ _ _ _ _ hk, setCols_outside _ _ _ _ _ _ hk, copyMat_outside _ _ _ _ _ _ _ hk]
        | rw [setCols_outside _ _ _ _ _ _ hk, copyMat_outside _ _ _ _ _ _ _ hk]
    · intro h; exact absurd (by rcases h with h | h <;> simp [h]) hq

/-- which array scales B, spelled out over storage and Trans (the SLU_NR flip): column storage uses
R for NOTRANS and C for TRANS/CONJ, row storage uses C for NOTRANS and R for TRANS/CONJ -/
theorem gssvx_B_factor_table (t : Trans) :
    (effTrans false t).2 = decide (t = .N) ∧ (effTrans true t).2 = decide (t ≠ .N) := by
  cases t <;> simp [effTrans]

/-- **C05 (Equil = NO is pure).** With a fresh factorization and Equil = NO the driver returns
`equed = N`, leaves R and C alone and changes neither a stored value of A nor an entry of B — in
any arithmetic, whatever the factorization reports and whatever the inner solver does. -/
theorem gssvx_noequil_pure (d : Bool) (o : Opts) (M : Mach R) (n nrhs ldb ldx : Nat) (es : List (Entry K))
    (r0 c0 : Nat → R) (B X : Array K) (facOk : Bool) (inner : Trans → Array K → Array K)
    (h : o.equil = false) :
    let out := gssvx d o M n nrhs ldb ldx es r0 c0 B X facOk inner
    out.equed = .N ∧ out.aout = es.map (·.val) ∧ out.bout = B ∧ out.r = r0 ∧ out.c = c0 := by
  intro out
  obtain ⟨h1, h2, h3, h4⟩ := gssvx_equ d o M n nrhs ldb ldx es r0 c0 B X facOk inner
  have he := equilStep_noequil (K := K) n es M r0 c0
  rw [h] at h1 h2 h3 h4
  rw [he] at h1 h2 h3 h4
  refine ⟨h1, h4, ?_, h2, h3⟩
  simp only [out, gssvx, h, he]
  split
  · rfl
  · cases (effTrans o.rowStored o.trans).2 <;> simp [scaleB, Equed.rowequ, Equed.colequ]

end anyarith

/-! ### the scalings named by equed are positive (from C11) -/

/-- **C05 (positive scalings).** For machine constants `0 < sml ≤ big`, whenever `equed` names the
row (column) scaling, every `R[i]` (`C[j]`) the driver returns is positive and lies in the safe range
`[1/big, 1/sml]` (C11 `gsequ_range`): the scalings can be undone. -/
theorem equed_scalings_positive {K : Type} [Mag K Rat] (equil : Bool) (n : Nat) (es : List (Entry K))
    (M : Mach Rat) (r0 c0 : Nat → Rat) (h0 : 0 < M.sml) (h1 : M.sml ≤ M.big) :
    let e := equilStep equil n es M r0 c0
    (Equed.rowequ e.equed = true → ∀ i, 0 < e.r i ∧ 1 / M.big ≤ e.r i ∧ e.r i ≤ 1 / M.sml) ∧
    (Equed.colequ e.equed = true → ∀ j, 0 < e.c j ∧ 1 / M.big ≤ e.c j ∧ e.c j ≤ 1 / M.sml) := by
  intro e
  simp only [e]
  unfold equilStep
  cases equil
  · simp [Equed.rowequ, Equed.colequ]
  · simp only [Bool.not_true, Bool.false_eq_true, if_false]
    split
    · simp [Equed.rowequ, Equed.colequ]
    · rename_i hinfo
      have hinfo' : (gsequ n n es M.sml M.big).info = 0 := by simpa using hinfo
      by_cases hn : n = 0
      · simp [laqgs, hn, Equed.rowequ, Equed.colequ]
      · obtain ⟨r, c, hr, hc, hrr, hcc⟩ := gsequ_range n n es M.sml M.big h0 h1 hn hn hinfo'
        simp only [hr, hc, Option.getD_some]
        exact ⟨fun _ => hrr, fun _ => hcc⟩

section exact
variable {K : Type} [CommRing K] [Mag K Rat] [HasConj K] [ScalarLaws K] [Inhabited K]

/-- correctness of the inner solver on the EQUILIBRATED matrix (the stored entries with the values
the equilibration step leaves behind), for the three operators `gstrs` knows -/
def InnerCorrect (n : Nat) (esEq : List (Entry K)) (inner : Trans → Array K → Array K) : Prop :=
  ∀ (tr : Trans) (b : Array K), b.size = n →
    (inner tr b).size = n ∧
    ∀ i < n, opMul (opOfTrans tr) esEq (fun k => (inner tr b).getD k default) i = b.getD i default

/-- **C05 (solution).** If the inner solver (`gstrs`, plus `gsrfs` when refinement is on) is correct
for the equilibrated (and, for SLU_NR, transposed) matrix, then the X returned by the driver solves
the DOCUMENTED system `op(A) X = B` for the caller's ORIGINAL A and B — exactly, for NOTRANS, TRANS
and CONJ, Equil on or off, both storages, refinement on or off, every n, nrhs, ldb, ldx >= n. -/
theorem gssvx_solves (o : Opts) (M : Mach Rat) (n nrhs ldb ldx : Nat) (es : List (Entry K))
    (r0 c0 : Nat → Rat) (B X : Array K) (inner : Trans → Array K → Array K)
    (h0 : 0 < M.sml) (h1 : M.sml ≤ M.big) (hes : InRange n es)
    (hb : n ≤ ldb) (hx : n ≤ ldx) (hB : ldb * nrhs ≤ B.size) (hX : ldx * nrhs ≤ X.size)
    (hinner : InnerCorrect n (eqEntries es (equilStep o.equil n es M r0 c0).aout) inner) :
    let out := gssvx true o M n nrhs ldb ldx es r0 c0 B X true inner
    ∀ j < nrhs, ∀ i < n, opMul (docOp o) es (fun k => cell out.x ldx k j) i = cell B ldb i j := by
  intro out j hj i hi
  have hnrhs : nrhs ≠ 0 := by omega
  -- names
  let e := equilStep o.equil n es M r0 c0
  let q := e.equed
  let sr := rowFac q e.r
  let sc := colFac q e.c
  let notran := (effTrans o.rowStored o.trans).2
  have hE : eqEntries es e.aout = scaleEs sr sc es := by
    have := equilStep_aout o.equil n es M r0 c0
    rw [show e.aout = _ from this]
    exact eqEntries_laqgs es q e.r e.c
  rw [show (equilStep o.equil n es M r0 c0).aout = e.aout from rfl, hE] at hinner
  obtain ⟨hpr, hpc⟩ := equed_scalings_positive o.equil n es M r0 c0 h0 h1
  have hsr : ∀ k, sr k ≠ 0 := by
    intro k; simp only [sr, rowFac]
    split
    · rename_i h; exact ne_of_gt (hpr h k).1
    · exact one_ne_zero
  have hsc : ∀ k, sc k ≠ 0 := by
    intro k; simp only [sc, colFac]
    split
    · rename_i h; exact ne_of_gt (hpc h k).1
    · exact one_ne_zero
  -- the pipeline
  let B1 := scaleB notran q n nrhs ldb B e.r e.c
  let X1 := copyMat n nrhs ldb ldx B1 X
  let bcol := colOf n ldx X1 j
  let ycol := fun j' => solveCol true o inner (colOf n ldx X1 j')
  let X2 := setCols n nrhs ldx X1 ycol
  let X3 := unscaleX notran q n nrhs ldx X2 e.r e.c
  have hout : out.x = X3 := by
    simp only [out, gssvx, hnrhs, Bool.not_true, Bool.false_eq_true, or_self, if_false]
    rfl
  have hB1s : ldb * nrhs ≤ B1.size := by simp only [B1, scaleB_size]; exact hB
  have hX1s : ldx * nrhs ≤ X1.size := by simp only [X1, copyMat_size]; exact hX
  have hX2s : ldx * nrhs ≤ X2.size := by simp only [X2, setCols_size]; exact hX1s
  have hbcol_size : bcol.size = n := colOf_size n ldx X1 j
  have hbcol : ∀ k < n, bcol.getD k default = iota ((if notran then sr else sc) k) * cell B ldb k j := by
    intro k hk
    rw [colOf_getD n ldx X1 j k hk, copyMat_cell n nrhs ldb ldx B1 X k j hk hb hx hj hB1s hX,
      scaleB_cell notran q n nrhs ldb B e.r e.c k j hk hb hj hB]
  -- the solved column: size n and the equation it satisfies
  have key : (ycol j).size = n ∧
      opMul (docOp o) es (fun k => iota ((if notran then sc else sr) k) * (ycol j).getD k default) i = cell B ldb i j := by
    by_cases hsp : o.rowStored = true ∧ o.trans = .C
    · -- SLU_NR with CONJ: the conjugated system, solved through conj
      obtain ⟨hrs, htr⟩ := hsp
      have hnt : notran = true := by simp [notran, effTrans, hrs, htr]
      have hdoc : docOp o = .J := by simp [docOp, hrs, htr]
      have hy : ycol j = (inner .N (bcol.map HasConj.conj)).map HasConj.conj := by
        simp [ycol, solveCol, hrs, htr, bcol]
      obtain ⟨hsz, heq⟩ := hinner .N (bcol.map HasConj.conj) (by rw [Array.size_map, hbcol_size])
      refine ⟨by rw [hy, Array.size_map, hsz], ?_⟩
      rw [hdoc]
      simp only [hnt, if_true] at hbcol ⊢
      apply solve_row .J (Or.inr rfl) sr sc es _ _ i (hsr i)
      rw [opMul_J]
      have hcongr : opMul .N (scaleEs sr sc es) (fun k => HasConj.conj ((ycol j).getD k default)) i =
          opMul .N (scaleEs sr sc es) (fun k => (inner .N (bcol.map HasConj.conj)).getD k default) i := by
        apply opMul_congr .N n _ (scaleEs_inRange n sr sc es hes)
        intro k hk
        have hk' : k < (inner .N (bcol.map HasConj.conj)).size := by rw [hsz]; exact hk
        rw [hy]
        simp only [Array.getD_eq_getD_getElem?, Array.getElem?_map, Array.getElem?_eq_getElem hk', Option.map_some,
          Option.getD_some, ScalarLaws.conj_conj]
      have heq' := heq i hi
      simp only [opOfTrans] at heq'
      rw [hcongr, heq']
      have hi' : i < bcol.size := by rw [hbcol_size]; exact hi
      have : (bcol.map HasConj.conj).getD i default = HasConj.conj (bcol.getD i default) := by
        simp only [Array.getD_eq_getD_getElem?, Array.getElem?_map, Array.getElem?_eq_getElem hi', Option.map_some, Option.getD_some]
      rw [this, ScalarLaws.conj_conj, hbcol i hi]
    · -- every other combination: gstrs(trant)
      have hy : ycol j = inner (effTrans o.rowStored o.trans).1 bcol := by
        simp only [ycol, solveCol, bcol]
        rw [if_neg]
        intro h; exact hsp ⟨h.2.1, h.2.2⟩
      obtain ⟨hsz, heq⟩ := hinner (effTrans o.rowStored o.trans).1 bcol hbcol_size
      refine ⟨by rw [hy, hsz], ?_⟩
      have heq' := heq i hi
      rw [hbcol i hi, ← hy] at heq'
      -- split on storage and Trans
      rcases o with ⟨tr, eq, rs, rf⟩
      cases rs <;> cases tr <;>
        simp only [effTrans, docOp, opOfTrans, notran, if_true, if_false, Bool.false_eq_true, reduceCtorEq,
          decide_true, decide_false] at heq' hsp ⊢
      · exact solve_row .N (Or.inl rfl) sr sc es _ _ i (hsr i) heq'
      · exact solve_col .T (Or.inl rfl) sr sc es _ _ i (hsc i) heq'
      · exact solve_col .C (Or.inr rfl) sr sc es _ _ i (hsc i) heq'
      · exact solve_col .T (Or.inl rfl) sr sc es _ _ i (hsc i) heq'
      · exact solve_row .N (Or.inl rfl) sr sc es _ _ i (hsr i) heq'
      · exact absurd ⟨trivial, trivial⟩ hsp
  obtain ⟨hysz, hsolve⟩ := key
  rw [← hsolve, hout]
  apply opMul_congr (docOp o) n es hes
  intro k hk
  have hk' : k < (ycol j).size := by rw [hysz]; exact hk
  rw [unscaleX_cell notran q n nrhs ldx X2 e.r e.c k j hk hx hj hX2s,
    setCols_cell n nrhs ldx X1 ycol k j hk hx hj hX1s hk']

/-- the statement mirror of the C code (`documented := false`) differs from the documented behaviour
only for SLU_NR with CONJ, where it solves the TRANSPOSED system `A' X = B` (operator `N` on the
stored A') instead of `A^H X = B` — the open finding recorded in known_findings.json.  On every other
combination the two models are the same function. -/
theorem gssvx_impl_eq_documented (o : Opts) (M : Mach Rat) (n nrhs ldb ldx : Nat) (es : List (Entry K))
    (r0 c0 : Nat → Rat) (B X : Array K) (facOk : Bool) (inner : Trans → Array K → Array K)
    (h : ¬ (o.rowStored = true ∧ o.trans = .C)) :
    gssvx false o M n nrhs ldb ldx es r0 c0 B X facOk inner = gssvx true o M n nrhs ldb ldx es r0 c0 B X facOk inner := by
  have hs : ∀ b, solveCol false o inner b = solveCol true o inner b := by
    intro b
    simp only [solveCol, Bool.false_eq_true, false_and, if_false, true_and]
    rw [if_neg h]
  simp only [gssvx, hs]

/-- **C05 (refinement, exact arithmetic).** If the inner `gstrs` is correct and `gsrfs` returns an
exact solution unchanged (`refine_noop_exact` below), the assembled inner solver is correct with
refinement on as well as off — so `gssvx_solves` covers every IterRefine setting. -/
theorem innerOf_correct (n : Nat) (esEq : List (Entry K)) (refineOn : Bool)
    (gstrs : Trans → Array K → Array K) (gsrfs : Trans → Array K → Array K → Array K)
    (hg : InnerCorrect n esEq gstrs)
    (hr : ∀ tr b, b.size = n → gsrfs tr b (gstrs tr b) = gstrs tr b) :
    InnerCorrect n esEq (innerOf refineOn gstrs gsrfs) := by
  intro tr b hb
  have : innerOf refineOn gstrs gsrfs tr b = gstrs tr b := by
    simp only [innerOf]
    split
    · exact hr tr b hb
    · rfl
  rw [this]
  exact hg tr b hb

end exact

/-! ### refinement leaves an exact solution alone -/

open Slu.Refine in
/-- **C05 (one refinement pass is a no-op on an exact solution).** For the bit-mirror model of the
`while (1)` loop of `[sdcz]gsrfs` (`Slu.Refine.refineLoop`, any arithmetic record, any fuel, any
state of `lstres`/`count`): if the residual the routine forms for `x` is exactly zero, the solver maps
the zero vector to the zero vector (any linear solver does) and adding zero changes nothing, then
the loop returns `x` itself, however many passes its stopping rule makes. -/
theorem refine_noop_exact {K : Type} [Inhabited K] (Ar : Arith K Rat) (tr : Trans) (A : CSC K) (safmin eps : Rat)
    (solve : Array K → Array K) (b x : Array K)
    (hres : ∀ i, (resid Ar tr A x b).getD i Ar.kzero = Ar.kzero)
    (hlin : ∀ w : Array K, (∀ i, w.getD i Ar.kzero = Ar.kzero) → ∀ i, (solve w).getD i Ar.kzero = Ar.kzero)
    (hadd : ∀ v : K, Ar.add v Ar.kzero = v) :
    (∀ fuel lstres count, (refineLoop Ar tr A safmin eps solve b fuel x lstres count).1 = x) ∧
    (refineCol Ar tr A safmin eps solve b x).1 = x := by
  have hx' : ((Array.range x.size).map fun i =>
      Ar.add (x.getD i Ar.kzero) ((solve (resid Ar tr A x b)).getD i Ar.kzero)) = x := by
    apply Array.ext
    · simp
    · intro i h1 h2
      simp only [Array.getElem_map, Array.getElem_range]
      rw [hlin _ hres i, hadd]
      simp [Array.getD_eq_getD_getElem?, Array.getElem?_eq_getElem h2]
  have hloop : ∀ fuel lstres count, (refineLoop Ar tr A safmin eps solve b fuel x lstres count).1 = x := by
    intro fuel
    induction fuel with
    | zero => intro l c; rfl
    | succ f ih =>
      intro l c
      simp only [refineLoop]
      split
      · rw [hx']; exact ih _ _
      · rfl
  exact ⟨hloop, hloop _ _ _⟩

open Slu.Refine in
/-- **C05 (refinement leaves a correct X unchanged, exact arithmetic).** For the bit-mirror model of
`[sdcz]gsrfs` run in exact arithmetic (`arithQ` on `Rat`, `arithQC` on `Cx Rat`: `ArithLaws`), every
compressed-column matrix and every Trans: if `x` solves `op(A) x = b` then the refinement loop
returns `x` itself — the residual formed by `sp_gemv` is exactly zero (`resid_exact`), so whatever
the stopping rule does, only zero corrections are added. -/
theorem refine_noop_of_solution {K : Type} [CommRing K] [Inhabited K] [HasConj K] [Mag K Rat] [ScalarLaws K]
    (Ar : Arith K Rat) (laws : ArithLaws Ar) (tr : Trans) (A : CSC K) (safmin eps : Rat)
    (solve : Array K → Array K) (b x : Array K)
    (hsol : ∀ i < b.size, opMul (opOfTrans tr) (cscEntries A) (fun k => x.getD k 0) i = b.getD i 0)
    (hlin : ∀ w : Array K, (∀ i, w.getD i 0 = 0) → ∀ i, (solve w).getD i 0 = 0) :
    (refineCol Ar tr A safmin eps solve b x).1 = x := by
  refine (refine_noop_exact Ar tr A safmin eps solve b x ?_ ?_ ?_).2
  · intro i
    rw [laws.kzero]
    obtain ⟨hs, hv⟩ := resid_exact Ar laws tr A x b
    by_cases hi : i < b.size
    · rw [hv i hi, hsol i hi, sub_self]
    · have : ¬ i < (resid Ar tr A x b).size := by rw [hs]; exact hi
      simp [Array.getD_eq_getD_getElem?, Array.getElem?_eq_none (Nat.le_of_not_lt this)]
  · rw [laws.kzero]; exact hlin
  · intro v; rw [laws.add, laws.kzero, add_zero]

/-! ### the hypotheses are satisfiable; the clauses on concrete data -/

section examples

def exM : Mach Rat := { sml := 1 / 1000000, big := 1000000, thresh := 1 / 10, small := 1 / 1000, large := 1000 }

/-- 1 x 1 real system `4 x = b`: the exact inner solver -/
def exInner : Trans → Array Rat → Array Rat := fun _ b => b.map (· / 4)

example : InnerCorrect 1 (eqEntries [⟨0, 0, (4 : Rat)⟩] (equilStep true 1 [⟨0, 0, (4 : Rat)⟩] exM (fun _ => 0) (fun _ => 0)).aout) exInner := by
  have h : (equilStep true 1 [⟨0, 0, (4 : Rat)⟩] exM (fun _ => 0) (fun _ => 0)).aout = [4] := by decide +kernel
  rw [h]
  intro tr b hb
  refine ⟨by simp [exInner, hb], ?_⟩
  intro i hi
  obtain rfl : i = 0 := by omega
  have h0 : 0 < b.size := by omega
  cases tr <;>
    simp [opMul, opTerm, eqEntries, opOfTrans, exInner, HasConj.conj, Array.getD_eq_getD_getElem?, Array.getElem?_eq_getElem h0] <;>
    ring

/-- 1 x 1 complex system `i x = b` (`A^H = -i`): the exact inner solver for N, T and C -/
def exInnerC : Trans → Array (Cx Rat) → Array (Cx Rat) := fun tr b =>
  b.map fun z => z * (match tr with | .C => (⟨0, 1⟩ : Cx Rat) | _ => ⟨0, -1⟩)

example : InnerCorrect 1 (eqEntries [⟨0, 0, (⟨0, 1⟩ : Cx Rat)⟩] (equilStep false 1 [⟨0, 0, (⟨0, 1⟩ : Cx Rat)⟩] exM (fun _ => 0) (fun _ => 0)).aout) exInnerC := by
  rw [equilStep_noequil]
  intro tr b hb
  refine ⟨by simp [exInnerC, hb], ?_⟩
  intro i hi
  obtain rfl : i = 0 := by omega
  have h0 : 0 < b.size := by omega
  cases tr <;>
    simp [opMul, opTerm, eqEntries, opOfTrans, exInnerC, HasConj.conj, Array.getD_eq_getD_getElem?, Array.getElem?_eq_getElem h0] <;>
    ext <;> simp

/-- a badly row-scaled 2 x 2 matrix (column-major storage): `equed = R`, `R = (1/2000, 1/4)` -/
def exEs : List (Entry Rat) := [⟨0, 0, 1000⟩, ⟨1, 0, 3⟩, ⟨0, 1, 2000⟩, ⟨1, 1, 4⟩]

example : (equilStep true 2 exEs exM (fun _ => 0) (fun _ => 0)).equed = .R := by decide +kernel
example : (equilStep true 2 exEs exM (fun _ => 0) (fun _ => 0)).aout = [1 / 2, 3 / 4, 1, 1] := by decide +kernel
/-- NOTRANS, column storage: B is multiplied by R; TRANS: `equed = R` leaves B alone -/
example : scaleB true .R 2 1 3 #[(8 : Rat), 8, 5] (fun i => if i = 0 then 1 / 2000 else 1 / 4) (fun _ => 7) = #[1 / 250, 2, 5] := by
  decide +kernel
example : scaleB false .R 2 1 3 #[(8 : Rat), 8, 5] (fun i => if i = 0 then 1 / 2000 else 1 / 4) (fun _ => 7) = #[8, 8, 5] := by
  decide +kernel
example : ArithLaws Slu.Refine.arithQ := arithQ_laws
example : ArithLaws Slu.Refine.arithQC := arithQC_laws
example : (0 : Rat) < exM.sml ∧ exM.sml ≤ exM.big := by decide +kernel
example : InRange 2 exEs := by
  intro e he
  simp only [exEs, List.mem_cons, List.not_mem_nil, or_false] at he
  rcases he with rfl | rfl | rfl | rfl <;> decide

end examples

end Slu.Gssvx
