import SluProofs.Lemmas.ArgChain
/-
C18 — Illegal arguments are rejected with the documented negative info.

Objects:
  * `Slu.ArgChains.check_<fn>` — REGENERATED on every run by tools/argchain.py from the C source of
    `<fn>` (the value of the info variable when the argument-screening exit is reached);
  * `Slu.ArgSpec.specInfo_<routine> dt` — hand-written: -(position of the first violated documented
    precondition), 0 if none, for the precision whose Dtype tag is `dt`.

Theorems (all for EVERY argument record `a : Args`, unbounded integer fields — in particular for
records that violate several preconditions at once, which is where the ORDER of the tests shows):
  * `argchain_<routine>_spec`     chain = spec, four precisions            (gssv gssvx gstrs gsrfs gscon gsequ sp_gemv)
  * `argchain_<routine>_partial`  chain = spec under `<routine>_agrees`    (gsisx sp_trsv — the chain of the
                                   unchanged tree REJECTS some calls the header allows, see below)
  * `argchain_types_agree`        the s/d/c/z chains are one chain up to the Dtype tag (all nine routines)
  * `argchain_errparam`           the number handed to input_error is -info (the position)
  * `argchain_prelude_pure`       nothing the caller owns is written and nothing but a machine-constant
                                   query is called ahead of the screening exit, and the error path only
                                   calls input_error and returns (tolerated: `*equed = 'N'` in gssvx/gsisx)

A source change that alters a chain changes `Slu/Gen/ArgChains.lean`, and these proofs are re-checked
against the new text.

Deviations of the unchanged tree from the documentation (kept OUT of the spec, stated as hypotheses):

/- argchain_gsisx_goal :  ∀ a, check_[sdcz]gsisx a = specInfo_gsisx dt a
   FALSE today, in the direction C18 does not speak about: `[sdcz]gsisx` examines the description of B
   (resp. X) even when B->ncol = 0 (resp. X->ncol = 0) although the header says that B is then not
   used, i.e. it rejects calls the header allows.  `[sdcz]gssvx` (since the fix: commits 533c341,
   cb8543f) satisfies the full statement (`argchain_gssvx_spec`). -/
/- argchain_sp_trsv_goal : ∀ a, check_sp_[sdcz]trsv a = specInfo_sp_trsv dt a
   FALSE today, in the direction C18 does not speak about: the header documents 'u','l','n','t','c' but
   only upper case is accepted (legal calls rejected).  The documented type tags of L and U ARE tested
   since the /repo commit "fix: sp_[sdcz]trsv, sp_[sdcz]gemv: test the documented Stype/Dtype/Mtype". -/
/- sp_gemv: the full statement holds since that commit (`argchain_sp_gemv_spec`). -/
-/
namespace Slu.ArgSpec
open Slu.ArgChains
set_option linter.unusedSimpArgs false

theorem argchain_gssv_spec (a : Args) :
    check_sgssv a = specInfo_gssv SLU_S a ∧
    check_dgssv a = specInfo_gssv SLU_D a ∧
    check_cgssv a = specInfo_gssv SLU_C a ∧
    check_zgssv a = specInfo_gssv SLU_Z a := by
  simp only [specInfo_gssv, spec_gssv]
  refine ⟨?_, ?_, ?_, ?_⟩ <;> argchain_gen_unfold <;> argchain_unfold <;> argchain_cascade

theorem argchain_gssvx_spec (a : Args) :
    check_sgssvx a = specInfo_gssvx SLU_S a ∧
    check_dgssvx a = specInfo_gssvx SLU_D a ∧
    check_cgssvx a = specInfo_gssvx SLU_C a ∧
    check_zgssvx a = specInfo_gssvx SLU_Z a := by
  simp only [specInfo_gssvx, spec_gssvx]
  refine ⟨?_, ?_, ?_, ?_⟩ <;> argchain_gen_unfold <;> argchain_unfold <;> argchain_cascade

theorem argchain_gstrs_spec (a : Args) :
    check_sgstrs a = specInfo_gstrs SLU_S a ∧
    check_dgstrs a = specInfo_gstrs SLU_D a ∧
    check_cgstrs a = specInfo_gstrs SLU_C a ∧
    check_zgstrs a = specInfo_gstrs SLU_Z a := by
  simp only [specInfo_gstrs, spec_gstrs]
  refine ⟨?_, ?_, ?_, ?_⟩ <;> argchain_gen_unfold <;> argchain_unfold <;> argchain_cascade

theorem argchain_gsrfs_spec (a : Args) :
    check_sgsrfs a = specInfo_gsrfs SLU_S a ∧
    check_dgsrfs a = specInfo_gsrfs SLU_D a ∧
    check_cgsrfs a = specInfo_gsrfs SLU_C a ∧
    check_zgsrfs a = specInfo_gsrfs SLU_Z a := by
  simp only [specInfo_gsrfs, spec_gsrfs]
  refine ⟨?_, ?_, ?_, ?_⟩ <;> argchain_gen_unfold <;> argchain_unfold <;> argchain_cascade

theorem argchain_gscon_spec (a : Args) :
    check_sgscon a = specInfo_gscon SLU_S a ∧
    check_dgscon a = specInfo_gscon SLU_D a ∧
    check_cgscon a = specInfo_gscon SLU_C a ∧
    check_zgscon a = specInfo_gscon SLU_Z a := by
  simp only [specInfo_gscon, spec_gscon]
  refine ⟨?_, ?_, ?_, ?_⟩ <;> argchain_gen_unfold <;> argchain_unfold <;> argchain_cascade

theorem argchain_gsequ_spec (a : Args) :
    check_sgsequ a = specInfo_gsequ SLU_S a ∧
    check_dgsequ a = specInfo_gsequ SLU_D a ∧
    check_cgsequ a = specInfo_gsequ SLU_C a ∧
    check_zgsequ a = specInfo_gsequ SLU_Z a := by
  simp only [specInfo_gsequ, spec_gsequ]
  refine ⟨?_, ?_, ?_, ?_⟩ <;> argchain_gen_unfold <;> argchain_unfold <;> argchain_cascade

theorem argchain_gsisx_partial (a : Args) :
    (gsisx_agrees SLU_S a → check_sgsisx a = specInfo_gsisx SLU_S a) ∧
    (gsisx_agrees SLU_D a → check_dgsisx a = specInfo_gsisx SLU_D a) ∧
    (gsisx_agrees SLU_C a → check_cgsisx a = specInfo_gsisx SLU_C a) ∧
    (gsisx_agrees SLU_Z a → check_zgsisx a = specInfo_gsisx SLU_Z a) := by
  simp only [specInfo_gsisx, spec_gsisx, spec_gssvx]
  refine ⟨?_, ?_, ?_, ?_⟩ <;> intro h <;> argchain_gen_unfold <;> argchain_unfold <;> argchain_cascade

theorem argchain_sp_trsv_partial (a : Args) :
    (sp_trsv_agrees SLU_S a → check_sp_strsv a = specInfo_sp_trsv SLU_S a) ∧
    (sp_trsv_agrees SLU_D a → check_sp_dtrsv a = specInfo_sp_trsv SLU_D a) ∧
    (sp_trsv_agrees SLU_C a → check_sp_ctrsv a = specInfo_sp_trsv SLU_C a) ∧
    (sp_trsv_agrees SLU_Z a → check_sp_ztrsv a = specInfo_sp_trsv SLU_Z a) := by
  simp only [specInfo_sp_trsv, spec_sp_trsv]
  refine ⟨?_, ?_, ?_, ?_⟩ <;> intro h <;> argchain_gen_unfold <;> argchain_unfold <;> argchain_cascade

/-- sp_gemv has no info argument: the position is what it hands to input_error -/
theorem argchain_sp_gemv_spec (a : Args) :
    errparam_sp_sgemv a = -specInfo_sp_gemv SLU_S a ∧
    errparam_sp_dgemv a = -specInfo_sp_gemv SLU_D a ∧
    errparam_sp_cgemv a = -specInfo_sp_gemv SLU_C a ∧
    errparam_sp_zgemv a = -specInfo_sp_gemv SLU_Z a := by
  simp only [specInfo_sp_gemv, spec_sp_gemv]
  refine ⟨?_, ?_, ?_, ?_⟩ <;> argchain_gen_unfold <;> argchain_unfold <;>
    simp only [apply_ite (Neg.neg : Int → Int), Int.neg_neg, Int.neg_zero] <;> argchain_cascade

/-- the four precisions of a routine have ONE chain: shifting every Dtype tag by k maps the chain of
precision s (tag 0) to the chain of the precision with tag k -/
theorem argchain_types_agree_gssv (a : Args) :
    check_sgssv a = check_dgssv (retag 1 a) ∧
    check_sgssv a = check_cgssv (retag 2 a) ∧
    check_sgssv a = check_zgssv (retag 3 a) := by
  refine ⟨?_, ?_, ?_⟩ <;> argchain_gen_unfold <;> simp only [retag] <;> argchain_congr

theorem argchain_types_agree_gssvx (a : Args) :
    check_sgssvx a = check_dgssvx (retag 1 a) ∧
    check_sgssvx a = check_cgssvx (retag 2 a) ∧
    check_sgssvx a = check_zgssvx (retag 3 a) := by
  refine ⟨?_, ?_, ?_⟩ <;> argchain_gen_unfold <;> simp only [retag] <;> argchain_congr

theorem argchain_types_agree_gsisx (a : Args) :
    check_sgsisx a = check_dgsisx (retag 1 a) ∧
    check_sgsisx a = check_cgsisx (retag 2 a) ∧
    check_sgsisx a = check_zgsisx (retag 3 a) := by
  refine ⟨?_, ?_, ?_⟩ <;> argchain_gen_unfold <;> simp only [retag] <;> argchain_congr

theorem argchain_types_agree_gstrs (a : Args) :
    check_sgstrs a = check_dgstrs (retag 1 a) ∧
    check_sgstrs a = check_cgstrs (retag 2 a) ∧
    check_sgstrs a = check_zgstrs (retag 3 a) := by
  refine ⟨?_, ?_, ?_⟩ <;> argchain_gen_unfold <;> simp only [retag] <;> argchain_congr

theorem argchain_types_agree_gsrfs (a : Args) :
    check_sgsrfs a = check_dgsrfs (retag 1 a) ∧
    check_sgsrfs a = check_cgsrfs (retag 2 a) ∧
    check_sgsrfs a = check_zgsrfs (retag 3 a) := by
  refine ⟨?_, ?_, ?_⟩ <;> argchain_gen_unfold <;> simp only [retag] <;> argchain_congr

theorem argchain_types_agree_gscon (a : Args) :
    check_sgscon a = check_dgscon (retag 1 a) ∧
    check_sgscon a = check_cgscon (retag 2 a) ∧
    check_sgscon a = check_zgscon (retag 3 a) := by
  refine ⟨?_, ?_, ?_⟩ <;> argchain_gen_unfold <;> simp only [retag] <;> argchain_congr

theorem argchain_types_agree_gsequ (a : Args) :
    check_sgsequ a = check_dgsequ (retag 1 a) ∧
    check_sgsequ a = check_cgsequ (retag 2 a) ∧
    check_sgsequ a = check_zgsequ (retag 3 a) := by
  refine ⟨?_, ?_, ?_⟩ <;> argchain_gen_unfold <;> simp only [retag] <;> argchain_congr

theorem argchain_types_agree_sp_trsv (a : Args) :
    check_sp_strsv a = check_sp_dtrsv (retag 1 a) ∧
    check_sp_strsv a = check_sp_ctrsv (retag 2 a) ∧
    check_sp_strsv a = check_sp_ztrsv (retag 3 a) := by
  refine ⟨?_, ?_, ?_⟩ <;> argchain_gen_unfold <;> simp only [retag] <;> argchain_congr

theorem argchain_types_agree_sp_gemv (a : Args) :
    check_sp_sgemv a = check_sp_dgemv (retag 1 a) ∧
    check_sp_sgemv a = check_sp_cgemv (retag 2 a) ∧
    check_sp_sgemv a = check_sp_zgemv (retag 3 a) := by
  refine ⟨?_, ?_, ?_⟩ <;> argchain_gen_unfold <;> simp only [retag] <;> argchain_congr

theorem argchain_types_agree (a : Args) :
    (check_sgssv a = check_dgssv (retag 1 a) ∧ check_sgssv a = check_cgssv (retag 2 a) ∧ check_sgssv a = check_zgssv (retag 3 a)) ∧
    (check_sgssvx a = check_dgssvx (retag 1 a) ∧ check_sgssvx a = check_cgssvx (retag 2 a) ∧ check_sgssvx a = check_zgssvx (retag 3 a)) ∧
    (check_sgsisx a = check_dgsisx (retag 1 a) ∧ check_sgsisx a = check_cgsisx (retag 2 a) ∧ check_sgsisx a = check_zgsisx (retag 3 a)) ∧
    (check_sgstrs a = check_dgstrs (retag 1 a) ∧ check_sgstrs a = check_cgstrs (retag 2 a) ∧ check_sgstrs a = check_zgstrs (retag 3 a)) ∧
    (check_sgsrfs a = check_dgsrfs (retag 1 a) ∧ check_sgsrfs a = check_cgsrfs (retag 2 a) ∧ check_sgsrfs a = check_zgsrfs (retag 3 a)) ∧
    (check_sgscon a = check_dgscon (retag 1 a) ∧ check_sgscon a = check_cgscon (retag 2 a) ∧ check_sgscon a = check_zgscon (retag 3 a)) ∧
    (check_sgsequ a = check_dgsequ (retag 1 a) ∧ check_sgsequ a = check_cgsequ (retag 2 a) ∧ check_sgsequ a = check_zgsequ (retag 3 a)) ∧
    (check_sp_strsv a = check_sp_dtrsv (retag 1 a) ∧ check_sp_strsv a = check_sp_ctrsv (retag 2 a) ∧ check_sp_strsv a = check_sp_ztrsv (retag 3 a)) ∧
    (check_sp_sgemv a = check_sp_dgemv (retag 1 a) ∧ check_sp_sgemv a = check_sp_cgemv (retag 2 a) ∧ check_sp_sgemv a = check_sp_zgemv (retag 3 a)) :=
  ⟨argchain_types_agree_gssv a, argchain_types_agree_gssvx a, argchain_types_agree_gsisx a, argchain_types_agree_gstrs a, argchain_types_agree_gsrfs a, argchain_types_agree_gscon a, argchain_types_agree_gsequ a, argchain_types_agree_sp_trsv a, argchain_types_agree_sp_gemv a⟩

/-- the number printed by input_error is the position: -info (sp_gemv keeps a positive local) -/
theorem argchain_errparam (a : Args) :
    errparam_sgssv a = -check_sgssv a ∧
    errparam_dgssv a = -check_dgssv a ∧
    errparam_cgssv a = -check_cgssv a ∧
    errparam_zgssv a = -check_zgssv a ∧
    errparam_sgssvx a = -check_sgssvx a ∧
    errparam_dgssvx a = -check_dgssvx a ∧
    errparam_cgssvx a = -check_cgssvx a ∧
    errparam_zgssvx a = -check_zgssvx a ∧
    errparam_sgsisx a = -check_sgsisx a ∧
    errparam_dgsisx a = -check_dgsisx a ∧
    errparam_cgsisx a = -check_cgsisx a ∧
    errparam_zgsisx a = -check_zgsisx a ∧
    errparam_sgstrs a = -check_sgstrs a ∧
    errparam_dgstrs a = -check_dgstrs a ∧
    errparam_cgstrs a = -check_cgstrs a ∧
    errparam_zgstrs a = -check_zgstrs a ∧
    errparam_sgsrfs a = -check_sgsrfs a ∧
    errparam_dgsrfs a = -check_dgsrfs a ∧
    errparam_cgsrfs a = -check_cgsrfs a ∧
    errparam_zgsrfs a = -check_zgsrfs a ∧
    errparam_sgscon a = -check_sgscon a ∧
    errparam_dgscon a = -check_dgscon a ∧
    errparam_cgscon a = -check_cgscon a ∧
    errparam_zgscon a = -check_zgscon a ∧
    errparam_sgsequ a = -check_sgsequ a ∧
    errparam_dgsequ a = -check_dgsequ a ∧
    errparam_cgsequ a = -check_cgsequ a ∧
    errparam_zgsequ a = -check_zgsequ a ∧
    errparam_sp_strsv a = -check_sp_strsv a ∧
    errparam_sp_dtrsv a = -check_sp_dtrsv a ∧
    errparam_sp_ctrsv a = -check_sp_ctrsv a ∧
    errparam_sp_ztrsv a = -check_sp_ztrsv a ∧
    errparam_sp_sgemv a = check_sp_sgemv a ∧
    errparam_sp_dgemv a = check_sp_dgemv a ∧
    errparam_sp_cgemv a = check_sp_cgemv a ∧
    errparam_sp_zgemv a = check_sp_zgemv a := by
  simp only [errparam_sgssv, errparam_dgssv, errparam_cgssv, errparam_zgssv, errparam_sgssvx, errparam_dgssvx, errparam_cgssvx, errparam_zgssvx, errparam_sgsisx, errparam_dgsisx, errparam_cgsisx, errparam_zgsisx, errparam_sgstrs, errparam_dgstrs, errparam_cgstrs, errparam_zgstrs, errparam_sgsrfs, errparam_dgsrfs, errparam_cgsrfs, errparam_zgsrfs, errparam_sgscon, errparam_dgscon, errparam_cgscon, errparam_zgscon, errparam_sgsequ, errparam_dgsequ, errparam_cgsequ, errparam_zgsequ, errparam_sp_strsv, errparam_sp_dtrsv, errparam_sp_ctrsv, errparam_sp_ztrsv, errparam_sp_sgemv, errparam_sp_dgemv, errparam_sp_cgemv, errparam_sp_zgemv, and_self]

/-- ahead of the screening exit nothing the caller owns is written (exception recorded in
`allowedPrewrites`), only machine-constant queries are called, and the error path is
`input_error; return` -/
theorem argchain_prelude_pure :
    (prewrites_sgssv = allowedPrewrites "gssv" ∧ precalls_sgssv = allowedPrecalls "gssv" false ∧ errexit_sgssv = []) ∧
    (prewrites_dgssv = allowedPrewrites "gssv" ∧ precalls_dgssv = allowedPrecalls "gssv" true ∧ errexit_dgssv = []) ∧
    (prewrites_cgssv = allowedPrewrites "gssv" ∧ precalls_cgssv = allowedPrecalls "gssv" false ∧ errexit_cgssv = []) ∧
    (prewrites_zgssv = allowedPrewrites "gssv" ∧ precalls_zgssv = allowedPrecalls "gssv" true ∧ errexit_zgssv = []) ∧
    (prewrites_sgssvx = allowedPrewrites "gssvx" ∧ precalls_sgssvx = allowedPrecalls "gssvx" false ∧ errexit_sgssvx = []) ∧
    (prewrites_dgssvx = allowedPrewrites "gssvx" ∧ precalls_dgssvx = allowedPrecalls "gssvx" true ∧ errexit_dgssvx = []) ∧
    (prewrites_cgssvx = allowedPrewrites "gssvx" ∧ precalls_cgssvx = allowedPrecalls "gssvx" false ∧ errexit_cgssvx = []) ∧
    (prewrites_zgssvx = allowedPrewrites "gssvx" ∧ precalls_zgssvx = allowedPrecalls "gssvx" true ∧ errexit_zgssvx = []) ∧
    (prewrites_sgsisx = allowedPrewrites "gsisx" ∧ precalls_sgsisx = allowedPrecalls "gsisx" false ∧ errexit_sgsisx = []) ∧
    (prewrites_dgsisx = allowedPrewrites "gsisx" ∧ precalls_dgsisx = allowedPrecalls "gsisx" true ∧ errexit_dgsisx = []) ∧
    (prewrites_cgsisx = allowedPrewrites "gsisx" ∧ precalls_cgsisx = allowedPrecalls "gsisx" false ∧ errexit_cgsisx = []) ∧
    (prewrites_zgsisx = allowedPrewrites "gsisx" ∧ precalls_zgsisx = allowedPrecalls "gsisx" true ∧ errexit_zgsisx = []) ∧
    (prewrites_sgstrs = allowedPrewrites "gstrs" ∧ precalls_sgstrs = allowedPrecalls "gstrs" false ∧ errexit_sgstrs = []) ∧
    (prewrites_dgstrs = allowedPrewrites "gstrs" ∧ precalls_dgstrs = allowedPrecalls "gstrs" true ∧ errexit_dgstrs = []) ∧
    (prewrites_cgstrs = allowedPrewrites "gstrs" ∧ precalls_cgstrs = allowedPrecalls "gstrs" false ∧ errexit_cgstrs = []) ∧
    (prewrites_zgstrs = allowedPrewrites "gstrs" ∧ precalls_zgstrs = allowedPrecalls "gstrs" true ∧ errexit_zgstrs = []) ∧
    (prewrites_sgsrfs = allowedPrewrites "gsrfs" ∧ precalls_sgsrfs = allowedPrecalls "gsrfs" false ∧ errexit_sgsrfs = []) ∧
    (prewrites_dgsrfs = allowedPrewrites "gsrfs" ∧ precalls_dgsrfs = allowedPrecalls "gsrfs" true ∧ errexit_dgsrfs = []) ∧
    (prewrites_cgsrfs = allowedPrewrites "gsrfs" ∧ precalls_cgsrfs = allowedPrecalls "gsrfs" false ∧ errexit_cgsrfs = []) ∧
    (prewrites_zgsrfs = allowedPrewrites "gsrfs" ∧ precalls_zgsrfs = allowedPrecalls "gsrfs" true ∧ errexit_zgsrfs = []) ∧
    (prewrites_sgscon = allowedPrewrites "gscon" ∧ precalls_sgscon = allowedPrecalls "gscon" false ∧ errexit_sgscon = []) ∧
    (prewrites_dgscon = allowedPrewrites "gscon" ∧ precalls_dgscon = allowedPrecalls "gscon" true ∧ errexit_dgscon = []) ∧
    (prewrites_cgscon = allowedPrewrites "gscon" ∧ precalls_cgscon = allowedPrecalls "gscon" false ∧ errexit_cgscon = []) ∧
    (prewrites_zgscon = allowedPrewrites "gscon" ∧ precalls_zgscon = allowedPrecalls "gscon" true ∧ errexit_zgscon = []) ∧
    (prewrites_sgsequ = allowedPrewrites "gsequ" ∧ precalls_sgsequ = allowedPrecalls "gsequ" false ∧ errexit_sgsequ = []) ∧
    (prewrites_dgsequ = allowedPrewrites "gsequ" ∧ precalls_dgsequ = allowedPrecalls "gsequ" true ∧ errexit_dgsequ = []) ∧
    (prewrites_cgsequ = allowedPrewrites "gsequ" ∧ precalls_cgsequ = allowedPrecalls "gsequ" false ∧ errexit_cgsequ = []) ∧
    (prewrites_zgsequ = allowedPrewrites "gsequ" ∧ precalls_zgsequ = allowedPrecalls "gsequ" true ∧ errexit_zgsequ = []) ∧
    (prewrites_sp_strsv = allowedPrewrites "sp_trsv" ∧ precalls_sp_strsv = allowedPrecalls "sp_trsv" false ∧ errexit_sp_strsv = []) ∧
    (prewrites_sp_dtrsv = allowedPrewrites "sp_trsv" ∧ precalls_sp_dtrsv = allowedPrecalls "sp_trsv" true ∧ errexit_sp_dtrsv = []) ∧
    (prewrites_sp_ctrsv = allowedPrewrites "sp_trsv" ∧ precalls_sp_ctrsv = allowedPrecalls "sp_trsv" false ∧ errexit_sp_ctrsv = []) ∧
    (prewrites_sp_ztrsv = allowedPrewrites "sp_trsv" ∧ precalls_sp_ztrsv = allowedPrecalls "sp_trsv" true ∧ errexit_sp_ztrsv = []) ∧
    (prewrites_sp_sgemv = allowedPrewrites "sp_gemv" ∧ precalls_sp_sgemv = allowedPrecalls "sp_gemv" false ∧ errexit_sp_sgemv = []) ∧
    (prewrites_sp_dgemv = allowedPrewrites "sp_gemv" ∧ precalls_sp_dgemv = allowedPrecalls "sp_gemv" true ∧ errexit_sp_dgemv = []) ∧
    (prewrites_sp_cgemv = allowedPrewrites "sp_gemv" ∧ precalls_sp_cgemv = allowedPrecalls "sp_gemv" false ∧ errexit_sp_cgemv = []) ∧
    (prewrites_sp_zgemv = allowedPrewrites "sp_gemv" ∧ precalls_sp_zgemv = allowedPrecalls "sp_gemv" true ∧ errexit_sp_zgemv = []) := by
  repeat' constructor

theorem argchain_translated : translationFailures = [] := by decide

/-! hypotheses of the partial theorems are satisfiable, and the specs are not vacuous -/
example : gsisx_agrees SLU_D { A_nrow := 3, A_ncol := 3, A_Dtype := 1, B_ncol := 2, X_ncol := 2, B_Store_lda := 3, X_Store_lda := 3, B_Stype := 6, X_Stype := 6, B_Dtype := 1, X_Dtype := 1 } := by decide
example : gsisx_agrees SLU_D { A_nrow := 3, A_ncol := 3, A_Dtype := 1, B_ncol := 0, X_ncol := 0, B_Store_lda := 3, X_Store_lda := 3, B_Stype := 6, X_Stype := 6, B_Dtype := 1, X_Dtype := 1 } := by decide
example : sp_trsv_agrees SLU_D { L_Stype := 3, L_Dtype := 1, L_Mtype := 1, U_Stype := 0, U_Dtype := 1, U_Mtype := 4, uplo_ch := 76, trans_ch := 78, diag_ch := 85 } := by decide
example : specInfo_gstrs SLU_D { L_nrow := 3, L_ncol := 3, L_Stype := 3, L_Dtype := 1, L_Mtype := 1, U_nrow := 3, U_ncol := 3, U_Dtype := 1, U_Mtype := 4, B_Store_lda := 3, B_Stype := 6, B_Dtype := 1 } = 0 := by decide
example : specInfo_gstrs SLU_D { trans := 7, L_nrow := -1 } = -1 := by decide
example : specInfo_gstrs SLU_D { L_nrow := 3, L_ncol := 3, L_Stype := 3, L_Dtype := 1, L_Mtype := 1, U_nrow := 3, U_ncol := 3, U_Dtype := 1, U_Mtype := 4, B_Store_lda := 2, B_Stype := 6, B_Dtype := 1 } = -6 := by decide

end Slu.ArgSpec
