import Slu.Model.Ldperm
import SluProofs.Lemmas.RatBasic
import Mathlib.Algebra.BigOperators.Fin
import Mathlib.Algebra.BigOperators.Group.Finset.Basic
import Mathlib.Algebra.Order.BigOperators.Ring.Finset
import Mathlib.Data.Fintype.EquivFin
import Mathlib.Tactic.FinCases
import Mathlib.Tactic.NormNum
/-
C17 — Large-diagonal row permutation is a max-product matching with unit scaling.

MC64 (SRC/mc64ad.c) is an oracle of the model.  What is proved here, for every order `n`, every
nonnegative weight matrix and all positive scalings, is that the property's *scaling clause*
(every scaled entry at most one, matched entries exactly one) implies its *optimality clause* (the
matched product is maximal over all perfect matchings) — weak duality in multiplicative form over
`Rat` — together with the slack form that the run-time check evaluates on the floating-point duals,
the soundness of the executable checker `Slu.Ldperm.matchingCert(S)`, and the index-shift glue of
`[sdcz]ldperm` restoring the caller's arrays.  "MC64 always returns such a certificate" is not proved;
it is checked on every run by the verified checker.
-/
namespace Slu.Ldperm
open Slu Finset

/-! ### Weak duality, multiplicative form -/

/-- **C17 (slack form).**  For every `n`, nonnegative `W`, positive `r`, `c`: if every scaled entry
`r i * W i j * c j` is at most `hi` and the scaled entries matched by the bijection `σ` are at least
`lo > 0`, then for every other perfect matching `τ`:  `lo^n * ∏ W i (τ i) ≤ hi^n * ∏ W i (σ i)`. -/
theorem matching_certificate_slack (n : ℕ) (W : Fin n → Fin n → ℚ) (r c : Fin n → ℚ)
    (σ τ : Fin n → Fin n) (lo hi : ℚ)
    (hσ : Function.Bijective σ) (hτ : Function.Bijective τ)
    (hW : ∀ i j, 0 ≤ W i j) (hr : ∀ i, 0 < r i) (hc : ∀ j, 0 < c j) (hlo : 0 < lo)
    (hle : ∀ i j, r i * W i j * c j ≤ hi)
    (hge : ∀ i, lo ≤ r i * W i (σ i) * c (σ i)) :
    lo ^ n * ∏ i, W i (τ i) ≤ hi ^ n * ∏ i, W i (σ i) := by
  have hP : 0 < ∏ i, r i := prod_pos fun i _ => hr i
  have hQ : 0 < ∏ j, c j := prod_pos fun j _ => hc j
  -- the scaled product along any bijection factors as P * (matched product) * Q
  have hfac : ∀ ρ : Fin n → Fin n, Function.Bijective ρ →
      ∏ i, (r i * W i (ρ i) * c (ρ i)) = (∏ i, r i) * (∏ i, W i (ρ i)) * ∏ j, c j := by
    intro ρ hρ
    rw [prod_mul_distrib, prod_mul_distrib, hρ.prod_comp c]
  -- along τ every factor is at most hi
  have h1 : ∏ i, (r i * W i (τ i) * c (τ i)) ≤ hi ^ n := by
    calc ∏ i, (r i * W i (τ i) * c (τ i)) ≤ ∏ _i : Fin n, hi :=
          prod_le_prod (fun i _ => mul_nonneg (mul_nonneg (hr i).le (hW _ _)) (hc _).le) (fun i _ => hle i (τ i))
      _ = hi ^ n := by simp
  -- along σ every factor is at least lo
  have h2 : lo ^ n ≤ ∏ i, (r i * W i (σ i) * c (σ i)) := by
    calc lo ^ n = ∏ _i : Fin n, lo := by simp
      _ ≤ _ := prod_le_prod (fun _ _ => hlo.le) (fun i _ => hge i)
  rw [hfac τ hτ] at h1
  rw [hfac σ hσ] at h2
  have hPQ : 0 < (∏ i, r i) * ∏ j, c j := mul_pos hP hQ
  have hτ0 : 0 ≤ ∏ i, W i (τ i) := prod_nonneg fun i _ => hW _ _
  have hσ0 : 0 ≤ ∏ i, W i (σ i) := prod_nonneg fun i _ => hW _ _
  have hlon : 0 ≤ lo ^ n := pow_nonneg hlo.le n
  -- multiply the two estimates
  have key : ((∏ i, r i) * ∏ j, c j) * (lo ^ n * ∏ i, W i (τ i)) ≤
      ((∏ i, r i) * ∏ j, c j) * (hi ^ n * ∏ i, W i (σ i)) := by
    have e1 : ((∏ i, r i) * ∏ j, c j) * (lo ^ n * ∏ i, W i (τ i)) =
        lo ^ n * ((∏ i, r i) * (∏ i, W i (τ i)) * ∏ j, c j) := by ring
    have e2 : ((∏ i, r i) * ∏ j, c j) * (hi ^ n * ∏ i, W i (σ i)) =
        hi ^ n * ((∏ i, r i) * (∏ i, W i (σ i)) * ∏ j, c j) := by ring
    rw [e1, e2]
    have hA0 : 0 ≤ (∏ i, r i) * (∏ i, W i (τ i)) * ∏ j, c j :=
      mul_nonneg (mul_nonneg hP.le hτ0) hQ.le
    calc lo ^ n * ((∏ i, r i) * (∏ i, W i (τ i)) * ∏ j, c j)
        ≤ ((∏ i, r i) * (∏ i, W i (σ i)) * ∏ j, c j) * ((∏ i, r i) * (∏ i, W i (τ i)) * ∏ j, c j) :=
          mul_le_mul_of_nonneg_right h2 hA0
      _ ≤ ((∏ i, r i) * (∏ i, W i (σ i)) * ∏ j, c j) * hi ^ n :=
          mul_le_mul_of_nonneg_left h1 (mul_nonneg (mul_nonneg hP.le hσ0) hQ.le)
      _ = hi ^ n * ((∏ i, r i) * (∏ i, W i (σ i)) * ∏ j, c j) := by ring
  exact le_of_mul_le_mul_left key hPQ

/-- **C17 (`matching_certificate`).**  For every `n`, every nonnegative weight matrix `W` and positive
scalings `r`, `c`: if `σ` is a bijection, `r i * W i j * c j ≤ 1` for all entries and `= 1` on the
matched entries, then the product of the matched weights is at least the product along every other
perfect matching `τ`. -/
theorem matching_certificate (n : ℕ) (W : Fin n → Fin n → ℚ) (r c : Fin n → ℚ)
    (σ τ : Fin n → Fin n)
    (hσ : Function.Bijective σ) (hτ : Function.Bijective τ)
    (hW : ∀ i j, 0 ≤ W i j) (hr : ∀ i, 0 < r i) (hc : ∀ j, 0 < c j)
    (hle : ∀ i j, r i * W i j * c j ≤ 1)
    (heq : ∀ i, r i * W i (σ i) * c (σ i) = 1) :
    ∏ i, W i (τ i) ≤ ∏ i, W i (σ i) := by
  have h := matching_certificate_slack n W r c σ τ 1 1 hσ hτ hW hr hc one_pos hle (fun i => (heq i).ge)
  simpa using h

/-- Under the exact certificate the matched weights are all nonzero (a nonzero on every diagonal
position of the permuted matrix) and their product is positive. -/
theorem matching_certificate_diag_pos (n : ℕ) (W : Fin n → Fin n → ℚ) (r c : Fin n → ℚ)
    (σ : Fin n → Fin n) (hW : ∀ i j, 0 ≤ W i j)
    (heq : ∀ i, r i * W i (σ i) * c (σ i) = 1) :
    (∀ i, 0 < W i (σ i)) ∧ 0 < ∏ i, W i (σ i) := by
  have h : ∀ i, 0 < W i (σ i) := by
    intro i
    rcases (hW i (σ i)).lt_or_eq with h | h
    · exact h
    · have := heq i; rw [← h] at this; simp at this
  exact ⟨h, prod_pos fun i _ => h i⟩

/-! ### Soundness of the executable checker -/

theorem Wof_nonneg (es : List WEntry) (h : ∀ e ∈ es, 0 ≤ e.2.2) (i j : Nat) : 0 ≤ Wof es i j := by
  unfold Wof
  split
  · rename_i e he; exact h e (List.mem_of_find?_eq_some he)
  · exact le_refl 0

theorem Wof_le (es : List WEntry) (r c : Nat → Rat) (hi : Rat) (hhi : 0 ≤ hi)
    (h : ∀ e ∈ es, r e.1 * e.2.2 * c e.2.1 ≤ hi) (i j : Nat) : r i * Wof es i j * c j ≤ hi := by
  unfold Wof
  split
  · rename_i e he
    have hm := List.mem_of_find?_eq_some he
    have hp := List.find?_some he
    simp only [Bool.and_eq_true, beq_iff_eq] at hp
    have := h e hm
    rw [hp.1, hp.2] at this
    exact this
  · simpa using hhi

theorem isPermFn_spec {n : Nat} {σ : Nat → Nat} (h : isPermFn n σ = true) :
    (∀ i, i < n → σ i < n) ∧ (∀ i j, i < n → j < n → σ i = σ j → i = j) := by
  unfold isPermFn at h
  simp only [Bool.and_eq_true, List.all_eq_true, List.mem_range, decide_eq_true_eq, Bool.or_eq_true,
    beq_iff_eq, bne_iff_ne, ne_eq] at h
  refine ⟨h.1, fun i j hi hj hij => ?_⟩
  rcases h.2 i hi j hj with h' | h'
  · exact h'
  · exact absurd hij h'

/-- What `matchingCertS lo hi n es σ r c = true` means: exactly the hypotheses of
`matching_certificate_slack` for the matrix `Wof es` restricted to `Fin n`. -/
theorem matchingCertS_sound {lo hi : Rat} {n : Nat} {es : List WEntry} {σ : Nat → Nat} {r c : Nat → Rat}
    (h : matchingCertS lo hi n es σ r c = true) :
    0 < lo ∧
    (∀ i, i < n → σ i < n) ∧ (∀ i j, i < n → j < n → σ i = σ j → i = j) ∧
    (∀ i, i < n → 0 < r i ∧ 0 < c i) ∧
    (∀ i j, 0 ≤ Wof es i j) ∧
    (lo ≤ hi ∨ n = 0 → ∀ i j, r i * Wof es i j * c j ≤ max hi 0) ∧
    (∀ e ∈ es, r e.1 * e.2.2 * c e.2.1 ≤ hi) ∧
    (∀ i, i < n → lo ≤ r i * Wof es i (σ i) * c (σ i)) := by
  unfold matchingCertS at h
  simp only [Bool.and_eq_true, List.all_eq_true, List.mem_range, decide_eq_true_eq] at h
  obtain ⟨⟨⟨⟨h0, hp⟩, hrc⟩, hes⟩, hm⟩ := h
  obtain ⟨hp1, hp2⟩ := isPermFn_spec hp
  have hle : ∀ e ∈ es, r e.1 * e.2.2 * c e.2.1 ≤ hi := fun e he => (hes e he).2
  refine ⟨h0, hp1, hp2, hrc, Wof_nonneg es (fun e he => (hes e he).1), ?_, hle, hm⟩
  intro _ i j
  exact Wof_le es r c (max hi 0) (le_max_right _ _) (fun e he => le_trans (hle e he) (le_max_left _ _)) i j

/-- **C17 (checker soundness, slack form).**  If the executable checker accepts `(es, σ, r, c)` with
bounds `0 < lo ≤ hi`, then along every bijection `τ` of `Fin n` the product of the weights `Wof es`
is bounded by the matched product:  `lo^n * ∏ W i (τ i) ≤ hi^n * ∏ W i (σ i)`. -/
theorem matchingCertS_optimal {lo hi : Rat} {n : Nat} {es : List WEntry} {σ : Nat → Nat} {r c : Nat → Rat}
    (h : matchingCertS lo hi n es σ r c = true) (hlh : lo ≤ hi)
    (τ : Fin n → Fin n) (hτ : Function.Bijective τ) :
    lo ^ n * ∏ i : Fin n, Wof es i (τ i) ≤ hi ^ n * ∏ i : Fin n, Wof es i (σ i) := by
  obtain ⟨h0, hp1, hp2, hrc, hW, hle, _, hm⟩ := matchingCertS_sound h
  have hhi : max hi 0 = hi := max_eq_left (le_trans h0.le hlh)
  let σ' : Fin n → Fin n := fun i => ⟨σ i, hp1 i i.2⟩
  have hinj : Function.Injective σ' := by
    intro a b hab
    have : σ a = σ b := congrArg Fin.val hab
    exact Fin.ext (hp2 a b a.2 b.2 this)
  have hbij : Function.Bijective σ' := Finite.injective_iff_bijective.mp hinj
  have := matching_certificate_slack n (fun i j => Wof es i j) (fun i => r i) (fun j => c j) σ' τ lo hi
    hbij hτ (fun i j => hW i j) (fun i => (hrc i i.2).1) (fun j => (hrc j j.2).2) h0
    (fun i j => by have := hle (Or.inl hlh) i j; rwa [hhi] at this)
    (fun i => hm i i.2)
  exact this

/-- **C17 (checker soundness).**  `matchingCert n es σ r c = true` yields the hypotheses of
`matching_certificate` — `σ` is a bijection of `Fin n`, weights nonnegative, scalings positive, every
scaled entry at most one, matched entries exactly one — hence the matched product is maximal, and
every matched weight is nonzero. -/
theorem matchingCert_sound {n : Nat} {es : List WEntry} {σ : Nat → Nat} {r c : Nat → Rat}
    (h : matchingCert n es σ r c = true) :
    ∃ σ' : Fin n → Fin n, (∀ i, (σ' i : Nat) = σ i) ∧ Function.Bijective σ' ∧
      (∀ i j : Fin n, 0 ≤ Wof es i j) ∧ (∀ i : Fin n, 0 < r i ∧ 0 < c i) ∧
      (∀ i j : Fin n, r i * Wof es i j * c j ≤ 1) ∧
      (∀ i : Fin n, r i * Wof es i (σ' i) * c (σ' i) = 1) ∧
      (∀ i : Fin n, 0 < Wof es i (σ' i)) ∧
      ∀ τ : Fin n → Fin n, Function.Bijective τ →
        ∏ i : Fin n, Wof es i (τ i) ≤ ∏ i : Fin n, Wof es i (σ' i) := by
  unfold matchingCert at h
  obtain ⟨_, hp1, hp2, hrc, hW, hle, _, hm⟩ := matchingCertS_sound h
  have hle1 : ∀ i j, r i * Wof es i j * c j ≤ 1 := by
    intro i j; have := hle (Or.inl (le_refl 1)) i j; simpa using this
  let σ' : Fin n → Fin n := fun i => ⟨σ i, hp1 i i.2⟩
  have hinj : Function.Injective σ' := by
    intro a b hab
    have : σ a = σ b := congrArg Fin.val hab
    exact Fin.ext (hp2 a b a.2 b.2 this)
  have hbij : Function.Bijective σ' := Finite.injective_iff_bijective.mp hinj
  have heq : ∀ i : Fin n, r i * Wof es i (σ' i) * c (σ' i) = 1 :=
    fun i => le_antisymm (hle1 i (σ i)) (hm i i.2)
  have hpos := matching_certificate_diag_pos n (fun i j => Wof es i j) (fun i => r i) (fun j => c j) σ'
    (fun i j => hW i j) heq
  refine ⟨σ', fun _ => rfl, hbij, fun i j => hW i j, fun i => hrc i i.2, fun i j => hle1 i j, heq, hpos.1, ?_⟩
  intro τ hτ
  exact matching_certificate n (fun i j => Wof es i j) (fun i => r i) (fun j => c j) σ' τ hbij hτ
    (fun i j => hW i j) (fun i => (hrc i i.2).1) (fun j => (hrc j j.2).2) (fun i j => hle1 i j) heq

/-! ### The index-shift glue -/

theorem shiftDown_shiftUp (a : Array Int) : shiftDown (shiftUp a) = a := by
  unfold shiftDown shiftUp
  rw [Array.map_map]
  have : ((fun x : Int => x - 1) ∘ fun x : Int => x + 1) = id := by
    funext x; simp
  rw [this, Array.map_id]

/-- **C17 (`shift_roundtrip`).**  Whatever the oracle returns, `ldperm` hands the caller's `colptr`
and `adjncy` back exactly as they were: the `+1` shifts before the MC64 call (dldperm.c:120-121) are
undone by the `-1` shifts after it (dldperm.c:164-165); the return value is MC64's `info[0]` and the
permutation is MC64's shifted to 0-based. -/
theorem shift_roundtrip {R W : Type} [Inhabited R]
    (mc64 : (n : Nat) → (ip irn : Array Int) → (a : W) → Mc64Out R)
    (n : Nat) (colptr adjncy : Array Int) (w : W) :
    (ldperm mc64 n colptr adjncy w).colptr = colptr ∧
    (ldperm mc64 n colptr adjncy w).adjncy = adjncy ∧
    (ldperm mc64 n colptr adjncy w).ret = (mc64 n (shiftUp colptr) (shiftUp adjncy) w).info ∧
    (ldperm mc64 n colptr adjncy w).perm = shiftDown (mc64 n (shiftUp colptr) (shiftUp adjncy) w).cperm := by
  simp [ldperm, shiftDown_shiftUp]

/-- the duals are copied out of MC64's work array: `u[i] = dw[i]`, `v[i] = dw[n+i]` -/
theorem ldperm_duals {R W : Type} [Inhabited R]
    (mc64 : (n : Nat) → (ip irn : Array Int) → (a : W) → Mc64Out R)
    (n : Nat) (colptr adjncy : Array Int) (w : W) (i : Nat) (hi : i < n) :
    (ldperm mc64 n colptr adjncy w).u[i]! = (mc64 n (shiftUp colptr) (shiftUp adjncy) w).dw[i]! ∧
    (ldperm mc64 n colptr adjncy w).v[i]! = (mc64 n (shiftUp colptr) (shiftUp adjncy) w).dw[n + i]! := by
  simp [ldperm, hi]

/-! ### Non-vacuity: the hypotheses are satisfiable, and the checker accepts a genuine instance -/

/-- 2×2 example `W = [[1/2, 4],[3, 1/5]]`: the anti-diagonal matching (product 12) is certified by
`r = (1/4, 1/3)`, `c = (1, 1)`; the diagonal matching has product 1/10. -/
example : matchingCert 2 [(0, 0, 1/2), (1, 0, 3), (0, 1, 4), (1, 1, 1/5)]
    (fun i => if i = 0 then 1 else 0) (fun i => if i = 0 then 1/4 else 1/3) (fun _ => 1) = true := by
  decide +kernel

example : ∃ (W : Fin 2 → Fin 2 → ℚ) (r c : Fin 2 → ℚ) (σ : Fin 2 → Fin 2),
    Function.Bijective σ ∧ (∀ i j, 0 ≤ W i j) ∧ (∀ i, 0 < r i) ∧ (∀ j, 0 < c j) ∧
    (∀ i j, r i * W i j * c j ≤ 1) ∧ (∀ i, r i * W i (σ i) * c (σ i) = 1) ∧ σ ≠ id := by
  refine ⟨fun i j => if i = j then 1/2 else 2, fun _ => 1/2, fun _ => 1, fun i => if i = 0 then 1 else 0,
    ?_, ?_, ?_, ?_, ?_, ?_, ?_⟩
  · exact Finite.injective_iff_bijective.mp (by decide)
  · intro i j; show 0 ≤ (if i = j then (1/2 : ℚ) else 2); split <;> norm_num
  · intro i; norm_num
  · intro j; norm_num
  · intro i j; show (1/2 : ℚ) * (if i = j then (1/2 : ℚ) else 2) * 1 ≤ 1; split <;> norm_num
  · intro i; fin_cases i <;> simp
  · intro h; have := congrFun h 0; simp at this

end Slu.Ldperm
