import Slu.Model.Bridge
import Mathlib.Tactic.Linarith
/-
C20 — Fortran-callable bridge: factor once, solve many, free all.

Theorems about the state machine `Slu.Bridge.step/run` (the model of `c_fortran_[sdcz]gssv_`), for an
arbitrary numerics parameter `N` (`factor` = get_perm_c ∘ sp_preorder ∘ gstrf with default options,
`solve` = gstrs(NOTRANS)), every operation sequence, any number of handles:

* `factor_arrays_unchanged`   a factor request hands the caller's 1-based arrays back unchanged
                              (the shift acts on copies; `shift1_shift0` is the in-place alternative);
* `handles_independent`       an operation on one handle never changes what another handle holds;
* `bridge_refines_gssv`       a solve through a handle returns exactly what the C driver `gssv`
                              returns for the matrix that handle was created from, whatever happened
                              to other handles in between (trace form), and
  `bridge_refines_spec`       the whole output sequence equals that of the specification machine that
                              stores only the source matrices and answers by calling `gssv`;
* `ledger_inv`, `free_all_ledger_empty`   the ledger always holds exactly the blocks of the live
                              handles; after `free` of every live handle it is empty.
-/
namespace Slu.Bridge

variable {V F B : Type}

/-! ### finite-map lemmas -/

theorem find_erase_ne {α : Type} (h k : Handle) (l : List (Handle × α)) (hk : k ≠ h) :
    find h (erase k l) = find h l := by
  induction l with
  | nil => rfl
  | cons p t ih =>
    obtain ⟨a, v⟩ := p
    unfold erase at ih ⊢
    by_cases ha : a = k
    · subst ha
      have : a ≠ h := hk
      simp [List.filter, find, this, ih]
    · have hne : (a != k) = true := by simpa using ha
      simp only [List.filter, hne, find]
      split
      · rfl
      · exact ih

theorem find_erase_self {α : Type} (h : Handle) (l : List (Handle × α)) : find h (erase h l) = none := by
  induction l with
  | nil => rfl
  | cons p t ih =>
    obtain ⟨a, v⟩ := p
    unfold erase at ih ⊢
    by_cases ha : a = h
    · subst ha; simpa [List.filter] using ih
    · have hne : (a != h) = true := by simpa using ha
      simp only [List.filter, hne, find, ha, if_false]
      exact ih

theorem find_map {α β : Type} (f : α → β) (h : Handle) (l : List (Handle × α)) :
    find h (l.map fun p => (p.1, f p.2)) = (find h l).map f := by
  induction l with
  | nil => rfl
  | cons p t ih =>
    obtain ⟨a, v⟩ := p
    simp only [List.map, find]
    split
    · rfl
    · exact ih

theorem erase_map {α β : Type} (f : α → β) (h : Handle) (l : List (Handle × α)) :
    erase h (l.map fun p => (p.1, f p.2)) = (erase h l).map fun p => (p.1, f p.2) := by
  unfold erase
  induction l with
  | nil => rfl
  | cons p t ih =>
    obtain ⟨a, v⟩ := p
    by_cases ha : a = h
    · subst ha; simpa [List.filter] using ih
    · have hne : (a != h) = true := by simpa using ha
      simp only [List.map, List.filter, hne]
      rw [ih]

theorem find_lt_of_bound {α : Type} {h : Handle} {l : List (Handle × α)} {v : α} {b : Nat}
    (hb : ∀ p ∈ l, p.1 < b) (hf : find h l = some v) : h < b := by
  induction l with
  | nil => simp [find] at hf
  | cons p t ih =>
    obtain ⟨a, w⟩ := p
    simp only [find] at hf
    split at hf
    · rename_i hah; subst hah; exact hb (a, w) (List.mem_cons_self ..)
    · exact ih (fun q hq => hb q (List.mem_cons_of_mem _ hq)) hf

/-! ### the index shift -/

theorem shift1_shift0 (a : Array Int) : shift1 (shift0 a) = a := by
  unfold shift1 shift0
  rw [Array.map_map]
  have : ((fun x : Int => x + 1) ∘ fun x : Int => x - 1) = id := by funext x; simp
  rw [this, Array.map_id]

/-- **C20 (caller arrays).**  Whatever the state and the numerics, a factor request returns the
caller's 1-based arrays exactly as they were passed in, hands SuperLU the indices shifted to 0-based,
and yields the fresh handle `st.next`. -/
theorem factor_arrays_unchanged (N : Num V F B) (st : St F) (A : FMat V) :
    (step N st (Op.factor A)).2 = Out.factored st.next (N.factor (toC A)).2 A ∧
    (toC A).colptr = shift0 A.colptr ∧ (toC A).rowind = shift0 A.rowind ∧
    shift1 (toC A).colptr = A.colptr ∧ shift1 (toC A).rowind = A.rowind := by
  refine ⟨rfl, rfl, rfl, ?_, ?_⟩ <;> simp [toC, copyShift, shift1_shift0]

/-! ### well-formedness: every live handle is older than `next` -/

def WF (st : St F) : Prop := ∀ p ∈ st.live, p.1 < st.next

theorem wf_init : WF (init : St F) := by intro p hp; simp [init] at hp

theorem wf_step (N : Num V F B) (st : St F) (op : Op V B) (h : WF st) : WF (step N st op).1 := by
  cases op with
  | factor A =>
    intro p hp
    simp only [step, copyShift] at hp
    rcases List.mem_cons.mp hp with rfl | hp
    · exact Nat.lt_succ_self _
    · exact Nat.lt_succ_of_lt (h p hp)
  | solve k b =>
    simp only [step]
    split
    · split <;> exact h
    · exact h
  | free k =>
    simp only [step]
    split
    · intro p hp
      have : p ∈ st.live := by
        simp only [erase] at hp
        exact (List.mem_filter.mp hp).1
      exact h p this
    · exact h

theorem wf_run (N : Num V F B) (st : St F) (ops : List (Op V B)) (h : WF st) : WF (run N st ops).1 := by
  induction ops generalizing st with
  | nil => exact h
  | cons op ops ih => exact ih _ (wf_step N st op h)

/-! ### handles do not interfere -/

/-- **C20 (independence).**  If handle `h` holds `e` and the operation is not `free h`, then `h` still
holds `e` afterwards — whatever is factored, solved or freed through other handles. -/
theorem handles_independent (N : Num V F B) (st : St F) (hwf : WF st) (h : Handle) (e : Entry F)
    (hl : find h st.live = some e) (op : Op V B) (hop : ∀ k, op = Op.free k → k ≠ h) :
    find h (step N st op).1.live = some e := by
  cases op with
  | factor A =>
    have hlt : h < st.next := find_lt_of_bound hwf hl
    have : st.next ≠ h := Nat.ne_of_gt hlt
    simp [step, copyShift, find, this, hl]
  | solve k b =>
    simp only [step]
    split
    · split <;> exact hl
    · exact hl
  | free k =>
    have hk : k ≠ h := hop k rfl
    simp only [step]
    split
    · simpa [find_erase_ne h k st.live hk] using hl
    · exact hl

theorem handles_independent_run (N : Num V F B) (st : St F) (hwf : WF st) (h : Handle) (e : Entry F)
    (hl : find h st.live = some e) (ops : List (Op V B)) (hops : ∀ op ∈ ops, ∀ k, op = Op.free k → k ≠ h) :
    find h (run N st ops).1.live = some e := by
  induction ops generalizing st with
  | nil => exact hl
  | cons op ops ih =>
    simp only [run]
    exact ih _ (wf_step N st op hwf)
      (handles_independent N st hwf h e hl op (hops op (List.mem_cons_self ..)))
      (fun o ho => hops o (List.mem_cons_of_mem _ ho))

theorem run_append (N : Num V F B) (st : St F) (a b : List (Op V B)) :
    (run N st (a ++ b)).1 = (run N (run N st a).1 b).1 := by
  induction a generalizing st with
  | nil => rfl
  | cons op a ih => simp only [List.cons_append, run]; exact ih _

theorem step_solve_of_find (N : Num V F B) (st : St F) (h : Handle) (b : B) (e : Entry F)
    (hf : find h st.live = some e) :
    (step N st (Op.solve h b : Op V B)).2 = if e.info = 0 then Out.solved (N.solve e.tok b) else Out.err := by
  simp only [step, hf]
  split <;> rfl

/-- **C20 (`bridge_refines_gssv`, trace form).**  Start from the empty bridge, run any operations
`pre`; factor `A` (its handle is `h`); run any operations `mid` over any handles, as long as `h` itself
is not freed; then `solve h b` returns exactly what the C simple driver `gssv` returns for `A` shifted
to 0-based (and is outside the protocol iff the factorization reported `info ≠ 0`). -/
theorem bridge_refines_gssv (N : Num V F B) (pre : List (Op V B)) (A : FMat V) (mid : List (Op V B)) (b : B)
    (hmid : ∀ op ∈ mid, ∀ k, op = Op.free k → k ≠ (run N init pre).1.next) :
    (step N (run N init (pre ++ [Op.factor A] ++ mid)).1 (Op.solve (run N init pre).1.next b)).2 =
      if (gssv N (toC A) b).2 = 0 then Out.solved (gssv N (toC A) b).1 else Out.err := by
  have hwf0 : WF (run N init pre).1 := wf_run N init pre wf_init
  rw [run_append, run_append]
  set st0 := (run N init pre).1 with hst0
  have hst1 : (run N st0 [Op.factor A]).1 = (step N st0 (Op.factor A)).1 := rfl
  rw [hst1]
  have hwf1 : WF (step N st0 (Op.factor A)).1 := wf_step N st0 _ hwf0
  have hfind : find st0.next (step N st0 (Op.factor A)).1.live =
      some { tok := (N.factor (toC A)).1, info := (N.factor (toC A)).2 } := by
    simp [step, copyShift, find, toC]
  have := handles_independent_run N _ hwf1 st0.next _ hfind mid hmid
  rw [step_solve_of_find N _ _ b _ this]
  simp only [gssv]
  by_cases hi : (N.factor (toC A)).2 = 0 <;> simp [hi]

/-! ### refinement of the specification machine -/

/-- abstraction: the bridge's table is the specification's table with every matrix replaced by its
factorization -/
def absLive (N : Num V F B) (sp : Spec V) : List (Handle × Entry F) :=
  sp.mats.map fun p => (p.1, { tok := (N.factor (toC p.2)).1, info := (N.factor (toC p.2)).2 })

def Sim (N : Num V F B) (st : St F) (sp : Spec V) : Prop := st.live = absLive N sp ∧ st.next = sp.next

theorem find_absLive (N : Num V F B) (sp : Spec V) (k : Handle) :
    find k (absLive N sp) = (find k sp.mats).map
      (fun A => ({ tok := (N.factor (toC A)).1, info := (N.factor (toC A)).2 } : Entry F)) := by
  unfold absLive
  exact find_map (fun A : FMat V => ({ tok := (N.factor (toC A)).1, info := (N.factor (toC A)).2 } : Entry F)) k sp.mats

theorem erase_absLive (N : Num V F B) (sp : Spec V) (k : Handle) :
    erase k (absLive N sp) = absLive N { mats := erase k sp.mats, next := sp.next } := by
  unfold absLive
  exact erase_map (fun A : FMat V => ({ tok := (N.factor (toC A)).1, info := (N.factor (toC A)).2 } : Entry F)) k sp.mats

theorem sim_step (N : Num V F B) (st : St F) (sp : Spec V) (h : Sim N st sp) (op : Op V B) :
    Sim N (step N st op).1 (specStep N sp op).1 ∧ (step N st op).2 = (specStep N sp op).2 := by
  obtain ⟨hl, hn⟩ := h
  cases op with
  | factor A =>
    refine ⟨⟨?_, ?_⟩, ?_⟩
    · simp [step, specStep, copyShift, absLive, hl, hn, toC]
    · simp [step, specStep, copyShift, hn]
    · simp [step, specStep, copyShift, hn, toC]
  | solve k b =>
    have hf := find_absLive N sp k
    rw [← hl] at hf
    cases hsp : find k sp.mats with
    | none =>
      rw [hsp] at hf
      simp only [step, specStep, hf, hsp, Option.map]
      exact ⟨⟨hl, hn⟩, trivial⟩
    | some A =>
      rw [hsp] at hf
      simp only [step, specStep, hf, hsp, Option.map, gssv]
      by_cases hi : (N.factor (toC A)).2 = 0
      · simp only [hi, if_true]; exact ⟨⟨hl, hn⟩, trivial⟩
      · simp only [hi, if_false]; exact ⟨⟨hl, hn⟩, trivial⟩
  | free k =>
    have hf := find_absLive N sp k
    rw [← hl] at hf
    cases hsp : find k sp.mats with
    | none =>
      rw [hsp] at hf
      simp only [step, specStep, hf, hsp, Option.map]
      exact ⟨⟨hl, hn⟩, trivial⟩
    | some A =>
      rw [hsp] at hf
      simp only [step, specStep, hf, hsp, Option.map]
      refine ⟨⟨?_, hn⟩, trivial⟩
      show erase k st.live = _
      rw [hl]; exact erase_absLive N sp k

/-- **C20 (`bridge_refines_spec`).**  For every operation sequence the bridge produces exactly the
outputs of the specification machine, which keeps only "handle ↦ source matrix" and answers every
solve by running the C driver `gssv` on that matrix. -/
theorem bridge_refines_spec (N : Num V F B) (ops : List (Op V B)) :
    (run N init ops).2 = (specRun N specInit ops).2 := by
  suffices ∀ (st : St F) (sp : Spec V), Sim N st sp → (run N st ops).2 = (specRun N sp ops).2 from
    this init specInit ⟨rfl, rfl⟩
  induction ops with
  | nil => intros; rfl
  | cons op ops ih =>
    intro st sp h
    obtain ⟨hs, ho⟩ := sim_step N st sp h op
    simp only [run, specRun, ho]
    rw [ih _ _ hs]

/-! ### the allocation ledger -/

/-- the ledger holds exactly the owned blocks of the live handles -/
def LedgerInv (st : St F) : Prop := st.ledger = st.live.flatMap fun p => owned.map fun b => (p.1, b)

theorem erase_owned (h a : Handle) :
    erase h (owned.map fun b => (a, b)) = if a = h then [] else owned.map fun b => (a, b) := by
  unfold erase
  by_cases ha : a = h
  · subst ha; simp [owned]
  · have : (a != h) = true := by simpa using ha
    simp [ha, owned, this]

theorem erase_append {α : Type} (h : Handle) (l1 l2 : List (Handle × α)) :
    erase h (l1 ++ l2) = erase h l1 ++ erase h l2 := by
  simp [erase, List.filter_append]

theorem erase_flatMap (h : Handle) (l : List (Handle × Entry F)) :
    erase h (l.flatMap fun p => owned.map fun b => (p.1, b)) =
      (erase h l).flatMap fun p => owned.map fun b => (p.1, b) := by
  induction l with
  | nil => rfl
  | cons p t ih =>
    obtain ⟨a, v⟩ := p
    rw [List.flatMap_cons, erase_append, ih, erase_owned]
    by_cases ha : a = h
    · subst ha; simp [erase, List.filter]
    · have hne : (a != h) = true := by simpa using ha
      simp [ha, erase, List.filter, hne]

theorem ledgerInv_step (N : Num V F B) (st : St F) (op : Op V B) (h : LedgerInv st) :
    LedgerInv (step N st op).1 := by
  unfold LedgerInv at h ⊢
  cases op with
  | factor A => simp [step, copyShift, h]
  | solve k b =>
    simp only [step]
    split
    · split <;> exact h
    · exact h
  | free k =>
    simp only [step]
    split
    · show erase k st.ledger = _
      rw [h]; exact erase_flatMap k st.live
    · exact h

/-- **C20 (`ledger_inv`).**  After every operation sequence the ledger holds exactly the blocks owned
by the handles that are still live (nothing else is left allocated by factor, solve or free). -/
theorem ledger_inv (N : Num V F B) (ops : List (Op V B)) : LedgerInv (run N init ops).1 := by
  suffices ∀ st : St F, LedgerInv st → LedgerInv (run N st ops).1 from this init rfl
  induction ops with
  | nil => intro st h; exact h
  | cons op ops ih => intro st h; exact ih _ (ledgerInv_step N st op h)

/-- no live handle ⇒ empty ledger -/
theorem ledger_empty_of_no_live (st : St F) (h : LedgerInv st) (hl : st.live = []) : st.ledger = [] := by
  rw [h, hl]; rfl

theorem erase_length_lt {α : Type} (h : Handle) (l : List (Handle × α)) (v : α) (hf : find h l = some v) :
    (erase h l).length < l.length := by
  induction l with
  | nil => simp [find] at hf
  | cons p t ih =>
    obtain ⟨a, w⟩ := p
    unfold erase at ih ⊢
    simp only [find] at hf
    by_cases ha : a = h
    · subst ha
      simp only [List.filter, bne_self_eq_false, List.length_cons]
      exact Nat.lt_succ_of_le (List.length_filter_le _ _)
    · have hne : (a != h) = true := by simpa using ha
      simp only [if_neg ha] at hf
      simp only [List.filter, hne, List.length_cons]
      exact Nat.succ_lt_succ (ih hf)

/-- the sequence "free every handle that is still live" (each exactly once, in table order) -/
def freeAll : (fuel : Nat) → List (Handle × Entry F) → List (Op V B)
  | 0, _ => []
  | _, [] => []
  | fuel + 1, (h, _) :: t => Op.free h :: freeAll fuel (erase h t)

theorem run_freeAll (N : Num V F B) (fuel : Nat) (st : St F) (hfuel : st.live.length ≤ fuel) :
    (run N st (freeAll (V := V) (B := B) fuel st.live)).1.live = [] := by
  induction fuel generalizing st with
  | zero =>
    have : st.live = [] := List.eq_nil_of_length_eq_zero (Nat.le_zero.mp hfuel)
    simp [freeAll, run, this]
  | succ fuel ih =>
    cases hl : st.live with
    | nil => simp [freeAll, run, hl]
    | cons p t =>
      obtain ⟨h, e⟩ := p
      have hfind : find h st.live = some e := by simp [hl, find]
      have hstep : (step N st (Op.free h : Op V B)).1.live = erase h t := by
        simp only [step, hfind]
        simp [hl, erase]
      simp only [freeAll, run]
      have hlen : (step N st (Op.free h : Op V B)).1.live.length ≤ fuel := by
        rw [hstep]
        have : (erase h t).length ≤ t.length := List.length_filter_le _ _
        have h2 : t.length + 1 ≤ fuel + 1 := by simpa [hl] using hfuel
        omega
      have := ih (step N st (Op.free h : Op V B)).1 hlen
      rw [hstep] at this
      exact this

/-- **C20 (`free_all_ledger_empty`).**  After any operation sequence, freeing every handle that is
still live leaves no live handle and an empty ledger: everything a handle owned is released. -/
theorem free_all_ledger_empty (N : Num V F B) (ops : List (Op V B)) :
    let st := (run N init ops).1
    let st' := (run N st (freeAll (V := V) (B := B) st.live.length st.live)).1
    st'.live = [] ∧ st'.ledger = [] := by
  intro st st'
  have hinv : LedgerInv st := ledger_inv N ops
  have hinv' : LedgerInv st' := by
    suffices ∀ (l : List (Op V B)) (s : St F), LedgerInv s → LedgerInv (run N s l).1 from this _ _ hinv
    intro l
    induction l with
    | nil => intro s h; exact h
    | cons op l ih => intro s h; exact ih _ (ledgerInv_step N s op h)
  have hlive : st'.live = [] := run_freeAll N st.live.length st (le_refl _)
  exact ⟨hlive, ledger_empty_of_no_live st' hinv' hlive⟩

/-! ### Non-vacuity: a concrete two-handle history with interleaving -/

/-- toy numerics: the "factorization" of a matrix is its `values` field, solving adds it to b -/
def toyNum : Num Nat Nat Nat := { factor := fun A => (A.values, 0), solve := fun f b => f + b }
def toyA (v : Nat) : FMat Nat := { n := 1, colptr := #[1, 2], rowind := #[1], values := v }

example :
    (run toyNum init [Op.factor (toyA 10), Op.factor (toyA 20), Op.solve 0 1, Op.free 0, Op.solve 1 2,
      Op.solve 0 3, Op.free 1]).2.map (fun o => match o with
        | Out.factored h i _ => (0, h, i) | Out.solved b => (1, b, 0) | Out.freed => (2, 0, 0) | Out.err => (3, 0, 0))
    = [(0, 0, 0), (0, 1, 0), (1, 11, 0), (2, 0, 0), (1, 22, 0), (3, 0, 0), (2, 0, 0)] := by
  decide

example : (run toyNum init [Op.factor (toyA 10), Op.factor (toyA 20), Op.solve 0 1]).1.ledger.length = 32 := by
  decide

end Slu.Bridge
