import Slu.Model.Order
import SluProofs.Lemmas.Order
import SluProofs.Lemmas.EtreeDef
import SluProofs.Lemmas.Relax
import SluProofs.Lemmas.HeapRelax
import SluProofs.Lemmas.PostorderNR
/-
C10 — Column orderings are permutations; elimination tree exact and postordered.

Theorems about the model `Slu.Order` (compared with get_perm_c.c / sp_coletree.c / sp_preorder.c for
exact equality on every run).  All statements hold for every size and every pattern — no bound on m,
n, no well-formedness assumption on the row indices unless stated.  `mmd.c` / `colamd.c` are oracles:
their output enters `spPreorder_perm` through the hypothesis `isPerm A.n p`, which the driver evaluates
on every run with the executable checker `isPerm`, sound and complete by `isPerm_iff_bijective`.

`coletree_eq_def` (Liu's algorithm with the concrete union-find and path halving = the elimination game on
the graph of AᵀA) is proved at the end of the file, with the correctness of `find`/`link`
(`find_correct`, `link_correct`), the characterisation of Liu's output for arbitrary lists
(`liu_least`) and the symmetric variants (`symetree_eq_def`, `coletree_eq_symetree_ata`).

Relaxed supernodes.  `relaxSnode_ranges` (relax_snode.c, postordered forest: the tree `sp_preorder` returns
unless SymmetricMode, `spPreorder_subtrees`) and `heapRelaxSnode_ranges` (heap_relax_snode.c, ANY heap-ordered
forest: the tree `sp_preorder` returns in SymmetricMode; lemmas in Lemmas/HeapRelax.lean): every recorded
supernode `s..e` is exactly the subtree of `e` in the caller's labels, small, pairwise disjoint from the others,
and every leaf is covered.  For heap_relax_snode in addition: a supernode of several columns is a MAXIMAL small
subtree, and conversely every maximal small subtree whose vertices are consecutive columns is recorded — with
the other clauses this determines `relax_end` completely (a maximal small subtree that is not consecutive
contributes its leaves as supernodes of one column) — and the returned `descendants` (postorder labels) are
the true descendant counts, `descendants[post v] = (descendants n et)[v]`.  What the model does not contain
(so no theorem speaks about it): the routine temporarily overwrites the caller's `et[]` with the relabelled
tree and restores it at the end, and it allocates and frees `post`/`iwork`; both are tied by the exact
comparison of `et` before/after and of the outputs (family `order`) and by the allocation ledger (C19).
-/
namespace Slu.Order

/-- **Checker soundness and completeness.**  `isPerm n p` holds exactly when `p` has length `n` and
`i ↦ p[i]` is a bijection of `{0..n-1}`. -/
theorem isPerm_iff_bijective (n : Nat) (p : Array Nat) :
    isPerm n p = true ↔
      p.size = n ∧ (∀ i < n, p.getD i 0 < n) ∧
      (∀ i < n, ∀ j < n, p.getD i 0 = p.getD j 0 → i = j) ∧ (∀ v < n, ∃ i < n, p.getD i 0 = v) :=
  isPerm_iff n p

/-- **Structure of AᵀA** (get_perm_c.c:getata).  For every pattern: the result is an n-column compressed
matrix with consistent pointers, no column holds a duplicate, and row `i` is present in column `j` iff
`i ≠ j` and columns `i` and `j` of A share a row. -/
theorem getata_spec (A : Pat) :
    (getata A).n = A.n ∧ (getata A).colptr.size = A.n + 1 ∧ (getata A).colptr.getD 0 0 = 0 ∧
    (∀ j < A.n, (getata A).colptr.getD (j + 1) 0 = (getata A).colptr.getD j 0 + ((getata A).col j).length) ∧
    (getata A).colptr.getD A.n 0 = (getata A).rowind.size ∧
    (∀ j < A.n, ((getata A).col j).Nodup) ∧
    (∀ j < A.n, ∀ i, i ∈ (getata A).col j ↔ i ≠ j ∧ i < A.n ∧ ∃ k, k ∈ A.col i ∧ k ∈ A.col j) := by
  have hlen : ((List.range A.n).map (ataCol A.n A.col)).length = A.n := by simp
  obtain ⟨h1, h2, h3, h4⟩ := ofCols_wf A.n ((List.range A.n).map (ataCol A.n A.col))
  rw [hlen] at h1 h3 h4
  refine ⟨by simp [getata, ofCols], h1, h2, h3, h4, ?_, ?_⟩
  · intro j hj; rw [getata_col A j hj]; exact nodup_dedupFrom _ _
  · intro j hj i; rw [getata_col A j hj]; exact mem_ataCol _ _ _ _

/-- **Structure of Aᵀ+A** (get_perm_c.c:at_plus_a).  Row `i` is present in column `j` iff `i ≠ j` and
`a_ij` or `a_ji` is stored; no duplicates; consistent pointers. -/
theorem atPlusA_spec (A : Pat) :
    (atPlusA A).n = A.n ∧ (atPlusA A).colptr.size = A.n + 1 ∧ (atPlusA A).colptr.getD 0 0 = 0 ∧
    (∀ j < A.n, (atPlusA A).colptr.getD (j + 1) 0 = (atPlusA A).colptr.getD j 0 + ((atPlusA A).col j).length) ∧
    (atPlusA A).colptr.getD A.n 0 = (atPlusA A).rowind.size ∧
    (∀ j < A.n, ((atPlusA A).col j).Nodup) ∧
    (∀ j < A.n, ∀ i, i ∈ (atPlusA A).col j ↔ i ≠ j ∧ (i ∈ A.col j ∨ (i < A.n ∧ j ∈ A.col i))) := by
  have hlen : ((List.range A.n).map (apaCol A.n A.col)).length = A.n := by simp
  obtain ⟨h1, h2, h3, h4⟩ := ofCols_wf A.n ((List.range A.n).map (apaCol A.n A.col))
  rw [hlen] at h1 h3 h4
  refine ⟨by simp [atPlusA, ofCols], h1, h2, h3, h4, ?_, ?_⟩
  · intro j hj; rw [atPlusA_col A j hj]; exact nodup_dedupFrom _ _
  · intro j hj i; rw [atPlusA_col A j hj]; exact mem_apaCol _ _ _ _

/-- **Heap order of the column elimination tree** (sp_coletree.c).  Whatever the pattern (and whatever
`find` returns), every parent pointer produced by Liu's algorithm is the root marker `nc` or a larger
column index. -/
theorem coletree_heap (nr nc : Nat) (col : Nat → List Nat) :
    (coletree nr nc col).size = nc ∧ Heap nc (coletree nr nc col) := by
  unfold coletree
  exact liu_heap nc _

/-- same for the symmetric tree -/
theorem symetree_heap (n : Nat) (col : Nat → List Nat) :
    (symetree n col).size = n ∧ Heap n (symetree n col) := liu_heap n _

/-- **Postorder** (sp_coletree.c:TreePostorder).  On every heap-ordered forest with root marker `n`:
`post` has `n+1` entries with `post[n] = n`, is a permutation (of `0..n` and, restricted, of `0..n-1`),
every parent is numbered after its child, and the descendants of every vertex occupy a block of
consecutive numbers that ends at the vertex. -/
theorem treePostorder_spec (n : Nat) (parent : Array Nat) (h : Heap n parent) :
    (treePostorder n parent).size = n + 1 ∧ (treePostorder n parent).getD n 0 = n ∧
    isPerm (n + 1) (treePostorder n parent) = true ∧
    isPerm n (firstN n (treePostorder n parent)) = true ∧
    (∀ v < n, (treePostorder n parent).getD v 0 < (treePostorder n parent).getD (parent.getD v 0) 0) ∧
    (∀ v ≤ n, ∃ lo, ∀ u ≤ n, Desc n parent u v ↔
      lo ≤ (treePostorder n parent).getD u 0 ∧
      (treePostorder n parent).getD u 0 ≤ (treePostorder n parent).getD v 0) := by
  refine ⟨treePostorder_size n parent, post_root h, ?_, ?_, post_parent h, post_subtree h⟩
  · exact isPerm_of_injective _ _ (treePostorder_size n parent)
      (fun i hi => post_lt h i (Nat.le_of_lt_succ hi))
      (fun i hi j hj e => post_inj h i j (Nat.le_of_lt_succ hi) (Nat.le_of_lt_succ hj) e)
  · refine isPerm_of_injective _ _ (firstN_size _ _) ?_ ?_
    · intro i hi
      rw [firstN_getD _ _ _ hi]
      have h1 := post_lt h i (Nat.le_of_lt hi)
      have h2 : (treePostorder n parent).getD i 0 ≠ n := by
        intro e
        have := post_inj h i n (Nat.le_of_lt hi) (Nat.le_refl _) (by rw [e, post_root h])
        omega
      omega
    · intro i hi j hj e
      rw [firstN_getD _ _ _ hi, firstN_getD _ _ _ hj] at e
      exact post_inj h i j (Nat.le_of_lt hi) (Nat.le_of_lt hj) e

/-- **sp_preorder** (sp_preorder.c).  For every pattern `A`, every input ordering `p` that is a
permutation (checked per run for MMD/COLAMD by `isPerm`) and both settings of SymmetricMode, with
`post = postOf A p sym` (the postorder of the column elimination tree of `A·Pc`, or the identity in
SymmetricMode):  the returned `perm_c` is a permutation and equals `post ∘ p`;  `post` is a permutation of
`0..n-1` with `post[n] = n`;  the permuted view lists exactly A's columns, `AC.col (perm_c i) = A.col i`;
the returned tree is the relabelled tree, `etree'[post j] = post[etree j]`;  and in the returned tree
every parent index exceeds its child's (or is the root marker `n`). -/
theorem spPreorder_perm (A : Pat) (p : Array Nat) (sym : Bool) (hp : isPerm A.n p = true) :
    isPerm A.n (spPreorder A p sym).permc = true ∧
    isPerm A.n (firstN A.n (postOf A p sym)) = true ∧ (postOf A p sym).getD A.n 0 = A.n ∧
    (∀ i < A.n, (spPreorder A p sym).permc.getD i 0 = (postOf A p sym).getD (p.getD i 0) 0) ∧
    (∀ i < A.n, ((spPreorder A p sym).view A).col ((spPreorder A p sym).permc.getD i 0) = A.col i) ∧
    (spPreorder A p sym).etree.size = A.n ∧
    (∀ j < A.n, (spPreorder A p sym).etree.getD ((postOf A p sym).getD j 0) 0 =
        (postOf A p sym).getD ((coletree A.m A.n (permView A p).col).getD j 0) 0) ∧
    Heap A.n (spPreorder A p sym).etree := by
  obtain ⟨hps, hplt, hpinj, _⟩ := (isPerm_iff A.n p).mp hp
  obtain ⟨hes, hheap⟩ := coletree_heap A.m A.n (permView A p).col
  cases sym with
  | true =>
    have hpost : ∀ j, j ≤ A.n → (postOf A p true).getD j 0 = j := fun j hj => by
      simp only [postOf, if_true]; exact range_getD _ _ (by omega)
    have ho : spPreorder A p true =
        { permc := p, etree := coletree A.m A.n (permView A p).col,
          colbeg := (permView A p).colbeg, colend := (permView A p).colend } := by
      simp [spPreorder]
    rw [ho]
    refine ⟨hp, ?_, hpost _ (Nat.le_refl _), ?_, ?_, hes, ?_, hheap⟩
    · refine isPerm_of_injective _ _ (firstN_size _ _) ?_ ?_
      · intro i hi; rw [firstN_getD _ _ _ hi, hpost i (Nat.le_of_lt hi)]; exact hi
      · intro i hi j hj e
        rwa [firstN_getD _ _ _ hi, firstN_getD _ _ _ hj, hpost i (Nat.le_of_lt hi), hpost j (Nat.le_of_lt hj)] at e
    · intro i hi; exact (hpost _ (Nat.le_of_lt (hplt i hi))).symm
    · intro i hi
      obtain ⟨hb, he⟩ := permView_colbeg A p hp i hi
      simp only [PreOut.view, View.col, Pat.col]
      rw [hb, he]
    · intro j hj
      have := (hheap.lt hj).2
      rw [hpost j (Nat.le_of_lt hj), hpost _ this]
  | false =>
    have hpo : postOf A p false = treePostorder A.n (coletree A.m A.n (permView A p).col) := by
      simp [postOf]
    rw [hpo]
    obtain ⟨_, hroot, _, hperm, hpar, _⟩ := treePostorder_spec A.n _ hheap
    obtain ⟨_, hqlt, hqinj, hqsurj⟩ := (isPerm_iff A.n _).mp hperm
    -- in terms of the function `pst`
    have hlt : ∀ j < A.n, (treePostorder A.n (coletree A.m A.n (permView A p).col)).getD j 0 < A.n :=
      fun j hj => by have := hqlt j hj; rwa [firstN_getD _ _ _ hj] at this
    have hinj : ∀ i < A.n, ∀ j < A.n,
        (treePostorder A.n (coletree A.m A.n (permView A p).col)).getD i 0 =
        (treePostorder A.n (coletree A.m A.n (permView A p).col)).getD j 0 → i = j :=
      fun i hi j hj e => hqinj i hi j hj (by rwa [firstN_getD _ _ _ hi, firstN_getD _ _ _ hj])
    have hpc : ∀ i < A.n, (spPreorder A p false).permc.getD i 0 =
        (treePostorder A.n (coletree A.m A.n (permView A p).col)).getD (p.getD i 0) 0 := by
      intro i hi
      simp only [spPreorder, Bool.false_eq_true, if_false]
      rw [firstN_getD _ _ _ hi, toArray_getD, List.getD_eq_getElem?_getD, List.getElem?_map,
        List.getElem?_range hi]
      rfl
    have hcb : ∀ j < A.n, (spPreorder A p false).colbeg.getD
        ((treePostorder A.n (coletree A.m A.n (permView A p).col)).getD j 0) 0 = (permView A p).colbeg.getD j 0 := by
      intro j hj
      simp only [spPreorder, Bool.false_eq_true, if_false]
      exact relabel_getD A.n _ _ hlt hinj j hj
    have hce : ∀ j < A.n, (spPreorder A p false).colend.getD
        ((treePostorder A.n (coletree A.m A.n (permView A p).col)).getD j 0) 0 = (permView A p).colend.getD j 0 := by
      intro j hj
      simp only [spPreorder, Bool.false_eq_true, if_false]
      exact relabel_getD A.n _ _ hlt hinj j hj
    have het : ∀ j < A.n, (spPreorder A p false).etree.getD
        ((treePostorder A.n (coletree A.m A.n (permView A p).col)).getD j 0) 0 =
        (treePostorder A.n (coletree A.m A.n (permView A p).col)).getD
          ((coletree A.m A.n (permView A p).col).getD j 0) 0 := by
      intro j hj
      simp only [spPreorder, Bool.false_eq_true, if_false]
      exact relabel_getD A.n _ _ hlt hinj j hj
    refine ⟨?_, hperm, hroot, hpc, ?_, ?_, het, ?_⟩
    · refine isPerm_of_injective _ _ ?_ ?_ ?_
      · simp [spPreorder, firstN_size]
      · intro i hi; rw [hpc i hi]; exact hlt _ (hplt i hi)
      · intro i hi j hj e
        rw [hpc i hi, hpc j hj] at e
        exact hpinj i hi j hj (hinj _ (hplt i hi) _ (hplt j hj) e)
    · intro i hi
      obtain ⟨hb, he⟩ := permView_colbeg A p hp i hi
      simp only [PreOut.view, View.col, Pat.col]
      rw [hpc i hi, hcb _ (hplt i hi), hce _ (hplt i hi), hb, he]
    · simp [spPreorder, firstN_size]
    · intro k hk
      obtain ⟨j, hj, hjk⟩ := hqsurj k hk
      rw [firstN_getD _ _ _ hj] at hjk
      unfold Heap at hheap
      rw [← hjk, het j hj]
      rcases hheap j hj with e | ⟨e1, e2⟩
      · left; rw [e]; exact hroot
      · right
        have := hpar j hj
        exact ⟨this, hlt _ e2⟩


/-- **sp_preorder, postordered tree.**  Unless SymmetricMode, in the returned tree the descendants of every
vertex `v` are exactly the indices of a block `lo..v`. -/
theorem spPreorder_subtrees (A : Pat) (p : Array Nat) (hp : isPerm A.n p = true) :
    ∀ v < A.n, ∃ lo, ∀ u < A.n, Desc A.n (spPreorder A p false).etree u v ↔ lo ≤ u ∧ u ≤ v := by
  obtain ⟨_, hperm, hroot, _, _, _, hrel, _⟩ := spPreorder_perm A p false hp
  obtain ⟨_, hheap⟩ := coletree_heap A.m A.n (permView A p).col
  have hpo : postOf A p false = treePostorder A.n (coletree A.m A.n (permView A p).col) := by
    simp [postOf]
  rw [hpo] at hperm hroot hrel
  obtain ⟨_, hqlt, _, hqsurj⟩ := (isPerm_iff A.n _).mp hperm
  have hlt : ∀ j < A.n, (treePostorder A.n (coletree A.m A.n (permView A p).col)).getD j 0 < A.n :=
    fun j hj => by have := hqlt j hj; rwa [firstN_getD _ _ _ hj] at this
  intro v hv
  obtain ⟨j, hj, hjv⟩ := hqsurj v hv
  rw [firstN_getD _ _ _ hj] at hjv
  obtain ⟨lo, hlo⟩ := post_subtree hheap j (Nat.le_of_lt hj)
  refine ⟨lo, fun u hu => ?_⟩
  obtain ⟨i, hi, hiu⟩ := hqsurj u hu
  rw [firstN_getD _ _ _ hi] at hiu
  rw [← hiu, ← hjv, ← hlo i (Nat.le_of_lt hi)]
  constructor
  · intro hd
    obtain ⟨b, hb, hqb, hdb⟩ := desc_unrelabel (q := fun k => (treePostorder A.n (coletree A.m A.n (permView A p).col)).getD k 0)
      hheap hroot (fun a ha b hb e => post_inj hheap a b ha hb e) hrel hd i (Nat.le_of_lt hi) rfl
    have : b = j := post_inj hheap b j hb (Nat.le_of_lt hj) hqb
    exact this ▸ hdb
  · intro hd
    exact desc_relabel (q := fun k => (treePostorder A.n (coletree A.m A.n (permView A p).col)).getD k 0) hlt hrel hd


/-- **relax_snode on a postordered forest** (relax_snode.c; the tree `sp_preorder` returns unless
SymmetricMode is such a forest, `spPreorder_subtrees`).  For every heap-ordered forest in which the
descendants of every vertex `v` are the indices of a block `lo..v`, and every `relax`:
* the `descendants` array of the first loop holds the true number of proper descendants, `v - lo`;
* `relax_end` has `n` entries; an entry is EMPTY (-1) or the last column `e ≥ s` of a supernode starting
  at `s`, and then the columns `s..e` are EXACTLY the subtree of `e` (every relaxed supernode is a whole
  subtree), which has fewer than `relax` proper descendants when it has more than one column; no other
  supernode starts inside `(s, e]`, so the supernodes are pairwise disjoint;
* every leaf lies in one of the recorded supernodes. -/
theorem relaxSnode_ranges (n relax : Nat) (et : Array Nat) (h : Heap n et)
    (hpost : ∀ v < n, ∃ lo, ∀ u < n, Desc n et u v ↔ lo ≤ u ∧ u ≤ v) :
    (relaxSnode n relax et).2.size = n ∧
    (∀ v < n, ∀ lo, (∀ u < n, Desc n et u v ↔ lo ≤ u ∧ u ≤ v) → (relaxSnode n relax et).1.getD v 0 = v - lo) ∧
    (∀ s < n, (relaxSnode n relax et).2.getD s (-1) = -1 ∨
      ∃ e : Nat, (relaxSnode n relax et).2.getD s (-1) = Int.ofNat e ∧ s ≤ e ∧ e < n ∧
        (∀ u < n, Desc n et u e ↔ s ≤ u ∧ u ≤ e) ∧ (s < e → e - s < relax) ∧
        ∀ t, s < t → t ≤ e → (relaxSnode n relax et).2.getD t (-1) = -1) ∧
    (∀ k < n, (∀ u < n, Desc n et u k → u = k) →
      ∃ s e : Nat, s ≤ k ∧ k ≤ e ∧ (relaxSnode n relax et).2.getD s (-1) = Int.ofNat e) := by
  -- a function giving the first vertex of every subtree
  have hpost' : ∀ v, ∃ lo, v < n → ∀ u < n, Desc n et u v ↔ lo ≤ u ∧ u ≤ v := by
    intro v
    by_cases hv : v < n
    · obtain ⟨lo, hlo⟩ := hpost v hv; exact ⟨lo, fun _ => hlo⟩
    · exact ⟨0, fun hc => absurd hc hv⟩
  choose lo hlo using hpost'
  have hp : PostBy n et lo := fun v hv u hu => hlo v hv u hu
  have hdesc : ∀ v, v < n → (descendants n et).getD v 0 = v - lo v := fun v hv => hp.descendants h v hv
  -- `lo` is determined by the subtree
  have hlo_unique : ∀ v, v < n → ∀ lo', (∀ u < n, Desc n et u v ↔ lo' ≤ u ∧ u ≤ v) → lo' = lo v := by
    intro v hv lo' hl'
    have a1 := hp.lo_le v hv
    have a2 : lo' ≤ v := ((hl' v hv).mp (Desc.refl v)).1
    have b1 := ((hl' (lo v) (by omega)).mp ((hp v hv (lo v) (by omega)).mpr ⟨Nat.le_refl _, a1⟩)).1
    have b2 := ((hp v hv lo' (by omega)).mp ((hl' lo' (by omega)).mpr ⟨Nat.le_refl _, a2⟩)).1
    omega
  unfold relaxSnode
  simp only
  obtain ⟨j', hj', hs, hhi, hlow, _, _, hcov⟩ := relaxLoop_inv2 (relax := relax) h hp hdesc (n + 1) 0
    (Array.replicate n (-1))
    ⟨by simp, fun s _ => by
        simp only [Array.getD_eq_getD_getElem?, Array.getElem?_replicate]; split <;> rfl,
      fun s hs => by omega, fun v _ hl _ => by omega, fun h0 => by have := hp.lo_le 0 h0; omega,
      fun k hk => by omega⟩ (by omega)
  refine ⟨hs, ?_, ?_, ?_⟩
  · intro v hv lo' hl'
    rw [firstN_getD _ _ _ hv, hdesc v hv, hlo_unique v hv lo' hl']
  · intro s hsn
    rcases hlow s (by omega) with h1 | ⟨e, h1, h2, _, h4, h5, h6, h7⟩
    · exact Or.inl h1
    · right
      refine ⟨e, h1, h2, h4, ?_, ?_, h7⟩
      · intro u hu
        rw [hp e h4 u hu, h5]
      · intro hlt
        have := h6 hlt
        rw [hdesc e h4, h5] at this
        exact this
  · intro k hk hleaf
    apply hcov k (by omega) hk
    have hl := hp.lo_le k hk
    have := hleaf (lo k) (by omega) ((hp k hk (lo k) (by omega)).mpr ⟨Nat.le_refl _, hl⟩)
    exact this

/-- **heap_relax_snode on ANY heap-ordered forest** (heap_relax_snode.c; SymmetricMode: `sp_preorder` returns
the column elimination tree as computed — heap ordered, `coletree_heap`, but not postordered).  No postorder
hypothesis.  For every heap-ordered forest `et` with root marker `n` and every `relax`, with
`post = TreePostorder(et)` and `descendants n et` the number of proper descendants of every vertex
(`descendants_eq`):
* `relax_end` (indexed by the CALLER's labels) has `n` entries; an entry is EMPTY (-1) or the last column
  `e` of a supernode starting at `s ≤ e < n`, and then the columns `s..e` are EXACTLY the vertex set of the
  subtree of the caller's forest rooted at `e` — so a supernode is recorded only for a subtree that occupies
  consecutive columns of the caller (the `(l-k) == (j-snode_start)` test); a supernode of more than one
  column has fewer than `relax` proper descendants (`e - s` of them) and is maximal (`e` is a root or the
  subtree of its parent has `≥ relax` proper descendants); no other supernode starts inside `(s, e]`, so the
  supernodes are pairwise disjoint;
* conversely every maximal small subtree (a leaf, or fewer than `relax` proper descendants; root or parent
  with `≥ relax`) whose vertices are consecutive columns `s..e` of the caller IS recorded, `relax_end[s] = e`;
* every leaf of the forest lies in one of the recorded supernodes (when the maximal small subtree around
  it is not consecutive, by the two clauses above, as a supernode of one column);
* `descendants` (indexed by POSTORDER labels) has `n` entries and `descendants[post v]` is the number of
  proper descendants of `v`: it is `post v - lo` for the block `lo..post v` of postorder numbers that
  `treePostorder_spec` assigns to the subtree of `v`, and it equals the count `relax_snode`'s first loop
  computes in the caller's labels, `(descendants n et)[v]`. -/
theorem heapRelaxSnode_ranges (n relax : Nat) (et : Array Nat) (h : Heap n et) :
    (heapRelaxSnode n relax et).2.size = n ∧
    (∀ s < n, (heapRelaxSnode n relax et).2.getD s (-1) = -1 ∨
      ∃ e : Nat, (heapRelaxSnode n relax et).2.getD s (-1) = Int.ofNat e ∧ s ≤ e ∧ e < n ∧
        (∀ u < n, Desc n et u e ↔ s ≤ u ∧ u ≤ e) ∧ (s < e → e - s < relax) ∧
        (s < e → et.getD e 0 = n ∨ relax ≤ (descendants n et).getD (et.getD e 0) 0) ∧
        ∀ t, s < t → t ≤ e → (heapRelaxSnode n relax et).2.getD t (-1) = -1) ∧
    (∀ e < n, ∀ s, (∀ u < n, Desc n et u e ↔ s ≤ u ∧ u ≤ e) → (s < e → e - s < relax) →
      (et.getD e 0 = n ∨ relax ≤ (descendants n et).getD (et.getD e 0) 0) →
      (heapRelaxSnode n relax et).2.getD s (-1) = Int.ofNat e) ∧
    (∀ k < n, (∀ u < n, Desc n et u k → u = k) →
      ∃ s e : Nat, s ≤ k ∧ k ≤ e ∧ (heapRelaxSnode n relax et).2.getD s (-1) = Int.ofNat e) ∧
    (heapRelaxSnode n relax et).1.size = n ∧
    (∀ v < n, ∀ lo, (∀ u ≤ n, Desc n et u v ↔
        lo ≤ (treePostorder n et).getD u 0 ∧ (treePostorder n et).getD u 0 ≤ (treePostorder n et).getD v 0) →
      (heapRelaxSnode n relax et).1.getD ((treePostorder n et).getD v 0) 0 = (treePostorder n et).getD v 0 - lo) ∧
    (∀ v < n, (heapRelaxSnode n relax et).1.getD ((treePostorder n et).getD v 0) 0 = (descendants n et).getD v 0) := by
  obtain ⟨et', desc, iv, lo, j', C, hj', ⟨hs, _, hlow, _, _, hcov, htops⟩, hsz1, hd, hdesc⟩ :=
    heapRelaxSnode_inv n relax et h
  generalize hq : (fun j => (treePostorder n et).getD j 0) = q at C hcov hlow htops
  have hqv : ∀ j, (treePostorder n et).getD j 0 = q j := fun j => by rw [← hq]
  simp only [hqv]
  -- the counts in postorder labels are the counts of the caller's forest
  have hdq : ∀ v, v < n → desc.getD (q v) 0 = (descendants n et).getD v 0 := by
    intro v hv
    rw [hdesc _ (C.qlt v hv)]
    have h1 := descendants_eq h v hv
    have h2 := C.order_length v hv
    omega
  -- "root, or parent with many descendants" in both labellings
  have hmax : ∀ e, e < n → ((et'.getD (q e) 0 = n ∨ relax ≤ desc.getD (et'.getD (q e) 0) 0) ↔
      (et.getD e 0 = n ∨ relax ≤ (descendants n et).getD (et.getD e 0) 0)) := by
    intro e he
    rw [C.rel e he]
    rcases h e he with hp | ⟨_, hp⟩
    · rw [hp, C.qn]; simp
    · have h1 := C.qlt _ hp
      rw [hdq _ hp]
      constructor
      · rintro (c | c)
        · omega
        · exact Or.inr c
      · rintro (c | c)
        · omega
        · exact Or.inr c
  refine ⟨hs, ?_, ?_, ?_, hsz1, ?_, ?_⟩
  · intro s hsn
    rcases hlow s hsn with h1 | ⟨e, h1, h2, h3, _, h5, h6, h6', h7⟩
    · exact Or.inl h1
    · exact Or.inr ⟨e, h1, h2, h3, h5, h6, fun c => (hmax e h3).mp (h6' c), h7⟩
  · intro e he s hsub hsmall hbig
    have hqe := C.qlt e he
    have := htops (q e) hqe (by omega) ?_ ((hmax e he).mpr hbig) s (by rw [C.ivq e he]; exact hsub)
    · rwa [C.ivq e he] at this
    · have h1 := descendants_eq h e he
      rw [order_length_of_block h he hsub] at h1
      have h2 := hdq e he
      have hl := C.post.lo_le _ hqe
      by_cases hse : s < e
      · right; have := hsmall hse; omega
      · left
        have h3 := hdesc _ hqe
        have : s ≤ e := ((hsub e he).mp (Desc.refl e)).1
        omega
  · intro k hk hleaf
    have hqk := C.qlt k hk
    apply hcov k hk (by omega)
    -- a leaf of the caller's forest is a leaf of the relabelled forest
    have hl := C.post.lo_le _ hqk
    have hlt : lo (q k) < n := by omega
    have hd' : Desc n et (iv (lo (q k))) k :=
      (C.q_block (C.ivlt _ hlt) hk).mpr (by rw [C.qiv _ hlt]; exact ⟨Nat.le_refl _, hl⟩)
    have := congrArg q (hleaf _ (C.ivlt _ hlt) hd')
    rwa [C.qiv _ hlt] at this
  · intro v hv lo' hl'
    have hqvn := C.qlt v hv
    rw [hd _ hqvn]
    have hl := C.post.lo_le _ hqvn
    have a2 : lo' ≤ q v := ((hl' v (Nat.le_of_lt hv)).mp (Desc.refl v)).1
    have hLn : lo (q v) < n := by omega
    have hl'n : lo' < n := by omega
    have b1 : lo' ≤ lo (q v) := by
      have hd1 : Desc n et (iv (lo (q v))) v :=
        (C.q_block (C.ivlt _ hLn) hv).mpr (by rw [C.qiv _ hLn]; exact ⟨Nat.le_refl _, hl⟩)
      have := ((hl' _ (Nat.le_of_lt (C.ivlt _ hLn))).mp hd1).1
      rwa [C.qiv _ hLn] at this
    have b2 : lo (q v) ≤ lo' := by
      have hd2 : Desc n et (iv lo') v :=
        (hl' _ (Nat.le_of_lt (C.ivlt _ hl'n))).mpr (by rw [C.qiv _ hl'n]; exact ⟨Nat.le_refl _, a2⟩)
      have := ((C.q_block (C.ivlt _ hl'n) hv).mp hd2).1
      rwa [C.qiv _ hl'n] at this
    omega
  · intro v hv
    rw [hd _ (C.qlt v hv), ← hdesc _ (C.qlt v hv)]
    exact hdq v hv

/-- **relax_snode, ranges** (any heap-ordered forest, postordered or not).  On every heap-ordered forest: `relax_end` has `n` entries; an entry
is EMPTY (-1) or the last column `e` of a range `s ≤ e < n`; no range starts inside `(s, e]`, so the
recorded ranges are pairwise disjoint; a range of more than one column ends at a column whose
`descendants` count (first loop of the routine) is below `relax`. -/
theorem relaxSnode_ranges_partial (n relax : Nat) (et : Array Nat) (h : Heap n et) :
    (relaxSnode n relax et).2.size = n ∧
    ∀ s < n, (relaxSnode n relax et).2.getD s (-1) = -1 ∨
      ∃ e : Nat, (relaxSnode n relax et).2.getD s (-1) = Int.ofNat e ∧ s ≤ e ∧ e < n ∧
        (s < e → (descendants n et).getD e 0 < relax) ∧
        ∀ t, s < t → t ≤ e → (relaxSnode n relax et).2.getD t (-1) = -1 := by
  unfold relaxSnode
  simp only
  obtain ⟨j', hs, hhi, hlo⟩ := relaxLoop_inv (relax := relax) (desc := descendants n et) h (n + 1) 0
    (Array.replicate n (-1)) ⟨by simp, fun s _ => by
      simp only [Array.getD_eq_getD_getElem?, Array.getElem?_replicate]; split <;> rfl, fun s hs => by omega⟩
  refine ⟨hs, fun s hsn => ?_⟩
  by_cases hsj : s < j'
  · rcases hlo s hsj with h1 | ⟨e, h1, h2, _, h4, h6, h5⟩
    · exact Or.inl h1
    · exact Or.inr ⟨e, h1, h2, h4, h6, h5⟩
  · exact Or.inl (hhi s (by omega))


/-! ### hypotheses are satisfiable / the statements are not vacuous -/

/-- the hypotheses of `relaxSnode_ranges` hold for the tree `sp_preorder` hands to `relax_snode`
(every pattern, every permutation, SymmetricMode off): the statement is not vacuous -/
example (A : Pat) (p : Array Nat) (hp : isPerm A.n p = true) (relax : Nat) :
    (relaxSnode A.n relax (spPreorder A p false).etree).2.size = A.n :=
  (relaxSnode_ranges A.n relax (spPreorder A p false).etree (spPreorder_perm A p false hp).2.2.2.2.2.2.2
    (spPreorder_subtrees A p hp)).1

/-! non-vacuity of `heapRelaxSnode_ranges`: heap-ordered forests that are NOT postordered.

`hxA` = parents `[3,4,5,4,5]`, root marker 5: the chains 0→3→4, 1→4 and the isolated root 2.  The subtree of 4
is `{0,1,3,4}`: not consecutive (2 is missing).  `hxB` = parents `[1,6,4,5,5,6]`: 0→1, 2→4→5, 3→5; the subtree
of 4 is `{2,4}` (not consecutive), the subtrees of 1 and 5 are `{0,1}` and `{2,3,4,5}` (consecutive). -/
def hxA : Array Nat := #[3, 4, 5, 4, 5]
def hxB : Array Nat := #[1, 6, 4, 5, 5, 6]

theorem hxA_heap : Heap 5 hxA := by unfold Heap; decide
theorem hxB_heap : Heap 6 hxB := by unfold Heap; decide

/-- neither is postordered: in `hxA` 2 lies between 1 and 4 but is no descendant of 4; in `hxB` 3 lies between
2 and 4 but is no descendant of 4 -/
example : ¬ ∀ v < 5, ∃ lo, ∀ u < 5, Desc 5 hxA u v ↔ lo ≤ u ∧ u ≤ v := by
  intro hp
  obtain ⟨lo, hlo⟩ := hp 4 (by decide)
  have h1 : Desc 5 hxA 1 4 := Desc.step (by decide) (Desc.refl _)
  have h2 := (hlo 2 (by decide)).mpr ⟨by have := ((hlo 1 (by decide)).mp h1).1; omega, by decide⟩
  cases h2 with
  | step _ h3 => exact absurd (desc_le_of_heap hxA_heap h3) (by decide)
example : ¬ ∀ v < 6, ∃ lo, ∀ u < 6, Desc 6 hxB u v ↔ lo ≤ u ∧ u ≤ v := by
  intro hp
  obtain ⟨lo, hlo⟩ := hp 4 (by decide)
  have h1 : Desc 6 hxB 2 4 := Desc.step (by decide) (Desc.refl _)
  have h2 := (hlo 3 (by decide)).mpr ⟨by have := ((hlo 2 (by decide)).mp h1).1; omega, by decide⟩
  cases h2 with
  | step _ h3 => exact absurd (desc_le_of_heap hxB_heap h3) (by decide)

/-- `hxA`, `relax = 5`: the postorder is `2,1,0,3,4`; the climb from the leaf 1 (postorder label 1) reaches the
root 4 with 3 < 5 descendants, block of postorder labels `1..4` = callers' columns `{1,0,3,4}`: `l - k = 4 ≠ 3`,
the contiguity test FAILS and the leaves 0 and 1 are recorded as supernodes of one column.  (`relax_snode`,
which assumes a postordered tree, would record the range `0..4`, which contains the foreign column 2.) -/
example : treePostorder 5 hxA = #[2, 1, 0, 3, 4, 5] := by decide +kernel
example : heapRelaxSnode 5 5 hxA = (#[0, 0, 0, 1, 3], #[0, 1, 2, -1, -1]) := by decide +kernel
example : (relaxSnode 5 5 hxA).2 = #[4, -1, -1, -1, -1] := by decide +kernel

/-- the theorem instantiated on `hxA`: column 0 starts the supernode `0..0`, which is the whole subtree of 0,
and the leaf 1 is covered -/
example : ∃ e : Nat, (heapRelaxSnode 5 5 hxA).2.getD 0 (-1) = Int.ofNat e ∧ 0 ≤ e ∧ e < 5 ∧
    (∀ u < 5, Desc 5 hxA u e ↔ 0 ≤ u ∧ u ≤ e) ∧ (0 < e → e - 0 < 5) ∧
    (0 < e → hxA.getD e 0 = 5 ∨ 5 ≤ (descendants 5 hxA).getD (hxA.getD e 0) 0) ∧
    ∀ t, 0 < t → t ≤ e → (heapRelaxSnode 5 5 hxA).2.getD t (-1) = -1 := by
  rcases (heapRelaxSnode_ranges 5 5 hxA hxA_heap).2.1 0 (by decide) with h | h
  · exact absurd h (by decide +kernel)
  · exact h

/-- `hxB`, `relax = 2`: the subtree `{0,1}` of 1 passes the contiguity test (`relax_end[0] = 1`), the leaf 3 is
a supernode of its own, and the subtree `{2,4}` of 4 (1 < 2 descendants) fails the test, so only its leaf 2
is recorded.  `relax = 4`: the subtree `{2,3,4,5}` of 5 is small and consecutive in the caller's labels
although it is not a block that the forest's own numbering lists in postorder: `relax_end[2] = 5`. -/
example : heapRelaxSnode 6 2 hxB = (#[0, 1, 0, 0, 1, 3], #[1, -1, 2, 3, -1, -1]) := by decide +kernel
example : heapRelaxSnode 6 4 hxB = (#[0, 1, 0, 0, 1, 3], #[1, -1, 5, -1, -1, -1]) := by decide +kernel

/-- the theorem instantiated on `hxB`, `relax = 4`: the columns `2..5` are exactly the subtree of 5 -/
example : ∀ u < 6, Desc 6 hxB u 5 ↔ 2 ≤ u ∧ u ≤ 5 := by
  rcases (heapRelaxSnode_ranges 6 4 hxB hxB_heap).2.1 2 (by decide) with h | ⟨e, h1, _, _, h4, _⟩
  · exact absurd h (by decide +kernel)
  · have : e = 5 := by
      have h5 : (heapRelaxSnode 6 4 hxB).2.getD 2 (-1) = Int.ofNat 5 := by decide +kernel
      rw [h5] at h1
      exact (Int.ofNat.inj h1).symm
    subst this
    exact h4

/-- the converse clause instantiated: the subtree of 5 is `2..5` (evaluated through `order`), has 3 < 4 proper
descendants and 5 is a root, so the theorem — not an evaluation — says `relax_end[2] = 5` -/
theorem hxB_subtree5 : ∀ u < 6, Desc 6 hxB u 5 ↔ 2 ≤ u ∧ u ≤ 5 := by
  intro u hu
  rw [show Desc 6 hxB u 5 ↔ u ∈ order hxB 5 from
    ⟨mem_order_of_desc hxB_heap, desc_of_mem_order (by decide)⟩]
  revert u
  decide +kernel
example : (heapRelaxSnode 6 4 hxB).2.getD 2 (-1) = Int.ofNat 5 :=
  (heapRelaxSnode_ranges 6 4 hxB hxB_heap).2.2.1 5 (by decide) 2 hxB_subtree5 (by decide) (Or.inl (by decide))

/-- … and the stored descendant counts are those of the caller's forest read through the postorder:
`descendants[post v] = (descendants n et)[v]` for all six vertices -/
example : ∀ v < 6, (heapRelaxSnode 6 4 hxB).1.getD ((treePostorder 6 hxB).getD v 0) 0 = (descendants 6 hxB).getD v 0 :=
  (heapRelaxSnode_ranges 6 4 hxB hxB_heap).2.2.2.2.2.2

/-- a 3x3 arrow pattern: columns {0,1,2}, {0,1}, {0,2} -/
def exA : Pat := { m := 3, n := 3, colptr := #[0, 3, 5, 7], rowind := #[0, 1, 2, 0, 1, 0, 2] }

example : isPerm 3 #[2, 0, 1] = true := by decide
example : isPerm 3 #[2, 0, 0] = false := by decide
example : Heap 3 #[1, 2, 3] := by
  intro j hj
  match j, hj with
  | 0, _ => right; decide
  | 1, _ => right; decide
  | 2, _ => left; decide
example : (getata exA).col 1 = [0, 2] := by decide
example : (atPlusA exA).col 0 = [1, 2] := by decide

/-! ### Liu's algorithm = the definition of the elimination tree -/

/-- **`find` with path halving is correct** (sp_coletree.c:find).  `UF pp k rep dep` says that the entries
`< k` of `pp` form a forest (`dep` decreases strictly along `pp`) whose trees are the classes of `rep`,
the root of the tree of `i` being `rep i`.  Then `find pp i`, run with the model's fuel `pp.size`, returns
exactly `rep i`, and the array it leaves is a forest of the same size with the same classes and the
same representatives. -/
theorem find_correct (pp : Array Nat) (k : Nat) (rep dep : Nat → Nat) (h : UF pp k rep dep) (i : Nat)
    (hi : i < k) :
    (find pp i).2 = rep i ∧ rep i < k ∧ pp.getD (rep i) 0 = rep i ∧
    UF (find pp i).1 k rep dep ∧ (find pp i).1.size = pp.size := by
  obtain ⟨h1, h2, h3⟩ := find_spec h i hi
  obtain ⟨r1, r2, _⟩ := h.rep_root i hi
  exact ⟨h2, r1, r2, h1, h3⟩

/-- **`link` merges two classes** (sp_coletree.c:link, `pp[s] = t`): for two different roots `s`, `t` the
result is a forest whose classes are the old ones with those of `s` and `t` united under `t`. -/
theorem link_correct (pp : Array Nat) (k : Nat) (rep dep : Nat → Nat) (h : UF pp k rep dep) (s t : Nat)
    (hs : s < k) (ht : t < k) (hrs : rep s = s) (hrt : rep t = t) (hne : s ≠ t) :
    UF (pp.setIfInBounds s t) k (fun x => if rep x = s then t else rep x)
      (fun x => if rep x = s then dep x + dep t + 1 else dep x) :=
  UF.link h s t hs ht hrs hrt hne

/-- **What Liu's algorithm computes, any lists.**  With `a — b` whenever the smaller index is listed under
the larger one (`SE`), and `T E v i v` = "a walk from `i` to `v` whose interior vertices are all `< v`":
`parent[v]` is the least `i` in `(v, nc)` with such a walk, and `nc` when there is none. -/
theorem liu_parent_least (nc : Nat) (nbrs : Nat → List Nat) :
    (liu nc nbrs).size = nc ∧
    ∀ v, v < nc → Least (fun i => T (SE nbrs nc) v i v) nc v ((liu nc nbrs).getD v 0) :=
  liu_least nc nbrs

/-- **The elimination game computes the same thing**: on an `n`-by-`n` adjacency matrix of a symmetric
irreflexive relation `E`, `etreeOfGraph` returns for every `v` the least later vertex joined to `v` by a
walk through vertices `< v` (that is the first sub-diagonal entry of column `v` of the symbolic Cholesky
factor: the fill lemma is the invariant `DInv`). -/
theorem etreeOfGraph_parent_least (E : Nat → Nat → Prop) (hEs : ∀ a b, E a b → E b a)
    (hEi : ∀ a b, E a b → a ≠ b) (n : Nat) (g0 : Array (Array Bool)) (hsq : Sq n g0)
    (hg : ∀ i j, i < n → j < n → (adjGet g0 i j = true ↔ E i j)) :
    (etreeOfGraph n g0).size = n ∧
    ∀ v, v < n → Least (fun i => T E v i v) n v ((etreeOfGraph n g0).getD v 0) :=
  etreeOfGraph_least hEs hEi n g0 hsq hg

/-- **Liu's algorithm returns the column elimination tree** (sp_coletree.c = the definition).  For every
`nr`-by-`nc` pattern given by its columns (row indices in any order, repetitions allowed), provided the
row indices are `< nr`: the array computed by `coletree` (first-column stars, union-find with path
halving, `root[]`) is equal to `etreeDef` (elimination game on the graph of AᵀA: parent(j) = first
off-diagonal row of column j of the symbolic Cholesky factor), entry by entry, root marker `nc`
included. -/
theorem coletree_eq_def (nr nc : Nat) (col : Nat → List Nat)
    (hrow : ∀ c, c < nc → ∀ r ∈ col c, r < nr) : coletree nr nc col = etreeDef nc col :=
  coletree_eq_etreeDef nr nc col hrow

/-- the same without any hypothesis: row indices `≥ nr` are ignored by `sp_coletree` -/
theorem coletree_eq_def_all (nr nc : Nat) (col : Nat → List Nat) :
    coletree nr nc col = etreeDef nc (fun c => (col c).filter (· < nr)) :=
  coletree_eq_etreeDef_filter nr nc col

/-- the hypothesis of `coletree_eq_def` cannot be dropped: a row index `≥ nr` is invisible to `coletree` -/
example : coletree 0 2 (fun _ => [0]) ≠ etreeDef 2 (fun _ => [0]) := by decide +kernel
example : coletree 3 3 exA.col = #[1, 2, 3] ∧ etreeDef 3 exA.col = #[1, 2, 3] := by decide +kernel

/-- for a stored matrix: every stored row index `< m` is all that is needed, for every column
permutation applied by `sp_preorder` -/
theorem coletree_permView_eq_def (A : Pat) (p : Array Nat) (hrow : ∀ r ∈ A.rowind.toList, r < A.m) :
    coletree A.m A.n (permView A p).col = etreeDef A.n (permView A p).col := by
  apply coletree_eq_def
  intro c _ r hr
  apply hrow
  unfold View.col slice at hr
  exact List.mem_of_mem_drop (List.mem_of_mem_take hr)

/-- **The symmetric algorithm** (sp_coletree.c:sp_symetree) on a structurally symmetric pattern returns the
elimination tree of its graph (`symAdj`, the graph of A + Aᵀ). -/
theorem symetree_eq_def (n : Nat) (col : Nat → List Nat)
    (hsym : ∀ i j, i < n → j < n → i ∈ col j → j ∈ col i) :
    symetree n col = etreeOfGraph n (symAdj n col) :=
  symetree_eq_etreeOfGraph n col hsym

/-- **The first-column trick is correct**: `sp_coletree` on A gives the tree that `sp_symetree` gives on the
explicitly formed pattern of AᵀA (`getata`). -/
theorem coletree_eq_symetree_getata (A : Pat) (hrow : ∀ c, c < A.n → ∀ r ∈ A.col c, r < A.m) :
    coletree A.m A.n A.col = symetree A.n (getata A).col := by
  rw [coletree_eq_symetree_ata A.m A.n A.col hrow]
  unfold symetree
  apply liu_congr
  intro a b _ ha
  rw [getata_col A a ha]

example : ∀ c, c < exA.n → ∀ r ∈ exA.col c, r < exA.m := by decide
example : ∀ i, i < 3 → ∀ j, j < 3 → i ∈ (getata exA).col j → j ∈ (getata exA).col i := by decide +kernel
example : UF #[0, 0, 1] 3 (fun _ => 0) id := by
  refine ⟨by decide, ?_, ?_, ?_⟩ <;> intro i hi <;>
    (match i, hi with
     | 0, _ => decide
     | 1, _ => decide
     | 2, _ => decide)

/-! ### The postorder as executed: `nr_etdfs`, the loop form (Model/PostorderNR.lean) -/

/-- **The loop form equals the recursive form.**  `TreePostorder` as the library executes it — the push loop that
builds `first_kid/next_kid`, then `nr_etdfs` walking them with `parent[]`, one transition per evaluation of a loop
head — returns, on EVERY heap-ordered forest of any size, the array of the recursive depth-first numbering
`treePostorder` (about which `treePostorder_spec`, `spPreorder_spec`, `relaxSnode_ranges` speak), and reaches one of
its two exits within `2n + 3` loop heads. -/
theorem treePostorderNR_eq (n : Nat) (parent : Array Nat) (h : Heap n parent) :
    NR.treePostorderNR n parent = treePostorder n parent ∧ NR.finished n parent = true := by
  unfold NR.treePostorderNR NR.finished
  rw [NR.nrEtdfs_eq h (NR.buildKids_ok h)]
  refine ⟨?_, rfl⟩
  by_cases hn : n = 0
  · subst hn
    rw [← NR.writeList_order_eq_treePostorder h, order_eq]
    simp [kids, NR.writeList]
  · simp only [hn, if_false]
    exact NR.writeList_order_eq_treePostorder h

/-- **What the walk needs from its work arrays.**  `next_kid` may hold anything on entry except that the slot of the
dummy root, which `TreePostorder` never assigns, must not be -1 (the library gets 0 from `mxCallocInt`): for every such
initial content the result is the recursive numbering. -/
theorem treePostorderNR_any_work_area (n : Nat) (parent : Array Nat) (h : Heap n parent) (next0 : Array Int)
    (hs : next0.size = n + 1) (hroot : next0.getD n 0 ≠ -1) :
    (NR.nrEtdfs n parent (NR.buildKidsFrom next0 n parent)).post = treePostorder n parent := by
  rw [NR.nrEtdfs_eq h (NR.buildKidsFrom_ok next0 h hs hroot)]
  by_cases hn : n = 0
  · subst hn
    rw [← NR.writeList_order_eq_treePostorder h, order_eq]
    simp [kids, NR.writeList]
  · simp only [hn, if_false]
    exact NR.writeList_order_eq_treePostorder h

/-- ... and the condition on that slot is needed: with -1 there (what an uninitialised block may hold) the walk on the
one-vertex tree reads `parent[n]` and numbers a vertex twice. -/
theorem treePostorderNR_root_slot_needed :
    (NR.nrEtdfs 1 #[1] (NR.buildKidsFrom #[0, -1] 1 #[1])).post ≠ treePostorder 1 #[1] := by
  rw [← (treePostorderNR_eq 1 #[1] (by unfold Heap; decide)).1]; decide

example : Heap 6 #[3, 3, 6, 4, 6, 6] := by unfold Heap; decide
example : NR.treePostorderNR 6 #[3, 3, 6, 4, 6, 6] = #[1, 2, 0, 3, 4, 5, 6] := by decide

end Slu.Order
