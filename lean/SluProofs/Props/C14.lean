import Slu.Model.Kernels
import SluProofs.Lemmas.Kernels
import SluProofs.Lemmas.Gemv
import SluProofs.Lemmas.CxRat
import SluProofs.Lemmas.Trsv
import SluProofs.Lemmas.TrsvLayout
import SluProofs.Lemmas.Cblas
import Slu.Model.Lacon
import SluProofs.Lemmas.Cblas2
/-
C14 — Sparse triangular solve / multiply kernels compute the documented operation.

All theorems are in exact arithmetic over an arbitrary field `K` with a conjugation `Conj K`
(instances: `Rat`, and the Gaussian rationals `Cx Rat`, proved a field in `Lemmas/CxRat.lean`), for
ALL sizes, flags, alpha/beta, strides of y, leading dimensions and numbers of right-hand sides.

* `sp_gemv_spec`, `sp_gemv_beta_zero`, `sp_gemv_empty`, `sp_gemv_size`, `sp_gemm_spec`: about `spGemv` /
  `spGemm`, the statement-order model that the driver also runs at `Float/Float32/Cx _` and compares
  bit for bit with `sp_[sdcz]gemv/gemm`.
* `sp_trsv_spec`: about `trsvRef`, the dense reference (forward / back substitution on
  `op(decodeL)` / `op(decodeU)` with the documented meaning of `diag`).
* `sp_trsv_model`: the supernodal model `spTrsv` (the object compared with `sp_[sdcz]trsv`; it
  follows the C loops supernode by supernode) EQUALS `trsvRef`, entry by entry, on every (L, U) pair
  that passes the structural checker `Slu.Struct.wfb` (C03) — all twelve `uplo × trans × diag`
  combinations, every size, every right-hand side, singular diagonal included (both sides divide by
  the same entry).  `sp_trsv_model_spec`: hence the model itself solves `op(T) x = b`, and
  `trsvMat_triangular`: the matrix it refers to is triangular on such storage.  For `trans = C` the
  conjugation must fix 0 and 1 and be additive (`ConjOK`; true for `Rat` and `Cx Rat`, see the examples).
* `gstrs_columns_independent`, `gstrs_layout_irrelevant`, `gstrsCol_size`: about `gstrs`.
-/
namespace Slu.Kernels
open Finset

variable {K : Type} [Field K] [Conj K] [Inhabited K]

/-- **C14 (sp_trsv, dense reference).** -/
theorem sp_trsv_spec (F : LUFac K) (uplo : UpLo) (tr : Tr) (unit : Bool) (b : Array K)
    (htri : ∀ i j, i < F.L.n → j < F.L.n → (if effLower uplo tr then i < j else j < i) →
      trsvMat F uplo tr unit i j = 0)
    (hdiag : ∀ i, i < F.L.n → trsvMat F uplo tr unit i i ≠ 0) :
    (trsvRef F uplo tr unit b).size = F.L.n ∧
    ∀ i, i < F.L.n →
      ∑ j ∈ range F.L.n, trsvMat F uplo tr unit i j * (trsvRef F uplo tr unit b).getD j 0 = b.getD i 0 := by
  unfold trsvRef
  by_cases hl : effLower uplo tr = true
  · simp only [hl, if_true] at htri ⊢
    refine ⟨fwdSub_size _ _ _ _, fun i hi => ?_⟩
    rw [← Finset.sum_range_add_sum_Ico _ (show i + 1 ≤ F.L.n by omega), Finset.sum_range_succ]
    have hz : ∑ j ∈ Ico (i + 1) F.L.n, trsvMat F uplo tr unit i j *
        (fwdSub (trsvMat F uplo tr unit) (fun i => trsvMat F uplo tr unit i i) (fun i => b.getD i 0) F.L.n).getD j 0 = 0 := by
      apply Finset.sum_eq_zero
      intro j hj
      have := Finset.mem_Ico.mp hj
      rw [htri i j hi this.2 (by omega), zero_mul]
    rw [hz, add_zero]
    exact fwdSub_row _ _ _ _ i hi (hdiag i hi)
  · simp only [hl] at htri ⊢
    simp only [Bool.false_eq_true, if_false] at htri ⊢
    refine ⟨by simp [bwdSub_length], fun i hi => ?_⟩
    have hg : ∀ j, (bwdSub (trsvMat F uplo tr unit) (fun i => trsvMat F uplo tr unit i i) (fun i => b.getD i 0) F.L.n F.L.n).toArray.getD j 0 =
        (bwdSub (trsvMat F uplo tr unit) (fun i => trsvMat F uplo tr unit i i) (fun i => b.getD i 0) F.L.n F.L.n).getD j 0 := by
      intro j; simp [Array.getD_eq_getD_getElem?, List.getD_eq_getElem?_getD]
    simp only [hg]
    rw [← Finset.sum_range_add_sum_Ico _ (show i + 1 ≤ F.L.n by omega), Finset.sum_range_succ]
    have hz : ∑ j ∈ range i, trsvMat F uplo tr unit i j *
        (bwdSub (trsvMat F uplo tr unit) (fun i => trsvMat F uplo tr unit i i) (fun i => b.getD i 0) F.L.n F.L.n).getD j 0 = 0 := by
      apply Finset.sum_eq_zero
      intro j hj
      have := Finset.mem_range.mp hj
      rw [htri i j hi (by omega) this, zero_mul]
    rw [hz, zero_add]
    exact bwdSub_row (trsvMat F uplo tr unit) (fun i => trsvMat F uplo tr unit i i) (fun i => b.getD i 0) F.L.n i hi (hdiag i hi)


/-- **C14 (sp_trsv, the supernodal model is the dense reference).** For every (L, U) pair accepted by
the structural checker `wfb` (with or without the ILU relaxation) with square L, every `uplo`, `trans`,
`diag` and every right-hand side of length `n`: the supernodal forward / back substitution that follows
the loops of `sp_[sdcz]trsv` returns `n` entries and they are those of the dense reference. -/
theorem sp_trsv_model (F : LUFac K) (ilu : Bool) (uplo : UpLo) (tr : Tr) (unit : Bool) (b : Array K)
    (hwf : Slu.Struct.wfb F ilu = true) (hsq : F.L.m = F.L.n) (hconj : tr = Tr.C → ConjOK K)
    (hb : b.size = F.L.n) :
    (spTrsv F uplo tr unit b).size = F.L.n ∧
    ∀ i, i < F.L.n → (spTrsv F uplo tr unit b)[i]! = (trsvRef F uplo tr unit b)[i]! := by
  by_cases h0 : F.L.n = 0
  · exact ⟨by simp [spTrsv, h0, hb], fun i hi => by omega⟩
  · exact spTrsv_eq_ref F (layout_of_wfb F ilu h0 hsq hwf) uplo tr hconj unit b hb

/-- on storage accepted by `wfb` the matrix `sp_trsv` refers to is triangular: the first hypothesis of
`sp_trsv_spec` always holds there -/
theorem trsvMat_triangular (F : LUFac K) (ilu : Bool) (uplo : UpLo) (tr : Tr) (unit : Bool)
    (hwf : Slu.Struct.wfb F ilu = true) (hsq : F.L.m = F.L.n) (hconj : tr = Tr.C → ConjOK K) :
    ∀ i j, i < F.L.n → j < F.L.n → (if effLower uplo tr then i < j else j < i) →
      trsvMat F uplo tr unit i j = 0 := by
  intro i j hi hj h
  exact (layout_of_wfb F ilu (by omega) hsq hwf).trsvMat_tri uplo tr hconj unit i j hi hj h

/-- **C14 (sp_trsv, the model solves the system).** On storage accepted by `wfb`, with a nonzero
diagonal of the matrix referred to (automatic for `uplo = L` and for `diag = 'U'`), the supernodal
model returns the solution of `op(T) x = b`. -/
theorem sp_trsv_model_spec (F : LUFac K) (ilu : Bool) (uplo : UpLo) (tr : Tr) (unit : Bool) (b : Array K)
    (hwf : Slu.Struct.wfb F ilu = true) (hsq : F.L.m = F.L.n) (hconj : tr = Tr.C → ConjOK K)
    (hb : b.size = F.L.n) (hdiag : ∀ i, i < F.L.n → trsvMat F uplo tr unit i i ≠ 0) :
    (spTrsv F uplo tr unit b).size = F.L.n ∧
    ∀ i, i < F.L.n →
      ∑ j ∈ range F.L.n, trsvMat F uplo tr unit i j * (spTrsv F uplo tr unit b)[j]! = b[i]! := by
  obtain ⟨hs, hv⟩ := sp_trsv_model F ilu uplo tr unit b hwf hsq hconj hb
  obtain ⟨rs, rv⟩ := sp_trsv_spec F uplo tr unit b (trsvMat_triangular F ilu uplo tr unit hwf hsq hconj) hdiag
  refine ⟨hs, fun i hi => ?_⟩
  rw [getElem!_eq_getD_of_lt b i (by omega), ← rv i hi]
  apply Finset.sum_congr rfl
  intro j hj
  have hj' := mem_range.mp hj
  rw [hv j hj', getElem!_eq_getD_of_lt _ j (by omega)]

/-! ### sp_gemv -/

section gemv
variable [BEq K] [LawfulBEq K]

/-- **C14 (sp_gemv).** For every m x n column-compressed A (m, n > 0, row indices below m;
repeated entries allowed, they add up), every op in {N, T, C}, every alpha and beta (including the
`alpha = 0, beta = 1` early return, `alpha = 0`, `beta = 0` where y is never read, `beta = 1`), every
nonzero incy and any incx, the result array has the size of y, its strided entries are
`alpha * sum_j op(A)(i,j) x_j + beta * y_i`, and every other element of the y array is untouched. -/
theorem sp_gemv_spec (tr : Tr) (alpha : K) (A : CSC K) (x : Array K) (incx : Int) (beta : K) (y : Array K) (incy : Int)
    (hm : A.m ≠ 0) (hn : A.n ≠ 0) (hincy : incy ≠ 0)
    (hrows : ∀ j, j < A.n → ∀ e ∈ A.col j, e.1 < A.m)
    (hy : ∀ i, i < lenY tr A → vpos (lenY tr A) incy i < y.size) :
    (spGemv tr alpha A x incx beta y incy).size = y.size ∧
    (∀ i, i < lenY tr A → (spGemv tr alpha A x incx beta y incy)[vpos (lenY tr A) incy i]! =
        alpha * (∑ j ∈ range (lenX tr A), opEntry tr A i j * x[vpos (lenX tr A) incx j]!) +
          beta * y[vpos (lenY tr A) incy i]!) ∧
    (∀ p, (∀ i, i < lenY tr A → vpos (lenY tr A) incy i ≠ p) → (spGemv tr alpha A x incx beta y incy)[p]! = y[p]!) := by
  unfold spGemv
  have hm' : (A.m == 0) = false := by simpa using hm
  have hn' : (A.n == 0) = false := by simpa using hn
  simp only [hm', hn', Bool.false_or]
  by_cases hq : alpha = 0 ∧ beta = 1
  · obtain ⟨ha, hb⟩ := hq
    subst ha; subst hb
    simp
  · have hq' : (alpha == 0 && beta == 1) = false := by
      by_cases ha : alpha = 0
      · have hb : beta ≠ 1 := fun hb => hq ⟨ha, hb⟩
        simp [ha, hb]
      · simp [ha]
    simp only [hq', Bool.false_eq_true, if_false]
    obtain ⟨s1, v1, o1⟩ := gemvScale_spec beta (lenY tr A) incy y hincy hy
    by_cases ha : alpha = 0
    · subst ha
      simp only [beq_self_eq_true, if_true]
      refine ⟨s1, fun i hi => ?_, o1⟩
      rw [v1 i hi]; ring
    · have ha' : (alpha == 0) = false := by simpa using ha
      simp only [ha', Bool.false_eq_true, if_false]
      by_cases ht : tr = Tr.N
      · subst ht
        have hNN : (Tr.N == Tr.N) = true := rfl
        simp only [hNN, if_true]
        have hlx : lenX Tr.N A = A.n := by simp [lenX, hNN]
        have hly : lenY Tr.N A = A.m := by simp [lenY, hNN]
        obtain ⟨s2, g2⟩ := gemvN_spec alpha A x (lenX Tr.N A) incx (lenY Tr.N A) incy
          (gemvScale beta (lenY Tr.N A) incy y) A.n
        unfold gemvN
        refine ⟨by rw [s2, s1], fun i hi => ?_, fun p hp => ?_⟩
        · rw [g2 _ (by rw [s1]; exact hy i hi), v1 i hi,
            gemvN_row alpha A (fun j => x[vpos (lenX Tr.N A) incx j]!) (lenY Tr.N A) incy hincy
              (by rw [hly]; exact hrows) i hi, hlx]
          ring
        · by_cases hps : p < y.size
          · rw [g2 p (by rw [s1]; exact hps), o1 p hp]
            have : ∑ j ∈ range A.n, (((A.col j).filter (fun e => vpos (lenY Tr.N A) incy e.1 = p)).map
                (fun e => alpha * x[vpos (lenX Tr.N A) incx j]! * e.2)).sum = 0 := by
              apply Finset.sum_eq_zero
              intro j hj
              have : (A.col j).filter (fun e => vpos (lenY Tr.N A) incy e.1 = p) = [] := by
                apply List.filter_eq_nil_iff.mpr
                intro e he
                have := hp e.1 (by rw [hly]; exact hrows j (mem_range.mp hj) e he)
                simpa using this
              rw [this]; simp
            rw [this, add_zero]
          · rw [getElem!_of_size_le _ y (by rw [s2, s1]) p (by omega)]
      · have hTN : (tr == Tr.N) = false := by
          cases tr
          · exact absurd rfl ht
          · rfl
          · rfl
        simp only [hTN, Bool.false_eq_true, if_false]
        have hlx : lenX tr A = A.m := by simp [lenX, hTN]
        have hly : lenY tr A = A.n := by simp [lenY, hTN]
        unfold gemvT
        have hu := updTo_spec A.n (vpos (lenY tr A) incy)
          (fun (j : Nat) (v : K) => v + alpha * (A.col j).foldl (fun (t : K) (e : Nat × K) => t + cj tr e.2 * x[vpos (lenX tr A) incx e.1]!) 0)
          (gemvScale beta (lenY tr A) incy y)
          (fun i j hi hj hij => vpos_inj (lenY tr A) incy hincy i j (by rw [hly]; exact hi) (by rw [hly]; exact hj) hij)
          (fun i hi => by rw [s1]; exact hy i (by rw [hly]; exact hi)) A.n (le_refl _)
        unfold updTo at hu
        refine ⟨by rw [hu.1, s1], fun i hi => ?_, fun p hp => ?_⟩
        · have hi' : i < A.n := by rw [← hly]; exact hi
          have := hu.2.1 i hi'
          simp only [hi', if_true] at this
          rw [this, v1 i hi,
            gemvT_temp tr A (fun r => x[vpos (lenX tr A) incx r]!) i (hrows i hi') ht, hlx]
          ring
        · rw [hu.2.2 p (fun i hi => hp i (by rw [hly]; exact hi)), o1 p hp]

/-- when `beta = 0` the result does not depend on what y held at the strided positions ("Y need not
be set on input") -/
theorem sp_gemv_beta_zero (tr : Tr) (alpha : K) (A : CSC K) (x : Array K) (incx : Int) (y : Array K) (incy : Int)
    (hm : A.m ≠ 0) (hn : A.n ≠ 0) (hincy : incy ≠ 0)
    (hrows : ∀ j, j < A.n → ∀ e ∈ A.col j, e.1 < A.m)
    (hy : ∀ i, i < lenY tr A → vpos (lenY tr A) incy i < y.size) (i : Nat) (hi : i < lenY tr A) :
    (spGemv tr alpha A x incx 0 y incy)[vpos (lenY tr A) incy i]! =
      alpha * (∑ j ∈ range (lenX tr A), opEntry tr A i j * x[vpos (lenX tr A) incx j]!) := by
  rw [(sp_gemv_spec tr alpha A x incx 0 y incy hm hn hincy hrows hy).2.1 i hi]; ring

/-- an empty A is a quick return (as in the reference BLAS): y is returned as it is -/
theorem sp_gemv_empty (tr : Tr) (alpha : K) (A : CSC K) (x : Array K) (incx : Int) (beta : K) (y : Array K) (incy : Int)
    (h : A.m = 0 ∨ A.n = 0) : spGemv tr alpha A x incx beta y incy = y := by
  unfold spGemv
  rcases h with h | h <;> simp [h]

/-- the product never changes the length of the y array -/
theorem sp_gemv_size (tr : Tr) (alpha : K) (A : CSC K) (x : Array K) (incx : Int) (beta : K) (y : Array K)
    (hrows : ∀ j, j < A.n → ∀ e ∈ A.col j, e.1 < A.m) (hy : lenY tr A ≤ y.size) :
    (spGemv tr alpha A x incx beta y 1).size = y.size := by
  by_cases h : A.m = 0 ∨ A.n = 0
  · rw [sp_gemv_empty tr alpha A x incx beta y 1 h]
  · have hm : A.m ≠ 0 := fun hc => h (Or.inl hc)
    have hn : A.n ≠ 0 := fun hc => h (Or.inr hc)
    exact (sp_gemv_spec tr alpha A x incx beta y 1 hm hn (by decide) hrows (fun i hi => by
      have : vpos (lenY tr A) 1 i = i := by simp [vpos]
      rw [this]; omega)).1

/-- **C14 (sp_gemm, column-wise).** `sp_[sdcz]gemm` applies the matrix-vector product to every
column of B and C: entry (i, j) of the result is `alpha * sum_k op(A)(i,k) B(k,j) + beta * C(i,j)`,
for every number of columns, all leading dimensions `ldc ≥ rows of op(A)`; padding rows of C and
everything behind the last column are untouched. -/
theorem sp_gemm_spec (tr : Tr) (nc : Nat) (alpha : K) (A : CSC K) (b : Array K) (ldb : Nat) (beta : K)
    (c : Array K) (ldc : Nat) (hm : A.m ≠ 0) (hn : A.n ≠ 0)
    (hrows : ∀ j, j < A.n → ∀ e ∈ A.col j, e.1 < A.m) (hld : lenY tr A ≤ ldc) (hc : ldc * nc ≤ c.size) :
    (spGemm tr nc alpha A b ldb beta c ldc).size = c.size ∧
    (∀ j i, j < nc → i < lenY tr A → (spGemm tr nc alpha A b ldb beta c ldc)[ldc * j + i]! =
        alpha * (∑ k ∈ range (lenX tr A), opEntry tr A i k * b[ldb * j + k]!) + beta * c[ldc * j + i]!) ∧
    (∀ p, p < c.size → (ldc * nc ≤ p ∨ lenY tr A ≤ p % ldc) → (spGemm tr nc alpha A b ldb beta c ldc)[p]! = c[p]!) := by
  have hg : spGemm tr nc alpha A b ldb beta c ldc =
      gstrsTo (fun j v => spGemv tr alpha A (slice b (ldb * j) (lenX tr A)) 1 beta v 1) (lenY tr A) ldc c nc := rfl
  have hs : ∀ (j : Nat) (v : Array K), v.size = lenY tr A →
      (spGemv tr alpha A (slice b (ldb * j) (lenX tr A)) 1 beta v 1).size = lenY tr A := by
    intro j v hv
    rw [sp_gemv_size tr alpha A _ 1 beta v hrows (by omega), hv]
  -- the generic column lemma wants the size for every input; restrict through slices of the right size
  have hs' : ∀ (j : Nat) (v : Array K),
      ((fun j v => if v.size = lenY tr A then spGemv tr alpha A (slice b (ldb * j) (lenX tr A)) 1 beta v 1
        else Array.replicate (lenY tr A) default) j v).size = lenY tr A := by
    intro j v
    by_cases hv : v.size = lenY tr A
    · simp only [hv, if_true]; exact hs j v hv
    · simp [hv]
  have hg' : spGemm tr nc alpha A b ldb beta c ldc =
      gstrsTo (fun j v => if v.size = lenY tr A then spGemv tr alpha A (slice b (ldb * j) (lenX tr A)) 1 beta v 1
        else Array.replicate (lenY tr A) default) (lenY tr A) ldc c nc := by
    rw [hg]
    unfold gstrsTo
    apply List.foldl_ext
    intro B j _
    simp [slice_size]
  rw [hg']
  refine ⟨gstrsTo_size _ _ _ _ _, ?_, ?_⟩
  · intro j i hj hi
    have hpos : 0 < ldc := by omega
    have hlt : ldc * j + i < ldc * nc := by
      have : ldc * (j + 1) ≤ ldc * nc := Nat.mul_le_mul_left _ hj
      rw [Nat.mul_succ] at this; omega
    rw [gstrsTo_get _ (lenY tr A) ldc c nc hs' hld hc _ (by omega)]
    have hmod : (ldc * j + i) % ldc = i := by
      rw [Nat.mul_add_mod]; exact Nat.mod_eq_of_lt (by omega)
    have hdiv : (ldc * j + i) / ldc = j := by
      rw [Nat.mul_add_div hpos, Nat.div_eq_of_lt (by omega)]; rfl
    rw [if_pos ⟨hlt, by rw [hmod]; exact hi⟩, hmod, hdiv]
    simp only [slice_size, if_true]
    have hv : ∀ i, i < lenY tr A → vpos (lenY tr A) 1 i = i := by intro i _; simp [vpos]
    have hvx : ∀ k, vpos (lenX tr A) 1 k = k := by intro k; simp [vpos]
    have hspec := (sp_gemv_spec tr alpha A (slice b (ldb * j) (lenX tr A)) 1 beta (slice c (ldc * j) (lenY tr A)) 1
      hm hn (by decide) hrows (fun i hi => by rw [hv i hi, slice_size]; exact hi)).2.1 i hi
    rw [hv i hi] at hspec
    rw [hspec, slice_get _ _ _ _ hi]
    congr 2
    apply Finset.sum_congr rfl
    intro k hk
    rw [hvx k, slice_get _ _ _ _ (mem_range.mp hk)]
  · intro p hp hpad
    rw [gstrsTo_get _ (lenY tr A) ldc c nc hs' hld hc p hp]
    have : ¬ (p < ldc * nc ∧ p % ldc < lenY tr A) := by omega
    rw [if_neg this]

end gemv

/-! ### gstrs: columns are independent -/

omit [Field K] [Conj K] in
/-- **C14 (gstrs, independence of the right-hand sides).** For any per-column solver returning `n`
entries (in particular `gstrsCol F perm_c perm_r trans`), every `ldb ≥ n`, every `nrhs` and every
array `B` holding at least `ldb*nrhs` scalars: column `j` of the result is the solver applied to
column `j` of the ORIGINAL `B` (so it depends neither on the other columns, nor on `nrhs`, nor on the
padding rows `n..ldb-1`), and every padding row and everything behind the last column is returned
unchanged. -/
theorem gstrs_columns_independent (solve : Array K → Array K) (n ldb nrhs : Nat) (B : Array K)
    (hs : ∀ v, (solve v).size = n) (hld : n ≤ ldb) (hB : ldb * nrhs ≤ B.size) :
    (gstrs solve n ldb nrhs B).size = B.size ∧
    (∀ j i, j < nrhs → i < n → (gstrs solve n ldb nrhs B)[ldb * j + i]! = (solve (slice B (ldb * j) n))[i]!) ∧
    (∀ p, p < B.size → (ldb * nrhs ≤ p ∨ n ≤ p % ldb) → (gstrs solve n ldb nrhs B)[p]! = B[p]!) := by
  have hg : gstrs solve n ldb nrhs B = gstrsTo (fun _ => solve) n ldb B nrhs := rfl
  rw [hg]
  refine ⟨gstrsTo_size _ _ _ _ _, ?_, ?_⟩
  · intro j i hj hi
    have hpos : 0 < ldb := by omega
    have hlt : ldb * j + i < ldb * nrhs := by
      have : ldb * (j + 1) ≤ ldb * nrhs := Nat.mul_le_mul_left _ hj
      rw [Nat.mul_succ] at this; omega
    rw [gstrsTo_get (fun _ => solve) n ldb B nrhs (fun _ => hs) hld hB _ (by omega)]
    have hmod : (ldb * j + i) % ldb = i := by
      rw [Nat.mul_add_mod]; exact Nat.mod_eq_of_lt (by omega)
    have hdiv : (ldb * j + i) / ldb = j := by
      rw [Nat.mul_add_div hpos, Nat.div_eq_of_lt (by omega)]; rfl
    rw [if_pos ⟨hlt, by rw [hmod]; exact hi⟩, hmod, hdiv]
  · intro p hp hpad
    rw [gstrsTo_get (fun _ => solve) n ldb B nrhs (fun _ => hs) hld hB p hp]
    have : ¬ (p < ldb * nrhs ∧ p % ldb < n) := by omega
    rw [if_neg this]

omit [Field K] [Conj K] in
/-- two calls that pass the same right-hand side in different positions, with different leading
dimensions, different numbers of companions and different padding return the same solution -/
theorem gstrs_layout_irrelevant (solve : Array K → Array K) (n ldb ldb' nrhs nrhs' : Nat) (B B' : Array K)
    (hs : ∀ v, (solve v).size = n) (hld : n ≤ ldb) (hld' : n ≤ ldb') (hB : ldb * nrhs ≤ B.size)
    (hB' : ldb' * nrhs' ≤ B'.size) (j j' : Nat) (hj : j < nrhs) (hj' : j' < nrhs')
    (hcol : slice B (ldb * j) n = slice B' (ldb' * j') n) (i : Nat) (hi : i < n) :
    (gstrs solve n ldb nrhs B)[ldb * j + i]! = (gstrs solve n ldb' nrhs' B')[ldb' * j' + i]! := by
  rw [(gstrs_columns_independent solve n ldb nrhs B hs hld hB).2.1 j i hj hi,
    (gstrs_columns_independent solve n ldb' nrhs' B' hs hld' hB').2.1 j' i hj' hi, hcol]

/-- the modelled per-column solve always returns `n` entries, so the two theorems above apply to it -/
theorem gstrsCol_size (F : LUFac K) (permc permr : Array Nat) (tr : Tr) (b : Array K) :
    (gstrsCol F permc permr tr b).size = F.L.n := by
  unfold gstrsCol
  split <;> simp

/-! ### non-vacuity: the hypotheses are satisfiable and the theorems apply to real and complex data -/

/-- the hypotheses of `sp_trsv_spec` hold e.g. for every 1 x 1 factor with `diag = 'U'` -/
example (F : LUFac Rat) (h1 : F.L.n = 1) (uplo : UpLo) (tr : Tr) (b : Array Rat) :
    ∀ i, i < F.L.n → ∑ j ∈ range F.L.n, trsvMat F uplo tr true i j * (trsvRef F uplo tr true b).getD j 0 = b.getD i 0 :=
  (sp_trsv_spec F uplo tr true b
    (by intro i j hi hj h; rw [h1] at hi hj; split at h <;> omega)
    (by intro i _; simp [trsvMat])).2

/-- the conjugation laws hold for real and for complex data -/
example : ConjOK Rat := ⟨rfl, rfl, fun _ _ => rfl⟩
example : ConjOK (Cx Rat) :=
  ⟨Cx.conj_zero, by apply Cx.ext' <;> simp [Cx.conj_def, Cx.one_def],
   fun a b => by apply Cx.ext' <;> simp [Cx.conj_def, Cx.add_def]; ring⟩

/-- the hypotheses of `sp_trsv_model` are satisfiable: a 3 x 3 factor with one 2-column supernode and a
singleton passes the checker; the theorem applies to every flag combination and right-hand side -/
def exQ : LUFac Rat :=
  { L := { m := 3, n := 3, nsuper := 1, xsup := #[0, 2, 3], supno := #[0, 0, 1], xlsub := #[0, 3, 3, 4],
           lsub := #[0, 1, 2, 2], xlusup := #[0, 3, 6, 7], lusup := #[2, 1, 3, 4, 5, 6, 7] },
    U := { m := 3, n := 3, colptr := #[0, 0, 0, 2], rowind := #[0, 1], val := #[8, 9] },
    nnzL := 6, nnzU := 6 }
example : Slu.Struct.wfb exQ = true := by decide +kernel
example (uplo : UpLo) (tr : Tr) (unit : Bool) (b : Array Rat) (hb : b.size = 3) :
    ∀ i, i < 3 → (spTrsv exQ uplo tr unit b)[i]! = (trsvRef exQ uplo tr unit b)[i]! :=
  (sp_trsv_model exQ false uplo tr unit b (by decide +kernel) rfl (fun _ => ⟨rfl, rfl, fun _ _ => rfl⟩) hb).2

/-- complex data: the Gaussian rationals are a field with a lawful `==` -/
example (tr : Tr) (alpha beta : Cx Rat) (A : CSC (Cx Rat)) (x y : Array (Cx Rat)) (incx incy : Int)
    (hm : A.m ≠ 0) (hn : A.n ≠ 0) (hincy : incy ≠ 0) (hrows : ∀ j, j < A.n → ∀ e ∈ A.col j, e.1 < A.m)
    (hy : ∀ i, i < lenY tr A → vpos (lenY tr A) incy i < y.size) :
    (spGemv tr alpha A x incx beta y incy).size = y.size :=
  (sp_gemv_spec tr alpha A x incx beta y incy hm hn hincy hrows hy).1

example (F : LUFac (Cx Rat)) (permc permr : Array Nat) (tr : Tr) (b : Array (Cx Rat)) :
    (gstrsCol F permc permr tr b).size = F.L.n := gstrsCol_size F permc permr tr b

/-- a 1 x 1 matrix satisfies the hypotheses of `sp_gemv_spec` -/
example : ∃ A : CSC Rat, A.m ≠ 0 ∧ A.n ≠ 0 ∧ ∀ j, j < A.n → ∀ e ∈ A.col j, e.1 < A.m :=
  ⟨{ m := 1, n := 1, colptr := #[0, 1], rowind := #[0], val := #[2] }, by decide, by decide, by
    intro j hj e he
    have : j = 0 := by simp at hj; omega
    subst this
    simp [CSC.col] at he
    rw [he]; decide⟩

end Slu.Kernels

/-! ## The bundled reference BLAS (`/repo/CBLAS`, f2c) — level 1

Theorems about the bit mirrors of Slu/Model/Cblas.lean (the objects family `cblas` runs at
`Float/Float32/Cx _` and compares bit for bit with the C routines), in exact arithmetic at `Rat` /
`Cx Rat`, for ALL `n` (negative included) and ALL increments the routine accepts.  The hand-unrolled
clean-up/blocks structure (`n % 6`, `% 7`, `% 5`, `% 4`, `% 3`) is invisible (`unrolled_eq_loop`, which
uses no algebraic law and therefore also holds at `Float`); the promoted-to-double sub-expressions of
the single-precision files are the identity at `Rat`.  `StridedUpd d N inc y r val`: `r` has the size
of `y`, its strided entries are `val i`, every other position is the one of `y`.
`nrm2`: the theorems are about the `(scale, ssq)` pair the routine holds before its last statement
`norm = scale * sqrt(ssq)`: `scale >= 0`, `ssq >= 1`, `scale^2 * ssq = Σ x_i^2` (and `scale >= |x_i|`);
hence `norm = sqrt(Σ x_i^2)` for an exact square root — `sqrt` itself is trusted (libm, correctly
rounded; `fparith` compares it with Lean's). -/
namespace Slu.Cblas
open Finset

/-- **asum (real).** `dasum_`/`sasum_` in exact arithmetic: the sum of the absolute values of the
strided elements, 0 when `n <= 0` or `incx <= 0`; the blocks of six are invisible. -/
theorem asum_spec (n : Int) (x : Array Rat) (incx : Int) :
    asumR n x incx = if n ≤ 0 ∨ incx ≤ 0 then 0 else ∑ i ∈ range n.toNat, |x.getD (spos n.toNat incx i) 0| := by
  unfold asumR
  by_cases h : n ≤ 0 ∨ incx ≤ 0
  · simp [h]
  · simp only [h, if_false]
    by_cases h1 : incx = 1
    · subst h1
      simp only [ne_eq, not_true_eq_false, if_false]
      rw [unrolled_eq_loop 6]
      · simp only [up_rat, down_rat, f2cabs_rat, spos_one]
        rw [loop_add_eq_sum]; simp
      · intro t b; rfl
    · simp only [ne_eq, h1, not_false_eq_true, if_true, up_rat, down_rat, f2cabs_rat]
      rw [loop_add_eq_sum]; simp

/-- **asum (complex).** `dzasum_` and `scasum_` (different association in floating point) both
compute `Σ |re x_i| + |im x_i|`. -/
theorem asumZ_spec (n : Int) (x : Array (Cx Rat)) (incx : Int) :
    asumZ n x incx = if n ≤ 0 ∨ incx ≤ 0 then 0 else
      ∑ i ∈ range n.toNat, (|(x.getD (spos n.toNat incx i) 0).re| + |(x.getD (spos n.toNat incx i) 0).im|) := by
  unfold asumZ
  by_cases h : n ≤ 0 ∨ incx ≤ 0
  · simp [h]
  · simp only [h, if_false, dcabs1, f2cabs_rat]
    rw [loop_add_eq_sum]; simp

theorem asumC_spec (n : Int) (x : Array (Cx Rat)) (incx : Int) :
    asumC n x incx = if n ≤ 0 ∨ incx ≤ 0 then 0 else
      ∑ i ∈ range n.toNat, (|(x.getD (spos n.toNat incx i) 0).re| + |(x.getD (spos n.toNat incx i) 0).im|) := by
  unfold asumC
  by_cases h : n ≤ 0 ∨ incx ≤ 0
  · simp [h]
  · simp only [h, if_false, f2cabs_rat, up_rat, down_rat, add_assoc]
    rw [loop_add_eq_sum]; simp

/-- **iamax (real).** -/
theorem iamax_spec (n : Int) (x : Array Rat) (incx : Int) :
    (n < 1 ∨ incx ≤ 0 → iamaxR n x incx = 0) ∧
    (1 ≤ n → 0 < incx → ∃ r : Nat, iamaxR n x incx = ((r + 1 : Nat) : Int) ∧ r < n.toNat ∧
      (∀ i, i < n.toNat → |x.getD (spos n.toNat incx i) 0| ≤ |x.getD (spos n.toNat incx r) 0|) ∧
      (∀ i, i < r → |x.getD (spos n.toNat incx i) 0| < |x.getD (spos n.toNat incx r) 0|)) := by
  constructor
  · intro h; simp [iamaxR, h]
  · intro hn hinc
    have hc : ¬ (n < 1 ∨ incx ≤ 0) := by omega
    unfold iamaxR
    simp only [hc, if_false]
    by_cases h1 : n = 1
    · subst h1
      refine ⟨0, by simp, by simp, ?_, ?_⟩
      · intro i hi
        have : i = 0 := by simpa using hi
        subst this; exact le_refl _
      · intro i hi; omega
    · simp only [h1, if_false]
      obtain ⟨r, e1, e2, _, e4, e5⟩ := amaxScan_spec (fun i => |x.getD (spos n.toNat incx i) 0|) (n.toNat - 1)
      have hs : loop (n.toNat - 1) (fun (s : Int × Rat) k =>
            if f2cabs (x.getD (spos n.toNat incx (k + 1)) 0) ≤ s.2 then s
            else (((k + 2 : Nat) : Int), f2cabs (x.getD (spos n.toNat incx (k + 1)) 0))) ((1 : Int), f2cabs (x.getD 0 0))
          = amaxScan (fun i => |x.getD (spos n.toNat incx i) 0|) (n.toNat - 1) := by
        unfold amaxScan
        simp only [f2cabs_rat, spos_zero n.toNat incx (le_of_lt hinc)]
      rw [hs]
      refine ⟨r, e1, by omega, ?_, e5⟩
      intro i hi
      exact e4 i (by omega)

/-- **iamax (complex).** -/
theorem iamaxC_spec (n : Int) (x : Array (Cx Rat)) (incx : Int) :
    (n < 1 ∨ incx ≤ 0 → iamaxC n x incx = 0) ∧
    (1 ≤ n → 0 < incx → ∃ r : Nat, iamaxC n x incx = ((r + 1 : Nat) : Int) ∧ r < n.toNat ∧
      (∀ i, i < n.toNat → |(x.getD (spos n.toNat incx i) 0).re| + |(x.getD (spos n.toNat incx i) 0).im| ≤
          |(x.getD (spos n.toNat incx r) 0).re| + |(x.getD (spos n.toNat incx r) 0).im|) ∧
      (∀ i, i < r → |(x.getD (spos n.toNat incx i) 0).re| + |(x.getD (spos n.toNat incx i) 0).im| <
          |(x.getD (spos n.toNat incx r) 0).re| + |(x.getD (spos n.toNat incx r) 0).im|)) := by
  constructor
  · intro h; simp [iamaxC, h]
  · intro hn hinc
    have hc : ¬ (n < 1 ∨ incx ≤ 0) := by omega
    unfold iamaxC
    simp only [hc, if_false]
    by_cases h1 : n = 1
    · subst h1
      refine ⟨0, by simp, by simp, ?_, ?_⟩
      · intro i hi
        have : i = 0 := by simpa using hi
        subst this; exact le_refl _
      · intro i hi; omega
    · simp only [h1, if_false]
      obtain ⟨r, e1, e2, _, e4, e5⟩ := amaxScan_spec
        (fun i => |(x.getD (spos n.toNat incx i) 0).re| + |(x.getD (spos n.toNat incx i) 0).im|) (n.toNat - 1)
      have hs : loop (n.toNat - 1) (fun (s : Int × Rat) k =>
            if (cabs1W (x.getD (spos n.toNat incx (k + 1)) 0) : Rat) ≤ Widen.up s.2 then s
            else (((k + 2 : Nat) : Int), Widen.down (cabs1W (x.getD (spos n.toNat incx (k + 1)) 0) : Rat)))
            ((1 : Int), Widen.down (cabs1W (x.getD 0 0) : Rat))
          = amaxScan (fun i => |(x.getD (spos n.toNat incx i) 0).re| + |(x.getD (spos n.toNat incx i) 0).im|) (n.toNat - 1) := by
        unfold amaxScan
        simp only [cabs1W, up_rat, down_rat, f2cabs_rat, spos_zero n.toNat incx (le_of_lt hinc)]
      rw [hs]
      refine ⟨r, e1, by omega, ?_, e5⟩
      intro i hi
      exact e4 i (by omega)

/-- **dot (real).** -/
theorem dot_spec (n : Int) (x : Array Rat) (incx : Int) (y : Array Rat) (incy : Int) :
    dotR n x incx y incy = if n ≤ 0 then 0 else
      ∑ i ∈ range n.toNat, x.getD (spos n.toNat incx i) 0 * y.getD (spos n.toNat incy i) 0 := by
  unfold dotR
  by_cases h : n ≤ 0
  · simp [h]
  · simp only [h, if_false]
    by_cases h1 : incx = 1 ∧ incy = 1
    · obtain ⟨hx, hy⟩ := h1
      subst hx; subst hy
      simp only [and_self, if_true]
      rw [unrolled_eq_loop 5]
      · simp only [spos_one]
        rw [loop_add_eq_sum]; simp
      · intro t b; rfl
    · simp only [h1, if_false]
      rw [loop_add_eq_sum]; simp

/-- **dotc.** `zdotc_`/`cdotc_`: `Σ conj(x_i) * y_i` in the field of Gaussian rationals. -/
theorem dotc_spec (n : Int) (x : Array (Cx Rat)) (incx : Int) (y : Array (Cx Rat)) (incy : Int) :
    dotcC n x incx y incy = if n ≤ 0 then 0 else
      ∑ i ∈ range n.toNat, Conj.conj (x.getD (spos n.toNat incx i) 0) * y.getD (spos n.toNat incy i) 0 := by
  unfold dotcC
  by_cases h : n ≤ 0
  · simp only [h, if_true]; rfl
  · simp only [h, if_false]
    have hstep : ∀ (t : Cx Rat) (i : Nat),
        (⟨t.re + (cmulF (⟨(x.getD (spos n.toNat incx i) 0).re, -(x.getD (spos n.toNat incx i) 0).im⟩ : Cx Rat) (y.getD (spos n.toNat incy i) 0)).re,
          t.im + (cmulF (⟨(x.getD (spos n.toNat incx i) 0).re, -(x.getD (spos n.toNat incx i) 0).im⟩ : Cx Rat) (y.getD (spos n.toNat incy i) 0)).im⟩ : Cx Rat)
        = t + Conj.conj (x.getD (spos n.toNat incx i) 0) * y.getD (spos n.toNat incy i) 0 := by
      intro t i
      rw [cmulF_eq_mul]; rfl
    simp only [hstep]
    have h0 : (⟨0, 0⟩ : Cx Rat) = 0 := rfl
    rw [h0, loop_add_eq_sum]; simp

/-- **axpy (real).** for every `n > 0`, every `a` (the `a == 0` quick return included), any `incx`, any
nonzero `incy`: `y_i := y_i + a*x_i` on the strided positions, everything else unchanged. -/
theorem axpy_spec (n : Int) (a : Rat) (x : Array Rat) (incx : Int) (y : Array Rat) (incy : Int)
    (hn : 0 < n) (hincy : incy ≠ 0) (hb : ∀ i, i < n.toNat → spos n.toNat incy i < y.size) :
    StridedUpd 0 n.toNat incy y (axpyR n a x incx y incy)
      (fun i => y.getD (spos n.toNat incy i) 0 + a * x.getD (spos n.toNat incx i) 0) := by
  have key := updG_strided (0 : Rat) n.toNat incy hincy (fun i v => v + a * x.getD (spos n.toNat incx i) 0) y hb
  unfold axpyR
  have hn' : ¬ n ≤ 0 := by omega
  simp only [hn', if_false]
  by_cases ha : a = 0
  · subst ha
    have : IsZero.isZero (0 : Rat) = true := by rw [isZero_rat]; simp
    simp only [this, if_true]
    refine ⟨rfl, ?_, fun _ _ => rfl⟩
    intro i hi; simp
  · have : IsZero.isZero a = false := by rw [isZero_rat]; simp [ha]
    simp only [this, Bool.false_eq_true, if_false]
    by_cases h1 : incx = 1 ∧ incy = 1
    · obtain ⟨hx, hy⟩ := h1
      subst hx; subst hy
      simp only [and_self, if_true]
      rw [unrolled_eq_loop 4]
      · simpa only [updG, spos_one] using key
      · intro t b; rw [steps4]
    · simp only [h1, if_false]
      exact key

theorem axpy_quick (n : Int) (a : Rat) (x : Array Rat) (incx : Int) (y : Array Rat) (incy : Int) (hn : n ≤ 0) :
    axpyR n a x incx y incy = y := by simp [axpyR, hn]

theorem axpyC_spec (n : Int) (a : Cx Rat) (x : Array (Cx Rat)) (incx : Int) (y : Array (Cx Rat)) (incy : Int)
    (hn : 0 < n) (hincy : incy ≠ 0) (hb : ∀ i, i < n.toNat → spos n.toNat incy i < y.size) :
    StridedUpd 0 n.toNat incy y (axpyC n a x incx y incy)
      (fun i => y.getD (spos n.toNat incy i) 0 + a * x.getD (spos n.toNat incx i) 0) := by
  have key := updG_strided (0 : Cx Rat) n.toNat incy hincy (fun i v => v + a * x.getD (spos n.toNat incx i) 0) y hb
  unfold axpyC
  have hn' : ¬ n ≤ 0 := by omega
  simp only [hn', if_false, cabs1W_zero_iff]
  by_cases ha : a = 0
  · subst ha
    simp only [decide_true, if_true]
    refine ⟨rfl, ?_, fun _ _ => rfl⟩
    intro i hi; simp
  · simp only [ha, decide_false, Bool.false_eq_true, if_false, cmulF_eq_mul]
    exact key

/-- **scal (real).** -/
theorem scal_spec (n : Int) (a : Rat) (x : Array Rat) (incx : Int)
    (hn : 0 < n) (hinc : 0 < incx) (hb : ∀ i, i < n.toNat → spos n.toNat incx i < x.size) :
    StridedUpd 0 n.toNat incx x (scalR n a x incx) (fun i => a * x.getD (spos n.toNat incx i) 0) := by
  have key := updG_strided (0 : Rat) n.toNat incx (by omega) (fun _ v => a * v) x hb
  unfold scalR
  have hn' : ¬ (n ≤ 0 ∨ incx ≤ 0) := by omega
  simp only [hn', if_false]
  by_cases h1 : incx = 1
  · subst h1
    simp only [ne_eq, not_true_eq_false, if_false]
    rw [unrolled_eq_loop 5]
    · simpa only [updG, spos_one] using key
    · intro t b; rw [steps5]
  · simp only [ne_eq, h1, not_false_eq_true, if_true]
    exact key

theorem scal_quick (n : Int) (a : Rat) (x : Array Rat) (incx : Int) (h : n ≤ 0 ∨ incx ≤ 0) :
    scalR n a x incx = x := by simp [scalR, h]

theorem scalC_spec (n : Int) (a : Cx Rat) (x : Array (Cx Rat)) (incx : Int)
    (hn : 0 < n) (hinc : 0 < incx) (hb : ∀ i, i < n.toNat → spos n.toNat incx i < x.size) :
    StridedUpd 0 n.toNat incx x (scalC n a x incx) (fun i => a * x.getD (spos n.toNat incx i) 0) := by
  have key := updG_strided (0 : Cx Rat) n.toNat incx (by omega) (fun _ v => a * v) x hb
  unfold scalC
  have hn' : ¬ (n ≤ 0 ∨ incx ≤ 0) := by omega
  simp only [hn', if_false, cmulF_eq_mul]
  exact key

/-- **copy (real).** -/
theorem copy_spec (n : Int) (x : Array Rat) (incx : Int) (y : Array Rat) (incy : Int)
    (hn : 0 < n) (hincy : incy ≠ 0) (hb : ∀ i, i < n.toNat → spos n.toNat incy i < y.size) :
    StridedUpd 0 n.toNat incy y (copyR n x incx y incy) (fun i => x.getD (spos n.toNat incx i) 0) := by
  have key := updG_strided (0 : Rat) n.toNat incy hincy (fun i _ => x.getD (spos n.toNat incx i) 0) y hb
  unfold copyR
  have hn' : ¬ n ≤ 0 := by omega
  simp only [hn', if_false]
  by_cases h1 : incx = 1 ∧ incy = 1
  · obtain ⟨hx, hy⟩ := h1
    subst hx; subst hy
    simp only [and_self, if_true]
    rw [unrolled_eq_loop 7]
    · simpa only [updG, spos_one] using key
    · intro t b; rw [steps7]
  · simp only [h1, if_false, copyG_eq_updG]
    exact key

/-- **copy / scal / axpy (complex).** -/
theorem copyC_spec (n : Int) (x : Array (Cx Rat)) (incx : Int) (y : Array (Cx Rat)) (incy : Int)
    (hn : 0 < n) (hincy : incy ≠ 0) (hb : ∀ i, i < n.toNat → spos n.toNat incy i < y.size) :
    StridedUpd 0 n.toNat incy y (copyC n x incx y incy) (fun i => x.getD (spos n.toNat incx i) 0) := by
  have key := updG_strided (0 : Cx Rat) n.toNat incy hincy (fun i _ => x.getD (spos n.toNat incx i) 0) y hb
  unfold copyC
  have hn' : ¬ n ≤ 0 := by omega
  simp only [hn', if_false, copyG_eq_updG]
  exact key

/-- **swap (real).** nonzero increments, vectors in bounds: afterwards the strided elements of `x` are
the old strided elements of `y` and vice versa; every other position of both arrays is unchanged. -/
theorem swap_spec (n : Int) (x : Array Rat) (incx : Int) (y : Array Rat) (incy : Int)
    (hn : 0 < n) (hx : incx ≠ 0) (hy : incy ≠ 0) (hbx : ∀ i, i < n.toNat → spos n.toNat incx i < x.size)
    (hby : ∀ i, i < n.toNat → spos n.toNat incy i < y.size) :
    StridedUpd 0 n.toNat incx x (swapR n x incx y incy).1 (fun i => y.getD (spos n.toNat incy i) 0) ∧
    StridedUpd 0 n.toNat incy y (swapR n x incx y incy).2 (fun i => x.getD (spos n.toNat incx i) 0) := by
  have kx := updG_strided (0 : Rat) n.toNat incx hx (fun i _ => y.getD (spos n.toNat incy i) 0) x hbx
  have ky := updG_strided (0 : Rat) n.toNat incy hy (fun i _ => x.getD (spos n.toNat incx i) 0) y hby
  have e := swapG_eq n.toNat x incx y incy hx hy hbx hby n.toNat (le_refl _)
  unfold swapR
  have hn' : ¬ n ≤ 0 := by omega
  simp only [hn', if_false]
  by_cases h1 : incx = 1 ∧ incy = 1
  · obtain ⟨h1x, h1y⟩ := h1
    subst h1x; subst h1y
    simp only [and_self, if_true]
    rw [unrolled_eq_loop 3]
    · simp only [spos_one] at e kx ky
      have : loop n.toNat swap1 (x, y) = _ := e
      rw [this]
      simp only [spos_one]
      exact ⟨kx, ky⟩
    · intro t b; rw [steps3]
  · simp only [h1, if_false]
    unfold swapG
    rw [e]
    exact ⟨kx, ky⟩

theorem swapC_spec (n : Int) (x : Array (Cx Rat)) (incx : Int) (y : Array (Cx Rat)) (incy : Int)
    (hn : 0 < n) (hx : incx ≠ 0) (hy : incy ≠ 0) (hbx : ∀ i, i < n.toNat → spos n.toNat incx i < x.size)
    (hby : ∀ i, i < n.toNat → spos n.toNat incy i < y.size) :
    StridedUpd 0 n.toNat incx x (swapC n x incx y incy).1 (fun i => y.getD (spos n.toNat incy i) 0) ∧
    StridedUpd 0 n.toNat incy y (swapC n x incx y incy).2 (fun i => x.getD (spos n.toNat incx i) 0) := by
  have kx := updG_strided (0 : Cx Rat) n.toNat incx hx (fun i _ => y.getD (spos n.toNat incy i) 0) x hbx
  have ky := updG_strided (0 : Cx Rat) n.toNat incy hy (fun i _ => x.getD (spos n.toNat incx i) 0) y hby
  have e := swapG_eq n.toNat x incx y incy hx hy hbx hby n.toNat (le_refl _)
  unfold swapC
  have hn' : ¬ n ≤ 0 := by omega
  simp only [hn', if_false]
  unfold swapG
  rw [e]
  exact ⟨kx, ky⟩

/-- **nrm2 (real).** -/
theorem nrm2_spec (N : Nat) (x : Array Rat) (incx : Int) :
    0 ≤ (nrm2AccR N x incx).1 ∧ 1 ≤ (nrm2AccR N x incx).2 ∧
    (nrm2AccR N x incx).1 ^ 2 * (nrm2AccR N x incx).2 = ∑ i ∈ range N, (x.getD (spos N incx i) 0) ^ 2 ∧
    (∀ i, i < N → |x.getD (spos N incx i) 0| ≤ (nrm2AccR N x incx).1) :=
  ssq_loop_spec (fun i => x.getD (spos N incx i) 0) N

/-- **nrm2 (complex).** -/
theorem nrm2C_spec (N : Nat) (x : Array (Cx Rat)) (incx : Int) :
    0 ≤ (nrm2AccC N x incx).1 ∧ 1 ≤ (nrm2AccC N x incx).2 ∧
    (nrm2AccC N x incx).1 ^ 2 * (nrm2AccC N x incx).2 =
      ∑ i ∈ range N, ((x.getD (spos N incx i) 0).re ^ 2 + (x.getD (spos N incx i) 0).im ^ 2) :=
  ssq2_loop_spec (fun i => (x.getD (spos N incx i) 0).re) (fun i => (x.getD (spos N incx i) 0).im) N

/-! ### concrete instances: `n` not a multiple of the unrolling factor, negative increments -/

/-- eight elements = clean-up loop of 2 + one block of 6 -/
example : asumR (8 : Int) (#[1, -2, 3, -4, 5, -6, 7, -8] : Array Rat) 1 = 36 := by decide +kernel
/-- `incx <= 0` and `n <= 0` quick returns -/
example : asumR (3 : Int) (#[1, -2, 3] : Array Rat) (-1) = 0 := by decide +kernel
/-- seven elements (clean-up 2 + block of 5), reversed `y` -/
example : dotR (7 : Int) (#[1, 2, 3, 4, 5, 6, 7] : Array Rat) 1 (#[7, 6, 5, 4, 3, 2, 1] : Array Rat) (-1) = 140 := by
  decide +kernel
example : dotR (7 : Int) (#[1, 2, 3, 4, 5, 6, 7] : Array Rat) 1 (#[7, 6, 5, 4, 3, 2, 1] : Array Rat) 1 = 84 := by
  decide +kernel
/-- the FIRST of two elements of maximal magnitude wins -/
example : iamaxR (5 : Int) (#[1, -3, 2, 3, 0] : Array Rat) 1 = 2 := by decide +kernel
example : iamaxR (3 : Int) (#[1, 9, -3, 9, 3, 9] : Array Rat) 2 = 2 := by decide +kernel
/-- `y := y + 2 x` with `incy = -2`: the gaps of `y` stay, element 0 of `x` meets the LAST strided slot -/
example : axpyR (3 : Int) 2 (#[1, 10, 100] : Array Rat) 1 (#[0, 7, 0, 7, 0] : Array Rat) (-2) = #[200, 7, 20, 7, 2] := by
  decide +kernel
/-- the hypotheses of `axpy_spec` / `swap_spec` / `scal_spec` / `copy_spec` are satisfiable -/
example := axpy_spec 3 2 (#[1, 10, 100] : Array Rat) 1 (#[0, 7, 0, 7, 0] : Array Rat) (-2)
  (by decide) (by decide) (by decide)
example : swapR (5 : Int) (#[1, 2, 3, 4, 5] : Array Rat) 1 (#[6, 7, 8, 9, 10] : Array Rat) (-1) =
    (#[10, 9, 8, 7, 6], #[5, 4, 3, 2, 1]) := by decide +kernel
example := swap_spec 5 (#[1, 2, 3, 4, 5] : Array Rat) 1 (#[6, 7, 8, 9, 10] : Array Rat) (-1)
  (by decide) (by decide) (by decide) (by decide) (by decide)
example := scal_spec 7 3 (#[1, 2, 3, 4, 5, 6, 7] : Array Rat) 1 (by decide) (by decide) (by decide)
example := copy_spec 9 (#[1, 2, 3, 4, 5, 6, 7, 8, 9] : Array Rat) (-1) (#[0, 0, 0, 0, 0, 0, 0, 0, 0] : Array Rat) 1
  (by decide) (by decide) (by decide)
/-- `scale = 4`, `ssq = 25/16`: `4^2 * 25/16 = 3^2 + 4^2` -/
example : nrm2AccR 2 (#[3, -4] : Array Rat) (-1) = (4, 25 / 16) := by decide +kernel
/-- complex: `conj(1+2i)(3-i) + conj(-i)(2) = (1 - 7i) + 2i`, second vector reversed -/
example : dotcC (2 : Int) (#[⟨1, 2⟩, ⟨0, -1⟩] : Array (Cx Rat)) 1 (#[⟨2, 0⟩, ⟨3, -1⟩] : Array (Cx Rat)) (-1) = ⟨1, -5⟩ := by
  decide +kernel
example : asumZ (2 : Int) (#[⟨1, -2⟩, ⟨-3, 4⟩] : Array (Cx Rat)) 1 = 10 ∧
    asumC (2 : Int) (#[⟨1, -2⟩, ⟨-3, 4⟩] : Array (Cx Rat)) 1 = 10 := by decide +kernel

end Slu.Cblas

/-! ## The bundled reference BLAS — level 2: `[sdcz]gemv_`

`Slu.Cblas.gemv` (Slu/Model/Cblas2.lean) is `spGemv` on the dense column list of the column-major
array — the same loop nest as CBLAS/dgemv.c, compared bit for bit with `[sdcz]gemv_` by family
`cblas` — so `sp_gemv_spec` applies: `opA tr a lda i j` is `a[i + j*lda]` (N), `a[j + i*lda]` (T) or
its conjugate (C). -/
namespace Slu.Cblas
open Finset Slu.Kernels
section gemv
variable {K : Type} [Field K] [Conj K] [Inhabited K]
variable [BEq K] [LawfulBEq K]

/-- **gemv.** `[sdcz]gemv_` on an `m x n` column-major array with any `lda`, any nonzero `incy`, any
`incx`, every `alpha`, `beta` (quick returns and the `x_j = 0` column skip included): the strided
entries of the result are `alpha * Σ_j op(A)(i,j) x_j + beta * y_i`, every other position of `y` is
unchanged, the size is unchanged. -/
theorem gemv_spec (tr : Tr) (m n lda : Nat) (alpha beta : K) (a x y : Array K) (incx incy : Int)
    (hm : m ≠ 0) (hn : n ≠ 0) (hincy : incy ≠ 0)
    (hy : ∀ i, i < (if tr == Tr.N then m else n) → vpos (if tr == Tr.N then m else n) incy i < y.size) :
    (gemv tr m n alpha a lda x incx beta y incy).size = y.size ∧
    (∀ i, i < (if tr == Tr.N then m else n) →
      (gemv tr m n alpha a lda x incx beta y incy)[vpos (if tr == Tr.N then m else n) incy i]! =
        alpha * (∑ j ∈ range (if tr == Tr.N then n else m), opA tr a lda i j * x[vpos (if tr == Tr.N then n else m) incx j]!) +
          beta * y[vpos (if tr == Tr.N then m else n) incy i]!) ∧
    (∀ p, (∀ i, i < (if tr == Tr.N then m else n) → vpos (if tr == Tr.N then m else n) incy i ≠ p) →
      (gemv tr m n alpha a lda x incx beta y incy)[p]! = y[p]!) := by
  have hrows : ∀ j, j < (denseCSC m n lda a).n → ∀ e ∈ (denseCSC m n lda a).col j, e.1 < (denseCSC m n lda a).m := by
    intro j hj e he
    rw [dense_col m n lda a j hj] at he
    simp only [List.mem_map, List.mem_range] at he
    obtain ⟨i, hi, rfl⟩ := he
    exact hi
  obtain ⟨h1, h2, h3⟩ := sp_gemv_spec tr alpha (denseCSC m n lda a) x incx beta y incy hm hn hincy hrows hy
  have hY : lenY tr (denseCSC m n lda a) = (if tr == Tr.N then m else n) := rfl
  have hX : lenX tr (denseCSC m n lda a) = (if tr == Tr.N then n else m) := rfl
  rw [hY] at h3
  refine ⟨h1, ?_, h3⟩
  intro i hi
  have := h2 i hi
  rw [hY, hX] at this
  unfold gemv
  rw [this]
  congr 2
  apply Finset.sum_congr rfl
  intro j hj
  rw [dense_opEntry tr m n lda a i j hi (by rw [hX]; simpa using hj)]

/-- `beta = 0`: `y` is not read — the strided result does not depend on the old `y` -/
theorem gemv_beta_zero (tr : Tr) (m n lda : Nat) (alpha : K) (a x y y' : Array K) (incx incy : Int)
    (hm : m ≠ 0) (hn : n ≠ 0) (hincy : incy ≠ 0)
    (hy : ∀ i, i < (if tr == Tr.N then m else n) → vpos (if tr == Tr.N then m else n) incy i < y.size)
    (hy' : ∀ i, i < (if tr == Tr.N then m else n) → vpos (if tr == Tr.N then m else n) incy i < y'.size)
    (i : Nat) (hi : i < (if tr == Tr.N then m else n)) :
    (gemv tr m n alpha a lda x incx 0 y incy)[vpos (if tr == Tr.N then m else n) incy i]! =
      (gemv tr m n alpha a lda x incx 0 y' incy)[vpos (if tr == Tr.N then m else n) incy i]! := by
  rw [(gemv_spec tr m n lda alpha 0 a x y incx incy hm hn hincy hy).2.1 i hi,
    (gemv_spec tr m n lda alpha 0 a x y' incx incy hm hn hincy hy').2.1 i hi]
  ring

/-- `m = 0` or `n = 0`: quick return -/
theorem gemv_empty (tr : Tr) (m n lda : Nat) (alpha beta : K) (a x y : Array K) (incx incy : Int)
    (h : m = 0 ∨ n = 0) : gemv tr m n alpha a lda x incx beta y incy = y :=
  sp_gemv_empty tr alpha (denseCSC m n lda a) x incx beta y incy h


end gemv

/-- a 3 x 2 matrix with `lda = 4`, `incx = -1`, `incy = 2`: `y := 2*A*x + 3*y` -/
example : gemv Tr.N 3 2 (2 : Rat) #[1, 2, 3, 99, 4, 5, 6, 99] 4 #[10, 1] (-1) 3 #[1, 0, 1, 0, 1] 2 =
    #[85, 0, 107, 0, 129] := by decide +kernel
example : gemv Tr.T 3 2 (1 : Rat) #[1, 2, 3, 99, 4, 5, 6, 99] 4 #[1, 1, 1] 1 0 #[7, 7] (-1) = #[15, 6] := by decide +kernel
example := gemv_spec Tr.N 3 2 4 (2 : Rat) 3 #[1, 2, 3, 99, 4, 5, 6, 99] #[10, 1] #[1, 0, 1, 0, 1] (-1) 2
  (by decide) (by decide) (by decide) (by decide)

end Slu.Cblas

/-! ## Connection to the 1-norm estimator's own BLAS-1 mirrors (Slu/Model/Lacon.lean, C12)

`lacon2` was modelled "with the bundled dasum/idamax": `Lacon.asumD` (a plain left-to-right fold),
`Lacon.asumS` (blocks of six in double) and `Lacon.imaxBy`.  They are EQUAL — at `Float`/`Float32`,
no algebraic law involved — to this file's statement-order mirrors with unit increment, so the
bit comparison of family `cblas` and the theorems above cover the kernels C12 runs on. -/
namespace Slu.Cblas
open Slu

theorem f2cabs_eq_lacon_d (a : Float) : f2cabs a = Lacon.f2cAbs a := rfl
theorem f2cabs_eq_lacon_s (a : Float32) : f2cabs a = Lacon.f2cAbs a := rfl

/-- the `dasum_` mirror of the 1-norm estimator (Slu/Model/Lacon.lean, a plain left-to-right fold) IS
this file's statement-order mirror with its clean-up loop and blocks of six, at `Float` -/
theorem asumR_eq_lacon_asumD (x : Array Float) : asumR (x.size : Int) x 1 = Lacon.asumD x := by
  unfold asumR Lacon.asumD
  by_cases h : x.size = 0
  · have : x = #[] := Array.eq_empty_of_size_eq_zero h
    subst this; simp
  · have hc : ¬ (((x.size : Nat) : Int) ≤ 0 ∨ (1 : Int) ≤ 0) := by omega
    simp only [hc, if_false, ne_eq, not_true_eq_false, Int.toNat_natCast]
    rw [unrolled_eq_loop 6]
    · exact loop_getD_eq_foldl x 0 (fun acc a => acc + Lacon.f2cAbs a) 0
    · intro t b; rfl

/-- the same for `sasum_` (blocks of six accumulated in double, rounded once per block) -/
theorem asumR_eq_lacon_asumS (x : Array Float32) : asumR (x.size : Int) x 1 = Lacon.asumS x := by
  unfold asumR Lacon.asumS
  by_cases h : x.size = 0
  · have : x = #[] := Array.eq_empty_of_size_eq_zero h
    subst this; rfl
  · have hc : ¬ (((x.size : Nat) : Int) ≤ 0 ∨ (1 : Int) ≤ 0) := by omega
    simp only [hc, if_false, ne_eq, not_true_eq_false, Int.toNat_natCast]
    by_cases hq : x.size % 6 ≠ 0 ∧ x.size < 6
    · have h6 : x.size / 6 = 0 := Nat.div_eq_of_lt hq.2
      simp only [hq, not_false_eq_true, and_self, if_true]
      unfold unrolled
      rw [h6, loop_zero]
      rfl
    · have h6 : (x.size - x.size % 6) / 6 = x.size / 6 := by omega
      simp only [hq, if_false, h6]
      rfl

/-- `idamax_`/`isamax_` with unit increment is the estimator's `imaxBy` (0-based there) -/
theorem iamaxR_eq_lacon_imaxBy {R : Type} [Zero R] [Neg R] [LE R] [DecidableLE R] (x : Array R) (hx : 1 ≤ x.size) :
    iamaxR (x.size : Int) x 1 = ((Lacon.imaxBy (fun a : R => f2cabs a) 0 x : Nat) : Int) + 1 := by
  unfold iamaxR Lacon.imaxBy
  have hc : ¬ (((x.size : Nat) : Int) < 1 ∨ (1 : Int) ≤ 0) := by omega
  simp only [hc, if_false, Int.toNat_natCast, spos_one]
  by_cases h1 : x.size = 1
  · simp [h1]
  · have h1' : ¬ ((x.size : Int) = 1) := by omega
    simp only [h1', if_false]
    let G : Nat × R → Nat → Nat × R := fun bm i =>
      if f2cabs (x.getD (i + 1) 0) ≤ bm.2 then bm else (i + 1, f2cabs (x.getD (i + 1) 0))
    have key : ∀ m, (loop m (fun (s : Int × R) k =>
          if f2cabs (x.getD (k + 1) 0) ≤ s.2 then s else (((k + 2 : Nat) : Int), f2cabs (x.getD (k + 1) 0)))
          ((1 : Int), f2cabs (x.getD 0 0))) =
        (((((List.range m).foldl G (0, f2cabs (x.getD 0 0))).1 : Nat) : Int) + 1,
         ((List.range m).foldl G (0, f2cabs (x.getD 0 0))).2) := by
      intro m
      induction m with
      | zero => simp [loop_zero]
      | succ m ih =>
        rw [loop_succ, ih, List.range_succ, List.foldl_append]
        simp only [List.foldl_cons, List.foldl_nil, G]
        split
        · rfl
        · simp; omega
    rw [key]


end Slu.Cblas

/-! ## The bundled reference BLAS — level 2: `[sdcz]trsv_` (partial) -/
namespace Slu.Cblas
open Finset Slu.Kernels
section trsv
variable {K : Type} [Field K] [Conj K] [Inhabited K]
variable [BEq K]

theorem trsv_upper_trans_eq_sweep (tr : Tr) (htr : tr ≠ Tr.N) (nounit : Bool) (n lda : Nat) (a x : Array K) (incx : Int) :
    trsv true tr nounit n a lda x incx =
      sweepUT (spos n incx) (fun i j => cj tr a[i + j * lda]!) (fun j => cj tr a[j + j * lda]!) nounit x n := by
  have h : (tr == Tr.N) = false := by
    cases tr
    · exact absurd rfl htr
    · rfl
    · rfl
  unfold trsv sweepUT
  simp only [h, Bool.false_eq_true, if_false, if_true]

/-- **trsv (partial: `uplo = U`, `trans = T` or `C`, both `diag`, every `n`, `lda`, nonzero `incx`).**
The strided entries of the result solve the LOWER triangular system `op(A) r = x`
(`op(A)(j,i) = [conj] A(i,j)`, diagonal replaced by one for `diag = U`), row by row; every other position
of the array and its size are unchanged.
Full goal (`trsv_spec`, not yet proved): the same for the three remaining branches —
`uplo = L, trans = T/C` (the mirrored backward sweep, reference `bwdSub`), and `trans = N` with
`uplo = U / L` (column sweeps with the `x_j = 0` skip, which is invisible in exact arithmetic). -/
theorem trsv_spec_partial (tr : Tr) (htr : tr ≠ Tr.N) (nounit : Bool) (n lda : Nat) (a x : Array K) (incx : Int)
    (hinc : incx ≠ 0) (hb : ∀ i, i < n → spos n incx i < x.size)
    (hd : nounit = true → ∀ j, j < n → cj tr a[j + j * lda]! ≠ 0) :
    (trsv true tr nounit n a lda x incx).size = x.size ∧
    (∀ j, j < n →
      (∑ i ∈ range j, cj tr a[i + j * lda]! * (trsv true tr nounit n a lda x incx)[spos n incx i]!) +
        (if nounit then cj tr a[j + j * lda]! else 1) * (trsv true tr nounit n a lda x incx)[spos n incx j]! =
      x[spos n incx j]!) ∧
    (∀ p, (∀ i, i < n → spos n incx i ≠ p) → (trsv true tr nounit n a lda x incx)[p]! = x[p]!) := by
  rw [trsv_upper_trans_eq_sweep tr htr]
  obtain ⟨h1, h2, _, h4⟩ := sweepUT_spec n (spos n incx) (fun i j => cj tr a[i + j * lda]!)
    (fun j => cj tr a[j + j * lda]!) nounit x (fun i j hi hj h => spos_inj n incx hinc i j hi hj h) hb n (le_refl _)
  refine ⟨h1, ?_, h4⟩
  intro j hj
  have hdj : (if nounit then cj tr a[j + j * lda]! else 1) ≠ (0 : K) := by
    cases hnu : nounit
    · simp
    · simpa using hd hnu j hj
  have row := fwdSub_row (fun j i => cj tr a[i + j * lda]!) (fun j => if nounit then cj tr a[j + j * lda]! else 1)
    (fun i => x[spos n incx i]!) n j hj hdj
  rw [h2 j hj, Finset.sum_congr rfl (fun i hi => by rw [h2 i (by have := mem_range.mp hi; omega)])]
  exact row

end trsv

/-- upper triangular `[[2,1],[0,4]]` (lda = 3), `A' r = x` with `incx = -1`: logical `x = (2, 9)` -/
example : trsv true Tr.T true 2 (#[2, 0, 99, 1, 4, 99] : Array Rat) 3 #[9, 2] (-1) = #[2, 1] := by decide +kernel
example := trsv_spec_partial Tr.T (by decide) true 2 3 (#[2, 0, 99, 1, 4, 99] : Array Rat) #[9, 2] (-1)
  (by decide) (by decide) (by decide)

end Slu.Cblas

namespace Slu.Cblas
open Finset Slu.Kernels
section trsv
variable {K : Type} [Field K] [Conj K] [Inhabited K]
variable [BEq K]

theorem trsv_lower_trans_eq_sweep (tr : Tr) (htr : tr ≠ Tr.N) (nounit : Bool) (n lda : Nat) (a x : Array K) (incx : Int) :
    trsv false tr nounit n a lda x incx =
      sweepLT n (spos n incx) (fun i j => cj tr a[i + j * lda]!) (fun j => cj tr a[j + j * lda]!) nounit x n := by
  have h : (tr == Tr.N) = false := by
    cases tr
    · exact absurd rfl htr
    · rfl
    · rfl
  unfold trsv sweepLT
  simp only [h, Bool.false_eq_true, if_false]

/-- **trsv (partial, second branch: `uplo = L`, `trans = T` or `C`).**  The strided entries of the result
solve the UPPER triangular system `op(A) r = x`: for every row `j`,
`Σ_{i = j+1}^{n-1} [conj]A(i,j) r_i + d_j r_j = x_j` (the sum is written in the order the code runs:
`i = n-1-ii`, `ii < n-1-j`); every other position and the size are unchanged. -/
theorem trsv_spec_partial_lower (tr : Tr) (htr : tr ≠ Tr.N) (nounit : Bool) (n lda : Nat) (a x : Array K) (incx : Int)
    (hinc : incx ≠ 0) (hb : ∀ i, i < n → spos n incx i < x.size)
    (hd : nounit = true → ∀ j, j < n → cj tr a[j + j * lda]! ≠ 0) :
    (trsv false tr nounit n a lda x incx).size = x.size ∧
    (∀ j, j < n →
      (∑ ii ∈ range (n - 1 - j), cj tr a[(n - 1 - ii) + j * lda]! * (trsv false tr nounit n a lda x incx)[spos n incx (n - 1 - ii)]!) +
        (if nounit then cj tr a[j + j * lda]! else 1) * (trsv false tr nounit n a lda x incx)[spos n incx j]! =
      x[spos n incx j]!) ∧
    (∀ p, (∀ i, i < n → spos n incx i ≠ p) → (trsv false tr nounit n a lda x incx)[p]! = x[p]!) := by
  rw [trsv_lower_trans_eq_sweep tr htr]
  obtain ⟨h1, h2, _, h4⟩ := sweepLT_spec n (spos n incx) (fun i j => cj tr a[i + j * lda]!)
    (fun j => cj tr a[j + j * lda]!) nounit x (fun i j hi hj h => spos_inj n incx hinc i j hi hj h) hb hd n (le_refl _)
  exact ⟨h1, fun j hj => h2 j (by omega) hj, h4⟩

end trsv

/-- lower triangular `[[2,0],[1,4]]` (lda = 2), `A' r = x`, `incx = 2` -/
example : trsv false Tr.T true 2 (#[2, 1, 0, 4] : Array Rat) 2 #[5, 77, 8] 2 = #[3 / 2, 77, 2] := by decide +kernel
example := trsv_spec_partial_lower Tr.C (by decide) true 2 2 (#[2, 1, 0, 4] : Array Rat) #[5, 77, 8] 2
  (by decide) (by decide) (by decide)

end Slu.Cblas

namespace Slu.Cblas
open Finset Slu.Kernels
section trsvN
variable {K : Type} [Field K] [Inhabited K] [BEq K] [LawfulBEq K]
variable [Conj K]

omit [LawfulBEq K] in
theorem trsv_lower_notrans_eq_sweep (nounit : Bool) (n lda : Nat) (a x : Array K) (incx : Int) :
    trsv false Tr.N nounit n a lda x incx =
      loop n (colStepLN n (spos n incx) (fun i j => a[i + j * lda]!) nounit) x := by
  unfold trsv
  have h : (Tr.N == Tr.N) = true := rfl
  simp only [h, if_true, Bool.false_eq_true, if_false]
  rfl

/-- **trsv (partial, third branch: `uplo = L`, `trans = N`)** — the column sweep with the `x_j = 0`
skip: the strided entries of the result solve the lower triangular system `A r = x` row by row
(diagonal replaced by one for `diag = U`); everything else is unchanged. -/
theorem trsv_spec_partial_lower_notrans (nounit : Bool) (n lda : Nat) (a x : Array K) (incx : Int)
    (hinc : incx ≠ 0) (hb : ∀ i, i < n → spos n incx i < x.size)
    (hd : nounit = true → ∀ j, j < n → a[j + j * lda]! ≠ 0) :
    (trsv false Tr.N nounit n a lda x incx).size = x.size ∧
    (∀ i, i < n →
      (∑ j ∈ range i, a[i + j * lda]! * (trsv false Tr.N nounit n a lda x incx)[spos n incx j]!) +
        (if nounit then a[i + i * lda]! else 1) * (trsv false Tr.N nounit n a lda x incx)[spos n incx i]! =
      x[spos n incx i]!) ∧
    (∀ p, (∀ i, i < n → spos n incx i ≠ p) → (trsv false Tr.N nounit n a lda x incx)[p]! = x[p]!) := by
  rw [trsv_lower_notrans_eq_sweep]
  obtain ⟨h1, h2, _, h4⟩ := sweepLN_spec n (spos n incx) (fun i j => a[i + j * lda]!) nounit x
    (fun i j hi hj h => spos_inj n incx hinc i j hi hj h) hb n (le_refl _)
  refine ⟨h1, ?_, h4⟩
  intro i hi
  have hdi : (if nounit then a[i + i * lda]! else 1) ≠ (0 : K) := by
    cases hnu : nounit
    · simp
    · simpa using hd hnu i hi
  have row := fwdSub_row (fun i j => a[i + j * lda]!) (fun j => if nounit then a[j + j * lda]! else 1)
    (fun i => x[spos n incx i]!) n i hi hdi
  rw [h2 i hi, Finset.sum_congr rfl (fun j hj => by rw [h2 j (by have := mem_range.mp hj; omega)])]
  exact row

end trsvN

/-- lower triangular `[[2,0],[1,4]]`, `A r = x` with `x = (4, 10)` stored backwards -/
example : trsv false Tr.N true 2 (#[2, 1, 0, 4] : Array Rat) 2 #[10, 4] (-1) = #[2, 2] := by decide +kernel
example := trsv_spec_partial_lower_notrans true 2 2 (#[2, 1, 0, 4] : Array Rat) #[10, 4] (-1)
  (by decide) (by decide) (by decide)

end Slu.Cblas

namespace Slu.Cblas
open Finset Slu.Kernels
section trsvUN
variable {K : Type} [Field K] [Inhabited K] [BEq K] [LawfulBEq K] [Conj K]

omit [LawfulBEq K] in
/-- the `uplo = U, trans = N` sweep (columns `n-1 .. 0`, inner `i = j-1 .. 0`) is the `uplo = L` sweep on
the reversed indexing `i ↦ n-1-i` -/
theorem trsv_upper_notrans_eq_sweep (nounit : Bool) (n lda : Nat) (a x : Array K) (incx : Int) :
    trsv true Tr.N nounit n a lda x incx =
      loop n (colStepLN n (fun i => spos n incx (n - 1 - i)) (fun i j => a[(n - 1 - i) + (n - 1 - j) * lda]!) nounit) x := by
  unfold trsv
  have h : (Tr.N == Tr.N) = true := rfl
  simp only [h, if_true]
  apply loop_congr
  intro X jj hjj
  unfold colStepLN
  simp only []
  split
  · rfl
  · apply loop_congr
    intro Y ii hii
    have e : n - 1 - jj - 1 - ii = n - 1 - (jj + 1 + ii) := by omega
    simp only [e]

theorem trsv_spec_partial_upper_notrans (nounit : Bool) (n lda : Nat) (a x : Array K) (incx : Int)
    (hinc : incx ≠ 0) (hb : ∀ i, i < n → spos n incx i < x.size)
    (hd : nounit = true → ∀ j, j < n → a[j + j * lda]! ≠ 0) :
    (trsv true Tr.N nounit n a lda x incx).size = x.size ∧
    (∀ i, i < n →
      (∑ jj ∈ range (n - 1 - i), a[i + (n - 1 - jj) * lda]! * (trsv true Tr.N nounit n a lda x incx)[spos n incx (n - 1 - jj)]!) +
        (if nounit then a[i + i * lda]! else 1) * (trsv true Tr.N nounit n a lda x incx)[spos n incx i]! =
      x[spos n incx i]!) ∧
    (∀ p, (∀ i, i < n → spos n incx i ≠ p) → (trsv true Tr.N nounit n a lda x incx)[p]! = x[p]!) := by
  rw [trsv_upper_notrans_eq_sweep]
  obtain ⟨h1, h2, _, h4⟩ := sweepLN_spec n (fun i => spos n incx (n - 1 - i)) (fun i j => a[(n - 1 - i) + (n - 1 - j) * lda]!) nounit x
    (fun i j hi hj h => by have := spos_inj n incx hinc _ _ (by omega) (by omega) h; omega)
    (fun i hi => hb _ (by omega)) n (le_refl _)
  refine ⟨h1, ?_, ?_⟩
  · intro i hi
    have hi' : n - 1 - i < n := by omega
    have hdi : (if nounit then a[(n - 1 - (n - 1 - i)) + (n - 1 - (n - 1 - i)) * lda]! else 1) ≠ (0 : K) := by
      cases hnu : nounit
      · simp
      · have e : n - 1 - (n - 1 - i) = i := by omega
        rw [e]; simpa using hd hnu i hi
    have row := fwdSub_row (fun i j => a[(n - 1 - i) + (n - 1 - j) * lda]!)
      (fun j => if nounit then a[(n - 1 - j) + (n - 1 - j) * lda]! else 1)
      (fun i => x[spos n incx (n - 1 - i)]!) n (n - 1 - i) hi' hdi
    have e : n - 1 - (n - 1 - i) = i := by omega
    have g := h2 (n - 1 - i) hi'
    simp only [e] at g row
    rw [g, Finset.sum_congr rfl (fun jj hjj => by rw [h2 jj (by have := mem_range.mp hjj; omega)])]
    exact row
  · intro p hp
    exact h4 p (fun i hi => hp _ (by omega))

/-- **trsv, all twelve `uplo × trans × diag` combinations**: the size of the array and every position
off the stride are unchanged; the strided entries solve `op(A) r = x` row by row — the row equations
are `trsv_spec_partial` (U, T/C), `trsv_spec_partial_lower` (L, T/C),
`trsv_spec_partial_lower_notrans` (L, N), `trsv_spec_partial_upper_notrans` (U, N), which together
cover every branch of `[sdcz]trsv_`. -/
theorem trsv_spec (upper : Bool) (tr : Tr) (nounit : Bool) (n lda : Nat) (a x : Array K) (incx : Int)
    (hinc : incx ≠ 0) (hb : ∀ i, i < n → spos n incx i < x.size)
    (hd : nounit = true → ∀ j, j < n → cj tr a[j + j * lda]! ≠ 0) :
    (trsv upper tr nounit n a lda x incx).size = x.size ∧
    (∀ p, (∀ i, i < n → spos n incx i ≠ p) → (trsv upper tr nounit n a lda x incx)[p]! = x[p]!) := by
  by_cases htr : tr = Tr.N
  · subst htr
    have hd' : nounit = true → ∀ j, j < n → a[j + j * lda]! ≠ 0 := by
      intro h j hj
      have e : (Tr.N == Tr.C) = false := rfl
      have := hd h j hj
      simpa [cj, e] using this
    cases upper
    · exact ⟨(trsv_spec_partial_lower_notrans nounit n lda a x incx hinc hb hd').1,
        (trsv_spec_partial_lower_notrans nounit n lda a x incx hinc hb hd').2.2⟩
    · exact ⟨(trsv_spec_partial_upper_notrans nounit n lda a x incx hinc hb hd').1,
        (trsv_spec_partial_upper_notrans nounit n lda a x incx hinc hb hd').2.2⟩
  · cases upper
    · exact ⟨(trsv_spec_partial_lower tr htr nounit n lda a x incx hinc hb hd).1,
        (trsv_spec_partial_lower tr htr nounit n lda a x incx hinc hb hd).2.2⟩
    · exact ⟨(trsv_spec_partial tr htr nounit n lda a x incx hinc hb hd).1,
        (trsv_spec_partial tr htr nounit n lda a x incx hinc hb hd).2.2⟩

end trsvUN

/-- upper triangular `[[2,1],[0,4]]`, `A r = x`, `x = (4, 8)` -/
example : trsv true Tr.N true 2 (#[2, 0, 1, 4] : Array Rat) 2 #[4, 8] 1 = #[1, 2] := by decide +kernel
example := trsv_spec_partial_upper_notrans true 2 2 (#[2, 0, 1, 4] : Array Rat) #[4, 8] 1
  (by decide) (by decide) (by decide)

end Slu.Cblas
