import Slu.Model.Kernels
import SluProofs.Lemmas.Kernels
/-
C14 — Sparse triangular solve / multiply kernels compute the documented operation.
(work in progress header, replaced below)
-/
namespace Slu.Kernels
open Finset

variable {K : Type} [Field K] [Conj K] [Inhabited K]

/-- **C14 (sp_trsv, dense reference).** -/
theorem sp_trsv_spec (F : LUFac K) (uplo : UpLo) (tr : Tr) (unit : Bool) (b : Array K)
    (htri : ∀ i j, i < F.L.n → j < F.L.n → (if effLower uplo tr then i < j else j < i) →
      trsvMat F uplo tr unit i j = 0)
    (hdiag : ∀ i, i < F.L.n → trsvMat F uplo tr unit i i ≠ 0) :
    (trsvRef F uplo tr unit b).size = F.L.n ∧
    ∀ i, i < F.L.n →
      ∑ j ∈ range F.L.n, trsvMat F uplo tr unit i j * (trsvRef F uplo tr unit b).getD j 0 = b.getD i 0 := by
  unfold trsvRef
  by_cases hl : effLower uplo tr = true
  · simp only [hl, if_true] at htri ⊢
    refine ⟨fwdSub_size _ _ _ _, fun i hi => ?_⟩
    rw [← Finset.sum_range_add_sum_Ico _ (show i + 1 ≤ F.L.n by omega), Finset.sum_range_succ]
    have hz : ∑ j ∈ Ico (i + 1) F.L.n, trsvMat F uplo tr unit i j *
        (fwdSub (trsvMat F uplo tr unit) (fun i => trsvMat F uplo tr unit i i) (fun i => b.getD i 0) F.L.n).getD j 0 = 0 := by
      apply Finset.sum_eq_zero
      intro j hj
      have := Finset.mem_Ico.mp hj
      rw [htri i j hi this.2 (by omega), zero_mul]
    rw [hz, add_zero]
    exact fwdSub_row _ _ _ _ i hi (hdiag i hi)
  · simp only [hl] at htri ⊢
    simp only [Bool.false_eq_true, if_false] at htri ⊢
    refine ⟨by simp [bwdSub_length], fun i hi => ?_⟩
    have hg : ∀ j, (bwdSub (trsvMat F uplo tr unit) (fun i => trsvMat F uplo tr unit i i) (fun i => b.getD i 0) F.L.n F.L.n).toArray.getD j 0 =
        (bwdSub (trsvMat F uplo tr unit) (fun i => trsvMat F uplo tr unit i i) (fun i => b.getD i 0) F.L.n F.L.n).getD j 0 := by
      intro j; simp [Array.getD_eq_getD_getElem?, List.getD_eq_getElem?_getD]
    simp only [hg]
    rw [← Finset.sum_range_add_sum_Ico _ (show i + 1 ≤ F.L.n by omega), Finset.sum_range_succ]
    have hz : ∑ j ∈ range i, trsvMat F uplo tr unit i j *
        (bwdSub (trsvMat F uplo tr unit) (fun i => trsvMat F uplo tr unit i i) (fun i => b.getD i 0) F.L.n F.L.n).getD j 0 = 0 := by
      apply Finset.sum_eq_zero
      intro j hj
      have := Finset.mem_range.mp hj
      rw [htri i j hi (by omega) this, zero_mul]
    rw [hz, zero_add]
    exact bwdSub_row (trsvMat F uplo tr unit) (fun i => trsvMat F uplo tr unit i i) (fun i => b.getD i 0) F.L.n i hi (hdiag i hi)


/-! ### gstrs: columns are independent -/

omit [Field K] [Conj K] in
/-- **C14 (gstrs, independence of the right-hand sides).** For any per-column solver returning `n`
entries (in particular `gstrsCol F perm_c perm_r trans`), every `ldb ≥ n`, every `nrhs` and every
array `B` holding at least `ldb*nrhs` scalars: column `j` of the result is the solver applied to
column `j` of the ORIGINAL `B` (so it depends neither on the other columns, nor on `nrhs`, nor on the
padding rows `n..ldb-1`), and every padding row and everything behind the last column is returned
unchanged. -/
theorem gstrs_columns_independent (solve : Array K → Array K) (n ldb nrhs : Nat) (B : Array K)
    (hs : ∀ v, (solve v).size = n) (hld : n ≤ ldb) (hB : ldb * nrhs ≤ B.size) :
    (gstrs solve n ldb nrhs B).size = B.size ∧
    (∀ j i, j < nrhs → i < n → (gstrs solve n ldb nrhs B)[ldb * j + i]! = (solve (slice B (ldb * j) n))[i]!) ∧
    (∀ p, p < B.size → (ldb * nrhs ≤ p ∨ n ≤ p % ldb) → (gstrs solve n ldb nrhs B)[p]! = B[p]!) := by
  have hg : gstrs solve n ldb nrhs B = gstrsTo solve n ldb B nrhs := rfl
  rw [hg]
  refine ⟨gstrsTo_size _ _ _ _ _, ?_, ?_⟩
  · intro j i hj hi
    have hpos : 0 < ldb := by omega
    have hlt : ldb * j + i < ldb * nrhs := by
      have : ldb * (j + 1) ≤ ldb * nrhs := Nat.mul_le_mul_left _ hj
      rw [Nat.mul_succ] at this; omega
    rw [gstrsTo_get solve n ldb B nrhs hs hld hB _ (by omega)]
    have hmod : (ldb * j + i) % ldb = i := by
      rw [Nat.mul_add_mod]; exact Nat.mod_eq_of_lt (by omega)
    have hdiv : (ldb * j + i) / ldb = j := by
      rw [Nat.mul_add_div hpos, Nat.div_eq_of_lt (by omega)]; rfl
    rw [if_pos ⟨hlt, by rw [hmod]; exact hi⟩, hmod, hdiv]
  · intro p hp hpad
    rw [gstrsTo_get solve n ldb B nrhs hs hld hB p hp]
    have : ¬ (p < ldb * nrhs ∧ p % ldb < n) := by omega
    rw [if_neg this]

omit [Field K] [Conj K] in
/-- two calls that pass the same right-hand side in different positions, with different leading
dimensions, different numbers of companions and different padding return the same solution -/
theorem gstrs_layout_irrelevant (solve : Array K → Array K) (n ldb ldb' nrhs nrhs' : Nat) (B B' : Array K)
    (hs : ∀ v, (solve v).size = n) (hld : n ≤ ldb) (hld' : n ≤ ldb') (hB : ldb * nrhs ≤ B.size)
    (hB' : ldb' * nrhs' ≤ B'.size) (j j' : Nat) (hj : j < nrhs) (hj' : j' < nrhs')
    (hcol : slice B (ldb * j) n = slice B' (ldb' * j') n) (i : Nat) (hi : i < n) :
    (gstrs solve n ldb nrhs B)[ldb * j + i]! = (gstrs solve n ldb' nrhs' B')[ldb' * j' + i]! := by
  rw [(gstrs_columns_independent solve n ldb nrhs B hs hld hB).2.1 j i hj hi,
    (gstrs_columns_independent solve n ldb' nrhs' B' hs hld' hB').2.1 j' i hj' hi, hcol]

/-- the modelled per-column solve always returns `n` entries, so the two theorems above apply to it -/
theorem gstrsCol_size (F : LUFac K) (permc permr : Array Nat) (tr : Tr) (b : Array K) :
    (gstrsCol F permc permr tr b).size = F.L.n := by
  unfold gstrsCol
  split <;> simp

end Slu.Kernels
