import Slu.Model.Ledger
import SluProofs.Lemmas.Ledger
/-
C19 — No memory error or leak over any documented API lifecycle.

* `lifecycle_no_leak`: for EVERY sequence of documented API events (create, order, factor with each
  Fact mode and each exit: ok / singular / out of space / size query, solve, refine, condition,
  re-factor, destroy; any number of objects, any interleaving of their lifecycles) executed by the
  specification of `Slu/Model/Ledger.lean`, at every quiescent point: no block was freed that was not
  live (nothing freed twice), no call-internal block survives, and the live blocks are exactly the
  blocks of the objects the caller still holds; hence once the caller has destroyed what it was
  handed the ledger is empty.  Induction over the operation sequence.
* `growth_capacity_inv`: under the check-then-expand protocol of the subscript array (`append`,
  the pruning copy, compression, expansion that may fail) every write index is below the capacity
  at the moment of the write, for every operation sequence and every pattern of expansion
  grants/failures; `reserve_capacity_inv` is the same for the `ucol/usub` protocol.
  `growth_old_test_overflows` shows that the earlier loop test of dsnode_dfs.c violates it (D8).

The C code is tied to this specification by the `lifecycle*` harness families (per-operation live
block counts, double-free counter, ASan/UBSan, poison differential) — see tools/props.d/C19.py.
-/
namespace Slu.C19
open Slu.Ledger

theorem mem_of_contains {l : List Obj} {o : Obj} (h : l.contains o = true) : o ∈ l := by
  simpa using h

theorem not_mem_of_not_contains {l : List Obj} {o : Obj} (h : (!l.contains o) = true) : o ∉ l := by
  simpa using h

/-- one documented call preserves the ledger invariant -/
theorem step_inv (s : State) (op : Op) (hs : Inv 0 s) (hd : documented s op = true) :
    Inv 0 (step s op) := by
  cases op with
  | createMat h => exact inv_alloc hs (not_mem_of_not_contains hd)
  | createDense h => exact inv_alloc hs (not_mem_of_not_contains hd)
  | statInit h => exact inv_alloc hs (not_mem_of_not_contains hd)
  | getPermC => exact inv_withTemp_id hs
  | preorder h =>
    apply inv_withTemp _ hs
    intro s1 h1 e1
    exact inv_alloc h1 (by rw [e1]; exact not_mem_of_not_contains hd)
  | gstrf h fact ws out =>
    apply inv_gstrfEffect h fact ws out hs
    simp only [documented] at hd
    by_cases hf : fact = .sameRowPerm
    · exact Or.inl hf
    · right
      simp only [hf, if_false, Bool.and_eq_true] at hd
      exact ⟨not_mem_of_not_contains hd.1.2, not_mem_of_not_contains hd.2⟩
  | gstrs => exact inv_withTemp_id hs
  | gsrfs => exact inv_withTemp_id hs
  | gscon => exact inv_withTemp_id hs
  | querySpace => exact hs
  | gssv h nr out =>
    simp only [documented, Bool.and_eq_true] at hd
    have hL := not_mem_of_not_contains hd.1.2
    have hU := not_mem_of_not_contains hd.2
    apply inv_withTemp _ hs
    intro s1 h1 e1
    apply inv_withTemp _ h1
    intro s2 h2 e2
    apply inv_withTemp _ h2
    intro s3 h3 e3
    have hg := inv_gstrfEffect h .dofact false out h3
      (Or.inr ⟨by rw [e3, e2, e1]; exact hL, by rw [e3, e2, e1]; exact hU⟩)
    show Inv _ (if out = .ok then _ else _)
    by_cases ho : out = Out.ok
    · rw [if_pos ho]; exact inv_withTemp_id hg
    · rw [if_neg ho]; exact hg
  | gssvx h nr fact ws out =>
    simp only [documented] at hd
    apply inv_withTemp _ hs
    intro s1 h1 e1
    show Inv _ (if fact = .factored then _ else _)
    by_cases hnf : fact = Fact.factored
    · rw [if_pos hnf]; exact inv_withTemp_id h1
    · rw [if_neg hnf]
      apply inv_withTemp _ h1
      intro s2 h2 e2
      have hpre : fact = .sameRowPerm ∨ (Obj.facL h ws ∉ s2.handed ∧ Obj.facU h ws ∉ s2.handed) := by
        by_cases hf : fact = .sameRowPerm
        · exact Or.inl hf
        · right
          have hc : (fact = .sameRowPerm || fact = .factored) = false := by simp [hf, hnf]
          simp only [hc, Bool.false_eq_true, if_false, Bool.and_eq_true] at hd
          rw [e2, e1]
          exact ⟨not_mem_of_not_contains hd.1, not_mem_of_not_contains hd.2⟩
      have hg := inv_gstrfEffect h fact ws out h2 hpre
      show Inv _ (if out = .ok then _ else _)
      by_cases ho : out = Out.ok
      · rw [if_pos ho]; exact inv_withTemp_id hg
      · rw [if_neg ho]; exact hg
  | destroy o => exact inv_release hs (mem_of_contains hd)

theorem run_inv (ops : List Op) : ∀ s : State, Inv 0 s → documentedAll s ops = true → Inv 0 (run s ops) := by
  induction ops with
  | nil => intro s hs _; exact hs
  | cons op rest ih =>
    intro s hs hd
    simp only [documentedAll, Bool.and_eq_true] at hd
    exact ih (step s op) (step_inv s op hs hd.1) hd.2

theorem inv_init : Inv 0 ({} : State) := ⟨rfl, rfl, List.nodup_nil, fun _ => by simp⟩

/-- **No leak, no double free, over every documented lifecycle.** -/
theorem lifecycle_no_leak (ops : List Op) (hdoc : documentedAll {} ops = true) :
    let s := run {} ops
    s.dfree = 0 ∧ s.temp = 0 ∧
    (∀ o, s.live.count o = if o ∈ s.handed then o.blocks else 0) ∧
    (s.handed = [] → s.live = [] ∧ s.liveCount = 0) := by
  obtain ⟨h1, h2, _, h4⟩ := run_inv ops {} inv_init hdoc
  refine ⟨h1, h2, h4, fun he => ?_⟩
  have hl : (run {} ops).live = [] := by
    apply List.eq_nil_iff_forall_not_mem.mpr
    intro o ho
    have := h4 o
    rw [he] at this
    simp only [List.not_mem_nil, if_false] at this
    exact absurd (List.count_pos_iff.mpr ho) (by omega)
  exact ⟨hl, by simp [State.liveCount, hl, h2]⟩

/-- the same at every intermediate quiescent point (prefix of the lifecycle) -/
theorem lifecycle_prefix_inv (ops₁ ops₂ : List Op) (hdoc : documentedAll {} (ops₁ ++ ops₂) = true) :
    (run {} ops₁).dfree = 0 ∧ (run {} ops₁).temp = 0 := by
  have key : ∀ (l : List Op) (s : State), documentedAll s (l ++ ops₂) = true → documentedAll s l = true := by
    intro l
    induction l with
    | nil => intro s _; rfl
    | cons a l ih =>
      intro s h
      simp only [List.cons_append, documentedAll, Bool.and_eq_true] at h ⊢
      exact ⟨h.1, ih _ h.2⟩
  obtain ⟨h1, h2, _, _⟩ := run_inv ops₁ {} inv_init (key ops₁ {} hdoc)
  exact ⟨h1, h2⟩

/-- non-vacuity: a lifecycle with a size query, a singular factorization, an out-of-space return, a
successful factorization, two re-factorizations, solves, and everything destroyed -/
def sampleLifecycle : List Op := [
  .createMat 0, .createDense 0, .createDense 1, .statInit 0,
  .gssvx 0 true .dofact false .query,
  .gssvx 0 true .dofact false .oos,
  .gssvx 0 true .dofact false .singular,
  .destroy (.facL 0 false), .destroy (.facU 0 false),
  .gssvx 0 true .dofact false .ok,
  .gssvx 0 true .factored false .ok,
  .gssvx 0 true .sameRowPerm false .ok,
  .destroy (.facL 0 false), .destroy (.facU 0 false),
  .gssvx 0 true .samePattern false .ok,
  .gstrs, .gsrfs, .gscon, .querySpace,
  .getPermC, .preorder 1, .gstrf 1 .dofact false .ok, .gstrf 1 .sameRowPerm false .singular,
  .destroy (.acview 1), .destroy (.facL 1 false), .destroy (.facU 1 false),
  .destroy (.facL 0 false), .destroy (.facU 0 false),
  .destroy (.stat 0), .destroy (.dense 0), .destroy (.dense 1), .destroy (.mat 0)]

example : documentedAll {} sampleLifecycle = true ∧ (run {} sampleLifecycle).handed = [] ∧
    (run {} sampleLifecycle).liveCount = 0 := by decide

/-- and the preconditions matter: destroying L twice is recorded as a double free -/
example : (run {} [.gssv 0 false .ok, .destroy (.facL 0 false), .destroy (.facL 0 false)]).dfree = 7 := by decide

/-! ### growth protocol -/
open Slu.Ledger.Grow

theorem growUntil_spec (strict : Bool) (need : Nat) (gs : List Grant) :
    ∀ cap c, growUntil strict need cap gs = some c →
      cap ≤ c ∧ (if strict then need < c else need ≤ c) := by
  induction gs with
  | nil =>
    intro cap c h
    unfold growUntil at h
    by_cases hc : (if strict then need < cap else need ≤ cap)
    · rw [if_pos hc] at h; simp only [Option.some.injEq] at h; subst h; exact ⟨Nat.le_refl _, hc⟩
    · rw [if_neg hc] at h; simp at h
  | cons g rest ih =>
    intro cap c h
    unfold growUntil at h
    by_cases hc : (if strict then need < cap else need ≤ cap)
    · rw [if_pos hc] at h; simp only [Option.some.injEq] at h; subst h; exact ⟨Nat.le_refl _, hc⟩
    · rw [if_neg hc] at h
      cases g with
      | none => simp at h
      | some d =>
        simp only at h
        obtain ⟨h1, h2⟩ := ih _ _ h
        exact ⟨by omega, h2⟩

theorem writesRange_lt {start len cap : Nat} (h : start + len ≤ cap) :
    ∀ w ∈ writesRange start len cap, w.1 < w.2 := by
  intro w hw
  simp only [writesRange, List.mem_map, List.mem_range] at hw
  obtain ⟨i, hi, rfl⟩ := hw
  simp only
  omega

/-- state invariant of the `lsub` protocol: one free slot, unless an expansion failed -/
def GInv (g : G) : Prop := g.failed = true ∨ g.next < g.cap

theorem gstep_inv (g : G) (op : GOp) (h : GInv g) :
    GInv (gstep g op).1 ∧ ∀ w ∈ (gstep g op).2, w.1 < w.2 := by
  cases hf : g.failed with
  | true =>
    cases op <;> simp [gstep, hf, GInv]
  | false =>
    have hlt : g.next < g.cap := by
      rcases h with h | h
      · rw [hf] at h; exact absurd h (by simp)
      · exact h
    cases op with
    | append gr =>
      simp only [gstep, hf, Bool.false_eq_true, if_false]
      by_cases hc : g.next + 1 ≥ g.cap
      · simp only [hc, if_true]
        cases gr with
        | none => exact ⟨Or.inl rfl, by intro w hw; simp at hw; subst hw; exact hlt⟩
        | some d =>
          refine ⟨Or.inr ?_, by intro w hw; simp at hw; subst hw; exact hlt⟩
          simp only; omega
      · simp only [hc, if_false]
        refine ⟨Or.inr ?_, by intro w hw; simp at hw; subst hw; exact hlt⟩
        simp only; omega
    | copyTail len gs =>
      simp only [gstep, hf, Bool.false_eq_true, if_false]
      cases hg : growUntil true (g.next + len) g.cap gs with
      | none => exact ⟨Or.inl rfl, by intro w hw; simp at hw⟩
      | some c =>
        obtain ⟨_, h2⟩ := growUntil_spec true _ gs _ _ hg
        simp only [if_true] at h2
        exact ⟨Or.inr h2, writesRange_lt (by omega)⟩
    | compress drop keep =>
      simp only [gstep, hf, Bool.false_eq_true, if_false]
      refine ⟨Or.inr ?_, writesRange_lt ?_⟩
      · simp only; omega
      · have : min keep (g.next - min drop g.next) ≤ g.next - min drop g.next := Nat.min_le_right _ _
        omega

/-- **Every append index is below the current capacity**, for every operation sequence and every
pattern of expansion grants / failures, starting from any state with a free slot. -/
theorem growth_capacity_inv (ops : List GOp) :
    ∀ g : G, GInv g → GInv (grun g ops).1 ∧ ∀ w ∈ (grun g ops).2, w.1 < w.2 := by
  induction ops with
  | nil => intro g h; exact ⟨h, by intro w hw; simp [grun] at hw⟩
  | cons op rest ih =>
    intro g h
    obtain ⟨h1, h2⟩ := gstep_inv g op h
    obtain ⟨h3, h4⟩ := ih _ h1
    simp only [grun]
    refine ⟨h3, ?_⟩
    intro w hw
    rcases List.mem_append.mp hw with hw | hw
    · exact h2 w hw
    · exact h4 w hw

/-- `ucol/usub`: reserving (`while (new_next > nzumax) expand`) then writing stays below the capacity and
re-establishes `next ≤ cap` -/
theorem reserve_capacity_inv (g : G) (len : Nat) (gs : List Grant) :
    ((reserve g len gs).1.failed = true ∨ (reserve g len gs).1.next ≤ (reserve g len gs).1.cap) ∧
    ∀ w ∈ (reserve g len gs).2, w.1 < w.2 := by
  unfold reserve
  cases hf : g.failed with
  | true => simp; exact Or.inl hf
  | false =>
    simp only [Bool.false_eq_true, if_false]
    cases hg : growUntil false (g.next + len) g.cap gs with
    | none => exact ⟨Or.inl rfl, by intro w hw; simp at hw⟩
    | some c =>
      obtain ⟨_, h2⟩ := growUntil_spec false _ gs _ _ hg
      simp only [Bool.false_eq_true, if_false] at h2
      exact ⟨Or.inr h2, writesRange_lt h2⟩

/-- D8: with the earlier loop test (`while (new_next > nzlmax)`) the pruning copy may leave
`next = cap`, and the next append writes `lsub[cap]` -/
theorem growth_old_test_overflows :
    let g0 : G := { next := 2, cap := 4 }
    let g1 := (gstepOld g0 (.copyTail 2 [])).1
    g1.next = g1.cap ∧ (gstep g1 (.append (some 3))).2 = [(4, 4)] := by
  decide

example : GInv { next := 0, cap := 1 } := Or.inr (by decide)

end Slu.C19
