import Slu.Model.Ledger
import Slu.Gen.LeakSites
import Slu.Gen.Ownership
import SluProofs.Lemmas.Ledger
/-
C19 — No memory error or leak over any documented API lifecycle.

* `lifecycle_no_leak`: for EVERY sequence of documented API events (create, order, factor with each
  Fact mode and each exit: ok / singular / out of space / size query, solve, refine, condition,
  re-factor, destroy; any number of objects, any interleaving of their lifecycles) executed by the
  specification of `Slu/Model/Ledger.lean`, at every quiescent point: no block was freed that was not
  live (nothing freed twice), no call-internal block survives, and the live blocks are exactly the
  blocks of the objects the caller still holds; hence once the caller has destroyed what it was
  handed the ledger is empty.  Induction over the operation sequence.
* `growth_capacity_inv`: under the check-then-expand protocol of the subscript array (`append`,
  the pruning copy, compression, expansion that may fail) every write index is below the capacity
  at the moment of the write, for every operation sequence and every pattern of expansion
  grants/failures; `reserve_capacity_inv` is the same for the `ucol/usub` protocol.
  `growth_old_test_overflows` shows that the earlier loop test of dsnode_dfs.c violates it (D8).

The C code is tied to this specification by the `lifecycle*` harness families (per-operation live
block counts, double-free counter, ASan/UBSan, poison differential) — see tools/props.d/C19.py — and,
for the "no call-internal block survives the call / nothing of the caller is freed" half, to the source
TEXT on every run: `no_local_block_escapes_unreleased` in this file (translator
tools/leakscan.py -> Slu/Gen/LeakSites.lean); and, for the OBJECT half - which blocks an object consists of, that its
documented `Destroy_*` / `StatFree` frees exactly those, that its constructors store exactly those, fresh or taken from the
caller as the specification says - by `destroy_frees_what_is_owned`, `constructors_allocate_what_is_owned` and
`ownership_scan_complete` at the end of this file (translator tools/ownscan.py -> Slu/Gen/Ownership.lean, compared with the
table `Slu.Ledger.allSpecs` / `specOwned` of Slu/Model/Ledger.lean, whose library-allocated paths are shown to number
`Obj.blocks`).
-/
namespace Slu.C19
open Slu.Ledger

theorem mem_of_contains {l : List Obj} {o : Obj} (h : l.contains o = true) : o ∈ l := by
  simpa using h

theorem not_mem_of_not_contains {l : List Obj} {o : Obj} (h : (!l.contains o) = true) : o ∉ l := by
  simpa using h

/-- one documented call preserves the ledger invariant -/
theorem step_inv (s : State) (op : Op) (hs : Inv 0 s) (hd : documented s op = true) :
    Inv 0 (step s op) := by
  cases op with
  | createMat h => exact inv_alloc hs (not_mem_of_not_contains hd)
  | createDense h => exact inv_alloc hs (not_mem_of_not_contains hd)
  | statInit h => exact inv_alloc hs (not_mem_of_not_contains hd)
  | getPermC => exact inv_withTemp_id hs
  | preorder h =>
    apply inv_withTemp _ hs
    intro s1 h1 e1
    exact inv_alloc h1 (by rw [e1]; exact not_mem_of_not_contains hd)
  | gstrf h fact ws out =>
    apply inv_gstrfEffect h fact ws out hs
    simp only [documented] at hd
    by_cases hf : fact = .sameRowPerm
    · exact Or.inl hf
    · right
      simp only [hf, if_false, Bool.and_eq_true] at hd
      exact ⟨not_mem_of_not_contains hd.1.2, not_mem_of_not_contains hd.2⟩
  | gstrs => exact inv_withTemp_id hs
  | gsrfs => exact inv_withTemp_id hs
  | gscon => exact inv_withTemp_id hs
  | querySpace => exact hs
  | gssv h nr out =>
    simp only [documented, Bool.and_eq_true] at hd
    have hL := not_mem_of_not_contains hd.1.2
    have hU := not_mem_of_not_contains hd.2
    apply inv_withTemp _ hs
    intro s1 h1 e1
    apply inv_withTemp _ h1
    intro s2 h2 e2
    apply inv_withTemp _ h2
    intro s3 h3 e3
    have hg := inv_gstrfEffect h .dofact false out h3
      (Or.inr ⟨by rw [e3, e2, e1]; exact hL, by rw [e3, e2, e1]; exact hU⟩)
    show Inv _ (if out = .ok then _ else _)
    by_cases ho : out = Out.ok
    · rw [if_pos ho]; exact inv_withTemp_id hg
    · rw [if_neg ho]; exact hg
  | gssvx h nr fact ws out =>
    simp only [documented] at hd
    apply inv_withTemp _ hs
    intro s1 h1 e1
    show Inv _ (if fact = .factored then _ else _)
    by_cases hnf : fact = Fact.factored
    · rw [if_pos hnf]; exact inv_withTemp_id h1
    · rw [if_neg hnf]
      apply inv_withTemp _ h1
      intro s2 h2 e2
      have hpre : fact = .sameRowPerm ∨ (Obj.facL h ws ∉ s2.handed ∧ Obj.facU h ws ∉ s2.handed) := by
        by_cases hf : fact = .sameRowPerm
        · exact Or.inl hf
        · right
          have hc : (fact = .sameRowPerm || fact = .factored) = false := by simp [hf, hnf]
          simp only [hc, Bool.false_eq_true, if_false, Bool.and_eq_true] at hd
          rw [e2, e1]
          exact ⟨not_mem_of_not_contains hd.1, not_mem_of_not_contains hd.2⟩
      have hg := inv_gstrfEffect h fact ws out h2 hpre
      show Inv _ (if out = .ok then _ else _)
      by_cases ho : out = Out.ok
      · rw [if_pos ho]; exact inv_withTemp_id hg
      · rw [if_neg ho]; exact hg
  | destroy o => exact inv_release hs (mem_of_contains hd)

theorem run_inv (ops : List Op) : ∀ s : State, Inv 0 s → documentedAll s ops = true → Inv 0 (run s ops) := by
  induction ops with
  | nil => intro s hs _; exact hs
  | cons op rest ih =>
    intro s hs hd
    simp only [documentedAll, Bool.and_eq_true] at hd
    exact ih (step s op) (step_inv s op hs hd.1) hd.2

theorem inv_init : Inv 0 ({} : State) := ⟨rfl, rfl, List.nodup_nil, fun _ => by simp⟩

/-- **No leak, no double free, over every documented lifecycle.** -/
theorem lifecycle_no_leak (ops : List Op) (hdoc : documentedAll {} ops = true) :
    let s := run {} ops
    s.dfree = 0 ∧ s.temp = 0 ∧
    (∀ o, s.live.count o = if o ∈ s.handed then o.blocks else 0) ∧
    (s.handed = [] → s.live = [] ∧ s.liveCount = 0) := by
  obtain ⟨h1, h2, _, h4⟩ := run_inv ops {} inv_init hdoc
  refine ⟨h1, h2, h4, fun he => ?_⟩
  have hl : (run {} ops).live = [] := by
    apply List.eq_nil_iff_forall_not_mem.mpr
    intro o ho
    have := h4 o
    rw [he] at this
    simp only [List.not_mem_nil, if_false] at this
    exact absurd (List.count_pos_iff.mpr ho) (by omega)
  exact ⟨hl, by simp [State.liveCount, hl, h2]⟩

/-- the same at every intermediate quiescent point (prefix of the lifecycle) -/
theorem lifecycle_prefix_inv (ops₁ ops₂ : List Op) (hdoc : documentedAll {} (ops₁ ++ ops₂) = true) :
    (run {} ops₁).dfree = 0 ∧ (run {} ops₁).temp = 0 := by
  have key : ∀ (l : List Op) (s : State), documentedAll s (l ++ ops₂) = true → documentedAll s l = true := by
    intro l
    induction l with
    | nil => intro s _; rfl
    | cons a l ih =>
      intro s h
      simp only [List.cons_append, documentedAll, Bool.and_eq_true] at h ⊢
      exact ⟨h.1, ih _ h.2⟩
  obtain ⟨h1, h2, _, _⟩ := run_inv ops₁ {} inv_init (key ops₁ {} hdoc)
  exact ⟨h1, h2⟩

/-- non-vacuity: a lifecycle with a size query, a singular factorization, an out-of-space return, a
successful factorization, two re-factorizations, solves, and everything destroyed -/
def sampleLifecycle : List Op := [
  .createMat 0, .createDense 0, .createDense 1, .statInit 0,
  .gssvx 0 true .dofact false .query,
  .gssvx 0 true .dofact false .oos,
  .gssvx 0 true .dofact false .singular,
  .destroy (.facL 0 false), .destroy (.facU 0 false),
  .gssvx 0 true .dofact false .ok,
  .gssvx 0 true .factored false .ok,
  .gssvx 0 true .sameRowPerm false .ok,
  .destroy (.facL 0 false), .destroy (.facU 0 false),
  .gssvx 0 true .samePattern false .ok,
  .gstrs, .gsrfs, .gscon, .querySpace,
  .getPermC, .preorder 1, .gstrf 1 .dofact false .ok, .gstrf 1 .sameRowPerm false .singular,
  .destroy (.acview 1), .destroy (.facL 1 false), .destroy (.facU 1 false),
  .destroy (.facL 0 false), .destroy (.facU 0 false),
  .destroy (.stat 0), .destroy (.dense 0), .destroy (.dense 1), .destroy (.mat 0)]

example : documentedAll {} sampleLifecycle = true ∧ (run {} sampleLifecycle).handed = [] ∧
    (run {} sampleLifecycle).liveCount = 0 := by decide

/-- and the preconditions matter: destroying L twice is recorded as a double free -/
example : (run {} [.gssv 0 false .ok, .destroy (.facL 0 false), .destroy (.facL 0 false)]).dfree = 7 := by decide

/-! ### growth protocol -/
open Slu.Ledger.Grow

theorem growUntil_spec (strict : Bool) (need : Nat) (gs : List Grant) :
    ∀ cap c, growUntil strict need cap gs = some c →
      cap ≤ c ∧ (if strict then need < c else need ≤ c) := by
  induction gs with
  | nil =>
    intro cap c h
    unfold growUntil at h
    by_cases hc : (if strict then need < cap else need ≤ cap)
    · rw [if_pos hc] at h; simp only [Option.some.injEq] at h; subst h; exact ⟨Nat.le_refl _, hc⟩
    · rw [if_neg hc] at h; simp at h
  | cons g rest ih =>
    intro cap c h
    unfold growUntil at h
    by_cases hc : (if strict then need < cap else need ≤ cap)
    · rw [if_pos hc] at h; simp only [Option.some.injEq] at h; subst h; exact ⟨Nat.le_refl _, hc⟩
    · rw [if_neg hc] at h
      cases g with
      | none => simp at h
      | some d =>
        simp only at h
        obtain ⟨h1, h2⟩ := ih _ _ h
        exact ⟨by omega, h2⟩

theorem writesRange_lt {start len cap : Nat} (h : start + len ≤ cap) :
    ∀ w ∈ writesRange start len cap, w.1 < w.2 := by
  intro w hw
  simp only [writesRange, List.mem_map, List.mem_range] at hw
  obtain ⟨i, hi, rfl⟩ := hw
  simp only
  omega

/-- state invariant of the `lsub` protocol: one free slot, unless an expansion failed -/
def GInv (g : G) : Prop := g.failed = true ∨ g.next < g.cap

theorem gstep_inv (g : G) (op : GOp) (h : GInv g) :
    GInv (gstep g op).1 ∧ ∀ w ∈ (gstep g op).2, w.1 < w.2 := by
  cases hf : g.failed with
  | true =>
    cases op <;> simp [gstep, hf, GInv]
  | false =>
    have hlt : g.next < g.cap := by
      rcases h with h | h
      · rw [hf] at h; exact absurd h (by simp)
      · exact h
    cases op with
    | append gr =>
      simp only [gstep, hf, Bool.false_eq_true, if_false]
      by_cases hc : g.next + 1 ≥ g.cap
      · simp only [hc, if_true]
        cases gr with
        | none => exact ⟨Or.inl rfl, by intro w hw; simp at hw; subst hw; exact hlt⟩
        | some d =>
          refine ⟨Or.inr ?_, by intro w hw; simp at hw; subst hw; exact hlt⟩
          simp only; omega
      · simp only [hc, if_false]
        refine ⟨Or.inr ?_, by intro w hw; simp at hw; subst hw; exact hlt⟩
        simp only; omega
    | copyTail len gs =>
      simp only [gstep, hf, Bool.false_eq_true, if_false]
      cases hg : growUntil true (g.next + len) g.cap gs with
      | none => exact ⟨Or.inl rfl, by intro w hw; simp at hw⟩
      | some c =>
        obtain ⟨_, h2⟩ := growUntil_spec true _ gs _ _ hg
        simp only [if_true] at h2
        exact ⟨Or.inr h2, writesRange_lt (by omega)⟩
    | compress drop keep =>
      simp only [gstep, hf, Bool.false_eq_true, if_false]
      refine ⟨Or.inr ?_, writesRange_lt ?_⟩
      · simp only; omega
      · have : min keep (g.next - min drop g.next) ≤ g.next - min drop g.next := Nat.min_le_right _ _
        omega

/-- **Every append index is below the current capacity**, for every operation sequence and every
pattern of expansion grants / failures, starting from any state with a free slot. -/
theorem growth_capacity_inv (ops : List GOp) :
    ∀ g : G, GInv g → GInv (grun g ops).1 ∧ ∀ w ∈ (grun g ops).2, w.1 < w.2 := by
  induction ops with
  | nil => intro g h; exact ⟨h, by intro w hw; simp [grun] at hw⟩
  | cons op rest ih =>
    intro g h
    obtain ⟨h1, h2⟩ := gstep_inv g op h
    obtain ⟨h3, h4⟩ := ih _ h1
    simp only [grun]
    refine ⟨h3, ?_⟩
    intro w hw
    rcases List.mem_append.mp hw with hw | hw
    · exact h2 w hw
    · exact h4 w hw

/-- `ucol/usub`: reserving (`while (new_next > nzumax) expand`) then writing stays below the capacity and
re-establishes `next ≤ cap` -/
theorem reserve_capacity_inv (g : G) (len : Nat) (gs : List Grant) :
    ((reserve g len gs).1.failed = true ∨ (reserve g len gs).1.next ≤ (reserve g len gs).1.cap) ∧
    ∀ w ∈ (reserve g len gs).2, w.1 < w.2 := by
  unfold reserve
  cases hf : g.failed with
  | true => simp; exact Or.inl hf
  | false =>
    simp only [Bool.false_eq_true, if_false]
    cases hg : growUntil false (g.next + len) g.cap gs with
    | none => exact ⟨Or.inl rfl, by intro w hw; simp at hw⟩
    | some c =>
      obtain ⟨_, h2⟩ := growUntil_spec false _ gs _ _ hg
      simp only [Bool.false_eq_true, if_false] at h2
      exact ⟨Or.inr h2, writesRange_lt h2⟩

/-- D8: with the earlier loop test (`while (new_next > nzlmax)`) the pruning copy may leave
`next = cap`, and the next append writes `lsub[cap]` -/
theorem growth_old_test_overflows :
    let g0 : G := { next := 2, cap := 4 }
    let g1 := (gstepOld g0 (.copyTail 2 [])).1
    g1.next = g1.cap ∧ (gstep g1 (.append (some 3))).2 = [(4, 4)] := by
  decide

example : GInv { next := 0, cap := 1 } := Or.inr (by decide)

/-! ### Every locally allocated block is released or handed over on every path (regenerated from the source on every run)

`lifecycle_no_leak` is about the specification `Slu.Ledger.step`: every API call releases the blocks it
allocated for its own use (`withTemp`) and frees nothing that belongs to the caller.  `tools/leakscan.py`
establishes the corresponding facts about the C text.  From the clang syntax tree of EVERY file of SRC/ it
lists every call of an allocating function (the set is derived from the source: every function that returns
what `malloc` returned, transitively — `superlu_malloc`, `intMalloc`, `doubleMalloc`, `TreePostorder`, …;
and every function that stores a fresh block through a parameter — `SetIWork`, `at_plus_a`, `getata`, …) and
decides, by a path-sensitive may-analysis over the control-flow graph of the enclosing function (loops,
`goto`, early `return`, `ABORT` as no-return, `&&`/`||`/`!` decomposed into single tests), whether on every
path from the allocation to an exit of the function the block is freed, or handed over (stored through an
output parameter / into an object reachable from a parameter, returned, or given to a callee that stores it
into its own parameters — `[sdcz]Create_*_Matrix`), or the allocation itself failed.  A release under a
condition only counts when the condition provably has the value it had at the allocation: the analysis keeps
`== c` / `∉ {c…}` facts about the tested variables and `p->f` paths and drops them at every write, at `&g`,
at every call once `&g` exists, and (for `p->f`) at every call that may assign a field of that name.  It also
records double frees, frees after a hand-over, every release of something reached from a parameter, and a matrix
header built around the caller's arrays (`XCreate_CompCol_Matrix(AA, …, Astore->nzval, …)`) that is later given to
a routine that frees those arrays (`Destroy_CompCol_Matrix(AA)` instead of `Destroy_SuperMatrix_Store(AA)`). -/

open Slu.Gen

/-- the four precisions of a routine family: `prec4 "" "gstrf"` = sgstrf, dgstrf, cgstrf, zgstrf -/
def prec4 (pre post : String) : List String := ["s", "d", "c", "z"].map fun p => pre ++ p ++ post

/-- Exits that leak and are GENUINE, OPEN defects of the unchanged library (reported, see DESIGN.md 12.4 and
known_findings.json; not repaired because the repair is not small).  They are listed by finding, never
excused as benign: `siteOk` accepts exactly these exits of these variables (plain early `return`s: an exit that
skipped a guarded release, `bypass ≠ ""`, is never accepted here), so that every OTHER leaking path of the same
routines still fails the theorem.  Reproducer of the two new ones: findings/L1_static_leaks.c (1 and 5 blocks). -/
structure KnownLeak where
  finding : String         -- name of the open finding
  files : List String
  funcs : List String
  vars : List String
  exit : String
  causeCalls : List String -- the `return` sits under `if (<call of one of these> fails)`
  causes : List String     -- or under exactly one of these conditions

def knownLeakSites : List KnownLeak := [
  /- D9 (open finding "[sdcz]gstrf/[sdcz]gsitrf return early when a growth request fails under library
     allocation and leak their work arrays, the pointer arrays, ..."): `if ((*info = Xsnode_dfs(..)) != 0) return;`
     and the like at [sdcz]gstrf.c:310,320,376,381,386 and [sdcz]gsitrf.c:391,401,476,481,495,502,539 leave
     without releasing iperm_r, iperm_c, relax_end, xplore, xprune, … (freed only at the end of the routine). -/
  { finding := "D9-growth-failure-returns",
    files := prec4 "SRC/" "gstrf.c" ++ prec4 "SRC/" "gsitrf.c",
    funcs := prec4 "" "gstrf" ++ prec4 "" "gsitrf",
    vars := ["iperm_r", "iperm_c", "relax_end", "xplore", "xprune", "marker_relax", "swap", "iswap", "relax_fsupc", "amax",
             "swork2", "dwork2"],
    exit := "return",
    causeCalls := prec4 "" "snode_dfs" ++ prec4 "" "LUMemXpand" ++ prec4 "" "column_dfs" ++ prec4 "" "column_bmod" ++
                  prec4 "" "copy_to_ucol" ++ prec4 "ilu_" "snode_dfs" ++ prec4 "ilu_" "column_dfs" ++ prec4 "ilu_" "copy_to_ucol",
    causes := ["error"] }      -- [sdcz]gsitrf.c:494-495 `int error = XLUMemXpand(..); if (error) { *info = error; return; }`
  /- Two further leaks this scan found on its first run were repaired in /repo and are therefore NOT listed (the
     theorem fails if either returns): [sdcz]LUMemInit left xsup/supno/xlsub/xlusup/xusub allocated on its
     `nzlumax < annz` return under library allocation (repaired by 71213ea); sp_[sdcz]trsv left `work` allocated
     on the quick return for an empty factor (repaired by 76975ed). -/
]

/-- Reviewed exceptions: exits the scanner reports because it cannot establish a fact, where the block IS
released.  One entry per idiom, each matching only the exact exit description (kind, condition of the `return`,
condition of the skipped release), so that a new early return or a changed guard in the same routine is not
covered. -/
structure Reviewed where
  files : List String
  funcs : List String
  vars : List String
  exit : String
  cause : String
  bypass : String
  why : String

def reviewedSites : List Reviewed := [
  /- [sdcz]gssv.c:183-185/247-250, [sdcz]gssvx.c:499-501/580-583/665-668, [sdcz]gsisx.c:537-539/672-675 and its end:
     `if ( A->Stype == SLU_NR ) { AA = SUPERLU_MALLOC(..); XCreate_CompCol_Matrix(AA, ..) }` … the same test
     `if ( A->Stype == SLU_NR ) { Destroy_SuperMatrix_Store(AA); SUPERLU_FREE(AA); }` before every exit.  The scanner
     drops the fact `A->Stype == SLU_NR` because routines called in between assign a field named Stype
     (XCreate_*_Matrix on AA, AC, L, U — all distinct from the input matrix A, whose header no library routine
     writes).  Not a leak; a different exit, or a different guard, is not covered by these entries. -/
  { files := prec4 "SRC/" "gssv.c" ++ prec4 "SRC/" "gssvx.c" ++ prec4 "SRC/" "gsisx.c",
    funcs := prec4 "" "gssv" ++ prec4 "" "gssvx" ++ prec4 "" "gsisx", vars := ["AA"],
    exit := "end", cause := "", bypass := "A->Stype == SLU_NR",
    why := "same test of the input header A->Stype at allocation and release; A's header is never written" },
  { files := prec4 "SRC/" "gssvx.c", funcs := prec4 "" "gssvx", vars := ["AA"],
    exit := "return", cause := "*info > 0", bypass := "A->Stype == SLU_NR",
    why := "singular / out-of-space return: same test as at the allocation" },
  { files := prec4 "SRC/" "gsisx.c", funcs := prec4 "" "gsisx", vars := ["AA"],
    exit := "return", cause := "*info > A->ncol", bypass := "A->Stype == SLU_NR",
    why := "out-of-space return: same test as at the allocation" },
  /- get_perm_c.c: getata (lines 227-232) / at_plus_a (lines 357-362) allocate `*b_rowind` only `if ( *bnz )`, and
     get_perm_c releases it only inside `if ( bnz != 0 ) { … SUPERLU_FREE(b_rowind); }`; bnz is written by the callee
     through `&bnz` in the allocating call itself and by nothing afterwards.  The scanner treats the conditional
     allocation in the callee as unconditional.  (b_colptr, allocated unconditionally, has no entry here.) -/
  { files := ["SRC/get_perm_c.c"], funcs := ["get_perm_c"], vars := ["b_rowind"],
    exit := "end", cause := "", bypass := "bnz != 0",
    why := "allocated by the callee iff *bnz != 0, freed iff bnz != 0" },
  /- ilu_[sdcz]copy_to_ucol.c:174-186: `work0 = work; if (m > n) work = XMalloc(m); … if ( work != work0 ) { SUPERLU_FREE(work);
     work = work0; }` — the fresh block is never equal to the caller's array work0, so the release is taken exactly
     when the allocation was.  Pointer (in)equality with a fresh block is not a fact the scanner keeps. -/
  { files := prec4 "SRC/ilu_" "copy_to_ucol.c", funcs := prec4 "ilu_" "copy_to_ucol", vars := ["work"],
    exit := "return", cause := "", bypass := "work != work0",
    why := "released iff the pointer differs from the caller's array, i.e. iff it was allocated" },
  /- [sdcz]memory.c:236-247/281-293 (XLUMemInit): `if ( Glu->MemModel == SYSTEM ) { xsup = int32Malloc(..); … }` and, on the
     `nzlumax < annz` return, `if ( Glu->MemModel == SYSTEM ) { SUPERLU_FREE(xsup); … }` (release added by /repo 71213ea;
     in a caller work area the five arrays are pieces of that area and must not be freed).  Glu->MemModel is written
     only by XSetupSpace, which this arm of XLUMemInit calls once, before the allocation, and in the other arm of
     XLUMemInit (SamePattern_SameRowPerm, lines 322-327); the scanner drops the fact because Glu is passed to Xexpand
     in between and a field named MemModel is assigned somewhere in the library. -/
  { files := prec4 "SRC/" "memory.c", funcs := prec4 "" "LUMemInit", vars := ["xsup", "supno", "xlsub", "xlusup", "xusub"],
    exit := "return", cause := "nzlumax < annz", bypass := "Glu->MemModel == SYSTEM",
    why := "same test of Glu->MemModel at allocation and release; nothing between the two writes it" }
]

/-- Reviewed sites whose record carries a flag rather than a leaking exit. -/
structure ReviewedFlag where
  files : List String
  funcs : List String
  var : String
  kind : String
  flag : String          -- escapes | other
  why : String

def reviewedFlags : List ReviewedFlag := [
  /- [sdcz]gsrfs.c:223,267-271,447-449: `work` is also stored into the local dense-matrix header Bjcol
     (`Bjcol_store->nzval = work; /* address aliasing */`) that is passed to Xgstrs (which frees nothing); both
     `work` and `Bjcol.Store` are released once at the end (SUPERLU_FREE(work); SUPERLU_FREE(Bjcol.Store)) and the
     routine has no early return after the allocations.  Memory of local structs is not followed by the scanner. -/
  { files := prec4 "SRC/" "gsrfs.c", funcs := prec4 "" "gsrfs", var := "work", kind := "local", flag := "escapes",
    why := "address also kept in the local header Bjcol; freed once through `work`" },
  { files := prec4 "SRC/" "gsrfs.c", funcs := prec4 "" "gsrfs", var := "Bjcol.Store", kind := "other", flag := "other",
    why := "block held in a field of a local struct; freed by SUPERLU_FREE(Bjcol.Store) before the only exit" }
]

/-- Routines that are DOCUMENTED to release what their argument holds (the `destroy` events of `Slu.Ledger`), and
the storage layer's own bookkeeping.  Every other release of something reached from a parameter fails `siteOk`. -/
def documentedReleasers : List String :=
  ["superlu_free", "Destroy_SuperMatrix_Store", "Destroy_CompCol_Matrix", "Destroy_CompRow_Matrix",
   "Destroy_SuperNode_Matrix", "Destroy_CompCol_Permuted", "Destroy_Dense_Matrix", "StatFree"] ++
  prec4 "" "LUWorkFree" ++      -- releases the work arrays handed out by XLUWorkInit (library allocation)
  prec4 "" "LUMemInit" ++       -- Glu->expanders, allocated by the same call a few lines earlier, on its failure returns
  prec4 "" "expand" ++          -- the old copy of a grown array (library allocation), [sdcz]memory.c
  ["finalize_disjoint_sets"]    -- sp_coletree.c: the array of initialize_disjoint_sets, static helpers of one routine

/-- `ilu_[sdcz]copy_to_ucol` frees its parameter VARIABLE `work` only after having re-pointed it to its own block (see
`reviewedSites`); the caller's array is never freed. -/
def reviewedParamFrees : List (String × String) := (prec4 "ilu_" "copy_to_ucol").map fun f => (f, "work")

def exitKnown (s : LeakSite) (l : LeakExit) : Bool :=
  knownLeakSites.any fun k =>
    k.files.contains s.file && k.funcs.contains s.func && k.vars.contains s.var && l.exit == k.exit &&
    (k.causeCalls.contains l.causeCall || k.causes.contains l.cause) && l.bypass == "" && !l.unstable

def exitReviewed (s : LeakSite) (l : LeakExit) : Bool :=
  reviewedSites.any fun r =>
    r.files.contains s.file && r.funcs.contains s.func && r.vars.contains s.var && l.exit == r.exit &&
    l.cause == r.cause && l.bypass == r.bypass

def flagReviewed (s : LeakSite) (flag : String) : Bool :=
  reviewedFlags.any fun r =>
    r.files.contains s.file && r.funcs.contains s.func && r.var == s.var && r.kind == s.kind && r.flag == flag

/-- a record is in order -/
def siteOk (s : LeakSite) : Bool :=
  if s.kind == "local" || s.kind == "outparam" then
    -- analysed: understood, never freed twice or after a hand-over, never overwritten while live, never given to a routine
    -- that frees the caller's arrays it borrowed, and every exit reached with the block live is an open finding or a
    -- reviewed exception
    !s.notUnderstood && !s.doubleFree && !s.freeAfterHandover && !s.lost && !s.addrTaken && !s.toGlobal && !s.freesBorrowed &&
    (!s.escapes || flagReviewed s "escapes") && s.leaks.all fun l => exitKnown s l || exitReviewed s l
  else if s.kind == "stored" || s.kind == "returned" then
    -- handed to the caller at birth (through a parameter / the return value), not parked in a global
    s.handedOver && !s.toGlobal
  else if s.kind == "paramfree" then
    documentedReleasers.contains s.func || reviewedParamFrees.contains (s.func, s.var)
  else if s.kind == "inactive" then true        -- text the preprocessor removes in both analysed configurations
  else flagReviewed s "other"

/-- **C19 `no_local_block_escapes_unreleased`**: in the current source, for every allocation call of SRC/ and every
path of the enclosing function from that call to an exit of the function, the block is freed exactly once, or
handed over to the caller / to an owning object, or the allocation had failed — except on the exits listed, by
finding, in `knownLeakSites` (genuine open defects) and the five reviewed idioms of `reviewedSites` /
`reviewedFlags`; and nothing reached from a parameter is freed outside the documented releasing routines.

What this establishes: the "call-internal blocks do not survive the call" (`temp = 0`) and "nothing freed that the
caller owns" halves of the ledger specification hold of the TEXT of each routine, for every path its control-flow
graph has, on every run (an `if`-guarded release counts only when the guard provably kept its value).  What it
does **not** establish: anything about blocks kept in memory the scanner does not follow (arrays of pointers,
fields of local structs — flagged, two reviewed cases), or about the run-time counts per object (the ledger harness
compares those); what a `Destroy_*` routine frees relative to what the object holds is the subject of
`destroy_frees_what_is_owned` below.
The scanner is trusted (built-in self test; allocation calls of the syntax tree cross-checked line by line with
the text of every file; errs towards reporting). -/
theorem no_local_block_escapes_unreleased : ∀ s ∈ leakSites, siteOk s = true := by
  decide +kernel

/-- the scan succeeded and saw the whole library: its self check passed, all of SRC/ was parsed, the allocator set
contains the primitives, and the table has (at least) the expected number of analysed sites — it cannot silently
become empty or partial -/
theorem leak_scan_complete :
    leakOk = true ∧ 180 ≤ leakFiles ∧ 480 ≤ leakFunctions ∧ 355 ≤ leakAllocCalls ∧ 440 ≤ leakSites.length ∧
    305 ≤ (leakSites.filter fun s => s.kind == "local" || s.kind == "outparam").length ∧
    60 ≤ (leakSites.filter fun s => s.kind == "paramfree").length ∧
    (["superlu_malloc", "intMalloc", "int32Malloc", "intCalloc", "int32Calloc", "floatMalloc", "doubleMalloc",
      "singlecomplexMalloc", "doublecomplexMalloc", "mxCallocInt", "TreePostorder"].all leakAllocators.contains) = true ∧
    (["SetIWork", "at_plus_a", "getata"].all leakOutAllocators.contains) = true ∧
    ((prec4 "" "Create_CompCol_Matrix" ++ prec4 "" "Create_SuperNode_Matrix" ++ prec4 "" "Create_Dense_Matrix").all
      leakOwners.contains) = true := by
  decide +kernel

/-! Non-vacuity: records that fail `siteOk`. -/

/-- the `usepr` change (a release of `iperm_r` guarded by a flag that XpivotL clears through `&usepr`) -/
example : siteOk {
    file := "SRC/dgstrf.c", func := "dgstrf", line := 272, var := "iperm_r", allocator := "int32Malloc", kind := "local",
    releasedOnAllPaths := false, freed := true, handedOver := false, nullChecked := false, unstableGuard := true, doubleFree := false,
    freeAfterHandover := false, lost := false, escapes := false, addrTaken := false, notUnderstood := false, toGlobal := false,
    freesParam := false, freesBorrowed := false,
    leaks := [{ exit := "end", line := 0, cause := "", causeCall := "", bypass := "usepr", unstable := true }] } = false := by decide

/-- an early return that skips the frees, in a routine without an open finding -/
example : siteOk {
    file := "SRC/dldperm.c", func := "dldperm", line := 118, var := "iw", allocator := "int32Malloc", kind := "local",
    releasedOnAllPaths := false, freed := true, handedOver := false, nullChecked := true, unstableGuard := false, doubleFree := false,
    freeAfterHandover := false, lost := false, escapes := false, addrTaken := false, notUnderstood := false, toGlobal := false,
    freesParam := false, freesBorrowed := false,
    leaks := [{ exit := "return", line := 160, cause := "info[0] == 1", causeCall := "", bypass := "", unstable := false }] } = false := by decide

/-- a NEW early return in a routine that has an open finding is not covered by it (different cause) -/
example : siteOk {
    file := "SRC/dgstrf.c", func := "dgstrf", line := 276, var := "iperm_c", allocator := "int32Malloc", kind := "local",
    releasedOnAllPaths := false, freed := true, handedOver := false, nullChecked := false, unstableGuard := false, doubleFree := false,
    freeAfterHandover := false, lost := false, escapes := false, addrTaken := false, notUnderstood := false, toGlobal := false,
    freesParam := false, freesBorrowed := false,
    leaks := [{ exit := "return", line := 300, cause := "m == 0", causeCall := "", bypass := "", unstable := false }] } = false := by decide

/-- a double free, a header around the caller's arrays destroyed deeply, and a routine that frees its caller's array -/
example : siteOk {
    file := "SRC/dgscon.c", func := "dgscon", line := 130, var := "work", allocator := "doubleCalloc", kind := "local",
    releasedOnAllPaths := true, freed := true, handedOver := false, nullChecked := false, unstableGuard := false, doubleFree := true,
    freeAfterHandover := false, lost := false, escapes := false, addrTaken := false, notUnderstood := false, toGlobal := false,
    freesParam := false, freesBorrowed := false, leaks := [] } = false := by decide

example : siteOk {
    file := "SRC/cgssvx.c", func := "cgssvx", line := 501, var := "AA", allocator := "superlu_malloc", kind := "local",
    releasedOnAllPaths := true, freed := true, handedOver := false, nullChecked := false, unstableGuard := false, doubleFree := false,
    freeAfterHandover := false, lost := false, escapes := false, addrTaken := false, notUnderstood := false, toGlobal := false,
    freesParam := false, freesBorrowed := true, leaks := [] } = false := by decide

example : siteOk {
    file := "SRC/dgstrs.c", func := "dgstrs", line := 200, var := "perm_c", allocator := "superlu_free", kind := "paramfree",
    releasedOnAllPaths := true, freed := true, handedOver := false, nullChecked := false, unstableGuard := false, doubleFree := false,
    freeAfterHandover := false, lost := false, escapes := false, addrTaken := false, notUnderstood := false, toGlobal := false,
    freesParam := true, freesBorrowed := false, leaks := [] } = false := by decide


/-! ### What each Destroy_* frees is what the object owns; what each constructor stores is what the specification says (regenerated from the source on every run)

`lifecycle_no_leak` counts blocks per OBJECT (`Obj.blocks`), and `destroy o` removes all of them.  The table
`Slu.Ledger.allSpecs` names those blocks as access paths, with their origin, constructor(s) and documented releaser;
`tools/ownscan.py` extracts from the clang syntax tree of every file of SRC/ which access paths each routine releases
(with the enclosing conditions, double release, use after release) and which it sets to a fresh block or to a pointer it
was handed (`Slu/Gen/Ownership.lean`).  The theorems below compare the two, by kernel evaluation over the regenerated
table. -/

/-- Disagreements between the source and the specification in which the SOURCE is at fault (a path the documented releaser
never frees), by finding of known_findings.json.  None today: the scan of the pinned tree found the ten object
specifications and the text of their releasers / constructors in agreement (the early returns of [sdcz]gstrf that skip
`[sdcz]LUWorkFree`, open finding D9, are leaking EXITS of a routine, listed in `knownLeakSites` above, not a path missing
from a releaser).  An entry here excuses exactly one (releaser, path) pair and must name its finding. -/
structure OwnershipGap where
  finding : String
  releaser : String
  path : String
deriving DecidableEq

def knownOwnershipGaps : List OwnershipGap := []

def releaserRecs (routine : String) : List OwnRec :=
  ownTable.filter fun r => r.role == "releaser" && r.routine == routine

def ctorRecs (routine param : String) : List OwnRec :=
  ownTable.filter fun r => r.role == "constructor" && r.routine == routine && r.param == param

/-- the documented releaser of `s` frees, unconditionally and in its own text, paths of its one parameter that the
specification says the object owns, none twice, none used after its release - and every owned path exactly once
(unless the pair is an open finding of `knownOwnershipGaps`) -/
def releaserOkOn (tbl : List OwnRec) (s : ObjSpec) : Bool :=
  let rs := tbl.filter fun r => r.role == "releaser" && r.routine == s.releaser
  (rs.all fun r => r.param == s.releaserParam && (specOwned s).contains r.path && r.guard == [] && r.via == "" &&
                   r.kind == "freed" && !r.twice && !r.useAfterFree) &&
  ((specOwned s).all fun p =>
    (rs.filter fun r => r.path == p).length == 1 ||
    ((rs.filter fun r => r.path == p).length == 0 && knownOwnershipGaps.any fun g => g.releaser == s.releaser && g.path == p))

def releaserOk (s : ObjSpec) : Bool := releaserOkOn ownTable s

def originOk (o : Origin) (r : OwnRec) : Bool :=
  match o with
  | .lib => r.kind == "fresh"
  | .caller a => r.kind == "borrowed" && r.source == a
  | .glu f => r.kind == "borrowed" && r.source == "Glu->" ++ f
  | .view src => r.kind == "borrowed" && r.source == src

/-- constructor `c` (routine, parameter) sets every path of the specification, each time from the origin the specification
names (fresh block / the caller's array of that name / that array of Glu / that field of the other object), and stores no
other pointer into the object -/
def ctorOkOn (tbl : List OwnRec) (s : ObjSpec) (c : String × String) : Bool :=
  let rs := tbl.filter fun r => r.role == "constructor" && r.routine == c.1 && r.param == c.2
  (s.paths.all fun p => (rs.any fun r => r.path == p.path) && ((rs.filter fun r => r.path == p.path).all (originOk p.origin))) &&
  (rs.all fun r => s.paths.any fun p => p.path == r.path)

def ctorOk (s : ObjSpec) (c : String × String) : Bool := ctorOkOn ownTable s c

/-- The arrays of `GlobalLU_t` that [sdcz]gstrf wraps into L and U: (field of Glu, the object and path it becomes).  -/
def gluArrays : List (String × String) :=
  [("lusup", "L->Store->nzval"), ("xlusup", "L->Store->nzval_colptr"), ("lsub", "L->Store->rowind"), ("xlsub", "L->Store->rowind_colptr"),
   ("supno", "L->Store->col_to_sup"), ("xsup", "L->Store->sup_to_col"), ("ucol", "U->Store->nzval"), ("usub", "U->Store->rowind"),
   ("xusub", "U->Store->colptr")]

/-- `[sdcz]LUMemInit` (own text) fills `Glu->f` from the allocator only under `Glu->MemModel == SYSTEM`, from the caller's
work area only in the other arm, from the growable storage layer ([sdcz]expand: C07/C08), or - re-factorization with
`SamePattern_SameRowPerm` - with the very array the existing L / U holds at the path `f` is wrapped into (`back`): the
round trip Glu -> L/U -> Glu is the identity on names -/
def gluFieldOkOn (tbl : List OwnRec) (memInit f back : String) : Bool :=
  let rs := tbl.filter fun r => r.role == "constructor" && r.routine == memInit && r.param == "Glu" && r.path == f && r.via == ""
  (rs.any fun r => r.kind == "fresh" || r.kind == "storage") &&
  rs.all fun r =>
    (r.kind == "fresh" && r.guard.contains "Glu->MemModel == SYSTEM") ||
    (r.kind == "workarea" && r.guard.contains "!(Glu->MemModel == SYSTEM)") ||
    r.kind == "storage" ||
    (r.kind == "borrowed" && r.source == back && r.guard.contains "!(fact != SamePattern_SameRowPerm)")

/-- `[sdcz]LUWorkFree(iwork, dwork, Glu)`: the two work arrays under library allocation only, `Glu->expanders` always; and
`[sdcz]LUMemInit` is where `Glu->expanders` is allocated, unconditionally -/
def workFreeOkOn (tbl : List OwnRec) (p : String) : Bool :=
  let rs := tbl.filter fun r => r.role == "releaser" && r.routine == p ++ "LUWorkFree"
  (rs.map fun r => (r.param, r.path, r.guard)) ==
    [("iwork", "", ["Glu->MemModel == SYSTEM"]), ("dwork", "", ["Glu->MemModel == SYSTEM"]), ("Glu", "expanders", [])] &&
  (rs.all fun r => !r.twice && !r.useAfterFree) &&
  (tbl.any fun r => r.role == "constructor" && r.routine == p ++ "LUMemInit" && r.param == "Glu" && r.path == "expanders" &&
                    r.kind == "fresh" && r.guard == [] && r.via == "")

/-- routines that hand the caller three fresh arrays through output parameters (which `[sdcz]Create_CompCol_Matrix` then
wraps): (routine, its three output parameters) -/
def arrayProducers : List (String × List String) :=
  (prec4 "" "allocateA").map (·, ["a", "asub", "xa"]) ++ (prec4 "" "CompRow_to_CompCol").map (·, ["at", "rowind", "colptr"]) ++
  (prec4 "" "readhb" ++ prec4 "" "readrb" ++ prec4 "" "readtriple" ++ prec4 "" "readMM").map (·, ["nzval", "rowind", "colptr"])

def producerOkOn (tbl : List OwnRec) (c : String × List String) : Bool :=
  c.2.all fun prm =>
    let rs := tbl.filter fun r => r.role == "constructor" && r.routine == c.1 && r.param == prm && r.path == "*"
    !rs.isEmpty && rs.all fun r => r.kind == "fresh"

/-- **C19 `destroy_frees_what_is_owned`**: in the current source, for every object specification of
`Slu.Ledger.allSpecs` (CompCol, CompRow, Dense, SuperLUStat_t, the permuted view, SuperNode, and L and U under library
allocation and in a caller work area) the documented releaser - `Destroy_CompCol_Matrix`, `Destroy_CompRow_Matrix`,
`Destroy_Dense_Matrix`, `StatFree`, `Destroy_CompCol_Permuted`, `Destroy_SuperNode_Matrix`, `Destroy_SuperMatrix_Store` -
frees EXACTLY the access paths `specOwned` lists (header block included): each once, unconditionally, never a path
outside the list (so never the arrays a view shares with another object, never the work-area pieces), none twice, none
dereferenced after its release; `[sdcz]LUWorkFree` releases `Glu->expanders` always and the two work arrays under
library allocation only; and the block count of every ledger object is the number of its library-allocated paths. -/
theorem destroy_frees_what_is_owned :
    (∀ s ∈ allSpecs, releaserOk s = true) ∧
    (∀ p ∈ ["s", "d", "c", "z"], workFreeOkOn ownTable p = true) ∧
    (∀ o : Obj, ∀ s ∈ o.specs, s ∈ allSpecs ∧ o.blocks = (specLibrary s).length) := by
  have k1 : ∀ s ∈ [specCompCol, specCompRow], s ∈ allSpecs ∧ 1 = (specLibrary s).length := by decide
  have k2 : ∀ s ∈ [specDense], s ∈ allSpecs ∧ 1 = (specLibrary s).length := by decide
  have k3 : ∀ s ∈ [specStat], s ∈ allSpecs ∧ 3 = (specLibrary s).length := by decide
  have k4 : ∀ s ∈ [specPermuted], s ∈ allSpecs ∧ 3 = (specLibrary s).length := by decide
  have k5 : ∀ ws : Bool, ∀ s ∈ [specL ws], s ∈ allSpecs ∧ (if ws then 1 else 7) = (specLibrary s).length := by decide
  have k6 : ∀ ws : Bool, ∀ s ∈ [specU ws], s ∈ allSpecs ∧ (if ws then 1 else 4) = (specLibrary s).length := by decide
  refine ⟨by decide +kernel, by decide +kernel, ?_⟩
  intro o s hs
  cases o with
  | mat h => exact k1 s hs
  | dense h => exact k2 s hs
  | stat h => exact k3 s hs
  | acview h => exact k4 s hs
  | facL h ws => exact k5 ws s hs
  | facU h ws => exact k6 ws s hs

/-- **C19 `constructors_allocate_what_is_owned`**: in the current source every documented constructor of every object
specification sets every path of the specification, from the origin the specification names - `[sdcz]Create_CompCol_Matrix`
allocates `Store` and BORROWS nzval / rowind / colptr (which `Destroy_CompCol_Matrix` later frees: the matrix takes the
caller's arrays over, documented SuperLU behaviour), `sp_preorder` allocates `Store`, `colbeg`, `colend` and shares A's
`nzval`, `rowind`, `[sdcz]gstrf` / `[sdcz]gsitrf` allocate the two `Store` headers (through `[sdcz]Create_SuperNode_Matrix` /
`[sdcz]Create_CompCol_Matrix`) around the nine arrays of Glu, … - and stores no other pointer into the object; the nine
arrays of Glu come, in `[sdcz]LUMemInit`, from the allocator exactly under `Glu->MemModel == SYSTEM`, from the work area
otherwise, or are the arrays of the existing L and U at the same paths; the readers, `[sdcz]allocateA` and
`[sdcz]CompRow_to_CompCol` hand out fresh arrays; `[sdcz]Copy_CompCol_Matrix` stores no pointer at all. -/
theorem constructors_allocate_what_is_owned :
    (∀ s ∈ allSpecs, ∀ c ∈ s.ctors, ctorOk s c = true) ∧
    (∀ p ∈ ["s", "d", "c", "z"], ∀ g ∈ gluArrays, gluFieldOkOn ownTable (p ++ "LUMemInit") g.1 g.2 = true) ∧
    (∀ c ∈ arrayProducers, producerOkOn ownTable c = true) ∧
    (∀ r ∈ ownTable, r.routine ∉ prec4 "" "Copy_CompCol_Matrix") := by
  refine ⟨by decide +kernel, by decide +kernel, by decide +kernel, by decide +kernel⟩

/-- the scan succeeded and saw the whole library: self check passed, every release of something reached from a parameter
got an access path, all of SRC/ was parsed, and the table has (at least) the expected numbers of records and of specified
objects - it cannot silently become empty or partial -/
theorem ownership_scan_complete :
    ownOk = true ∧ ownUnresolved = 0 ∧ 180 ≤ ownFiles ∧ 480 ≤ ownFunctions ∧
    150 ≤ (ownTable.filter fun r => r.role == "releaser").length ∧
    600 ≤ (ownTable.filter fun r => r.role == "constructor").length ∧
    24 = (ownTable.filter fun r => r.role == "releaser" && (allSpecs.map (·.releaser)).contains r.routine).length ∧
    allSpecs.length = 10 ∧ ((allSpecs.map fun s => (specOwned s).length) = [4, 4, 2, 3, 3, 7, 7, 1, 4, 1]) ∧
    ((allSpecs.map fun s => s.ctors.length) = [4, 4, 4, 1, 1, 4, 8, 8, 8, 8]) ∧ knownOwnershipGaps.length = 0 := by
  decide +kernel

/-! Non-vacuity: tables that violate each predicate. -/

def sampleFree (routine path : String) (seq : Nat) : OwnRec :=
  { routine := routine, role := "releaser", param := "A", path := path, kind := "freed", source := "", guard := [], via := "",
    inType := "", seq := seq, line := 0, twice := false, useAfterFree := false }

def sampleStore (routine param path kind source : String) : OwnRec :=
  { routine := routine, role := "constructor", param := param, path := path, kind := kind, source := source, guard := [], via := "",
    inType := "", seq := 0, line := 0, twice := false, useAfterFree := false }

/-- the faithful text of `Destroy_Dense_Matrix` passes … -/
example : releaserOkOn [sampleFree "Destroy_Dense_Matrix" "Store->nzval" 0, sampleFree "Destroy_Dense_Matrix" "Store" 1] specDense = true := by decide
/-- … a `Destroy_Dense_Matrix` that forgets the header fails (a leak), … -/
example : releaserOkOn [sampleFree "Destroy_Dense_Matrix" "Store->nzval" 0] specDense = false := by decide
/-- … a `Destroy_CompCol_Permuted` that also frees the row indices it shares with A fails (frees what it does not own), … -/
example : releaserOkOn [sampleFree "Destroy_CompCol_Permuted" "Store->colbeg" 0, sampleFree "Destroy_CompCol_Permuted" "Store->colend" 1,
    sampleFree "Destroy_CompCol_Permuted" "Store->rowind" 2, sampleFree "Destroy_CompCol_Permuted" "Store" 3] specPermuted = false := by decide
/-- … a deep `Destroy_SuperMatrix_Store` fails for factors in a work area, … -/
example : releaserOkOn [sampleFree "Destroy_SuperMatrix_Store" "Store->nzval" 0, sampleFree "Destroy_SuperMatrix_Store" "Store" 1] (specU true) = false := by decide
/-- … as do a release under a condition, a double release and a use after the release. -/
example : releaserOkOn [{ sampleFree "Destroy_Dense_Matrix" "Store->nzval" 0 with guard := ["A->Stype == SLU_DN"] },
    sampleFree "Destroy_Dense_Matrix" "Store" 1] specDense = false := by decide
example : releaserOkOn [{ sampleFree "Destroy_Dense_Matrix" "Store" 0 with useAfterFree := true },
    sampleFree "Destroy_Dense_Matrix" "Store->nzval" 1] specDense = false := by decide
example : releaserOkOn [{ sampleFree "Destroy_Dense_Matrix" "Store->nzval" 0 with twice := true }, { sampleFree "Destroy_Dense_Matrix" "Store->nzval" 1 with twice := true },
    sampleFree "Destroy_Dense_Matrix" "Store" 2] specDense = false := by decide

/-- the faithful text of `dCreate_Dense_Matrix` passes; one that copies the caller's array into a fresh block (the caller's
array would then never be the matrix's, and `Destroy_Dense_Matrix` would free the copy only) fails; one that forgets to set
`nzval` fails; one that stores a further pointer fails -/
example : ctorOkOn [sampleStore "dCreate_Dense_Matrix" "X" "Store" "fresh" "superlu_malloc",
    sampleStore "dCreate_Dense_Matrix" "X" "Store->nzval" "borrowed" "x"] specDense ("dCreate_Dense_Matrix", "X") = true := by decide
example : ctorOkOn [sampleStore "dCreate_Dense_Matrix" "X" "Store" "fresh" "superlu_malloc",
    sampleStore "dCreate_Dense_Matrix" "X" "Store->nzval" "fresh" "doubleMalloc"] specDense ("dCreate_Dense_Matrix", "X") = false := by decide
example : ctorOkOn [sampleStore "dCreate_Dense_Matrix" "X" "Store" "fresh" "superlu_malloc"] specDense ("dCreate_Dense_Matrix", "X") = false := by decide
example : ctorOkOn [sampleStore "dCreate_Dense_Matrix" "X" "Store" "fresh" "superlu_malloc", sampleStore "dCreate_Dense_Matrix" "X" "Store->nzval" "borrowed" "x",
    sampleStore "dCreate_Dense_Matrix" "X" "Store->scale" "fresh" "doubleMalloc"] specDense ("dCreate_Dense_Matrix", "X") = false := by decide

/-- `Glu->xsup` allocated without the test of the memory model fails; so does a re-use of the wrong array of L -/
example : gluFieldOkOn [sampleStore "dLUMemInit" "Glu" "xsup" "fresh" "int32Malloc"] "dLUMemInit" "xsup" "L->Store->sup_to_col" = false := by decide
example : gluFieldOkOn [{ sampleStore "dLUMemInit" "Glu" "xsup" "fresh" "int32Malloc" with guard := ["Glu->MemModel == SYSTEM"] },
    { sampleStore "dLUMemInit" "Glu" "xsup" "borrowed" "L->Store->col_to_sup" with guard := ["!(fact != SamePattern_SameRowPerm)"] }]
    "dLUMemInit" "xsup" "L->Store->sup_to_col" = false := by decide
example : gluFieldOkOn [{ sampleStore "dLUMemInit" "Glu" "xsup" "fresh" "int32Malloc" with guard := ["Glu->MemModel == SYSTEM"] },
    { sampleStore "dLUMemInit" "Glu" "xsup" "borrowed" "L->Store->sup_to_col" with guard := ["!(fact != SamePattern_SameRowPerm)"] }]
    "dLUMemInit" "xsup" "L->Store->sup_to_col" = true := by decide

/-- a reader that hands back one of the caller's own arrays fails -/
example : producerOkOn [sampleStore "dreadhb" "nzval" "*" "fresh" "doubleMalloc", sampleStore "dreadhb" "rowind" "*" "fresh" "intMalloc",
    sampleStore "dreadhb" "colptr" "*" "borrowed" "work"] ("dreadhb", ["nzval", "rowind", "colptr"]) = false := by decide

end Slu.C19
