import SluProofs.Lemmas.LUInv
import SluProofs.Lemmas.CxRat
import SluProofs.Lemmas.LUSchedule
import SluProofs.Lemmas.DfsTopo
import SluProofs.Lemmas.Prune
import SluProofs.Lemmas.ColDfs
import SluProofs.Lemmas.PanelDfs
/-
C02 — Factors reproduce the permuted matrix; pivoting bounds hold.

Theorems about `Slu.LU.luFactor` (column LU with the pivot policy of `[sdcz]pivotL`), for every
m, n, every matrix (columns of `A*Pc` as length-m vectors), every threshold `0 < u ≤ 1`, every
candidate order, every reuse state (`usepr`, remembered pivots) and every choice of diagonal rows,
over an arbitrary field `K` with a magnitude function satisfying `MagLaws` (exact arithmetic;
`K = Rat` with `|x|` is the instance exercised below).

Reading the statements: `st.piv[k]` is the row of A chosen as k-th pivot (`perm_r[piv k] = k`);
`st.L[k]` is column k of L indexed by ORIGINAL row, so `(Pr A Pc)(perm_r i, j) = A(i, pc⁻¹ j) =
(P.col j).get i` and `L(perm_r i, k) = (st.L[k]).get i`; `st.U[j]` holds `U(0..j, j)`.

ELIMINATION ORDER.  `luFactor` eliminates column j by ALL previous columns in natural order; the
library ([sdcz]panel_dfs / column_dfs / panel_bmod / column_bmod) visits only the columns reached by
a depth-first search, supernode by supernode, in a topological order.  What is proved here:
* `luFactor_schedule_independent`, `luFactor_supernodal_schedule`, `luFactorBlocks_eq_luFactor`:
  every `ValidSchedule` (visited columns once each, dependencies respected, every column left out
  has multiplier zero) — processed by dense block updates — gives exactly the natural-order result;
* `luFactor_dfs_validSchedule`, `luFactor_dfs_schedule`, `luFactor_dfs`, `luFactor_dfs_numeric`:
  THE REVERSE POSTORDER OF THE DEPTH-FIRST SEARCH (`Slu.LU.dfsRevPost`, Slu/Model/Dfs.lean: from the
  previous columns whose pivot row is a nonzero row of A(:,j), along the edges k → k' with
  piv k' ∈ struct(L_k)) IS a valid schedule, for every pattern `adj`/`roots` that CONTAINS the
  numerically nonzero one; hence the factorization that eliminates every column along that order
  equals `luFactor`.  The search itself is verified in Lemmas/DfsTopo.lean: it lists no node twice,
  lists exactly the reach of the roots, and lists every node before its successors
  (`dfsPost_nodup`, `mem_dfsPost_iff`, `dfsPost_topo`);
* `luFactor_snode_dfs_validSchedule`, `luFactor_snode_dfs_schedule`, `luFactor_snode_dfs`: the same
  for the search on SUPERNODE REPRESENTATIVES with one block `repfnz[s]..s` per reached supernode
  (`snodeSegs`), provided the structure of a supernode contains the numeric structure below the
  diagonal block of each of its columns;
* `validSchedule_filter` (Lemmas/DfsTopo.lean): a column of a panel may take its segments out of a
  longer topological list (the panel-wide `segrep` of [sdcz]panel_dfs);
* SYMMETRIC PRUNING ([sdcz]pruneL.c; Lemmas/Prune.lean).  The searches do not scan the full lists:
  once a column `c` is factored, the list of every `k` that forms a symmetric pair with `c` is cut
  down to its rows `≤ c` (`pruneAdj p adj`, `p k = some c`).  Proved for ANY cuts `p` that satisfy
  `PruneOkAdj` (`c ∈ adj k`, and every `r ∈ adj k` beyond `c` is in `adj c` — the fill property (F) of
  the symbolic structure for that pair; `Symb.fillSym_colStruct` derives (F) from `ColReach.step` for
  every symmetric pair, so any choice of symmetric pairs is legal, `Symb.pruneOk_of_symPair`):
  - `prune_preserves_reach`, `prune_preserves_newRows`: on relations, for every `t` the pruned graph
    `G'_t` has the same reachability as the full graph `G_t`, and a search meets the same rows —
    the pivotal ones it follows and the non-pivotal ones (`≥ t`) it collects as new rows of L;
  - `dfsPost_pruned_same_vertices`, `dfsPost_pruned_topo_full`: the executable search on the pruned
    lists visits exactly the same columns (`segrep` is a permutation of the unpruned one) and lists
    every column before ALL its successors in the FULL lists, also those whose edge was cut
    (`dfsPost_topo_reach`: a depth-first postorder respects reachability, not only edges);
  - `luFactor_pruned_dfs_validSchedule`, `luFactor_pruned_dfs_schedule`, `luFactor_pruned_dfs`: hence
    the reverse postorder of the PRUNED search is a valid schedule whenever the FULL pattern
    contains the numeric one, and the factorization that eliminates every column along it equals
    `luFactor` (cuts may change from column to column and depend on the factors so far).
What REMAINS tied by correspondence only (family `symb`), not by a theorem: that the C routines
[sdcz]panel_dfs / [sdcz]column_dfs — iterative search with an explicit stack (`parent`, `xplore`),
marker arrays shared across a panel — compute this search on a pattern (`xlsub`/`lsub`,
`xsup`/`supno`) that contains the numeric one and satisfies the supernode hypothesis, and that
`segrep`/`repfnz` as consumed by [sdcz]panel_bmod / column_bmod are the lists `snodeSegs` models.
(panel_bmod applies the segments that end before the panel, column_bmod then those inside the
panel: two cuts of one topological order, which the "any grouping" form of
`validSchedule_of_closedTopo` covers.)  For pruning what remains is that [sdcz]pruneL.c computes
such a `p` — it cuts `k` at the first column `c` with `k ∈ segrep(c)`, `repfnz ≠ EMPTY` and
`pivrow(c) ∈ lsub(k)`, i.e. at a symmetric pair, keeps exactly the rows with `perm_r ≠ EMPTY`
(`≤ c` in pivot numbering) in front of `xprune[k]`, and never cuts twice — and that the C searches
scan exactly `xlsub[k] .. xprune[k]-1`.  The pruning theorems are at COLUMN level (one column per
node, as `luFactor_dfs`); the combination with supernode representatives (`snodeSegs`; the C code
skips the cut when `k` and `k+1` share a supernode and cuts the shared list of a supernode through
its last column) is not proved.
-/
namespace Slu.LU
open Slu

variable {K : Type} [Field K] [Mag K Rat]

/-- hypotheses shared by the theorems: a legal threshold and columns of the declared length -/
structure Legal (P : Params K Rat) : Prop where
  u_pos : 0 < P.u
  u_le_one : P.u ≤ 1
  col_size : ∀ j, (P.col j).size = P.m

/-- **C02 (identity).** On success `(Pr A Pc)(i, j) = Σ_{k ≤ j} L(i,k) U(k,j)` for every row and
column — exactly, in exact arithmetic. -/
theorem luFactor_identity (laws : MagLaws K) (P : Params K Rat) (hP : Legal P) (b : Bool)
    (h : (luFactor P b).info = 0) (j : Nat) (hj : j < P.n) (i : Nat) (hi : i < P.m) :
    (P.col j).get i =
      ((List.range (j + 1)).map fun k =>
        ((luFactor P b).U.getD j #[]).getD k 0 * ((luFactor P b).L.getD k #[]).get i).sum := by
  rw [luFactor_eq_run] at h ⊢
  have inv := run_inv laws P (le_of_lt hP.u_pos) hP.u_le_one hP.col_size b P.n h
  rw [inv.ident j hj i hi, dotL_prev _ _ (j + 1) i (by rw [Array.length_toList]; exact inv.usize j hj)]
  congr 1
  apply List.map_congr_left
  intro t _
  congr 1
  generalize (run P b P.n).U.getD j #[] = a
  by_cases ht : t < a.size <;> simp [Array.getD, List.getD, ht]

/-- **C02 (unit lower trapezoidal L).** `L(piv k, k) = 1` and `L(piv k', k) = 0` for `k' < k`:
in the permuted row order L has a unit diagonal and nothing above it. -/
theorem luFactor_unit_lower (laws : MagLaws K) (P : Params K Rat) (hP : Legal P) (b : Bool)
    (h : (luFactor P b).info = 0) (k : Nat) (hk : k < P.n) :
    ((luFactor P b).L.getD k #[]).get ((luFactor P b).piv.getD k 0) = 1 ∧
    ∀ k' < k, ((luFactor P b).L.getD k #[]).get ((luFactor P b).piv.getD k' 0) = 0 := by
  rw [luFactor_eq_run] at h ⊢
  have hk' := run_info_le P b P.n (k + 1) (by omega) h
  have inv := run_inv laws P (le_of_lt hP.u_pos) hP.u_le_one hP.col_size b (k + 1) hk'
  have invn := run_inv laws P (le_of_lt hP.u_pos) hP.u_le_one hP.col_size b P.n h
  -- read the property off `UnitLower (prev st n)`
  have key : ∀ (Ls : List (Nat × Vec K)), UnitLower Ls → ∀ (a : Nat) (x : Nat × Vec K), Ls[a]? = some x →
      x.2.get x.1 = 1 ∧ ∀ (a' : Nat) (y : Nat × Vec K), a' < a → Ls[a']? = some y → x.2.get y.1 = 0 := by
    intro Ls
    induction Ls with
    | nil => intro _ a x hx; simp at hx
    | cons pl rest ih =>
      obtain ⟨p, l⟩ := pl
      intro hU a x hx
      obtain ⟨h1, h2, h3⟩ := hU
      cases a with
      | zero =>
        simp at hx; subst hx
        exact ⟨h1, fun a' y ha' _ => by omega⟩
      | succ a =>
        simp at hx
        have := ih h3 a x hx
        refine ⟨this.1, ?_⟩
        intro a' y ha' hy
        cases a' with
        | zero => simp at hy; subst hy; exact h2 x (List.mem_of_getElem? hx)
        | succ a' => simp at hy; exact this.2 a' y (by omega) hy
  have hget : ∀ t < P.n, (prev (run P b P.n) P.n)[t]? = some ((run P b P.n).piv.getD t 0, (run P b P.n).L.getD t #[]) := by
    intro t ht; simp [prev, ht]
  have := key _ invn.unit k _ (hget k hk)
  exact ⟨this.1, fun k' hk' => this.2 k' _ hk' (hget k' (by omega))⟩

/-- **C02 (U has a nonzero diagonal).** -/
theorem luFactor_diag_nonzero (laws : MagLaws K) (P : Params K Rat) (hP : Legal P) (b : Bool)
    (h : (luFactor P b).info = 0) (k : Nat) (hk : k < P.n) :
    ((luFactor P b).U.getD k #[]).getD k 0 ≠ 0 ∧ ((luFactor P b).U.getD k #[]).size = k + 1 := by
  rw [luFactor_eq_run] at h ⊢
  have inv := run_inv laws P (le_of_lt hP.u_pos) hP.u_le_one hP.col_size b P.n h
  exact ⟨inv.udiag k hk, inv.usize k hk⟩

/-- **C02 (the row permutation is a bijection).** The pivot rows are pairwise distinct rows of A, one
per column; for a square matrix every row is a pivot row (injective map between equal finite sets),
for a tall one `permR` numbers the remaining rows after them. -/
theorem luFactor_pivots_injective (laws : MagLaws K) (P : Params K Rat) (hP : Legal P) (b : Bool)
    (h : (luFactor P b).info = 0) :
    (luFactor P b).piv.size = P.n ∧ (luFactor P b).piv.toList.Nodup ∧
    ∀ k < P.n, (luFactor P b).piv.getD k 0 < P.m := by
  rw [luFactor_eq_run] at h ⊢
  have inv := run_inv laws P (le_of_lt hP.u_pos) hP.u_le_one hP.col_size b P.n h
  exact ⟨inv.sizes.1, inv.nodup, inv.prange⟩

/-- **C02 (threshold pivoting, numerator form).** For every row `i` that was a pivot candidate of
column `k`: `u * |L(i,k) * U(k,k)| ≤ |U(k,k)|` — the quantity the code compares (`|re|+|im|` for
complex data). -/
theorem luFactor_multiplier_bound (laws : MagLaws K) (P : Params K Rat) (hP : Legal P) (b : Bool)
    (h : (luFactor P b).info = 0) (k : Nat) (hk : k < P.n) (i : Nat) (hi : i ∈ P.order k)
    (hnot : i ∉ (luFactor P b).piv.toList.take k) :
    P.u * (Mag.abs1 (((luFactor P b).L.getD k #[]).get i * ((luFactor P b).U.getD k #[]).getD k 0) : Rat) ≤
      (Mag.abs1 (((luFactor P b).U.getD k #[]).getD k 0) : Rat) := by
  rw [luFactor_eq_run] at h hnot ⊢
  have inv := run_inv laws P (le_of_lt hP.u_pos) hP.u_le_one hP.col_size b P.n h
  exact inv.mult k hk i hi hnot

/-- **C02 (multipliers bounded by 1/u, real data).** With a multiplicative magnitude (`|ab| = |a||b|`,
true for real scalars) every stored multiplier satisfies `|L(i,k)| ≤ 1/u`. -/
theorem luFactor_multiplier_le_inv_u (laws : MagLaws K) (hmul : ∀ a b : K, (Mag.abs1 (a * b) : Rat) = Mag.abs1 a * Mag.abs1 b)
    (P : Params K Rat) (hP : Legal P) (b : Bool)
    (h : (luFactor P b).info = 0) (k : Nat) (hk : k < P.n) (i : Nat) (hi : i ∈ P.order k)
    (hnot : i ∉ (luFactor P b).piv.toList.take k) :
    (Mag.abs1 (((luFactor P b).L.getD k #[]).get i) : Rat) ≤ 1 / P.u := by
  have hb := luFactor_multiplier_bound laws P hP b h k hk i hi hnot
  have hd := (luFactor_diag_nonzero laws P hP b h k hk).1
  rw [hmul] at hb
  set d : Rat := Mag.abs1 (((luFactor P b).U.getD k #[]).getD k 0) with hdd
  have hdpos : 0 < d := by
    rcases lt_or_eq_of_le (laws.nonneg (((luFactor P b).U.getD k #[]).getD k 0)) with h1 | h1
    · exact h1
    · exact absurd (laws.definite _ h1.symm) hd
  have hu := hP.u_pos
  rw [le_div_iff₀ hu]
  have : P.u * (Mag.abs1 (((luFactor P b).L.getD k #[]).get i) : Rat) * d ≤ 1 * d := by
    calc _ = P.u * ((Mag.abs1 (((luFactor P b).L.getD k #[]).get i) : Rat) * d) := by ring
      _ ≤ d := hb
      _ = 1 * d := by ring
  have := le_of_mul_le_mul_right this hdpos
  linarith

end Slu.LU

namespace Slu.LU
open Slu
variable {K : Type} [Mag K Rat]

/-- **C02 (diagonal preference).** Without reuse, whenever the diagonal row is a candidate whose
magnitude is nonzero and at least `u * max`, the diagonal row is the pivot. -/
theorem pivot_diag_preference (j : Nat) (cands : List (Nat × K)) (u : Rat) (oldRow diagRow d : Nat)
    (hmax : (scanPiv (R := Rat) cands).1 ≠ 0)
    (hd : findRow cands diagRow = some d)
    (hp : passes cands (u * (scanPiv (R := Rat) cands).1) d = true) :
    (pivotChoice (R := Rat) j cands (fun p => u * p) false oldRow diagRow).info = 0 ∧
    (pivotChoice (R := Rat) j cands (fun p => u * p) false oldRow diagRow).row = diagRow ∧
    (pivotChoice (R := Rat) j cands (fun p => u * p) false oldRow diagRow).pos = d := by
  obtain ⟨c, hc, hrow⟩ := findRow_spec cands diagRow d hd
  unfold pivotChoice
  generalize hsp : scanPiv (R := Rat) cands = sp at *
  obtain ⟨pivmax, pivptr⟩ := sp
  simp only at hmax hp ⊢
  have hz : IsZero.isZero pivmax = false := by
    cases h : IsZero.isZero pivmax
    · rfl
    · exact absurd ((isZero_rat _).mp h) hmax
  simp [hz, hd, hp, hc, hrow]

/-- **C02 (reuse kept).** With reuse on, the remembered row is kept exactly when it is a candidate
that passes the same test; the flag stays on. -/
theorem pivot_reuse_kept (j : Nat) (cands : List (Nat × K)) (u : Rat) (oldRow diagRow op : Nat)
    (hmax : (scanPiv (R := Rat) cands).1 ≠ 0)
    (ho : findRow cands oldRow = some op)
    (hp : passes cands (u * (scanPiv (R := Rat) cands).1) op = true) :
    (pivotChoice (R := Rat) j cands (fun p => u * p) true oldRow diagRow).row = oldRow ∧
    (pivotChoice (R := Rat) j cands (fun p => u * p) true oldRow diagRow).usepr = true ∧
    (pivotChoice (R := Rat) j cands (fun p => u * p) true oldRow diagRow).info = 0 := by
  unfold pivotChoice
  generalize hsp : scanPiv (R := Rat) cands = sp at *
  obtain ⟨pivmax, pivptr⟩ := sp
  simp only at hmax hp ⊢
  have hz : IsZero.isZero pivmax = false := by
    cases h : IsZero.isZero pivmax
    · rfl
    · exact absurd ((isZero_rat _).mp h) hmax
  simp [hz, ho, hp, Option.filter]

/-- **C02 (reuse abandoned).** If the remembered row is absent or fails the test, the reuse flag is
cleared; and once cleared it stays cleared (the policy reverts for the rest of the factorization,
because `step` feeds the returned flag to the next column). -/
theorem pivot_reuse_abandoned (j : Nat) (cands : List (Nat × K)) (u : Rat) (usepr : Bool) (oldRow diagRow : Nat)
    (h : usepr = false ∨ findRow cands oldRow = none ∨
         ∃ op, findRow cands oldRow = some op ∧ passes cands (u * (scanPiv (R := Rat) cands).1) op = false) :
    (pivotChoice (R := Rat) j cands (fun p => u * p) usepr oldRow diagRow).usepr = false := by
  unfold pivotChoice
  generalize hsp : scanPiv (R := Rat) cands = sp at *
  obtain ⟨pivmax, pivptr⟩ := sp
  simp only at h ⊢
  by_cases hz : IsZero.isZero pivmax = true
  · simp [hz]
  · simp only [hz, Bool.false_eq_true, if_false]
    rcases h with h | h | ⟨op, h1, h2⟩
    · subst h; simp
    · cases usepr <;> simp [h]
    · cases usepr <;> simp [h1, h2, Option.filter]

end Slu.LU

/-! ### Schedule independence -/
namespace Slu.LU
open Slu

variable {K : Type} [Field K] [Mag K Rat]

/-- **C02 (elimination order).** In a state satisfying the invariant, eliminating column `j` by the
previous columns in ANY order `σ` that is a permutation of `prev st j` respecting the dependencies
(`DepRespecting`: whenever column `a` precedes column `b` in natural order and `L_a(piv b) ≠ 0`,
`a` precedes `b` in `σ`) gives
* the same eliminated column,
* the same multiplier for every previous column (`zip` pairs each column with its multiplier),
* the same pivot candidates, and
* the same new state (pivot decision, new L column, new U column — `stepSched` assembles the U
  column by pivot row) as `step`. -/
theorem luFactor_schedule_independent (P : Params K Rat) (st : St K) (j : Nat) (h : Inv P st j)
    (σ : List (Nat × Vec K)) (hp : σ.Perm (prev st j)) (hd : DepRespecting (prev st j) σ) :
    (elim σ (P.col j)).1 = stepW P st j ∧
    (σ.zip (elim σ (P.col j)).2).Perm ((prev st j).zip (stepUs P st j)) ∧
    (((P.order j).filter (fun r => !(st.piv.contains r))).map fun r => (r, (elim σ (P.col j)).1.get r))
      = stepCands P st j ∧
    stepSched P st j σ = step P st j := by
  obtain ⟨h1, h2⟩ := elim_depRespecting (prev st j) σ (P.col j) h.unit hp hd
  refine ⟨h1, h2, by rw [h1]; rfl, ?_⟩
  apply stepSchedOf_eq_step P st j σ _ h1
  intro k hk
  exact multAt_schedule (fun _ => true) (prev st j) σ (P.col j) h.unit (by simpa using hp) (by simpa using hd)
    (by simp) k hk

/-- **C02 (supernodal schedule).** The same for the real shape of the update: a sequence `bs` of
supernodes, each processed by a dense triangular solve and a matrix-vector product (`elimBlocks`),
visiting only a subset of the previous columns (`ValidSchedule`: each visited column once,
dependencies among the visited columns respected, every column left out has multiplier zero). -/
theorem luFactor_supernodal_schedule (P : Params K Rat) (hP : Legal P) (st : St K) (j : Nat) (h : Inv P st j)
    (bs : List (List (Nat × Vec K))) (hv : ValidSchedule (prev st j) (P.col j) bs) :
    (elimBlocks bs (P.col j)).1 = stepW P st j ∧ stepBlocks P st j bs = step P st j := by
  obtain ⟨keep, hp, hd, hz⟩ := hv
  obtain ⟨h1, h2⟩ := elimBlocks_schedule keep (prev st j) bs (P.col j) h.unit (h.prev_range hP.col_size) hp hd hz
  exact ⟨h1, stepSchedOf_eq_step P st j _ _ h1 h2⟩

/-- **C02 (whole factorization).** A factorization that processes every column by a valid schedule
of supernodal block updates — the schedule may be chosen per column and may depend on the factors
computed so far — returns exactly `luFactor`: same pivots, same L, same U, same `info`. -/
theorem luFactorBlocks_eq_luFactor (laws : MagLaws K) (P : Params K Rat) (hP : Legal P) (b : Bool)
    (sched : St K → Nat → List (List (Nat × Vec K)))
    (hs : ∀ j < P.n, (run P b j).info = 0 →
      ValidSchedule (prev (run P b j) j) (P.col j) (sched (run P b j) j)) :
    luFactorBlocks P b sched = luFactor P b := by
  rw [luFactor_eq_run]
  unfold luFactorBlocks
  have key : ∀ j ≤ P.n,
      (List.range j).foldl (fun st j => stepBlocks P st j (sched st j)) { usepr := b } = run P b j := by
    intro j
    induction j with
    | zero => intro _; simp [run]
    | succ j ih =>
      intro hj
      rw [List.range_succ, List.foldl_append, ih (by omega), run_succ]
      simp only [List.foldl_cons, List.foldl_nil]
      by_cases h0 : (run P b j).info = 0
      · exact (luFactor_supernodal_schedule P hP _ j
          (run_inv laws P (le_of_lt hP.u_pos) hP.u_le_one hP.col_size b j h0) _ (hs j (by omega) h0)).2
      · rw [step_stuck P _ j h0]
        simp [stepBlocks, stepSchedOf, h0]
  exact key P.n (le_refl _)

end Slu.LU

/-! ### The schedule computed by the depth-first search -/
namespace Slu.LU
open Slu

variable {K : Type} [Field K] [Mag K Rat]

/-- **C02 (the DFS order is a valid schedule).** State `st` after `j` columns (`Inv`).  `adj` is any
successor pattern on the previous columns whose edges go forward (`k < r < j`) and which CONTAINS
the numerically nonzero one (`hpat`: `L_k(piv k') ≠ 0 → k' ∈ adj k`); `roots` are columns `< j`
containing every `k` with `A(piv k, j) ≠ 0` (`hroots`).  Then the reached columns in reverse
depth-first postorder (`dfsSchedule`), cut into consecutive blocks `bs` in any way, are a
`ValidSchedule` for column `j`: each once, dependencies respected, every column not reached has
multiplier zero in the natural-order elimination. -/
theorem luFactor_dfs_validSchedule (P : Params K Rat) (st : St K) (j : Nat) (h : Inv P st j)
    (adj : Nat → List Nat) (roots : List Nat)
    (hadj : ∀ k, ∀ r ∈ adj k, k < r ∧ r < j) (hrootlt : ∀ r ∈ roots, r < j)
    (hpat : ∀ k k', k < k' → k' < j → (st.L.getD k #[]).get (st.piv.getD k' 0) ≠ 0 → k' ∈ adj k)
    (hroots : ∀ k < j, (P.col j).get (st.piv.getD k 0) ≠ 0 → k ∈ roots)
    (bs : List (List (Nat × Vec K))) (hbs : bs.flatten = (dfsSchedule st j adj roots).flatten) :
    ValidSchedule (prev st j) (P.col j) bs := by
  have hlen : (prev st j).length = j := prev_length st j
  apply validSchedule_dfs (prev st j) (P.col j) adj roots (fun k => (st.piv.getD k 0, st.L.getD k #[])) h.unit
  · intro k hk; rw [prev_getElem]
  · rw [hlen]; exact hadj
  · rw [hlen]; exact hrootlt
  · intro k k' hkk' hk'
    rw [prev_getElem, prev_getElem]
    exact hpat k k' hkk' (hlen ▸ hk')
  · intro k hk
    rw [prev_getElem]
    exact hroots k (hlen ▸ hk)
  · rw [hbs, dfsSchedule, scheduleOf_flatten, hlen]

/-- **C02 (one column along the DFS order).** Eliminating column `j` by the reached columns only, in
reverse depth-first postorder, leaves the eliminated column of the model and produces the model's
next state (pivot decision, L column, U column). -/
theorem luFactor_dfs_schedule (P : Params K Rat) (hP : Legal P) (st : St K) (j : Nat) (h : Inv P st j)
    (adj : Nat → List Nat) (roots : List Nat)
    (hadj : ∀ k, ∀ r ∈ adj k, k < r ∧ r < j) (hrootlt : ∀ r ∈ roots, r < j)
    (hpat : ∀ k k', k < k' → k' < j → (st.L.getD k #[]).get (st.piv.getD k' 0) ≠ 0 → k' ∈ adj k)
    (hroots : ∀ k < j, (P.col j).get (st.piv.getD k 0) ≠ 0 → k ∈ roots) :
    (elimBlocks (dfsSchedule st j adj roots) (P.col j)).1 = stepW P st j ∧
    stepBlocks P st j (dfsSchedule st j adj roots) = step P st j :=
  luFactor_supernodal_schedule P hP st j h _
    (luFactor_dfs_validSchedule P st j h adj roots hadj hrootlt hpat hroots _ rfl)

/-- **C02 (whole factorization along the DFS order).** Patterns may be chosen per column and may
depend on the factors computed so far; as long as each contains the numerically nonzero pattern of
its column, the factorization that eliminates every column along the reverse depth-first postorder
of its reach returns exactly `luFactor`. -/
theorem luFactor_dfs (laws : MagLaws K) (P : Params K Rat) (hP : Legal P) (b : Bool)
    (adj : St K → Nat → Nat → List Nat) (roots : St K → Nat → List Nat)
    (hadj : ∀ j < P.n, ∀ k, ∀ r ∈ adj (run P b j) j k, k < r ∧ r < j)
    (hrootlt : ∀ j < P.n, ∀ r ∈ roots (run P b j) j, r < j)
    (hpat : ∀ j < P.n, (run P b j).info = 0 → ∀ k k', k < k' → k' < j →
      ((run P b j).L.getD k #[]).get ((run P b j).piv.getD k' 0) ≠ 0 → k' ∈ adj (run P b j) j k)
    (hroots : ∀ j < P.n, (run P b j).info = 0 → ∀ k < j,
      (P.col j).get ((run P b j).piv.getD k 0) ≠ 0 → k ∈ roots (run P b j) j) :
    luFactorBlocks P b (fun st j => dfsSchedule st j (adj st j) (roots st j)) = luFactor P b :=
  luFactorBlocks_eq_luFactor laws P hP b _ (fun j hj h0 =>
    luFactor_dfs_validSchedule P _ j (run_inv laws P (le_of_lt hP.u_pos) hP.u_le_one hP.col_size b j h0)
      _ _ (hadj j hj) (hrootlt j hj) (hpat j hj h0) (hroots j hj h0) _ rfl)

/-- **C02 (the numeric pattern, no hypothesis left).** With the search run on the numerically nonzero
pattern itself (`numAdj`, `numRoots`) the DFS-ordered factorization equals `luFactor`. -/
theorem luFactor_dfs_numeric [DecidableEq K] (laws : MagLaws K) (P : Params K Rat) (hP : Legal P) (b : Bool) :
    luFactorBlocks P b (fun st j => dfsScheduleNum st j (P.col j)) = luFactor P b := by
  apply luFactor_dfs laws P hP b (fun st j => numAdj st j) (fun st j => numRoots st j (P.col j))
  · intro j _ k r hr
    have := (mem_numAdj _ j k r).mp hr
    exact ⟨this.2.1, this.1⟩
  · intro j _ r hr
    exact ((mem_numRoots _ j _ r).mp hr).1
  · intro j _ _ k k' hkk' hk' hne
    exact (mem_numAdj _ j k k').mpr ⟨hk', hkk', hne⟩
  · intro j _ _ k hk hne
    exact (mem_numRoots _ j _ k).mpr ⟨hk, hne⟩

/-! #### symmetric pruning (Lemmas/Prune.lean) -/

/-- **C02 (pruning preserves the reach).** `struct k r`: row `r` (pivot numbering) is in struct(L_k);
`p k = some c`: the list of `k` has been cut at column `c`, where `(k, c)` is any pair with `k < c`,
`c ∈ struct k` and the fill property `r ∈ struct k, r > c ⟹ r ∈ struct c` (`PruneOk`; true for every
symmetric pair of the symbolic structure, `Symb.pruneOk_colStruct`).  For every column `t`: the
pruned graph `G'_t` (`k → r` iff `k, r < t`, `r ∈ struct k`, and `r ≤ c` if `k` was cut at a `c < t`)
and the full graph `G_t` have the same reachability, from every set of roots. -/
theorem prune_preserves_reach (struct : Nat → Nat → Prop) (p : Nat → Option Nat) (hp : Symb.PruneOk struct p)
    (t : Nat) (roots : Nat → Prop) (x : Nat) :
    (∃ s, roots s ∧ Relation.ReflTransGen (Symb.PrunedEdge struct p t) s x) ↔
    (∃ s, roots s ∧ Relation.ReflTransGen (Symb.FullEdge struct t) s x) :=
  Symb.prune_reach_roots hp t roots x

/-- **C02 (pruning preserves the collected rows).** The NON-pivotal rows `r ≥ t` met by the search for
column `t` (rows `own` of the column itself, and rows in the scanned list of a reached column) — the
new rows of `L(:,t)` — are the same on the pruned lists as on the full lists. -/
theorem prune_preserves_newRows (struct : Nat → Nat → Prop) (p : Nat → Option Nat) (hp : Symb.PruneOk struct p)
    (t : Nat) (roots own : Nat → Prop) (r : Nat) :
    (t ≤ r ∧ Symb.HitsPruned struct p t roots own r) ↔ (t ≤ r ∧ Symb.HitsFull struct t roots own r) :=
  Symb.prune_newRows hp t roots own r

/-- **C02 (the pruned search visits the same columns).** `segrep` of the search on the cut lists is a
duplicate-free list with exactly the members of `segrep` of the search on the full lists. -/
theorem dfsPost_pruned_same_vertices (adj : Nat → List Nat) (j : Nat) (p : Nat → Option Nat) (roots : List Nat)
    (hadj : ∀ k, ∀ r ∈ adj k, k < r ∧ r < j) (hrootlt : ∀ r ∈ roots, r < j) (hprune : PruneOkAdj adj p) :
    (∀ x, x ∈ dfsPost j (pruneAdj p adj) roots ↔ x ∈ dfsPost j adj roots) ∧
    (dfsPost j (pruneAdj p adj) roots).Nodup ∧
    (dfsPost j (pruneAdj p adj) roots).Perm (dfsPost j adj roots) :=
  ⟨mem_dfsPost_pruneAdj hadj hprune roots hrootlt, dfsPost_nodup (pruneAdj_bound hadj) roots hrootlt,
    dfsPost_pruneAdj_perm hadj hprune roots hrootlt⟩

/-- **C02 (the pruned postorder is topological for the FULL lists).** Every successor `r` of a listed
column `k` in the FULL adjacency — cut or not — occurs before `k` in the postorder of the pruned
search. -/
theorem dfsPost_pruned_topo_full (adj : Nat → List Nat) (j : Nat) (p : Nat → Option Nat) (roots : List Nat)
    (hadj : ∀ k, ∀ r ∈ adj k, k < r ∧ r < j) (hrootlt : ∀ r ∈ roots, r < j) (hprune : PruneOkAdj adj p)
    (k : Nat) (hk : k ∈ dfsPost j (pruneAdj p adj) roots) (r : Nat) (hr : r ∈ adj k) :
    List.Sublist [r, k] (dfsPost j (pruneAdj p adj) roots) :=
  dfsPost_pruneAdj_topo_full hadj hprune roots hrootlt k hk r hr

/-- **C02 (the order of the PRUNED search is a valid schedule).** As `luFactor_dfs_validSchedule`, but the
search runs on the lists `pruneAdj p adj` cut by any legal `p` (`PruneOkAdj`); the FULL pattern `adj`
contains the numerically nonzero one (`hpat`).  A numeric dependency `k → k'` whose edge was cut is
still respected: `k'` stays reachable from `k`, and a depth-first order respects reachability. -/
theorem luFactor_pruned_dfs_validSchedule (P : Params K Rat) (st : St K) (j : Nat) (h : Inv P st j)
    (adj : Nat → List Nat) (roots : List Nat) (p : Nat → Option Nat)
    (hadj : ∀ k, ∀ r ∈ adj k, k < r ∧ r < j) (hrootlt : ∀ r ∈ roots, r < j)
    (hprune : PruneOkAdj adj p)
    (hpat : ∀ k k', k < k' → k' < j → (st.L.getD k #[]).get (st.piv.getD k' 0) ≠ 0 → k' ∈ adj k)
    (hroots : ∀ k < j, (P.col j).get (st.piv.getD k 0) ≠ 0 → k ∈ roots)
    (bs : List (List (Nat × Vec K)))
    (hbs : bs.flatten = (dfsSchedule st j (pruneAdj p adj) roots).flatten) :
    ValidSchedule (prev st j) (P.col j) bs := by
  have hlen : (prev st j).length = j := prev_length st j
  apply validSchedule_prunedDfs (prev st j) (P.col j) adj roots p (fun k => (st.piv.getD k 0, st.L.getD k #[])) h.unit
  · intro k hk; rw [prev_getElem]
  · rw [hlen]; exact hadj
  · rw [hlen]; exact hrootlt
  · exact hprune
  · intro k k' hkk' hk'
    rw [prev_getElem, prev_getElem]
    exact hpat k k' hkk' (hlen ▸ hk')
  · intro k hk
    rw [prev_getElem]
    exact hroots k (hlen ▸ hk)
  · rw [hbs, dfsSchedule, scheduleOf_flatten, hlen]

/-- **C02 (one column along the order of the pruned search).** -/
theorem luFactor_pruned_dfs_schedule (P : Params K Rat) (hP : Legal P) (st : St K) (j : Nat) (h : Inv P st j)
    (adj : Nat → List Nat) (roots : List Nat) (p : Nat → Option Nat)
    (hadj : ∀ k, ∀ r ∈ adj k, k < r ∧ r < j) (hrootlt : ∀ r ∈ roots, r < j)
    (hprune : PruneOkAdj adj p)
    (hpat : ∀ k k', k < k' → k' < j → (st.L.getD k #[]).get (st.piv.getD k' 0) ≠ 0 → k' ∈ adj k)
    (hroots : ∀ k < j, (P.col j).get (st.piv.getD k 0) ≠ 0 → k ∈ roots) :
    (elimBlocks (dfsSchedule st j (pruneAdj p adj) roots) (P.col j)).1 = stepW P st j ∧
    stepBlocks P st j (dfsSchedule st j (pruneAdj p adj) roots) = step P st j :=
  luFactor_supernodal_schedule P hP st j h _
    (luFactor_pruned_dfs_validSchedule P st j h adj roots p hadj hrootlt hprune hpat hroots _ rfl)

/-- **C02 (whole factorization along the pruned searches).** Patterns, roots AND cuts may be chosen per
column and may depend on the factors computed so far.  As long as each full pattern contains the
numerically nonzero pattern of its column and the cuts in force are legal for it (`PruneOkAdj`: made
at pairs with the fill property, e.g. any symmetric pairs of the symbolic structure), the
factorization that eliminates every column along the reverse postorder of the PRUNED depth-first
search returns exactly `luFactor`. -/
theorem luFactor_pruned_dfs (laws : MagLaws K) (P : Params K Rat) (hP : Legal P) (b : Bool)
    (adj : St K → Nat → Nat → List Nat) (roots : St K → Nat → List Nat) (p : St K → Nat → Nat → Option Nat)
    (hadj : ∀ j < P.n, ∀ k, ∀ r ∈ adj (run P b j) j k, k < r ∧ r < j)
    (hrootlt : ∀ j < P.n, ∀ r ∈ roots (run P b j) j, r < j)
    (hprune : ∀ j < P.n, (run P b j).info = 0 → PruneOkAdj (adj (run P b j) j) (p (run P b j) j))
    (hpat : ∀ j < P.n, (run P b j).info = 0 → ∀ k k', k < k' → k' < j →
      ((run P b j).L.getD k #[]).get ((run P b j).piv.getD k' 0) ≠ 0 → k' ∈ adj (run P b j) j k)
    (hroots : ∀ j < P.n, (run P b j).info = 0 → ∀ k < j,
      (P.col j).get ((run P b j).piv.getD k 0) ≠ 0 → k ∈ roots (run P b j) j) :
    luFactorBlocks P b (fun st j => dfsSchedule st j (pruneAdj (p st j) (adj st j)) (roots st j)) = luFactor P b :=
  luFactorBlocks_eq_luFactor laws P hP b _ (fun j hj h0 =>
    luFactor_pruned_dfs_validSchedule P _ j (run_inv laws P (le_of_lt hP.u_pos) hP.u_le_one hP.col_size b j h0)
      _ _ _ (hadj j hj) (hrootlt j hj) (hprune j hj h0) (hpat j hj h0) (hroots j hj h0) _ rfl)

/-- **C02 (search on supernode representatives).** `rep k` is the last column of the supernode that
holds column `k` (supernodes are runs of consecutive columns: `k ≤ rep k`, monotone, idempotent);
`adjS s` lists columns beyond `s` and CONTAINS, for every column `k` of supernode `s`, the columns
`k' > s` with `L_k(piv k') ≠ 0`; `roots` contains the columns hit by the nonzero rows of `A(:,j)`.
Then `snodeSchedule` — one block `repfnz[s]..s` per reached representative, in reverse postorder
of the search on representatives — is a valid schedule. -/
theorem luFactor_snode_dfs_validSchedule (P : Params K Rat) (st : St K) (j : Nat) (h : Inv P st j)
    (rep : Nat → Nat) (adjS : Nat → List Nat) (roots : List Nat)
    (hge : ∀ k, k ≤ rep k) (hrlt : ∀ k < j, rep k < j)
    (hmono : ∀ k k', k ≤ k' → rep k ≤ rep k') (hidem : ∀ k, rep (rep k) = rep k)
    (hadjS : ∀ s, ∀ r ∈ adjS s, s < r ∧ r < j) (hrootlt : ∀ r ∈ roots, r < j)
    (hpat : ∀ k k', k < k' → k' < j → rep k < k' →
      (st.L.getD k #[]).get (st.piv.getD k' 0) ≠ 0 → k' ∈ adjS (rep k))
    (hroots : ∀ k < j, (P.col j).get (st.piv.getD k 0) ≠ 0 → k ∈ roots) :
    ValidSchedule (prev st j) (P.col j) (snodeSchedule st j rep adjS roots) := by
  have hlen : (prev st j).length = j := prev_length st j
  have := validSchedule_snodeDfs (prev st j) (P.col j) rep adjS roots
    (fun k => (st.piv.getD k 0, st.L.getD k #[])) h.unit (fun k hk => by rw [prev_getElem])
    hge (by rw [hlen]; exact hrlt) hmono hidem (by rw [hlen]; exact hadjS) (by rw [hlen]; exact hrootlt)
    (by
      intro k k' hkk' hk' hr
      rw [prev_getElem, prev_getElem]
      exact hpat k k' hkk' (hlen ▸ hk') hr)
    (by
      intro k hk
      rw [prev_getElem]
      exact hroots k (hlen ▸ hk))
  rw [hlen] at this
  exact this

/-- **C02 (one column, supernodal search).** -/
theorem luFactor_snode_dfs_schedule (P : Params K Rat) (hP : Legal P) (st : St K) (j : Nat) (h : Inv P st j)
    (rep : Nat → Nat) (adjS : Nat → List Nat) (roots : List Nat)
    (hge : ∀ k, k ≤ rep k) (hrlt : ∀ k < j, rep k < j)
    (hmono : ∀ k k', k ≤ k' → rep k ≤ rep k') (hidem : ∀ k, rep (rep k) = rep k)
    (hadjS : ∀ s, ∀ r ∈ adjS s, s < r ∧ r < j) (hrootlt : ∀ r ∈ roots, r < j)
    (hpat : ∀ k k', k < k' → k' < j → rep k < k' →
      (st.L.getD k #[]).get (st.piv.getD k' 0) ≠ 0 → k' ∈ adjS (rep k))
    (hroots : ∀ k < j, (P.col j).get (st.piv.getD k 0) ≠ 0 → k ∈ roots) :
    (elimBlocks (snodeSchedule st j rep adjS roots) (P.col j)).1 = stepW P st j ∧
    stepBlocks P st j (snodeSchedule st j rep adjS roots) = step P st j :=
  luFactor_supernodal_schedule P hP st j h _
    (luFactor_snode_dfs_validSchedule P st j h rep adjS roots hge hrlt hmono hidem hadjS hrootlt hpat hroots)

/-- **C02 (whole factorization, supernodal search).** Supernode partition and patterns may change
from column to column and depend on the factors computed so far. -/
theorem luFactor_snode_dfs (laws : MagLaws K) (P : Params K Rat) (hP : Legal P) (b : Bool)
    (rep : St K → Nat → Nat → Nat) (adjS : St K → Nat → Nat → List Nat) (roots : St K → Nat → List Nat)
    (hge : ∀ j < P.n, ∀ k, k ≤ rep (run P b j) j k) (hrlt : ∀ j < P.n, ∀ k < j, rep (run P b j) j k < j)
    (hmono : ∀ j < P.n, ∀ k k', k ≤ k' → rep (run P b j) j k ≤ rep (run P b j) j k')
    (hidem : ∀ j < P.n, ∀ k, rep (run P b j) j (rep (run P b j) j k) = rep (run P b j) j k)
    (hadjS : ∀ j < P.n, ∀ s, ∀ r ∈ adjS (run P b j) j s, s < r ∧ r < j)
    (hrootlt : ∀ j < P.n, ∀ r ∈ roots (run P b j) j, r < j)
    (hpat : ∀ j < P.n, (run P b j).info = 0 → ∀ k k', k < k' → k' < j → rep (run P b j) j k < k' →
      ((run P b j).L.getD k #[]).get ((run P b j).piv.getD k' 0) ≠ 0 →
      k' ∈ adjS (run P b j) j (rep (run P b j) j k))
    (hroots : ∀ j < P.n, (run P b j).info = 0 → ∀ k < j,
      (P.col j).get ((run P b j).piv.getD k 0) ≠ 0 → k ∈ roots (run P b j) j) :
    luFactorBlocks P b (fun st j => snodeSchedule st j (rep st j) (adjS st j) (roots st j)) = luFactor P b :=
  luFactorBlocks_eq_luFactor laws P hP b _ (fun j hj h0 =>
    luFactor_snode_dfs_validSchedule P _ j (run_inv laws P (le_of_lt hP.u_pos) hP.u_le_one hP.col_size b j h0)
      _ _ _ (hge j hj) (hrlt j hj) (hmono j hj) (hidem j hj) (hadjS j hj) (hrootlt j hj) (hpat j hj h0)
      (hroots j hj h0))

end Slu.LU

/-! ### Non-vacuity: the hypotheses are satisfiable and the clauses are exercised -/
namespace Slu.LU
open Slu

/-- the real magnitude satisfies the laws (and is multiplicative) -/
theorem magLaws_rat : MagLaws Rat where
  nonneg := fun x => rabs_nonneg x
  zero := by simp [Mag.abs1]
  definite := fun x h => by simpa [Mag.abs1] using h

theorem mag_rat_mul (a b : Rat) : (Mag.abs1 (a * b) : Rat) = Mag.abs1 a * Mag.abs1 b := by
  simp [Mag.abs1, abs_mul]

/-- a 3x3 matrix whose first column forces a genuine row interchange (|4| > |2|) -/
def exCols : Nat → Vec Rat
  | 0 => #[2, 4, 1]
  | 1 => #[1, 3, 1]
  | _ => #[0, 1, 5]

def exP : Params Rat Rat :=
  { m := 3, n := 3, col := exCols, u := 1, order := fun _ => [0, 1, 2], oldPiv := fun _ => 0, diagRow := fun j => j }

theorem exP_legal : Legal exP :=
  ⟨by decide, by decide, by intro j; match j with | 0 => rfl | 1 => rfl | (_ + 2) => rfl⟩

example : (luFactor exP false).info = 0 := by decide +kernel
example : (luFactor exP false).piv = #[1, 0, 2] := by decide +kernel           -- row 1 first: interchange
example : (luFactor exP false).U.getD 0 #[] = #[4] := by decide +kernel
example : (luFactor exP false).L.getD 0 #[] = #[1/2, 1, 1/4] := by decide +kernel
/-- a singular matrix (two equal columns) is reported at its second column -/
example : (luFactor { exP with col := fun j => if j = 1 then exCols 0 else exCols j } false).info = 2 := by decide +kernel

/-! non-vacuity of the schedule theorems: columns 0 and 1 of this matrix are independent
(`L_0(piv 1) = 0 = L_1(piv 0)`), so column 2 may be eliminated by column 1 first -/
def exQCols : Nat → Vec Rat
  | 0 => #[2, 0, 1]
  | 1 => #[0, 3, 1]
  | _ => #[1, 2, 5]

def exQ : Params Rat Rat :=
  { m := 3, n := 3, col := exQCols, u := 1, order := fun _ => [0, 1, 2], oldPiv := fun _ => 0, diagRow := fun j => j }

theorem exQ_legal : Legal exQ :=
  ⟨by decide, by decide, by intro j; match j with | 0 => rfl | 1 => rfl | (_ + 2) => rfl⟩

theorem exQ_prev : prev (run exQ false 2) 2 = [(0, #[1, 0, 1/2]), (1, #[0, 1, 1/3])] := by decide +kernel

/-- the two previous columns in swapped order -/
def exQσ : List (Nat × Vec Rat) := [(1, #[0, 1, 1/3]), (0, #[1, 0, 1/2])]

theorem exQ_inv : Inv exQ (run exQ false 2) 2 :=
  run_inv magLaws_rat exQ (by decide) (by decide) exQ_legal.col_size false 2 (by decide +kernel)

theorem exQ_dep : DepRespecting (prev (run exQ false 2) 2) exQσ := by
  apply depRespecting_of_unitLower _ _ exQ_inv.unit
  · simp [exQσ, UnitLower, Vec.get]
  · rw [exQ_prev]; exact List.Perm.swap _ _ _

/-- the multipliers really come out in a different order … -/
example : (elim exQσ (exQ.col 2)).2 = [2, 1] ∧ stepUs exQ (run exQ false 2) 2 = [1, 2] := by decide +kernel
/-- … the hypotheses of `luFactor_schedule_independent` hold for the swapped order … -/
example := luFactor_schedule_independent exQ _ 2 exQ_inv exQσ (by rw [exQ_prev]; exact List.Perm.swap _ _ _) exQ_dep
/-- … and the conclusion is what evaluation gives -/
example : (stepSched exQ (run exQ false 2) 2 exQσ).U = (luFactor exQ false).U := by decide +kernel

/-- column 1 does not reach column 0 (`A(0,1) = 0`, multiplier 0): the empty schedule is valid -/
example : ValidSchedule (prev (run exQ false 1) 1) (exQ.col 1) [] :=
  ⟨fun _ => false, by simp, by intro a b hab; simp at hab, by decide +kernel⟩

/-- every column by ONE supernode holding the previous columns in REVERSE order is a valid schedule
for this matrix, so `luFactorBlocks_eq_luFactor` applies to a schedule that is not the natural one -/
theorem exQ_sched_valid (j : Nat) (hj : j < 3) :
    ValidSchedule (prev (run exQ false j) j) (exQ.col j) [(prev (run exQ false j) j).reverse] := by
  apply validSchedule_of_perm
  · simp
  · match j, hj with
    | 0, _ => intro a b hab; simp [prev] at hab
    | 1, _ =>
      rw [show prev (run exQ false 1) 1 = [(0, #[1, 0, 1/2])] by decide +kernel]
      intro a b hab; simp at hab
    | 2, _ =>
      rw [exQ_prev]
      exact depRespecting_of_unitLower _ _ (by simp [UnitLower, Vec.get]) (by simp [UnitLower, Vec.get])
        (by simpa using List.Perm.swap _ _ _)

example : luFactorBlocks exQ false (fun st j => [(prev st j).reverse]) = luFactor exQ false :=
  luFactorBlocks_eq_luFactor magLaws_rat exQ exQ_legal false _ (fun j hj _ => exQ_sched_valid j hj)

/-! non-vacuity of the DFS theorems: for column 3 of this 4x4 matrix the search starts at columns 0
and 1 (`A(0,3), A(1,3) ≠ 0`), reaches column 2 through the edge 0 → 2 (`L_0(piv 2) = 1/2`), and
lists the columns as 1, 0, 2 — not the natural order; column 2 itself reaches nothing -/
def exDCols : Nat → Vec Rat
  | 0 => #[2, 0, 1, 1]
  | 1 => #[0, 3, 0, 1]
  | 2 => #[0, 0, 4, 1]
  | _ => #[1, 2, 0, 5]

def exD : Params Rat Rat :=
  { m := 4, n := 4, col := exDCols, u := 1, order := fun _ => [0, 1, 2, 3], oldPiv := fun _ => 0, diagRow := fun j => j }

theorem exD_legal : Legal exD :=
  ⟨by decide, by decide, by intro j; match j with | 0 => rfl | 1 => rfl | 2 => rfl | (_ + 3) => rfl⟩

example : (luFactor exD false).info = 0 ∧ (luFactor exD false).piv = #[0, 1, 2, 3] := by decide +kernel
example : numRoots (run exD false 3) 3 (exD.col 3) = [0, 1] ∧
    numAdj (run exD false 3) 3 0 = [2] ∧ numAdj (run exD false 3) 3 1 = [] := by decide +kernel
/-- postorder (`segrep`) and the order of the updates (its reverse) -/
example : dfsPost 3 (numAdj (run exD false 3) 3) (numRoots (run exD false 3) 3 (exD.col 3)) = [2, 0, 1] ∧
    dfsRevPost 3 (numAdj (run exD false 3) 3) (numRoots (run exD false 3) 3 (exD.col 3)) = [1, 0, 2] := by
  decide +kernel
/-- column 2 reaches no previous column: empty schedule -/
example : dfsScheduleNum (run exD false 2) 2 (exD.col 2) = [] := by decide +kernel
/-- the multipliers come out in DFS order … -/
example : (elimBlocks (dfsScheduleNum (run exD false 3) 3 (exD.col 3)) (exD.col 3)).2 = [2, 1, -1/2] ∧
    stepUs exD (run exD false 3) 3 = [1, 2, -1/2] := by decide +kernel
/-- … the theorem applies … -/
example : luFactorBlocks exD false (fun st j => dfsScheduleNum st j (exD.col j)) = luFactor exD false :=
  luFactor_dfs_numeric magLaws_rat exD exD_legal false
/-- … and evaluation agrees -/
example : (luFactorBlocks exD false (fun st j => dfsScheduleNum st j (exD.col j))).U = (luFactor exD false).U := by
  decide +kernel

/-! non-vacuity of the supernodal form: columns 0 and 1 form one supernode (representative 1); for
column 3 the search starts at column 0 (→ representative 1, `repfnz = 0`) and column 2 and applies
the blocks [2], [0, 1] in that order -/
def exECols : Nat → Vec Rat
  | 0 => #[2, 1, 0, 1]
  | 1 => #[0, 3, 0, 1]
  | 2 => #[0, 0, 4, 1]
  | _ => #[1, 0, 2, 5]

def exE : Params Rat Rat :=
  { m := 4, n := 4, col := exECols, u := 1, order := fun _ => [0, 1, 2, 3], oldPiv := fun _ => 0, diagRow := fun j => j }

theorem exE_legal : Legal exE :=
  ⟨by decide, by decide, by intro j; match j with | 0 => rfl | 1 => rfl | 2 => rfl | (_ + 3) => rfl⟩

def exERep (k : Nat) : Nat := if k ≤ 1 then 1 else k

example : (luFactor exE false).info = 0 ∧ (luFactor exE false).piv = #[0, 1, 2, 3] := by decide +kernel
example : numRoots (run exE false 3) 3 (exE.col 3) = [0, 2] := by decide +kernel
example : snodeSegs 3 exERep (fun _ => []) [0, 2] = [[2], [0, 1]] := by decide +kernel

theorem exE_inv : Inv exE (run exE false 3) 3 :=
  run_inv magLaws_rat exE (by decide) (by decide) exE_legal.col_size false 3 (by decide +kernel)

/-- the hypotheses of `luFactor_snode_dfs_schedule` hold (no column of the supernode {0,1} has a
nonzero at the pivot row of column 2, so its structure beyond the block is empty) … -/
example := luFactor_snode_dfs_schedule exE exE_legal (run exE false 3) 3 exE_inv exERep (fun _ => []) [0, 2]
  (by intro k; unfold exERep; split <;> omega)
  (by intro k hk; unfold exERep; split <;> omega)
  (by intro k k' h; simp only [exERep]; split_ifs <;> omega)
  (by intro k; simp only [exERep]; split_ifs <;> omega)
  (by intro s r hr; simp at hr)
  (by intro r hr; simp at hr; omega)
  (by
    intro k k' h1 h2 h3
    have hk' : k' = 2 := by unfold exERep at h3; split at h3 <;> omega
    subst hk'
    have : k = 0 ∨ k = 1 := by omega
    rcases this with rfl | rfl <;> decide +kernel)
  (by
    intro k hk
    have : k = 0 ∨ k = 1 ∨ k = 2 := by omega
    rcases this with rfl | rfl | rfl <;> decide +kernel)
/-- … and evaluation agrees: multipliers in block order 2, 0, 1 versus natural order -/
example : (elimBlocks (snodeSchedule (run exE false 3) 3 exERep (fun _ => []) [0, 2]) (exE.col 3)).2 = [2, 1, -1/2] ∧
    stepUs exE (run exE false 3) 3 = [1, -1/2, 2] ∧
    (stepBlocks exE (run exE false 3) 3 (snodeSchedule (run exE false 3) 3 exERep (fun _ => []) [0, 2])).U
      = (luFactor exE false).U := by decide +kernel

/-! non-vacuity of the pruning theorems, graph level: column 0 has successors 2, 1, 3 and is cut at
column 1 (`3, 2 ∈ adj 1`: the fill property of the pair (0, 1) holds) -/
def exPrAdj : Nat → List Nat
  | 0 => [2, 1, 3]
  | 1 => [3, 2]
  | _ => []
def exPrCut : Nat → Option Nat
  | 0 => some 1
  | _ => none

theorem exPr_adj : ∀ k, ∀ r ∈ exPrAdj k, k < r ∧ r < 4 := by
  intro k r hr
  match k with
  | 0 => revert r; decide
  | 1 => revert r; decide
  | (_ + 2) => simp [exPrAdj] at hr

theorem exPr_ok : PruneOkAdj exPrAdj exPrCut := by
  intro k c h
  match k with
  | 0 => cases h; decide
  | (_ + 1) => simp [exPrCut] at h

/-- the cut really removes the edges `0 → 2` and `0 → 3` … -/
example : (List.range 4).map (pruneAdj exPrCut exPrAdj) = [[1], [3, 2], [], []] := by decide
/-- … the two searches list the same columns in DIFFERENT orders … -/
example : dfsPost 4 exPrAdj [0] = [2, 3, 1, 0] ∧ dfsPost 4 (pruneAdj exPrCut exPrAdj) [0] = [3, 2, 1, 0] := by decide
example := dfsPost_pruned_same_vertices exPrAdj 4 exPrCut [0] exPr_adj (by decide) exPr_ok
example : List.Sublist [2, 0] (dfsPost 4 (pruneAdj exPrCut exPrAdj) [0]) :=
  dfsPost_pruned_topo_full exPrAdj 4 exPrCut [0] exPr_adj (by decide) exPr_ok 0 (by decide) 2 (by decide)

/-! non-vacuity of the pruning theorems on a factorization: `L_0` has nonzeros in rows 1 and 2,
`U(0,1) ≠ 0`, so (0, 1) is a symmetric pair and the fill `L_1(2) ≠ 0` exists; for column 3 the search
from column 0 on the cut list no longer sees the NUMERIC dependency `0 → 2`, and still orders
0 before 2 -/
def exRCols : Nat → Vec Rat
  | 0 => #[2, 1, 1, 0]
  | 1 => #[1, 3, 0, 0]
  | 2 => #[0, 0, 4, 1]
  | _ => #[1, 0, 0, 5]

def exR : Params Rat Rat :=
  { m := 4, n := 4, col := exRCols, u := 1, order := fun _ => [0, 1, 2, 3], oldPiv := fun _ => 0, diagRow := fun j => j }

theorem exR_legal : Legal exR :=
  ⟨by decide, by decide, by intro j; match j with | 0 => rfl | 1 => rfl | 2 => rfl | (_ + 3) => rfl⟩

/-- column 0 is cut at column 1 from the moment column 1 is factored -/
def exRCut (j k : Nat) : Option Nat := if k = 0 ∧ 2 ≤ j then some 1 else none

example : (luFactor exR false).info = 0 ∧ (luFactor exR false).piv = #[0, 1, 2, 3] := by decide +kernel
example : numAdj (run exR false 3) 3 0 = [1, 2] ∧ pruneAdj (exRCut 3) (numAdj (run exR false 3) 3) 0 = [1] ∧
    ((run exR false 3).L.getD 0 #[]).get ((run exR false 3).piv.getD 2 0) ≠ 0 := by decide +kernel
example : dfsRevPost 3 (pruneAdj (exRCut 3) (numAdj (run exR false 3) 3)) (numRoots (run exR false 3) 3 (exR.col 3)) = [0, 1, 2] := by
  decide +kernel

theorem exR_ok : ∀ j < 4, PruneOkAdj (numAdj (run exR false j) j) (exRCut j) := by
  intro j hj k c h
  unfold exRCut at h
  split at h
  · rename_i hk
    obtain ⟨rfl, h2⟩ := hk
    cases h
    have : j = 2 ∨ j = 3 := by omega
    rcases this with rfl | rfl <;> decide +kernel
  · cases h

example : luFactorBlocks exR false (fun st j => dfsSchedule st j (pruneAdj (exRCut j) (numAdj st j)) (numRoots st j (exR.col j)))
    = luFactor exR false := by
  apply luFactor_pruned_dfs magLaws_rat exR exR_legal false (fun st j => numAdj st j) (fun st j => numRoots st j (exR.col j))
    (fun _ j => exRCut j)
  · intro j _ k r hr
    have := (mem_numAdj _ j k r).mp hr
    exact ⟨this.2.1, this.1⟩
  · intro j _ r hr
    exact ((mem_numRoots _ j _ r).mp hr).1
  · intro j hj _; exact exR_ok j hj
  · intro j _ _ k k' hkk' hk' hne
    exact (mem_numAdj _ j k k').mpr ⟨hk', hkk', hne⟩
  · intro j _ _ k hk hne
    exact (mem_numRoots _ j _ k).mpr ⟨hk, hne⟩
example : (luFactorBlocks exR false (fun st j => dfsSchedule st j (pruneAdj (exRCut j) (numAdj st j)) (numRoots st j (exR.col j)))).U
    = (luFactor exR false).U := by decide +kernel

/-- the complex magnitude `|re| + |im|` over the Gaussian rationals satisfies the laws, so every
theorem above applies verbatim to complex data (`Field (Cx Rat)` is proved in Lemmas/CxRat.lean).
It is NOT multiplicative, which is why `luFactor_multiplier_le_inv_u` is stated for real data only;
the numerator form `luFactor_multiplier_bound` is what holds for complex data. -/
theorem magLaws_cx : MagLaws (Cx Rat) where
  nonneg := fun z => add_nonneg (rabs_nonneg _) (rabs_nonneg _)
  zero := by
    show rabs (0 : Cx Rat).re + rabs (0 : Cx Rat).im = 0
    simp [Cx.zero_def]
  definite := fun z h => by
    have h' : rabs z.re + rabs z.im = 0 := h
    have h1 := rabs_nonneg z.re; have h2 := rabs_nonneg z.im
    have e1 : rabs z.re = 0 := by linarith
    have e2 : rabs z.im = 0 := by linarith
    simp at e1 e2
    cases z; simp_all [Cx.zero_def]

example (P : Params (Cx Rat) Rat) (hP : Legal P) (h : (luFactor P false).info = 0) (j : Nat) (hj : j < P.n) (i : Nat) (hi : i < P.m) :=
  luFactor_identity magLaws_cx P hP false h j hj i hi

end Slu.LU

/-! ## The iterative search of `[sdcz]column_dfs.c` IS the recursive search (array level)

`Slu.ColDfs.columnDfs` (Slu/Model/ColDfs.lean) mirrors `[sdcz]column_dfs.c` statement by statement on
the arrays `perm_r, lsub_col, segrep, repfnz, xprune, marker, parent, xplore, xsup, supno, lsub, xlsub`
and is compared with the C routine entry by entry (family `coldfs`).  `wfIn` is the decidable
well-formedness of the state the routine is handed (evaluated on every generated state by the driver).
The graph read off the arrays: nodes = supernode representatives `< jcol`; `adjR s` = the
representatives of the pivot columns `> s` of the rows of the pruned list `lsub[xlsub[s] .. xprune[s])`,
in storage order; roots = representatives of the pivot columns of the pivoted rows of the column. -/
namespace Slu.ColDfs
open Slu Slu.LU List

/-- **C02 (iterative = recursive search).** On every well-formed state, with the fuel `fuelBound`
computed from the arrays (`(jcol+1) * (|lsub|+2)` transitions), the explicit-stack loop terminates and
appends to `segrep` exactly the representatives, in exactly the order, that the recursive
`dfsVisit`/`dfsList` of Slu/Model/Dfs.lean finishes — started from the accumulator that holds the
representatives already visited on entry (`repfnz[s] != EMPTY`, e.g. by the panel search).  `nw` is the
list of newly finished representatives, last finished first; `segrep[nseg_in .. nseg_out)` is its reverse;
`segrep[0 .. nseg_in)` is untouched. -/
theorem colDfs_eq_recursive (i : Input) (h : wfIn i = true) :
    ∃ o nw, columnDfs i (fuelBound i) = some o ∧
      nw ++ visited0 i.jcol i.repfnz =
        dfsList (adjR i.env i.lsub) i.jcol.toNat ((rootCols i.env (colRows i.lsubCol)).map (repN i.env))
          (visited0 i.jcol i.repfnz) ∧
      o.nseg = i.nseg + nw.length ∧
      slice o.segrep i.nseg o.nseg = nw.reverse.map Int.ofNat ∧
      (∀ x, x < i.nseg → rd o.segrep x = rd i.segrep x) :=
  columnDfs_eq_dfsList h

/-- **C02 (no representative visited on entry).** `segrep[nseg_in .. nseg_out)` is the postorder
`dfsPost` of the recursive search, i.e. its reverse is `snodeReps` — the list `luFactor_snode_dfs`
builds its schedule from. -/
theorem colDfs_eq_dfsPost (i : Input) (h : wfIn i = true) (hclean : visited0 i.jcol i.repfnz = []) :
    ∃ o, columnDfs i (fuelBound i) = some o ∧
      slice o.segrep i.nseg o.nseg =
        (dfsPost i.jcol.toNat (adjR i.env i.lsub) ((rootCols i.env (colRows i.lsubCol)).map (repN i.env))).map Int.ofNat ∧
      (slice o.segrep i.nseg o.nseg).reverse =
        (snodeReps i.jcol.toNat (repN i.env) (adjSR i.env i.lsub) (rootCols i.env (colRows i.lsubCol))).map Int.ofNat := by
  obtain ⟨o, nw, h1, h2, h3, h4, _⟩ := colDfs_eq_recursive i h
  rw [hclean, append_nil] at h2
  refine ⟨o, h1, ?_, ?_⟩
  · rw [h4, h2]; rfl
  · rw [h4, h2, ← map_reverse, reverse_reverse, snodeReps, ← adjR_eq_map]; rfl

/-- **C02 (what `luFactor_snode_dfs` / `luFactor_pruned_dfs` consume).** The graph read off a
well-formed state satisfies the hypotheses of `dfsPost_nodup`, `mem_dfsPost_iff`, `dfsPost_topo`
(successors are larger and below `jcol`; roots below `jcol`); hence what the C loop appends to `segrep`
has no duplicates, lists exactly the representatives reachable from the column, and places every
successor before its node (reverse = topological order). -/
theorem colDfs_segrep_topo (i : Input) (h : wfIn i = true) (hclean : visited0 i.jcol i.repfnz = []) :
    ∃ o P, columnDfs i (fuelBound i) = some o ∧ slice o.segrep i.nseg o.nseg = P.map Int.ofNat ∧
      P.Nodup ∧
      (∀ x, x ∈ P ↔ ∃ s ∈ (rootCols i.env (colRows i.lsubCol)).map (repN i.env), Reach (adjR i.env i.lsub) s x) ∧
      (∀ k ∈ P, ∀ r ∈ adjR i.env i.lsub k, [r, k] <+ P) ∧
      (∀ k, ∀ r ∈ adjR i.env i.lsub k, k < r ∧ r < i.jcol.toNat) := by
  obtain ⟨o, h1, h2, _⟩ := colDfs_eq_dfsPost i h hclean
  have hE := wfIn_env h
  have hadj := adjR_lt hE
  have hroots := rootCols_lt hE (wfIn_unpack h).2.2.2.2.2.2.2
  exact ⟨o, _, h1, h2, dfsPost_nodup hadj _ hroots, mem_dfsPost_iff hadj _ hroots, dfsPost_topo hadj _ hroots, hadj⟩

/-! ### example: 8 rows, columns 0..5 factored (diagonal pivots), supernodes {0} {1,2} {3} {4} {5}, jcol = 6

pruned lists: rep 0: rows 0 2 4 | 6 (row 6 cut off by `xprune[0] = 3`), rep 2: 2 5 7, rep 3: 3 7,
rep 4: 4 5 6, rep 5: 5 6 7.  Column 6 has rows 0 and 7.  The search goes 0 → 2 → 5 (appends rows 6, 7),
back in 2 finds row 7 already marked, back in 0 goes to 4 (finds 5 already visited, row 6 already marked);
the second nonzero (row 7) is already marked.  `segrep` receives 5 2 4 0. -/
def exIn : Input :=
  { m := 8, jcol := 6, maxsuper := 4,
    perm_r := #[0, 1, 2, 3, 4, 5, -1, -1], nseg := 0,
    lsubCol := #[0, 7, -1, 3, 3, 3, 3, 3],
    segrep := #[-7, -7, -7, -7, -7, -7, -7, -7],
    repfnz := #[-1, -1, -1, -1, -1, -1, -1, -1],
    xprune := #[3, 99999, 11, 13, 16, 19, 0],
    marker := #[0, 0, 0, 0, 0, 0, 0, 0, 1, 1, 1, 1, 1, 1, 1, 1, -1, -1, -1, -1, -1, 5, 5, 5],
    parent := #[4, 4, 4, 4, 4, 4, 4, 4], xplore := #[9, 9, 9, 9, 9, 9, 9, 9],
    xsup := #[0, 1, 3, 4, 5, 6, -7, -7], supno := #[0, 1, 1, 2, 3, 4, 4, -7],
    lsub := #[0, 2, 4, 6,  1, 2, 5, 7,  2, 5, 7,  3, 7,  4, 5, 6,  5, 6, 7,  -5, -5, -5],
    xlsub := #[0, 4, 8, 11, 13, 16, 19, -7] }

example : wfIn exIn = true := by decide +kernel
example : visited0 exIn.jcol exIn.repfnz = [] := by decide +kernel
example : (List.range 6).map (adjR exIn.env exIn.lsub) = [[2, 4], [], [5], [], [5], []] := by decide +kernel
example : (rootCols exIn.env (colRows exIn.lsubCol)).map (repN exIn.env) = [0] := by decide +kernel
example : dfsPost 6 (adjR exIn.env exIn.lsub) [0] = [5, 2, 4, 0] := by decide +kernel
example : (columnDfs exIn (fuelBound exIn)).map (fun o => (o.nseg, slice o.segrep 0 o.nseg, slice o.repfnz 0 6)) =
    some (4, [5, 2, 4, 0], [0, -1, 2, -1, 4, 5]) := by decide +kernel
-- rows 6, 7 appended once each; same row set as column 5 minus its pivot: jcol joins the supernode of column 5
example : (columnDfs exIn (fuelBound exIn)).map (fun o => (slice o.lsub 19 22, slice o.supno 5 7, slice o.xlsub 6 8)) =
    some ([6, 7, -5], [4, 4], [19, 21]) := by decide +kernel
example := colDfs_segrep_topo exIn (by decide +kernel) (by decide +kernel)

/-- **C02 (rows appended to `lsub` = the marked unpivoted rows, array level).** On every well-formed state the search part of
`[sdcz]column_dfs` (model `search`, before the supernode-boundary part may move the list) leaves
`lsub[0 .. xlsub[jcol])` untouched and appends `lsub[xlsub[jcol] .. nextl)`: pairwise distinct rows, and a
row is in that list IF AND ONLY IF it is in range, unpivoted (`perm_r[r] = EMPTY`) and carries this column's
mark on exit (`marker2[r] = jcol`); the list fits in the capacity `wfIn` asks for (one slot per unpivoted
row).  This is the array-level refinement of C03's `marker_filter_nodup`.

The characterisation of the marked rows as the REACHABLE ones is `colDfs_lsub_nodup` below. -/
theorem colDfs_lsub_marked (i : Input) (h : wfIn i = true) :
    ∃ st', search i.env (fuelBound i) (colRows i.lsubCol) i.st0 = some st' ∧
      (slice st'.lsub (rd i.xlsub i.jcol) st'.nextl).Nodup ∧
      (∀ r, r ∈ slice st'.lsub (rd i.xlsub i.jcol) st'.nextl ↔
        (0 ≤ r ∧ r < i.m ∧ rd i.perm_r r = EMPTY ∧ mk2 i.env st' r = i.jcol)) ∧
      (∀ x, 0 ≤ x → x < rd i.xlsub i.jcol → rd st'.lsub x = rd i.lsub x) ∧
      rd i.xlsub i.jcol ≤ st'.nextl ∧ st'.nextl ≤ st'.lsub.size :=
  search_lsub h

example : (search exIn.env (fuelBound exIn) (colRows exIn.lsubCol) exIn.st0).map
    (fun st => (slice st.lsub 19 st.nextl, slice st.marker 16 24)) = some ([6, 7], [6, -1, 6, -1, 6, 6, 6, 6]) := by
  decide +kernel
example := colDfs_lsub_marked exIn (by decide +kernel)

/-- **C02 (rows appended to `lsub` = the unpivoted reachable rows, array level).** On every well-formed
state (any set of representatives visited on entry) the search part of `[sdcz]column_dfs` appends to `lsub`,
each ONCE, exactly the unpivoted rows that occur among the column's own rows or in the pruned list
`lsub[xlsub[t] .. xprune[t])` of a representative `t` the search finished — `nw`, the same list whose reverse
is appended to `segrep` (`colDfs_eq_recursive`): with no representative visited on entry these are the
representatives reachable from the column (`colDfs_segrep_topo`), so the list is the set of unpivoted rows
reachable from the column, without duplicates. -/
theorem colDfs_lsub_nodup (i : Input) (h : wfIn i = true) :
    ∃ st' nw, search i.env (fuelBound i) (colRows i.lsubCol) i.st0 = some st' ∧
      nw ++ visited0 i.jcol i.repfnz =
        dfsList (adjR i.env i.lsub) i.jcol.toNat ((rootCols i.env (colRows i.lsubCol)).map (repN i.env)) (visited0 i.jcol i.repfnz) ∧
      (slice st'.lsub (rd i.xlsub i.jcol) st'.nextl).Nodup ∧
      ∀ r, r ∈ slice st'.lsub (rd i.xlsub i.jcol) st'.nextl ↔
        (0 ≤ r ∧ r < i.m ∧ rd i.perm_r r = EMPTY ∧
          (r ∈ colRows i.lsubCol ∨ ∃ t ∈ nw, r ∈ adjRows i.env i.lsub ((t : Nat) : Int))) :=
  search_lsub_reach h

example := colDfs_lsub_nodup exIn (by decide +kernel)

end Slu.ColDfs

/-! ## `[sdcz]panel_dfs` (Slu/Model/PanelDfs.lean; lockstep with the column_dfs machine: Lemmas/PanelDfs.lean) -/
namespace Slu.PanelDfs
open Slu Slu.LU List
open Slu.ColDfs (EMPTY rd slice)

/-- **C02 (one panel column of `[sdcz]panel_dfs`, given the shared-marker state).**  For every panel column `jj`
(environment `e`) and every state `ps` accepted by `ColOK` — the column's `repfnz` slice is clean, no row carries
the mark `jj`, `segrep[0..nseg)` lists distinct representatives all recorded for this panel (`marker1 >= jcol`) —
the explicit-stack loop over the rows `rows` of `A(:,jj)` terminates within the fuel bound and
* `{s : repfnz_col[s] != EMPTY}` is exactly the list `post` computed by the RECURSIVE search `dfsList` on the graph
  read off the arrays (`Slu.ColDfs.adjR`), started from the pivot columns of the rows, nothing visited;
* `segrep[nseg_in .. nseg_out)` is the postorder `post.reverse` FILTERED by `marker1[t] < jcol` on entry (the
  representatives no earlier column of the panel has recorded), `segrep[0..nseg_in)` is untouched, `marker1`
  becomes `jj` exactly on the recorded ones, and the invariant on `segrep`/`marker1` holds again on exit. -/
theorem panelDfs_column_eq_recursive_partial {e : Env} {ps : St} (hC : ColOK e ps) {fuel : Nat}
    (hfuel : (e.jcol.toNat + 1) * (e.lsub.size + 2) ≤ fuel) {rows : List Int} (hrows : ∀ r ∈ rows, 0 ≤ r ∧ r < e.m) :
    ∃ ps' post, search e fuel rows ps = some ps' ∧
      post = dfsList (ColDfs.adjR e.cenv e.lsub) e.jcol.toNat ((ColDfs.rootCols e.cenv rows).map (ColDfs.repN e.cenv)) [] ∧
      (∀ s : Nat, (s : Int) < e.jcol → (fnz e ps' s ≠ EMPTY ↔ s ∈ post)) ∧
      ps.nseg ≤ ps'.nseg ∧
      slice ps'.segrep ps.nseg ps'.nseg = (post.reverse.map Int.ofNat).filter (fun t => decide (m1 e ps t < e.jcol)) ∧
      slice ps'.segrep 0 ps.nseg = slice ps.segrep 0 ps.nseg ∧
      (∀ t, 0 ≤ t → t < e.jcol → m1 e ps' t =
        if t ∈ (post.reverse.map Int.ofNat).filter (fun t => decide (m1 e ps t < e.jcol)) then e.jj else m1 e ps t) ∧
      (slice ps'.segrep 0 ps'.nseg).Nodup ∧
      (∀ t ∈ slice ps'.segrep 0 ps'.nseg, 0 ≤ t ∧ t < e.jcol ∧ e.jcol ≤ m1 e ps' t) := by
  obtain ⟨ps', post, h1, h2, h3, h4, h5, h6, h7, h8, h9, _⟩ := panelCol_eq_dfsList hC hfuel hrows
  exact ⟨ps', post, h1, h2, h3, h4, h5, h6, h7, h8, h9⟩

/-- **C02 (`[sdcz]panel_dfs`, the whole routine = the recursive search, column by column).**  For every state
accepted by the decidable predicate `wfPanelIn` (sizes; pivot columns `< jcol`; representatives and pruned lists
well formed = acyclic; `marker[0..m)` and `marker1` hold values `< jcol`; the panel's `repfnz` is clean; the
panel columns of A lie inside `asub`/`nzval` with rows in range) the model of the routine terminates within
`fuelBound` and
* for EVERY panel column `jcol + k` the set `{s : repfnz_col[s] != EMPTY}` left in the column's slice of `repfnz`
  is exactly `colPost i k` — the list the RECURSIVE search `Slu.LU.dfsList` computes on the graph read off the
  arrays (`Slu.ColDfs.adjR`: pruned lists, storage order) from the pivot columns of the rows of `A(:, jcol+k)`;
* `segrep[0..nseg)` is `segSpec i w`: the concatenation, over the panel columns in order, of each column's
  postorder `(colPost i k).reverse` restricted to the representatives that no earlier column has put there
  (the effect of the shared `marker1`), without duplicates, all `< jcol`.
* equivalently (`dfsList_visited`, `segSpec_eq_visAcc`: the set found by the earlier columns is closed under
  successors, so restricting the postorder of a fresh search to the new representatives = searching with the
  earlier ones already visited): `segrep[0..nseg)` REVERSED is `visAcc i w`, the accumulator of ONE recursive
  search `dfsList` run over the panel columns in order, each column started with everything the earlier columns
  found counted as visited — the "visited on entry" generality of `colDfs_eq_recursive`. -/
theorem panelDfs_eq_recursive {V : Type} (i : Input V) (h : wfPanelIn i = true) :
    ∃ o, panelDfs i (fuelBound i) = some o ∧
      (∀ k : Nat, (k : Int) < i.w → ∀ s : Nat, (s : Int) < i.jcol → (rd o.repfnz (k * i.m + s) ≠ EMPTY ↔ s ∈ colPost i k)) ∧
      0 ≤ o.nseg ∧ slice o.segrep 0 o.nseg = segSpec i i.w.toNat ∧ (segSpec i i.w.toNat).Nodup ∧
      (∀ t ∈ segSpec i i.w.toNat, 0 ≤ t ∧ t < i.jcol) ∧
      (slice o.segrep 0 o.nseg).reverse = (visAcc i i.w.toNat).map Int.ofNat := by
  obtain ⟨o, h1, h2, h3, h4, h5, h6⟩ := panelDfs_spec h
  have hw : 1 ≤ i.w := (wfPanelIn_unpack h).1.2.1
  refine ⟨o, h1, h2, h3, h4, h5, h6, ?_⟩
  rw [h4, (segSpec_eq_visAcc h i.w.toNat (by omega)).1, ← map_reverse, reverse_reverse]

/-- **C02 (`segrep` after `[sdcz]panel_dfs`: no duplicates, the union of the reaches, topological).**  On every
state accepted by `wfPanelIn`: `segrep[0..nseg)` = `P` (as integers) where `P` has no duplicates, lists exactly
the representatives reachable from SOME panel column (from the pivot columns of its rows, through the pruned
lists), and places every successor `r` of a listed representative `k` BEFORE `k` (so the reverse order, the one
`[sdcz]panel_bmod` walks, is a topological order of the union); the graph is acyclic and stays below `jcol`. -/
theorem panelDfs_segrep_topo {V : Type} (i : Input V) (h : wfPanelIn i = true) :
    ∃ o P, panelDfs i (fuelBound i) = some o ∧ 0 ≤ o.nseg ∧ slice o.segrep 0 o.nseg = P ∧ P.Nodup ∧
      (∀ x : Nat, (x : Int) ∈ P ↔ ∃ k : Nat, (k : Int) < i.w ∧
        ∃ s ∈ (ColDfs.rootCols i.cenv (colRows i (i.jcol + k))).map (ColDfs.repN i.cenv), Reach (ColDfs.adjR i.cenv i.lsub) s x) ∧
      (∀ a r : Nat, (a : Int) ∈ P → r ∈ ColDfs.adjR i.cenv i.lsub a → [(r : Int), (a : Int)] <+ P) ∧
      (∀ t ∈ P, 0 ≤ t ∧ t < i.jcol) ∧
      (∀ k, ∀ r ∈ ColDfs.adjR i.cenv i.lsub k, k < r ∧ r < i.jcol.toNat) := by
  obtain ⟨o, h1, _, h3, h4, h5, h6, _⟩ := panelDfs_eq_recursive i h
  have hE := wfPanelIn_env h
  have hadj := ColDfs.adjR_lt hE
  have hw : 1 ≤ i.w := (wfPanelIn_unpack h).1.2.1
  refine ⟨o, _, h1, h3, h4, h5, ?_, segSpec_topo i h i.w.toNat (by omega), h6, hadj⟩
  intro x
  rw [mem_segSpec]
  constructor
  · rintro ⟨k, hk, hx⟩
    obtain ⟨s, hs, hsx⟩ := mem_map.mp hx
    have : s = x := Int.ofNat.inj hsx
    subst this
    have hroots := ColDfs.rootCols_lt hE (wfPanelIn_rows h (k := k) (by omega))
    refine ⟨k, by omega, ?_⟩
    have := (mem_dfsPost_iff hadj _ hroots s).mp (mem_reverse.mpr hs)
    exact this
  · rintro ⟨k, hk, hx⟩
    have hroots := ColDfs.rootCols_lt hE (wfPanelIn_rows h (k := k) hk)
    refine ⟨k, by omega, mem_map.mpr ⟨x, ?_, rfl⟩⟩
    have := (mem_dfsPost_iff hadj _ hroots x).mpr hx
    exact mem_reverse.mp this

/-! example: the factored state of `Slu.ColDfs.exIn` (8 rows, columns 0..5 factored), panel of the columns 6, 7:
A(:,6) has rows 0, 7 and A(:,7) has rows 3, 1, 6.  Column 6 reaches 0 → 2 → 5, 4 (`segrep` 5 2 4 0); column 7
reaches 3 (new) and, through row 1 (column 1, representative 2), 2 → 5 again: not recorded a second time. -/
def exP : Input Int :=
  { m := 8, w := 2, jcol := 6,
    asub := #[0, 7, 3, 1, 6], nzval := #[10, 11, 12, 13, 14],
    colbeg := #[0, 0, 0, 0, 0, 0, 0, 2], colend := #[0, 0, 0, 0, 0, 0, 2, 5],
    perm_r := #[0, 1, 2, 3, 4, 5, -1, -1],
    dense := #[0, 0, 0, 0, 0, 0, 0, 0, 0, 0, 0, 0, 0, 0, 0, 0],
    panelLsub := #[-1, -1, -1, -1, -1, -1, -1, -1, -1, -1, -1, -1, -1, -1, -1, -1],
    segrep := #[-7, -7, -7, -7, -7, -7, -7, -7],
    repfnz := #[-1, -1, -1, -1, -1, -1, -1, -1, -1, -1, -1, -1, -1, -1, -1, -1],
    xprune := #[3, 99999, 11, 13, 16, 19, 0],
    marker := #[0, 0, 0, 0, 5, 5, 5, 5, -1, -1, 3, 3, 5, 5, 1, 1, 6, 6, 6, 6, 7, 7, 7, 7],
    parent := #[4, 4, 4, 4, 4, 4, 4, 4], xplore := #[9, 9, 9, 9, 9, 9, 9, 9],
    xsup := #[0, 1, 3, 4, 5, 6, -7, -7], supno := #[0, 1, 1, 2, 3, 4, 4, -7],
    lsub := #[0, 2, 4, 6,  1, 2, 5, 7,  2, 5, 7,  3, 7,  4, 5, 6,  5, 6, 7,  -5, -5, -5],
    xlsub := #[0, 4, 8, 11, 13, 16, 19, -7] }

example : wfPanelIn exP = true := by decide +kernel
example : (panelDfs exP (fuelBound exP)).map (fun o => (o.nseg, slice o.segrep 0 o.nseg, slice o.repfnz 0 6, slice o.repfnz 8 14)) =
    some (5, [5, 2, 4, 0, 3], [0, -1, 2, -1, 4, 5], [-1, -1, 1, 3, -1, 5]) := by decide +kernel
example : (panelDfs exP (fuelBound exP)).map (fun o => (slice o.panelLsub 0 3, slice o.panelLsub 8 11, o.dense.toList)) =
    some ([6, 7, -1], [7, 6, -1], [10, 0, 0, 0, 0, 0, 0, 11, 0, 13, 0, 12, 0, 0, 14, 0]) := by decide +kernel
example := panelDfs_column_eq_recursive_partial (wfPanelIn_colOK0 (i := exP) (by decide +kernel)) (fuel := fuelBound exP) (le_refl _)
  (by have := wfPanelIn_rows (i := exP) (by decide +kernel) (k := 0) (by decide); simpa using this)

example := panelDfs_eq_recursive exP (by decide +kernel)
example := panelDfs_segrep_topo exP (by decide +kernel)
example : segSpec exP 2 = [5, 2, 4, 0, 3] := by decide +kernel
example : visAcc exP 2 = [3, 0, 4, 2, 5] := by decide +kernel
example : (colPost exP 0, colPost exP 1) = ([0, 4, 2, 5], [2, 5, 3]) := by decide +kernel

end Slu.PanelDfs

/-! ### `wfIn` on the states `[sdcz]gstrf` really hands to `column_dfs` (family `coldfsreal`, hook H3)

Two clauses of `wfIn` were stronger than what the factorization guarantees; both were weakened (the theorems
`colDfs_eq_recursive`, `colDfs_eq_dfsPost`, `colDfs_segrep_topo`, `colDfs_lsub_marked`, `colDfs_lsub_nodup` above
quantify over `wfIn`, so their unchanged statements now cover these states).

* pruned lists: the list of the LAST column `s` of a relaxed supernode (the duplicate copy `[sdcz]snode_dfs` writes)
  holds all the supernode's rows, also those pivoted at its EARLIER columns.  `wfIn` now asks of a pivoted row of the
  list of `s`: pivoted at `s` or beyond, or at a column whose representative is `s` itself (no edge of the graph; the
  machine only runs `if (myfnz > chperm) repfnz[chrep] = chperm` because `repfnz[s]` is set while `s` is scanned).
* `segrep`: on entry `segrep[0..nseg)` holds the segments of the whole PANEL, also those of other panel columns that
  this column has not reached (`repfnz = EMPTY` here), so `nseg + jcol <= |segrep| + #visited` fails.  `wfIn` now asks:
  `jcol <= |segrep|`, the entries are distinct columns below jcol, and an unreached one lies below the representative of
  every pivoted nonzero of the column (it is below the panel's first column, the nonzero was pivoted inside the panel);
  the search then never appends an entry a second time, so at most `jcol` entries are ever written. -/
namespace Slu.ColDfs

/-- the state captured in a real `dgstrf` run (shrunk): columns 0, 1 form a relaxed supernode (`xsup = [0, 2, …]`,
`supno = [0, 0, …]`); the list of its last column 1, `lsub[4..8) = 0 2 4 1`, holds row 0, which was pivoted at column 0
of the same supernode (`perm_r[0] = 0 < 1`).  Column 2 has the nonzeros 0 and 3. -/
def exReal : Input :=
  { m := 5, jcol := 2, maxsuper := 4,
    perm_r := #[0, 1, -1, -1, -1], nseg := 0,
    lsubCol := #[0, 3, -1, 7, 7],
    segrep := #[-7, -7, -7, -7, -7],
    repfnz := #[-1, -1, -1, -1, -1],
    xprune := #[99999, 8, -7, -7, -7],
    marker := #[1, 1, 1, -1, 1, -1, -1, -1, -1, -1, -1, -1, -1, -1, -1],
    parent := #[4, 4, 4, 4, 4], xplore := #[9, 9, 9, 9, 9],
    xsup := #[0, 2, -7, -7, -7], supno := #[0, 0, 0, -7, -7],
    lsub := #[0, 2, 4, 1,  0, 2, 4, 1,  -5, -5, -5, -5],
    xlsub := #[0, 4, 8, -7, -7, -7] }

example : wfIn exReal = true := by decide +kernel
/-- the clause `wfIn` had before (pivoted rows of the list of `s` pivot at `s` or beyond) fails on it -/
example : (adjRows exReal.env exReal.lsub 1).all
    (fun row => rd exReal.perm_r row = EMPTY || (1 : Int) ≤ rd exReal.perm_r row) = false := by decide +kernel
/-- row 0 starts the search at representative 1, whose list is scanned without a descent (rows 0 and 1 only lower
`repfnz[1]`), rows 2, 4 and then the second nonzero 3 are appended -/
example : (columnDfs exReal (fuelBound exReal)).map
    (fun o => (o.nseg, slice o.segrep 0 o.nseg, slice o.repfnz 0 2, slice o.lsub 8 11)) =
    some (1, [1], [-1, 0], [2, 4, 3]) := by decide +kernel
example := colDfs_segrep_topo exReal (by decide +kernel) (by decide +kernel)
example := colDfs_lsub_nodup exReal (by decide +kernel)

/-- second column (jcol = 3) of a panel that starts at column 2: `segrep[0..2) = 1 0` are the segments the panel search
found for column 2; column 3 has reached neither (`repfnz` all EMPTY).  Its nonzero row 2 was pivoted inside the panel
(at column 2).  `nseg + jcol = 5 > 4 = |segrep| + #visited`, yet nothing is written beyond `segrep[2]`. -/
def exPanel : Input :=
  { m := 4, jcol := 3, maxsuper := 4,
    perm_r := #[0, 1, 2, -1], nseg := 2,
    lsubCol := #[2, 3, -1, 7],
    segrep := #[1, 0, -7, -7],
    repfnz := #[-1, -1, -1, -1],
    xprune := #[2, 4, 6, -7],
    marker := #[0, 1, 2, 2, -1, -1, -1, -1, 2, 2, 2, 2],
    parent := #[4, 4, 4, 4], xplore := #[9, 9, 9, 9],
    xsup := #[0, 1, 2, 3, -7], supno := #[0, 1, 2, 2, -7],
    lsub := #[0, 2,  1, 2,  2, 3,  -5, -5],
    xlsub := #[0, 2, 4, 6, -7] }

example : wfIn exPanel = true := by decide +kernel
example : decide (exPanel.nseg + exPanel.jcol ≤ exPanel.segrep.size + (visited0 exPanel.jcol exPanel.repfnz).length) = false := by
  decide +kernel
example : (columnDfs exPanel (fuelBound exPanel)).map
    (fun o => (o.nseg, slice o.segrep 0 o.nseg, slice o.repfnz 0 3, slice o.lsub 6 7)) =
    some (3, [1, 0, 2], [-1, -1, 2], [3]) := by decide +kernel
example := colDfs_eq_recursive exPanel (by decide +kernel)

end Slu.ColDfs
