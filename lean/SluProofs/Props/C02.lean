import SluProofs.Lemmas.LUInv
import SluProofs.Lemmas.CxRat
import SluProofs.Lemmas.LUSchedule
/-
C02 — Factors reproduce the permuted matrix; pivoting bounds hold.

Theorems about `Slu.LU.luFactor` (column LU with the pivot policy of `[sdcz]pivotL`), for every
m, n, every matrix (columns of `A*Pc` as length-m vectors), every threshold `0 < u ≤ 1`, every
candidate order, every reuse state (`usepr`, remembered pivots) and every choice of diagonal rows,
over an arbitrary field `K` with a magnitude function satisfying `MagLaws` (exact arithmetic;
`K = Rat` with `|x|` is the instance exercised below).

Reading the statements: `st.piv[k]` is the row of A chosen as k-th pivot (`perm_r[piv k] = k`);
`st.L[k]` is column k of L indexed by ORIGINAL row, so `(Pr A Pc)(perm_r i, j) = A(i, pc⁻¹ j) =
(P.col j).get i` and `L(perm_r i, k) = (st.L[k]).get i`; `st.U[j]` holds `U(0..j, j)`.
-/
namespace Slu.LU
open Slu

variable {K : Type} [Field K] [Mag K Rat]

/-- hypotheses shared by the theorems: a legal threshold and columns of the declared length -/
structure Legal (P : Params K Rat) : Prop where
  u_pos : 0 < P.u
  u_le_one : P.u ≤ 1
  col_size : ∀ j, (P.col j).size = P.m

/-- **C02 (identity).** On success `(Pr A Pc)(i, j) = Σ_{k ≤ j} L(i,k) U(k,j)` for every row and
column — exactly, in exact arithmetic. -/
theorem luFactor_identity (laws : MagLaws K) (P : Params K Rat) (hP : Legal P) (b : Bool)
    (h : (luFactor P b).info = 0) (j : Nat) (hj : j < P.n) (i : Nat) (hi : i < P.m) :
    (P.col j).get i =
      ((List.range (j + 1)).map fun k =>
        ((luFactor P b).U.getD j #[]).getD k 0 * ((luFactor P b).L.getD k #[]).get i).sum := by
  rw [luFactor_eq_run] at h ⊢
  have inv := run_inv laws P (le_of_lt hP.u_pos) hP.u_le_one hP.col_size b P.n h
  rw [inv.ident j hj i hi, dotL_prev _ _ (j + 1) i (by rw [Array.length_toList]; exact inv.usize j hj)]
  congr 1
  apply List.map_congr_left
  intro t _
  congr 1
  generalize (run P b P.n).U.getD j #[] = a
  by_cases ht : t < a.size <;> simp [Array.getD, List.getD, ht]

/-- **C02 (unit lower trapezoidal L).** `L(piv k, k) = 1` and `L(piv k', k) = 0` for `k' < k`:
in the permuted row order L has a unit diagonal and nothing above it. -/
theorem luFactor_unit_lower (laws : MagLaws K) (P : Params K Rat) (hP : Legal P) (b : Bool)
    (h : (luFactor P b).info = 0) (k : Nat) (hk : k < P.n) :
    ((luFactor P b).L.getD k #[]).get ((luFactor P b).piv.getD k 0) = 1 ∧
    ∀ k' < k, ((luFactor P b).L.getD k #[]).get ((luFactor P b).piv.getD k' 0) = 0 := by
  rw [luFactor_eq_run] at h ⊢
  have hk' := run_info_le P b P.n (k + 1) (by omega) h
  have inv := run_inv laws P (le_of_lt hP.u_pos) hP.u_le_one hP.col_size b (k + 1) hk'
  have invn := run_inv laws P (le_of_lt hP.u_pos) hP.u_le_one hP.col_size b P.n h
  -- read the property off `UnitLower (prev st n)`
  have key : ∀ (Ls : List (Nat × Vec K)), UnitLower Ls → ∀ (a : Nat) (x : Nat × Vec K), Ls[a]? = some x →
      x.2.get x.1 = 1 ∧ ∀ (a' : Nat) (y : Nat × Vec K), a' < a → Ls[a']? = some y → x.2.get y.1 = 0 := by
    intro Ls
    induction Ls with
    | nil => intro _ a x hx; simp at hx
    | cons pl rest ih =>
      obtain ⟨p, l⟩ := pl
      intro hU a x hx
      obtain ⟨h1, h2, h3⟩ := hU
      cases a with
      | zero =>
        simp at hx; subst hx
        exact ⟨h1, fun a' y ha' _ => by omega⟩
      | succ a =>
        simp at hx
        have := ih h3 a x hx
        refine ⟨this.1, ?_⟩
        intro a' y ha' hy
        cases a' with
        | zero => simp at hy; subst hy; exact h2 x (List.mem_of_getElem? hx)
        | succ a' => simp at hy; exact this.2 a' y (by omega) hy
  have hget : ∀ t < P.n, (prev (run P b P.n) P.n)[t]? = some ((run P b P.n).piv.getD t 0, (run P b P.n).L.getD t #[]) := by
    intro t ht; simp [prev, ht]
  have := key _ invn.unit k _ (hget k hk)
  exact ⟨this.1, fun k' hk' => this.2 k' _ hk' (hget k' (by omega))⟩

/-- **C02 (U has a nonzero diagonal).** -/
theorem luFactor_diag_nonzero (laws : MagLaws K) (P : Params K Rat) (hP : Legal P) (b : Bool)
    (h : (luFactor P b).info = 0) (k : Nat) (hk : k < P.n) :
    ((luFactor P b).U.getD k #[]).getD k 0 ≠ 0 ∧ ((luFactor P b).U.getD k #[]).size = k + 1 := by
  rw [luFactor_eq_run] at h ⊢
  have inv := run_inv laws P (le_of_lt hP.u_pos) hP.u_le_one hP.col_size b P.n h
  exact ⟨inv.udiag k hk, inv.usize k hk⟩

/-- **C02 (the row permutation is a bijection).** The pivot rows are pairwise distinct rows of A, one
per column; for a square matrix every row is a pivot row (injective map between equal finite sets),
for a tall one `permR` numbers the remaining rows after them. -/
theorem luFactor_pivots_injective (laws : MagLaws K) (P : Params K Rat) (hP : Legal P) (b : Bool)
    (h : (luFactor P b).info = 0) :
    (luFactor P b).piv.size = P.n ∧ (luFactor P b).piv.toList.Nodup ∧
    ∀ k < P.n, (luFactor P b).piv.getD k 0 < P.m := by
  rw [luFactor_eq_run] at h ⊢
  have inv := run_inv laws P (le_of_lt hP.u_pos) hP.u_le_one hP.col_size b P.n h
  exact ⟨inv.sizes.1, inv.nodup, inv.prange⟩

/-- **C02 (threshold pivoting, numerator form).** For every row `i` that was a pivot candidate of
column `k`: `u * |L(i,k) * U(k,k)| ≤ |U(k,k)|` — the quantity the code compares (`|re|+|im|` for
complex data). -/
theorem luFactor_multiplier_bound (laws : MagLaws K) (P : Params K Rat) (hP : Legal P) (b : Bool)
    (h : (luFactor P b).info = 0) (k : Nat) (hk : k < P.n) (i : Nat) (hi : i ∈ P.order k)
    (hnot : i ∉ (luFactor P b).piv.toList.take k) :
    P.u * (Mag.abs1 (((luFactor P b).L.getD k #[]).get i * ((luFactor P b).U.getD k #[]).getD k 0) : Rat) ≤
      (Mag.abs1 (((luFactor P b).U.getD k #[]).getD k 0) : Rat) := by
  rw [luFactor_eq_run] at h hnot ⊢
  have inv := run_inv laws P (le_of_lt hP.u_pos) hP.u_le_one hP.col_size b P.n h
  exact inv.mult k hk i hi hnot

/-- **C02 (multipliers bounded by 1/u, real data).** With a multiplicative magnitude (`|ab| = |a||b|`,
true for real scalars) every stored multiplier satisfies `|L(i,k)| ≤ 1/u`. -/
theorem luFactor_multiplier_le_inv_u (laws : MagLaws K) (hmul : ∀ a b : K, (Mag.abs1 (a * b) : Rat) = Mag.abs1 a * Mag.abs1 b)
    (P : Params K Rat) (hP : Legal P) (b : Bool)
    (h : (luFactor P b).info = 0) (k : Nat) (hk : k < P.n) (i : Nat) (hi : i ∈ P.order k)
    (hnot : i ∉ (luFactor P b).piv.toList.take k) :
    (Mag.abs1 (((luFactor P b).L.getD k #[]).get i) : Rat) ≤ 1 / P.u := by
  have hb := luFactor_multiplier_bound laws P hP b h k hk i hi hnot
  have hd := (luFactor_diag_nonzero laws P hP b h k hk).1
  rw [hmul] at hb
  set d : Rat := Mag.abs1 (((luFactor P b).U.getD k #[]).getD k 0) with hdd
  have hdpos : 0 < d := by
    rcases lt_or_eq_of_le (laws.nonneg (((luFactor P b).U.getD k #[]).getD k 0)) with h1 | h1
    · exact h1
    · exact absurd (laws.definite _ h1.symm) hd
  have hu := hP.u_pos
  rw [le_div_iff₀ hu]
  have : P.u * (Mag.abs1 (((luFactor P b).L.getD k #[]).get i) : Rat) * d ≤ 1 * d := by
    calc _ = P.u * ((Mag.abs1 (((luFactor P b).L.getD k #[]).get i) : Rat) * d) := by ring
      _ ≤ d := hb
      _ = 1 * d := by ring
  have := le_of_mul_le_mul_right this hdpos
  linarith

end Slu.LU

namespace Slu.LU
open Slu
variable {K : Type} [Mag K Rat]

/-- **C02 (diagonal preference).** Without reuse, whenever the diagonal row is a candidate whose
magnitude is nonzero and at least `u * max`, the diagonal row is the pivot. -/
theorem pivot_diag_preference (j : Nat) (cands : List (Nat × K)) (u : Rat) (oldRow diagRow d : Nat)
    (hmax : (scanPiv (R := Rat) cands).1 ≠ 0)
    (hd : findRow cands diagRow = some d)
    (hp : passes cands (u * (scanPiv (R := Rat) cands).1) d = true) :
    (pivotChoice (R := Rat) j cands (fun p => u * p) false oldRow diagRow).info = 0 ∧
    (pivotChoice (R := Rat) j cands (fun p => u * p) false oldRow diagRow).row = diagRow ∧
    (pivotChoice (R := Rat) j cands (fun p => u * p) false oldRow diagRow).pos = d := by
  obtain ⟨c, hc, hrow⟩ := findRow_spec cands diagRow d hd
  unfold pivotChoice
  generalize hsp : scanPiv (R := Rat) cands = sp at *
  obtain ⟨pivmax, pivptr⟩ := sp
  simp only at hmax hp ⊢
  have hz : IsZero.isZero pivmax = false := by
    cases h : IsZero.isZero pivmax
    · rfl
    · exact absurd ((isZero_rat _).mp h) hmax
  simp [hz, hd, hp, hc, hrow]

/-- **C02 (reuse kept).** With reuse on, the remembered row is kept exactly when it is a candidate
that passes the same test; the flag stays on. -/
theorem pivot_reuse_kept (j : Nat) (cands : List (Nat × K)) (u : Rat) (oldRow diagRow op : Nat)
    (hmax : (scanPiv (R := Rat) cands).1 ≠ 0)
    (ho : findRow cands oldRow = some op)
    (hp : passes cands (u * (scanPiv (R := Rat) cands).1) op = true) :
    (pivotChoice (R := Rat) j cands (fun p => u * p) true oldRow diagRow).row = oldRow ∧
    (pivotChoice (R := Rat) j cands (fun p => u * p) true oldRow diagRow).usepr = true ∧
    (pivotChoice (R := Rat) j cands (fun p => u * p) true oldRow diagRow).info = 0 := by
  unfold pivotChoice
  generalize hsp : scanPiv (R := Rat) cands = sp at *
  obtain ⟨pivmax, pivptr⟩ := sp
  simp only at hmax hp ⊢
  have hz : IsZero.isZero pivmax = false := by
    cases h : IsZero.isZero pivmax
    · rfl
    · exact absurd ((isZero_rat _).mp h) hmax
  simp [hz, ho, hp, Option.filter]

/-- **C02 (reuse abandoned).** If the remembered row is absent or fails the test, the reuse flag is
cleared; and once cleared it stays cleared (the policy reverts for the rest of the factorization,
because `step` feeds the returned flag to the next column). -/
theorem pivot_reuse_abandoned (j : Nat) (cands : List (Nat × K)) (u : Rat) (usepr : Bool) (oldRow diagRow : Nat)
    (h : usepr = false ∨ findRow cands oldRow = none ∨
         ∃ op, findRow cands oldRow = some op ∧ passes cands (u * (scanPiv (R := Rat) cands).1) op = false) :
    (pivotChoice (R := Rat) j cands (fun p => u * p) usepr oldRow diagRow).usepr = false := by
  unfold pivotChoice
  generalize hsp : scanPiv (R := Rat) cands = sp at *
  obtain ⟨pivmax, pivptr⟩ := sp
  simp only at h ⊢
  by_cases hz : IsZero.isZero pivmax = true
  · simp [hz]
  · simp only [hz, Bool.false_eq_true, if_false]
    rcases h with h | h | ⟨op, h1, h2⟩
    · subst h; simp
    · cases usepr <;> simp [h]
    · cases usepr <;> simp [h1, h2, Option.filter]

end Slu.LU

/-! ### Schedule independence -/
namespace Slu.LU
open Slu

variable {K : Type} [Field K] [Mag K Rat]

/-- **C02 (elimination order).** In a state satisfying the invariant, eliminating column `j` by the
previous columns in ANY order `σ` that is a permutation of `prev st j` respecting the dependencies
(`DepRespecting`: whenever column `a` precedes column `b` in natural order and `L_a(piv b) ≠ 0`,
`a` precedes `b` in `σ`) gives
* the same eliminated column,
* the same multiplier for every previous column (`zip` pairs each column with its multiplier),
* the same pivot candidates, and
* the same new state (pivot decision, new L column, new U column — `stepSched` assembles the U
  column by pivot row) as `step`. -/
theorem luFactor_schedule_independent (P : Params K Rat) (st : St K) (j : Nat) (h : Inv P st j)
    (σ : List (Nat × Vec K)) (hp : σ.Perm (prev st j)) (hd : DepRespecting (prev st j) σ) :
    (elim σ (P.col j)).1 = stepW P st j ∧
    (σ.zip (elim σ (P.col j)).2).Perm ((prev st j).zip (stepUs P st j)) ∧
    (((P.order j).filter (fun r => !(st.piv.contains r))).map fun r => (r, (elim σ (P.col j)).1.get r))
      = stepCands P st j ∧
    stepSched P st j σ = step P st j := by
  obtain ⟨h1, h2⟩ := elim_depRespecting (prev st j) σ (P.col j) h.unit hp hd
  refine ⟨h1, h2, by rw [h1]; rfl, ?_⟩
  apply stepSchedOf_eq_step P st j σ _ h1
  intro k hk
  exact multAt_schedule (fun _ => true) (prev st j) σ (P.col j) h.unit (by simpa using hp) (by simpa using hd)
    (by simp) k hk

/-- **C02 (supernodal schedule).** The same for the real shape of the update: a sequence `bs` of
supernodes, each processed by a dense triangular solve and a matrix-vector product (`elimBlocks`),
visiting only a subset of the previous columns (`ValidSchedule`: each visited column once,
dependencies among the visited columns respected, every column left out has multiplier zero). -/
theorem luFactor_supernodal_schedule (P : Params K Rat) (hP : Legal P) (st : St K) (j : Nat) (h : Inv P st j)
    (bs : List (List (Nat × Vec K))) (hv : ValidSchedule (prev st j) (P.col j) bs) :
    (elimBlocks bs (P.col j)).1 = stepW P st j ∧ stepBlocks P st j bs = step P st j := by
  obtain ⟨keep, hp, hd, hz⟩ := hv
  obtain ⟨h1, h2⟩ := elimBlocks_schedule keep (prev st j) bs (P.col j) h.unit (h.prev_range hP.col_size) hp hd hz
  exact ⟨h1, stepSchedOf_eq_step P st j _ _ h1 h2⟩

/-- **C02 (whole factorization).** A factorization that processes every column by a valid schedule
of supernodal block updates — the schedule may be chosen per column and may depend on the factors
computed so far — returns exactly `luFactor`: same pivots, same L, same U, same `info`. -/
theorem luFactorBlocks_eq_luFactor (laws : MagLaws K) (P : Params K Rat) (hP : Legal P) (b : Bool)
    (sched : St K → Nat → List (List (Nat × Vec K)))
    (hs : ∀ j < P.n, (run P b j).info = 0 →
      ValidSchedule (prev (run P b j) j) (P.col j) (sched (run P b j) j)) :
    luFactorBlocks P b sched = luFactor P b := by
  rw [luFactor_eq_run]
  unfold luFactorBlocks
  have key : ∀ j ≤ P.n,
      (List.range j).foldl (fun st j => stepBlocks P st j (sched st j)) { usepr := b } = run P b j := by
    intro j
    induction j with
    | zero => intro _; simp [run]
    | succ j ih =>
      intro hj
      rw [List.range_succ, List.foldl_append, ih (by omega), run_succ]
      simp only [List.foldl_cons, List.foldl_nil]
      by_cases h0 : (run P b j).info = 0
      · exact (luFactor_supernodal_schedule P hP _ j
          (run_inv laws P (le_of_lt hP.u_pos) hP.u_le_one hP.col_size b j h0) _ (hs j (by omega) h0)).2
      · rw [step_stuck P _ j h0]
        simp [stepBlocks, stepSchedOf, h0]
  exact key P.n (le_refl _)

end Slu.LU

/-! ### Non-vacuity: the hypotheses are satisfiable and the clauses are exercised -/
namespace Slu.LU
open Slu

/-- the real magnitude satisfies the laws (and is multiplicative) -/
theorem magLaws_rat : MagLaws Rat where
  nonneg := fun x => rabs_nonneg x
  zero := by simp [Mag.abs1]
  definite := fun x h => by simpa [Mag.abs1] using h

theorem mag_rat_mul (a b : Rat) : (Mag.abs1 (a * b) : Rat) = Mag.abs1 a * Mag.abs1 b := by
  simp [Mag.abs1, abs_mul]

/-- a 3x3 matrix whose first column forces a genuine row interchange (|4| > |2|) -/
def exCols : Nat → Vec Rat
  | 0 => #[2, 4, 1]
  | 1 => #[1, 3, 1]
  | _ => #[0, 1, 5]

def exP : Params Rat Rat :=
  { m := 3, n := 3, col := exCols, u := 1, order := fun _ => [0, 1, 2], oldPiv := fun _ => 0, diagRow := fun j => j }

theorem exP_legal : Legal exP :=
  ⟨by decide, by decide, by intro j; match j with | 0 => rfl | 1 => rfl | (_ + 2) => rfl⟩

example : (luFactor exP false).info = 0 := by decide +kernel
example : (luFactor exP false).piv = #[1, 0, 2] := by decide +kernel           -- row 1 first: interchange
example : (luFactor exP false).U.getD 0 #[] = #[4] := by decide +kernel
example : (luFactor exP false).L.getD 0 #[] = #[1/2, 1, 1/4] := by decide +kernel
/-- a singular matrix (two equal columns) is reported at its second column -/
example : (luFactor { exP with col := fun j => if j = 1 then exCols 0 else exCols j } false).info = 2 := by decide +kernel

/-! non-vacuity of the schedule theorems: columns 0 and 1 of this matrix are independent
(`L_0(piv 1) = 0 = L_1(piv 0)`), so column 2 may be eliminated by column 1 first -/
def exQCols : Nat → Vec Rat
  | 0 => #[2, 0, 1]
  | 1 => #[0, 3, 1]
  | _ => #[1, 2, 5]

def exQ : Params Rat Rat :=
  { m := 3, n := 3, col := exQCols, u := 1, order := fun _ => [0, 1, 2], oldPiv := fun _ => 0, diagRow := fun j => j }

theorem exQ_legal : Legal exQ :=
  ⟨by decide, by decide, by intro j; match j with | 0 => rfl | 1 => rfl | (_ + 2) => rfl⟩

theorem exQ_prev : prev (run exQ false 2) 2 = [(0, #[1, 0, 1/2]), (1, #[0, 1, 1/3])] := by decide +kernel

/-- the two previous columns in swapped order -/
def exQσ : List (Nat × Vec Rat) := [(1, #[0, 1, 1/3]), (0, #[1, 0, 1/2])]

theorem exQ_inv : Inv exQ (run exQ false 2) 2 :=
  run_inv magLaws_rat exQ (by decide) (by decide) exQ_legal.col_size false 2 (by decide +kernel)

theorem exQ_dep : DepRespecting (prev (run exQ false 2) 2) exQσ := by
  apply depRespecting_of_unitLower _ _ exQ_inv.unit
  · simp [exQσ, UnitLower, Vec.get]
  · rw [exQ_prev]; exact List.Perm.swap _ _ _

/-- the multipliers really come out in a different order … -/
example : (elim exQσ (exQ.col 2)).2 = [2, 1] ∧ stepUs exQ (run exQ false 2) 2 = [1, 2] := by decide +kernel
/-- … the hypotheses of `luFactor_schedule_independent` hold for the swapped order … -/
example := luFactor_schedule_independent exQ _ 2 exQ_inv exQσ (by rw [exQ_prev]; exact List.Perm.swap _ _ _) exQ_dep
/-- … and the conclusion is what evaluation gives -/
example : (stepSched exQ (run exQ false 2) 2 exQσ).U = (luFactor exQ false).U := by decide +kernel

/-- column 1 does not reach column 0 (`A(0,1) = 0`, multiplier 0): the empty schedule is valid -/
example : ValidSchedule (prev (run exQ false 1) 1) (exQ.col 1) [] :=
  ⟨fun _ => false, by simp, by intro a b hab; simp at hab, by decide +kernel⟩

/-- every column by ONE supernode holding the previous columns in REVERSE order is a valid schedule
for this matrix, so `luFactorBlocks_eq_luFactor` applies to a schedule that is not the natural one -/
theorem exQ_sched_valid (j : Nat) (hj : j < 3) :
    ValidSchedule (prev (run exQ false j) j) (exQ.col j) [(prev (run exQ false j) j).reverse] := by
  apply validSchedule_of_perm
  · simp
  · match j, hj with
    | 0, _ => intro a b hab; simp [prev] at hab
    | 1, _ =>
      rw [show prev (run exQ false 1) 1 = [(0, #[1, 0, 1/2])] by decide +kernel]
      intro a b hab; simp at hab
    | 2, _ =>
      rw [exQ_prev]
      exact depRespecting_of_unitLower _ _ (by simp [UnitLower, Vec.get]) (by simp [UnitLower, Vec.get])
        (by simpa using List.Perm.swap _ _ _)

example : luFactorBlocks exQ false (fun st j => [(prev st j).reverse]) = luFactor exQ false :=
  luFactorBlocks_eq_luFactor magLaws_rat exQ exQ_legal false _ (fun j hj _ => exQ_sched_valid j hj)

/-- the complex magnitude `|re| + |im|` over the Gaussian rationals satisfies the laws, so every
theorem above applies verbatim to complex data (`Field (Cx Rat)` is proved in Lemmas/CxRat.lean).
It is NOT multiplicative, which is why `luFactor_multiplier_le_inv_u` is stated for real data only;
the numerator form `luFactor_multiplier_bound` is what holds for complex data. -/
theorem magLaws_cx : MagLaws (Cx Rat) where
  nonneg := fun z => add_nonneg (rabs_nonneg _) (rabs_nonneg _)
  zero := by
    show rabs (0 : Cx Rat).re + rabs (0 : Cx Rat).im = 0
    simp [Cx.zero_def]
  definite := fun z h => by
    have h' : rabs z.re + rabs z.im = 0 := h
    have h1 := rabs_nonneg z.re; have h2 := rabs_nonneg z.im
    have e1 : rabs z.re = 0 := by linarith
    have e2 : rabs z.im = 0 := by linarith
    simp at e1 e2
    cases z; simp_all [Cx.zero_def]

example (P : Params (Cx Rat) Rat) (hP : Legal P) (h : (luFactor P false).info = 0) (j : Nat) (hj : j < P.n) (i : Nat) (hi : i < P.m) :=
  luFactor_identity magLaws_cx P hP false h j hj i hi

end Slu.LU
