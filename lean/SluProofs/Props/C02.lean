import SluProofs.Lemmas.LUInv
/-
C02 — Factors reproduce the permuted matrix; pivoting bounds hold.

Theorems about `Slu.LU.luFactor` (column LU with the pivot policy of `[sdcz]pivotL`), for every
m, n, every matrix (columns of `A*Pc` as length-m vectors), every threshold `0 < u ≤ 1`, every
candidate order, every reuse state (`usepr`, remembered pivots) and every choice of diagonal rows,
over an arbitrary field `K` with a magnitude function satisfying `MagLaws` (exact arithmetic;
`K = Rat` with `|x|` is the instance exercised below).

Reading the statements: `st.piv[k]` is the row of A chosen as k-th pivot (`perm_r[piv k] = k`);
`st.L[k]` is column k of L indexed by ORIGINAL row, so `(Pr A Pc)(perm_r i, j) = A(i, pc⁻¹ j) =
(P.col j).get i` and `L(perm_r i, k) = (st.L[k]).get i`; `st.U[j]` holds `U(0..j, j)`.
-/
namespace Slu.LU
open Slu

variable {K : Type} [Field K] [Mag K Rat]

/-- hypotheses shared by the theorems: a legal threshold and columns of the declared length -/
structure Legal (P : Params K Rat) : Prop where
  u_pos : 0 < P.u
  u_le_one : P.u ≤ 1
  col_size : ∀ j, (P.col j).size = P.m

/-- **C02 (identity).** On success `(Pr A Pc)(i, j) = Σ_{k ≤ j} L(i,k) U(k,j)` for every row and
column — exactly, in exact arithmetic. -/
theorem luFactor_identity (laws : MagLaws K) (P : Params K Rat) (hP : Legal P) (b : Bool)
    (h : (luFactor P b).info = 0) (j : Nat) (hj : j < P.n) (i : Nat) (hi : i < P.m) :
    (P.col j).get i =
      ((List.range (j + 1)).map fun k =>
        ((luFactor P b).U.getD j #[]).getD k 0 * ((luFactor P b).L.getD k #[]).get i).sum := by
  rw [luFactor_eq_run] at h ⊢
  have inv := run_inv laws P hP.u_pos hP.u_le_one hP.col_size b P.n h
  rw [inv.ident j hj i hi, dotL_prev _ _ (j + 1) i (by simp [inv.usize j hj])]
  simp [Array.getD, List.getD]

/-- **C02 (unit lower trapezoidal L).** `L(piv k, k) = 1` and `L(piv k', k) = 0` for `k' < k`:
in the permuted row order L has a unit diagonal and nothing above it. -/
theorem luFactor_unit_lower (laws : MagLaws K) (P : Params K Rat) (hP : Legal P) (b : Bool)
    (h : (luFactor P b).info = 0) (k : Nat) (hk : k < P.n) :
    ((luFactor P b).L.getD k #[]).get ((luFactor P b).piv.getD k 0) = 1 ∧
    ∀ k' < k, ((luFactor P b).L.getD k #[]).get ((luFactor P b).piv.getD k' 0) = 0 := by
  rw [luFactor_eq_run] at h ⊢
  have hk' := run_info_le P b P.n (k + 1) (by omega) h
  have inv := run_inv laws P hP.u_pos hP.u_le_one hP.col_size b (k + 1) hk'
  have invn := run_inv laws P hP.u_pos hP.u_le_one hP.col_size b P.n h
  -- read the property off `UnitLower (prev st n)`
  have key : ∀ (Ls : List (Nat × Vec K)), UnitLower Ls → ∀ a (ha : a < Ls.length),
      (Ls[a]).2.get (Ls[a]).1 = 1 ∧ ∀ a' (ha' : a' < a), (Ls[a]).2.get (Ls[a']).1 = 0 := by
    intro Ls
    induction Ls with
    | nil => intro _ a ha; simp at ha
    | cons pl rest ih =>
      obtain ⟨p, l⟩ := pl
      intro hU a ha
      obtain ⟨h1, h2, h3⟩ := hU
      cases a with
      | zero => exact ⟨by simpa using h1, fun a' ha' => by omega⟩
      | succ a =>
        have := ih h3 a (by simpa using ha)
        refine ⟨by simpa using this.1, ?_⟩
        intro a' ha'
        cases a' with
        | zero => simpa using h2 (rest[a]) (List.getElem_mem _)
        | succ a' => simpa using this.2 a' (by omega)
  have hlen : (prev (run P b P.n) P.n).length = P.n := prev_length _ _
  have := key _ invn.unit k (by rw [hlen]; exact hk)
  simp only [prev, List.getElem_map, List.getElem_range] at this
  exact ⟨this.1, fun k' hk' => this.2 k' hk'⟩

/-- **C02 (U has a nonzero diagonal).** -/
theorem luFactor_diag_nonzero (laws : MagLaws K) (P : Params K Rat) (hP : Legal P) (b : Bool)
    (h : (luFactor P b).info = 0) (k : Nat) (hk : k < P.n) :
    ((luFactor P b).U.getD k #[]).getD k 0 ≠ 0 ∧ ((luFactor P b).U.getD k #[]).size = k + 1 := by
  rw [luFactor_eq_run] at h ⊢
  have inv := run_inv laws P hP.u_pos hP.u_le_one hP.col_size b P.n h
  exact ⟨inv.udiag k hk, inv.usize k hk⟩

/-- **C02 (the row permutation is a bijection).** The pivot rows are pairwise distinct rows of A, one
per column; for a square matrix every row is a pivot row (injective map between equal finite sets),
for a tall one `permR` numbers the remaining rows after them. -/
theorem luFactor_pivots_injective (laws : MagLaws K) (P : Params K Rat) (hP : Legal P) (b : Bool)
    (h : (luFactor P b).info = 0) :
    (luFactor P b).piv.size = P.n ∧ (luFactor P b).piv.toList.Nodup ∧
    ∀ k < P.n, (luFactor P b).piv.getD k 0 < P.m := by
  rw [luFactor_eq_run] at h ⊢
  have inv := run_inv laws P hP.u_pos hP.u_le_one hP.col_size b P.n h
  exact ⟨inv.sizes.1, inv.nodup, inv.prange⟩

/-- **C02 (threshold pivoting, numerator form).** For every row `i` that was a pivot candidate of
column `k`: `u * |L(i,k) * U(k,k)| ≤ |U(k,k)|` — the quantity the code compares (`|re|+|im|` for
complex data). -/
theorem luFactor_multiplier_bound (laws : MagLaws K) (P : Params K Rat) (hP : Legal P) (b : Bool)
    (h : (luFactor P b).info = 0) (k : Nat) (hk : k < P.n) (i : Nat) (hi : i ∈ P.order k)
    (hnot : i ∉ (luFactor P b).piv.toList.take k) :
    P.u * (Mag.abs1 (((luFactor P b).L.getD k #[]).get i * ((luFactor P b).U.getD k #[]).getD k 0) : Rat) ≤
      (Mag.abs1 (((luFactor P b).U.getD k #[]).getD k 0) : Rat) := by
  rw [luFactor_eq_run] at h hnot ⊢
  have inv := run_inv laws P hP.u_pos hP.u_le_one hP.col_size b P.n h
  exact inv.mult k hk i hi hnot

/-- **C02 (multipliers bounded by 1/u, real data).** With a multiplicative magnitude (`|ab| = |a||b|`,
true for real scalars) every stored multiplier satisfies `|L(i,k)| ≤ 1/u`. -/
theorem luFactor_multiplier_le_inv_u (laws : MagLaws K) (hmul : ∀ a b : K, (Mag.abs1 (a * b) : Rat) = Mag.abs1 a * Mag.abs1 b)
    (P : Params K Rat) (hP : Legal P) (b : Bool)
    (h : (luFactor P b).info = 0) (k : Nat) (hk : k < P.n) (i : Nat) (hi : i ∈ P.order k)
    (hnot : i ∉ (luFactor P b).piv.toList.take k) :
    (Mag.abs1 (((luFactor P b).L.getD k #[]).get i) : Rat) ≤ 1 / P.u := by
  have hb := luFactor_multiplier_bound laws P hP b h k hk i hi hnot
  have hd := (luFactor_diag_nonzero laws P hP b h k hk).1
  rw [hmul] at hb
  set d : Rat := Mag.abs1 (((luFactor P b).U.getD k #[]).getD k 0) with hdd
  have hdpos : 0 < d := by
    rcases lt_or_eq_of_le (laws.nonneg (((luFactor P b).U.getD k #[]).getD k 0)) with h1 | h1
    · exact h1
    · exfalso
      -- |d| = 0 with d ≠ 0 contradicts multiplicativity: |d| * |1/d| = |1| and |x| = |x * 1| = |x||1|
      have h1' : d = 0 := h1.symm
      have hone : (Mag.abs1 (1 : K) : Rat) = 0 := by
        have := hmul (((luFactor P b).U.getD k #[]).getD k 0) (1 / ((luFactor P b).U.getD k #[]).getD k 0)
        rw [mul_one_div_cancel hd] at this
        rw [this, ← hdd, h1']; ring
      -- then every magnitude is 0, in particular the bound is trivial; derive the contradiction from hb's shape
      have hall : ∀ x : K, (Mag.abs1 x : Rat) = 0 := by
        intro x; have := hmul x 1; rw [mul_one] at this; rw [this, hone]; ring
      -- the pivot was accepted with a nonzero magnitude: contradiction is not available from here,
      -- but the goal itself follows: |L| = 0 ≤ 1/u
      rw [hall]; exact absurd rfl (by
        intro _; exact (lt_irrefl (0:Rat)) (by
          have := hall (1:K); linarith [hP.u_pos]))
  have hu := hP.u_pos
  rw [le_div_iff₀ hu]
  have : P.u * (Mag.abs1 (((luFactor P b).L.getD k #[]).get i) : Rat) * d ≤ 1 * d := by
    calc _ = P.u * ((Mag.abs1 (((luFactor P b).L.getD k #[]).get i) : Rat) * d) := by ring
      _ ≤ d := hb
      _ = 1 * d := by ring
  have := le_of_mul_le_mul_right this hdpos
  linarith

end Slu.LU
