import Slu.Model.Refine
import SluProofs.Lemmas.Lacon
import SluProofs.Lemmas.Fold
import SluProofs.Lemmas.FoldCongr
import SluProofs.Lemmas.RefineResid
import SluProofs.Lemmas.RefineDenom
import SluProofs.Lemmas.OettliPrager
import SluProofs.Lemmas.RefineDense
/-
C13 — Reported backward error is the true backward error of the returned X.

Theorems are about `Slu.Refine` (the model compared bit for bit with `[sdcz]gsrfs` on every run):
`berrOf / berrX` (safeguarded componentwise ratio), `refineLoop / refineCol` (the `while (1)` loop with
the solver as a parameter), `ferrOf` (error-bound set-up), `driverRefine` (glue of `[sdcz]gssvx`), in
exact arithmetic (`arithQ` on `Rat`; `arithQC` on `Cx Rat` with the library's magnitude |re|+|im|),
for all sizes, all matrices in compressed-column storage (any order, duplicates allowed), all
right-hand sides, every solver function.

`berr_is_cwbe`: the stored `berr[j]` equals `max_{i : d_i ≠ 0} |b - op(A)x|_i / (|op(A)||x| + |b|)_i`.
`berr_is_min_backward_error` (real arithmetic, `trans ∈ {N,T,C}`, no position stored twice): that number
is the smallest `ω ≥ 0` for which the returned `x` solves exactly a system `(op(A) + δA) x = b + δb` with
`|δA| ≤ ω |op(A)|`, `|δb| ≤ ω |b|` entrywise — the Oettli–Prager theorem, proved in
`Lemmas/OettliPrager.lean` (`oettli_prager`, `oettli_prager_min`); `berr_is_min_backward_error_dup` is
the version for storage with duplicate positions (weights = sums of the stored magnitudes).  The complex
routines (`|z| = |re| + |im|`) only get the lower-bound half, see the comment after the theorem.
-/
namespace Slu.Refine
open Slu Slu.Lacon

variable {K : Type} [Inhabited K]

/-! ### the BERR formula -/

/-- the ratio of row `i` -/
def ratio (Ar : Arith K Rat) (work : Array K) (rwork : Array Rat) (i : Nat) : Rat :=
  Ar.absK (work.getD i Ar.kzero) / rwork.getD i 0

/-- **C13 (BERR formula, safeguard inactive).** When every denominator is either exactly zero or
above `safe2`, the safeguarded maximum is the plain running maximum of `|r_i| / d_i` over the rows
with `d_i ≠ 0` (rows with a zero denominator contribute nothing). -/
theorem berrOf_eq_foldMax (Ar : Arith K Rat) (hdiv : ∀ r d, Ar.div1 r d = r / d) (s1 s2 : Rat) (hs2 : 0 ≤ s2)
    (work : Array K) (rwork : Array Rat)
    (hsafe : ∀ i, i < rwork.size → rwork.getD i 0 = 0 ∨ s2 < rwork.getD i 0) :
    berrOf Ar s1 s2 work rwork =
      foldMaxIf (fun i => rwork.getD i 0 ≠ 0) (ratio Ar work rwork) 0 (List.range rwork.size) := by
  unfold berrOf foldMaxIf
  apply foldl_congr_mem
  intro i hi acc
  have hi' := List.mem_range.mp hi
  rcases hsafe i hi' with h | h
  · have h1 : ¬ (s2 < rwork.getD i 0) := by rw [h]; exact not_lt.mpr hs2
    rw [h] at h1
    simp only [gt_iff_lt, h, h1, if_false, bne_self_eq_false, Bool.false_eq_true, ne_eq, not_true_eq_false]
  · have h0 : rwork.getD i 0 ≠ 0 := ne_of_gt (lt_of_le_of_lt hs2 h)
    simp only [gt_iff_lt, h, if_true, h0, ne_eq, not_false_eq_true, smax_eq_max, hdiv, ratio]

/-- the array-level part of `berr_is_cwbe`: BERR is the largest ratio `|work_i| / rwork_i` — it bounds
every row with a non-zero denominator, is attained by one of them (or is zero), and is `≥ 0`. -/
theorem berr_is_cwbe_partial (Ar : Arith K Rat) (hdiv : ∀ r d, Ar.div1 r d = r / d) (s1 s2 : Rat) (hs2 : 0 ≤ s2)
    (work : Array K) (rwork : Array Rat)
    (hsafe : ∀ i, i < rwork.size → rwork.getD i 0 = 0 ∨ s2 < rwork.getD i 0) :
    (∀ i, i < rwork.size → rwork.getD i 0 ≠ 0 → ratio Ar work rwork i ≤ berrOf Ar s1 s2 work rwork) ∧
    (berrOf Ar s1 s2 work rwork = 0 ∨
      ∃ i, i < rwork.size ∧ rwork.getD i 0 ≠ 0 ∧ ratio Ar work rwork i = berrOf Ar s1 s2 work rwork) ∧
    0 ≤ berrOf Ar s1 s2 work rwork := by
  rw [berrOf_eq_foldMax Ar hdiv s1 s2 hs2 work rwork hsafe]
  refine ⟨fun i hi h0 => foldMaxIf_ge_mem _ _ 0 _ i (List.mem_range.mpr hi) h0, ?_, foldMaxIf_ge_init _ _ 0 _⟩
  rcases foldMaxIf_attained (fun i => rwork.getD i 0 ≠ 0) (ratio Ar work rwork) 0 (List.range rwork.size) with h | ⟨i, hi, h0, he⟩
  · left; exact h
  · right; exact ⟨i, List.mem_range.mp hi, h0, he⟩

/-! ### BERR is the componentwise backward error -/

section cwbe
open Slu.Gssvx
variable [CommRing K] [HasConj K] [Mag K Rat] [ScalarLaws K]

/-- row `i` of `b - op(A) x`, `A(r,c)` being the sum of the stored entries at `(r,c)` -/
def residRow (tr : Trans) (A : CSC K) (x b : Array K) (i : Nat) : K :=
  b.getD i 0 - opMul (opOfTrans tr) (cscEntries A) (fun k => x.getD k 0) i

/-- row `i` of `|op(A)||x| + |b|` with the library's magnitude -/
def denomRow (Ar : Arith K Rat) (tr : Trans) (A : CSC K) (x b : Array K) (i : Nat) : Rat :=
  Ar.absK (b.getD i 0) + opMul (opOfTrans tr) (absEntries Ar A) (fun k => Ar.absK (x.getD k 0)) i

/-- **C13 (BERR is the componentwise backward error).** In exact arithmetic (`Ar = arithQ` on `Rat`,
`arithQC` on `Cx Rat`, or any record obeying `ArithLaws`/`AbsLaws`), for every compressed-column matrix
(any order, duplicates summed), every `x`, `b` and `trans ∈ {N,T,C}`: if every denominator
`d_i = (|op(A)||x| + |b|)_i` is `0` or above `safe2`, the value `[sdcz]gsrfs` stores in `berr[j]` is
`max_{i : d_i ≠ 0} |b - op(A) x|_i / d_i` — it bounds every such row, is attained (or is zero), is
`≥ 0` — and the rows left out (`d_i = 0`) have a zero residual. -/
theorem berr_is_cwbe (Ar : Arith K Rat) (laws : ArithLaws Ar) (al : AbsLaws Ar)
    (hdiv : ∀ r d, Ar.div1 r d = r / d) (tr : Trans) (A : CSC K) (safmin eps : Rat) (b x : Array K)
    (hs2 : 0 ≤ safe2 Ar A.n safmin eps)
    (hsafe : ∀ i, i < b.size → denomRow Ar tr A x b i = 0 ∨ safe2 Ar A.n safmin eps < denomRow Ar tr A x b i) :
    berrX Ar tr A safmin eps b x =
      foldMaxIf (fun i => denomRow Ar tr A x b i ≠ 0)
        (fun i => Ar.absK (residRow tr A x b i) / denomRow Ar tr A x b i) 0 (List.range b.size) ∧
    (∀ i, i < b.size → denomRow Ar tr A x b i ≠ 0 →
      Ar.absK (residRow tr A x b i) / denomRow Ar tr A x b i ≤ berrX Ar tr A safmin eps b x) ∧
    (berrX Ar tr A safmin eps b x = 0 ∨ ∃ i, i < b.size ∧ denomRow Ar tr A x b i ≠ 0 ∧
      Ar.absK (residRow tr A x b i) / denomRow Ar tr A x b i = berrX Ar tr A safmin eps b x) ∧
    0 ≤ berrX Ar tr A safmin eps b x ∧
    (∀ i, i < b.size → denomRow Ar tr A x b i = 0 → residRow tr A x b i = 0) := by
  obtain ⟨rs, rv⟩ := resid_exact Ar laws tr A x b
  obtain ⟨ds, dv⟩ := denom_exact Ar al laws.kzero tr A x b
  have hsafe' : ∀ i, i < (denom Ar tr A x b).size →
      (denom Ar tr A x b).getD i 0 = 0 ∨ safe2 Ar A.n safmin eps < (denom Ar tr A x b).getD i 0 := by
    intro i hi
    rw [ds] at hi
    rw [dv i hi]; exact hsafe i hi
  have heq : berrX Ar tr A safmin eps b x =
      foldMaxIf (fun i => denomRow Ar tr A x b i ≠ 0)
        (fun i => Ar.absK (residRow tr A x b i) / denomRow Ar tr A x b i) 0 (List.range b.size) := by
    unfold berrX
    rw [berrOf_eq_foldMax Ar hdiv _ _ hs2 _ _ hsafe', ds]
    unfold foldMaxIf
    apply foldl_congr_mem
    intro i hi acc
    have hi' := List.mem_range.mp hi
    have e1 : (denom Ar tr A x b).getD i 0 = denomRow Ar tr A x b i := dv i hi'
    have e2 : ratio Ar (resid Ar tr A x b) (denom Ar tr A x b) i =
        Ar.absK (residRow tr A x b i) / denomRow Ar tr A x b i := by
      unfold ratio
      rw [e1, laws.kzero, rv i hi']; rfl
    simp only [e1, e2]
  refine ⟨heq, ?_, ?_, ?_, ?_⟩
  · intro i hi h0
    rw [heq]
    exact foldMaxIf_ge_mem _ _ 0 _ i (List.mem_range.mpr hi) h0
  · rw [heq]
    rcases foldMaxIf_attained (fun i => denomRow Ar tr A x b i ≠ 0)
      (fun i => Ar.absK (residRow tr A x b i) / denomRow Ar tr A x b i) 0 (List.range b.size) with h | ⟨i, hi, h0, he⟩
    · left; exact h
    · right; exact ⟨i, List.mem_range.mp hi, h0, he⟩
  · rw [heq]; exact foldMaxIf_ge_init _ _ 0 _
  · intro i _ h0
    exact resid_zero_of_denom_zero Ar al tr A x b i h0

/-- the theorem applies to the real and to the complex exact arithmetic -/
example (tr : Trans) (A : CSC Rat) (safmin eps : Rat) (b x : Array Rat)
    (hs2 : 0 ≤ safe2 arithQ A.n safmin eps)
    (hsafe : ∀ i, i < b.size → denomRow arithQ tr A x b i = 0 ∨ safe2 arithQ A.n safmin eps < denomRow arithQ tr A x b i) :
    0 ≤ berrX arithQ tr A safmin eps b x :=
  (berr_is_cwbe arithQ arithQ_laws absQ_laws (fun _ _ => rfl) tr A safmin eps b x hs2 hsafe).2.2.2.1
example (tr : Trans) (A : CSC (Cx Rat)) (safmin eps : Rat) (b x : Array (Cx Rat))
    (hs2 : 0 ≤ safe2 arithQC A.n safmin eps)
    (hsafe : ∀ i, i < b.size → denomRow arithQC tr A x b i = 0 ∨ safe2 arithQC A.n safmin eps < denomRow arithQC tr A x b i) :
    0 ≤ berrX arithQC tr A safmin eps b x :=
  (berr_is_cwbe arithQC arithQC_laws absQC_laws (fun _ _ => rfl) tr A safmin eps b x hs2 hsafe).2.2.2.1

end cwbe

/-! ### BERR is the smallest componentwise relative backward error (Oettli–Prager) -/

section minbe
open Slu.Gssvx Slu.Equil Slu.OettliPrager

/-- the residual row of `berr_is_cwbe` is the dense residual of the Oettli–Prager theorem -/
theorem residRow_eq_res (tr : Trans) (A : CSC Rat) (x b : Array Rat) (n : Nat) (hn : A.n ≤ n) (hx : x.size ≤ n) (i : Nat) :
    residRow tr A x b i =
      res n (opDense tr (cscEntries A)) (fun k => x.getD k 0) (fun k => b.getD k 0) i := by
  unfold residRow res
  rw [opMul_eq_dense tr _ _ n i (fun e he => Nat.lt_of_lt_of_le (mem_cscEntries_col A e he) hn)
    (fun k hk => getD_zero_of_size_le x n k hx hk)]

/-- the denominator row of `berr_is_cwbe` is the Oettli–Prager weight `(E |x| + |b|)_i`, `E(r,c)` being
the sum of the magnitudes of the entries stored at `(r,c)` -/
theorem denomRow_eq_den (tr : Trans) (A : CSC Rat) (x b : Array Rat) (n : Nat) (hn : A.n ≤ n) (hx : x.size ≤ n) (i : Nat) :
    denomRow arithQ tr A x b i =
      den n (opDense tr (absEntries arithQ A)) (fun k => x.getD k 0) (fun k => |b.getD k 0|) i := by
  unfold denomRow den
  rw [opMul_eq_dense tr _ _ n i (fun e he => Nat.lt_of_lt_of_le (mem_absEntries_col A e he) hn)
    (fun k hk => by
      show rabs (x.getD k 0) = 0
      rw [getD_zero_of_size_le x n k hx hk]; rfl)]
  show rabs (b.getD i 0) + ∑ j ∈ Finset.range n, opDense tr (absEntries arithQ A) i j * rabs (x.getD j 0) = _
  simp only [rabs_eq_abs]
  ring

/-- the reported value is the `ω*` of the Oettli–Prager theorem -/
theorem berrX_eq_omegaStar (tr : Trans) (A : CSC Rat) (safmin eps : Rat) (b x : Array Rat) (n : Nat)
    (hn : A.n ≤ n) (hx : x.size ≤ n)
    (hs2 : 0 ≤ safe2 arithQ A.n safmin eps)
    (hsafe : ∀ i, i < b.size → denomRow arithQ tr A x b i = 0 ∨ safe2 arithQ A.n safmin eps < denomRow arithQ tr A x b i) :
    berrX arithQ tr A safmin eps b x =
      omegaStar b.size n (opDense tr (cscEntries A)) (opDense tr (absEntries arithQ A))
        (fun k => x.getD k 0) (fun k => b.getD k 0) (fun k => |b.getD k 0|) := by
  rw [(berr_is_cwbe arithQ arithQ_laws absQ_laws (fun _ _ => rfl) tr A safmin eps b x hs2 hsafe).1]
  unfold omegaStar
  have e1 : ∀ i, residRow tr A x b i = _ := residRow_eq_res tr A x b n hn hx
  have e2 : ∀ i, denomRow arithQ tr A x b i = _ := denomRow_eq_den tr A x b n hn hx
  simp only [e1, e2]
  show foldMaxIf _ (fun i => rabs _ / _) 0 _ = _
  simp only [rabs_eq_abs]

/-- **C13 (BERR is the smallest componentwise backward error; duplicates allowed).**  Real exact
arithmetic, `trans ∈ {N,T,C}`, any compressed-column matrix.  Let `a(i,j)` be entry `(i,j)` of `op(A)`
(sum of the values stored there), `e(i,j)` the sum of their magnitudes (`= |a(i,j)|` when the position is
stored once), `m = b.size` rows and `n ≥ A.n, x.size` columns.  Under the hypotheses of `berr_is_cwbe`
the value stored in `berr[j]` is `≥ 0`, `x` solves exactly a system `(op(A) + δA) x = b + δb` with
`|δA| ≤ berr · e`, `|δb| ≤ berr · |b|` entrywise, and no `ω ≥ 0` allowing such a perturbation — with the
bound `ω e` or with the tighter bound `ω |a|` — is smaller than `berr`. -/
theorem berr_is_min_backward_error_dup (tr : Trans) (A : CSC Rat) (safmin eps : Rat) (b x : Array Rat) (n : Nat)
    (hn : A.n ≤ n) (hx : x.size ≤ n)
    (hs2 : 0 ≤ safe2 arithQ A.n safmin eps)
    (hsafe : ∀ i, i < b.size → denomRow arithQ tr A x b i = 0 ∨ safe2 arithQ A.n safmin eps < denomRow arithQ tr A x b i) :
    let a : Nat → Nat → Rat := opDense tr (cscEntries A)
    let e : Nat → Nat → Rat := opDense tr (absEntries arithQ A)
    let xv : Nat → Rat := fun k => x.getD k 0
    let bv : Nat → Rat := fun k => b.getD k 0
    let berr : Rat := berrX arithQ tr A safmin eps b x
    0 ≤ berr ∧
    Feasible b.size n a e xv bv (fun i => |bv i|) berr ∧
    (∀ ω, 0 ≤ ω → Feasible b.size n a e xv bv (fun i => |bv i|) ω → berr ≤ ω) ∧
    (∀ ω, 0 ≤ ω → Feasible b.size n a (fun i j => |a i j|) xv bv (fun i => |bv i|) ω → berr ≤ ω) := by
  intro a e xv bv berr
  have hcw := berr_is_cwbe arithQ arithQ_laws absQ_laws (fun _ _ => rfl) tr A safmin eps b x hs2 hsafe
  have heq : berr = omegaStar b.size n a e xv bv (fun i => |bv i|) :=
    berrX_eq_omegaStar tr A safmin eps b x n hn hx hs2 hsafe
  have hE : ∀ i < b.size, ∀ j < n, 0 ≤ e i j :=
    fun i _ j _ => le_trans (abs_nonneg _) (opDense_abs_le tr A i j)
  have hf : ∀ i < b.size, (0 : Rat) ≤ |bv i| := fun _ _ => abs_nonneg _
  have hz : ∀ i < b.size, den n e xv (fun i => |bv i|) i = 0 → res n a xv bv i = 0 := by
    intro i hi h0
    rw [← denomRow_eq_den tr A x b n hn hx i] at h0
    rw [← residRow_eq_res tr A x b n hn hx i]
    exact hcw.2.2.2.2 i hi h0
  have hmin : ∀ ω, 0 ≤ ω → Feasible b.size n a e xv bv (fun i => |bv i|) ω → berr ≤ ω := by
    intro ω hω h; rw [heq]; exact omegaStar_le _ _ _ _ _ _ _ hE hf ω hω h
  refine ⟨hcw.2.2.2.1, ?_, hmin, ?_⟩
  · rw [heq]; exact omegaStar_feasible _ _ _ _ _ _ _ hE hf hz
  · intro ω hω h
    exact hmin ω hω (Feasible.mono_E hω (fun i _ j _ => opDense_abs_le tr A i j) h)

/-- **C13 (BERR is the smallest componentwise relative backward error).**  Real exact arithmetic,
`trans ∈ {N,T,C}`, a compressed-column matrix that stores no position twice (any order inside the
columns).  With `a(i,j)` entry `(i,j)` of `op(A)`, `m = b.size` rows and `n ≥ A.n, x.size` columns: under
the hypotheses of `berr_is_cwbe` the value `[sd]gsrfs` stores in `berr[j]` is the smallest `ω ≥ 0` for
which the returned `x` is the exact solution of a system `(op(A) + δA) x = b + δb` with
`|δA(i,j)| ≤ ω |a(i,j)|` and `|δb_i| ≤ ω |b_i|` for all `i`, `j` (Oettli–Prager): such a perturbation
exists for `ω = berr`, and every `ω ≥ 0` for which one exists is `≥ berr`. -/
theorem berr_is_min_backward_error (tr : Trans) (A : CSC Rat) (safmin eps : Rat) (b x : Array Rat) (n : Nat)
    (hn : A.n ≤ n) (hx : x.size ≤ n) (hnd : NoDupPos A)
    (hs2 : 0 ≤ safe2 arithQ A.n safmin eps)
    (hsafe : ∀ i, i < b.size → denomRow arithQ tr A x b i = 0 ∨ safe2 arithQ A.n safmin eps < denomRow arithQ tr A x b i) :
    let a : Nat → Nat → Rat := opDense tr (cscEntries A)
    let xv : Nat → Rat := fun k => x.getD k 0
    let bv : Nat → Rat := fun k => b.getD k 0
    let berr : Rat := berrX arithQ tr A safmin eps b x
    let feasible : Rat → Prop := fun ω => ∃ (dA : Nat → Nat → Rat) (db : Nat → Rat),
      (∀ i < b.size, ∀ j < n, |dA i j| ≤ ω * |a i j|) ∧ (∀ i < b.size, |db i| ≤ ω * |bv i|) ∧
      (∀ i < b.size, ∑ j ∈ Finset.range n, (a i j + dA i j) * xv j = bv i + db i)
    0 ≤ berr ∧ feasible berr ∧ ∀ ω, 0 ≤ ω → feasible ω → berr ≤ ω := by
  intro a xv bv berr feasible
  obtain ⟨h0, hfe, _, hmin⟩ := berr_is_min_backward_error_dup tr A safmin eps b x n hn hx hs2 hsafe
  have he : opDense tr (absEntries arithQ A) = fun i j => |a i j| := by
    funext i j; exact opDense_abs_eq tr A hnd i j
  rw [he] at hfe
  exact ⟨h0, hfe, hmin⟩


/-! non-vacuity: a 2 x 2 instance on which every hypothesis holds (`trans = N` and `T`), `berr = 1/2` resp. `3/11` -/

def exA : CSC Rat := { m := 2, n := 2, colptr := #[0, 2, 4], rowind := #[0, 1, 0, 1], val := #[2, 1, 4, 3] }
def exb : Array Rat := #[1, 2]
def exx : Array Rat := #[1/2, 1/2]

example : exA.n ≤ 2 ∧ exx.size ≤ 2 ∧ NoDupPos exA ∧ 0 ≤ safe2 arithQ exA.n (1/1000) (1/10) ∧
    (∀ tr : Trans, tr = .N ∨ tr = .T → ∀ i, i < exb.size → denomRow arithQ tr exA exx exb i = 0 ∨
      safe2 arithQ exA.n (1/1000) (1/10) < denomRow arithQ tr exA exx exb i) ∧
    berrX arithQ .N exA (1/1000) (1/10) exb exx = 1/2 ∧
    berrX arithQ .T exA (1/1000) (1/10) exb exx = 3/11 := by
  refine ⟨by decide, by decide, by unfold NoDupPos; decide +kernel, by decide +kernel, ?_,
    by decide +kernel, by decide +kernel⟩
  rintro tr (rfl | rfl) <;> decide +kernel

example := berr_is_min_backward_error .N exA (1/1000) (1/10) exb exx 2 (by decide) (by decide)
  (by unfold NoDupPos; decide +kernel) (by decide +kernel) (by decide +kernel)
example := berr_is_min_backward_error .T exA (1/1000) (1/10) exb exx 2 (by decide) (by decide)
  (by unfold NoDupPos; decide +kernel) (by decide +kernel) (by decide +kernel)

/-- the hypothesis `NoDupPos` of `berr_is_min_backward_error` cannot be dropped: the 1 x 1 matrix
that stores `1` and `-1` at `(0,0)` (so `a(0,0) = 0` but `e(0,0) = 2`), `x = b = 1`, satisfies the
hypotheses of `berr_is_cwbe`, `berr = 1/3`, and no perturbation with `|δA| ≤ berr |a|`, `|δb| ≤ berr |b|`
exists (it exists only from `ω = 1` on).  With duplicates BERR is still a lower bound of the feasible
`ω` (`berr_is_min_backward_error_dup`, last clause) and is the minimum for the weights `e`. -/
def dupA : CSC Rat := { m := 1, n := 1, colptr := #[0, 2], rowind := #[0, 0], val := #[1, -1] }

example :
    (0 ≤ safe2 arithQ dupA.n (1/1000) (1/10)) ∧
    (∀ i, i < (#[1] : Array Rat).size → denomRow arithQ .N dupA #[1] #[1] i = 0 ∨
      safe2 arithQ dupA.n (1/1000) (1/10) < denomRow arithQ .N dupA #[1] #[1] i) ∧
    berrX arithQ .N dupA (1/1000) (1/10) #[1] #[1] = 1/3 ∧
    ¬ ∃ (dA : Nat → Nat → Rat) (db : Nat → Rat),
      (∀ i < 1, ∀ j < 1, |dA i j| ≤ 1/3 * |opDense .N (cscEntries dupA) i j|) ∧
      (∀ i < 1, |db i| ≤ 1/3 * |(#[1] : Array Rat).getD i 0|) ∧
      (∀ i < 1, ∑ j ∈ Finset.range 1, (opDense .N (cscEntries dupA) i j + dA i j) * (#[1] : Array Rat).getD j 0
        = (#[1] : Array Rat).getD i 0 + db i) := by
  refine ⟨by decide +kernel, by decide +kernel, by decide +kernel, ?_⟩
  rintro ⟨dA, db, h1, h2, h3⟩
  have e0 : opDense .N (cscEntries dupA) 0 0 = 0 := by decide +kernel
  have a1 := h1 0 (by decide) 0 (by decide)
  have a2 := h2 0 (by decide)
  have a3 := h3 0 (by decide)
  simp only [Finset.sum_range_one, e0, abs_zero, mul_zero] at a1 a3
  have hd : dA 0 0 = 0 := abs_nonpos_iff.mp a1
  have g1 : (#[1] : Array Rat).getD 0 0 = 1 := by decide +kernel
  rw [g1] at a2 a3
  rw [hd] at a3
  have : db 0 = -1 := by linarith
  rw [this] at a2
  norm_num at a2

/-
The complex case (`arithQC`, magnitude `|z|₁ = |re z| + |im z|`, which is not the modulus) is NOT
covered and the equivalence does not hold for it as stated.  What holds for `|·|₁`:
* `|z w|₁ ≤ |z|₁ |w|₁`, hence the (→) direction with constant 1: if `(A + δA) x = b + δb` with
  `|δA|₁ ≤ ω |A|₁`, `|δb|₁ ≤ ω |b|₁` entrywise then `|r_i|₁ ≤ ω (|A|₁|x|₁ + |b|₁)_i`, i.e. the BERR of
  `[cz]gsrfs` is a lower bound of every feasible `ω`;
* the (←) direction fails: `|·|₁` is not multiplicative (`|z|₁ |w|₁ ≤ 2 |z w|₁` is the best reverse
  bound), so the perturbation `δA_ij = (r_i/d_i) |A_ij|₁ |x_j|₁ / x_j` only satisfies `|δA_ij|₁ ≤ 2 ω |A_ij|₁`.
  Example (1 x 1): `A = 1+i`, `x = 1+i`, `b = 0`: `r = -2i`, `d = 4`, BERR `= 1/2`, but `δb = 0` and
  `x ≠ 0` force `δA = -A`, so the smallest feasible `ω` is `1 = 2 · BERR`.
So for complex data BERR ≤ ω_min ≤ 2 · BERR in the `|·|₁` sense (not formalised here), with both
ends attained; the exact characterisation above is a statement about `[sd]gsrfs`.
-/

end minbe

/-! ### the loop -/

/-- **C13 (at most five steps).** Whatever the solver returns, the loop applies at most
`ITMAX = 5` corrections. -/
theorem refineLoop_count (Ar : Arith K Rat) (tr : Trans) (A : CSC K) (safmin eps : Rat)
    (solve : Array K → Array K) (b : Array K) :
    ∀ fuel x lstres count, count ≤ ITMAX →
      (refineLoop Ar tr A safmin eps solve b fuel x lstres count).2.2 ≤ ITMAX := by
  intro fuel
  induction fuel with
  | zero => intro x l c h; exact h
  | succ f ih =>
    intro x l c h
    simp only [refineLoop]
    split
    · rename_i hc
      apply ih
      simp only [continue?, Bool.and_eq_true, decide_eq_true_eq] at hc
      exact hc.2
    · exact h

theorem refine_steps_le_5 (Ar : Arith K Rat) (tr : Trans) (A : CSC K) (safmin eps : Rat)
    (solve : Array K → Array K) (b x : Array K) :
    (refineCol Ar tr A safmin eps solve b x).2.2 ≤ 5 :=
  refineLoop_count Ar tr A safmin eps solve b _ x 3 0 (by decide)

/-- **C13 (BERR belongs to the returned X).** The value stored in `berr[j]` is the safeguarded
ratio evaluated on the very `x` the loop returns: the loop exits only after re-evaluating the
residual of the corrected solution. -/
theorem refineLoop_berr (Ar : Arith K Rat) (tr : Trans) (A : CSC K) (safmin eps : Rat)
    (solve : Array K → Array K) (b : Array K) :
    ∀ fuel x lstres count,
      (refineLoop Ar tr A safmin eps solve b fuel x lstres count).2.1 =
        berrX Ar tr A safmin eps b (refineLoop Ar tr A safmin eps solve b fuel x lstres count).1 := by
  intro fuel
  induction fuel with
  | zero => intro x l c; rfl
  | succ f ih =>
    intro x l c
    simp only [refineLoop]
    split
    · exact ih _ _ _
    · rfl

theorem berr_of_returned_x (Ar : Arith K Rat) (tr : Trans) (A : CSC K) (safmin eps : Rat)
    (solve : Array K → Array K) (b x : Array K) :
    (refineCol Ar tr A safmin eps solve b x).2.1 =
      berrX Ar tr A safmin eps b (refineCol Ar tr A safmin eps solve b x).1 :=
  refineLoop_berr Ar tr A safmin eps solve b _ x 3 0

/-- no step is taken (and X is returned untouched) when the first BERR is already at most `eps` -/
theorem refine_no_step (Ar : Arith K Rat) (tr : Trans) (A : CSC K) (safmin eps : Rat)
    (solve : Array K → Array K) (b x : Array K) (h : berrX Ar tr A safmin eps b x ≤ eps) :
    refineCol Ar tr A safmin eps solve b x = (x, berrX Ar tr A safmin eps b x, 0) := by
  have hc : continue? (berrX Ar tr A safmin eps b x) eps 3 0 = false := by
    simp [continue?, not_lt.mpr h]
  simp only [refineCol, refineLoop]
  unfold berrX at hc h ⊢
  simp [hc]

/-! ### the glue of the expert driver -/

/-- **C13 (refinement disabled).** `berr = ferr = 1` for every right-hand side and X is exactly the
`gstrs` solution. -/
theorem norefine_ones (nrhs : Nat) (x0 : Array (Array K))
    (gsrfs : Array (Array K) → Array (Array K) × Array Rat × Array Rat) :
    driverRefine false nrhs x0 gsrfs = (x0, Array.replicate nrhs 1, Array.replicate nrhs 1) ∧
    (∀ j, j < nrhs → (driverRefine false nrhs x0 gsrfs).2.1[j]? = some 1 ∧
      (driverRefine false nrhs x0 gsrfs).2.2[j]? = some 1) := by
  refine ⟨rfl, fun j hj => ?_⟩
  simp [driverRefine, hj]

theorem refine_on (nrhs : Nat) (x0 : Array (Array K))
    (gsrfs : Array (Array K) → Array (Array K) × Array Rat × Array Rat) :
    driverRefine true nrhs x0 gsrfs = gsrfs x0 := rfl

/-! ### FERR -/

theorem foldl_smax_nonneg {α : Type} (f : α → Rat) (l : List α) (m : Rat) (hm : 0 ≤ m) :
    0 ≤ l.foldl (fun m i => smax m (f i)) m := by
  induction l generalizing m with
  | nil => simpa
  | cons a t ih =>
    simp only [List.foldl_cons]
    apply ih
    rw [smax_eq_max]; exact le_trans hm (le_max_left _ _)

/-- **C13 (FERR is non-negative).** For every weight vector, every pair of solver functions and
every equilibration vector the modelled FERR (the estimator's result divided by the largest scaled
component of X) is `≥ 0`. -/
theorem ferr_nonneg (Ar : Arith K Rat) (P : Prim K Rat) (hP : Lawful P) (w : Array Rat) (s : Option (Array Rat))
    (solve solveT : Array K → Array K) (x : Array K) :
    0 ≤ ferrOf Ar P w s solve solveT x := by
  have he : ∀ T1 T2 n, 0 ≤ (run P T1 T2 maxCalls (init P n 0)).est :=
    fun T1 T2 n => run_est_nonneg P hP T1 T2 maxCalls (init P n 0) (le_refl (0 : Rat))
  have key : ∀ (E L : Rat), 0 ≤ E → 0 ≤ L → 0 ≤ (if (L != 0) = true then E / L else E) := by
    intro E L hE hL; split
    · exact div_nonneg hE hL
    · exact hE
  unfold ferrOf
  cases s
  · exact key _ _ (he _ _ _) (foldl_smax_nonneg _ _ 0 le_rfl)
  · exact key _ _ (he _ _ _) (foldl_smax_nonneg _ _ 0 le_rfl)

end Slu.Refine
