import Slu.Model.Refine
import SluProofs.Lemmas.Lacon
import SluProofs.Lemmas.Fold
import SluProofs.Lemmas.FoldCongr
import SluProofs.Lemmas.RefineResid
import SluProofs.Lemmas.RefineDenom
/-
C13 — Reported backward error is the true backward error of the returned X.

Theorems are about `Slu.Refine` (the model compared bit for bit with `[sdcz]gsrfs` on every run):
`berrOf / berrX` (safeguarded componentwise ratio), `refineLoop / refineCol` (the `while (1)` loop with
the solver as a parameter), `ferrOf` (error-bound set-up), `driverRefine` (glue of `[sdcz]gssvx`), in
exact arithmetic (`arithQ` on `Rat`; `arithQC` on `Cx Rat` with the library's magnitude |re|+|im|),
for all sizes, all matrices in compressed-column storage (any order, duplicates allowed), all
right-hand sides, every solver function.
-/
namespace Slu.Refine
open Slu Slu.Lacon

variable {K : Type} [Inhabited K]

/-! ### the BERR formula -/

/-- the ratio of row `i` -/
def ratio (Ar : Arith K Rat) (work : Array K) (rwork : Array Rat) (i : Nat) : Rat :=
  Ar.absK (work.getD i Ar.kzero) / rwork.getD i 0

/-- **C13 (BERR formula, safeguard inactive).** When every denominator is either exactly zero or
above `safe2`, the safeguarded maximum is the plain running maximum of `|r_i| / d_i` over the rows
with `d_i ≠ 0` (rows with a zero denominator contribute nothing). -/
theorem berrOf_eq_foldMax (Ar : Arith K Rat) (hdiv : ∀ r d, Ar.div1 r d = r / d) (s1 s2 : Rat) (hs2 : 0 ≤ s2)
    (work : Array K) (rwork : Array Rat)
    (hsafe : ∀ i, i < rwork.size → rwork.getD i 0 = 0 ∨ s2 < rwork.getD i 0) :
    berrOf Ar s1 s2 work rwork =
      foldMaxIf (fun i => rwork.getD i 0 ≠ 0) (ratio Ar work rwork) 0 (List.range rwork.size) := by
  unfold berrOf foldMaxIf
  apply foldl_congr_mem
  intro i hi acc
  have hi' := List.mem_range.mp hi
  rcases hsafe i hi' with h | h
  · have h1 : ¬ (s2 < rwork.getD i 0) := by rw [h]; exact not_lt.mpr hs2
    rw [h] at h1
    simp only [gt_iff_lt, h, h1, if_false, bne_self_eq_false, Bool.false_eq_true, ne_eq, not_true_eq_false]
  · have h0 : rwork.getD i 0 ≠ 0 := ne_of_gt (lt_of_le_of_lt hs2 h)
    simp only [gt_iff_lt, h, if_true, h0, ne_eq, not_false_eq_true, smax_eq_max, hdiv, ratio]

/-- the array-level part of `berr_is_cwbe`: BERR is the largest ratio `|work_i| / rwork_i` — it bounds
every row with a non-zero denominator, is attained by one of them (or is zero), and is `≥ 0`. -/
theorem berr_is_cwbe_partial (Ar : Arith K Rat) (hdiv : ∀ r d, Ar.div1 r d = r / d) (s1 s2 : Rat) (hs2 : 0 ≤ s2)
    (work : Array K) (rwork : Array Rat)
    (hsafe : ∀ i, i < rwork.size → rwork.getD i 0 = 0 ∨ s2 < rwork.getD i 0) :
    (∀ i, i < rwork.size → rwork.getD i 0 ≠ 0 → ratio Ar work rwork i ≤ berrOf Ar s1 s2 work rwork) ∧
    (berrOf Ar s1 s2 work rwork = 0 ∨
      ∃ i, i < rwork.size ∧ rwork.getD i 0 ≠ 0 ∧ ratio Ar work rwork i = berrOf Ar s1 s2 work rwork) ∧
    0 ≤ berrOf Ar s1 s2 work rwork := by
  rw [berrOf_eq_foldMax Ar hdiv s1 s2 hs2 work rwork hsafe]
  refine ⟨fun i hi h0 => foldMaxIf_ge_mem _ _ 0 _ i (List.mem_range.mpr hi) h0, ?_, foldMaxIf_ge_init _ _ 0 _⟩
  rcases foldMaxIf_attained (fun i => rwork.getD i 0 ≠ 0) (ratio Ar work rwork) 0 (List.range rwork.size) with h | ⟨i, hi, h0, he⟩
  · left; exact h
  · right; exact ⟨i, List.mem_range.mp hi, h0, he⟩

/-! ### BERR is the componentwise backward error -/

section cwbe
open Slu.Gssvx
variable [CommRing K] [HasConj K] [Mag K Rat] [ScalarLaws K]

/-- row `i` of `b - op(A) x`, `A(r,c)` being the sum of the stored entries at `(r,c)` -/
def residRow (tr : Trans) (A : CSC K) (x b : Array K) (i : Nat) : K :=
  b.getD i 0 - opMul (opOfTrans tr) (cscEntries A) (fun k => x.getD k 0) i

/-- row `i` of `|op(A)||x| + |b|` with the library's magnitude -/
def denomRow (Ar : Arith K Rat) (tr : Trans) (A : CSC K) (x b : Array K) (i : Nat) : Rat :=
  Ar.absK (b.getD i 0) + opMul (opOfTrans tr) (absEntries Ar A) (fun k => Ar.absK (x.getD k 0)) i

/-- **C13 (BERR is the componentwise backward error).** In exact arithmetic (`Ar = arithQ` on `Rat`,
`arithQC` on `Cx Rat`, or any record obeying `ArithLaws`/`AbsLaws`), for every compressed-column matrix
(any order, duplicates summed), every `x`, `b` and `trans ∈ {N,T,C}`: if every denominator
`d_i = (|op(A)||x| + |b|)_i` is `0` or above `safe2`, the value `[sdcz]gsrfs` stores in `berr[j]` is
`max_{i : d_i ≠ 0} |b - op(A) x|_i / d_i` — it bounds every such row, is attained (or is zero), is
`≥ 0` — and the rows left out (`d_i = 0`) have a zero residual. -/
theorem berr_is_cwbe (Ar : Arith K Rat) (laws : ArithLaws Ar) (al : AbsLaws Ar)
    (hdiv : ∀ r d, Ar.div1 r d = r / d) (tr : Trans) (A : CSC K) (safmin eps : Rat) (b x : Array K)
    (hs2 : 0 ≤ safe2 Ar A.n safmin eps)
    (hsafe : ∀ i, i < b.size → denomRow Ar tr A x b i = 0 ∨ safe2 Ar A.n safmin eps < denomRow Ar tr A x b i) :
    berrX Ar tr A safmin eps b x =
      foldMaxIf (fun i => denomRow Ar tr A x b i ≠ 0)
        (fun i => Ar.absK (residRow tr A x b i) / denomRow Ar tr A x b i) 0 (List.range b.size) ∧
    (∀ i, i < b.size → denomRow Ar tr A x b i ≠ 0 →
      Ar.absK (residRow tr A x b i) / denomRow Ar tr A x b i ≤ berrX Ar tr A safmin eps b x) ∧
    (berrX Ar tr A safmin eps b x = 0 ∨ ∃ i, i < b.size ∧ denomRow Ar tr A x b i ≠ 0 ∧
      Ar.absK (residRow tr A x b i) / denomRow Ar tr A x b i = berrX Ar tr A safmin eps b x) ∧
    0 ≤ berrX Ar tr A safmin eps b x ∧
    (∀ i, i < b.size → denomRow Ar tr A x b i = 0 → residRow tr A x b i = 0) := by
  obtain ⟨rs, rv⟩ := resid_exact Ar laws tr A x b
  obtain ⟨ds, dv⟩ := denom_exact Ar al laws.kzero tr A x b
  have hsafe' : ∀ i, i < (denom Ar tr A x b).size →
      (denom Ar tr A x b).getD i 0 = 0 ∨ safe2 Ar A.n safmin eps < (denom Ar tr A x b).getD i 0 := by
    intro i hi
    rw [ds] at hi
    rw [dv i hi]; exact hsafe i hi
  have heq : berrX Ar tr A safmin eps b x =
      foldMaxIf (fun i => denomRow Ar tr A x b i ≠ 0)
        (fun i => Ar.absK (residRow tr A x b i) / denomRow Ar tr A x b i) 0 (List.range b.size) := by
    unfold berrX
    rw [berrOf_eq_foldMax Ar hdiv _ _ hs2 _ _ hsafe', ds]
    unfold foldMaxIf
    apply foldl_congr_mem
    intro i hi acc
    have hi' := List.mem_range.mp hi
    have e1 : (denom Ar tr A x b).getD i 0 = denomRow Ar tr A x b i := dv i hi'
    have e2 : ratio Ar (resid Ar tr A x b) (denom Ar tr A x b) i =
        Ar.absK (residRow tr A x b i) / denomRow Ar tr A x b i := by
      unfold ratio
      rw [e1, laws.kzero, rv i hi']; rfl
    simp only [e1, e2]
  refine ⟨heq, ?_, ?_, ?_, ?_⟩
  · intro i hi h0
    rw [heq]
    exact foldMaxIf_ge_mem _ _ 0 _ i (List.mem_range.mpr hi) h0
  · rw [heq]
    rcases foldMaxIf_attained (fun i => denomRow Ar tr A x b i ≠ 0)
      (fun i => Ar.absK (residRow tr A x b i) / denomRow Ar tr A x b i) 0 (List.range b.size) with h | ⟨i, hi, h0, he⟩
    · left; exact h
    · right; exact ⟨i, List.mem_range.mp hi, h0, he⟩
  · rw [heq]; exact foldMaxIf_ge_init _ _ 0 _
  · intro i _ h0
    exact resid_zero_of_denom_zero Ar al tr A x b i h0

/-- the theorem applies to the real and to the complex exact arithmetic -/
example (tr : Trans) (A : CSC Rat) (safmin eps : Rat) (b x : Array Rat)
    (hs2 : 0 ≤ safe2 arithQ A.n safmin eps)
    (hsafe : ∀ i, i < b.size → denomRow arithQ tr A x b i = 0 ∨ safe2 arithQ A.n safmin eps < denomRow arithQ tr A x b i) :
    0 ≤ berrX arithQ tr A safmin eps b x :=
  (berr_is_cwbe arithQ arithQ_laws absQ_laws (fun _ _ => rfl) tr A safmin eps b x hs2 hsafe).2.2.2.1
example (tr : Trans) (A : CSC (Cx Rat)) (safmin eps : Rat) (b x : Array (Cx Rat))
    (hs2 : 0 ≤ safe2 arithQC A.n safmin eps)
    (hsafe : ∀ i, i < b.size → denomRow arithQC tr A x b i = 0 ∨ safe2 arithQC A.n safmin eps < denomRow arithQC tr A x b i) :
    0 ≤ berrX arithQC tr A safmin eps b x :=
  (berr_is_cwbe arithQC arithQC_laws absQC_laws (fun _ _ => rfl) tr A safmin eps b x hs2 hsafe).2.2.2.1

end cwbe

/-! ### the loop -/

/-- **C13 (at most five steps).** Whatever the solver returns, the loop applies at most
`ITMAX = 5` corrections. -/
theorem refineLoop_count (Ar : Arith K Rat) (tr : Trans) (A : CSC K) (safmin eps : Rat)
    (solve : Array K → Array K) (b : Array K) :
    ∀ fuel x lstres count, count ≤ ITMAX →
      (refineLoop Ar tr A safmin eps solve b fuel x lstres count).2.2 ≤ ITMAX := by
  intro fuel
  induction fuel with
  | zero => intro x l c h; exact h
  | succ f ih =>
    intro x l c h
    simp only [refineLoop]
    split
    · rename_i hc
      apply ih
      simp only [continue?, Bool.and_eq_true, decide_eq_true_eq] at hc
      exact hc.2
    · exact h

theorem refine_steps_le_5 (Ar : Arith K Rat) (tr : Trans) (A : CSC K) (safmin eps : Rat)
    (solve : Array K → Array K) (b x : Array K) :
    (refineCol Ar tr A safmin eps solve b x).2.2 ≤ 5 :=
  refineLoop_count Ar tr A safmin eps solve b _ x 3 0 (by decide)

/-- **C13 (BERR belongs to the returned X).** The value stored in `berr[j]` is the safeguarded
ratio evaluated on the very `x` the loop returns: the loop exits only after re-evaluating the
residual of the corrected solution. -/
theorem refineLoop_berr (Ar : Arith K Rat) (tr : Trans) (A : CSC K) (safmin eps : Rat)
    (solve : Array K → Array K) (b : Array K) :
    ∀ fuel x lstres count,
      (refineLoop Ar tr A safmin eps solve b fuel x lstres count).2.1 =
        berrX Ar tr A safmin eps b (refineLoop Ar tr A safmin eps solve b fuel x lstres count).1 := by
  intro fuel
  induction fuel with
  | zero => intro x l c; rfl
  | succ f ih =>
    intro x l c
    simp only [refineLoop]
    split
    · exact ih _ _ _
    · rfl

theorem berr_of_returned_x (Ar : Arith K Rat) (tr : Trans) (A : CSC K) (safmin eps : Rat)
    (solve : Array K → Array K) (b x : Array K) :
    (refineCol Ar tr A safmin eps solve b x).2.1 =
      berrX Ar tr A safmin eps b (refineCol Ar tr A safmin eps solve b x).1 :=
  refineLoop_berr Ar tr A safmin eps solve b _ x 3 0

/-- no step is taken (and X is returned untouched) when the first BERR is already at most `eps` -/
theorem refine_no_step (Ar : Arith K Rat) (tr : Trans) (A : CSC K) (safmin eps : Rat)
    (solve : Array K → Array K) (b x : Array K) (h : berrX Ar tr A safmin eps b x ≤ eps) :
    refineCol Ar tr A safmin eps solve b x = (x, berrX Ar tr A safmin eps b x, 0) := by
  have hc : continue? (berrX Ar tr A safmin eps b x) eps 3 0 = false := by
    simp [continue?, not_lt.mpr h]
  simp only [refineCol, refineLoop]
  unfold berrX at hc h ⊢
  simp [hc]

/-! ### the glue of the expert driver -/

/-- **C13 (refinement disabled).** `berr = ferr = 1` for every right-hand side and X is exactly the
`gstrs` solution. -/
theorem norefine_ones (nrhs : Nat) (x0 : Array (Array K))
    (gsrfs : Array (Array K) → Array (Array K) × Array Rat × Array Rat) :
    driverRefine false nrhs x0 gsrfs = (x0, Array.replicate nrhs 1, Array.replicate nrhs 1) ∧
    (∀ j, j < nrhs → (driverRefine false nrhs x0 gsrfs).2.1[j]? = some 1 ∧
      (driverRefine false nrhs x0 gsrfs).2.2[j]? = some 1) := by
  refine ⟨rfl, fun j hj => ?_⟩
  simp [driverRefine, hj]

theorem refine_on (nrhs : Nat) (x0 : Array (Array K))
    (gsrfs : Array (Array K) → Array (Array K) × Array Rat × Array Rat) :
    driverRefine true nrhs x0 gsrfs = gsrfs x0 := rfl

/-! ### FERR -/

theorem foldl_smax_nonneg {α : Type} (f : α → Rat) (l : List α) (m : Rat) (hm : 0 ≤ m) :
    0 ≤ l.foldl (fun m i => smax m (f i)) m := by
  induction l generalizing m with
  | nil => simpa
  | cons a t ih =>
    simp only [List.foldl_cons]
    apply ih
    rw [smax_eq_max]; exact le_trans hm (le_max_left _ _)

/-- **C13 (FERR is non-negative).** For every weight vector, every pair of solver functions and
every equilibration vector the modelled FERR (the estimator's result divided by the largest scaled
component of X) is `≥ 0`. -/
theorem ferr_nonneg (Ar : Arith K Rat) (P : Prim K Rat) (hP : Lawful P) (w : Array Rat) (s : Option (Array Rat))
    (solve solveT : Array K → Array K) (x : Array K) :
    0 ≤ ferrOf Ar P w s solve solveT x := by
  have he : ∀ T1 T2 n, 0 ≤ (run P T1 T2 maxCalls (init P n 0)).est :=
    fun T1 T2 n => run_est_nonneg P hP T1 T2 maxCalls (init P n 0) (le_refl (0 : Rat))
  have key : ∀ (E L : Rat), 0 ≤ E → 0 ≤ L → 0 ≤ (if (L != 0) = true then E / L else E) := by
    intro E L hE hL; split
    · exact div_nonneg hE hL
    · exact hE
  unfold ferrOf
  cases s
  · exact key _ _ (he _ _ _) (foldl_smax_nonneg _ _ 0 le_rfl)
  · exact key _ _ (he _ _ _) (foldl_smax_nonneg _ _ 0 le_rfl)

end Slu.Refine
