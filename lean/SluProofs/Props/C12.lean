import Slu.Model.Lacon
import Slu.Model.Cond
import SluProofs.Lemmas.Lacon
import SluProofs.Lemmas.Cond
import SluProofs.Lemmas.LaconLow
import SluProofs.Lemmas.FoldCongr
import SluProofs.Lemmas.TrsvLayout
/-
C12 — Condition estimate is a valid one-sided bound; growth factor matches factors.

Theorems are about `Slu.Lacon.step/run/gscon` (the state machine compared bit for bit with
`[sdcz]lacon2_` on every run), `Slu.Lacon.normChar/warnInfo` (glue of `[sdcz]gssvx`) and
`Slu.Cond.pivotGrowth` (compared bit for bit with `[sdcz]PivotGrowth`), in exact arithmetic, for every
size `n`, every pair of maps handed to the reverse-communication loop, every magnitude obeying
`Lawful` (|x| on `Rat`, |re|+|im| on `Cx Rat`; the complex modulus obeys the same laws).
-/
namespace Slu.Lacon
open Slu

variable {K : Type}

/-- **C12 (termination).** Whatever the caller writes into `x` between the calls, the estimator
returns `kase = 0` within `maxCalls = 12` calls (start, first product, first transposed product,
at most four rounds of product + transposed product, final alternating-sign product). -/
theorem lacon_terminates (P : Prim K Rat) (T Tt : Array K → Array K) (n : Nat) (est0 : Rat) :
    (run P T Tt maxCalls (init P n est0)).kase = 0 :=
  run_terminates P T Tt maxCalls (init P n est0) (Or.inl rfl) (by simp [mu, init, maxCalls])

/-- more fuel changes nothing: the loop has already stopped -/
theorem lacon_terminates_any (P : Prim K Rat) (T Tt : Array K → Array K) (n : Nat) (est0 : Rat) (fuel : Nat)
    (h : maxCalls ≤ fuel) : (run P T Tt fuel (init P n est0)).kase = 0 :=
  run_terminates P T Tt fuel (init P n est0) (Or.inl rfl) (by simpa [mu, init, maxCalls] using h)

/-- **C12 (one-sided bound).** For every `n ≥ 1` and every pair of maps `T`, `Tt` on vectors of
length `n` with `‖T x‖₁ ≤ N ‖x‖₁` (nothing is assumed about `Tt`), the estimate returned by the
reverse-communication loop satisfies `0 ≤ est ≤ N`: every candidate the machine can return is
`‖T w‖₁ / ‖w‖₁` for a vector it built itself — the uniform vector, a unit vector, or the
alternating-sign vector of 1-norm `3n/2` whose candidate is `2‖T w‖₁/(3n)`. -/
theorem lacon_le_norm (P : Prim K Rat) (hP : Lawful P) (n : Nat) (hn : 1 ≤ n)
    (T Tt : Array K → Array K)
    (hsT : ∀ x, x.size = n → (T x).size = n) (hsTt : ∀ x, x.size = n → (Tt x).size = n)
    (N : Rat) (hT : ∀ x, x.size = n → P.asum (T x) ≤ N * P.asum x) :
    let s := run P T Tt maxCalls (init P n 0)
    s.kase = 0 ∧ 0 ≤ s.est ∧ s.est ≤ N := by
  intro s
  have hk : s.kase = 0 := lacon_terminates P T Tt n 0
  -- N is nonnegative: apply the hypothesis to the uniform vector
  have hN : 0 ≤ N := by
    have h1 := hT (Array.replicate n (P.ninv n)) (by simp)
    rw [hP.asum_uniform n hn, mul_one] at h1
    exact le_trans (hP.asum_nonneg _) h1
  have hready : Ready P n N (init P n 0) :=
    ⟨by simp [init], Or.inl ⟨rfl, le_rfl, hN⟩⟩
  exact ⟨hk, run_est P hP n N hn hN T Tt hsT hsTt hT maxCalls _ hready hk⟩

/-- the estimate is non-negative for every caller (no hypothesis on the maps) — used for FERR -/
theorem lacon_est_nonneg (P : Prim K Rat) (hP : Lawful P) (T Tt : Array K → Array K) (n : Nat) :
    0 ≤ (run P T Tt maxCalls (init P n 0)).est :=
  run_est_nonneg P hP T Tt maxCalls (init P n 0) le_rfl

/-- **C12 (rcond is one-sided).** `gscon` with solves whose forward map satisfies the bound `N`
returns `rcond ≥ (1/N)/anorm` (or the estimate was zero and `rcond = 0` is returned, which the
driver reports as singular to working precision). -/
theorem gscon_one_sided (P : Prim K Rat) (hP : Lawful P) (n : Nat) (hn : 1 ≤ n) (onenrm : Bool)
    (solveN solveT : Array K → Array K)
    (hsN : ∀ x, x.size = n → (solveN x).size = n) (hsT : ∀ x, x.size = n → (solveT x).size = n)
    (N anorm : Rat) (hN : 0 < N) (ha : 0 < anorm)
    (hT : ∀ x, x.size = n → P.asum ((if onenrm then solveN else solveT) x) ≤ N * P.asum x) :
    let r := gscon P 0 1 onenrm solveN solveT n anorm
    r = 0 ∨ (1 / N) / anorm ≤ r := by
  intro r
  have hn0 : n ≠ 0 := by omega
  have hs1 : ∀ x, x.size = n → ((if onenrm then solveN else solveT) x).size = n := by
    cases onenrm <;> simpa using by assumption
  have hs2 : ∀ x, x.size = n → ((if onenrm then solveT else solveN) x).size = n := by
    cases onenrm <;> simpa using by assumption
  obtain ⟨_, h0, h1⟩ := lacon_le_norm P hP n hn _ _ hs1 hs2 N hT
  have hr : r = if (run P (if onenrm then solveN else solveT) (if onenrm then solveT else solveN) maxCalls (init P n 0)).est != 0
      then (1 / (run P (if onenrm then solveN else solveT) (if onenrm then solveT else solveN) maxCalls (init P n 0)).est) / anorm else 0 := by
    simp only [r, gscon, hn0, if_false]
  generalize (run P (if onenrm then solveN else solveT) (if onenrm then solveT else solveN) maxCalls (init P n 0)).est = E at h0 h1 hr
  rw [hr]
  by_cases hz : E = 0
  · left; simp [hz]
  · right
    have hpos : 0 < E := lt_of_le_of_ne h0 (Ne.symm hz)
    have hb : (E != 0) = true := by simpa using hz
    rw [if_pos hb]
    exact div_le_div_of_nonneg_right (one_div_le_one_div_of_le hpos h1) (le_of_lt ha)

/-- **C12 (the estimate from below).** If the forward map is bounded below, `c ‖x‖₁ ≤ ‖T x‖₁` on
vectors of length `n` (for `T = A⁻¹`: `c = 1/‖A‖₁`), then the returned estimate is at least `c`: every
candidate is `‖T w‖₁/‖w‖₁` for a NON-ZERO vector the machine built (`idamax` returns an index inside the
vector, hypothesis `himax`, true for the exact instances: `primQ_imax`, `primQC_imax`). -/
theorem lacon_ge_low (P : Prim K Rat) (hP : Lawful P) (himax : ∀ x : Array K, 0 < x.size → P.imax x < x.size)
    (n : Nat) (hn : 1 ≤ n) (T Tt : Array K → Array K)
    (hsT : ∀ x, x.size = n → (T x).size = n) (hsTt : ∀ x, x.size = n → (Tt x).size = n)
    (c : Rat) (hT : ∀ x, x.size = n → c * P.asum x ≤ P.asum (T x)) :
    c ≤ (run P T Tt maxCalls (init P n 0)).est :=
  run_init_low P hP himax n c hn T Tt hsT hsTt hT 11 0 (lacon_terminates P T Tt n 0)

/-- **C12 (rcond ≤ 1).** When the solves handed to `gscon` invert a matrix whose norm is `anorm`
(`‖x‖₁ ≤ anorm ‖solve x‖₁`, i.e. `‖A y‖₁ ≤ ‖A‖₁ ‖y‖₁` for `y = A⁻¹ x`), the estimator times the norm is at
least one, so the returned reciprocal condition number lies in `(0, 1]`. -/
theorem rcond_le_one (P : Prim K Rat) (hP : Lawful P) (himax : ∀ x : Array K, 0 < x.size → P.imax x < x.size)
    (n : Nat) (hn : 1 ≤ n) (onenrm : Bool) (solveN solveT : Array K → Array K)
    (hsN : ∀ x, x.size = n → (solveN x).size = n) (hsT : ∀ x, x.size = n → (solveT x).size = n)
    (anorm : Rat) (ha : 0 < anorm)
    (hinv : ∀ x, x.size = n → P.asum x ≤ anorm * P.asum ((if onenrm then solveN else solveT) x)) :
    0 < gscon P 0 1 onenrm solveN solveT n anorm ∧ gscon P 0 1 onenrm solveN solveT n anorm ≤ 1 := by
  have hn0 : n ≠ 0 := by omega
  have hs1 : ∀ x, x.size = n → ((if onenrm then solveN else solveT) x).size = n := by
    cases onenrm <;> simpa using by assumption
  have hs2 : ∀ x, x.size = n → ((if onenrm then solveT else solveN) x).size = n := by
    cases onenrm <;> simpa using by assumption
  have hlow := lacon_ge_low P hP himax n hn _ _ hs1 hs2 (1 / anorm) (fun x hx => by
    have := hinv x hx
    rw [div_mul_eq_mul_div, one_mul, div_le_iff₀ ha, mul_comm]
    exact this)
  have hr : gscon P 0 1 onenrm solveN solveT n anorm =
      if (run P (if onenrm then solveN else solveT) (if onenrm then solveT else solveN) maxCalls (init P n 0)).est != 0
      then (1 / (run P (if onenrm then solveN else solveT) (if onenrm then solveT else solveN) maxCalls (init P n 0)).est) / anorm else 0 := by
    simp only [gscon, hn0, if_false]
  generalize (run P (if onenrm then solveN else solveT) (if onenrm then solveT else solveN) maxCalls (init P n 0)).est = E at hlow hr
  have hE : 0 < E := lt_of_lt_of_le (by positivity) hlow
  have hb : (E != 0) = true := by simpa using ne_of_gt hE
  rw [hr, if_pos hb]
  refine ⟨by positivity, ?_⟩
  rw [div_le_one ha, div_le_iff₀ hE]
  have := (div_le_iff₀ ha).mp hlow
  linarith

/-- **C12 (warning).** `info = n+1` exactly when `rcond < eps`, otherwise `info` stays 0. -/
theorem rcond_warn_iff (rcond eps : Rat) (n : Nat) :
    (warnInfo rcond eps n = n + 1 ↔ rcond < eps) ∧ (warnInfo rcond eps n = 0 ↔ ¬ rcond < eps) := by
  unfold warnInfo
  by_cases h : rcond < eps <;> simp [h]

/-- **C12 (norm selection).** The one norm is used exactly when the effective transpose after the
storage flip is NOTRANS, i.e. for column storage with `Trans = N` and for row storage with
`Trans ≠ N`; otherwise the infinity norm.  (`AA` is `A` resp. `A'`, so in every case the norm is the
one norm of `op(A)` or of its transpose's transpose — see `effTrans_spec`.) -/
theorem norm_selection (rowStored : Bool) (t : Trans) :
    (normChar rowStored t = '1' ↔ (rowStored = false ∧ t = .N) ∨ (rowStored = true ∧ t ≠ .N)) ∧
    (normChar rowStored t = 'I' ↔ ¬ ((rowStored = false ∧ t = .N) ∨ (rowStored = true ∧ t ≠ .N))) := by
  cases rowStored <;> cases t <;> simp [normChar, effTrans]

/-- the transpose handed to the solver: unchanged for column storage; for row storage (the factored
matrix is `A'`) NOTRANS becomes TRANS and TRANS / CONJ become NOTRANS -/
theorem effTrans_spec (rowStored : Bool) (t : Trans) :
    effTrans rowStored t =
      (if rowStored then (if t = .N then (.T, false) else (.N, true)) else (t, decide (t = .N))) := by
  cases rowStored <;> cases t <;> simp [effTrans]

/-! ### reciprocal pivot growth -/

end Slu.Lacon
namespace Slu.Cond
open Slu

/-- on a supernode that stores at least as many rows as the column's offset (always the case in a
nonsingular factorization) the guarded decoder is `LUFac.decodeU` -/
theorem decodeUg_eq (F : LUFac Rat) (i j : Nat) (h : j - F.L.fsupc j < F.L.nsupr j) :
    decodeUg F i j = F.decodeU i j := by
  unfold decodeUg LUFac.decodeU
  dsimp only
  split
  · rfl
  · split
    · rename_i h1 h2
      have : i - F.L.fsupc j < F.L.nsupr j := by omega
      simp [this]
    · rfl

/-- the update of `rpg` by one column, as the property states it: `min(rpg, max|A_j| / max|U_j|)`,
with the library's convention `min(rpg, 1)` for an all-zero column of U -/
def growthStep (A : CSC Rat) (inv : Array Nat) (F : LUFac Rat) (rpg : Rat) (j : Nat) : Rat :=
  let maxaj := colMaxAbs (R := Rat) A (inv.getD j 0)
  let maxuj := colMaxUspec F j
  if maxuj = 0 then min rpg 1 else min rpg (maxaj / maxuj)

/-- **C12 (growth factor, per column).** For a column `j = fsupc + d` of a supernode whose slices
are laid out as the scan assumes, the scan's update of `rpg` is `min(rpg, max|A_j| / max|U_j|)` with
`max|U_j|` the largest magnitude in column `j` (rows `0..j`) of the decoded upper factor — whether
the entries sit in column storage (rows above the supernode) or in the supernodal rectangle, and
also when the supernode stores fewer rows than columns (singular factorization). -/
theorem pivotGrowth_column_spec (A : CSC Rat) (inv : Array Nat) (F : LUFac Rat) (fsupc luptr nsupr d : Nat) (rpg : Rat)
    (hf : F.L.fsupc (fsupc + d) = fsupc)
    (hx : F.L.xlusup[fsupc + d]! = luptr + d * nsupr) (hn : F.L.nsupr (fsupc + d) = nsupr)
    (hnd : ((F.U.col (fsupc + d)).map Prod.fst).Nodup) (habove : ∀ e ∈ F.U.col (fsupc + d), e.1 < fsupc) :
    pgColumn (R := Rat) A inv F fsupc luptr nsupr rpg d = growthStep A inv F rpg (fsupc + d) := by
  unfold pgColumn growthStep
  dsimp only
  rw [colMaxU_spec F (fsupc + d) fsupc luptr nsupr d hf (by omega) (by omega) hx hn hnd habove]
  simp only [smin_eq_min, beq_iff_eq]

/-- one supernode = a fold of `growthStep` over its columns below `ncols` (step of `pivotGrowth_spec`) -/
theorem pivotGrowth_spec_partial (ncols : Nat) (A : CSC Rat) (inv : Array Nat) (F : LUFac Rat) (rpg : Rat) (k : Nat)
    (hwf : ∀ d, d < min (F.L.xsup.getD (k + 1) 0) ncols - F.L.xsup.getD k 0 →
      F.L.fsupc (F.L.xsup.getD k 0 + d) = F.L.xsup.getD k 0 ∧
      F.L.xlusup[F.L.xsup.getD k 0 + d]! = F.L.xlusup.getD (F.L.xsup.getD k 0) 0 +
        d * (F.L.xlsub.getD (F.L.xsup.getD k 0 + 1) 0 - F.L.xlsub.getD (F.L.xsup.getD k 0) 0) ∧
      F.L.nsupr (F.L.xsup.getD k 0 + d) = F.L.xlsub.getD (F.L.xsup.getD k 0 + 1) 0 - F.L.xlsub.getD (F.L.xsup.getD k 0) 0 ∧
      ((F.U.col (F.L.xsup.getD k 0 + d)).map Prod.fst).Nodup ∧
      ∀ e ∈ F.U.col (F.L.xsup.getD k 0 + d), e.1 < F.L.xsup.getD k 0) :
    (pgSuper (R := Rat) ncols A inv F rpg k).1 =
      ((List.range (min (F.L.xsup.getD (k + 1) 0) ncols - F.L.xsup.getD k 0)).map (F.L.xsup.getD k 0 + ·)).foldl
        (growthStep A inv F) rpg := by
  unfold pgSuper
  dsimp only
  rw [List.foldl_map]
  apply Slu.Refine.foldl_congr_mem
  intro d hd acc
  obtain ⟨h1, h2, h3, h4, h5⟩ := hwf d (List.mem_range.mp hd)
  exact pivotGrowth_column_spec A inv F _ _ _ d acc h1 h2 h3 h4 h5

/-- `ratio_j = max|A_j| / max|U_j|` (`1` for an all-zero column of U), `A_j` the column of `A` that
`perm_c` maps to `j`, `max|U_j|` read from the decoded upper factor `decodeUg` -/
def growthRatio (A : CSC Rat) (inv : Array Nat) (F : LUFac Rat) (j : Nat) : Rat :=
  if colMaxUspec F j = 0 then 1 else colMaxAbs (R := Rat) A (inv.getD j 0) / colMaxUspec F j

theorem growthStep_eq_min (A : CSC Rat) (inv : Array Nat) (F : LUFac Rat) (rpg : Rat) (j : Nat) :
    growthStep A inv F rpg j = min rpg (growthRatio A inv F j) := by
  unfold growthStep growthRatio
  dsimp only
  split <;> rfl

/-- **C12 (growth factor, whole scan).** For supernodal storage laid out as the scan assumes
(`xsup[0] = 0`, `xsup` strictly increasing up to `xsup[nsuper+1] = n`; for every column `j = xsup[k] + d`
of supernode `k`: `fsupc j = xsup[k]`, `xlusup[j] = xlusup[xsup[k]] + d * nsupr`, U's column rows
distinct and above the supernode) and EVERY `ncols` (below, equal to or above `n`): the loop over the
supernodes with the `nz_in_U` counter and the early `break` at `j >= ncols` visits exactly the columns
`0 .. min(ncols,n)-1`, each once, in order, and each contributes `min(rpg, ratio_j)`. -/
theorem pivotGrowth_spec (ncols : Nat) (A : CSC Rat) (perm_c : Array Nat) (F : LUFac Rat) (sml : Rat)
    (h0 : F.L.xsup.getD 0 0 = 0) (hlast : F.L.xsup.getD (F.L.nsuper + 1) 0 = F.L.n)
    (hinc : ∀ k, k < F.L.nsuper + 1 → F.L.xsup.getD k 0 < F.L.xsup.getD (k + 1) 0)
    (hcol : ∀ k, k < F.L.nsuper + 1 → ∀ d, d < F.L.xsup.getD (k + 1) 0 - F.L.xsup.getD k 0 →
      F.L.fsupc (F.L.xsup.getD k 0 + d) = F.L.xsup.getD k 0 ∧
      F.L.xlusup[F.L.xsup.getD k 0 + d]! = F.L.xlusup.getD (F.L.xsup.getD k 0) 0 +
        d * (F.L.xlsub.getD (F.L.xsup.getD k 0 + 1) 0 - F.L.xlsub.getD (F.L.xsup.getD k 0) 0) ∧
      F.L.nsupr (F.L.xsup.getD k 0 + d) = F.L.xlsub.getD (F.L.xsup.getD k 0 + 1) 0 - F.L.xlsub.getD (F.L.xsup.getD k 0) 0 ∧
      ((F.U.col (F.L.xsup.getD k 0 + d)).map Prod.fst).Nodup ∧
      ∀ e ∈ F.U.col (F.L.xsup.getD k 0 + d), e.1 < F.L.xsup.getD k 0) :
    pivotGrowth (R := Rat) ncols A perm_c F sml =
      (List.range (min ncols F.L.n)).foldl (growthStep A (invPerm perm_c A.n) F) (1 / sml) := by
  unfold pivotGrowth
  dsimp only
  rw [pgFold_flat ncols A (invPerm perm_c A.n) F (growthStep A (invPerm perm_c A.n) F) (1 / sml) (F.L.nsuper + 1) h0 hinc
    (fun k hk rpg => pivotGrowth_spec_partial ncols A (invPerm perm_c A.n) F rpg k
      (fun d hd => hcol k hk d (by omega))), hlast, Nat.min_comm]

/-- **C12 (growth factor = the minimum).** Under the hypotheses of `pivotGrowth_spec` the result is
`min(1/smlnum, min_{j < min(ncols,n)} ratio_j)`: it is below `1/smlnum` and below every `ratio_j`, and it
is one of them. -/
theorem pivotGrowth_is_min (ncols : Nat) (A : CSC Rat) (perm_c : Array Nat) (F : LUFac Rat) (sml : Rat)
    (hspec : pivotGrowth (R := Rat) ncols A perm_c F sml =
      (List.range (min ncols F.L.n)).foldl (growthStep A (invPerm perm_c A.n) F) (1 / sml)) :
    pivotGrowth (R := Rat) ncols A perm_c F sml ≤ 1 / sml ∧
    (∀ j, j < min ncols F.L.n → pivotGrowth (R := Rat) ncols A perm_c F sml ≤ growthRatio A (invPerm perm_c A.n) F j) ∧
    (pivotGrowth (R := Rat) ncols A perm_c F sml = 1 / sml ∨
      ∃ j, j < min ncols F.L.n ∧ growthRatio A (invPerm perm_c A.n) F j = pivotGrowth (R := Rat) ncols A perm_c F sml) := by
  have hfun : growthStep A (invPerm perm_c A.n) F = fun acc j => min acc (growthRatio A (invPerm perm_c A.n) F j) := by
    funext acc j; exact growthStep_eq_min _ _ _ _ _
  rw [hspec, hfun]
  exact ⟨scan_min_le_init _ _ _, fun j hj => scan_min_le _ _ _ j hj, scan_min_attained _ _ _⟩

/-- the hypotheses of `pivotGrowth_spec` hold for every (L, U) pair accepted by the structural checker
`Slu.Struct.wfb` (C03, no ILU relaxation) — in particular for every factorization `[sdcz]gstrf` returns
with `info = 0` -/
theorem pivotGrowth_spec_wf (ncols : Nat) (A : CSC Rat) (perm_c : Array Nat) (F : LUFac Rat) (sml : Rat)
    (hn : F.L.n ≠ 0) (hsq : F.L.m = F.L.n) (hwf : Slu.Struct.wfb F false = true) :
    pivotGrowth (R := Rat) ncols A perm_c F sml =
      (List.range (min ncols F.L.n)).foldl (growthStep A (invPerm perm_c A.n) F) (1 / sml) := by
  have H := Slu.Kernels.layout_of_wfb F false hn hsq hwf
  have hnd := Slu.Kernels.ucol_nodup_of_wfb F hn hwf
  have g : ∀ (a : Array Nat) (i : Nat), a.getD i 0 = a[i]! := fun a i => (Slu.Kernels.getElem!_nat a i).symm
  apply pivotGrowth_spec
  · rw [g]; exact H.first
  · rw [g]; exact H.last
  · intro k hk
    have G := H.sn k hk
    have h1 := G.wpos; have h2 := G.hi
    simp only [g]
    show (Slu.Kernels.snode F.L k).fsupc < F.L.xsup[k + 1]!
    omega
  · intro k hk d hd
    have G := H.sn k hk
    simp only [g] at hd ⊢
    have hd' : d < (Slu.Kernels.snode F.L k).nsupc := hd
    have hf := G.fsupc_col d hd'
    refine ⟨hf, G.xlu d hd', ?_, hnd _ (by have := G.hi; have := G.le_n; show (Slu.Kernels.snode F.L k).fsupc + d < F.L.n; omega),
      G.uabove d hd'⟩
    show F.L.nsupr ((Slu.Kernels.snode F.L k).fsupc + d) = _
    unfold SNode.nsupr
    rw [hf]; rfl

/-- non-vacuity of `pivotGrowth_spec_wf`: a 3 x 3 factor with one 2-column supernode and a singleton
passes the checker, so the scan is the flat fold for every `ncols`, `A`, `perm_c`, `smlnum` -/
def exG : LUFac Rat :=
  { L := { m := 3, n := 3, nsuper := 1, xsup := #[0, 2, 3], supno := #[0, 0, 1], xlsub := #[0, 3, 3, 4],
           lsub := #[0, 1, 2, 2], xlusup := #[0, 3, 6, 7], lusup := #[2, 1, 3, 4, 5, 6, 7] },
    U := { m := 3, n := 3, colptr := #[0, 0, 0, 2], rowind := #[0, 1], val := #[8, 9] },
    nnzL := 6, nnzU := 6 }
example (ncols : Nat) (A : CSC Rat) (perm_c : Array Nat) (sml : Rat) :
    pivotGrowth (R := Rat) ncols A perm_c exG sml =
      (List.range (min ncols 3)).foldl (growthStep A (invPerm perm_c A.n) exG) (1 / sml) :=
  pivotGrowth_spec_wf ncols A perm_c exG sml (by decide) rfl (by decide +kernel)

end Slu.Cond
namespace Slu.Lacon
open Slu
variable {K : Type}

/-! ### non-vacuity: the hypotheses are satisfiable and the machine really runs -/

/-- the identity map has bound 1 -/
example : ∀ x : Array Rat, x.size = 3 → primQ.asum (id x) ≤ 1 * primQ.asum x := fun x _ => by simp
example : (run primQ id id maxCalls (init primQ 3 0)).est = 1 := by decide +kernel
/-- `T = 2·` has bound 2 and the estimate is exactly 2 -/
example : (run primQ (fun x => x.map (2 * ·)) (fun x => x.map (2 * ·)) maxCalls (init primQ 4 0)).est = 2 := by decide +kernel
example : (run primQ (fun x => x.map (2 * ·)) (fun x => x.map (2 * ·)) maxCalls (init primQ 4 0)).kase = 0 := by decide +kernel
example : Lawful primQ := primQ_lawful
example : Lawful primQC := primQC_lawful
/-- the extra hypothesis of `lacon_ge_low` / `rcond_le_one` holds for both exact instances -/
example : ∀ x : Array Rat, 0 < x.size → primQ.imax x < x.size := primQ_imax
example : ∀ x : Array (Cx Rat), 0 < x.size → primQC.imax x < x.size := primQC_imax
/-- `rcond_le_one` on the identity: the solves are the identity, `anorm = 1` -/
example : gscon primQ 0 1 true id id 3 1 ≤ 1 :=
  (rcond_le_one primQ primQ_lawful primQ_imax 3 (by decide) true id id (fun _ h => h) (fun _ h => h) 1 (by norm_num)
    (fun x _ => by simp)).2

end Slu.Lacon
