import Slu.Model.Lacon
import Slu.Model.Cond
import SluProofs.Lemmas.Lacon
import SluProofs.Lemmas.Cond
import SluProofs.Lemmas.FoldCongr
/-
C12 — Condition estimate is a valid one-sided bound; growth factor matches factors.

Theorems are about `Slu.Lacon.step/run/gscon` (the state machine compared bit for bit with
`[sdcz]lacon2_` on every run), `Slu.Lacon.normChar/warnInfo` (glue of `[sdcz]gssvx`) and
`Slu.Cond.pivotGrowth` (compared bit for bit with `[sdcz]PivotGrowth`), in exact arithmetic, for every
size `n`, every pair of maps handed to the reverse-communication loop, every magnitude obeying
`Lawful` (|x| on `Rat`, |re|+|im| on `Cx Rat`; the complex modulus obeys the same laws).
-/
namespace Slu.Lacon
open Slu

variable {K : Type}

/-- **C12 (termination).** Whatever the caller writes into `x` between the calls, the estimator
returns `kase = 0` within `maxCalls = 12` calls (start, first product, first transposed product,
at most four rounds of product + transposed product, final alternating-sign product). -/
theorem lacon_terminates (P : Prim K Rat) (T Tt : Array K → Array K) (n : Nat) (est0 : Rat) :
    (run P T Tt maxCalls (init P n est0)).kase = 0 :=
  run_terminates P T Tt maxCalls (init P n est0) (Or.inl rfl) (by simp [mu, init, maxCalls])

/-- more fuel changes nothing: the loop has already stopped -/
theorem lacon_terminates_any (P : Prim K Rat) (T Tt : Array K → Array K) (n : Nat) (est0 : Rat) (fuel : Nat)
    (h : maxCalls ≤ fuel) : (run P T Tt fuel (init P n est0)).kase = 0 :=
  run_terminates P T Tt fuel (init P n est0) (Or.inl rfl) (by simpa [mu, init, maxCalls] using h)

/-- **C12 (one-sided bound).** For every `n ≥ 1` and every pair of maps `T`, `Tt` on vectors of
length `n` with `‖T x‖₁ ≤ N ‖x‖₁` (nothing is assumed about `Tt`), the estimate returned by the
reverse-communication loop satisfies `0 ≤ est ≤ N`: every candidate the machine can return is
`‖T w‖₁ / ‖w‖₁` for a vector it built itself — the uniform vector, a unit vector, or the
alternating-sign vector of 1-norm `3n/2` whose candidate is `2‖T w‖₁/(3n)`. -/
theorem lacon_le_norm (P : Prim K Rat) (hP : Lawful P) (n : Nat) (hn : 1 ≤ n)
    (T Tt : Array K → Array K)
    (hsT : ∀ x, x.size = n → (T x).size = n) (hsTt : ∀ x, x.size = n → (Tt x).size = n)
    (N : Rat) (hT : ∀ x, x.size = n → P.asum (T x) ≤ N * P.asum x) :
    let s := run P T Tt maxCalls (init P n 0)
    s.kase = 0 ∧ 0 ≤ s.est ∧ s.est ≤ N := by
  intro s
  have hk : s.kase = 0 := lacon_terminates P T Tt n 0
  -- N is nonnegative: apply the hypothesis to the uniform vector
  have hN : 0 ≤ N := by
    have h1 := hT (Array.replicate n (P.ninv n)) (by simp)
    rw [hP.asum_uniform n hn, mul_one] at h1
    exact le_trans (hP.asum_nonneg _) h1
  have hready : Ready P n N (init P n 0) :=
    ⟨by simp [init], Or.inl ⟨rfl, le_rfl, hN⟩⟩
  exact ⟨hk, run_est P hP n N hn hN T Tt hsT hsTt hT maxCalls _ hready hk⟩

/-- the estimate is non-negative for every caller (no hypothesis on the maps) — used for FERR -/
theorem lacon_est_nonneg (P : Prim K Rat) (hP : Lawful P) (T Tt : Array K → Array K) (n : Nat) :
    0 ≤ (run P T Tt maxCalls (init P n 0)).est :=
  run_est_nonneg P hP T Tt maxCalls (init P n 0) le_rfl

/-- **C12 (rcond is one-sided).** `gscon` with solves whose forward map satisfies the bound `N`
returns `rcond ≥ (1/N)/anorm` (or the estimate was zero and `rcond = 0` is returned, which the
driver reports as singular to working precision). -/
theorem gscon_one_sided (P : Prim K Rat) (hP : Lawful P) (n : Nat) (hn : 1 ≤ n) (onenrm : Bool)
    (solveN solveT : Array K → Array K)
    (hsN : ∀ x, x.size = n → (solveN x).size = n) (hsT : ∀ x, x.size = n → (solveT x).size = n)
    (N anorm : Rat) (hN : 0 < N) (ha : 0 < anorm)
    (hT : ∀ x, x.size = n → P.asum ((if onenrm then solveN else solveT) x) ≤ N * P.asum x) :
    let r := gscon P 0 1 onenrm solveN solveT n anorm
    r = 0 ∨ (1 / N) / anorm ≤ r := by
  intro r
  have hn0 : n ≠ 0 := by omega
  have hs1 : ∀ x, x.size = n → ((if onenrm then solveN else solveT) x).size = n := by
    cases onenrm <;> simpa using by assumption
  have hs2 : ∀ x, x.size = n → ((if onenrm then solveT else solveN) x).size = n := by
    cases onenrm <;> simpa using by assumption
  obtain ⟨_, h0, h1⟩ := lacon_le_norm P hP n hn _ _ hs1 hs2 N hT
  have hr : r = if (run P (if onenrm then solveN else solveT) (if onenrm then solveT else solveN) maxCalls (init P n 0)).est != 0
      then (1 / (run P (if onenrm then solveN else solveT) (if onenrm then solveT else solveN) maxCalls (init P n 0)).est) / anorm else 0 := by
    simp only [r, gscon, hn0, if_false]
  generalize (run P (if onenrm then solveN else solveT) (if onenrm then solveT else solveN) maxCalls (init P n 0)).est = E at h0 h1 hr
  rw [hr]
  by_cases hz : E = 0
  · left; simp [hz]
  · right
    have hpos : 0 < E := lt_of_le_of_ne h0 (Ne.symm hz)
    have hb : (E != 0) = true := by simpa using hz
    rw [if_pos hb]
    exact div_le_div_of_nonneg_right (one_div_le_one_div_of_le hpos h1) (le_of_lt ha)

/-- **C12 (warning).** `info = n+1` exactly when `rcond < eps`, otherwise `info` stays 0. -/
theorem rcond_warn_iff (rcond eps : Rat) (n : Nat) :
    (warnInfo rcond eps n = n + 1 ↔ rcond < eps) ∧ (warnInfo rcond eps n = 0 ↔ ¬ rcond < eps) := by
  unfold warnInfo
  by_cases h : rcond < eps <;> simp [h]

/-- **C12 (norm selection).** The one norm is used exactly when the effective transpose after the
storage flip is NOTRANS, i.e. for column storage with `Trans = N` and for row storage with
`Trans ≠ N`; otherwise the infinity norm.  (`AA` is `A` resp. `A'`, so in every case the norm is the
one norm of `op(A)` or of its transpose's transpose — see `effTrans_spec`.) -/
theorem norm_selection (rowStored : Bool) (t : Trans) :
    (normChar rowStored t = '1' ↔ (rowStored = false ∧ t = .N) ∨ (rowStored = true ∧ t ≠ .N)) ∧
    (normChar rowStored t = 'I' ↔ ¬ ((rowStored = false ∧ t = .N) ∨ (rowStored = true ∧ t ≠ .N))) := by
  cases rowStored <;> cases t <;> simp [normChar, effTrans]

/-- the transpose handed to the solver: unchanged for column storage; for row storage (the factored
matrix is `A'`) NOTRANS becomes TRANS and TRANS / CONJ become NOTRANS -/
theorem effTrans_spec (rowStored : Bool) (t : Trans) :
    effTrans rowStored t =
      (if rowStored then (if t = .N then (.T, false) else (.N, true)) else (t, decide (t = .N))) := by
  cases rowStored <;> cases t <;> simp [effTrans]

/-! ### reciprocal pivot growth -/

end Slu.Lacon
namespace Slu.Cond
open Slu

/-- on a supernode that stores at least as many rows as the column's offset (always the case in a
nonsingular factorization) the guarded decoder is `LUFac.decodeU` -/
theorem decodeUg_eq (F : LUFac Rat) (i j : Nat) (h : j - F.L.fsupc j < F.L.nsupr j) :
    decodeUg F i j = F.decodeU i j := by
  unfold decodeUg LUFac.decodeU
  dsimp only
  split
  · rfl
  · split
    · rename_i h1 h2
      have : i - F.L.fsupc j < F.L.nsupr j := by omega
      simp [this]
    · rfl

/-- the update of `rpg` by one column, as the property states it: `min(rpg, max|A_j| / max|U_j|)`,
with the library's convention `min(rpg, 1)` for an all-zero column of U -/
def growthStep (A : CSC Rat) (inv : Array Nat) (F : LUFac Rat) (rpg : Rat) (j : Nat) : Rat :=
  let maxaj := colMaxAbs (R := Rat) A (inv.getD j 0)
  let maxuj := colMaxUspec F j
  if maxuj = 0 then min rpg 1 else min rpg (maxaj / maxuj)

/-- **C12 (growth factor, per column).** For a column `j = fsupc + d` of a supernode whose slices
are laid out as the scan assumes, the scan's update of `rpg` is `min(rpg, max|A_j| / max|U_j|)` with
`max|U_j|` the largest magnitude in column `j` (rows `0..j`) of the decoded upper factor — whether
the entries sit in column storage (rows above the supernode) or in the supernodal rectangle, and
also when the supernode stores fewer rows than columns (singular factorization). -/
theorem pivotGrowth_column_spec (A : CSC Rat) (inv : Array Nat) (F : LUFac Rat) (fsupc luptr nsupr d : Nat) (rpg : Rat)
    (hf : F.L.fsupc (fsupc + d) = fsupc)
    (hx : F.L.xlusup[fsupc + d]! = luptr + d * nsupr) (hn : F.L.nsupr (fsupc + d) = nsupr)
    (hnd : ((F.U.col (fsupc + d)).map Prod.fst).Nodup) (habove : ∀ e ∈ F.U.col (fsupc + d), e.1 < fsupc) :
    pgColumn (R := Rat) A inv F fsupc luptr nsupr rpg d = growthStep A inv F rpg (fsupc + d) := by
  unfold pgColumn growthStep
  dsimp only
  rw [colMaxU_spec F (fsupc + d) fsupc luptr nsupr d hf (by omega) (by omega) hx hn hnd habove]
  simp only [smin_eq_min, beq_iff_eq]

/-
**C12 (growth factor, whole scan) — goal, not yet proved (`pivotGrowth_spec_goal`).**
  For well-formed supernodal storage (`xsup[0] = 0`, `xsup` strictly increasing up to
  `xsup[nsuper+1] = n`, `fsupc j = xsup[k]` for `xsup[k] ≤ j < xsup[k+1]`,
  `xlusup[j] = xlusup[fsupc] + (j - fsupc) * nsupr`, U's column rows distinct and above the supernode):
    pivotGrowth ncols A perm_c F sml
      = (List.range (min ncols n)).foldl (growthStep A (invPerm perm_c n) F) (1 / sml)
  i.e. the loop over supernodes with the `nz_in_U` counter and the early `break` visits exactly the
  columns `0 .. min(ncols,n)-1`, each once.  Proved above: each visited column contributes
  `growthStep` (`pivotGrowth_column_spec`).  Missing: flattening of the two nested loops into one range
  (concatenation of the ranges `[xsup k, xsup (k+1))`).  The correspondence check compares the whole
  scan bit for bit with `[sdcz]PivotGrowth` and, in exact rationals, with the right-hand side above.
-/

/-- the part of the whole-scan statement that is proved: one supernode = a fold of `growthStep` over
its columns below `ncols` -/
theorem pivotGrowth_spec_partial (ncols : Nat) (A : CSC Rat) (inv : Array Nat) (F : LUFac Rat) (rpg : Rat) (k : Nat)
    (hwf : ∀ d, d < min (F.L.xsup.getD (k + 1) 0) ncols - F.L.xsup.getD k 0 →
      F.L.fsupc (F.L.xsup.getD k 0 + d) = F.L.xsup.getD k 0 ∧
      F.L.xlusup[F.L.xsup.getD k 0 + d]! = F.L.xlusup.getD (F.L.xsup.getD k 0) 0 +
        d * (F.L.xlsub.getD (F.L.xsup.getD k 0 + 1) 0 - F.L.xlsub.getD (F.L.xsup.getD k 0) 0) ∧
      F.L.nsupr (F.L.xsup.getD k 0 + d) = F.L.xlsub.getD (F.L.xsup.getD k 0 + 1) 0 - F.L.xlsub.getD (F.L.xsup.getD k 0) 0 ∧
      ((F.U.col (F.L.xsup.getD k 0 + d)).map Prod.fst).Nodup ∧
      ∀ e ∈ F.U.col (F.L.xsup.getD k 0 + d), e.1 < F.L.xsup.getD k 0) :
    (pgSuper (R := Rat) ncols A inv F rpg k).1 =
      ((List.range (min (F.L.xsup.getD (k + 1) 0) ncols - F.L.xsup.getD k 0)).map (F.L.xsup.getD k 0 + ·)).foldl
        (growthStep A inv F) rpg := by
  unfold pgSuper
  dsimp only
  rw [List.foldl_map]
  apply Slu.Refine.foldl_congr_mem
  intro d hd acc
  obtain ⟨h1, h2, h3, h4, h5⟩ := hwf d (List.mem_range.mp hd)
  exact pivotGrowth_column_spec A inv F _ _ _ d acc h1 h2 h3 h4 h5

end Slu.Cond
namespace Slu.Lacon
open Slu
variable {K : Type}

/-! ### non-vacuity: the hypotheses are satisfiable and the machine really runs -/

/-- the identity map has bound 1 -/
example : ∀ x : Array Rat, x.size = 3 → primQ.asum (id x) ≤ 1 * primQ.asum x := fun x _ => by simp
example : (run primQ id id maxCalls (init primQ 3 0)).est = 1 := by decide +kernel
/-- `T = 2·` has bound 2 and the estimate is exactly 2 -/
example : (run primQ (fun x => x.map (2 * ·)) (fun x => x.map (2 * ·)) maxCalls (init primQ 4 0)).est = 2 := by decide +kernel
example : (run primQ (fun x => x.map (2 * ·)) (fun x => x.map (2 * ·)) maxCalls (init primQ 4 0)).kase = 0 := by decide +kernel
example : Lawful primQ := primQ_lawful
example : Lawful primQC := primQC_lawful

end Slu.Lacon
