import Slu.Model.Ilu
import SluProofs.Lemmas.Ilu
import SluProofs.Props.C14
/-
C15 — Incomplete LU never breaks down and is exact when dropping is off.
-/
namespace Slu.Ilu
open Slu Slu.Kernels

/-! ### MC64 glue of gsisx -/

/-- **C15 (row indices restored).** `[sdcz]gsisx` replaces every row index `r` of the caller's A by
`perm[r]` before the factorization and by `iperm[.]` afterwards; for every permutation `perm` of
`0..n-1` and every index array with entries below `n` the caller gets its own row indices back. -/
theorem gsisx_rowind_restored (n : Nat) (perm rowind : Array Nat) (h : PermOn n perm)
    (hr : ∀ k, k < rowind.size → rowind[k]! < n) :
    restoreRows perm (permuteRows perm rowind) = rowind := by
  unfold restoreRows permuteRows
  apply Array.ext
  · simp
  · intro k h1 h2
    simp only [Array.getElem_map]
    have hk : rowind[k]! < n := hr k h2
    have : rowind[k]! = rowind[k] := by simp [h2]
    rw [← this]
    exact invPerm_perm n perm h _ hk

/-- the core identity used above: `iperm (perm i) = i` -/
theorem gsisx_iperm_perm (n : Nat) (perm : Array Nat) (h : PermOn n perm) (i : Nat) (hi : i < n) :
    (invPerm perm)[perm[i]!]! = i := invPerm_perm n perm h i hi

/-- **C15 (permutations are bijections).** Folding MC64's permutation into the pivoting permutation,
`perm_r := perm_r ∘ perm`, gives again a permutation of `0..n-1`: injective, into range, onto. -/
theorem ilu_perm_bij (n : Nat) (permr perm : Array Nat) (hr : PermOn n permr) (hp : PermOn n perm) :
    PermOn n (foldPerm permr perm) ∧ ∀ v, v < n → ∃ i, i < n ∧ (foldPerm permr perm)[i]! = v := by
  have hP : PermOn n (foldPerm permr perm) := by
    refine ⟨by simp [foldPerm, hp.1], ?_, ?_⟩
    · intro i hi
      rw [foldPerm_get permr perm i (by rw [hp.1]; exact hi)]
      exact hr.2.1 _ (hp.2.1 i hi)
    · intro i j hi hj hij
      rw [foldPerm_get permr perm i (by rw [hp.1]; exact hi), foldPerm_get permr perm j (by rw [hp.1]; exact hj)] at hij
      exact hp.2.2 i j hi hj (hr.2.2 _ _ (hp.2.1 i hi) (hp.2.1 j hj) hij)
  exact ⟨hP, permOn_surj n _ hP⟩

/-- the folded permutation sends an ORIGINAL row `i` of A to the pivot position of the permuted row -/
theorem ilu_fold_spec (permr perm : Array Nat) (i : Nat) (hi : i < perm.size) :
    (foldPerm permr perm)[i]! = permr[perm[i]!]! := foldPerm_get permr perm i hi

/-! ### the pivot policy never fails -/

/-- **C15 (the pivot policy is total).** `ilu_[sd]pivotL` in exact arithmetic, every MILU variant,
any threshold `u`, with or without a remembered pivot: whenever the column has an eligible candidate
row (a row that does not belong to a later relaxed supernode) — and `drop_sum ≥ 0` in the variants
that treat it as a sum of magnitudes — the routine returns a pivot position inside the column, the
value it leaves at the pivot is NONZERO, and either the return value is 0, or it is `jcol+1` and the
pivot holds the replacement value `fill_tol` (> 0). -/
theorem ilu_pivot_total (inp : PivIn Rat Rat) (hfill : 0 < inp.fillTol)
    (hds : inp.milu = Milu.smilu2 ∨ inp.milu = Milu.smilu3 → 0 ≤ inp.dropSum)
    (hc : ∃ k, k < inp.cands.length ∧ (inp.cands[k]!).elig = true) :
    ∃ p, (realPivot inp).pos = some p ∧ p < inp.cands.length ∧ (realPivot inp).pivVal ≠ 0 ∧
      ((realPivot inp).ret = 0 ∨
        ((realPivot inp).ret = inp.jcol + 1 ∧ (realPivot inp).pivVal = inp.fillTol)) := by
  have inv := scanInv_scanTo inp inp.cands.length
  rw [← scan_eq_scanTo] at inv
  obtain ⟨k0, hk0, hel⟩ := hc
  have hlen : 0 < inp.cands.length := by omega
  rcases inv.alt with ⟨_, _, h3⟩ | ⟨h1, h2, h3, p0, h4, h5⟩
  · have := h3 k0 hk0; unfold eligAt at this; rw [hel] at this; cases this
  · have hpm0 : 0 ≤ (if inp.milu.absVariant = true then (scan inp).pivmax + inp.dropSum else (scan inp).pivmax) := by
      split
      · rename_i hm
        have : 0 ≤ inp.dropSum := hds (by
          cases hmi : inp.milu <;> simp [hmi, Milu.absVariant] at hm ⊢)
        linarith
      · exact h1
    unfold realPivot realPivotG iluPivotChoice
    simp only []
    generalize hpm : (if inp.milu.absVariant = true then (scan inp).pivmax + inp.dropSum else (scan inp).pivmax) = pm at hpm0 ⊢
    rw [if_neg (not_lt.mpr hpm0)]
    by_cases hz : pm = 0
    · -- zero pivot: diagonal, else the first eligible candidate; value fill_tol
      subst hz
      simp only [beq_self_eq_true, if_true]
      cases hd : (scan inp).diag with
      | some d =>
        simp only []
        exact ⟨d, by simp, inv.diag_lt d hd, by simpa using ne_of_gt hfill, Or.inr ⟨by simp, by simp⟩⟩
      | none =>
        simp only [h4]
        exact ⟨p0, by simp, h5, by simpa using ne_of_gt hfill, Or.inr ⟨by simp, by simp⟩⟩
    · have hpos : 0 < pm := lt_of_le_of_ne hpm0 (Ne.symm hz)
      have hbeq : (pm == 0) = false := by simpa using hz
      simp only [hbeq, Bool.false_eq_true, if_false]
      have hcp := choosePtr_spec inp (fun p => inp.u * p) inp.dropSum pm hpos hpm hlen inv h2 h3
      refine ⟨_, rfl, hcp.1, ?_, Or.inl trivial⟩
      exact reset_ne_zero inp.milu inp.dropSum _ (fun hm => hds (by
        cases hmi : inp.milu <;> simp [hmi, Milu.absVariant] at hm ⊢)) hcp.2

/-- **C15 (the pivot policy is total, complex routines).** `ilu_[cz]pivotL` in exact arithmetic over the
Gaussian rationals, for EVERY function `t` standing for the modulus `z_abs` used by `z_sgn` that is
non-negative and vanishes only at zero: every MILU variant, any threshold, with or without a remembered
pivot; whenever the column has an eligible candidate row — and, in the variants where `drop_sum` is a
sum of magnitudes, `drop_sum = d + 0i` with `d ≥ 0` — the routine returns a pivot position inside the
column, the value it leaves at the pivot is NONZERO (the SMILU_2/3 reset adds `z_sgn(pivot) * drop_sum`,
which cannot cancel the pivot), and either the return value is 0, or it is `jcol+1` and the pivot holds
the replacement value `fill_tol + 0i`. -/
theorem ilu_pivot_total_complex (t : Cx Rat → Rat) (ht0 : ∀ z, 0 ≤ t z) (ht : ∀ z, t z = 0 ↔ z = 0)
    (inp : PivIn (Cx Rat) Rat) (hfill : 0 < inp.fillTol)
    (hds : inp.milu = Milu.smilu2 ∨ inp.milu = Milu.smilu3 → 0 ≤ inp.dropSum.re ∧ inp.dropSum.im = 0)
    (hc : ∃ k, k < inp.cands.length ∧ (inp.cands[k]!).elig = true) :
    ∃ p, (complexPivot t inp).pos = some p ∧ p < inp.cands.length ∧ (complexPivot t inp).pivVal ≠ 0 ∧
      ((complexPivot t inp).ret = 0 ∨
        ((complexPivot t inp).ret = inp.jcol + 1 ∧ (complexPivot t inp).pivVal = ⟨inp.fillTol, 0⟩)) := by
  have inv := scanInv_scanTo inp inp.cands.length
  rw [← scan_eq_scanTo] at inv
  obtain ⟨k0, hk0, hel⟩ := hc
  have hlen : 0 < inp.cands.length := by omega
  have hfne : (⟨inp.fillTol, 0⟩ : Cx Rat) ≠ 0 := by
    intro hc
    have := congrArg Cx.re hc
    simp only [Cx.zero_def] at this
    linarith
  have habs : inp.milu.absVariant = true → 0 ≤ inp.dropSum.re ∧ inp.dropSum.im = 0 := fun hm => hds (by
    cases hmi : inp.milu <;> simp [hmi, Milu.absVariant] at hm ⊢)
  rcases inv.alt with ⟨_, _, h3⟩ | ⟨h1, h2, h3, p0, h4, h5⟩
  · have := h3 k0 hk0; unfold eligAt at this; rw [hel] at this; cases this
  · have hpm0 : 0 ≤ (if inp.milu.absVariant = true then (scan inp).pivmax + inp.dropSum.re else (scan inp).pivmax) := by
      split
      · rename_i hm
        have := (habs hm).1
        linarith
      · exact h1
    unfold complexPivot complexPivotG iluPivotChoice
    simp only []
    generalize hpm : (if inp.milu.absVariant = true then (scan inp).pivmax + inp.dropSum.re else (scan inp).pivmax) = pm at hpm0 ⊢
    rw [if_neg (not_lt.mpr hpm0)]
    by_cases hz : pm = 0
    · subst hz
      simp only [beq_self_eq_true, if_true]
      cases hd : (scan inp).diag with
      | some d =>
        simp only []
        exact ⟨d, by simp, inv.diag_lt d hd, hfne, Or.inr ⟨by simp, by simp⟩⟩
      | none =>
        simp only [h4]
        exact ⟨p0, by simp, h5, hfne, Or.inr ⟨by simp, by simp⟩⟩
    · have hpos : 0 < pm := lt_of_le_of_ne hpm0 (Ne.symm hz)
      have hbeq : (pm == 0) = false := by simpa using hz
      simp only [hbeq, Bool.false_eq_true, if_false]
      have hcp := choosePtr_spec inp (fun p => inp.u * p) inp.dropSum.re pm hpos hpm hlen inv h2 h3
      refine ⟨_, rfl, hcp.1, ?_, Or.inl trivial⟩
      exact reset_ne_zero_cx t ht0 ht inp.milu inp.dropSum _ habs hcp.2

/-- the hypotheses on `t` are satisfiable (e.g. by `|re| + |im|`; over the reals by the modulus) -/
example : ∃ t : Cx Rat → Rat, (∀ z, 0 ≤ t z) ∧ (∀ z, t z = 0 ↔ z = 0) :=
  ⟨fun z => |z.re| + |z.im|, fun z => by positivity, fun z => by
    constructor
    · intro h
      have h1 : |z.re| = 0 := by linarith [abs_nonneg z.re, abs_nonneg z.im]
      have h2 : |z.im| = 0 := by linarith [abs_nonneg z.re, abs_nonneg z.im]
      cases z
      simp only at h1 h2
      rw [abs_eq_zero.mp h1, abs_eq_zero.mp h2]; rfl
    · intro h; rw [h]; simp [Cx.zero_def]⟩

/-- **C15 (the recorded pivot row is the row at the pivot position).** Whenever `ilu_[sd]pivotL` returns 0,
the row it records in `perm_r` (`*pivrow`) is the row subscript stored at the position it pivots on — with
or without a remembered pivot, whether or not the remembered row is (still) among the column's candidates.
(False of the pinned code: a remembered row that had been dropped from L was recorded while the first
candidate was used; repaired in /repo by "fix: ilu_[sdcz]pivotL ... remembered pivot row".) -/
theorem ilu_pivot_row_recorded (inp : PivIn Rat Rat) (p : Nat)
    (hp : (realPivot inp).pos = some p) (hr : (realPivot inp).ret = 0) :
    (inp.cands[p]!).row = (realPivot inp).pivrow :=
  iluPivotChoice_row_recorded inp _ _ _ _ p hp hr

/-- the same for `ilu_[cz]pivotL`, for every modulus function `t` -/
theorem ilu_pivot_row_recorded_complex (t : Cx Rat → Rat) (inp : PivIn (Cx Rat) Rat) (p : Nat)
    (hp : (complexPivot t inp).pos = some p) (hr : (complexPivot t inp).ret = 0) :
    (inp.cands[p]!).row = (complexPivot t inp).pivrow :=
  iluPivotChoice_row_recorded inp _ _ _ _ p hp hr

/-- non-vacuity: a remembered row (5) that is absent from the column; the routine abandons it and records
the row it pivots on -/
example : (realPivot ({ jcol := 0, u := 1, usepr := true, pivrowIn := 5, diagind := 9, cands := [{ row := 2, val := 1, elig := true }, { row := 3, val := 4, elig := true }], fillTol := 1, milu := Milu.silu, dropSum := 0, freeRow := none } : PivIn Rat Rat)).pivrow = 3 := 
    by decide +kernel

/-- what the routine does when NO candidate row is eligible (SILU / SMILU_1): it reports the column as
singular (`jcol+1`) WITHOUT choosing a pivot — the search for a free row of l.163-181 is not reached
in these variants (the caller guarantees an eligible candidate by inserting a fill-in position into
an entirely empty column, dgsitrf.c:447-478). -/
theorem ilu_pivot_no_candidate (inp : PivIn Rat Rat) (hm : inp.milu.absVariant = false)
    (hn : ∀ k, k < inp.cands.length → (inp.cands[k]!).elig = false) :
    (realPivot inp).ret = inp.jcol + 1 ∧ (realPivot inp).pos = none := by
  have inv := scanInv_scanTo inp inp.cands.length
  rw [← scan_eq_scanTo] at inv
  have hpm : (scan inp).pivmax = -1 := by
    rcases inv.alt with ⟨h1, _, _⟩ | ⟨_, h2, _, p0, h4, h5⟩
    · exact h1
    · exfalso
      -- ptr0 is only ever set at an eligible position; simpler: the maximum position is eligible
      have : ∀ m, m ≤ inp.cands.length → (scanTo inp m).ptr0 = none := by
        intro m hmle
        induction m with
        | zero => rfl
        | succ m ih =>
          rw [scanTo_succ]
          unfold scanStep
          simp only [hn m (by omega), Bool.not_false, if_true]
          exact ih (by omega)
      have h0 := this inp.cands.length (le_refl _)
      rw [← scan_eq_scanTo, h4] at h0
      cases h0
  unfold realPivot realPivotG iluPivotChoice
  simp only [hm, Bool.false_eq_true, if_false, hpm]
  have : (-1 : Rat) < 0 := by norm_num
  simp [this]

example : ∃ inp : PivIn Rat Rat, 0 < inp.fillTol ∧
    (inp.milu = Milu.smilu2 ∨ inp.milu = Milu.smilu3 → 0 ≤ inp.dropSum) ∧
    (∃ k, k < inp.cands.length ∧ (inp.cands[k]!).elig = true) :=
  ⟨{ jcol := 0, u := 1, usepr := false, pivrowIn := 0, diagind := 0, cands := [{ row := 0, val := 0, elig := true }],
     fillTol := 1 / 100, milu := Milu.silu, dropSum := 0, freeRow := none },
   (by norm_num), ⟨(by intro h; rcases h with h | h <;> cases h), ⟨0, (by simp), rfl⟩⟩⟩

/-! ### info -/

/-- **C15 (info).** `info` counts the columns whose pivot was replaced and never exceeds the number
of columns. -/
theorem ilu_info_le_n (rets : List Nat) : replaceCount rets ≤ rets.length := by
  unfold replaceCount
  exact List.length_filter_le _ _

/-! ### the solve -/

section solve
variable {K : Type} [Field K] [Conj K] [Inhabited K]

/-- **C15 (X is the preconditioner solve defined by the returned factors).** Whatever was dropped:
for every factor pair `F`, permutations, `trans`, `nrhs`, `ldx ≥ n`, column `j` of the X returned by
the driver's solve step is `gstrsCol F perm_c perm_r trans` applied to column `j` of what the step
was given, and the padding rows of X are untouched (C14 then says what `gstrsCol` computes). -/
theorem ilu_solve_is_LU_solve (F : LUFac K) (permc permr : Array Nat) (tr : Tr) (ldx nrhs : Nat) (X : Array K)
    (hld : F.L.n ≤ ldx) (hX : ldx * nrhs ≤ X.size) :
    (∀ j i, j < nrhs → i < F.L.n →
      (gstrs (gstrsCol F permc permr tr) F.L.n ldx nrhs X)[ldx * j + i]! =
        (gstrsCol F permc permr tr (slice X (ldx * j) F.L.n))[i]!) ∧
    (∀ p, p < X.size → (ldx * nrhs ≤ p ∨ F.L.n ≤ p % ldx) →
      (gstrs (gstrsCol F permc permr tr) F.L.n ldx nrhs X)[p]! = X[p]!) := by
  have h := gstrs_columns_independent (gstrsCol F permc permr tr) F.L.n ldx nrhs X
    (fun v => gstrsCol_size F permc permr tr v) hld hX
  exact ⟨h.2.1, h.2.2⟩
end solve

end Slu.Ilu
